/-
  The relation-oid ↦ name table of FindDroppedColumns against the specification's `drRelNameOf`, from the pg_class
  reader hypothesis of C01 (`rows.map infoOfRow = live.map infoOfRel`).
-/
import PgVerif.Proofs.Dropped
import PgVerif.Proofs.ClusterClass
namespace PgVerif.Proofs.Dropped
open PgVerif PgVerif.Model PgVerif.Spec PgVerif.Proofs.Cluster List

theorem mapGet_mapPut {β} (m : List (Nat × β)) (k k' : Nat) (v : β) :
    mapGet (mapPut m k v) k' = if k' = k then some v else mapGet m k' := by
  induction m with
  | nil =>
    by_cases h : k' = k
    · subst h; simp [mapGet, mapPut]
    · have : (k' == k) = false := by simpa using h
      simp [mapGet, mapPut, List.lookup, this, h]
  | cons e rest ih =>
    obtain ⟨k0, v0⟩ := e
    unfold mapPut
    by_cases h0 : k0 = k
    · rw [if_pos h0]
      subst h0
      by_cases h : k' = k0
      · subst h; simp [mapGet, List.lookup]
      · have : (k' == k0) = false := by simpa using h
        simp [mapGet, List.lookup, this, h]
    · rw [if_neg h0]
      by_cases h : k' = k0
      · subst h
        have : ¬ k' = k := h0
        simp [mapGet, List.lookup, this]
      · have hb : (k' == k0) = false := by simpa using h
        have := ih
        simp only [mapGet] at this ⊢
        simp only [List.lookup, hb]
        exact this

/-- `for _, t := range list { names[t.OID] = t.Name }` on relations with pairwise distinct oids: the name of the
relation with that oid, or what the map held before -/
theorem names_foldl (P : List TableInfo) (hnd : (P.map (·.oid)).Nodup) (m0 : List (Nat × Bytes)) (k : Nat) :
    mapGet (P.foldl (fun m t => mapPut m t.oid t.name) m0) k =
      match P.find? (fun t => t.oid == k) with
      | some t => some t.name
      | none => mapGet m0 k := by
  induction P generalizing m0 with
  | nil => rfl
  | cons t P ih =>
    simp only [List.map_cons, List.nodup_cons] at hnd
    rw [List.foldl_cons, ih hnd.2]
    by_cases hk : t.oid = k
    · have hnone : P.find? (fun t => t.oid == k) = none := by
        rw [List.find?_eq_none]
        intro x hx hxk
        have : x.oid = k := by simpa using hxk
        exact hnd.1 (List.mem_map.mpr ⟨x, hx, by rw [this, hk]⟩)
      have hb : (t.oid == k) = true := by simpa using hk
      simp only [hnone, List.find?_cons, hb]
      rw [mapGet_mapPut, if_pos hk.symm]
    · have hb : (t.oid == k) = false := by simpa using hk
      simp only [List.find?_cons, hb]
      cases P.find? (fun t => t.oid == k) with
      | some x => rfl
      | none =>
        simp only
        rw [mapGet_mapPut, if_neg (fun h => hk h.symm)]

/-- looking an oid up does not depend on the order of a list with pairwise distinct oids -/
theorem find_oid_perm (P T : List TableInfo) (hp : P ~ T) (hnd : (T.map (·.oid)).Nodup) (k : Nat) :
    P.find? (fun t => t.oid == k) = T.find? (fun t => t.oid == k) := by
  have hinj := nodup_map_inj (·.oid) T hnd
  cases hT : T.find? (fun t => t.oid == k) with
  | none =>
    rw [List.find?_eq_none] at hT ⊢
    intro x hx
    exact hT x (hp.subset hx)
  | some x =>
    have hxT := List.mem_of_find?_eq_some hT
    have hxk : x.oid = k := by simpa using List.find?_some hT
    cases hP : P.find? (fun t => t.oid == k) with
    | none =>
      rw [List.find?_eq_none] at hP
      exact absurd (by simpa using hxk) (hP x (hp.symm.subset hxT))
    | some y =>
      have hyP := List.mem_of_find?_eq_some hP
      have hyk : y.oid = k := by simpa using List.find?_some hP
      rw [hinj y (hp.subset hyP) x hxT (by rw [hyk, hxk])]

/-- **The table names.**  If the row reader hands ParsePGClass the live pg_class rows of `d` (C01's reader hypothesis)
and `d` is well-formed (live rows have pairwise distinct oids; those with storage pairwise distinct filenodes), the
oid ↦ name table FindDroppedColumns builds names every relation as the specification does — for every iteration
order of Go's table map. -/
theorem tableNames_exact (rr : RowReader) (π : MapOrder TableInfo) (hπ : ∀ l, π l ~ l) (cd : Bytes) (rows : List Row)
    (d : DbContent) (hr : rr cd schemaPGClass true = .ok rows) (hrows : rows.map infoOfRow = d.cls.live.map infoOfRel)
    (hnd : ((d.cls.live.filter (·.filenode != 0)).map (·.filenode)).Nodup) (hoid : (d.cls.live.map (·.oid)).Nodup) :
    ∃ tables, parsePGClass rr cd = .ok tables ∧
      ∀ relid, (mapGet (drTableNamesOf π tables) relid).getD [] = drRelNameOf d relid := by
  obtain ⟨tables, ht, hvals⟩ := parsePGClass_live rr cd rows d.cls.live hr hrows hnd
  refine ⟨tables, ht, ?_⟩
  intro relid
  let T := (d.cls.live.filter (·.filenode != 0)).map infoOfRel
  have hperm : tablesOf π tables ~ T := by
    unfold tablesOf
    rw [sortByFilenode_eq]
    exact (sortBy_perm _ _).trans (((hπ tables).map _).trans (by rw [hvals]))
  have hTnd : (T.map (·.oid)).Nodup := by
    have : T.map (·.oid) = (d.cls.live.filter (·.filenode != 0)).map (·.oid) := by
      simp only [T, List.map_map]; rfl
    rw [this]
    exact (List.filter_sublist.map _).nodup hoid
  have hPnd : ((tablesOf π tables).map (·.oid)).Nodup := (hperm.map _).nodup_iff.mpr hTnd
  unfold drTableNamesOf
  rw [names_foldl _ hPnd [] relid, find_oid_perm _ T hperm hTnd relid]
  unfold drRelNameOf
  -- both sides look the oid up among the live relations with storage
  have hfind : T.find? (fun t => t.oid == relid) =
      (d.cls.live.find? (fun r => r.oid == relid && r.filenode != 0)).map infoOfRel := by
    simp only [T]
    rw [List.find?_map, List.find?_filter]
    have hpred : (fun a : ClassRow => decide ((a.filenode != 0) = true ∧ ((fun t : TableInfo => t.oid == relid) ∘ infoOfRel) a = true)) =
        fun r : ClassRow => r.oid == relid && r.filenode != 0 := by
      funext r
      simp only [Function.comp, infoOfRel]
      cases h1 : (r.filenode != 0)
      · simp
      · simp
        by_cases h2 : r.oid = relid <;> simp [h2]
    rw [hpred]
  rw [hfind]
  cases d.cls.live.find? (fun r => r.oid == relid && r.filenode != 0) with
  | none => rfl
  | some r => rfl

end PgVerif.Proofs.Dropped
