/-
  Topic E9 — helper lemmas about Model/ExtraToast.lean (AnalyzeTOAST): totality, what each reported entry is, and
  that its tallies are those of GetTOASTVerboseInfo.  Property theorems are in Props/C10/Extra.lean and Props/C08Extra.lean.
-/
import PgVerif.Model.ExtraToast
import PgVerif.Props.C10.Cluster
import PgVerif.Props.C10.Heap
import PgVerif.Props.C10.Toast
import PgVerif.Proofs.Heap
namespace PgVerif.Proofs.Extra
open PgVerif PgVerif.Model PgVerif.Model.Extra PgVerif.Model.Toast

/-- what AnalyzeTOAST's loop body computes for one tuple, as a plain function (no fault): the relation id it reads at
tuple-data offset 48 and, when that relation has a readable file holding at least one chunk, the tallies -/
def analyzeEntryResult (fs : Bytes → Option Bytes) (dbOID : Nat) (e : TupleEntry) (chunksOf : Bytes → List Chunk) : Option TOASTInfo :=
  if e.tuple.data.length < 60 then none
  else
    let relid := rd 4 (e.tuple.data.drop 48)
    if relid = 0 then none
    else match fs (basePath dbOID relid) with
      | none => none
      | some d => if (chunksOf d).length = 0 then none else some (toastTally relid (chunksOf d))

theorem analyzeEntry_total (fs : Bytes → Option Bytes) (dbOID : Nat) (e : TupleEntry) :
    ∃ r, analyzeEntry fs dbOID e = .ok r := by
  unfold analyzeEntry
  by_cases h : e.tuple.data.length < 60
  · rw [if_pos h]; exact ⟨_, rfl⟩
  · rw [if_neg h, uN_ok 4 e.tuple.data 48 (by omega)]
    simp only [ok_bind]
    by_cases h0 : rd 4 (List.drop 48 e.tuple.data) = 0
    · rw [if_pos h0]; exact ⟨_, rfl⟩
    · rw [if_neg h0]
      cases fs (basePath dbOID (rd 4 (List.drop 48 e.tuple.data))) with
      | none => exact ⟨_, rfl⟩
      | some d =>
        simp only
        obtain ⟨cs, hcs⟩ := Props.C10.Toast.C10_total_readTOASTTable d
        simp only [hcs, ok_bind]
        by_cases hl : cs.length = 0
        · rw [if_pos hl]; exact ⟨_, rfl⟩
        · rw [if_neg hl]; exact ⟨_, rfl⟩

/-- the loop body, when the TOAST reader's answers are known -/
theorem analyzeEntry_eq (fs : Bytes → Option Bytes) (dbOID : Nat) (e : TupleEntry) (chunksOf : Bytes → List Chunk)
    (hc : ∀ d, readTOASTTable d = .ok (chunksOf d)) :
    analyzeEntry fs dbOID e = .ok (analyzeEntryResult fs dbOID e chunksOf) := by
  unfold analyzeEntry analyzeEntryResult
  by_cases h : e.tuple.data.length < 60
  · rw [if_pos h, if_pos h]; rfl
  · rw [if_neg h, if_neg h, uN_ok 4 e.tuple.data 48 (by omega)]
    simp only [ok_bind]
    by_cases h0 : rd 4 (List.drop 48 e.tuple.data) = 0
    · rw [if_pos h0, if_pos h0]; rfl
    · rw [if_neg h0, if_neg h0]
      cases fs (basePath dbOID (rd 4 (List.drop 48 e.tuple.data))) with
      | none => rfl
      | some d =>
        simp only [hc d, ok_bind]
        by_cases hl : (chunksOf d).length = 0
        · rw [if_pos hl, if_pos hl]; rfl
        · rw [if_neg hl, if_neg hl]; rfl

theorem analyzeTOAST_total (rr : RowReader) (h : Props.C10.Cluster.TotalReader rr) (fs : Bytes → Option Bytes) (dbName : Bytes) :
    ∃ r, analyzeTOAST rr fs dbName = .ok r := by
  unfold analyzeTOAST
  cases fs pathGlobal1262 with
  | none => exact ⟨_, rfl⟩
  | some dbData =>
    simp only
    obtain ⟨dbs, hd⟩ := Props.C10.Cluster.C10_total_parsePGDatabase rr h dbData
    simp only [hd, ok_bind]
    by_cases h0 : findDbOID dbs dbName = 0
    · rw [if_pos h0]; exact ⟨_, rfl⟩
    · rw [if_neg h0]
      cases fs (basePath (findDbOID dbs dbName) 1259) with
      | none => exact ⟨_, rfl⟩
      | some classData =>
        simp only
        obtain ⟨es, hes⟩ := Props.C10.Heap.C10_total_readTuples classData true
        obtain ⟨r, hr⟩ := collectM_total (analyzeEntry fs (findDbOID dbs dbName)) es (analyzeEntry_total fs _)
        simp only [hes, hr, ok_bind, pure_eq_ok]
        exact ⟨_, rfl⟩

/-! ### the tallies are GetTOASTVerboseInfo's -/

theorem groupInsert_keys (m : List (Nat × List Chunk)) (c : Chunk) :
    (groupInsert m c).map (·.1) = idSetInsert (m.map (·.1)) c.id := by
  unfold groupInsert idSetInsert
  have hany : m.any (·.1 == c.id) = (m.map (·.1)).contains c.id := by
    induction m with
    | nil => rfl
    | cons kv rest ih =>
      simp only [List.any_cons, List.map_cons, List.contains_cons, ih]
      rw [Bool.beq_comm]
  rw [← hany]
  by_cases h : m.any (·.1 == c.id) = true
  · rw [if_pos h, if_pos h, List.map_map]
    apply List.map_congr_left
    intro kv _
    simp only [Function.comp]
    by_cases hk : (kv.1 == c.id) = true
    · rw [if_pos hk]
    · rw [if_neg hk]
  · rw [if_neg h, if_neg h]
    simp

theorem foldl_groupInsert_keys (cs : List Chunk) : ∀ m : List (Nat × List Chunk),
    (cs.foldl groupInsert m).map (·.1) = cs.foldl (fun seen c => idSetInsert seen c.id) (m.map (·.1)) := by
  induction cs with
  | nil => intro m; rfl
  | cons c cs ih =>
    intro m
    simp only [List.foldl_cons]
    rw [ih, groupInsert_keys]

/-- AnalyzeTOAST's three tallies are the corresponding fields of GetTOASTVerboseInfo's report on the same chunks -/
theorem toastTally_eq_buildInfo (relid : Nat) (chunks : List Chunk) :
    (toastTally relid chunks).toastRelID = (buildInfo relid chunks).toastRelID ∧
    (toastTally relid chunks).totalChunks = (buildInfo relid chunks).totalChunks ∧
    (toastTally relid chunks).uniqueValues = (buildInfo relid chunks).uniqueValues ∧
    (toastTally relid chunks).totalSize = (buildInfo relid chunks).totalSize := by
  refine ⟨rfl, rfl, ?_, rfl⟩
  simp only [toastTally, buildInfo, buildInfoWith]
  have := foldl_groupInsert_keys chunks []
  simp only [List.map_nil] at this
  rw [← this, List.length_map]

end PgVerif.Proofs.Extra
