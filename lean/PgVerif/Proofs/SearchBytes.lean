/-
  Helper lemmas for C15 on dumps with `[]byte` values (Model/SearchBytes.lean vs Spec/SearchBytes.lean).
  The loop argument and the column-order facts are those of Proofs/Search.lean / SearchMain.lean (the generic
  `loopM_spec`, `cut`, `push_spec`; the column order through the row with its `[]byte`s read as text, which has the
  same keys).
-/
import PgVerif.Model.SearchBytes
import PgVerif.Proofs.SearchMain
import PgVerif.Proofs.Secrets
namespace PgVerif.Proofs.SearchB
open PgVerif PgVerif.Spec.Search PgVerif.Spec.SearchB PgVerif.Model.Search PgVerif.Model.SearchB PgVerif.Proofs.Search
open scoped List

/-! ### matchValue with its `[]byte` case -/

mutual
theorem matchValueS_eq (re : Bytes → Bool) (sh : GoVal → Bytes) : ∀ v, matchValueS re sh v = cellMatches re sh (asText v)
  | .nil => by simp [matchValueS, cellMatches, asText]
  | .str s => by simp [matchValueS, cellMatches, asText]
  | .bytes b => by simp [matchValueS, cellMatches, asText]
  | .bool b => by simp [matchValueS, cellMatches, asText]
  | .int i => by simp [matchValueS, cellMatches, asText]
  | .f64 b => by simp [matchValueS, cellMatches, asText]
  | .f32 b => by simp [matchValueS, cellMatches, asText]
  | .arr xs => by simp only [matchValueS, cellMatches, asText]; exact matchElemsS_eq re sh xs
  | .obj kvs => by simp only [matchValueS, cellMatches, asText]; exact matchMapS_eq re sh kvs
theorem matchElemsS_eq (re : Bytes → Bool) (sh : GoVal → Bytes) : ∀ xs, matchElemsS re sh xs = anyMatches re sh (asTextList xs)
  | [] => by simp [matchElemsS, anyMatches, asTextList]
  | x :: xs => by
    simp only [matchElemsS, anyMatches, asTextList]
    rw [matchValueS_eq re sh x, matchElemsS_eq re sh xs]
    cases cellMatches re sh (asText x) <;> simp
theorem matchMapS_eq (re : Bytes → Bool) (sh : GoVal → Bytes) : ∀ kvs, matchMapS re sh kvs = kvMatches re sh (asTextKvs kvs)
  | [] => by simp [matchMapS, kvMatches, asTextKvs]
  | (k, v) :: rest => by
    simp only [matchMapS, kvMatches, asTextKvs]
    rw [matchValueS_eq re sh v, matchMapS_eq re sh rest]
    cases re k <;> cases cellMatches re sh (asText v) <;> simp
end

/-! ### decoded values embed -/

mutual
theorem asText_ofGo : ∀ v : GoVal, asText (ofGo v) = v
  | .nil => rfl
  | .bool _ => rfl
  | .int _ => rfl
  | .f64 _ => rfl
  | .f32 _ => rfl
  | .str _ => rfl
  | .arr xs => by simp only [ofGo, asText, asTextList_ofGo xs]
  | .obj kvs => by simp only [ofGo, asText, asTextKvs_ofGo kvs]
theorem asTextList_ofGo : ∀ xs : List GoVal, asTextList (ofGoList xs) = xs
  | [] => rfl
  | x :: xs => by simp only [ofGoList, asTextList, asText_ofGo x, asTextList_ofGo xs]
theorem asTextKvs_ofGo : ∀ kvs : List (Bytes × GoVal), asTextKvs (ofGoKvs kvs) = kvs
  | [] => rfl
  | (k, v) :: rest => by simp only [ofGoKvs, asTextKvs, asText_ofGo v, asTextKvs_ofGo rest]
end

/-! ### rows: keys, lookup, column order -/

theorem keys_asTextRow (row : SRow) : (asTextRow row).map (·.1) = row.map (·.1) := by
  simp [asTextRow, List.map_map, Function.comp_def]

theorem lookup_asTextRow (c : Bytes) (row : SRow) : lookup c (asTextRow row) = (lookupS c row).map asText := by
  induction row with
  | nil => rfl
  | cons kv rest ih =>
    obtain ⟨k, v⟩ := kv
    simp only [asTextRow, List.map_cons, lookup, lookupS] at ih ⊢
    by_cases h : k = c
    · rw [if_pos h, if_pos h]; rfl
    · rw [if_neg h, if_neg h]; exact ih

theorem declaredKeysS_eq (row : SRow) (seen cols : List Bytes) :
    declaredKeysS row seen cols = declaredKeys (asTextRow row) seen cols := by
  induction cols generalizing seen with
  | nil => simp [declaredKeysS, declaredKeys]
  | cons c cs ih =>
    have : (lookup c (asTextRow row)).isSome = (lookupS c row).isSome := by rw [lookup_asTextRow]; simp
    simp only [declaredKeysS, declaredKeys, this, ih]

/-- the code walks a row in the specified column order -/
theorem rowKeysS_eq (cols : List Bytes) (row : SRow) : rowKeysS cols row = colOrderS cols row := by
  have h : rowKeysS cols row = rowKeys cols (asTextRow row) := by
    simp only [rowKeysS, rowKeys, declaredKeysS_eq, keys_asTextRow]
  rw [h, rowKeys_eq]; rfl

theorem mem_colOrderS (cols : List Bytes) (row : SRow) (c : Bytes) : c ∈ colOrderS cols row ↔ c ∈ row.map (·.1) := by
  rw [colOrderS, mem_colOrder, keys_asTextRow]

theorem wf_asTextRow (row : SRow) (h : SRow.WF row) : Row.WF (asTextRow row) := by
  simp only [Row.WF, keys_asTextRow]; exact h

theorem colOrderS_perm (cols : List Bytes) (row : SRow) (h : SRow.WF row) : colOrderS cols row ~ row.map (·.1) := by
  have := colOrder_perm cols (asTextRow row) (wf_asTextRow row h)
  rw [keys_asTextRow] at this
  exact this

theorem lookupS_of_mem (row : SRow) (h : SRow.WF row) (k : Bytes) (v : SVal) (hm : (k, v) ∈ row) : lookupS k row = some v := by
  induction row with
  | nil => cases hm
  | cons kv rest ih =>
    obtain ⟨k', v'⟩ := kv
    have hn : k' ∉ rest.map (·.1) ∧ (rest.map (·.1)).Nodup := by
      simpa [SRow.WF, List.nodup_cons] using h
    simp only [lookupS]
    rcases List.mem_cons.1 hm with he | hr
    · cases he; simp
    · have hne : k' ≠ k := fun e => hn.1 (e ▸ List.mem_map.2 ⟨(k, v), hr, rfl⟩)
      rw [if_neg hne]
      exact ih hn.2 hr

theorem filterMap_lookupS_aux (row : SRow) : ∀ l : List (Bytes × SVal), (∀ kv ∈ l, lookupS kv.1 row = some kv.2) →
    (l.map (·.1)).filterMap (fun c => (lookupS c row).map fun v => (c, v)) = l
  | [], _ => rfl
  | kv :: rest, h => by
    simp only [List.map_cons, List.filterMap_cons, h kv List.mem_cons_self, Option.map_some]
    rw [filterMap_lookupS_aux row rest (fun kv' hk => h kv' (List.mem_cons_of_mem _ hk))]

/-- the cells of a row in column order are a rearrangement of the row -/
theorem rowCellsS_perm (cols : List Bytes) (row : SRow) (h : SRow.WF row) : rowCellsS cols row ~ row := by
  have := (colOrderS_perm cols row h).filterMap (fun c => (lookupS c row).map fun v => (c, v))
  rw [filterMap_lookupS_aux row row (fun kv hk => lookupS_of_mem row h kv.1 kv.2 hk)] at this
  exact this

theorem mem_rowCellsS (cols : List Bytes) (row : SRow) (h : SRow.WF row) (cv : Bytes × SVal) :
    cv ∈ rowCellsS cols row ↔ cv ∈ row := (rowCellsS_perm cols row h).mem_iff

/-! ### the four loops -/

def colFS (re : Bytes → Bool) (sh : GoVal → Bytes) (o : Opts) (db tbl : Bytes) (rowNum : Nat) (row : SRow) (c : Bytes) :
    List SearchResultS :=
  let value := (lookupS c row).getD .nil
  if matchValueS re sh value then
    [{ database := db, table := tbl, column := c, rowNum := rowNum, value := value, row := if o.includeRow then some row else none }]
  else []

theorem colBodyS_spec (re : Bytes → Bool) (sh : GoVal → Bytes) (o : Opts) (db tbl : Bytes) (rowNum : Nat) (row : SRow) :
    BodySpec (lim o) (colBodyS re sh o db tbl rowNum row) (colFS re sh o db tbl rowNum row) := by
  intro c acc hacc
  simp only [colBodyS, colFS]
  by_cases hm : matchValueS re sh ((lookupS c row).getD .nil) = true
  · rw [if_pos hm, if_pos hm]
    exact push_spec o acc _ hacc
  · rw [if_neg hm, if_neg hm, List.append_nil, cut_short _ _ hacc]

def rowFS (re : Bytes → Bool) (sh : GoVal → Bytes) (o : Opts) (db tbl : Bytes) (cols : List Bytes) (ri : SRow × Nat) :=
  (rowKeysS cols ri.1).flatMap (colFS re sh o db tbl ri.2 ri.1)
def tableFS (re : Bytes → Bool) (sh : GoVal → Bytes) (o : Opts) (db : Bytes) (t : STable) :=
  t.rows.zipIdx.flatMap (rowFS re sh o db t.name t.columns)
def dbFS (re : Bytes → Bool) (sh : GoVal → Bytes) (o : Opts) (db : SDatabase) :=
  db.tables.flatMap (tableFS re sh o db.name)

theorem dbBodyS_spec (re : Bytes → Bool) (sh : GoVal → Bytes) (o : Opts) :
    BodySpec (lim o) (dbBodyS re sh o) (dbFS re sh o) :=
  fun db acc hacc => loopM_spec (lim o) _ _
    (fun t acc hacc => loopM_spec (lim o) _ _
      (fun ri acc hacc => loopM_spec (lim o) _ _ (colBodyS_spec re sh o db.name t.name ri.2 ri.1) (rowKeysS t.columns ri.1) acc hacc)
      t.rows.zipIdx acc hacc)
    db.tables acc hacc

theorem loopsS_eq (re : Bytes → Bool) (sh : GoVal → Bytes) (o : Opts) (d : SDump) :
    (loopM (dbBodyS re sh o) d []).1 =
      if o.maxResults > 0 then (d.flatMap (dbFS re sh o)).take o.maxResults.toNat else d.flatMap (dbFS re sh o) := by
  have h := loopM_spec (lim o) _ _ (dbBodyS_spec re sh o) d [] (by
    intro m hm
    simp only [lim] at hm
    by_cases hmax : o.maxResults > 0
    · rw [if_pos hmax] at hm; cases hm; simp only [List.length_nil]; omega
    · rw [if_neg hmax] at hm; cases hm)
  rw [h, cut_fst, List.nil_append]
  by_cases hmax : o.maxResults > 0
  · simp [lim, hmax]
  · simp [lim, hmax]

theorem row_hitsS_eq (re : Bytes → Bool) (sh : GoVal → Bytes) (o : Opts) (db tbl : Bytes) (i : Nat) (row : SRow) :
    ∀ l : List Bytes, (l.flatMap (colFS re sh o db tbl i row)).map toHitS =
      ((l.filterMap fun c => (lookupS c row).map fun v => (c, v)).filter fun cv => cellMatchesS re sh cv.2).map fun cv =>
        ({ db := db, table := tbl, row := i, col := cv.1, value := cv.2, fullRow := if o.includeRow then some row else none } : HitS)
  | [] => rfl
  | c :: l => by
    simp only [List.flatMap_cons, List.map_append, List.filterMap_cons]
    rw [row_hitsS_eq re sh o db tbl i row l]
    cases hl : lookupS c row with
    | none => simp [colFS, hl, matchValueS]
    | some v =>
      simp only [colFS, hl, Option.getD_some, Option.map_some, List.filter_cons, matchValueS_eq, cellMatchesS]
      cases cellMatches re sh (asText v) <;> simp [toHitS]

theorem dbFS_eq (re : Bytes → Bool) (sh : GoVal → Bytes) (o : Opts) (d : SDump) :
    (d.flatMap (dbFS re sh o)).map toHitS = allMatchesS re sh o.includeRow d := by
  simp only [allMatchesS, dbFS, tableFS, List.map_flatMap]
  congr 1; funext db
  congr 1; funext t
  congr 1; funext ri
  simp only [rowFS, rowHitsS, rowCellsS, rowKeysS_eq]
  exact row_hitsS_eq re sh o db.name t.name ri.2 ri.1 _

/-- **main equation**: SearchInDump on a dump with `[]byte` values returns exactly the specified view -/
theorem searchS_eq_expectedS (R : Regex) (sh : GoVal → Bytes) (d : SDump) (o : Opts) :
    hitsS R sh d o = expectedS R sh d o := by
  simp only [hitsS, searchInDumpS, expectedS, effPattern]
  have hp : (if (!o.caseSensitive) = true then ciPrefix ++ o.pattern else o.pattern)
      = (if o.caseSensitive = true then o.pattern else ciPrefix ++ o.pattern) := by
    cases o.caseSensitive <;> simp
  rw [hp]
  cases R.compile (if o.caseSensitive = true then o.pattern else ciPrefix ++ o.pattern) with
  | none => rfl
  | some re =>
    simp only [Option.map_some, loopsS_eq]
    by_cases hmax : o.maxResults > 0
    · simp only [hmax, if_true, List.map_take, dbFS_eq]
    · simp only [hmax, if_false, dbFS_eq]

theorem wfS_row_of_getElem? (d : SDump) (hw : SDump.WF d) (D : SDatabase) (hD : D ∈ d) (t : STable) (ht : t ∈ D.tables)
    (i : Nat) (row : SRow) (h : t.rows[i]? = some row) : SRow.WF row :=
  hw D hD t ht row (List.mem_of_getElem? h)

/-! ### secret scan -/

theorem scanCellS_eq (dets : List Detector) (sh : GoVal → Bytes) (db tbl : Bytes) (i : Nat) (row : SRow) (c : Bytes) :
    scanCellS dets sh db tbl i row c =
      ((lookupS c row).map fun v => (c, v)).toList.flatMap (cellFindingsS dets sh db tbl i) := by
  simp only [scanCellS, Proofs.Secrets.scanString_eq, cellText]
  cases lookupS c row with
  | none => simp [asText, Proofs.Secrets.fmtV_nil_short]
  | some v =>
    simp only [Option.getD_some, Option.map_some, Option.toList_some, List.flatMap_cons, List.flatMap_nil, List.append_nil,
      cellFindingsS, cellTextS]
    rfl

theorem scanRowS_eq (dets : List Detector) (sh : GoVal → Bytes) (db tbl : Bytes) (i : Nat) (row : SRow) :
    ∀ l : List Bytes, l.flatMap (scanCellS dets sh db tbl i row) =
      (l.filterMap fun c => (lookupS c row).map fun v => (c, v)).flatMap (cellFindingsS dets sh db tbl i)
  | [] => rfl
  | c :: l => by
    simp only [List.flatMap_cons, List.filterMap_cons]
    rw [scanRowS_eq dets sh db tbl i row l, scanCellS_eq]
    cases lookupS c row <;> simp

/-- **main equation of the secret scan** on a dump with `[]byte` values (code after fix search/04) -/
theorem scanS_eq_expectedS (dets : List Detector) (sh : GoVal → Bytes) (d : SDump) :
    scanDumpResultS dets sh d = expectedFindingsS dets sh d := by
  simp only [scanDumpResultS, expectedFindingsS]
  congr 1; funext D
  simp only [scanDatabaseDumpS]
  congr 1; funext t
  simp only [scanTableS]
  congr 1; funext ri
  simp only [rowCellsS, rowKeysS_eq]
  exact scanRowS_eq dets sh D.name t.name ri.2 ri.1 _

end PgVerif.Proofs.SearchB
