/-
  C13_sql, statement level: the text of TableDump.ToSQL reads as `tableToks`, which the spec's decoder accepts for the table.
-/
import PgVerif.Proofs.SqlValue
namespace PgVerif.Proofs.SqlTable
open PgVerif PgVerif.Export PgVerif.Model.Export PgVerif.Proofs.SqlLex PgVerif.Proofs.SqlCompose PgVerif.Proofs.SqlValue
open PgVerif.Spec.SqlLex hiding asc
open PgVerif.Spec.SqlExport (one isWord isOp sepBy sepBy0)

/-! ### generic combinators -/

/-- close a piece with a self-delimiting or white-space byte that its boundary condition accepts -/
theorem Reads.close {B : Bnd} {t : Bytes} {k k2 : List Tok} (h : Reads B t k) (c : UInt8) (hc : B (some c))
    (h2 : Reads anyB [c] k2) : Reads anyB (t ++ [c]) (k ++ k2) :=
  Reads.append_cons h h2 hc

theorem Reads.seq {t1 t2 : Bytes} {k1 k2 : List Tok} (h1 : Reads anyB t1 k1) (h2 : Reads anyB t2 k2) :
    Reads anyB (t1 ++ t2) (k1 ++ k2) :=
  Reads.append h1 h2 (fun _ _ => trivial)

theorem Reads.cast {B : Bnd} {t t' : Bytes} {k k' : List Tok} (h : Reads B t k) (ht : t = t') (hk : k = k') : Reads B t' k' := by
  subst ht; subst hk; exact h

theorem sp : Reads anyB [32] [] := reads_space 32 (by decide)
theorem nl : Reads anyB [10] [] := reads_space 10 (by decide)
theorem lpar : Reads anyB [40] [.op [40]] := reads_self 40 (by decide) (by decide)
theorem rpar : Reads anyB [41] [.op [41]] := reads_self 41 (by decide) (by decide)
theorem comma : Reads anyB [44] [.op [44]] := reads_self 44 (by decide) (by decide)
theorem semi : Reads anyB [59] [.op [59]] := reads_self 59 (by decide) (by decide)

/-- a key word followed by a space -/
theorem kwsp (w folded : Bytes) (hw : w ≠ []) (hstart : ∀ c, w.head? = some c → isIdentStart c = true)
    (hcont : ∀ d ∈ w, isIdentCont d = true) (hf : fold w = folded) : Reads anyB (w ++ [32]) [.word folded] := by
  have := Reads.close (reads_kw w folded hw hstart hcont hf) 32 (by intro c hc; simp at hc; subst hc; decide) sp
  simpa using this

/-- token lists separated by comma tokens -/
def joinToks : List (List Tok) → List Tok
  | [] => []
  | [k] => k
  | k :: k2 :: rest => k ++ .op [44] :: joinToks (k2 :: rest)

/-- items separated by `sep` (which reads as one comma token), each readable before a comma or a closing parenthesis -/
theorem reads_join (sep : Bytes) (hsep : Reads anyB sep [.op [44]]) (hs44 : sep.head? = some 44) :
    ∀ items : List (Bytes × List Tok), (∀ it ∈ items, Reads closeB it.1 it.2) →
      Reads closeB (joinB sep (items.map (·.1))) (joinToks (items.map (·.2)))
  | [], _ => by simp only [List.map, joinB, joinToks]; exact Reads.nil _
  | [it], h => by simp only [List.map, joinB, joinToks]; exact h it (by simp)
  | it :: it2 :: rest, h => by
    have h1 := h it (by simp)
    have h2 := reads_join sep hsep hs44 (it2 :: rest) (fun x hx => h x (by simp [hx]))
    simp only [List.map, joinB, joinToks] at h2 ⊢
    have h3 : Reads closeB (sep ++ joinB sep (it2.1 :: List.map (·.1) rest)) (.op [44] :: joinToks (it2.2 :: List.map (·.2) rest)) := by
      have := Reads.append hsep h2 (fun _ _ => trivial)
      simpa using this
    have := Reads.append h1 h3 (fun r _ => by
      intro c hc
      cases sep with
      | nil => simp at hs44
      | cons s0 st => simp at hs44; subst hs44; simp at hc; subst hc; left; rfl)
    simpa [List.append_assoc] using this

theorem sepBy_join {α} (item : α → List Tok → Option (List Tok)) (toksOf : α → List Tok)
    (h : ∀ x more, item x (toksOf x ++ more) = some more) :
    ∀ (xs : List α), xs ≠ [] → ∀ (more : List Tok), sepBy item xs (joinToks (xs.map toksOf) ++ more) = some more
  | [], hne, _ => absurd rfl hne
  | [x], _, more => by simp only [sepBy, List.map, joinToks]; exact h x more
  | x :: y :: rest, _, more => by
    have h2 := sepBy_join item toksOf h (y :: rest) (by simp) more
    simp only [sepBy, List.map, joinToks, List.append_assoc, List.cons_append] at h2 ⊢
    rw [h x]
    simp only [Option.bind_some]
    rw [one_cons _ _ _ (by simp [isOp])]
    simp only [Option.bind_some]
    exact h2


/-! ### column types -/

def isWordTok : Tok → Bool
  | .word _ => true
  | _ => false

/-- the tokens of a column type text -/
def typeToks (text : Bytes) : List Tok := (lex text).getD []

/-- a column type text is acceptable when it reads as one or more bare words (the tool takes it from a fixed table) -/
def TypeTextOK (text : Bytes) : Prop :=
  ∃ ws : List Tok, ws ≠ [] ∧ (∀ t ∈ ws, isWordTok t = true) ∧ Reads wordB text ws

theorem typeToks_of_reads (text : Bytes) (ws : List Tok) (h : Reads wordB text ws) : typeToks text = ws := by
  have := h [] (by intro c hc; simp at hc)
  simp only [List.append_nil] at this
  have h0 : lex [] = some [] := by simp [lex, lexF]
  rw [h0] at this
  simp [typeToks, this]

theorem typeText_reads (text : Bytes) (h : TypeTextOK text) :
    Reads wordB text (typeToks text) ∧ typeToks text ≠ [] ∧ ∀ t ∈ typeToks text, isWordTok t = true := by
  obtain ⟨ws, h1, h2, h3⟩ := h
  rw [typeToks_of_reads text ws h3]
  exact ⟨h3, h1, h2⟩

theorem skipWords_words (ws more : List Tok) (hw : ∀ t ∈ ws, isWordTok t = true) (hm : ∀ t, more.head? = some t → isWordTok t = false) :
    Spec.SqlExport.skipWords (ws ++ more) = more := by
  induction ws with
  | nil =>
    cases more with
    | nil => simp [Spec.SqlExport.skipWords]
    | cons t r =>
      have := hm t rfl
      cases t <;> simp [isWordTok] at this <;> simp [Spec.SqlExport.skipWords]
  | cons t ws ih =>
    have := hw t (by simp)
    cases t <;> simp [isWordTok] at this
    simp only [List.cons_append, Spec.SqlExport.skipWords]
    exact ih (fun x hx => hw x (by simp [hx]))

theorem typeWords_words (ws more : List Tok) (hne : ws ≠ []) (hw : ∀ t ∈ ws, isWordTok t = true)
    (hm : ∀ t, more.head? = some t → isWordTok t = false) :
    Spec.SqlExport.typeWords (ws ++ more) = some more := by
  cases ws with
  | nil => exact absurd rfl hne
  | cons t ws =>
    have := hw t (by simp)
    cases t <;> simp [isWordTok] at this
    simp only [List.cons_append, Spec.SqlExport.typeWords]
    rw [skipWords_words ws more (fun x hx => hw x (by simp [hx])) hm]


/-! ### expected tokens of a table -/

def sqlType (c : ColumnInfo) : Bytes := pgTypeToSQL c.type c.typID

def colToks (c : ColumnInfo) : List Tok := identTok c.name :: typeToks (sqlType c)

def cellToks (F : FloatFmt) (r : Row) (c : ColumnInfo) : List Tok :=
  match r.get c.name with
  | none => [.word (Export.asc "null")]
  | some v => valueToks F c.typID v

def rowToks' (F : FloatFmt) (cols : List ColumnInfo) (r : Row) : List Tok :=
  .op [40] :: (joinToks (cols.map (cellToks F r)) ++ [.op [41]])

def tableComment (t : TableDump) : Bytes :=
  Export.asc " Table: " ++ commentText t.name ++ (Export.asc " (" ++ decInt t.rowCount ++ Export.asc " rows)")

/-- INSERT INTO name DEFAULT VALUES ; -/
def defaultRowToks (t : TableDump) : List Tok :=
  [.word (Export.asc "insert"), .word (Export.asc "into"), identTok t.name, .word (Export.asc "default"),
   .word (Export.asc "values"), .op [59]]

def insertToks (F : FloatFmt) (t : TableDump) : List Tok :=
  if t.rows.isEmpty then []
  else if t.columns.isEmpty then t.rows.flatMap fun _ => defaultRowToks t
  else [.word (Export.asc "insert"), .word (Export.asc "into"), identTok t.name, .op [40]] ++
    (joinToks (t.columns.map fun c => [identTok c.name]) ++
      (.op [41] :: .word (Export.asc "values") :: (joinToks (t.rows.map (rowToks' F t.columns)) ++ [.op [59]])))

def tableToks (F : FloatFmt) (t : TableDump) : List Tok :=
  [.comment (tableComment t), .word (Export.asc "create"), .word (Export.asc "table"), .word (Export.asc "if"),
   .word (Export.asc "not"), .word (Export.asc "exists"), identTok t.name, .op [40]] ++
  (joinToks (t.columns.map colToks) ++ (.op [41] :: .op [59] :: insertToks F t))

/-- what the theorems need of a table: non-empty names without a NUL byte (pgread reads names with cstring(): a name ends at
its first NUL), column types that read as words -/
structure TableOK (t : TableDump) : Prop where
  name : t.name ≠ []
  nameNul : (0 : UInt8) ∉ t.name
  cols : ∀ c ∈ t.columns, c.name ≠ [] ∧ TypeTextOK (sqlType c)
  colsNul : ∀ c ∈ t.columns, (0 : UInt8) ∉ c.name

/-! ### reading the pieces -/

theorem reads_null : Reads closeB (Export.asc "NULL") [.word (Export.asc "null")] :=
  (reads_kw (Export.asc "NULL") (Export.asc "null") (by decide) (by decide) (by decide) (by decide)).weaken closeB_wordB

theorem reads_cell (F : FloatFmt) (hS : FloatSqlOK F) (r : Row) (c : ColumnInfo) : Reads closeB (cellSQL F r c) (cellToks F r c) := by
  unfold cellSQL cellToks
  cases r.get c.name with
  | none => exact reads_null
  | some v =>
    cases v with
    | nil => simp only [formatSQLValue, valueToks]; exact reads_null
    | bool _ | int _ | f64 _ | f32 _ | str _ | arr _ | obj _ =>
      exact reads_value F hS _ c.typID c.typID (SqlArrayTypes.Pair.self c.typID)

theorem commaSpace : Reads anyB [44, 32] [.op [44]] := by
  have := Reads.seq comma sp
  simpa using this

theorem spaces4 : Reads anyB (Export.asc "    ") [] := by
  have := Reads.seq (Reads.seq sp sp) (Reads.seq sp sp)
  exact Reads.cast this (by decide) rfl

theorem closeB_identB : ∀ o, closeB o → identB o := fun _ h c hc => by
  have := close_facts c (h c hc); exact ⟨this.1, this.2.1, this.2.2.1, this.2.2.2.1⟩

theorem reads_rowPiece (F : FloatFmt) (hS : FloatSqlOK F) (cols : List ColumnInfo) (r : Row) :
    Reads anyB (Export.asc "    (" ++ joinB [44, 32] (cols.map (cellSQL F r)) ++ [41]) (rowToks' F cols r) := by
  have hcells := reads_join [44, 32] commaSpace rfl (cols.map fun c => (cellSQL F r c, cellToks F r c))
    (by intro it hit; simp only [List.mem_map] at hit; obtain ⟨c, _, rfl⟩ := hit; exact reads_cell F hS r c)
  simp only [List.map_map] at hcells
  have h1 : Reads anyB (Export.asc "    (") [.op [40]] := Reads.cast (Reads.seq spaces4 lpar) (by decide) rfl
  have h2 := Reads.close hcells 41 (by intro c hc; simp at hc; subst hc; right; left; rfl) rpar
  have := Reads.seq h1 h2
  exact Reads.cast this (by simp [List.append_assoc, Function.comp_def]) (by simp [rowToks', Function.comp_def])

def rowsToks (F : FloatFmt) (cols : List ColumnInfo) : List Row → List Tok
  | [] => []
  | [r] => rowToks' F cols r ++ [.op [59]]
  | r :: r2 :: rest => rowToks' F cols r ++ .op [44] :: rowsToks F cols (r2 :: rest)

theorem rowsToks_eq (F : FloatFmt) (cols : List ColumnInfo) : ∀ rows : List Row, rows ≠ [] →
    rowsToks F cols rows = joinToks (rows.map (rowToks' F cols)) ++ [.op [59]]
  | [], h => absurd rfl h
  | [r], _ => by simp [rowsToks, joinToks]
  | r :: r2 :: rest, _ => by
    have := rowsToks_eq F cols (r2 :: rest) (by simp)
    simp only [rowsToks, List.map, joinToks, List.append_assoc, List.cons_append] at this ⊢
    rw [this]

theorem reads_rowLines (F : FloatFmt) (hS : FloatSqlOK F) (cols : List ColumnInfo) :
    ∀ rows : List Row, Reads anyB (rowLines F cols rows) (rowsToks F cols rows)
  | [] => by simp only [rowLines, rowsToks]; exact Reads.nil _
  | [r] => by
    have h := Reads.seq (reads_rowPiece F hS cols r) (Reads.seq semi nl)
    exact Reads.cast h (by simp [rowLines, List.append_assoc]; decide) (by simp [rowsToks])
  | r :: r2 :: rest => by
    have ih := reads_rowLines F hS cols (r2 :: rest)
    have h := Reads.seq (reads_rowPiece F hS cols r) (Reads.seq (Reads.seq comma nl) ih)
    refine Reads.cast h ?_ (by simp [rowsToks])
    simp only [rowLines, List.append_assoc]
    congr 2


/-! ### column definitions -/

theorem identSp (n : Bytes) (hn : n ≠ []) (h0 : (0 : UInt8) ∉ n) : Reads anyB (quoteIdent n ++ [32]) [identTok n] := by
  have := Reads.close (reads_quoteIdent n hn h0) 32 (by intro c hc; simp at hc; subst hc; decide) sp
  simpa using this

/-- `    name TYPE` , readable before a comma or a newline -/
theorem reads_colPiece (c : ColumnInfo) (hn : c.name ≠ []) (h0 : (0 : UInt8) ∉ c.name) (ht : TypeTextOK (sqlType c)) :
    Reads wordB (Export.asc "    " ++ quoteIdent c.name ++ 32 :: sqlType c) (colToks c) := by
  have h1 := Reads.seq spaces4 (identSp c.name hn h0)
  have h2 := Reads.append h1 (typeText_reads _ ht).1 (fun _ _ => trivial)
  exact Reads.cast h2 (by simp [List.append_assoc]) (by simp [colToks])

theorem reads_columnLines : ∀ cols : List ColumnInfo, (∀ c ∈ cols, c.name ≠ [] ∧ TypeTextOK (sqlType c)) →
    (∀ c ∈ cols, (0 : UInt8) ∉ c.name) → Reads anyB (columnLines cols) (joinToks (cols.map colToks))
  | [], _, _ => by simp only [columnLines, List.map, joinToks]; exact Reads.nil _
  | [c], h, h0 => by
    have hc := h c (by simp)
    have := Reads.close (reads_colPiece c hc.1 (h0 c (by simp)) hc.2) 10 (by intro d hd; simp at hd; subst hd; decide) nl
    exact Reads.cast this (by simp [columnLines, sqlType, List.append_assoc]) (by simp [joinToks])
  | c :: c2 :: rest, h, h0 => by
    have hc := h c (by simp)
    have ih := reads_columnLines (c2 :: rest) (fun x hx => h x (by simp [hx])) (fun x hx => h0 x (by simp [hx]))
    have h1 := Reads.close (reads_colPiece c hc.1 (h0 c (by simp)) hc.2) 44 (by intro d hd; simp at hd; subst hd; decide) comma
    have h2 := Reads.seq h1 (Reads.seq nl ih)
    refine Reads.cast h2 ?_ (by simp [joinToks])
    simp [columnLines, sqlType, List.append_assoc]

/-! ### the whole table -/

theorem tableComment_noNewline (t : TableDump) : ∀ c ∈ tableComment t, isNewline c = false := by
  intro c hc
  simp only [tableComment, List.mem_append] at hc
  rcases hc with (h | h) | (h | h) | h
  · revert c; decide
  · exact commentText_noNewline t.name c h
  · revert c; decide
  · -- digits and a minus sign
    obtain ⟨_, h2, _⟩ := ExportDec.dec_props t.rowCount.natAbs
    unfold decInt at h
    split at h
    · simp only [List.mem_cons] at h
      rcases h with h | h
      · subst h; decide
      · have := h2 c h; simp only [ExportDec.IsDig] at this
        simp only [isNewline, Bool.or_eq_false_iff, beq_eq_false_iff_ne, ne_eq, ← UInt8.toNat_inj]
        have e1 : (10 : UInt8).toNat = 10 := rfl
        have e2 : (13 : UInt8).toNat = 13 := rfl
        omega
    · have := h2 c h; simp only [ExportDec.IsDig] at this
      simp only [isNewline, Bool.or_eq_false_iff, beq_eq_false_iff_ne, ne_eq, ← UInt8.toNat_inj]
      have e1 : (10 : UInt8).toNat = 10 := rfl
      have e2 : (13 : UInt8).toNat = 13 := rfl
      omega
  · revert c; decide

theorem tableComment_noNul (t : TableDump) (h0 : (0 : UInt8) ∉ t.name) : (0 : UInt8) ∉ tableComment t := by
  intro hc
  simp only [tableComment, List.mem_append] at hc
  rcases hc with (h | h) | (h | h) | h
  · exact absurd h (by decide)
  · exact commentText_noNul t.name h0 h
  · exact absurd h (by decide)
  · exact decInt_noNul _ h
  · exact absurd h (by decide)

theorem kw (up low : String) (h1 : Export.asc up ≠ [] := by decide)
    (h2 : ∀ c, (Export.asc up).head? = some c → isIdentStart c = true := by decide)
    (h3 : ∀ d ∈ Export.asc up, isIdentCont d = true := by decide) (h4 : fold (Export.asc up) = Export.asc low := by decide) :
    Reads anyB (Export.asc up ++ [32]) [.word (Export.asc low)] :=
  kwsp _ _ h1 h2 h3 h4

theorem reads_createHead (t : TableDump) (hn : t.name ≠ []) (h0 : (0 : UInt8) ∉ t.name) :
    Reads anyB (Export.asc "-- Table: " ++ commentText t.name ++ Export.asc " (" ++ decInt t.rowCount ++ Export.asc " rows)\n" ++
      Export.asc "CREATE TABLE IF NOT EXISTS " ++ quoteIdent t.name ++ Export.asc " (\n")
      [.comment (tableComment t), .word (Export.asc "create"), .word (Export.asc "table"), .word (Export.asc "if"),
       .word (Export.asc "not"), .word (Export.asc "exists"), identTok t.name, .op [40]] := by
  have hc := reads_commentLine (tableComment t) (tableComment_noNewline t) (tableComment_noNul t h0)
  have hk := Reads.seq (kw "CREATE" "create") (Reads.seq (kw "TABLE" "table") (Reads.seq (kw "IF" "if")
    (Reads.seq (kw "NOT" "not") (kw "EXISTS" "exists"))))
  have hi := Reads.seq (identSp t.name hn h0) (Reads.seq lpar nl)
  have := Reads.seq hc (Reads.seq hk hi)
  refine Reads.cast this ?_ (by simp)
  simp only [tableComment, List.append_assoc, List.cons_append, List.nil_append]
  have e1 : Export.asc "-- Table: " = 45 :: 45 :: Export.asc " Table: " := by decide
  have e2 : Export.asc " rows)\n" = Export.asc " rows)" ++ [10] := by decide
  have e3 : Export.asc "CREATE TABLE IF NOT EXISTS " = Export.asc "CREATE" ++ [32] ++ (Export.asc "TABLE" ++ [32] ++
      (Export.asc "IF" ++ [32] ++ (Export.asc "NOT" ++ [32] ++ (Export.asc "EXISTS" ++ [32])))) := by decide
  have e4 : Export.asc " (\n" = [32, 40, 10] := by decide
  rw [e1, e2, e3, e4]
  simp [List.append_assoc]


theorem reads_insertHead (t : TableDump) (ok : TableOK t) :
    Reads anyB (Export.asc "INSERT INTO " ++ quoteIdent t.name ++ Export.asc " (" ++
      joinB [44, 32] (t.columns.map fun c => quoteIdent c.name) ++ Export.asc ") VALUES\n")
      ([.word (Export.asc "insert"), .word (Export.asc "into"), identTok t.name, .op [40]] ++
        (joinToks (t.columns.map fun c => [identTok c.name]) ++ [.op [41], .word (Export.asc "values")])) := by
  have hk := Reads.seq (kw "INSERT" "insert") (kw "INTO" "into")
  have hi := Reads.seq (identSp t.name ok.name ok.nameNul) lpar
  have hcols := reads_join [44, 32] commaSpace rfl (t.columns.map fun c => (quoteIdent c.name, [identTok c.name]))
    (by intro it hit; simp only [List.mem_map] at hit; obtain ⟨c, hc, rfl⟩ := hit
        exact (reads_quoteIdent c.name (ok.cols c hc).1 (ok.colsNul c hc)).weaken closeB_identB)
  simp only [List.map_map] at hcols
  have hclose := Reads.close hcols 41 (by intro c hc; simp at hc; subst hc; right; left; rfl) rpar
  have hvalues := Reads.close (reads_kw (Export.asc "VALUES") (Export.asc "values") (by decide) (by decide) (by decide) (by decide))
    10 (by intro c hc; simp at hc; subst hc; decide) nl
  have := Reads.seq hk (Reads.seq hi (Reads.seq hclose (Reads.seq sp hvalues)))
  refine Reads.cast this ?_ (by simp [Function.comp_def])
  have e1 : Export.asc "INSERT INTO " = Export.asc "INSERT" ++ [32] ++ (Export.asc "INTO" ++ [32]) := by decide
  have e2 : Export.asc " (" = [32, 40] := by decide
  have e3 : Export.asc ") VALUES\n" = [41] ++ ([32] ++ (Export.asc "VALUES" ++ [10])) := by decide
  rw [e1, e2, e3]
  simp [List.append_assoc, Function.comp_def]

/-- the same piece once per element of a list -/
theorem reads_repeat {α} (text : Bytes) (toks : List Tok) (h : Reads anyB text toks) :
    ∀ xs : List α, Reads anyB (xs.flatMap fun _ => text) (xs.flatMap fun _ => toks)
  | [] => by simp only [List.flatMap_nil]; exact Reads.nil _
  | _ :: xs => by
    have := Reads.seq h (reads_repeat text toks h xs)
    exact Reads.cast this (by simp) (by simp)

theorem reads_defaultRow (t : TableDump) (hn : t.name ≠ []) (h0 : (0 : UInt8) ∉ t.name) :
    Reads anyB (Export.asc "INSERT INTO " ++ quoteIdent t.name ++ Export.asc " DEFAULT VALUES;\n") (defaultRowToks t) := by
  have hk := Reads.seq (kw "INSERT" "insert") (kw "INTO" "into")
  have hi := identSp t.name hn h0
  have hvalues := Reads.close (reads_kw (Export.asc "VALUES") (Export.asc "values") (by decide) (by decide) (by decide) (by decide))
    59 (by intro c hc; simp at hc; subst hc; decide) semi
  have := Reads.seq hk (Reads.seq hi (Reads.seq (kw "DEFAULT" "default") (Reads.seq hvalues nl)))
  refine Reads.cast this ?_ (by simp [defaultRowToks])
  have e1 : Export.asc "INSERT INTO " = Export.asc "INSERT" ++ [32] ++ (Export.asc "INTO" ++ [32]) := by decide
  have e2 : Export.asc " DEFAULT VALUES;\n" = [32] ++ (Export.asc "DEFAULT" ++ [32] ++ (Export.asc "VALUES" ++ [59] ++ [10])) := by decide
  rw [e1, e2]
  simp [List.append_assoc]

/-- TableDump.ToSQL reads as exactly `tableToks`, whatever follows -/
theorem reads_table (F : FloatFmt) (hS : FloatSqlOK F) (t : TableDump) (ok : TableOK t) :
    Reads anyB (tableToSQL F t) (tableToks F t) := by
  have hhead := reads_createHead t ok.name ok.nameNul
  have hcols := reads_columnLines t.columns ok.cols ok.colsNul
  have hend : Reads anyB (Export.asc ");\n\n") [.op [41], .op [59]] :=
    Reads.cast (Reads.seq rpar (Reads.seq semi (Reads.seq nl nl))) (by decide) (by simp)
  have hins : Reads anyB (insertText F t) (insertToks F t) := by
    unfold insertToks insertText
    by_cases he : t.rows.isEmpty = true
    · simp only [he, if_true]; exact Reads.nil _
    · simp only [he, Bool.false_eq_true, if_false]
      by_cases hc : t.columns.isEmpty = true
      · simp only [hc, if_true]
        exact reads_repeat _ _ (reads_defaultRow t ok.name ok.nameNul) t.rows
      · simp only [hc, Bool.false_eq_true, if_false]
        have hne : t.rows ≠ [] := by intro h; simp [h] at he
        have h1 := reads_insertHead t ok
        have h2 := reads_rowLines F hS t.columns t.rows
        rw [rowsToks_eq F t.columns t.rows hne] at h2
        exact Reads.cast (Reads.seq h1 h2) (by simp [List.append_assoc]) (by simp [List.append_assoc])
  have := Reads.seq hhead (Reads.seq hcols (Reads.seq hend hins))
  refine Reads.cast this ?_ (by simp [tableToks, List.append_assoc])
  simp only [tableToSQL, List.append_assoc]


/-! ### decoding the table back -/

theorem sepBy_join' {α} (item : α → List Tok → Option (List Tok)) (toksOf : α → List Tok) (P : List Tok → Prop)
    (hP44 : ∀ r, P (.op [44] :: r)) :
    ∀ (xs : List α), xs ≠ [] → ∀ (more : List Tok), P more → (∀ x ∈ xs, ∀ m, P m → item x (toksOf x ++ m) = some m) →
      sepBy item xs (joinToks (xs.map toksOf) ++ more) = some more
  | [], hne, _, _, _ => absurd rfl hne
  | [x], _, more, hm, h => by simp only [sepBy, List.map, joinToks]; exact h x (by simp) more hm
  | x :: y :: rest, _, more, hm, h => by
    have h2 := sepBy_join' item toksOf P hP44 (y :: rest) (by simp) more hm (fun z hz => h z (by simp [hz]))
    simp only [sepBy, List.map, joinToks, List.append_assoc, List.cons_append] at h2 ⊢
    rw [h x (by simp) _ (hP44 _)]
    simp only [Option.bind_some]
    rw [one_cons _ _ _ (by simp [isOp])]
    simp only [Option.bind_some]
    exact h2

theorem sepBy0_join' {α} (item : α → List Tok → Option (List Tok)) (toksOf : α → List Tok) (P : List Tok → Prop)
    (hP44 : ∀ r, P (.op [44] :: r)) (xs : List α) (more : List Tok) (hm : P more)
    (h : ∀ x ∈ xs, ∀ m, P m → item x (toksOf x ++ m) = some m) :
    sepBy0 item xs (joinToks (xs.map toksOf) ++ more) = some more := by
  unfold sepBy0
  cases xs with
  | nil => simp [joinToks]
  | cons x rest =>
    simp only [List.isEmpty_cons, Bool.false_eq_true, if_false]
    exact sepBy_join' item toksOf P hP44 (x :: rest) (by simp) more hm h

theorem seqAll_repeat {α} (item : List Tok → Option (List Tok)) (toks : List Tok) (h : ∀ m, item (toks ++ m) = some m) :
    ∀ (xs : List α) (more : List Tok),
      Spec.SqlExport.seqAll (fun (_ : α) => item) xs ((xs.flatMap fun _ => toks) ++ more) = some more
  | [], more => by simp [Spec.SqlExport.seqAll]
  | _ :: xs, more => by
    have ih := seqAll_repeat item toks h xs more
    simp only [Spec.SqlExport.seqAll, List.flatMap_cons, List.append_assoc]
    rw [h]
    simp only [Option.bind_some]
    exact ih

def notWordHead (ts : List Tok) : Prop := ∀ t, ts.head? = some t → isWordTok t = false

theorem column_colToks (c : ColumnInfo) (hn : c.name ≠ []) (ht : TypeTextOK (sqlType c)) (more : List Tok) (hm : notWordHead more) :
    Spec.SqlExport.column c (colToks c ++ more) = some more := by
  obtain ⟨_, h2, h3⟩ := typeText_reads _ ht
  simp only [Spec.SqlExport.column, colToks, List.cons_append]
  rw [one_cons _ _ _ (isName_identTok c.name hn)]
  simp only [Option.bind_some]
  exact typeWords_words _ more h2 h3 hm

theorem cell_cellToks (F : FloatFmt) (hF : ExportJson.FloatOK F) (r : Row) (c : ColumnInfo) (more : List Tok) :
    Spec.SqlExport.cell F r c (cellToks F r c ++ more) = some more := by
  have hnull : one (isWord "null") ([Tok.word (Export.asc "null")] ++ more) = some more := by
    simp only [List.cons_append, List.nil_append]; exact one_cons _ _ _ (isWord_asc "null")
  unfold Spec.SqlExport.cell cellToks
  cases r.get c.name with
  | none => exact hnull
  | some v => exact value_valueToks F hF v c.typID c.typID (SqlArrayTypes.Pair.self c.typID) more

theorem rowToks_ok (F : FloatFmt) (hF : ExportJson.FloatOK F) (cols : List ColumnInfo) (hcols : cols ≠ []) (r : Row) (more : List Tok) :
    Spec.SqlExport.rowToks F cols r (rowToks' F cols r ++ more) = some more := by
  simp only [Spec.SqlExport.rowToks, rowToks', List.cons_append, List.append_assoc]
  rw [one_cons _ _ _ (by simp [isOp])]
  simp only [Option.bind_some]
  rw [sepBy_join (Spec.SqlExport.cell F r) (cellToks F r) (cell_cellToks F hF r) cols hcols]
  simp only [Option.bind_some]
  exact one_cons _ _ _ (by simp [isOp])

theorem words_ok (ws : List String) (more : List Tok) :
    Spec.SqlExport.words ws (ws.map (fun w => Tok.word (Export.asc w)) ++ more) = some more := by
  induction ws with
  | nil => simp [Spec.SqlExport.words]
  | cons w ws ih =>
    simp only [Spec.SqlExport.words, List.map, List.cons_append]
    rw [one_cons _ _ _ (isWord_asc w)]
    simp only [Option.bind_some]
    exact ih

theorem tableComment_ok (t : TableDump) :
    Spec.SqlExport.isNameComment (Spec.SqlLex.asc " Table: ") t.name
      (Spec.SqlLex.asc " (" ++ (decInt t.rowCount ++ Spec.SqlLex.asc " rows)")) (.comment (tableComment t)) = true := by
  have := isNameComment_ok (Spec.SqlLex.asc " Table: ") t.name (Spec.SqlLex.asc " (" ++ (decInt t.rowCount ++ Spec.SqlLex.asc " rows)"))
  simpa [tableComment, List.append_assoc, Export.asc, Spec.SqlLex.asc] using this

theorem defaultRow_ok (t : TableDump) (hn : t.name ≠ []) (more : List Tok) :
    Spec.SqlExport.defaultRow t.name (defaultRowToks t ++ more) = some more := by
  have hw1 := words_ok ["insert", "into"] (identTok t.name :: .word (Export.asc "default") :: .word (Export.asc "values") :: .op [59] :: more)
  have hw2 := words_ok ["default", "values"] (.op [59] :: more)
  simp only [List.map, List.cons_append, List.nil_append] at hw1 hw2
  unfold Spec.SqlExport.defaultRow defaultRowToks
  simp only [List.cons_append, List.nil_append, bind, Option.bind_eq_bind]
  rw [hw1]
  simp only [Option.bind_some]
  rw [one_cons _ _ _ (isName_identTok t.name hn)]
  simp only [Option.bind_some]
  rw [hw2]
  simp only [Option.bind_some]
  exact one_cons _ _ _ (by simp [isOp])

/-- the spec's decoder accepts `tableToks` for the table and consumes exactly them -/
theorem table_tableToks (F : FloatFmt) (hF : ExportJson.FloatOK F) (t : TableDump) (ok : TableOK t) (more : List Tok) :
    Spec.SqlExport.table F t (tableToks F t ++ more) = some more := by
  have hop44 : ∀ r, notWordHead (.op [44] :: r) := by intro r x hx; simp at hx; subst hx; rfl
  have hwords := words_ok ["create", "table", "if", "not", "exists"]
  have hcols := sepBy0_join' Spec.SqlExport.column colToks notWordHead hop44 t.columns
  unfold Spec.SqlExport.table tableToks
  simp only [List.cons_append, List.nil_append, List.append_assoc, bind, Option.bind_eq_bind]
  rw [one_cons _ _ _ (tableComment_ok t)]
  simp only [Option.bind_some]
  have hw := hwords (identTok t.name :: .op [40] :: (joinToks (t.columns.map colToks) ++ (.op [41] :: .op [59] :: (insertToks F t ++ more))))
  simp only [List.map, List.cons_append, List.nil_append] at hw
  rw [hw]
  simp only [Option.bind_some]
  rw [one_cons _ _ _ (isName_identTok t.name ok.name)]
  simp only [Option.bind_some]
  rw [one_cons _ _ _ (by simp [isOp])]
  simp only [Option.bind_some]
  rw [hcols _ (by intro x hx; simp at hx; subst hx; rfl) (fun c hc m hm => column_colToks c (ok.cols c hc).1 (ok.cols c hc).2 m hm)]
  simp only [Option.bind_some]
  rw [one_cons _ _ _ (by simp [isOp])]
  simp only [Option.bind_some]
  rw [one_cons _ _ _ (by simp [isOp])]
  simp only [Option.bind_some]
  unfold insertToks
  by_cases he : t.rows.isEmpty = true
  · simp [he]
  · by_cases hc : t.columns.isEmpty = true
    · simp only [he, hc, Bool.false_eq_true, if_false, if_true]
      exact seqAll_repeat (Spec.SqlExport.defaultRow t.name) (defaultRowToks t) (defaultRow_ok t ok.name) t.rows more
    · have hcne : t.columns ≠ [] := by intro h; simp [h] at hc
      have hrne : t.rows ≠ [] := by intro h; simp [h] at he
      have hnames := sepBy_join' (fun (c : ColumnInfo) => one (Spec.SqlExport.isName c.name)) (fun c => [identTok c.name])
        (fun _ => True) (fun _ => trivial) t.columns hcne
      have hrows := sepBy_join (Spec.SqlExport.rowToks F t.columns) (rowToks' F t.columns) (rowToks_ok F hF t.columns hcne) t.rows hrne
      simp only [he, hc, Bool.false_eq_true, if_false, List.cons_append, List.nil_append, List.append_assoc]
      have hw2 := words_ok ["insert", "into"] (identTok t.name :: .op [40] :: (joinToks (t.columns.map fun c => [identTok c.name]) ++
        (.op [41] :: .word (Export.asc "values") :: (joinToks (t.rows.map (rowToks' F t.columns)) ++ (.op [59] :: more)))))
      simp only [List.map, List.cons_append, List.nil_append] at hw2
      rw [hw2]
      simp only [Option.bind_some]
      rw [one_cons _ _ _ (isName_identTok t.name ok.name)]
      simp only [Option.bind_some]
      rw [one_cons _ _ _ (by simp [isOp])]
      simp only [Option.bind_some]
      rw [hnames _ trivial (fun c hc m _ => by
        simp only [List.cons_append, List.nil_append]
        exact one_cons _ _ _ (isName_identTok c.name (ok.cols c hc).1))]
      simp only [Option.bind_some]
      rw [one_cons _ _ _ (by simp [isOp])]
      simp only [Option.bind_some]
      rw [one_cons _ _ _ (isWord_asc "values")]
      simp only [Option.bind_some]
      rw [hrows]
      simp only [Option.bind_some]
      exact one_cons _ _ _ (by simp [isOp])

end PgVerif.Proofs.SqlTable
