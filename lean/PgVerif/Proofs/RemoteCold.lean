/-
  C11 / C12 helper lemmas: every RemoteClient method, started with ANY consistent cache (`Props.C11.CacheOK`: the cache
  holds only what the loaders computed), returns exactly what its cache-free meaning (Model/RemoteCold.lean) computes, and
  hands back a consistent cache.  Generic in the row reader and the file system.
-/
import PgVerif.Props.C11
import PgVerif.Model.RemoteCold
import PgVerif.Model.RemoteExec
namespace PgVerif.Proofs.Remote
open PgVerif PgVerif.Model PgVerif.Props.C11
open PgVerif.Spec (ColumnInfo TableDump DatabaseDump DumpResult Options isPrefixB)

/-- started with the consistent cache `c`, the method `m` returns what `cold` computes (value or fault) together with a
consistent cache -/
def WarmAt (rr : RowReader) (fs : RemoteReader) {α} (c : Cache) (m : M (α × Cache)) (cold : M α) : Prop :=
  CacheOK rr fs c → ∃ c', CacheOK rr fs c' ∧ m = Except.map (fun r => (r, c')) cold

theorem warm_pure (rr : RowReader) (fs : RemoteReader) {α} (c : Cache) (a : α) : WarmAt rr fs c (pure (a, c)) (pure a) :=
  fun hc => ⟨c, hc, rfl⟩

theorem warm_bind (rr : RowReader) (fs : RemoteReader) {α β} (c : Cache) (m : M (α × Cache)) (f : α × Cache → M (β × Cache))
    (cold : M α) (fc : α → M β) (hm : WarmAt rr fs c m cold) (hf : ∀ a c', WarmAt rr fs c' (f (a, c')) (fc a)) :
    WarmAt rr fs c (m >>= f) (cold >>= fc) := by
  intro hc
  obtain ⟨c', hc', hm⟩ := hm hc
  cases hcold : cold with
  | error e =>
    rw [hcold] at hm
    exact ⟨c, hc, by rw [hm]; rfl⟩
  | ok a =>
    rw [hcold] at hm
    obtain ⟨c'', hc'', hf⟩ := hf a c' hc'
    refine ⟨c'', hc'', ?_⟩
    rw [hm]
    show f (a, c') = _
    rw [hf]
    rfl

/-- a step that does not touch the cache -/
theorem warm_bind_pure (rr : RowReader) (fs : RemoteReader) {α β} (c : Cache) (m : M α) (f : α → M (β × Cache)) (fc : α → M β)
    (hf : ∀ a, WarmAt rr fs c (f a) (fc a)) : WarmAt rr fs c (m >>= f) (m >>= fc) := by
  intro hc
  cases hm : m with
  | error e => exact ⟨c, hc, rfl⟩
  | ok a =>
    obtain ⟨c', hc', h⟩ := hf a hc
    exact ⟨c', hc', by simp only [ok_bind]; exact h⟩

/-- a computation that does not touch the cache -/
theorem warm_lift (rr : RowReader) (fs : RemoteReader) {α} (c : Cache) (m : M α) :
    WarmAt rr fs c (m >>= fun r => pure (r, c)) m := by
  intro hc
  exact ⟨c, hc, by cases m <;> rfl⟩

theorem warm_of_c11 (rr : RowReader) (fs : RemoteReader) {α} (c : Cache) (m : M (α × Cache)) (cold : M α)
    (h1 : Except.map (·.1) m = cold) (h2 : ∀ r c', m = .ok (r, c') → CacheOK rr fs c') (hc : CacheOK rr fs c) :
    ∃ c', CacheOK rr fs c' ∧ m = Except.map (fun r => (r, c')) cold := by
  cases hm : m with
  | error e =>
    rw [hm] at h1
    exact ⟨c, hc, by rw [← h1]; rfl⟩
  | ok p =>
    obtain ⟨r, c'⟩ := p
    rw [hm] at h1
    exact ⟨c', h2 r c' hm, by rw [← h1]; rfl⟩

theorem warm_databases (rr : RowReader) (fs : RemoteReader) (c : Cache) :
    WarmAt rr fs c (rcDatabases rr fs c) (databasesCold rr fs) := fun hc =>
  warm_of_c11 rr fs c _ _ (C11_no_hidden_state_databases rr fs c hc).1 (C11_no_hidden_state_databases rr fs c hc).2 hc

theorem warm_catalog (rr : RowReader) (fs : RemoteReader) (db : Nat) (c : Cache) :
    WarmAt rr fs c (rcCatalog rr fs db c) (catalogCold rr fs db) := fun hc =>
  warm_of_c11 rr fs c _ _ (C11_no_hidden_state_catalog rr fs db c hc).1 (C11_no_hidden_state_catalog rr fs db c hc).2 hc

theorem warm_tables (rr : RowReader) (π : MapOrder TableInfo) (fs : RemoteReader) (db : Nat) (c : Cache) :
    WarmAt rr fs c (rcTables rr π fs db c) (tablesCold rr π fs db) := by
  unfold rcTables tablesCold
  exact warm_bind rr fs c _ _ _ _ (warm_catalog rr fs db c) (fun a c' => warm_pure rr fs c' _)

theorem warm_columns (rr : RowReader) (fs : RemoteReader) (db tbl : Nat) (c : Cache) :
    WarmAt rr fs c (rcColumns rr fs db tbl c) (columnsCold rr fs db tbl) := by
  unfold rcColumns columnsCold
  exact warm_bind rr fs c _ _ _ _ (warm_catalog rr fs db c) (fun a c' => warm_pure rr fs c' _)

theorem warm_database (rr : RowReader) (fs : RemoteReader) (name : Bytes) (c : Cache) :
    WarmAt rr fs c (rcDatabase rr fs name c) (databaseCold rr fs name) := by
  unfold rcDatabase databaseCold
  exact warm_bind rr fs c _ _ _ _ (warm_databases rr fs c) (fun a c' => warm_pure rr fs c' _)

theorem warm_table (rr : RowReader) (π : MapOrder TableInfo) (fs : RemoteReader) (db : Nat) (name : Bytes) (c : Cache) :
    WarmAt rr fs c (rcTable rr π fs db name c) (tableCold rr π fs db name) := by
  unfold rcTable tableCold
  exact warm_bind rr fs c _ _ _ _ (warm_tables rr π fs db c) (fun a c' => warm_pure rr fs c' _)

theorem warm_query (rr : RowReader) (fs : RemoteReader) (db : Nat) (t : Option TableInfo) (opts : Option QueryOptions) (c : Cache) :
    WarmAt rr fs c (rcQuery rr fs db t opts c) (queryCold rr fs db t opts) := by
  unfold rcQuery queryCold
  cases t with
  | none => exact warm_pure rr fs c _
  | some t =>
    simp only
    by_cases h0 : t.filenode = 0
    · rw [if_pos h0, if_pos h0]; exact warm_pure rr fs c _
    · rw [if_neg h0, if_neg h0]
      cases fs (basePath db t.filenode) with
      | none => exact warm_pure rr fs c _
      | some _ =>
        simp only
        refine warm_bind rr fs c _ _ _ _ (warm_columns rr fs db t.oid c) (fun attrs c' => ?_)
        exact warm_lift rr fs c' _

theorem warm_queryByName (rr : RowReader) (π : MapOrder TableInfo) (fs : RemoteReader) (dbName tbl : Bytes)
    (opts : Option QueryOptions) (c : Cache) :
    WarmAt rr fs c (rcQueryByName rr π fs dbName tbl opts c) (queryByNameCold rr π fs dbName tbl opts) := by
  unfold rcQueryByName queryByNameCold
  refine warm_bind rr fs c _ _ _ _ (warm_database rr fs dbName c) (fun d c' => ?_)
  cases d with
  | none => exact warm_pure rr fs c' _
  | some d =>
    refine warm_bind rr fs c' _ _ _ _ (warm_table rr π fs d.oid tbl c') (fun t c'' => ?_)
    cases t with
    | none => exact warm_pure rr fs c'' _
    | some t => exact warm_query rr fs d.oid (some t) opts c''

theorem warm_dumpTable (rr : RowReader) (fs : RemoteReader) (db : Nat) (t : TableInfo) (c : Cache) :
    WarmAt rr fs c (rcDumpTable rr fs db t c) (dumpTableCold rr fs db t) := by
  unfold rcDumpTable dumpTableCold
  refine warm_bind rr fs c _ _ _ _ (warm_query rr fs db (some t) none c) (fun rows c' => ?_)
  exact warm_bind rr fs c' _ _ _ _ (warm_columns rr fs db t.oid c') (fun attrs c'' => warm_pure rr fs c'' _)

theorem warm_dumpTables (rr : RowReader) (fs : RemoteReader) (db : Nat) : ∀ (ts : List TableInfo) (c : Cache),
    WarmAt rr fs c (rcDumpTables rr fs db ts c) (dumpTablesCold rr fs db ts)
  | [], c => by unfold rcDumpTables dumpTablesCold; exact warm_pure rr fs c _
  | t :: ts, c => by
    unfold rcDumpTables dumpTablesCold
    by_cases h1 : (isPrefixB (strBytes "pg_") t.name || isPrefixB (strBytes "sql_") t.name) = true
    · rw [if_pos h1, if_pos h1]; exact warm_dumpTables rr fs db ts c
    · rw [if_neg h1, if_neg h1]
      by_cases h2 : (t.kind != [114] && t.kind != []) = true
      · rw [if_pos h2, if_pos h2]; exact warm_dumpTables rr fs db ts c
      · rw [if_neg h2, if_neg h2]
        refine warm_bind rr fs c _ _ _ _ (warm_dumpTable rr fs db t c) (fun td c' => ?_)
        exact warm_bind rr fs c' _ _ _ _ (warm_dumpTables rr fs db ts c') (fun rest c'' => warm_pure rr fs c'' _)

theorem warm_dumpDatabase (rr : RowReader) (π : MapOrder TableInfo) (fs : RemoteReader) (db : Nat) (c : Cache) :
    WarmAt rr fs c (rcDumpDatabase rr π fs db c) (dumpDatabaseCold rr π fs db) := by
  unfold rcDumpDatabase dumpDatabaseCold
  refine warm_bind rr fs c _ _ _ _ (warm_databases rr fs c) (fun dbs c' => ?_)
  dsimp only
  cases dbs.find? (·.oid == db) with
  | none => exact warm_pure rr fs c' _
  | some d =>
    dsimp only
    refine warm_bind rr fs c' _ _ _ _ (warm_tables rr π fs db c') (fun ts c'' => ?_)
    exact warm_bind rr fs c'' _ _ _ _ (warm_dumpTables rr fs db ts c'') (fun tds c3 => warm_pure rr fs c3 _)

theorem warm_dumpAllLoop (rr : RowReader) (π : MapOrder TableInfo) (fs : RemoteReader) : ∀ (dbs : List DatabaseInfo) (c : Cache),
    WarmAt rr fs c (rcDumpAllLoop rr π fs dbs c) (dumpAllLoopCold rr π fs dbs)
  | [], c => by unfold rcDumpAllLoop dumpAllLoopCold; exact warm_pure rr fs c _
  | db :: rest, c => by
    unfold rcDumpAllLoop dumpAllLoopCold
    by_cases h : isPrefixB (strBytes "template") db.name = true
    · rw [if_pos h, if_pos h]; exact warm_dumpAllLoop rr π fs rest c
    · rw [if_neg h, if_neg h]
      refine warm_bind rr fs c _ _ _ _ (warm_dumpDatabase rr π fs db.oid c) (fun d c' => ?_)
      exact warm_bind rr fs c' _ _ _ _ (warm_dumpAllLoop rr π fs rest c') (fun ds c'' => warm_pure rr fs c'' _)

theorem warm_dumpAll (rr : RowReader) (π : MapOrder TableInfo) (fs : RemoteReader) (c : Cache) :
    WarmAt rr fs c (rcDumpAll rr π fs c) (dumpAllCold rr π fs) := by
  unfold rcDumpAll dumpAllCold
  exact warm_bind rr fs c _ _ _ _ (warm_databases rr fs c) (fun dbs c' => warm_dumpAllLoop rr π fs dbs c')

theorem warm_summaryLoop (rr : RowReader) (π : MapOrder TableInfo) (fs : RemoteReader) : ∀ (dbs : List DatabaseInfo) (c : Cache),
    WarmAt rr fs c (rcSummaryLoop rr π fs dbs c) (summaryLoopCold rr π fs dbs)
  | [], c => by unfold rcSummaryLoop summaryLoopCold; exact warm_pure rr fs c _
  | db :: rest, c => by
    unfold rcSummaryLoop summaryLoopCold
    by_cases h : isPrefixB (strBytes "template") db.name = true
    · rw [if_pos h, if_pos h]; exact warm_summaryLoop rr π fs rest c
    · rw [if_neg h, if_neg h]
      refine warm_bind rr fs c _ _ _ _ (warm_tables rr π fs db.oid c) (fun ts c' => ?_)
      exact warm_bind rr fs c' _ _ _ _ (warm_summaryLoop rr π fs rest c') (fun more c'' => warm_pure rr fs c'' _)

theorem warm_summaryDatabases (rr : RowReader) (π : MapOrder TableInfo) (fs : RemoteReader) (c : Cache) :
    WarmAt rr fs c (summaryDatabases rr π fs c) (summaryDatabasesCold rr π fs) := by
  unfold summaryDatabases summaryDatabasesCold
  refine warm_bind rr fs c _ _ _ _ (warm_databases rr fs c) (fun dbs c' => ?_)
  exact warm_bind rr fs c' _ _ _ _ (warm_summaryLoop rr π fs dbs c') (fun per c'' => warm_pure rr fs c'' _)

theorem warm_exec (rr : RowReader) (π : MapOrder TableInfo) (fs : RemoteReader) (args : List Bytes) (c : Cache) :
    WarmAt rr fs c (execRun rr π fs args c) (execCold rr π fs args) := by
  unfold execRun execCold
  cases exec args with
  | summary =>
    exact warm_bind rr fs c _ _ _ _ (warm_summaryDatabases rr π fs c) (fun dbs c' => warm_pure rr fs c' _)
  | version => exact warm_pure rr fs c _
  | control => exact warm_pure rr fs c _
  | creds => exact warm_pure rr fs c _
  | databases => exact warm_bind rr fs c _ _ _ _ (warm_databases rr fs c) (fun dbs c' => warm_pure rr fs c' _)
  | tables db =>
    dsimp only
    unfold rcTablesByName
    simp only [bind_assoc]
    refine warm_bind rr fs c _ _ _ _ (warm_database rr fs db c) (fun d c' => ?_)
    cases d with
    | none => exact warm_pure rr fs c' _
    | some d =>
      dsimp only
      exact warm_bind rr fs c' _ _ _ _ (warm_tables rr π fs d.oid c') (fun ts c'' => warm_pure rr fs c'' _)
  | columns db table =>
    dsimp only
    refine warm_bind rr fs c _ _ _ _ (warm_database rr fs db c) (fun d c' => ?_)
    cases d with
    | none => exact warm_pure rr fs c' _
    | some d =>
      dsimp only
      refine warm_bind rr fs c' _ _ _ _ (warm_table rr π fs d.oid table c') (fun t c'' => ?_)
      cases t with
      | none => exact warm_pure rr fs c'' _
      | some t =>
        dsimp only
        exact warm_bind rr fs c'' _ _ _ _ (warm_columns rr fs d.oid t.oid c'') (fun a c3 => warm_pure rr fs c3 _)
  | query db table =>
    exact warm_bind rr fs c _ _ _ _ (warm_queryByName rr π fs db table _ c) (fun rows c' => warm_pure rr fs c' _)
  | dumpDb db =>
    dsimp only
    unfold rcDumpDatabaseByName
    simp only [bind_assoc]
    refine warm_bind rr fs c _ _ _ _ (warm_database rr fs db c) (fun d c' => ?_)
    cases d with
    | none => exact warm_pure rr fs c' _
    | some d =>
      dsimp only
      exact warm_bind rr fs c' _ _ _ _ (warm_dumpDatabase rr π fs d.oid c') (fun x c'' => warm_pure rr fs c'' _)
  | dumpAll => exact warm_bind rr fs c _ _ _ _ (warm_dumpAll rr π fs c) (fun r c' => warm_pure rr fs c' _)
  | error msg => exact warm_pure rr fs c _

end PgVerif.Proofs.Remote
