/-
  CRC-32C: the table-driven computation of control.go equals the bit-serial definition of Spec/Crc.lean
  for every byte string (GF(2)-linearity of the one-bit step; no bit-blasting).
-/
import PgVerif.Spec.Crc
import PgVerif.Model.Control
namespace PgVerif.Proofs
open PgVerif PgVerif.Spec

theorem crcStep1_xor (x y : W32) : crcStep1 (x ^^^ y) = crcStep1 x ^^^ crcStep1 y := by
  unfold crcStep1
  have hs : (x ^^^ y) >>> 1 = (x >>> 1) ^^^ (y >>> 1) := by
    ext i; simp [BitVec.getLsbD_xor]
  simp only [BitVec.getLsbD_xor, hs]
  cases hx : x.getLsbD 0 <;> cases hy : y.getLsbD 0 <;> simp
  · ac_rfl
  · ac_rfl
  · have : (x >>> 1 ^^^ crcPoly) ^^^ (y >>> 1 ^^^ crcPoly) = x >>> 1 ^^^ y >>> 1 ^^^ (crcPoly ^^^ crcPoly) := by ac_rfl
    rw [this, BitVec.xor_self, BitVec.xor_zero]

theorem crcIter_xor (n : Nat) (x y : W32) : crcIter n (x ^^^ y) = crcIter n x ^^^ crcIter n y := by
  induction n with
  | zero => rfl
  | succ n ih => simp only [crcIter, Nat.repeat] at *; rw [ih, crcStep1_xor]

/-- if the low n bits are zero, n steps are just a shift -/
theorem crcIter_high (n : Nat) (x : W32) (h : ∀ i, i < n → x.getLsbD i = false) : crcIter n x = x >>> n := by
  induction n with
  | zero => simp [crcIter, Nat.repeat]
  | succ n ih =>
    have := ih (fun i hi => h i (by omega))
    simp only [crcIter, Nat.repeat] at *
    rw [this]
    unfold crcStep1
    have h0 : (x >>> n).getLsbD 0 = false := by
      simp; exact h n (by omega)
    rw [h0]
    ext i; simp [BitVec.getLsbD_ushiftRight]; congr 1; omega

theorem lsb_and_one (c : W32) : (c &&& 1#32 != 0#32) = c.getLsbD 0 := by
  rw [BitVec.getLsbD_eq_getElem (by decide : 0 < 32)]
  cases h : c[0]
  · have : c &&& 1#32 = 0#32 := by
      ext i hi
      simp only [BitVec.getElem_and, BitVec.getElem_one, BitVec.getElem_zero]
      by_cases hi0 : i = 0
      · subst hi0; simp [h]
      · simp [hi0]
    simp [this]
  · have : c &&& 1#32 ≠ 0#32 := by
      intro h0
      have h1 : (c &&& 1#32)[0] = (0#32)[0] := by rw [h0]
      simp [h] at h1
    simp [this]

theorem crcTableStep_eq (c : W32) : Model.crcTableStep c = crcStep1 c := by
  unfold Model.crcTableStep crcStep1
  rw [lsb_and_one]; rfl

theorem crcTableEntry_eq (i : W32) : Model.crcTableEntry i = crcIter 8 i := by
  simp only [Model.crcTableEntry, crcTableStep_eq, crcIter, Nat.repeat]

theorem table_eq : Model.makeCRC32CTable = crc32cTable := by
  unfold Model.makeCRC32CTable crc32cTable
  apply List.map_congr_left
  intro i _
  exact crcTableEntry_eq _

theorem table_getD (k : Nat) (hk : k < 256) :
    Model.makeCRC32CTable.getD k 0#32 = crcIter 8 (BitVec.ofNat 32 k) := by
  rw [table_eq]
  unfold crc32cTable
  simp [List.getD_eq_getElem?_getD, hk]

theorem ff_bit (i : Nat) : (0xFF#32).getLsbD i = decide (i < 8) := by
  have : (0xFF#32) = BitVec.ofNat 32 (2 ^ 8 - 1) := rfl
  rw [this, BitVec.getLsbD_ofNat, Nat.testBit_two_pow_sub_one]
  by_cases h : i < 8
  · have : i < 32 := by omega
    simp [h, this]
  · simp [h]

theorem himask_bit (i : Nat) : (~~~(0xFF#32)).getLsbD i = (decide (i < 32) && !decide (i < 8)) := by
  rw [BitVec.getLsbD_not, ff_bit]

theorem byte_bit_high (b : UInt8) (i : Nat) (hi : 8 ≤ i) : (BitVec.ofNat 32 b.toNat).getLsbD i = false := by
  rw [BitVec.getLsbD_ofNat]
  have : b.toNat < 2 ^ i := Nat.lt_of_lt_of_le b.toNat_lt (Nat.pow_le_pow_right (by decide) hi)
  simp [Nat.testBit_lt_two_pow this]

/-- eight steps on a register = table entry of its low byte, xor the rest shifted -/
theorem crcIter8_split (x : W32) :
    crcIter 8 x = crcIter 8 (x &&& 0xFF#32) ^^^ (x >>> 8) := by
  generalize hm : ~~~(0xFF#32) = m
  have hmb : ∀ i, m.getLsbD i = (decide (i < 32) && !decide (i < 8)) := by
    intro i; rw [← hm]; exact himask_bit i
  have hsplit : x = (x &&& 0xFF#32) ^^^ (x &&& m) := by
    apply BitVec.eq_of_getLsbD_eq
    intro i hi
    simp only [BitVec.getLsbD_xor, BitVec.getLsbD_and, hmb, ff_bit, hi, decide_true, Bool.true_and]
    cases x.getLsbD i <;> cases decide (i < 8) <;> rfl
  have hhigh : crcIter 8 (x &&& m) = x >>> 8 := by
    rw [crcIter_high]
    · apply BitVec.eq_of_getLsbD_eq
      intro i hi
      simp only [BitVec.getLsbD_ushiftRight, BitVec.getLsbD_and, hmb]
      have h8 : ¬ (8 + i < 8) := by omega
      by_cases h32 : 8 + i < 32
      · simp [h8, h32]
      · rw [BitVec.getLsbD_of_ge x (8 + i) (by omega)]; simp
    · intro i hi
      simp only [BitVec.getLsbD_and, hmb]
      have : i < 8 := hi
      simp [this]
  conv => lhs; rw [hsplit, crcIter_xor, hhigh]

/-- the table-driven update of verifyCRC32C is the bit-serial update -/
theorem crcUpdate_eq (c : W32) (b : UInt8) : Model.crcUpdate Model.makeCRC32CTable c b = crcByte c b := by
  unfold Model.crcUpdate crcByte
  generalize hx : c ^^^ BitVec.ofNat 32 b.toNat = x
  have hlt : (x &&& 0xFF#32).toNat < 256 := by
    have : (x &&& 0xFF#32).toNat ≤ (0xFF#32).toNat := by
      rw [BitVec.toNat_and]; exact Nat.and_le_right
    have h255 : (0xFF#32).toNat = 255 := rfl
    omega
  rw [table_getD _ hlt, BitVec.ofNat_toNat, BitVec.setWidth_eq, crcIter8_split x]
  congr 1
  -- x >>> 8 = c >>> 8: the byte has no bits above 7
  rw [← hx]
  apply BitVec.eq_of_getLsbD_eq
  intro i hi
  simp only [BitVec.getLsbD_ushiftRight, BitVec.getLsbD_xor]
  rw [byte_bit_high b (8 + i) (by omega)]
  simp

theorem crcFold_eq (bs : Bytes) (c : W32) :
    bs.foldl (Model.crcUpdate Model.makeCRC32CTable) c = crcFeed c bs := by
  unfold crcFeed
  induction bs generalizing c with
  | nil => rfl
  | cons b bs ih => simp only [List.foldl_cons, crcUpdate_eq, ih]

theorem nat_beq_comm (a b : Nat) : (a == b) = (b == a) := by
  by_cases h : a = b
  · subst h; rfl
  · have h' : b ≠ a := fun e => h e.symm
    rw [beq_eq_false_iff_ne.mpr h, beq_eq_false_iff_ne.mpr h']

theorem verifyCRC32C_eq (bs : Bytes) (x : Nat) : Model.verifyCRC32C bs x = (x == crc32c bs) := by
  unfold Model.verifyCRC32C crc32c
  simp only [crcFold_eq]
  exact nat_beq_comm _ _

/-! ### error detection: the register update is injective, so a change confined to one byte is always detected -/

theorem crcStep1_zero (z : W32) (h : crcStep1 z = 0#32) : z = 0#32 := by
  unfold crcStep1 at h
  cases hz : z.getLsbD 0
  · rw [hz] at h
    simp only [Bool.false_eq_true, if_false] at h
    apply BitVec.eq_of_getLsbD_eq
    intro i hi
    cases i with
    | zero => simpa using hz
    | succ j =>
      have := congrArg (fun v => v.getLsbD j) h
      simp only [BitVec.getLsbD_ushiftRight] at this
      rw [show j + 1 = 1 + j by omega]
      simpa using this
  · rw [hz] at h
    simp only [if_true] at h
    have := congrArg (fun v => v.getLsbD 31) h
    simp only [BitVec.getLsbD_xor, BitVec.getLsbD_ushiftRight] at this
    have h32 : z.getLsbD (1 + 31) = false := BitVec.getLsbD_of_ge z 32 (by omega)
    rw [h32] at this
    have hp : crcPoly.getLsbD 31 = true := by decide
    rw [hp] at this
    simp at this

theorem xor_eq_zero_imp (x y : W32) (h : x ^^^ y = 0#32) : x = y := by
  have := congrArg (fun v => v ^^^ y) h
  simpa [BitVec.xor_assoc] using this

theorem crcStep1_inj (x y : W32) (h : crcStep1 x = crcStep1 y) : x = y := by
  apply xor_eq_zero_imp
  apply crcStep1_zero
  rw [crcStep1_xor, h, BitVec.xor_self]

theorem crcIter_inj (n : Nat) (x y : W32) (h : crcIter n x = crcIter n y) : x = y := by
  induction n with
  | zero => exact h
  | succ n ih =>
    simp only [crcIter, Nat.repeat] at h ih
    exact ih (crcStep1_inj _ _ h)

theorem xor_right_inj (c x y : W32) (h : c ^^^ x = c ^^^ y) : x = y := by
  have := congrArg (fun v => c ^^^ v) h
  simpa [← BitVec.xor_assoc] using this

theorem xor_left_inj (c d x : W32) (h : c ^^^ x = d ^^^ x) : c = d := by
  have := congrArg (fun v => v ^^^ x) h
  simpa [BitVec.xor_assoc] using this

theorem crcByte_inj_reg (c d : W32) (b : UInt8) (h : crcByte c b = crcByte d b) : c = d :=
  xor_left_inj _ _ _ (crcIter_inj 8 _ _ h)

theorem crcByte_inj_byte (c : W32) (x y : UInt8) (h : crcByte c x = crcByte c y) : x = y := by
  have h1 := xor_right_inj _ _ _ (crcIter_inj 8 _ _ h)
  have h2 := congrArg BitVec.toNat h1
  simp only [BitVec.toNat_ofNat] at h2
  have hx := x.toNat_lt
  have hy := y.toNat_lt
  rw [Nat.mod_eq_of_lt (by omega), Nat.mod_eq_of_lt (by omega)] at h2
  exact UInt8.toNat_inj.mp h2

theorem crcFeed_inj (bs : Bytes) (c d : W32) (h : crcFeed c bs = crcFeed d bs) : c = d := by
  unfold crcFeed at h
  induction bs generalizing c d with
  | nil => exact h
  | cons b bs ih => exact crcByte_inj_reg _ _ b (ih _ _ h)

/-- CRC-32C detects every change confined to one byte (in particular every single-bit flip) -/
theorem crc32c_byte_change (pre post : Bytes) (x y : UInt8) (h : x ≠ y) :
    crc32c (pre ++ x :: post) ≠ crc32c (pre ++ y :: post) := by
  intro he
  unfold crc32c at he
  have h1 := BitVec.eq_of_toNat_eq he
  have h2 := xor_left_inj _ _ _ h1
  unfold crcFeed at h2
  simp only [List.foldl_append, List.foldl_cons] at h2
  have h3 := crcFeed_inj post _ _ h2
  exact h (crcByte_inj_byte _ _ _ h3)

end PgVerif.Proofs
