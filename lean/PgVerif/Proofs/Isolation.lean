/-
  C10 — tuple-level isolation inside one heap page (helper lemmas for Props/C10/Isolation.lean).

  Setting: two pages `data`, `data'` of the same length that agree on every byte outside the window `[a, b)` — the
  storage of ONE tuple, damaged in any way.  Every read the page parser makes outside that window gives the same
  result on both pages: the header, the line-pointer array (when the window begins behind it) and the storage of
  every line pointer that does not overlap the window.
-/
import PgVerif.Proofs.HeapFile
namespace PgVerif.Proofs.Isolation
open PgVerif PgVerif.Model PgVerif.Proofs

/-- `data'` has the length of `data` and the same bytes everywhere outside `[a, b)` -/
def AgreeOutside (data data' : Bytes) (a b : Nat) : Prop :=
  data'.length = data.length ∧ ∀ i, i < a ∨ b ≤ i → data'[i]? = data[i]?

theorem AgreeOutside.refl (data : Bytes) (a b : Nat) : AgreeOutside data data a b := ⟨rfl, fun _ _ => rfl⟩

/-- a window `[lo, hi)` that does not meet `[a, b)` holds the same bytes -/
theorem window_eq {data data' : Bytes} {a b : Nat} (h : AgreeOutside data data' a b) (lo hi : Nat)
    (hd : hi ≤ a ∨ b ≤ lo) : (data'.take hi).drop lo = (data.take hi).drop lo := by
  apply List.ext_getElem?
  intro k
  simp only [List.getElem?_drop, List.getElem?_take]
  by_cases hk : lo + k < hi
  · rw [if_pos hk, if_pos hk]; exact h.2 _ (by omega)
  · rw [if_neg hk, if_neg hk]

theorem slice_eq {data data' : Bytes} {a b : Nat} (h : AgreeOutside data data' a b) (lo hi : Nat)
    (hd : hi ≤ a ∨ b ≤ lo) : slice data' lo hi = slice data lo hi := by
  unfold slice
  rw [h.1, window_eq h lo hi hd]

theorem drop_take_window (s : Bytes) (i k : Nat) : (s.drop i).take k = (s.take (i + k)).drop i := by
  rw [List.drop_take]; congr 1; omega

theorem uN_eq {data data' : Bytes} {a b : Nat} (h : AgreeOutside data data' a b) (n off : Nat)
    (hd : off + n ≤ a ∨ b ≤ off) : uN n data' off = uN n data off := by
  unfold uN
  rw [h.1]
  have e : rd n (data'.drop off) = rd n (data.drop off) := by
    rw [← rd_take n (data'.drop off) n (Nat.le_refl _), ← rd_take n (data.drop off) n (Nat.le_refl _),
      drop_take_window, drop_take_window, window_eq h off (off + n) hd]
  rw [e]

theorem parseHeader_eq {data data' : Bytes} {a b : Nat} (h : AgreeOutside data data' a b) (ha : 20 ≤ a) :
    parseHeader data' = parseHeader data := by
  unfold parseHeader
  rw [uN_eq h 2 18 (by omega), uN_eq h 2 12 (by omega), uN_eq h 2 14 (by omega)]

/-- the line-pointer loop reads `[off, off+4)` for `off = start, start+4, …` while `off < lower`: if the window begins
behind the last word it can read, the loop sees the same pointers -/
theorem parseItemsLoop_eq {data data' : Bytes} {a b : Nat} (h : AgreeOutside data data' a b) (lower : Nat) :
    ∀ (n off : Nat), off + 4 * n ≤ a → parseItemsLoop data' lower n off = parseItemsLoop data lower n off
  | 0, _, _ => rfl
  | n+1, off, hn => by
    simp only [parseItemsLoop]
    rw [h.1, uN_eq h 4 off (by omega), parseItemsLoop_eq h lower n (off + 4) (by omega)]

theorem parseItems_eq {data data' : Bytes} {a b : Nat} (h : AgreeOutside data data' a b) (lower : Nat)
    (ha : 24 + 4 * itemCount lower ≤ a) : parseItems data' lower = parseItems data lower :=
  parseItemsLoop_eq h lower _ 24 ha

/-- a line pointer whose storage does not meet the window is reported the same (whatever its state) -/
theorem pageItem_eq {data data' : Bytes} {a b : Nat} (h : AgreeOutside data data' a b) (upper : Nat) (it : ItemID)
    (hd : it.offset + it.length ≤ a ∨ b ≤ it.offset) : pageItem data' upper it = pageItem data upper it := by
  unfold pageItem
  rw [slice_eq h _ _ hd]

theorem collectM_congr {α β} (f g : α → M (Option β)) (xs : List α) (h : ∀ x ∈ xs, f x = g x) :
    collectM f xs = collectM g xs := by
  induction xs with
  | nil => rfl
  | cons x xs ih =>
    simp only [collectM]
    rw [h x (by simp), ih (fun y hy => h y (by simp [hy]))]

theorem collectM_append {α β} (f : α → M (Option β)) (xs ys : List α) (A B : List β)
    (hA : collectM f xs = .ok A) (hB : collectM f ys = .ok B) : collectM f (xs ++ ys) = .ok (A ++ B) := by
  induction xs generalizing A with
  | nil => cases hA; simpa using hB
  | cons x xs ih =>
    simp only [collectM, List.cons_append] at hA ⊢
    cases hx : f x with
    | error e => rw [hx] at hA; cases hA
    | ok r =>
      rw [hx] at hA
      simp only [ok_bind] at hA ⊢
      cases hxs : collectM f xs with
      | error e => rw [hxs] at hA; cases hA
      | ok A' =>
        rw [hxs] at hA
        simp only [ok_bind, pure_eq_ok] at hA
        rw [ih A' hxs]
        simp only [ok_bind, pure_eq_ok]
        cases r <;> (cases hA; rfl)

theorem collectM_single {α β} (f : α → M (Option β)) (x : α) (r : Option β) (h : f x = .ok r) :
    collectM f [x] = .ok r.toList := by
  simp only [collectM, h, ok_bind, pure_eq_ok]
  cases r <;> rfl

/-- ParsePage on a full-size page with a valid header is the guarded per-pointer loop over the parsed pointers,
started with nothing claimed -/
theorem parsePage_items (data : Bytes) (hd : 8192 ≤ data.length) (h : PageHeader) (hh : parseHeader data = .ok h)
    (hv : validHeader h = true) (items : List ItemID) (hi : parseItems data h.lower = .ok items) :
    parsePage data = pageLoop data h.upper items [] := by
  unfold parsePage
  rw [if_neg (by omega), hh]
  simp only [ok_bind, hv, Bool.not_true, Bool.false_eq_true, if_false, hi]

/-! ### the guarded loop (fix heap/02) on two pages / two lists of claimed storage -/

/-- the guarded step gives the same result on two pages and two claimed lists when the unguarded step does and the
pointer (if NORMAL and non-empty) overlaps the one claimed list exactly when it overlaps the other -/
theorem pageItemG_congr {data data' : Bytes} (upper : Nat) (c c' : List ItemID) (it : ItemID)
    (hitem : pageItem data' upper it = pageItem data upper it)
    (hov : it.flags = 1 → it.length ≠ 0 → overlapsAny c' it = overlapsAny c it) :
    pageItemG data' upper c' it = pageItemG data upper c it := by
  by_cases hn : (it.flags != 1 || it.length == 0) = true
  · rw [(pageItemG_not_normal data' upper c' it hn).1, (pageItemG_not_normal data upper c it hn).1]
  · simp only [Bool.or_eq_true, bne_iff_ne, ne_eq, beq_iff_eq, not_or, Decidable.not_not] at hn
    have ho := hov hn.1 hn.2
    cases hc : overlapsAny c it with
    | true =>
      rw [hc] at ho
      rw [pageItemG_of_overlaps _ _ _ _ ho, pageItemG_of_overlaps _ _ _ _ hc]
    | false =>
      rw [hc] at ho
      rw [pageItemG_of_not_overlaps _ _ _ _ ho, pageItemG_of_not_overlaps _ _ _ _ hc, hitem]

/-- the guarded loop gives the same result on two pages and two claimed lists when every pointer's unguarded step
does and every NORMAL non-empty pointer overlaps the one claimed list exactly when it overlaps the other -/
theorem pageLoop_congr {data data' : Bytes} (upper : Nat) :
    ∀ (items c c' : List ItemID),
      (∀ it ∈ items, pageItem data' upper it = pageItem data upper it) →
      (∀ it ∈ items, it.flags = 1 → it.length ≠ 0 → overlapsAny c' it = overlapsAny c it) →
      pageLoop data' upper items c' = pageLoop data upper items c
  | [], _, _, _, _ => rfl
  | it :: rest, c, c', hitem, hov => by
    have hstep := pageItemG_congr upper c c' it (hitem it (by simp)) (hov it (by simp))
    have hitem' : ∀ x ∈ rest, pageItem data' upper x = pageItem data upper x := fun x hx => hitem x (by simp [hx])
    have hov' : ∀ x ∈ rest, x.flags = 1 → x.length ≠ 0 → overlapsAny c' x = overlapsAny c x :=
      fun x hx => hov x (by simp [hx])
    cases hx : pageItemG data upper c it with
    | error e =>
      rw [pageLoop_cons_error _ _ _ _ _ e hx, pageLoop_cons_error _ _ _ _ _ e (hstep.trans hx)]
    | ok r =>
      cases r with
      | none =>
        rw [pageLoop_cons_none _ _ _ _ _ hx, pageLoop_cons_none _ _ _ _ _ (hstep.trans hx)]
        exact pageLoop_congr upper rest c c' hitem' hov'
      | some t =>
        rw [pageLoop_cons_some _ _ _ _ _ t hx, pageLoop_cons_some _ _ _ _ _ t (hstep.trans hx)]
        rw [pageLoop_congr upper rest (c ++ [it]) (c' ++ [it]) hitem' (fun x hx h1 h2 => by
          rw [overlapsAny_append, overlapsAny_append, hov' x hx h1 h2])]

/-- the storage claimed after the loop has run over `items`, starting from `c` -/
def claimedBy (data : Bytes) (upper : Nat) : List ItemID → List ItemID → List ItemID
  | [], c => c
  | it :: rest, c =>
    match pageItemG data upper c it with
    | .ok (some _) => claimedBy data upper rest (c ++ [it])
    | _ => claimedBy data upper rest c

theorem claimedBy_congr {data data' : Bytes} (upper : Nat) :
    ∀ (items c : List ItemID), (∀ it ∈ items, pageItem data' upper it = pageItem data upper it) →
      claimedBy data' upper items c = claimedBy data upper items c
  | [], _, _ => rfl
  | it :: rest, c, hitem => by
    have hstep := pageItemG_congr upper c c it (hitem it (by simp)) (fun _ _ => rfl)
    have hitem' : ∀ x ∈ rest, pageItem data' upper x = pageItem data upper x := fun x hx => hitem x (by simp [hx])
    simp only [claimedBy, hstep]
    split
    · exact claimedBy_congr upper rest _ hitem'
    · exact claimedBy_congr upper rest _ hitem'

/-- the loop over `xs ++ ys`: the loop over `xs`, then the loop over `ys` with what `xs` claimed -/
theorem pageLoop_append (data : Bytes) (upper : Nat) :
    ∀ (xs ys c : List ItemID), pageLoop data upper (xs ++ ys) c =
      (do let A ← pageLoop data upper xs c
          let B ← pageLoop data upper ys (claimedBy data upper xs c)
          pure (A ++ B))
  | [], ys, c => by
    simp only [List.nil_append, pageLoop_nil, ok_bind, claimedBy]
    cases pageLoop data upper ys c <;> rfl
  | it :: rest, ys, c => by
    rw [List.cons_append]
    cases hx : pageItemG data upper c it with
    | error e =>
      rw [pageLoop_cons_error _ _ _ _ _ e hx, pageLoop_cons_error _ _ _ _ _ e hx]; rfl
    | ok r =>
      cases r with
      | none =>
        rw [pageLoop_cons_none _ _ _ _ _ hx, pageLoop_cons_none _ _ _ _ _ hx, pageLoop_append data upper rest ys c]
        simp only [claimedBy, hx]
      | some t =>
        rw [pageLoop_cons_some _ _ _ _ _ t hx, pageLoop_cons_some _ _ _ _ _ t hx,
          pageLoop_append data upper rest ys (c ++ [it])]
        simp only [claimedBy, hx]
        cases pageLoop data upper rest (c ++ [it]) with
        | error e => rfl
        | ok A =>
          simp only [ok_bind]
          cases pageLoop data upper ys (claimedBy data upper rest (c ++ [it])) <;> rfl

end PgVerif.Proofs.Isolation
