/-
  C10 — tuple-level isolation inside one heap page (helper lemmas for Props/C10/Isolation.lean).

  Setting: two pages `data`, `data'` of the same length that agree on every byte outside the window `[a, b)` — the
  storage of ONE tuple, damaged in any way.  Every read the page parser makes outside that window gives the same
  result on both pages: the header, the line-pointer array (when the window begins behind it) and the storage of
  every line pointer that does not overlap the window.
-/
import PgVerif.Proofs.HeapFile
namespace PgVerif.Proofs.Isolation
open PgVerif PgVerif.Model PgVerif.Proofs

/-- `data'` has the length of `data` and the same bytes everywhere outside `[a, b)` -/
def AgreeOutside (data data' : Bytes) (a b : Nat) : Prop :=
  data'.length = data.length ∧ ∀ i, i < a ∨ b ≤ i → data'[i]? = data[i]?

theorem AgreeOutside.refl (data : Bytes) (a b : Nat) : AgreeOutside data data a b := ⟨rfl, fun _ _ => rfl⟩

/-- a window `[lo, hi)` that does not meet `[a, b)` holds the same bytes -/
theorem window_eq {data data' : Bytes} {a b : Nat} (h : AgreeOutside data data' a b) (lo hi : Nat)
    (hd : hi ≤ a ∨ b ≤ lo) : (data'.take hi).drop lo = (data.take hi).drop lo := by
  apply List.ext_getElem?
  intro k
  simp only [List.getElem?_drop, List.getElem?_take]
  by_cases hk : lo + k < hi
  · rw [if_pos hk, if_pos hk]; exact h.2 _ (by omega)
  · rw [if_neg hk, if_neg hk]

theorem slice_eq {data data' : Bytes} {a b : Nat} (h : AgreeOutside data data' a b) (lo hi : Nat)
    (hd : hi ≤ a ∨ b ≤ lo) : slice data' lo hi = slice data lo hi := by
  unfold slice
  rw [h.1, window_eq h lo hi hd]

theorem drop_take_window (s : Bytes) (i k : Nat) : (s.drop i).take k = (s.take (i + k)).drop i := by
  rw [List.drop_take]; congr 1; omega

theorem uN_eq {data data' : Bytes} {a b : Nat} (h : AgreeOutside data data' a b) (n off : Nat)
    (hd : off + n ≤ a ∨ b ≤ off) : uN n data' off = uN n data off := by
  unfold uN
  rw [h.1]
  have e : rd n (data'.drop off) = rd n (data.drop off) := by
    rw [← rd_take n (data'.drop off) n (Nat.le_refl _), ← rd_take n (data.drop off) n (Nat.le_refl _),
      drop_take_window, drop_take_window, window_eq h off (off + n) hd]
  rw [e]

theorem parseHeader_eq {data data' : Bytes} {a b : Nat} (h : AgreeOutside data data' a b) (ha : 20 ≤ a) :
    parseHeader data' = parseHeader data := by
  unfold parseHeader
  rw [uN_eq h 2 18 (by omega), uN_eq h 2 12 (by omega), uN_eq h 2 14 (by omega)]

/-- the line-pointer loop reads `[off, off+4)` for `off = start, start+4, …` while `off < lower`: if the window begins
behind the last word it can read, the loop sees the same pointers -/
theorem parseItemsLoop_eq {data data' : Bytes} {a b : Nat} (h : AgreeOutside data data' a b) (lower : Nat) :
    ∀ (n off : Nat), off + 4 * n ≤ a → parseItemsLoop data' lower n off = parseItemsLoop data lower n off
  | 0, _, _ => rfl
  | n+1, off, hn => by
    simp only [parseItemsLoop]
    rw [h.1, uN_eq h 4 off (by omega), parseItemsLoop_eq h lower n (off + 4) (by omega)]

theorem parseItems_eq {data data' : Bytes} {a b : Nat} (h : AgreeOutside data data' a b) (lower : Nat)
    (ha : 24 + 4 * itemCount lower ≤ a) : parseItems data' lower = parseItems data lower :=
  parseItemsLoop_eq h lower _ 24 ha

/-- a line pointer whose storage does not meet the window is reported the same (whatever its state) -/
theorem pageItem_eq {data data' : Bytes} {a b : Nat} (h : AgreeOutside data data' a b) (upper : Nat) (it : ItemID)
    (hd : it.offset + it.length ≤ a ∨ b ≤ it.offset) : pageItem data' upper it = pageItem data upper it := by
  unfold pageItem
  rw [slice_eq h _ _ hd]

theorem collectM_congr {α β} (f g : α → M (Option β)) (xs : List α) (h : ∀ x ∈ xs, f x = g x) :
    collectM f xs = collectM g xs := by
  induction xs with
  | nil => rfl
  | cons x xs ih =>
    simp only [collectM]
    rw [h x (by simp), ih (fun y hy => h y (by simp [hy]))]

theorem collectM_append {α β} (f : α → M (Option β)) (xs ys : List α) (A B : List β)
    (hA : collectM f xs = .ok A) (hB : collectM f ys = .ok B) : collectM f (xs ++ ys) = .ok (A ++ B) := by
  induction xs generalizing A with
  | nil => cases hA; simpa using hB
  | cons x xs ih =>
    simp only [collectM, List.cons_append] at hA ⊢
    cases hx : f x with
    | error e => rw [hx] at hA; cases hA
    | ok r =>
      rw [hx] at hA
      simp only [ok_bind] at hA ⊢
      cases hxs : collectM f xs with
      | error e => rw [hxs] at hA; cases hA
      | ok A' =>
        rw [hxs] at hA
        simp only [ok_bind, pure_eq_ok] at hA
        rw [ih A' hxs]
        simp only [ok_bind, pure_eq_ok]
        cases r <;> (cases hA; rfl)

theorem collectM_single {α β} (f : α → M (Option β)) (x : α) (r : Option β) (h : f x = .ok r) :
    collectM f [x] = .ok r.toList := by
  simp only [collectM, h, ok_bind, pure_eq_ok]
  cases r <;> rfl

/-- ParsePage on a full-size page with a valid header is the per-pointer loop over the parsed pointers -/
theorem parsePage_items (data : Bytes) (hd : 8192 ≤ data.length) (h : PageHeader) (hh : parseHeader data = .ok h)
    (hv : validHeader h = true) (items : List ItemID) (hi : parseItems data h.lower = .ok items) :
    parsePage data = collectM (pageItem data h.upper) items := by
  unfold parsePage
  rw [if_neg (by omega), hh]
  simp only [ok_bind, hv, Bool.not_true, Bool.false_eq_true, if_false, hi]

end PgVerif.Proofs.Isolation
