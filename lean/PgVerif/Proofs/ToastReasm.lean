/-
  ReassembleTOAST on the chunks of a stored value: filter by id, sort by sequence number, concatenate,
  decompress (used by Props/C08).
-/
import PgVerif.Proofs.ToastRel
namespace PgVerif.Proofs.Toast
open PgVerif PgVerif.Model PgVerif.Model.Toast PgVerif.Spec PgVerif.Spec.Toast PgVerif.Proofs
set_option linter.unusedVariables false

/-! ### chunk rows: ids, sequence numbers, concatenation -/

theorem chunkRowsFrom_id (id k : Nat) (ps : List Bytes) : ∀ r ∈ chunkRowsFrom id k ps, r.id = id := by
  induction ps generalizing k with
  | nil => intro r hr; simp [chunkRowsFrom] at hr
  | cons p ps ih =>
    intro r hr
    simp only [chunkRowsFrom, List.mem_cons] at hr
    rcases hr with rfl | hr
    · rfl
    · exact ih (k + 1) r hr

theorem chunkRowsFrom_seq_ge (id k : Nat) (ps : List Bytes) : ∀ r ∈ chunkRowsFrom id k ps, k ≤ r.seq := by
  induction ps generalizing k with
  | nil => intro r hr; simp [chunkRowsFrom] at hr
  | cons p ps ih =>
    intro r hr
    simp only [chunkRowsFrom, List.mem_cons] at hr
    rcases hr with rfl | hr
    · exact Nat.le_refl _
    · have := ih (k + 1) r hr; omega

/-- sequence numbers strictly increase along the rows of a value -/
theorem chunkRowsFrom_sorted (id k : Nat) (ps : List Bytes) :
    (chunkRowsFrom id k ps).Pairwise (fun a b => a.seq < b.seq) := by
  induction ps generalizing k with
  | nil => simp [chunkRowsFrom]
  | cons p ps ih =>
    simp only [chunkRowsFrom, List.pairwise_cons]
    refine ⟨?_, ih (k + 1)⟩
    intro r hr
    have := chunkRowsFrom_seq_ge id (k + 1) ps r hr
    show k < r.seq
    omega

theorem chunkRowsFrom_data (id k : Nat) (ps : List Bytes) :
    (chunkRowsFrom id k ps).flatMap (·.data) = ps.flatten := by
  induction ps generalizing k with
  | nil => rfl
  | cons p ps ih => simp [chunkRowsFrom, ih]

theorem pieces_flatten (cuts : List Nat) (bs : Bytes) (h : bs.length ≤ cuts.sum) : (pieces cuts bs).flatten = bs := by
  induction cuts generalizing bs with
  | nil => simp at h; subst h; rfl
  | cons n ns ih =>
    simp only [pieces, List.flatten_cons]
    rw [ih (bs.drop n) (by simp at h ⊢; omega), List.take_append_drop]

/-! ### sorting a permutation of the rows gives the rows -/

def leSeq (a b : Chunk) : Bool := decide (a.seq ≤ b.seq)

theorem sort_perm_sorted (L S : List Chunk) (hp : L.Perm S) (hs : S.Pairwise (fun a b => a.seq < b.seq)) :
    L.mergeSort leSeq = S := by
  have hperm : (L.mergeSort leSeq).Perm S := (List.mergeSort_perm L leSeq).trans hp
  have hsorted : (L.mergeSort leSeq).Pairwise (fun a b => leSeq a b = true) :=
    List.pairwise_mergeSort
      (fun a b c h1 h2 => by simp only [leSeq, decide_eq_true_eq] at *; omega)
      (fun a b => by simp only [leSeq, Bool.or_eq_true, decide_eq_true_eq]; omega) L
  have hS : S.Pairwise (fun a b => leSeq a b = true) :=
    hs.imp (fun h => by simp only [leSeq, decide_eq_true_eq]; omega)
  apply List.Perm.eq_of_pairwise (le := fun a b => leSeq a b = true) _ hsorted hS hperm
  -- antisymmetry on these lists: both elements are in S, where sequence numbers are distinct
  intro a b ha hb hab hba
  have ha' : a ∈ S := hperm.mem_iff.mp ha
  simp only [leSeq, decide_eq_true_eq] at hab hba
  have heq : a.seq = b.seq := by omega
  clear hab hba hsorted hS hperm ha hp
  induction S with
  | nil => simp at hb
  | cons x xs ih =>
    rw [List.pairwise_cons] at hs
    rcases List.mem_cons.mp ha' with rfl | ha2
    · rcases List.mem_cons.mp hb with rfl | hb2
      · rfl
      · have := hs.1 b hb2; omega
    · rcases List.mem_cons.mp hb with rfl | hb2
      · have := hs.1 a ha2; omega
      · exact ih hs.2 hb2 ha2

/-! ### the pointer of a value -/

theorem ptrOf_wf (v : ToastValue) (h : v.WF) : (ptrOf v).WF := by
  obtain ⟨h1, h2, ⟨hc1, hc2, hc3⟩, h4, h5⟩ := h
  have hm : v.content.method < 4 := by cases v.content <;> simp [Content.method]
  have hst : v.content.stored.length < 2 ^ 30 := by
    cases hc : v.content with
    | plain raw => rw [hc] at hc2; simp [Content.stored, Content.original] at hc2 ⊢; omega
    | pglz ts => rw [hc] at hc3 hc2; simp only at hc3; omega
    | lz4 b => rw [hc] at hc3 hc2; simp only at hc3; omega
  exact ⟨by simp [ptrOf]; omega, by simpa [ptrOf] using hst, by simpa [ptrOf] using hm, by simpa [ptrOf] using h1,
    by simpa [ptrOf] using h2⟩

/-- what ParseTOASTPointer makes of the pointer of `v` -/
def mptr (v : ToastValue) : Ptr :=
  ⟨v.content.original.length + 4, v.content.stored.length, v.id, v.relid,
   decide (v.content.stored.length + 4 < v.content.original.length + 4), v.content.method⟩

theorem parse_ptrOf (v : ToastValue) (h : v.WF) :
    parseTOASTPointer (encExtPtr (ptrOf v)) = .ok (some (mptr v)) := by
  have := parseTOASTPointer_enc (ptrOf v) (ptrOf_wf v h) []
  simpa [ptrOf, mptr, ExtPtr.compressed] using this

/-! ### decompression of the stored form -/

theorem decompressStored_pglz (zlib : Bytes → Nat → Option Bytes) (v : ToastValue) (ts : List Pglz.Tok)
    (hc : v.content = .pglz ts) (hw : Pglz.PglzWF ts) (h4 : 4 ≤ (Pglz.renderPglz ts).length)
    (hlt : v.content.stored.length < v.content.original.length) :
    decompressStored zlib (mptr v) v.content.stored = .ok v.content.original := by
  have hd := Pglz.decompressPGLZ_render ts hw h4
  have hs : sliceFrom v.content.stored 4 = .ok (Pglz.renderPglz ts) := by
    rw [hc, sliceFrom_ok _ _ (by simp [Content.stored])]
    simp only [Content.stored]
    rw [List.drop_left' (by simp)]
  have hpos : 0 < (Pglz.expand ts).length := by
    rw [hc] at hlt; simp only [Content.original] at hlt; omega
  unfold decompressStored
  simp only [mptr, hs, ok_bind, Nat.add_sub_cancel]
  rw [hc]
  simp only [Content.method, Content.original, show ((0 : Nat) == 1) = false from rfl, Bool.false_eq_true, if_false,
    pure_eq_ok, ok_bind, hd]
  rw [if_pos hpos]

theorem decompressStored_lz4 (zlib : Bytes → Nat → Option Bytes) (v : ToastValue) (b : Lz4.Block)
    (hc : v.content = .lz4 b) (hw : Lz4.Lz4WF b) :
    decompressStored zlib (mptr v) v.content.stored = .ok v.content.original := by
  have hd := Lz4.decompressLZ4_render b hw
  have hs : sliceFrom v.content.stored 4 = .ok (Lz4.render b) := by
    rw [hc, sliceFrom_ok _ _ (by simp [Content.stored])]
    simp only [Content.stored]
    rw [List.drop_left' (by simp)]
  unfold decompressStored
  simp only [mptr, hs, ok_bind, Nat.add_sub_cancel]
  rw [hc]
  simp only [Content.method, Content.original, beq_self_eq_true, if_true, hd, ok_bind]
  rfl

/-! ### ReassembleTOAST -/

theorem reassemble_value (zlib : Bytes → Nat → Option Bytes) (cs : List Chunk) (v : ToastValue) (h : v.WF)
    (hp : (cs.filter (·.id == v.id)).Perm ((chunkRows v).map toChunk)) :
    reassembleTOAST zlib cs v.id (some (mptr v)) = .ok (some v.content.original) := by
  obtain ⟨h1, h2, hcw, h4, h5⟩ := h
  obtain ⟨hc1, hc2, hc3⟩ := hcw
  -- sorted selection = the value's chunks in order
  have hsortedS : ((chunkRows v).map toChunk).Pairwise (fun a b => a.seq < b.seq) := by
    rw [List.pairwise_map]
    exact (chunkRowsFrom_sorted v.id 0 _).imp (fun h => by simp only [toChunk]; omega)
  have hsort := sort_perm_sorted _ _ hp hsortedS
  have hdata : ((chunkRows v).map toChunk).flatMap (·.data) = v.content.stored := by
    rw [List.flatMap_map]
    have : (fun r : Row => (toChunk r).data) = (·.data) := rfl
    rw [this, chunkRows, chunkRowsFrom_data, pieces_flatten _ _ (by omega)]
  have hne : (cs.filter (·.id == v.id)).length ≠ 0 := by
    rw [hp.length_eq]
    intro h0
    have : ((chunkRows v).map toChunk).flatMap (·.data) = [] := by
      rw [List.length_eq_zero_iff.mp h0]; rfl
    rw [hdata] at this
    rw [this] at hc1; simp at hc1
  unfold reassembleTOAST
  simp only [pure_eq_ok, ok_bind]
  rw [if_neg hne]
  have hsort' : (cs.filter (·.id == v.id)).mergeSort (fun a b => decide (a.seq ≤ b.seq)) = (chunkRows v).map toChunk := hsort
  simp only [hsort', hdata]
  have hnonempty : v.content.stored.isEmpty = false := by
    cases hst : v.content.stored with
    | nil => rw [hst] at hc1; simp at hc1
    | cons _ _ => rfl
  cases hc : v.content with
  | plain raw =>
    have : (mptr v).isCompressed = false := by simp [mptr, hc, Content.stored, Content.original]
    simp only [this, Bool.false_and, Bool.false_eq_true, if_false]
    rw [← hc, hnonempty]
    simp only [Bool.false_eq_true, if_false]
    rw [hc]; rfl
  | pglz ts =>
    rw [hc] at hc3; simp only at hc3
    obtain ⟨hw, hlt⟩ := hc3
    have h4s : 4 ≤ (Pglz.renderPglz ts).length :=
      Pglz.pglz_stream_ge4 ts hw (by simp [Content.stored, Content.original] at hlt; omega)
    rw [← hc] at hlt
    have hcomp : (mptr v).isCompressed = true := by simp [mptr]; omega
    have hlen : decide (v.content.stored.length > 4) = true := by
      simp only [decide_eq_true_eq]; rw [hc]; simp [Content.stored]; omega
    have hraw : decide ((mptr v).rawSize ≥ 4) = true := by simp [mptr]
    rw [← hc]
    simp only [hcomp, hlen, hraw, Bool.and_self, if_true]
    rw [decompressStored_pglz zlib v ts hc hw h4s hlt]
    rfl
  | lz4 b =>
    rw [hc] at hc3; simp only at hc3
    obtain ⟨hw, hlt⟩ := hc3
    rw [← hc] at hlt
    have hcomp : (mptr v).isCompressed = true := by simp [mptr]; omega
    have hlen : decide (v.content.stored.length > 4) = true := by
      simp only [decide_eq_true_eq]; rw [hc]; simp [Content.stored, Lz4.render, Lz4.renderLast]; omega
    have hraw : decide ((mptr v).rawSize ≥ 4) = true := by simp [mptr]
    rw [← hc]
    simp only [hcomp, hlen, hraw, Bool.and_self, if_true]
    rw [decompressStored_lz4 zlib v b hc hw]
    rfl

end PgVerif.Proofs.Toast
