/-
  ParseControlFile on ANY buffer of at least 296 bytes (no well-formedness, any padding bytes, any field values): it
  succeeds, the reported crc is the four bytes at 288, the verdict is "valid" iff they are the CRC-32C of the 288 bytes
  before them, and the reported versions are the stored ones.  (REVIEW C16 minor 3: the verdict on arbitrary images was
  a theorem about verifyCRC32C only.)
-/
import PgVerif.Proofs.Crc
import PgVerif.Proofs.ControlTotal
namespace PgVerif.Proofs
open PgVerif PgVerif.Spec

theorem parseControlFile_any (bs : Bytes) (h : bs.length ≥ 296) :
    ∃ f, Model.parseControlFile bs = .ok (some f) ∧ f.crc = rdAt 4 288 bs ∧
      f.crcValid = (rdAt 4 288 bs == crc32c (bs.take 288)) ∧
      f.pgControlVersion = rdAt 4 8 bs ∧ f.catalogVersionNo = rdAt 4 12 bs ∧
      f.pgVersionMajor = Model.inferPGVersion (rdAt 4 8 bs) (rdAt 4 12 bs) := by
  unfold Model.parseControlFile
  have hl : ¬ bs.length < 296 := by omega
  simp (disch := omega) only [hl, if_false, uN_ok, sliceTo_ok, ok_bind, pure_eq_ok]
  have hseg : ∀ v : Nat, v < 2 ^ 32 → ∃ s, Model.formatWALFilename (rd 8 (List.drop 40 bs)) (rd 4 (List.drop 48 bs))
      (if v = 0 then 16 * 1024 * 1024 else v) = .ok s := by
    intro v hv
    apply formatWALFilename_total
    · split <;> omega
    · split <;> omega
  obtain ⟨s, hs⟩ := hseg (rd 4 (List.drop 228 bs)) (by have := rd_lt 4 (List.drop 228 bs); omega)
  rw [hs]
  simp only [ok_bind]
  rw [if_pos (by omega)]
  simp only [ok_bind]
  exact ⟨_, rfl, rfl, by simp only [verifyCRC32C_eq, rdAt], rfl, rfl, rfl⟩

end PgVerif.Proofs
