/-
  Helper lemmas for C01: the bytes of a string literal.  `strBytes s = s.toUTF8.toList` is not evaluated by the
  kernel (strings are byte arrays); `strBytes_eq` turns it into a computation on the list of characters, which
  `rfl`/`decide` do evaluate.  Core only.
-/
import PgVerif.Basic.Canon
import Std.Data.String.ToNat
namespace PgVerif.Proofs.Cluster
open PgVerif

theorem byteArray_toList_loop (bs : ByteArray) (n : Nat) : ∀ (i : Nat) (r : List UInt8), bs.size - i = n →
    ByteArray.toList.loop bs i r = r.reverse ++ bs.data.toList.drop i := by
  have hsz : bs.data.toList.length = bs.size := by rw [Array.length_toList]; rfl
  induction n with
  | zero =>
    intro i r h
    unfold ByteArray.toList.loop
    have : ¬ i < bs.size := by omega
    rw [if_neg this]
    have : bs.data.toList.length ≤ i := by omega
    rw [List.drop_of_length_le this]; simp
  | succ n ih =>
    intro i r h
    unfold ByteArray.toList.loop
    have hi : i < bs.size := by omega
    rw [if_pos hi, ih (i + 1) _ (by omega)]
    have hl : i < bs.data.toList.length := by omega
    rw [List.drop_eq_getElem_cons hl]
    have : bs.get! i = bs.data.toList[i] := by
      show bs.data[i]! = _
      rw [getElem!_pos bs.data i hi]; simp
    rw [this]; simp

theorem byteArray_toList (bs : ByteArray) : bs.toList = bs.data.toList := by
  unfold ByteArray.toList
  rw [byteArray_toList_loop bs _ 0 [] rfl]; simp

/-- the bytes of a string are the UTF-8 encodings of its characters, in order -/
theorem strBytes_eq (s : String) : strBytes s = s.toList.flatMap String.utf8EncodeChar := by
  unfold strBytes
  rw [String.toUTF8_eq_toByteArray, ← String.utf8Encode_toList, List.utf8Encode, byteArray_toList,
    List.toList_data_toByteArray]

theorem strBytes_append (a b : String) : strBytes (a ++ b) = strBytes a ++ strBytes b := by
  simp [strBytes_eq, String.toList_append]

/-! ### decimal text of a natural number -/

/-- a decimal digit character is one byte, `0`..`9` -/
theorem utf8_digit (c : Char) (h : c.isDigit = true) : ∃ b : UInt8, String.utf8EncodeChar c = [b] ∧ 48 ≤ b ∧ b ≤ 57 := by
  have hc : 48 ≤ c.val ∧ c.val ≤ 57 := by simpa [Char.isDigit] using h
  have h1 : c.utf8Size = 1 := by
    simp only [Char.utf8Size]
    have : c.val ≤ 127 := by
      have := hc.2
      exact UInt32.le_trans this (by decide)
    simp [this]
  refine ⟨c.val.toUInt8, String.utf8EncodeChar_eq_singleton h1, ?_, ?_⟩
  · have := hc.1
    rw [UInt8.le_iff_toNat_le]
    have h2 : c.val.toNat ≤ 57 := by simpa using UInt32.le_iff_toNat_le.mp hc.2
    have h3 : 48 ≤ c.val.toNat := by simpa using UInt32.le_iff_toNat_le.mp hc.1
    simp only [UInt32.toNat_toUInt8]
    show 48 ≤ c.val.toNat % 256
    omega
  · rw [UInt8.le_iff_toNat_le]
    have h2 : c.val.toNat ≤ 57 := by simpa using UInt32.le_iff_toNat_le.mp hc.2
    simp only [UInt32.toNat_toUInt8]
    show c.val.toNat % 256 ≤ 57
    omega



theorem strBytes_inj (a b : String) (h : strBytes a = strBytes b) : a = b := by
  unfold strBytes at h
  rw [String.toUTF8_eq_toByteArray, String.toUTF8_eq_toByteArray, byteArray_toList, byteArray_toList] at h
  apply String.toByteArray_inj.mp
  apply ByteArray.ext
  exact Array.toList_inj.mp h

/-- decimal text of a natural number, as the path builders produce it -/
def decBytes (n : Nat) : Bytes := strBytes (toString n)

theorem decBytes_inj (a b : Nat) (h : decBytes a = decBytes b) : a = b := by
  have := strBytes_inj _ _ h
  exact Nat.repr_inj.mp this

theorem decBytes_digits (n : Nat) : ∀ b ∈ decBytes n, (48 : UInt8) ≤ b ∧ b ≤ 57 := by
  intro b hb
  unfold decBytes at hb
  rw [strBytes_eq] at hb
  obtain ⟨c, hc, hbc⟩ := List.mem_flatMap.mp hb
  have hcd : c ∈ Nat.toDigits 10 n := by
    have : (toString n).toList = Nat.toDigits 10 n := Nat.toList_repr
    rw [← this]; exact hc
  obtain ⟨b', hb', h1, h2⟩ := utf8_digit c (Nat.isDigit_of_mem_toDigits (by decide) (by decide) hcd)
  rw [hb'] at hbc
  simp only [List.mem_singleton] at hbc
  subst hbc
  exact ⟨h1, h2⟩

/-- two decimal numbers each followed by a `/`: equal texts have equal parts -/
theorem digits_slash_cancel : ∀ (xs ys r r' : Bytes), (∀ b ∈ xs, (48 : UInt8) ≤ b) → (∀ b ∈ ys, (48 : UInt8) ≤ b) →
    xs ++ 47 :: r = ys ++ 47 :: r' → xs = ys ∧ r = r'
  | [], [], r, r', _, _, h => by simp at h; exact ⟨rfl, h⟩
  | [], y :: ys, r, r', _, hy, h => by
    simp only [List.nil_append, List.cons_append, List.cons.injEq] at h
    have := hy y (by simp)
    rw [← h.1] at this
    exact absurd this (by decide)
  | x :: xs, [], r, r', hx, _, h => by
    simp only [List.nil_append, List.cons_append, List.cons.injEq] at h
    have := hx x (by simp)
    rw [h.1] at this
    exact absurd this (by decide)
  | x :: xs, y :: ys, r, r', hx, hy, h => by
    simp only [List.cons_append, List.cons.injEq] at h
    obtain ⟨h1, h2⟩ := digits_slash_cancel xs ys r r' (fun b hb => hx b (by simp [hb])) (fun b hb => hy b (by simp [hb])) h.2
    exact ⟨by rw [h.1, h1], h2⟩

end PgVerif.Proofs.Cluster
