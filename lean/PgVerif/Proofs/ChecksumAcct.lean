/-
  Accounting theorems for the model of pgdump/checksum.go (Model/Checksum.lean):
  A. `verifyFileChecksums` in closed form, for every byte string;
  B. the link to the PostgreSQL-side view `Spec.BlockAddr.ckFileView` for encoded files;
  C. the directory scan (`scanDbFiles`, `scanBase`, `verifyDataDirChecksums`, `relFileSegment`).
-/
import PgVerif.Proofs.Block
namespace PgVerif.Proofs.ChecksumAcct
open PgVerif PgVerif.Model PgVerif.Proofs.Block

/-! ## A. file accounting -/

/-- block i of a byte string -/
def chunk (data : Bytes) (i : Nat) : Bytes := (data.drop (i * 8192)).take 8192

def storedCk (page : Bytes) : Nat := rd 2 (page.drop 8)

def pageLsn (page : Bytes) : Nat := rd 4 page * 2 ^ 32 + rd 4 (page.drop 4)

/-- the verdict for one block: depends only on the block's bytes and its number -/
def pageError (ck : Bytes → Nat → Nat) (num : Nat) (page : Bytes) : Option ChecksumResult :=
  if allZero page then none
  else if storedCk page == ck page num then none
  else some ⟨num, storedCk page, ck page num, false, pageLsn page, formatLSN (pageLsn page)⟩

def blockNum (seg i : Nat) : Nat := mask32 (mask32 (seg * 131072) + mask32 i)

/-- closed form of the result -/
def fileResult (ck : Bytes → Nat → Nat) (data : Bytes) (seg : Nat) : FileChecksumResult :=
  let n := data.length / 8192
  let errs := (List.range n).filterMap fun i => pageError ck (blockNum seg i) (chunk data i)
  { totalBlocks := n, validBlocks := n - errs.length, invalidBlocks := errs.length,
    zeroBlocks := ((List.range n).filter fun i => allZero (chunk data i)).length, errors := errs }

theorem rd_take_drop (n o : Nat) (p : Bytes) : rd n ((p.take (o + n)).drop o) = rd n (p.drop o) := by
  rw [List.drop_take, show o + n - o = n by omega]
  exact rd_take n _ n (Nat.le_refl n)

/-- `verifyPageChecksum` on a full, not all-zero page -/
theorem verifyPageChecksum_full (ck : Bytes → Nat → Nat) (page : Bytes) (num : Nat)
    (hlen : page.length = 8192) (hz : allZero page = false) :
    verifyPageChecksum ck page num =
      .ok ⟨num, storedCk page, ck page num, storedCk page == ck page num, pageLsn page,
           formatLSN (pageLsn page)⟩ := by
  unfold verifyPageChecksum
  have h1 : ¬ page.length < 8192 := by omega
  have e1 := rd_take_drop 2 8 page
  have e2 := rd_take_drop 4 0 page
  have e3 := rd_take_drop 4 4 page
  simp only [Nat.zero_add, List.drop_zero] at e2
  have s1 : slice page 8 10 = .ok ((page.take 10).drop 8) := slice_ok _ _ _ (by omega) (by omega)
  have s2 : slice page 0 4 = .ok (page.take 4) := slice_ok _ _ _ (by omega) (by omega)
  have s3 : slice page 4 8 = .ok ((page.take 8).drop 4) := slice_ok _ _ _ (by omega) (by omega)
  have u1 : uN 2 ((page.take 10).drop 8) 0 = .ok (rd 2 ((page.take 10).drop 8)) :=
    uN_ok _ _ _ (by simp only [List.length_drop, List.length_take]; omega)
  have u2 : uN 4 (page.take 4) 0 = .ok (rd 4 (page.take 4)) :=
    uN_ok _ _ _ (by simp only [List.length_take]; omega)
  have u3 : uN 4 ((page.take 8).drop 4) 0 = .ok (rd 4 ((page.take 8).drop 4)) :=
    uN_ok _ _ _ (by simp only [List.length_drop, List.length_take]; omega)
  simp only [h1, hz, if_false, Bool.false_eq_true, s1, s2, s3, u1, u2, u3, ok_bind, pure_eq_ok,
     e1, e2, e3, storedCk, pageLsn]

/-- the accumulator after the first `i` blocks -/
def accOf (ck : Bytes → Nat → Nat) (data : Bytes) (seg total i : Nat) : FileChecksumResult :=
  { totalBlocks := total,
    validBlocks := i - ((List.range i).filterMap fun k => pageError ck (blockNum seg k) (chunk data k)).length,
    invalidBlocks := ((List.range i).filterMap fun k => pageError ck (blockNum seg k) (chunk data k)).length,
    zeroBlocks := ((List.range i).filter fun k => allZero (chunk data k)).length,
    errors := (List.range i).filterMap fun k => pageError ck (blockNum seg k) (chunk data k) }

theorem chunk_length (data : Bytes) (i : Nat) (h : (i + 1) * 8192 ≤ data.length) :
    (chunk data i).length = 8192 := by
  unfold chunk
  simp only [List.length_take, List.length_drop]
  omega

theorem accOf_succ (ck : Bytes → Nat → Nat) (data : Bytes) (seg total i : Nat) :
    accOf ck data seg total (i + 1) =
      match pageError ck (blockNum seg i) (chunk data i) with
      | none =>
        { accOf ck data seg total i with
          validBlocks := (accOf ck data seg total i).validBlocks + 1,
          zeroBlocks := (accOf ck data seg total i).zeroBlocks + (if allZero (chunk data i) then 1 else 0) }
      | some e =>
        { accOf ck data seg total i with
          invalidBlocks := (accOf ck data seg total i).invalidBlocks + 1,
          zeroBlocks := (accOf ck data seg total i).zeroBlocks + (if allZero (chunk data i) then 1 else 0),
          errors := (accOf ck data seg total i).errors ++ [e] } := by
  have hle : ((List.range i).filterMap fun k => pageError ck (blockNum seg k) (chunk data k)).length ≤ i := by
    have := List.length_filterMap_le (fun k => pageError ck (blockNum seg k) (chunk data k)) (List.range i)
    simpa using this
  unfold accOf
  simp only [List.range_succ, List.filterMap_append, List.filter_append, List.length_append]
  cases hp : pageError ck (blockNum seg i) (chunk data i) with
  | none =>
    simp only [List.filterMap_cons, List.filterMap_nil, hp, List.append_nil, List.length_nil, Nat.add_zero]
    congr 1
    · omega
    · by_cases hz : allZero (chunk data i) = true <;> simp [hz]
  | some e =>
    simp only [List.filterMap_cons, List.filterMap_nil, hp, List.length_cons, List.length_nil]
    congr 1
    · omega
    · by_cases hz : allZero (chunk data i) = true <;> simp [hz]

theorem verifyFileLoop_eq (ck : Bytes → Nat → Nat) (data : Bytes) (seg total : Nat) (n i : Nat)
    (h : 8192 * (i + n) ≤ data.length) :
    verifyFileLoop ck (mask32 (seg * 131072)) n i (data.drop (i * 8192)) (accOf ck data seg total i) =
      .ok (accOf ck data seg total (i + n)) := by
  induction n generalizing i with
  | zero => rfl
  | succ n ih =>
    have hlen : (chunk data i).length = 8192 := chunk_length data i (by omega)
    have ht : takeM (data.drop (i * 8192)) 8192 = .ok (chunk data i) :=
      takeM_ok _ _ (by simp only [List.length_drop]; omega)
    have hd : (data.drop (i * 8192)).drop 8192 = data.drop ((i + 1) * 8192) := by
      rw [List.drop_drop, Nat.succ_mul]
    have ih' := ih (i + 1) (by omega)
    rw [show i + 1 + n = i + (n + 1) by omega] at ih'
    rw [verifyFileLoop]
    simp only [ht, ok_bind, hd]
    rw [← ih', accOf_succ]
    by_cases hz : allZero (chunk data i) = true
    · simp only [hz, if_true, pageError]
    · have hz' : allZero (chunk data i) = false := by simpa using hz
      have hv := verifyPageChecksum_full ck (chunk data i) (blockNum seg i) hlen hz'
      unfold blockNum at hv
      simp only [hz', Bool.false_eq_true, if_false, hv, ok_bind, pageError, blockNum]
      by_cases hc : (storedCk (chunk data i) == ck (chunk data i) (mask32 (mask32 (seg * 131072) + mask32 i))) = true
      · simp only [hc, if_true, Nat.add_zero]
      · simp only [hc, Bool.false_eq_true, if_false, Nat.add_zero]

theorem verifyFileChecksums_eq (ck : Bytes → Nat → Nat) (data : Bytes) (seg : Nat) :
    verifyFileChecksums ck data seg = .ok (fileResult ck data seg) := by
  have h := verifyFileLoop_eq ck data seg (data.length / 8192) (data.length / 8192) 0
    (by have := Nat.mul_div_le data.length 8192; omega)
  simp only [Nat.zero_mul, List.drop_zero, Nat.zero_add] at h
  unfold verifyFileChecksums
  exact h

/-! ### corollaries -/

theorem filter_filterMap_length_le {α β} (p : α → Bool) (f : α → Option β) (l : List α)
    (h : ∀ x, p x = true → f x = none) : (l.filter p).length + (l.filterMap f).length ≤ l.length := by
  induction l with
  | nil => simp
  | cons x xs ih =>
    by_cases hp : p x = true
    · simp only [List.filter_cons, hp, if_true, List.filterMap_cons, h x hp, List.length_cons]; omega
    · cases hf : f x with
      | none => simp only [List.filter_cons, hp, List.filterMap_cons, hf, List.length_cons]; simp; omega
      | some y => simp only [List.filter_cons, hp, List.filterMap_cons, hf, List.length_cons]; simp; omega

theorem errors_length_le (ck : Bytes → Nat → Nat) (data : Bytes) (seg : Nat) :
    (fileResult ck data seg).errors.length ≤ data.length / 8192 := by
  have := List.length_filterMap_le (fun i => pageError ck (blockNum seg i) (chunk data i))
    (List.range (data.length / 8192))
  simpa [fileResult] using this

/-- every block is counted exactly once, as valid or as invalid -/
theorem fileResult_valid_add_invalid (ck : Bytes → Nat → Nat) (data : Bytes) (seg : Nat) :
    (fileResult ck data seg).validBlocks + (fileResult ck data seg).invalidBlocks =
      (fileResult ck data seg).totalBlocks := by
  have := errors_length_le ck data seg
  simp only [fileResult] at *
  omega

theorem fileResult_invalid_eq_errors (ck : Bytes → Nat → Nat) (data : Bytes) (seg : Nat) :
    (fileResult ck data seg).invalidBlocks = (fileResult ck data seg).errors.length := rfl

theorem fileResult_total (ck : Bytes → Nat → Nat) (data : Bytes) (seg : Nat) :
    (fileResult ck data seg).totalBlocks = data.length / 8192 := rfl

/-- all-zero blocks are counted as valid -/
theorem fileResult_zero_le_valid (ck : Bytes → Nat → Nat) (data : Bytes) (seg : Nat) :
    (fileResult ck data seg).zeroBlocks ≤ (fileResult ck data seg).validBlocks := by
  have := filter_filterMap_length_le (fun i => allZero (chunk data i))
    (fun i => pageError ck (blockNum seg i) (chunk data i)) (List.range (data.length / 8192))
    (fun i hi => by simp only [pageError, hi, if_true])
  simp only [List.length_range] at this
  simp only [fileResult]
  omega

theorem pageError_blockNumber (ck : Bytes → Nat → Nat) (num : Nat) (page : Bytes) (e : ChecksumResult)
    (h : pageError ck num page = some e) : e.blockNumber = num := by
  unfold pageError at h
  split at h
  · cases h
  · split at h
    · cases h
    · cases h; rfl

/-- an error entry is never marked valid and carries the stored and the computed value -/
theorem pageError_some (ck : Bytes → Nat → Nat) (num : Nat) (page : Bytes) (e : ChecksumResult)
    (h : pageError ck num page = some e) :
    e.valid = false ∧ e.stored = storedCk page ∧ e.computed = ck page num ∧ e.stored ≠ e.computed ∧
      allZero page = false := by
  unfold pageError at h
  split at h
  · cases h
  · rename_i hz
    split at h
    · cases h
    · rename_i hc
      cases h
      exact ⟨rfl, rfl, rfl, by simpa using hc, by simpa using hz⟩

theorem filterMap_congr' {α β} (f g : α → Option β) (l : List α) (h : ∀ x ∈ l, f x = g x) :
    l.filterMap f = l.filterMap g := by
  induction l with
  | nil => rfl
  | cons x xs ih =>
    simp only [List.filterMap_cons, h x (by simp)]
    rw [ih (fun y hy => h y (by simp [hy]))]

/-- isolation: two files of the same length that differ only inside block `j` have the same error
entries for all other block numbers -/
theorem errors_isolated (ck : Bytes → Nat → Nat) (data data' : Bytes) (seg j : Nat)
    (hlen : data.length = data'.length) (hsame : ∀ i, i ≠ j → chunk data i = chunk data' i) :
    (fileResult ck data seg).errors.filter (fun e => e.blockNumber != blockNum seg j) =
      (fileResult ck data' seg).errors.filter (fun e => e.blockNumber != blockNum seg j) := by
  simp only [fileResult, List.filter_filterMap, hlen]
  apply filterMap_congr'
  intro i _
  by_cases hij : i = j
  · subst hij
    have key : ∀ page, (pageError ck (blockNum seg i) page).filter
        (fun e => e.blockNumber != blockNum seg i) = none := by
      intro page
      cases hp : pageError ck (blockNum seg i) page with
      | none => rfl
      | some e => simp [Option.filter, pageError_blockNumber ck _ _ e hp]
    rw [key, key]
  · rw [hsame i hij]

/-! ## C. the directory scan -/

/-- what the scan does with one entry of a database directory -/
def visitFile (ck : Bytes → Nat → Nat) (db : Bytes) (x : Bytes × DbEntry) : Option ScannedFile :=
  match x.2 with
  | .dir => none
  | .file data =>
    match relFileSegment x.1 with
    | none => none
    | some seg => if data.length < 8192 then none else some ⟨db, x.1, fileResult ck data seg⟩

theorem scanDbFiles_eq (ck : Bytes → Nat → Nat) (db : Bytes) (entries : List (Bytes × DbEntry)) :
    scanDbFiles ck db entries = .ok (entries.filterMap (visitFile ck db)) := by
  induction entries with
  | nil => rfl
  | cons x rest ih =>
    obtain ⟨name, e⟩ := x
    cases e with
    | dir => simp only [scanDbFiles, ih, List.filterMap_cons, visitFile]
    | file data =>
      cases hs : relFileSegment name with
      | none => simp only [scanDbFiles, hs, ih, List.filterMap_cons, visitFile]
      | some seg =>
        by_cases hl : data.length < 8192
        · simp only [scanDbFiles, hs, hl, if_true, ih, List.filterMap_cons, visitFile]
        · simp only [scanDbFiles, hs, hl, if_false, ih, List.filterMap_cons, visitFile,
            verifyFileChecksums_eq, ok_bind, pure_eq_ok]

/-- what the scan does with one entry of a directory of database directories (`base`, or a tablespace's
version directory) whose path relative to the data directory is `dir` -/
def visitDb (ck : Bytes → Nat → Nat) (dir : Bytes) (x : Bytes × BaseEntry) : List ScannedFile :=
  match x.2 with
  | .file => []
  | .dir entries =>
    if (parseUint32 x.1).isNone then [] else (sortByName entries).filterMap (visitFile ck (joinPath dir x.1))

theorem scanBase_eq (ck : Bytes → Nat → Nat) (dir : Bytes) (base : List (Bytes × BaseEntry)) :
    scanBase ck dir base = .ok (base.flatMap (visitDb ck dir)) := by
  induction base with
  | nil => rfl
  | cons x rest ih =>
    obtain ⟨name, e⟩ := x
    cases e with
    | file => simp only [scanBase, ih, List.flatMap_cons, visitDb, List.nil_append]
    | dir entries =>
      by_cases hn : (parseUint32 name).isNone = true
      · simp only [scanBase, hn, if_true, ih, List.flatMap_cons, visitDb, List.nil_append]
      · simp only [scanBase, hn, if_false, ih, List.flatMap_cons, visitDb, scanDbFiles_eq, ok_bind,
          pure_eq_ok, Bool.false_eq_true]

/-- what the scan does with one entry of a tablespace directory `pg_tblspc/<spcoid>` -/
def visitVer (ck : Bytes → Nat → Nat) (spcPath : Bytes) (x : Bytes × VerEntry) : List ScannedFile :=
  match x.2 with
  | .file => []
  | .dir dbs =>
    if x.1.take 3 != pgPrefix then [] else (sortByName dbs).flatMap (visitDb ck (joinPath spcPath x.1))

theorem scanVers_eq (ck : Bytes → Nat → Nat) (spcPath : Bytes) (vers : List (Bytes × VerEntry)) :
    scanVers ck spcPath vers = .ok (vers.flatMap (visitVer ck spcPath)) := by
  induction vers with
  | nil => rfl
  | cons x rest ih =>
    obtain ⟨name, e⟩ := x
    cases e with
    | file => simp only [scanVers, ih, List.flatMap_cons, visitVer, List.nil_append]
    | dir dbs =>
      by_cases hn : (name.take 3 != pgPrefix) = true
      · simp only [scanVers, hn, if_true, ih, List.flatMap_cons, visitVer, List.nil_append]
      · simp only [scanVers, hn, if_false, ih, List.flatMap_cons, visitVer, scanBase_eq, ok_bind,
          pure_eq_ok, Bool.false_eq_true]

/-- what the scan does with one entry of `pg_tblspc` -/
def visitSpc (ck : Bytes → Nat → Nat) (x : Bytes × SpcEntry) : List ScannedFile :=
  if (parseUint32 x.1).isNone then []
  else match x.2 with
    | .file => []
    | .dir vers => (sortByName vers).flatMap (visitVer ck (joinPath tblspcName x.1))

theorem scanSpcs_eq (ck : Bytes → Nat → Nat) (spcs : List (Bytes × SpcEntry)) :
    scanSpcs ck spcs = .ok (spcs.flatMap (visitSpc ck)) := by
  induction spcs with
  | nil => rfl
  | cons x rest ih =>
    obtain ⟨name, e⟩ := x
    by_cases hn : (parseUint32 name).isNone = true
    · simp only [scanSpcs, hn, if_true, ih, List.flatMap_cons, visitSpc, List.nil_append]
    · cases e with
      | file => simp only [scanSpcs, hn, if_false, ih, List.flatMap_cons, visitSpc, List.nil_append, Bool.false_eq_true]
      | dir vers =>
        simp only [scanSpcs, hn, if_false, ih, List.flatMap_cons, visitSpc, scanVers_eq, ok_bind,
          pure_eq_ok, Bool.false_eq_true]

/-- the files of `global/` (nothing when the directory cannot be listed) -/
def visitGlobal (ck : Bytes → Nat → Nat) (g : Option (List (Bytes × DbEntry))) : List ScannedFile :=
  match g with
  | none => []
  | some es => (sortByName es).filterMap (visitFile ck globalName)

/-- everything the scan visits, in scan order: `global/`, then `base/<dboid>/`, then
`pg_tblspc/<spcoid>/PG_…/<dboid>/` -/
def scannedFiles (ck : Bytes → Nat → Nat) (fs : DataDirFS) (entries : List (Bytes × BaseEntry)) : List ScannedFile :=
  visitGlobal ck fs.global ++ (sortByName entries).flatMap (visitDb ck baseName) ++
    (sortByName fs.tblspc).flatMap (visitSpc ck)

theorem insertByName_perm {α} (x : Bytes × α) (l : List (Bytes × α)) : (insertByName x l).Perm (x :: l) := by
  induction l with
  | nil => exact List.Perm.refl _
  | cons y ys ih =>
    unfold insertByName
    by_cases h : nameLt y.1 x.1 = true
    · rw [if_pos h]
      exact ((List.Perm.cons y ih).trans (List.Perm.swap x y ys))
    · rw [if_neg h]

/-- sorting only reorders: every entry occurs exactly as often as before -/
theorem sortByName_perm {α} (xs : List (Bytes × α)) : (sortByName xs).Perm xs := by
  induction xs with
  | nil => exact List.Perm.refl _
  | cons x xs ih =>
    unfold sortByName
    rw [List.foldr_cons]
    exact (insertByName_perm x _).trans (List.Perm.cons x ih)

theorem verifyDataDirChecksums_eq (ck : Bytes → Nat → Nat) (fs : DataDirFS) (entries : List (Bytes × BaseEntry))
    (h : fs.base = some entries) :
    verifyDataDirChecksums ck fs =
      .ok (.ok (summarize fs.checksumsEnabled (scannedFiles ck fs entries))) := by
  unfold verifyDataDirChecksums scannedFiles visitGlobal
  rw [h]
  cases fs.global with
  | none => simp only [scanBase_eq, scanSpcs_eq, ok_bind, pure_eq_ok]
  | some es => simp only [scanDbFiles_eq, scanBase_eq, scanSpcs_eq, ok_bind, pure_eq_ok]

theorem verifyDataDirChecksums_noBase (ck : Bytes → Nat → Nat) (fs : DataDirFS) (h : fs.base = none) :
    verifyDataDirChecksums ck fs = .ok (.error .noBase) := by
  unfold verifyDataDirChecksums
  rw [h]; rfl

/-! ### the scan does not depend on the order of the directory listings -/

theorem perm_flatMap_left {α β} (l : List α) (f g : α → List β) (h : ∀ a ∈ l, (f a).Perm (g a)) :
    (l.flatMap f).Perm (l.flatMap g) := by
  induction l with
  | nil => exact List.Perm.refl _
  | cons a t ih =>
    simp only [List.flatMap_cons]
    exact List.Perm.append (h a (by simp)) (ih fun b hb => h b (by simp [hb]))

/-- `visitDb` without the sort -/
def visitDbU (ck : Bytes → Nat → Nat) (dir : Bytes) (x : Bytes × BaseEntry) : List ScannedFile :=
  match x.2 with
  | .file => []
  | .dir entries =>
    if (parseUint32 x.1).isNone then [] else entries.filterMap (visitFile ck (joinPath dir x.1))

def visitVerU (ck : Bytes → Nat → Nat) (spcPath : Bytes) (x : Bytes × VerEntry) : List ScannedFile :=
  match x.2 with
  | .file => []
  | .dir dbs => if x.1.take 3 != pgPrefix then [] else dbs.flatMap (visitDbU ck (joinPath spcPath x.1))

def visitSpcU (ck : Bytes → Nat → Nat) (x : Bytes × SpcEntry) : List ScannedFile :=
  if (parseUint32 x.1).isNone then []
  else match x.2 with
    | .file => []
    | .dir vers => vers.flatMap (visitVerU ck (joinPath tblspcName x.1))

/-- the visited files listed straight from the directory contents as given (no sorting anywhere): the files of
`global/`, of every directory `base/<uint32>/`, and of every directory `pg_tblspc/<uint32>/PG_…/<uint32>/` -/
def listedFiles (ck : Bytes → Nat → Nat) (fs : DataDirFS) (entries : List (Bytes × BaseEntry)) : List ScannedFile :=
  (match fs.global with | none => [] | some es => es.filterMap (visitFile ck globalName)) ++
    entries.flatMap (visitDbU ck baseName) ++ fs.tblspc.flatMap (visitSpcU ck)

theorem visitDb_perm (ck : Bytes → Nat → Nat) (dir : Bytes) (x : Bytes × BaseEntry) :
    (visitDb ck dir x).Perm (visitDbU ck dir x) := by
  obtain ⟨name, e⟩ := x
  cases e with
  | file => exact List.Perm.refl _
  | dir entries =>
    unfold visitDb visitDbU
    by_cases hn : (parseUint32 name).isNone = true
    · simp only [hn, if_true]; exact List.Perm.refl _
    · simp only [hn, if_false, Bool.false_eq_true]
      exact List.Perm.filterMap _ (sortByName_perm entries)

theorem visitVer_perm (ck : Bytes → Nat → Nat) (spcPath : Bytes) (x : Bytes × VerEntry) :
    (visitVer ck spcPath x).Perm (visitVerU ck spcPath x) := by
  obtain ⟨name, e⟩ := x
  cases e with
  | file => exact List.Perm.refl _
  | dir dbs =>
    unfold visitVer visitVerU
    by_cases hn : (name.take 3 != pgPrefix) = true
    · simp only [hn, if_true]; exact List.Perm.refl _
    · simp only [hn, if_false, Bool.false_eq_true]
      exact (List.Perm.flatMap_right _ (sortByName_perm dbs)).trans
        (perm_flatMap_left _ _ _ fun a _ => visitDb_perm ck _ a)

theorem visitSpc_perm (ck : Bytes → Nat → Nat) (x : Bytes × SpcEntry) :
    (visitSpc ck x).Perm (visitSpcU ck x) := by
  obtain ⟨name, e⟩ := x
  unfold visitSpc visitSpcU
  by_cases hn : (parseUint32 name).isNone = true
  · simp only [hn, if_true]; exact List.Perm.refl _
  · simp only [hn, if_false, Bool.false_eq_true]
    cases e with
    | file => exact List.Perm.refl _
    | dir vers =>
      exact (List.Perm.flatMap_right _ (sortByName_perm vers)).trans
        (perm_flatMap_left _ _ _ fun a _ => visitVer_perm ck _ a)

/-- the scanned files are the listed files, each exactly as often (a permutation): os.ReadDir's sort only fixes
the order -/
theorem scannedFiles_perm (ck : Bytes → Nat → Nat) (fs : DataDirFS) (entries : List (Bytes × BaseEntry)) :
    (scannedFiles ck fs entries).Perm (listedFiles ck fs entries) := by
  unfold scannedFiles listedFiles visitGlobal
  refine List.Perm.append (List.Perm.append ?_ ?_) ?_
  · cases fs.global with
    | none => exact List.Perm.refl _
    | some es => exact List.Perm.filterMap _ (sortByName_perm es)
  · exact (List.Perm.flatMap_right _ (sortByName_perm entries)).trans
      (perm_flatMap_left _ _ _ fun a _ => visitDb_perm ck _ a)
  · exact (List.Perm.flatMap_right _ (sortByName_perm fs.tblspc)).trans
      (perm_flatMap_left _ _ _ fun a _ => visitSpc_perm ck a)

/-- the totals of the summary are sums: they do not depend on the order either -/
theorem sum_map_perm {α} (f : α → Nat) {l₁ l₂ : List α} (h : l₁.Perm l₂) : (l₁.map f).sum = (l₂.map f).sum := by
  induction h with
  | nil => rfl
  | cons x _ ih => simp only [List.map_cons, List.sum_cons, ih]
  | swap x y l => simp only [List.map_cons, List.sum_cons]; omega
  | trans _ _ ih1 ih2 => exact ih1.trans ih2

/-! ### the file-name filter -/

theorem takeWhile_append_stop {α} (p : α → Bool) (a : List α) (x : α) (b : List α)
    (ha : ∀ y ∈ a, p y = true) (hx : p x = false) : (a ++ x :: b).takeWhile p = a := by
  induction a with
  | nil => simp [hx]
  | cons y ys ih =>
    simp only [List.cons_append, List.takeWhile_cons, ha y (by simp), if_true]
    rw [ih (fun z hz => ha z (by simp [hz]))]

theorem lastIndexByte_none (s : Bytes) (c : UInt8) (h : c ∉ s) : lastIndexByte s c = none := by
  unfold lastIndexByte
  have : s.reverse.contains c = false := by simpa using h
  simp only [this, Bool.false_eq_true, if_false]

/-- the last occurrence: `c` followed by a `c`-free suffix -/
theorem lastIndexByte_split (stem suffix : Bytes) (c : UInt8) (h : c ∉ suffix) :
    lastIndexByte (stem ++ c :: suffix) c = some stem.length := by
  unfold lastIndexByte
  have hc : (stem ++ c :: suffix).reverse.contains c = true := by simp
  have hr : (stem ++ c :: suffix).reverse = suffix.reverse ++ c :: stem.reverse := by simp
  have ht : (suffix.reverse ++ c :: stem.reverse).takeWhile (· != c) = suffix.reverse :=
    takeWhile_append_stop _ _ _ _
      (fun y hy => by
        have hy' : y ∈ suffix := by simpa using hy
        have : y ≠ c := fun e => h (e ▸ hy')
        simpa using this)
      (by simp)
  simp only [hc, if_true]
  rw [hr, ht]
  simp only [List.length_append, List.length_cons, List.length_reverse]
  congr 1
  omega

theorem exists_last_split (s : Bytes) (c : UInt8) (h : c ∈ s) :
    ∃ stem suffix, s = stem ++ c :: suffix ∧ c ∉ suffix := by
  induction s with
  | nil => simp at h
  | cons a t ih =>
    by_cases ht : c ∈ t
    · obtain ⟨stem, suffix, e, hn⟩ := ih ht
      exact ⟨a :: stem, suffix, by rw [e]; rfl, hn⟩
    · have : c = a := by
        rcases List.mem_cons.mp h with h | h
        · exact h
        · exact absurd h ht
      subst this
      exact ⟨[], t, rfl, ht⟩

theorem relFileSegment_split (stem suffix : Bytes) (h : (46 : UInt8) ∉ suffix) :
    relFileSegment (stem ++ 46 :: suffix) =
      match parseUint32 suffix with
      | none => none
      | some seg => if (parseUint32 (stripFork stem)).isSome then some seg else none := by
  unfold relFileSegment
  rw [lastIndexByte_split stem suffix 46 h]
  have h1 : (stem ++ 46 :: suffix).drop (stem.length + 1) = suffix := by
    rw [← List.drop_drop, List.drop_left]; rfl
  have h2 : (stem ++ 46 :: suffix).take stem.length = stem := List.take_left
  simp only [h1, h2]
  cases parseUint32 suffix <;> rfl

theorem relFileSegment_nodot (name : Bytes) (h : (46 : UInt8) ∉ name) :
    relFileSegment name = if (parseUint32 (stripFork name)).isSome then some 0 else none := by
  unfold relFileSegment
  rw [lastIndexByte_none name 46 h]

/-- the file-name filter: exactly `<number>[fork]` (segment 0) and `<number>[fork].<number>` (that segment), where
`[fork]` is an optional `_fsm`, `_vm` or `_init` (removed by `stripFork`) and the numbers are decimal, < 2^32 -/
theorem relFileSegment_iff (name : Bytes) (seg : Nat) : relFileSegment name = some seg ↔
    ((46 : UInt8) ∉ name ∧ (parseUint32 (stripFork name)).isSome ∧ seg = 0) ∨
    (∃ stem suffix, name = stem ++ 46 :: suffix ∧ (46 : UInt8) ∉ suffix ∧ (parseUint32 (stripFork stem)).isSome ∧
      parseUint32 suffix = some seg) := by
  constructor
  · intro h
    by_cases hd : (46 : UInt8) ∈ name
    · obtain ⟨stem, suffix, e, hn⟩ := exists_last_split name 46 hd
      right
      refine ⟨stem, suffix, e, hn, ?_⟩
      rw [e, relFileSegment_split stem suffix hn] at h
      cases hp : parseUint32 suffix with
      | none => rw [hp] at h; cases h
      | some s' =>
        rw [hp] at h
        by_cases hs : (parseUint32 (stripFork stem)).isSome = true
        · simp only [hs, if_true] at h
          exact ⟨hs, h⟩
        · simp only [hs, Bool.false_eq_true, if_false] at h
          cases h
    · left
      rw [relFileSegment_nodot name hd] at h
      by_cases hs : (parseUint32 (stripFork name)).isSome = true
      · simp only [hs, if_true] at h
        exact ⟨hd, hs, (Option.some.inj h).symm⟩
      · simp only [hs, Bool.false_eq_true, if_false] at h
        cases h
  · intro h
    rcases h with ⟨hd, hs, h0⟩ | ⟨stem, suffix, e, hn, hs, hp⟩
    · rw [relFileSegment_nodot name hd, if_pos hs, h0]
    · rw [e, relFileSegment_split stem suffix hn, hp]
      simp only [hs, if_true]

/-! ### the filter against the Spec's recogniser of relation segment file names -/

section Names
open PgVerif.Spec.BlockAddr

theorem span_loop_all {α} (p : α → Bool) (a acc : List α) (ha : ∀ y ∈ a, p y = true) :
    List.span.loop p a acc = (acc.reverse ++ a, []) := by
  induction a generalizing acc with
  | nil => simp [List.span.loop]
  | cons y ys ih =>
    simp only [List.span.loop, ha y (by simp)]
    rw [ih _ (fun z hz => ha z (by simp [hz]))]
    simp

theorem span_loop_stop {α} (p : α → Bool) (a : List α) (x : α) (b acc : List α)
    (ha : ∀ y ∈ a, p y = true) (hx : p x = false) :
    List.span.loop p (a ++ x :: b) acc = (acc.reverse ++ a, x :: b) := by
  induction a generalizing acc with
  | nil => simp [List.span.loop, hx]
  | cons y ys ih =>
    simp only [List.cons_append, List.span.loop, ha y (by simp)]
    rw [ih _ (fun z hz => ha z (by simp [hz]))]
    simp

theorem parseUint32_eq (s : Bytes) :
    parseUint32 s = if isDigits s = true ∧ decimal s < 2 ^ 32 then some (decimal s) else none := by
  unfold parseUint32 isDigits
  have hd : digitsVal s = decimal s := rfl
  have ha : s.all isDigit = s.all (fun c => 48 ≤ c && c ≤ 57) := rfl
  rw [hd, ha]
  by_cases h1 : s.isEmpty = true
  · simp [h1]
  · by_cases h2 : s.all (fun c => 48 ≤ c && c ≤ 57) = true
    · by_cases h3 : decimal s < 2 ^ 32 <;> simp [h1, h2, h3]
    · simp [h1, h2]

theorem parseUint32_isSome (s : Bytes) (h : (parseUint32 s).isSome = true) : isDigits s = true := by
  rw [parseUint32_eq] at h
  by_cases hc : isDigits s = true ∧ decimal s < 2 ^ 32
  · exact hc.1
  · rw [if_neg hc] at h; cases h

/-- Go's `strconv.ParseUint(s, 10, 32)` accepts exactly the Spec's 32-bit decimal numbers -/
theorem parseUint32_eq_number32 (s : Bytes) : parseUint32 s = number32 s := by
  rw [parseUint32_eq]
  unfold number32
  by_cases h1 : isDigits s = true
  · by_cases h2 : decimal s < 2 ^ 32 <;> simp [h1, h2]
  · simp [h1]

/-- the tool's fork-suffix removal (first of `_fsm`, `_vm`, `_init` that matches) is the Spec's -/
theorem stripFork_eq_beforeFork (s : Bytes) : stripFork s = beforeFork s := by
  unfold stripFork beforeFork forkSuffixes
  have e : ∀ suf, nameEndsIn s suf = endsIn s suf := fun _ => rfl
  simp only [List.find?, e, Fork.suffix]
  by_cases h1 : endsIn s [95, 102, 115, 109] = true
  · simp only [h1, if_true, List.length_cons, List.length_nil]
  · simp only [h1, Bool.false_eq_true, if_false]
    by_cases h2 : endsIn s [95, 118, 109] = true
    · simp only [h2, if_true, List.length_cons, List.length_nil]
    · simp only [h2, Bool.false_eq_true, if_false]
      by_cases h3 : endsIn s [95, 105, 110, 105, 116] = true
      · simp only [h3, if_true, List.length_cons, List.length_nil]
      · simp only [h3, Bool.false_eq_true, if_false]

theorem relSegNumber_nodot (name : Bytes) (h : (46 : UInt8) ∉ name) :
    relSegNumber name = if (number32 (beforeFork name)).isSome then some 0 else none := by
  unfold relSegNumber
  have hall : ∀ y ∈ name.reverse, (y != 46) = true := fun y hy => by
    have hy' : y ∈ name := by simpa using hy
    have : y ≠ 46 := fun e => h (e ▸ hy')
    simpa using this
  rw [List.span, span_loop_all _ _ _ hall]

theorem relSegNumber_split (stem suffix : Bytes) (h : (46 : UInt8) ∉ suffix) :
    relSegNumber (stem ++ 46 :: suffix) =
      match number32 suffix with
      | none => none
      | some seg => if (number32 (beforeFork stem)).isSome then some seg else none := by
  unfold relSegNumber
  have hall : ∀ y ∈ suffix.reverse, (y != 46) = true := fun y hy => by
    have hy' : y ∈ suffix := by simpa using hy
    have : y ≠ 46 := fun e => h (e ▸ hy')
    simpa using this
  have hr : (stem ++ 46 :: suffix).reverse = suffix.reverse ++ 46 :: stem.reverse := by simp
  rw [List.span, hr, span_loop_stop _ _ _ _ _ hall (by simp)]
  simp only [List.reverse_nil, List.nil_append, List.reverse_reverse]
  cases number32 suffix <;> rfl

/-- **The file-name filter of the scan is the Spec's recogniser of relation segment file names**, for EVERY name:
the scan accepts a name, with segment number `seg`, exactly when PostgreSQL's file-name grammar
`<relfilenode>[_fsm|_vm|_init][.<segno>]` (32-bit decimal numbers) does. -/
theorem relFileSegment_eq_relSegNumber (name : Bytes) : relFileSegment name = relSegNumber name := by
  by_cases hd : (46 : UInt8) ∈ name
  · obtain ⟨stem, suffix, e, hn⟩ := exists_last_split name 46 hd
    rw [e, relFileSegment_split stem suffix hn, relSegNumber_split stem suffix hn, parseUint32_eq_number32,
      parseUint32_eq_number32, stripFork_eq_beforeFork]
  · rw [relFileSegment_nodot name hd, relSegNumber_nodot name hd, parseUint32_eq_number32, stripFork_eq_beforeFork]

end Names

/-! ## B. encoded files: the result is the PostgreSQL-side view `ckFileView` -/

section Enc
open PgVerif.Spec.BlockAddr

/-- what the view keeps of an error entry -/
def toCkError (e : ChecksumResult) : CkError := ⟨e.blockNumber, e.stored, e.computed⟩

theorem chunk_encFile (f : RelFile) (hwf : f.WF) (i : Nat) (hi : i < f.blocks.length) :
    chunk (encFile f) i = encBlock f.blocks[i] := by
  unfold chunk encFile
  rw [drop_blocks f.blocks hwf.1 f.tail i (by omega), List.drop_eq_getElem_cons hi, List.flatMap_cons,
    List.append_assoc]
  exact List.take_left' (encBlock_length _ (hwf.1 _ (List.getElem_mem hi)))

theorem allZero_le_iff (n v : Nat) (h : v < 256 ^ n) : allZero (le n v) = decide (v = 0) := by
  induction n generalizing v with
  | zero => simp [le, allZero] at *; omega
  | succ n ih =>
    simp only [le, allZero, List.all_cons]
    have ih' := ih (v / 256) (by rw [Nat.pow_succ] at h; omega)
    simp only [allZero] at ih'
    rw [ih']
    have hb : (UInt8.ofNat (v % 256) == 0) = decide (v % 256 = 0) := by
      by_cases hz : v % 256 = 0
      · simp [hz]
      · have : UInt8.ofNat (v % 256) ≠ 0 := by
          intro hc
          have := congrArg UInt8.toNat hc
          simp [UInt8.toNat_ofNat'] at this
          omega
        simp [hz, this]
    rw [hb]
    by_cases h1 : v = 0
    · subst h1; simp
    · simp only [h1, decide_false]
      by_cases h2 : v % 256 = 0
      · have : v / 256 ≠ 0 := by omega
        simp [h2, this]
      · simp [h2]

theorem allZero_app (a b : Bytes) : allZero (a ++ b) = (allZero a && allZero b) := by
  simp [allZero, List.all_append]

/-- an encoded block is all zeros exactly when the abstract block is the zero block
(same statement as `Proofs.Block.allZero_encBlock` of Proofs/BlockRead.lean; repeated here so that this
module depends on Proofs/Block.lean only) -/
theorem allZero_encBlock_eq (b : RawBlock) (h : b.WF) : allZero (encBlock b) = b.isZero := by
  obtain ⟨⟨h1, h2, h3, h4, h5, h6, h7, h8, h9⟩, _⟩ := h
  unfold encBlock encHdr RawBlock.isZero
  simp only [allZero_app]
  rw [allZero_le_iff 4 _ (by omega), allZero_le_iff 4 _ (by omega), allZero_le_iff 2 _ (by omega),
    allZero_le_iff 2 _ (by omega), allZero_le_iff 2 _ (by omega), allZero_le_iff 2 _ (by omega),
    allZero_le_iff 2 _ (by omega), allZero_le_iff 2 _ (by omega), allZero_le_iff 4 _ (by omega)]
  have hz : (b.hdr == zeroHdr) = decide (b.hdr = zeroHdr) := rfl
  rw [hz]
  cases hh : b.hdr with
  | mk a1 a2 a3 a4 a5 a6 a7 a8 a9 =>
    simp only [zeroHdr, PageHdr.mk.injEq, allZero]
    by_cases e1 : a1 = 0 <;> by_cases e2 : a2 = 0 <;> by_cases e3 : a3 = 0 <;> by_cases e4 : a4 = 0 <;>
      by_cases e5 : a5 = 0 <;> by_cases e6 : a6 = 0 <;> by_cases e7 : a7 = 0 <;> by_cases e8 : a8 = 0 <;>
      by_cases e9 : a9 = 0 <;> simp [e1, e2, e3, e4, e5, e6, e7, e8, e9]

theorem storedCk_encBlock (b : RawBlock) (h : b.WF) : storedCk (encBlock b) = b.hdr.checksum := by
  obtain ⟨⟨_, _, h3, _⟩, _⟩ := h
  unfold storedCk encBlock encHdr
  simp only [List.append_assoc]
  rw [← List.append_assoc (le 4 b.hdr.xlogid), List.drop_left' (by simp)]
  exact rd_le 2 _ _ (by omega)

theorem blockNum_eq (seg i : Nat) (h : seg * 131072 + i < 2 ^ 32) : blockNum seg i = relBlockNumber seg i := by
  unfold blockNum relBlockNumber mask32
  omega

/-- the verdict of the tool on an encoded block is the verdict of the view -/
theorem pageError_encBlock (ck : Bytes → Nat → Nat) (num : Nat) (b : RawBlock) (h : b.WF) :
    (pageError ck num (encBlock b)).map toCkError = ckVerdict ck num b := by
  unfold pageError ckVerdict
  rw [allZero_encBlock_eq b h, storedCk_encBlock b h]
  by_cases hz : b.isZero = true
  · simp only [hz, if_true, Option.map_none]
  · simp only [hz, Bool.false_eq_true, if_false]
    by_cases hc : b.hdr.checksum = ck (encBlock b) num
    · have : (b.hdr.checksum == ck (encBlock b) num) = true := by simpa using hc
      simp only [this, if_true, if_pos hc, Option.map_none]
    · have : (b.hdr.checksum == ck (encBlock b) num) = false := by simpa using hc
      simp only [this, Bool.false_eq_true, if_false, if_neg hc, Option.map_some, toCkError]

theorem filterMap_range'_numbered {α β} (bs : List α) (k : Nat) (F : Nat → Option β) (H : Nat × α → Option β)
    (h : ∀ i (hi : i < bs.length), F (k + i) = H (k + i, bs[i])) :
    (List.range' k bs.length).filterMap F = (numbered k bs).filterMap H := by
  induction bs generalizing k with
  | nil => rfl
  | cons b bs ih =>
    have h0 := h 0 (by simp)
    simp only [Nat.add_zero, List.getElem_cons_zero] at h0
    simp only [List.length_cons, List.range'_succ, numbered, List.filterMap_cons, h0]
    rw [ih (k + 1) (fun i hi => by
      have := h (i + 1) (by simp; omega)
      simp only [List.getElem_cons_succ] at this
      rw [show k + 1 + i = k + (i + 1) by omega]
      exact this)]

theorem filter_range'_length {α} (bs : List α) (k : Nat) (P : Nat → Bool) (Q : α → Bool)
    (h : ∀ i (hi : i < bs.length), P (k + i) = Q bs[i]) :
    ((List.range' k bs.length).filter P).length = (bs.filter Q).length := by
  induction bs generalizing k with
  | nil => rfl
  | cons b bs ih =>
    have h0 := h 0 (by simp)
    simp only [Nat.add_zero, List.getElem_cons_zero] at h0
    have ih' := ih (k + 1) (fun i hi => by
      have := h (i + 1) (by simp; omega)
      simp only [List.getElem_cons_succ] at this
      rw [show k + 1 + i = k + (i + 1) by omega]
      exact this)
    simp only [List.length_cons, List.range'_succ, List.filter_cons, h0]
    by_cases hq : Q b = true
    · simp only [hq, if_true, List.length_cons, ih']
    · simp only [hq, Bool.false_eq_true, if_false, ih']

theorem errors_encFile (ck : Bytes → Nat → Nat) (f : RelFile) (seg : Nat) (hwf : f.WF)
    (hseg : seg * 131072 + f.blocks.length ≤ 2 ^ 32) :
    (fileResult ck (encFile f) seg).errors.map toCkError = (ckFileView ck seg f.blocks).errors := by
  simp only [fileResult, ckFileView, encFile_blocks f hwf, List.map_filterMap, List.range_eq_range']
  apply filterMap_range'_numbered
  intro i hi
  simp only [Nat.zero_add]
  rw [chunk_encFile f hwf i hi, blockNum_eq seg i (by omega),
    pageError_encBlock ck _ _ (hwf.1 _ (List.getElem_mem hi))]

theorem zeroBlocks_encFile (ck : Bytes → Nat → Nat) (f : RelFile) (seg : Nat) (hwf : f.WF) :
    (fileResult ck (encFile f) seg).zeroBlocks = (ckFileView ck seg f.blocks).zeroBlocks := by
  simp only [fileResult, ckFileView, encFile_blocks f hwf, List.range_eq_range']
  apply filter_range'_length
  intro i hi
  simp only [Nat.zero_add]
  rw [chunk_encFile f hwf i hi, allZero_encBlock_eq _ (hwf.1 _ (List.getElem_mem hi))]

/-- for a well-formed relation file whose block numbers fit in 32 bits the tool's result is the view -/
theorem fileResult_encFile (ck : Bytes → Nat → Nat) (f : RelFile) (seg : Nat) (hwf : f.WF)
    (hseg : seg * 131072 + f.blocks.length ≤ 2 ^ 32) :
    (fileResult ck (encFile f) seg).totalBlocks = f.blocks.length ∧
    (fileResult ck (encFile f) seg).totalBlocks = (ckFileView ck seg f.blocks).totalBlocks ∧
    (fileResult ck (encFile f) seg).validBlocks = (ckFileView ck seg f.blocks).validBlocks ∧
    (fileResult ck (encFile f) seg).invalidBlocks = (ckFileView ck seg f.blocks).invalidBlocks ∧
    (fileResult ck (encFile f) seg).zeroBlocks = (ckFileView ck seg f.blocks).zeroBlocks ∧
    (fileResult ck (encFile f) seg).errors.map toCkError = (ckFileView ck seg f.blocks).errors := by
  have he := errors_encFile ck f seg hwf hseg
  have hl := congrArg List.length he
  rw [List.length_map] at hl
  have ht : (fileResult ck (encFile f) seg).totalBlocks = f.blocks.length := encFile_blocks f hwf
  refine ⟨ht, ht, ?_, hl, zeroBlocks_encFile ck f seg hwf, he⟩
  show (encFile f).length / 8192 - (fileResult ck (encFile f) seg).errors.length =
    f.blocks.length - (ckFileView ck seg f.blocks).errors.length
  rw [hl, encFile_blocks f hwf]

/-- end to end: `VerifyFileChecksums` on an encoded relation file -/
theorem verifyFileChecksums_encFile (ck : Bytes → Nat → Nat) (f : RelFile) (seg : Nat) (hwf : f.WF)
    (hseg : seg * 131072 + f.blocks.length ≤ 2 ^ 32) :
    ∃ r, verifyFileChecksums ck (encFile f) seg = .ok r ∧
      r.totalBlocks = (ckFileView ck seg f.blocks).totalBlocks ∧
      r.validBlocks = (ckFileView ck seg f.blocks).validBlocks ∧
      r.invalidBlocks = (ckFileView ck seg f.blocks).invalidBlocks ∧
      r.zeroBlocks = (ckFileView ck seg f.blocks).zeroBlocks ∧
      r.errors.map toCkError = (ckFileView ck seg f.blocks).errors :=
  ⟨_, verifyFileChecksums_eq ck _ seg, (fileResult_encFile ck f seg hwf hseg).2⟩

end Enc

/-- the closed form depends on the checksum function only through its values on 8192-byte pages -/
theorem fileResult_congr (ck ck' : Bytes → Nat → Nat) (data : Bytes) (seg : Nat)
    (h : ∀ page bn, page.length = 8192 → ck page bn = ck' page bn) :
    fileResult ck data seg = fileResult ck' data seg := by
  have he : ∀ i, i ∈ List.range (data.length / 8192) →
      pageError ck (blockNum seg i) (chunk data i) = pageError ck' (blockNum seg i) (chunk data i) := by
    intro i hi
    have hi' : i < data.length / 8192 := List.mem_range.mp hi
    have hl : (chunk data i).length = 8192 := chunk_length data i (by omega)
    unfold pageError
    rw [h _ _ hl]
  have hf : ((List.range (data.length / 8192)).filterMap fun i => pageError ck (blockNum seg i) (chunk data i)) =
      ((List.range (data.length / 8192)).filterMap fun i => pageError ck' (blockNum seg i) (chunk data i)) := by
    generalize List.range (data.length / 8192) = l at he
    induction l with
    | nil => rfl
    | cons a l ih =>
      simp only [List.filterMap_cons]
      rw [he a (List.mem_cons_self), ih (fun i hi => he i (List.mem_cons_of_mem _ hi))]
  unfold fileResult
  simp only [hf]

end PgVerif.Proofs.ChecksumAcct
