/-
  The defects of pgdump/index.go at commit 48a415a, re-derived in Lean: the frozen model of the code before the fixes
  (Model/IndexOrig.lean) evaluated on concrete Spec-encoded pages, beside the repaired model (Model/Index.lean) on the same page.
  Every statement is closed and checked by kernel evaluation.  (Register ids: DESIGN.md Appendix A; IDX1 is new.)
-/
import PgVerif.Model.IndexOrig
import PgVerif.Model.Index
import PgVerif.Spec.Index
namespace PgVerif.Proofs.IndexDefects
open PgVerif PgVerif.Spec.Index

def blank (op : Opaque) : Page :=
  { xlogid := 2, xrecoff := 0x3050, checksum := 0, pdflags := 0, lower := 24, upper := 8192 - op.size, psv := 8196, prune := 0,
    body := zeros (8192 - op.size - 24), op }

deriving instance Inhabited for Model.IndexOrig.PageInfo
deriving instance Inhabited for Model.Index.PageInfo

def okVal {α} [Inhabited α] : M α → α
  | .ok a => a
  | .error _ => default

def isFault {α} : M α → Bool
  | .ok _ => false
  | .error _ => true

/-- A56: a BRIN metapage was classified as gin (4); now brin (6) -/
theorem A56_brin_is_gin :
    okVal (Model.IndexOrig.detectIndexType (encPage (blank (.brin 0 0 0 0xF091)))) = 4 ∧
    okVal (Model.Index.detectIndexType (encPage (blank (.brin 0 0 0 0xF091)))) = 6 := by decide +kernel

/-- A57: a B-tree page with cycle id 0xFF01 was "unknown" (0); now btree (1) -/
theorem A57_cycle_id :
    okVal (Model.IndexOrig.detectIndexType (encPage (blank (.btree 0 0 0 1 0xFF01)))) = 0 ∧
    okVal (Model.Index.detectIndexType (encPage (blank (.btree 0 0 0 1 0xFF01)))) = 1 := by decide +kernel

/-- A59: the page LSN {xlogid 2, xrecoff 0x3050} was reported as 0x3050·2^32 + 2; now 2·2^32 + 0x3050 -/
theorem A59_lsn_halves :
    (okVal (Model.IndexOrig.parseIndexPage (encPage (blank (.gist 0 0 1))) 0 3)).lsn = 0x3050 * 2 ^ 32 + 2 ∧
    (okVal (Model.Index.parseIndexPage (encPage (blank (.gist 0 0 1))) 0 3)).lsn = 2 * 2 ^ 32 + 0x3050 := by decide +kernel

def hashMetaPage : Page :=
  let m : Meta := .hash { magic := 0x6440640, version := 4, ntuples := 0x4059000000000000, ffactor := 307, bsize := 8152,
                          bmsize := 4096, bmshift := 15, maxbucket := 1, highmask := 3, lowmask := 1 }
  { blank (.hash 0xFFFFFFFF 0xFFFFFFFF 0xFFFFFFFF 8) with body := encMeta m ++ zeros (8152 - 36) }

/-- A58 (hash): maxbucket 1 / highmask 3 / lowmask 1 / ffactor 307 were reported as 0 / 1079574528 / 987136 / 1 -/
theorem A58_hash_meta :
    okVal (Model.IndexOrig.parseHashMeta (encPage hashMetaPage)) = some (.hash 0x6440640 4 534249779 0 1079574528 987136 1 0) ∧
    okVal (Model.Index.parseHashMeta (encPage hashMetaPage)) = some (.hash 0x6440640 4 2 1 3 1 307 0x4059000000000000) := by
  decide +kernel

def ginMetaPage : Page :=
  let m : Meta := .gin { head := 0xFFFFFFFF, tail := 0xFFFFFFFF, tailFree := 0, nPendingPages := 0, nPendingHeapTuples := 0,
                         nTotalPages := 2, nEntryPages := 1, nDataPages := 0, pad := 0, nEntries := 0, version := 2 }
  { blank (.gin 0xFFFFFFFF 0 8) with body := encMeta m ++ zeros (8160 - 52) }

/-- A58 (gin): every metapage field was shifted (version read from `head`, …) -/
theorem A58_gin_meta :
    okVal (Model.IndexOrig.parseGINMeta (encPage ginMetaPage)) = some (.gin 4294967295 4294967295 0 0 0 4294967298 0 0 0 2) ∧
    okVal (Model.Index.parseGINMeta (encPage ginMetaPage)) = some (.gin 2 4294967295 4294967295 0 0 0 2 1 0 0) := by
  decide +kernel

/-- the page of A36: a hash page (page id 0xFF80 at the end) whose pd_special is 8179 -/
def a36Page : Bytes := Gen_setSpecial (encPage (blank (.hash 0 0 0 8))) 8179
where Gen_setSpecial (b : Bytes) (v : Nat) : Bytes := b.take 16 ++ le 2 v ++ b.drop 18

/-- A36: ParseIndexFile panicked on that page (the unprovable totality goal of the old code, with its witness); now it returns -/
theorem A36_orig_parseIndexFile_faults :
    isFault (Model.IndexOrig.parseIndexFile a36Page) = true ∧ isFault (Model.Index.parseIndexFile a36Page) = false := by
  decide +kernel

/-- IDX1: a GIN entry-tree leaf page (flags = GIN_LEAF) as block 0 was "unknown" (0); now gin (4) -/
theorem IDX1_gin_entry_page_first :
    okVal (Model.IndexOrig.detectIndexType (encPage (blank (.gin 5 0 2)))) = 0 ∧
    okVal (Model.Index.detectIndexType (encPage (blank (.gin 5 0 2)))) = 4 := by decide +kernel

end PgVerif.Proofs.IndexDefects
