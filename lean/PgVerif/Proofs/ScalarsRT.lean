/-
  Round-trip lemmas for the scalar decoders (area `scalars`): helper lemmas for Props/C04.lean.
-/
import PgVerif.Model.Scalars
import PgVerif.Spec.Scalars
namespace PgVerif.Proofs.ScalarsRT
open PgVerif PgVerif.Model.Scalars PgVerif.Spec.Scalars PgVerif.Txt

set_option linter.unusedSimpArgs false
attribute [local simp] OidBool OidBytea OidChar OidName OidInt8 OidInt2 OidInt4 OidText OidOid OidTid OidXid OidCid OidJSON OidXML OidPoint OidLseg OidPath OidBox OidPolygon OidLine OidCircle OidCidr OidFloat4 OidFloat8 OidMacaddr8 OidMoney OidMacaddr OidInet OidBpchar OidVarchar OidDate OidTime OidTimestamp OidTimestampTZ OidInterval OidTimeTZ OidBit OidVarbit OidNumeric OidUUID OidPgLsn OidTsvector OidTsquery OidJSONB OidJSONPath OidInt4Range OidNumRange OidTsRange OidTsTzRange OidDateRange OidInt8Range

/-! ### reading back what `le` wrote -/

theorem uN_le (n v off : Nat) (pre rest : Bytes) (hoff : off = pre.length) (h : v < 256 ^ n) :
    uN n (pre ++ (le n v ++ rest)) off = .ok v := by
  subst hoff
  rw [uN_ok _ _ _ (by simp)]
  simp only [List.drop_left']
  rw [rd_le n v rest h]

theorem uN_le0 (n v : Nat) (rest : Bytes) (h : v < 256 ^ n) : uN n (le n v ++ rest) 0 = .ok v := by
  have := uN_le n v 0 [] rest rfl h
  simpa using this

theorem ofSigned_lt (bits : Nat) (i : Int) : ofSigned bits i < 2 ^ bits := by
  unfold ofSigned
  have hpos : (0 : Int) < ((2 ^ bits : Nat) : Int) := by exact_mod_cast Nat.pow_pos (by decide : 0 < 2)
  have h1 := Int.emod_lt_of_pos i hpos
  have h0 := Int.emod_nonneg i (Int.ne_of_gt hpos)
  omega

theorem toSigned_ofSigned16 (i : Int) (h : inI 16 i = true) : toSigned 16 (ofSigned 16 i) = i := by
  simp only [inI, Bool.and_eq_true, decide_eq_true_eq, Nat.reduceSub, Int.reducePow] at h
  have hv : ((ofSigned 16 i : Nat) : Int) = i % 65536 := by
    unfold ofSigned; simp only [Nat.reducePow]; omega
  generalize ofSigned 16 i = v at hv
  unfold toSigned
  by_cases hc : v < 2 ^ (16 - 1)
  · rw [if_pos hc]; simp only [Nat.reduceSub, Nat.reducePow] at hc; omega
  · rw [if_neg hc]; simp only [Nat.reduceSub, Nat.reducePow] at hc ⊢; omega

theorem toSigned_ofSigned32 (i : Int) (h : inI 32 i = true) : toSigned 32 (ofSigned 32 i) = i := by
  simp only [inI, Bool.and_eq_true, decide_eq_true_eq, Nat.reduceSub, Int.reducePow] at h
  have hv : ((ofSigned 32 i : Nat) : Int) = i % 4294967296 := by
    unfold ofSigned; simp only [Nat.reducePow]; omega
  generalize ofSigned 32 i = v at hv
  unfold toSigned
  by_cases hc : v < 2 ^ (32 - 1)
  · rw [if_pos hc]; simp only [Nat.reduceSub, Nat.reducePow] at hc; omega
  · rw [if_neg hc]; simp only [Nat.reduceSub, Nat.reducePow] at hc ⊢; omega

theorem toSigned_ofSigned64 (i : Int) (h : inI 64 i = true) : toSigned 64 (ofSigned 64 i) = i := by
  simp only [inI, Bool.and_eq_true, decide_eq_true_eq, Nat.reduceSub, Int.reducePow] at h
  have hv : ((ofSigned 64 i : Nat) : Int) = i % 18446744073709551616 := by
    unfold ofSigned; simp only [Nat.reducePow]; omega
  generalize ofSigned 64 i = v at hv
  unfold toSigned
  by_cases hc : v < 2 ^ (64 - 1)
  · rw [if_pos hc]; simp only [Nat.reduceSub, Nat.reducePow] at hc; omega
  · rw [if_neg hc]; simp only [Nat.reduceSub, Nat.reducePow] at hc ⊢; omega

/-! ### DecodeType on a scalar, non-range oid reduces to the case body -/

/-- what is needed of (data, oid) for DecodeType to reach decodeScalar0 past the short-input guard -/
theorem decodeType_scalar0 (ext : Ext) (data : Bytes) (oid : Nat) (h0 : data.length ≠ 0)
    (ha : arrayElemTypes.lookup oid = none) (hr : isRangeOid oid = false) :
    decodeType ext data oid = decodeScalar0 ext data oid := by
  simp [decodeType, h0, ha, decodeScalar, hr]

theorem notShort (data : Bytes) (oid n : Nat) (hl : fixedLengths.lookup oid = some n) (h : n ≤ data.length) :
    shortInput data oid = false := by
  simp [shortInput, hl]; omega

theorem notShort' (data : Bytes) (oid : Nat) (hl : fixedLengths.lookup oid = none) :
    shortInput data oid = false := by
  simp [shortInput, hl]

theorem decodeType_16 (ext : Ext) (data : Bytes) (h : 1 ≤ data.length) : decodeType ext data 16 = decBool data := by
  rw [decodeType_scalar0 ext data 16 (by omega) (by decide) (by decide)]
  simp [decodeScalar0, notShort data 16 1 (by decide) h, isTextOid]

theorem decodeType_18 (ext : Ext) (data : Bytes) (h : 1 ≤ data.length) : decodeType ext data 18 = decChar data := by
  rw [decodeType_scalar0 ext data 18 (by omega) (by decide) (by decide)]
  simp [decodeScalar0, notShort data 18 1 (by decide) h, isTextOid]

theorem decodeType_19 (ext : Ext) (data : Bytes) (h : 64 ≤ data.length) : decodeType ext data 19 = pure (.str (cstring data 64)) := by
  rw [decodeType_scalar0 ext data 19 (by omega) (by decide) (by decide)]
  first
    | simp [decodeScalar0, notShort' data 19 (by decide), isTextOid]
    | simp [decodeScalar0, notShort data 19 64 (by decide) h, isTextOid]

theorem decodeType_21 (ext : Ext) (data : Bytes) (h : 2 ≤ data.length) : decodeType ext data 21 = decInt2 data := by
  rw [decodeType_scalar0 ext data 21 (by omega) (by decide) (by decide)]
  simp [decodeScalar0, notShort data 21 2 (by decide) h, isTextOid]

theorem decodeType_23 (ext : Ext) (data : Bytes) (h : 4 ≤ data.length) : decodeType ext data 23 = decInt4 data := by
  rw [decodeType_scalar0 ext data 23 (by omega) (by decide) (by decide)]
  simp [decodeScalar0, notShort data 23 4 (by decide) h, isTextOid]

theorem decodeType_28 (ext : Ext) (data : Bytes) (h : 4 ≤ data.length) : decodeType ext data 28 = decU32 data := by
  rw [decodeType_scalar0 ext data 28 (by omega) (by decide) (by decide)]
  simp [decodeScalar0, notShort data 28 4 (by decide) h, isTextOid]

theorem decodeType_29 (ext : Ext) (data : Bytes) (h : 4 ≤ data.length) : decodeType ext data 29 = decU32 data := by
  rw [decodeType_scalar0 ext data 29 (by omega) (by decide) (by decide)]
  simp [decodeScalar0, notShort data 29 4 (by decide) h, isTextOid]

theorem decodeType_20 (ext : Ext) (data : Bytes) (h : 8 ≤ data.length) : decodeType ext data 20 = decInt8 data := by
  rw [decodeType_scalar0 ext data 20 (by omega) (by decide) (by decide)]
  simp [decodeScalar0, notShort data 20 8 (by decide) h, isTextOid]

theorem decodeType_26 (ext : Ext) (data : Bytes) (h : 4 ≤ data.length) : decodeType ext data 26 = decU32 data := by
  rw [decodeType_scalar0 ext data 26 (by omega) (by decide) (by decide)]
  simp [decodeScalar0, notShort data 26 4 (by decide) h, isTextOid]

theorem decodeType_27 (ext : Ext) (data : Bytes) (h : 6 ≤ data.length) : decodeType ext data 27 = decTid data := by
  rw [decodeType_scalar0 ext data 27 (by omega) (by decide) (by decide)]
  simp [decodeScalar0, notShort data 27 6 (by decide) h, isTextOid]

theorem decodeType_700 (ext : Ext) (data : Bytes) (h : 4 ≤ data.length) : decodeType ext data 700 = decFloat4 data := by
  rw [decodeType_scalar0 ext data 700 (by omega) (by decide) (by decide)]
  simp [decodeScalar0, notShort data 700 4 (by decide) h, isTextOid]

theorem decodeType_701 (ext : Ext) (data : Bytes) (h : 8 ≤ data.length) : decodeType ext data 701 = decFloat8 data := by
  rw [decodeType_scalar0 ext data 701 (by omega) (by decide) (by decide)]
  simp [decodeScalar0, notShort data 701 8 (by decide) h, isTextOid]

theorem decodeType_790 (ext : Ext) (data : Bytes) (h : 8 ≤ data.length) : decodeType ext data 790 = decMoney data := by
  rw [decodeType_scalar0 ext data 790 (by omega) (by decide) (by decide)]
  simp [decodeScalar0, notShort data 790 8 (by decide) h, isTextOid]

theorem decodeType_25 (ext : Ext) (data : Bytes) (h : 1 ≤ data.length) : decodeType ext data 25 = pure (.str (safeString data)) := by
  rw [decodeType_scalar0 ext data 25 (by omega) (by decide) (by decide)]
  simp [decodeScalar0, notShort' data 25 (by decide), isTextOid]

theorem decodeType_1043 (ext : Ext) (data : Bytes) (h : 1 ≤ data.length) : decodeType ext data 1043 = pure (.str (safeString data)) := by
  rw [decodeType_scalar0 ext data 1043 (by omega) (by decide) (by decide)]
  simp [decodeScalar0, notShort' data 1043 (by decide), isTextOid]

theorem decodeType_1042 (ext : Ext) (data : Bytes) (h : 1 ≤ data.length) : decodeType ext data 1042 = pure (.str (safeString data)) := by
  rw [decodeType_scalar0 ext data 1042 (by omega) (by decide) (by decide)]
  simp [decodeScalar0, notShort' data 1042 (by decide), isTextOid]

theorem decodeType_142 (ext : Ext) (data : Bytes) (h : 1 ≤ data.length) : decodeType ext data 142 = pure (.str (safeString data)) := by
  rw [decodeType_scalar0 ext data 142 (by omega) (by decide) (by decide)]
  simp [decodeScalar0, notShort' data 142 (by decide), isTextOid]

theorem decodeType_114 (ext : Ext) (data : Bytes) (h : 1 ≤ data.length) : decodeType ext data 114 = pure (decJSON ext data) := by
  rw [decodeType_scalar0 ext data 114 (by omega) (by decide) (by decide)]
  simp [decodeScalar0, notShort' data 114 (by decide), isTextOid]

theorem decodeType_17 (ext : Ext) (data : Bytes) (h : 1 ≤ data.length) : decodeType ext data 17 = pure (.str ([92, 120] ++ hexBytes data)) := by
  rw [decodeType_scalar0 ext data 17 (by omega) (by decide) (by decide)]
  simp [decodeScalar0, notShort' data 17 (by decide), isTextOid]

theorem decodeType_1560 (ext : Ext) (data : Bytes) (h : 1 ≤ data.length) : decodeType ext data 1560 = decodeBitString data := by
  rw [decodeType_scalar0 ext data 1560 (by omega) (by decide) (by decide)]
  simp [decodeScalar0, notShort' data 1560 (by decide), isTextOid]

theorem decodeType_1562 (ext : Ext) (data : Bytes) (h : 1 ≤ data.length) : decodeType ext data 1562 = decodeBitString data := by
  rw [decodeType_scalar0 ext data 1562 (by omega) (by decide) (by decide)]
  simp [decodeScalar0, notShort' data 1562 (by decide), isTextOid]

theorem decodeType_1082 (ext : Ext) (data : Bytes) (h : 4 ≤ data.length) : decodeType ext data 1082 = decDate data := by
  rw [decodeType_scalar0 ext data 1082 (by omega) (by decide) (by decide)]
  simp [decodeScalar0, notShort data 1082 4 (by decide) h, isTextOid]

theorem decodeType_1083 (ext : Ext) (data : Bytes) (h : 8 ≤ data.length) : decodeType ext data 1083 = decTime data := by
  rw [decodeType_scalar0 ext data 1083 (by omega) (by decide) (by decide)]
  simp [decodeScalar0, notShort data 1083 8 (by decide) h, isTextOid]

theorem decodeType_1266 (ext : Ext) (data : Bytes) (h : 12 ≤ data.length) : decodeType ext data 1266 = decTimeTZ data := by
  rw [decodeType_scalar0 ext data 1266 (by omega) (by decide) (by decide)]
  simp [decodeScalar0, notShort data 1266 12 (by decide) h, isTextOid]

theorem decodeType_1114 (ext : Ext) (data : Bytes) (h : 8 ≤ data.length) : decodeType ext data 1114 = decTimestamp data := by
  rw [decodeType_scalar0 ext data 1114 (by omega) (by decide) (by decide)]
  simp [decodeScalar0, notShort data 1114 8 (by decide) h, isTextOid]

theorem decodeType_1184 (ext : Ext) (data : Bytes) (h : 8 ≤ data.length) : decodeType ext data 1184 = decTimestamp data := by
  rw [decodeType_scalar0 ext data 1184 (by omega) (by decide) (by decide)]
  simp [decodeScalar0, notShort data 1184 8 (by decide) h, isTextOid]

theorem decodeType_1186 (ext : Ext) (data : Bytes) (h : 16 ≤ data.length) : decodeType ext data 1186 = decodeInterval data := by
  rw [decodeType_scalar0 ext data 1186 (by omega) (by decide) (by decide)]
  simp [decodeScalar0, notShort data 1186 16 (by decide) h, isTextOid]

theorem decodeType_829 (ext : Ext) (data : Bytes) (h : 6 ≤ data.length) : decodeType ext data 829 = decMac data 6 := by
  rw [decodeType_scalar0 ext data 829 (by omega) (by decide) (by decide)]
  simp [decodeScalar0, notShort data 829 6 (by decide) h, isTextOid]

theorem decodeType_774 (ext : Ext) (data : Bytes) (h : 8 ≤ data.length) : decodeType ext data 774 = decMac data 8 := by
  rw [decodeType_scalar0 ext data 774 (by omega) (by decide) (by decide)]
  simp [decodeScalar0, notShort data 774 8 (by decide) h, isTextOid]

theorem decodeType_869 (ext : Ext) (data : Bytes) (h : 1 ≤ data.length) : decodeType ext data 869 = decodeInet data := by
  rw [decodeType_scalar0 ext data 869 (by omega) (by decide) (by decide)]
  simp [decodeScalar0, notShort' data 869 (by decide), isTextOid]

theorem decodeType_650 (ext : Ext) (data : Bytes) (h : 1 ≤ data.length) : decodeType ext data 650 = decodeInet data := by
  rw [decodeType_scalar0 ext data 650 (by omega) (by decide) (by decide)]
  simp [decodeScalar0, notShort' data 650 (by decide), isTextOid]

theorem decodeType_2950 (ext : Ext) (data : Bytes) (h : 16 ≤ data.length) : decodeType ext data 2950 = decUUID data := by
  rw [decodeType_scalar0 ext data 2950 (by omega) (by decide) (by decide)]
  simp [decodeScalar0, notShort data 2950 16 (by decide) h, isTextOid]

theorem decodeType_3220 (ext : Ext) (data : Bytes) (h : 8 ≤ data.length) : decodeType ext data 3220 = decPgLsn data := by
  rw [decodeType_scalar0 ext data 3220 (by omega) (by decide) (by decide)]
  simp [decodeScalar0, notShort data 3220 8 (by decide) h, isTextOid]

theorem decodeType_600 (ext : Ext) (data : Bytes) (h : 16 ≤ data.length) : decodeType ext data 600 = decPoint data := by
  rw [decodeType_scalar0 ext data 600 (by omega) (by decide) (by decide)]
  simp [decodeScalar0, notShort data 600 16 (by decide) h, isTextOid]

theorem decodeType_601 (ext : Ext) (data : Bytes) (h : 32 ≤ data.length) : decodeType ext data 601 = decLseg data := by
  rw [decodeType_scalar0 ext data 601 (by omega) (by decide) (by decide)]
  simp [decodeScalar0, notShort data 601 32 (by decide) h, isTextOid]

theorem decodeType_603 (ext : Ext) (data : Bytes) (h : 32 ≤ data.length) : decodeType ext data 603 = decBox data := by
  rw [decodeType_scalar0 ext data 603 (by omega) (by decide) (by decide)]
  simp [decodeScalar0, notShort data 603 32 (by decide) h, isTextOid]

theorem decodeType_628 (ext : Ext) (data : Bytes) (h : 24 ≤ data.length) : decodeType ext data 628 = decLine data := by
  rw [decodeType_scalar0 ext data 628 (by omega) (by decide) (by decide)]
  simp [decodeScalar0, notShort data 628 24 (by decide) h, isTextOid]

theorem decodeType_718 (ext : Ext) (data : Bytes) (h : 24 ≤ data.length) : decodeType ext data 718 = decCircle data := by
  rw [decodeType_scalar0 ext data 718 (by omega) (by decide) (by decide)]
  simp [decodeScalar0, notShort data 718 24 (by decide) h, isTextOid]

theorem decodeType_602 (ext : Ext) (data : Bytes) (h : 1 ≤ data.length) : decodeType ext data 602 = decodePathOrPolygon data 602 := by
  rw [decodeType_scalar0 ext data 602 (by omega) (by decide) (by decide)]
  simp [decodeScalar0, notShort' data 602 (by decide), isTextOid]

theorem decodeType_604 (ext : Ext) (data : Bytes) (h : 1 ≤ data.length) : decodeType ext data 604 = decodePathOrPolygon data 604 := by
  rw [decodeType_scalar0 ext data 604 (by omega) (by decide) (by decide)]
  simp [decodeScalar0, notShort' data 604 (by decide), isTextOid]

/-- every range oid goes to decodeRange -/
theorem decodeType_range (ext : Ext) (data : Bytes) (oid : Nat) (h : 1 ≤ data.length) (hr : isRangeOid oid = true)
    (ha : arrayElemTypes.lookup oid = none) : decodeType ext data oid = decodeRange ext data oid := by
  have h0 : data.length ≠ 0 := by omega
  simp [decodeType, h0, ha, decodeScalar, hr]

/-! ### small facts used by the per-type theorems -/

theorem uN_le1 (n v : Nat) (h : v < 256 ^ n) : uN n (le n v) 0 = .ok v := by
  have := uN_le0 n v [] h
  simpa using this

theorem toSigned_small (bits v : Nat) (h : v < 2 ^ (bits - 1)) : toSigned bits v = (v : Int) := by
  unfold toSigned; rw [if_pos h]

theorem fmt0d_nat (w n : Nat) : fmt0d w (n : Int) = padNat w n := by
  unfold fmt0d
  have : ¬ ((n : Int) < 0) := by omega
  rw [if_neg this]; rfl

theorem fmtTimeOfDay_nat (us : Nat) :
    fmtTimeOfDay (us : Int) = hmsText (us / 3600000000) (us / 60000000 % 60) (us / 1000000 % 60) := by
  unfold fmtTimeOfDay hmsText
  have h1 : Int.tdiv (us : Int) 3600000000 = ((us / 3600000000 : Nat) : Int) := rfl
  have h2 : (Int.tdiv (us : Int) 60000000).tmod 60 = ((us / 60000000 % 60 : Nat) : Int) := rfl
  have h3 : (Int.tdiv (us : Int) 1000000).tmod 60 = ((us / 1000000 % 60 : Nat) : Int) := rfl
  rw [h1, h2, h3, fmt0d_nat, fmt0d_nat, fmt0d_nat]

theorem fmtZone_eq (z : Int) : fmtZone z = zoneText z := by
  unfold fmtZone zoneText
  have : (if -z < 0 then (45 : UInt8) else 43) = (if z > 0 then 45 else 43) := by
    by_cases h : z > 0
    · rw [if_pos h, if_pos (by omega)]
    · rw [if_neg h, if_neg (by omega)]
  simp only [this]

theorem ite_ok_str (c : Prop) [Decidable c] (a b : Bytes) :
    (if c then (Except.ok (GoVal.str a) : M GoVal) else .ok (.str b)) = .ok (.str (if c then a else b)) := by
  split <;> rfl

/-! ### geometric helpers -/

theorem pow64 (x : Nat) (h : x < 2 ^ 64) : x < 256 ^ 8 := by
  have : (256 : Nat) ^ 8 = 2 ^ 64 := by decide
  omega

theorem decodePoint_enc (p : Pt) (h1 : p.1 < 2 ^ 64) (h2 : p.2 < 2 ^ 64) : decodePoint (encPt p) = .ok (ptPieces p) := by
  unfold decodePoint encPt
  have hl : ¬ (le 8 p.1 ++ le 8 p.2).length < 16 := by simp
  have r1 : uN 8 (le 8 p.1 ++ le 8 p.2) 0 = .ok p.1 := uN_le0 8 _ _ (pow64 _ h1)
  have r2 : uN 8 (le 8 p.1 ++ le 8 p.2) 8 = .ok p.2 := by
    have := uN_le 8 p.2 8 (le 8 p.1) [] (by simp) (pow64 _ h2)
    simpa using this
  simp only [hl, if_false, u64, r1, r2, ok_bind, pure_eq_ok]
  rfl

theorem encPt_length (p : Pt) : (encPt p).length = 16 := by simp [encPt]

theorem slice_left (a b : Bytes) (n : Nat) (h : a.length = n) : slice (a ++ b) 0 n = .ok a := by
  rw [slice_ok _ _ _ (by simp; omega) (by omega)]
  simp [List.take_left' h]

theorem slice_right (a b : Bytes) (n m : Nat) (h : a.length = n) (hm : m = n + b.length) : slice (a ++ b) n m = .ok b := by
  rw [slice_ok _ _ _ (by simp; omega) (by omega)]
  have : (a ++ b).take m = a ++ b := List.take_of_length_le (by simp; omega)
  rw [this, List.drop_left' h]

/-! ### name, tid, pg_lsn, uuid, macaddr -/

theorem exists_cons_of_length {α} {l : List α} {n : Nat} (h : l.length = n + 1) : ∃ a t, l = a :: t ∧ t.length = n := by
  cases l with
  | nil => simp at h
  | cons a t => exact ⟨a, t, rfl, by simpa using h⟩

theorem takeWhile_nz (s : Bytes) (rest : Bytes) (h : s.contains 0 = false) :
    (s ++ 0 :: rest).takeWhile (· != 0) = s := by
  induction s with
  | nil => simp
  | cons a t ih =>
    simp only [List.contains_cons, Bool.or_eq_false_iff] at h
    have ha : (a != 0) = true := by
      have := h.1
      simp only [beq_eq_false_iff_ne, ne_eq] at this
      simp only [bne_iff_ne, ne_eq]
      exact fun e => this e.symm
    simp only [List.cons_append, List.takeWhile_cons, ha, if_true, ih h.2]

theorem cstring_name (s : Bytes) (hl : s.length < 64) (hz : s.contains 0 = false) :
    cstring (s ++ zeros (64 - s.length)) 64 = s := by
  unfold cstring
  have ht : (s ++ zeros (64 - s.length)).take 64 = s ++ zeros (64 - s.length) :=
    List.take_of_length_le (by simp; omega)
  rw [ht]
  have : zeros (64 - s.length) = 0 :: zeros (64 - s.length - 1) := by
    unfold zeros
    have : 64 - s.length = (64 - s.length - 1) + 1 := by omega
    rw [this, List.replicate_succ]; simp
  rw [this]
  exact takeWhile_nz s _ hz

theorem le4_split (a b : Nat) (ha : a < 65536) : le 4 (a + 65536 * b) = le 2 a ++ le 2 b := by
  simp only [le, List.cons_append, List.nil_append]
  have e1 : (a + 65536 * b) % 256 = a % 256 := by omega
  have e2 : (a + 65536 * b) / 256 % 256 = a / 256 % 256 := by omega
  have e3 : (a + 65536 * b) / 256 / 256 % 256 = b % 256 := by omega
  have e4 : (a + 65536 * b) / 256 / 256 / 256 % 256 = b / 256 % 256 := by omega
  rw [e1, e2, e3, e4]

theorem le8_split (v : Nat) : le 8 v = le 4 (v % 4294967296) ++ le 4 (v / 4294967296) := by
  simp only [le, List.cons_append, List.nil_append]
  have e1 : v % 4294967296 % 256 = v % 256 := by omega
  have e2 : v % 4294967296 / 256 % 256 = v / 256 % 256 := by omega
  have e3 : v % 4294967296 / 256 / 256 % 256 = v / 256 / 256 % 256 := by omega
  have e4 : v % 4294967296 / 256 / 256 / 256 % 256 = v / 256 / 256 / 256 % 256 := by omega
  have e5 : v / 4294967296 % 256 = v / 256 / 256 / 256 / 256 % 256 := by omega
  have e6 : v / 4294967296 / 256 % 256 = v / 256 / 256 / 256 / 256 / 256 % 256 := by omega
  have e7 : v / 4294967296 / 256 / 256 % 256 = v / 256 / 256 / 256 / 256 / 256 / 256 % 256 := by omega
  have e8 : v / 4294967296 / 256 / 256 / 256 % 256 = v / 256 / 256 / 256 / 256 / 256 / 256 / 256 % 256 := by omega
  rw [e1, e2, e3, e4, e5, e6, e7, e8]

theorem decUUID_view (b : Bytes) (hl : b.length = 16) : decUUID b = .ok (view (.uuid b)) := by
  obtain ⟨x0, t0, rfl, h0⟩ := exists_cons_of_length hl
  obtain ⟨x1, t1, rfl, h1⟩ := exists_cons_of_length h0
  obtain ⟨x2, t2, rfl, h2⟩ := exists_cons_of_length h1
  obtain ⟨x3, t3, rfl, h3⟩ := exists_cons_of_length h2
  obtain ⟨x4, t4, rfl, h4⟩ := exists_cons_of_length h3
  obtain ⟨x5, t5, rfl, h5⟩ := exists_cons_of_length h4
  obtain ⟨x6, t6, rfl, h6⟩ := exists_cons_of_length h5
  obtain ⟨x7, t7, rfl, h7⟩ := exists_cons_of_length h6
  obtain ⟨x8, t8, rfl, h8⟩ := exists_cons_of_length h7
  obtain ⟨x9, t9, rfl, h9⟩ := exists_cons_of_length h8
  obtain ⟨x10, t10, rfl, h10⟩ := exists_cons_of_length h9
  obtain ⟨x11, t11, rfl, h11⟩ := exists_cons_of_length h10
  obtain ⟨x12, t12, rfl, h12⟩ := exists_cons_of_length h11
  obtain ⟨x13, t13, rfl, h13⟩ := exists_cons_of_length h12
  obtain ⟨x14, t14, rfl, h14⟩ := exists_cons_of_length h13
  obtain ⟨x15, t15, rfl, h15⟩ := exists_cons_of_length h14
  have := List.eq_nil_of_length_eq_zero h15; subst this
  rfl

theorem decMac6_view (b : Bytes) (hl : b.length = 6) : decMac b 6 = .ok (view (.macaddr b)) := by
  obtain ⟨x0, t0, rfl, h0⟩ := exists_cons_of_length hl
  obtain ⟨x1, t1, rfl, h1⟩ := exists_cons_of_length h0
  obtain ⟨x2, t2, rfl, h2⟩ := exists_cons_of_length h1
  obtain ⟨x3, t3, rfl, h3⟩ := exists_cons_of_length h2
  obtain ⟨x4, t4, rfl, h4⟩ := exists_cons_of_length h3
  obtain ⟨x5, t5, rfl, h5⟩ := exists_cons_of_length h4
  have := List.eq_nil_of_length_eq_zero h5; subst this
  rfl

theorem decMac8_view (b : Bytes) (hl : b.length = 8) : decMac b 8 = .ok (view (.macaddr8 b)) := by
  obtain ⟨x0, t0, rfl, h0⟩ := exists_cons_of_length hl
  obtain ⟨x1, t1, rfl, h1⟩ := exists_cons_of_length h0
  obtain ⟨x2, t2, rfl, h2⟩ := exists_cons_of_length h1
  obtain ⟨x3, t3, rfl, h3⟩ := exists_cons_of_length h2
  obtain ⟨x4, t4, rfl, h4⟩ := exists_cons_of_length h3
  obtain ⟨x5, t5, rfl, h5⟩ := exists_cons_of_length h4
  obtain ⟨x6, t6, rfl, h6⟩ := exists_cons_of_length h5
  obtain ⟨x7, t7, rfl, h7⟩ := exists_cons_of_length h6
  have := List.eq_nil_of_length_eq_zero h7; subst this
  rfl

/-! ### json: the stored text is never empty -/

theorem decAux_ne (fuel n : Nat) (acc : Bytes) : decAux fuel n acc ≠ [] := by
  induction fuel generalizing n acc with
  | zero => simp [decAux]
  | succ f ih =>
    unfold decAux
    split
    · simp
    · exact ih _ _

theorem decNat_ne (n : Nat) : decNat n ≠ [] := decAux_ne _ _ _

theorem length_pos_of_ne {l : Bytes} (h : l ≠ []) : 1 ≤ l.length := by
  cases l with
  | nil => exact absurd rfl h
  | cons a t => simp

theorem jsonNum_length (neg : Bool) (m : Nat) (e : Int) : 1 ≤ (jsonNum neg m e).length := by
  unfold jsonNum
  have hd := length_pos_of_ne (decNat_ne m)
  simp only
  split
  · simp only [List.length_append]; omega
  · split
    · simp only [List.length_append, List.length_cons, List.length_nil]; omega
    · simp only [List.length_append, List.length_cons, List.length_nil]; omega

theorem render_length (d : JV) (ws : Nat) : 1 ≤ (d.render ws).length := by
  cases d with
  | null => simp [JV.render, asc]
  | bool b => cases b <;> simp [JV.render, asc]
  | num n m e => simp only [JV.render]; exact jsonNum_length n m e
  | str s => simp [JV.render]
  | arr xs => simp [JV.render]
  | obj kvs => simp [JV.render]

end PgVerif.Proofs.ScalarsRT
