/-
  Lemmas about Spec/SearchFloat.lean (the text a float cell is searched as).
-/
import PgVerif.Spec.SearchFloat
import PgVerif.Model.SearchShow
namespace PgVerif.Proofs.SearchFloat
open PgVerif PgVerif.Spec.SearchFloat

/-! ### decimal digits -/

def IsDigit (c : UInt8) : Prop := 48 ≤ c ∧ c ≤ 57

theorem digit_ofNat (n : Nat) : IsDigit (UInt8.ofNat (48 + n % 10)) := by
  have h : n % 10 < 10 := Nat.mod_lt _ (by decide)
  unfold IsDigit
  simp only [UInt8.le_iff_toNat_le, UInt8.toNat_ofNat']
  have : (48 + n % 10) % 2 ^ 8 = 48 + n % 10 := Nat.mod_eq_of_lt (by omega)
  rw [this]
  exact ⟨by simp, by simp; omega⟩

theorem decAux_digits : ∀ fuel n acc, (∀ c ∈ acc, IsDigit c) → ∀ c ∈ decAux fuel n acc, IsDigit c
  | 0, _, _, h => by simpa [decAux] using h
  | fuel+1, n, acc, h => by
    have h' : ∀ c ∈ UInt8.ofNat (48 + n % 10) :: acc, IsDigit c := by
      intro c hc
      rcases List.mem_cons.mp hc with rfl | hc
      · exact digit_ofNat n
      · exact h c hc
    unfold decAux
    by_cases hn : n < 10
    · simpa [hn] using h'
    · simp only [hn, if_false]
      exact decAux_digits fuel (n / 10) _ h'

/-- every byte of `dec n` is an ASCII digit -/
theorem dec_digits (n : Nat) : ∀ c ∈ dec n, IsDigit c :=
  decAux_digits _ _ [] (by simp)

/-! ### layouts -/

/-- a byte of a positional text: a digit or the point -/
def IsPosByte (c : UInt8) : Prop := c = 46 ∨ IsDigit c

theorem zeros_digits (n : Nat) : ∀ c ∈ zeroDigits n, IsDigit c := by
  intro c hc
  have := List.eq_of_mem_replicate hc
  subst this
  exact ⟨by decide, by decide⟩

/-- the positional layout has digits and at most a point: no exponent marker, no sign -/
theorem positional_bytes (d : Nat) (k : Int) : ∀ c ∈ positional d k, IsPosByte c := by
  intro c hc
  cases k with
  | ofNat k => exact Or.inr (dec_digits _ c (by simpa [positional] using hc))
  | negSucc j =>
    simp only [positional, List.mem_append, List.mem_singleton] at hc
    rcases hc with ((h | h) | h) | h
    · exact Or.inr (dec_digits _ c h)
    · exact Or.inl h
    · exact Or.inr (zeros_digits _ c h)
    · exact Or.inr (dec_digits _ c h)

theorem floatText_finite (D : Decoded) (layout : Nat → Int → Bytes) (h : D.special = false) :
    floatText D layout = (if D.neg then sMinus else []) ++
      (if D.m == 0 then [48] else layout (shortest D.fin).1 (shortest D.fin).2) := by
  simp [floatText, h]

/-! ### integers -/

/-- `F` is the float of the integer `N`, and its neighbours are at most 1 away: the rounding interval reaches at most
1/2 to either side -/
structure IntFloat (F : Fin) (N : Nat) : Prop where
  hv : F.vn = N * F.den
  hh : 2 * F.hn ≤ 2 * F.vn + F.den
  hl : 2 * F.vn ≤ 2 * F.ln + F.den
  hlo : F.ln < F.vn
  hhi : F.vn < F.hn
  hden : 0 < F.den

theorem inIv_weak {F : Fin} {a b d : Nat} (h : inIv F a b d = true) :
    F.ln * b ≤ d * a * F.den ∧ d * a * F.den ≤ F.hn * b := by
  unfold inIv at h
  by_cases hi : F.incl = true
  · simp only [hi, if_true, Bool.and_eq_true, decide_eq_true_eq] at h; exact h
  · simp only [hi, Bool.false_eq_true, if_false, Bool.and_eq_true, decide_eq_true_eq] at h
    exact ⟨Nat.le_of_lt h.1, Nat.le_of_lt h.2⟩

/-- the only integer in the rounding interval of the float of an integer `N` is `N` -/
theorem inIv_int {F : Fin} {N : Nat} (H : IntFloat F N) {k d : Nat} (h : inIv F (10 ^ k) 1 d = true) :
    d * 10 ^ k = N := by
  obtain ⟨h1, h2⟩ := inIv_weak h
  simp only [Nat.mul_one] at h1 h2
  have hv := H.hv; have hh := H.hh; have hl := H.hl
  generalize d * 10 ^ k = c at h1 h2 ⊢
  rcases Nat.lt_trichotomy c N with hlt | heq | hgt
  · have : (c + 1) * F.den ≤ N * F.den := Nat.mul_le_mul_right _ hlt
    rw [Nat.add_mul, Nat.one_mul] at this
    have := H.hden
    omega
  · exact heq
  · have : (N + 1) * F.den ≤ c * F.den := Nat.mul_le_mul_right _ hgt
    rw [Nat.add_mul, Nat.one_mul] at this
    have := H.hden
    omega

theorem tryAt_sound {F : Fin} {a b d : Nat} (h : tryAt F a b = some d) : inIv F a b d = true := by
  unfold tryAt at h
  simp only at h
  split at h
  · rename_i hb
    simp only [Bool.and_eq_true] at hb
    simp only [Option.some.injEq] at h
    split at h
    · rw [← h]; exact hb.1
    · split at h
      · rw [← h]; exact hb.2
      · split at h
        · rw [← h]; exact hb.1
        · rw [← h]; exact hb.2
  · split at h
    · rename_i hb; simp only [Option.some.injEq] at h; rw [← h]; exact hb
    · split at h
      · rename_i hb; simp only [Option.some.injEq] at h; rw [← h]; exact hb
      · exact absurd h (by simp)

/-- the decimal `d · 10^k` lies in the rounding interval of `F`: it reads back as `F` -/
def ReadsBack (F : Fin) (d : Nat) : Int → Prop
  | .ofNat k => inIv F (10 ^ k) 1 d = true
  | .negSucc j => inIv F 1 (10 ^ (j + 1)) d = true

theorem searchPos_sound {F : Fin} : ∀ n d (k : Int), searchPos F n = some (d, k) → ReadsBack F d k
  | 0, _, _, h => by simp [searchPos] at h
  | n+1, d, k, h => by
    unfold searchPos at h
    split at h
    · rename_i d' hd
      simp only [Option.some.injEq, Prod.mk.injEq] at h
      rw [← h.1, ← h.2]
      exact tryAt_sound hd
    · exact searchPos_sound n d k h

theorem searchNeg_sound {F : Fin} : ∀ fuel j d (k : Int), 0 < j → searchNeg F fuel j = some (d, k) → ReadsBack F d k
  | 0, _, _, _, _, h => by simp [searchNeg] at h
  | fuel+1, j, d, k, hj, h => by
    unfold searchNeg at h
    split at h
    · rename_i d' hd
      simp only [Option.some.injEq, Prod.mk.injEq] at h
      rw [← h.1, ← h.2]
      obtain ⟨j', rfl⟩ : ∃ j', j = j' + 1 := ⟨j - 1, by omega⟩
      exact tryAt_sound hd
    · exact searchNeg_sound fuel (j + 1) d k (by omega) h

/-- whatever the search for the shortest digits returns reads back as the same float -/
theorem shortest_reads_back (F : Fin) (h : (searchPos F (startExp F)).isSome = true ∨ (searchNeg F 400 1).isSome = true) :
    ReadsBack F (shortest F).1 (shortest F).2 := by
  unfold shortest
  cases hp : searchPos F (startExp F) with
  | some r => exact searchPos_sound _ r.1 r.2 hp
  | none =>
    rw [hp] at h
    cases hn : searchNeg F 400 1 with
    | none => rw [hn] at h; simp at h
    | some r => exact searchNeg_sound 400 1 r.1 r.2 (by decide) hn

theorem tryAt_isSome_of_lo {F : Fin} {a b : Nat} (h : inIv F a b (F.vn * b / (a * F.den)) = true) :
    (tryAt F a b).isSome = true := by
  unfold tryAt
  simp only [h, Bool.true_and]
  split
  · rfl
  · rfl

theorem tryAt_one {F : Fin} {N : Nat} (H : IntFloat F N) : (tryAt F 1 1).isSome = true := by
  apply tryAt_isSome_of_lo
  have hq : F.vn * 1 / (1 * F.den) = N := by
    rw [Nat.mul_one, Nat.one_mul, H.hv]; exact Nat.mul_div_cancel _ H.hden
  rw [hq]
  unfold inIv
  have hv := H.hv; have h1 := H.hlo; have h2 := H.hhi
  simp only [Nat.mul_one]
  rw [← hv]
  by_cases hi : F.incl = true
  · simp [hi, Nat.le_of_lt h1, Nat.le_of_lt h2]
  · simp [hi, h1, h2]

theorem searchPos_int {F : Fin} {N : Nat} (H : IntFloat F N) :
    ∀ n d (k : Int), searchPos F n = some (d, k) → ∃ k' : Nat, k = (k' : Int) ∧ d * 10 ^ k' = N
  | 0, _, _, h => by simp [searchPos] at h
  | n+1, d, k, h => by
    unfold searchPos at h
    split at h
    · rename_i d' hd
      simp only [Option.some.injEq, Prod.mk.injEq] at h
      refine ⟨n, h.2.symm, ?_⟩
      rw [← h.1]
      exact inIv_int H (tryAt_sound hd)
    · exact searchPos_int H n d k h

theorem searchPos_isSome {F : Fin} {N : Nat} (H : IntFloat F N) : ∀ n, (searchPos F (n + 1)).isSome = true
  | 0 => by
    unfold searchPos
    have h := tryAt_one H
    simp only [Nat.pow_zero]
    cases ht : tryAt F 1 1 with
    | none => rw [ht] at h; exact absurd h (by simp)
    | some d => rfl
  | n+1 => by
    unfold searchPos
    cases ht : tryAt F (10 ^ (n + 1)) 1 with
    | none => exact searchPos_isSome H n
    | some d => rfl

/-- the shortest digits of the float of an integer, laid out positionally, are the integer's decimal text -/
theorem positional_shortest_int {F : Fin} {N : Nat} (H : IntFloat F N) :
    positional (shortest F).1 (shortest F).2 = dec N := by
  have hs : startExp F = (startExp F - 1) + 1 := by unfold startExp; omega
  have hsome := searchPos_isSome H (startExp F - 1)
  rw [← hs] at hsome
  unfold shortest
  cases hr : searchPos F (startExp F) with
  | none => rw [hr] at hsome; exact absurd hsome (by simp)
  | some r =>
    obtain ⟨d, k⟩ := r
    obtain ⟨k', hk, hN⟩ := searchPos_int H _ d k hr
    subst hk
    simp only [positional, hN]

end PgVerif.Proofs.SearchFloat
