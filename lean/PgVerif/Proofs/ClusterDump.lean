/-
  Helper lemmas about pgdump.go's model: what dumpTable / dumpOne / DumpDatabaseFromFiles results look like.
-/
import PgVerif.Proofs.ClusterMap
namespace PgVerif.Proofs.Cluster
open PgVerif PgVerif.Model List
open PgVerif.Spec (TableDump DatabaseDump Options)

/-- mapping the results of a `collectM` whose step function factors through `h` -/
theorem collectM_map_result {α β γ} (f : α → M (Option β)) (g : α → M (Option γ)) (hmap : β → γ) (xs : List α) (ys : List β)
    (hf : collectM f xs = .ok ys) (hg : ∀ x ∈ xs, ∀ y, f x = .ok y → g x = .ok (y.map hmap)) :
    collectM g xs = .ok (ys.map hmap) := by
  induction xs generalizing ys with
  | nil => simp [collectM] at hf ⊢; subst hf; rfl
  | cons x xs ih =>
    simp only [collectM] at hf ⊢
    cases hx : f x with
    | error e => simp [hx] at hf
    | ok r =>
      simp only [hx, ok_bind] at hf
      cases hr : collectM f xs with
      | error e => simp [hr] at hf
      | ok rest =>
        simp only [hr, ok_bind, pure_eq_ok] at hf
        rw [hg x (by simp) r hx, ih rest hr (fun y hy => hg y (by simp [hy]))]
        simp only [ok_bind, pure_eq_ok]
        injection hf with hf
        subst hf
        cases r <;> rfl

def stripRows (t : TableDump) : TableDump := { t with rows := [], rowCount := 0 }

/-- the two shapes a dumpTable result can have -/
theorem dumpTable_shape (rr : RowReader) (fn : Nat) (info : TableInfo) (attrs : List AttrInfo)
    (reader : Option FileReader) (o : Options) (t : TableDump) (h : dumpTable rr fn info attrs reader o = .ok t) :
    t.oid = info.oid ∧ t.name = info.name ∧ t.filenode = fn ∧ t.kind = info.kind ∧
    t.columns = attrs.map (fun a => ⟨a.name, typeName a.typid, a.typid⟩) ∧
    t.rowCount = t.rows.length ∧ (o.listOnly = true → t.rows = []) := by
  unfold dumpTable at h
  simp only at h
  cases hl : o.listOnly with
  | true =>
    simp only [hl, if_true] at h
    injection h with h; subst h
    exact ⟨rfl, rfl, rfl, rfl, rfl, rfl, fun _ => rfl⟩
  | false =>
    simp only [hl, Bool.false_eq_true, if_false] at h
    cases reader with
    | none =>
      simp only at h
      injection h with h; subst h
      exact ⟨rfl, rfl, rfl, rfl, rfl, rfl, fun _ => rfl⟩
    | some rd =>
      simp only at h
      cases hrd : rd fn with
      | none =>
        simp only [hrd] at h
        injection h with h; subst h
        exact ⟨rfl, rfl, rfl, rfl, rfl, rfl, fun _ => rfl⟩
      | some data =>
        simp only [hrd] at h
        by_cases hd : data.length = 0
        · rw [if_pos hd] at h
          injection h with h; subst h
          exact ⟨rfl, rfl, rfl, rfl, rfl, rfl, fun _ => rfl⟩
        · rw [if_neg hd] at h
          cases hrows : readTableRows rr data (attrs.map fun a => ⟨a.name, a.typid, a.len, a.num, a.align⟩) with
          | error e => simp [hrows] at h
          | ok rows =>
            simp only [hrows, ok_bind, pure_eq_ok] at h
            injection h with h; subst h
            exact ⟨rfl, rfl, rfl, rfl, rfl, rfl, fun hh => by simp at hh⟩

/-- schema-only mode is the full dump with the rows removed -/
theorem dumpTable_listOnly (rr : RowReader) (fn : Nat) (info : TableInfo) (attrs : List AttrInfo)
    (reader : Option FileReader) (o : Options) (t : TableDump) (h : dumpTable rr fn info attrs reader o = .ok t) :
    dumpTable rr fn info attrs reader { o with listOnly := true } = .ok (stripRows t) := by
  obtain ⟨h1, h2, h3, h4, h5, _, _⟩ := dumpTable_shape rr fn info attrs reader o t h
  unfold dumpTable
  simp only [if_true]
  congr 1
  cases t
  simp only [stripRows] at *
  subst h1 h2 h3 h4 h5
  rfl

theorem keepTable_listOnly (o : Options) (info : TableInfo) :
    keepTable { o with listOnly := true } info = keepTable o info := rfl

/-- every table of a DumpDatabaseFromFiles result came out of dumpTable -/
theorem tables_from_dumpTable (rr : RowReader) (π : MapOrder TableInfo) (cd ad : Bytes) (reader : Option FileReader)
    (o : Options) (ts : List TableDump) (h : dumpDatabaseFromFiles rr π cd ad reader o = .ok ts) :
    ∀ t ∈ ts, ∃ fn info attrs, dumpTable rr fn info attrs reader o = .ok t := by
  unfold dumpDatabaseFromFiles at h
  cases h1 : parsePGClass rr cd with
  | error e => simp [h1] at h
  | ok tables =>
    cases h2 : parsePGAttribute rr ad o.pgVersion with
    | error e => simp [h1, h2] at h
    | ok attrs =>
      simp only [h1, h2, ok_bind] at h
      intro t ht
      obtain ⟨fn, _, hfn⟩ := collectM_ok _ _ _ h t ht
      unfold dumpOne at hfn
      cases hg : mapGet tables fn with
      | none => simp [hg] at hfn
      | some info =>
        simp only [hg] at hfn
        by_cases hk : keepTable o info = true
        · rw [if_pos hk] at hfn
          cases hd : dumpTable rr fn info ((mapGet attrs info.oid).getD []) reader o with
          | error e => simp [hd] at hfn
          | ok t' =>
            simp only [hd, ok_bind, pure_eq_ok] at hfn
            injection hfn with hfn; injection hfn with hfn; subst hfn
            exact ⟨fn, info, _, hd⟩
        · rw [if_neg hk] at hfn; simp at hfn

/-- every database of a DumpDataDir result came out of DumpDatabaseFromFiles -/
theorem dbs_from_files (rr : RowReader) (π : MapOrder TableInfo) (fs : Bytes → Option Bytes) (o : Options)
    (r : Spec.DumpResult) (h : dumpDataDir rr π fs o = .ok (some r)) :
    ∀ d ∈ r, ∃ cd ad reader, dumpDatabaseFromFiles rr π cd ad reader o = .ok d.tables := by
  unfold dumpDataDir at h
  cases hg : fs pathGlobal1262 with
  | none => simp [hg] at h
  | some dbData =>
    simp only [hg] at h
    cases hp : parsePGDatabase rr dbData with
    | error e => simp [hp] at h
    | ok dbs =>
      simp only [hp, ok_bind] at h
      cases hc : collectM (dumpDb rr π fs o) dbs with
      | error e => simp [hc] at h
      | ok r' =>
        simp only [hc, ok_bind, pure_eq_ok] at h
        injection h with h; injection h with h; subst h
        intro d hd
        obtain ⟨db, _, hdb⟩ := collectM_ok _ _ _ hc d hd
        unfold dumpDb at hdb
        split at hdb
        · simp at hdb
        · split at hdb
          · simp at hdb
          · simp only at hdb
            split at hdb
            · simp at hdb
            · cases hf : dumpDatabaseFromFiles rr π ((fs (basePath db.oid 1259)).getD []) ((fs (basePath db.oid 1249)).getD [])
                  (some fun fn => fs (basePath db.oid fn)) o with
              | error e => simp [hf] at hdb
              | ok ts =>
                simp only [hf, ok_bind, pure_eq_ok] at hdb
                injection hdb with hdb; injection hdb with hdb; subst hdb
                exact ⟨_, _, _, hf⟩


end PgVerif.Proofs.Cluster
