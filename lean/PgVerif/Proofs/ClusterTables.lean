/-
  Helper lemmas for C01/C12: from the live pg_class rows to the sorted table list.
-/
import PgVerif.Proofs.ClusterDump
namespace PgVerif.Proofs.Cluster
open PgVerif PgVerif.Model List
open PgVerif.Spec (TableDump DatabaseDump Options)

/-! ### insertion sort commutes with key-preserving maps -/

theorem insertBy_map {α β} (f : α → β) (ka : α → Nat) (kb : β → Nat) (h : ∀ x, kb (f x) = ka x) (a : α) (l : List α) :
    insertBy kb (f a) (l.map f) = (insertBy ka a l).map f := by
  induction l with
  | nil => rfl
  | cons b bs ih =>
    simp only [map_cons, insertBy, h]
    by_cases hab : ka a ≤ ka b
    · simp [hab]
    · simp [hab, ih]

theorem sortBy_map {α β} (f : α → β) (ka : α → Nat) (kb : β → Nat) (h : ∀ x, kb (f x) = ka x) (l : List α) :
    sortBy kb (l.map f) = (sortBy ka l).map f := by
  induction l with
  | nil => rfl
  | cons a l ih =>
    show insertBy kb (f a) (sortBy kb (l.map f)) = (insertBy ka a (sortBy ka l)).map f
    rw [ih, insertBy_map f ka kb h]

theorem sortTables_eq (l : List TableDump) : Spec.sortTables l = sortBy (·.filenode) l := by
  unfold Spec.sortTables sortBy
  congr 1
  funext a l
  induction l with
  | nil => rfl
  | cons b bs ih => simp only [Spec.insertTable, insertBy, ih]

/-! ### association lists with distinct keys -/

theorem mapPut_absent {β} (m : List (Nat × β)) (k : Nat) (v : β) (h : k ∉ m.map (·.1)) : mapPut m k v = m ++ [(k, v)] := by
  induction m with
  | nil => rfl
  | cons e rest ih =>
    obtain ⟨k', v'⟩ := e
    simp only [map_cons, mem_cons, not_or] at h
    unfold mapPut
    rw [if_neg (fun hk => h.1 hk.symm), ih h.2]
    rfl

theorem filterMap_congr' {α β} (f g : α → Option β) (l : List α) (h : ∀ x ∈ l, f x = g x) :
    l.filterMap f = l.filterMap g := by
  induction l with
  | nil => rfl
  | cons a l ih =>
    simp only [filterMap_cons, h a (by simp)]
    rw [ih (fun x hx => h x (by simp [hx]))]

theorem lookup_mem {β} (m : List (Nat × β)) (k : Nat) (v : β) (h : m.lookup k = some v) : (k, v) ∈ m := by
  induction m with
  | nil => simp at h
  | cons e rest ih =>
    obtain ⟨k', v'⟩ := e
    simp only [lookup_cons] at h
    by_cases hk : k = k'
    · subst hk; simp only [beq_self_eq_true] at h; injection h with h; subst h; simp
    · have : (k == k') = false := by simpa using hk
      simp only [this] at h
      exact mem_cons_of_mem _ (ih h)

theorem lookup_own_keys {β} (m : List (Nat × β)) (h : (m.map (·.1)).Nodup) :
    (m.map (·.1)).filterMap (fun k => mapGet m k) = m.map (·.2) := by
  induction m with
  | nil => rfl
  | cons e rest ih =>
    obtain ⟨k, v⟩ := e
    simp only [map_cons, nodup_cons] at h
    simp only [map_cons, filterMap_cons, mapGet, lookup_cons, beq_self_eq_true]
    congr 1
    rw [← ih h.2]
    apply filterMap_congr'
    intro k' hk'
    have : (k' == k) = false := by
      simp only [beq_eq_false_iff_ne, ne_eq]
      intro he; subst he; exact h.1 hk'
    simp [mapGet, this]

/-- looking the sorted keys up gives the values sorted by their Filenode field -/
theorem sorted_lookup (m : List (Nat × TableInfo)) (hk : KeysOK m) (keys : List Nat) (hp : keys ~ m.map (·.1)) :
    (sortNat keys).filterMap (fun k => mapGet m k) = sortByFilenode (m.map (·.2)) := by
  rw [sortNat_eq, sortByFilenode_eq]
  have hperm : (sortBy id keys).filterMap (fun k => mapGet m k) ~ m.map (·.2) := by
    rw [← lookup_own_keys m hk.1]
    exact (((sortBy_perm id keys).trans hp).filterMap _)
  refine sorted_perm_eq TableInfo.filenode _ _ (hperm.trans (sortBy_perm TableInfo.filenode _).symm) ?_
    (sortBy_sorted TableInfo.filenode _) ?_
  rotate_left
  · intro a ha b hb hab
    exact keysOK_inj m hk a (hperm.subset ha) b (hperm.subset hb) hab
  · -- sorted: keys ascending, and each value sits under its own filenode
    have hs := sortBy_sorted id keys
    refine Pairwise.filterMap _ ?_ hs
    intro k k' hkk a ha b hb
    have h1 : a.filenode = k := by
      have : (k, a) ∈ m := lookup_mem m k a ha
      exact hk.2 _ this
    have h2 : b.filenode = k' := by
      have : (k', b) ∈ m := lookup_mem m k' b hb
      exact hk.2 _ this
    simp only [id] at hkk
    omega

/-! ### the table loop of DumpDatabaseFromFiles -/

def infoKey (i : TableInfo) : Nat × Bytes × Nat × Bytes := (i.oid, i.name, i.filenode, i.kind)
def tableKey (t : TableDump) : Nat × Bytes × Nat × Bytes := (t.oid, t.name, t.filenode, t.kind)

/-- the tables the loop emits are, in order, the kept entries of the looked-up keys; each carries the columns of
its relation oid -/
theorem dumpLoop_keys (rr : RowReader) (tables : List (Nat × TableInfo)) (attrs : List (Nat × List AttrInfo))
    (reader : Option FileReader) (o : Options) (hk : ∀ e ∈ tables, e.2.filenode = e.1) (keys : List Nat) (ts : List TableDump)
    (h : collectM (dumpOne rr tables attrs reader o) keys = .ok ts) :
    ts.map tableKey = ((keys.filterMap (fun k => mapGet tables k)).filter (keepTable o)).map infoKey ∧
    ∀ t ∈ ts, t.columns = ((mapGet attrs t.oid).getD []).map (fun a => ⟨a.name, typeName a.typid, a.typid⟩) := by
  induction keys generalizing ts with
  | nil => simp [collectM] at h; subst h; simp
  | cons k ks ih =>
    simp only [collectM] at h
    cases hx : dumpOne rr tables attrs reader o k with
    | error e => simp [hx] at h
    | ok r =>
      simp only [hx, ok_bind] at h
      cases hr : collectM (dumpOne rr tables attrs reader o) ks with
      | error e => simp [hr] at h
      | ok rest =>
        simp only [hr, ok_bind, pure_eq_ok] at h
        injection h with h
        obtain ⟨ih1, ih2⟩ := ih rest hr
        unfold dumpOne at hx
        cases hg : mapGet tables k with
        | none =>
          simp only [hg] at hx
          injection hx with hx; subst hx
          simp only at h; subst h
          simp only [filterMap_cons, hg]
          exact ⟨ih1, ih2⟩
        | some info =>
          simp only [hg] at hx
          have hmem : (k, info) ∈ tables := lookup_mem tables k info hg
          have hfn : info.filenode = k := hk _ hmem
          by_cases hkeep : keepTable o info = true
          · rw [if_pos hkeep] at hx
            cases hd : dumpTable rr k info ((mapGet attrs info.oid).getD []) reader o with
            | error e => simp [hd] at hx
            | ok t =>
              simp only [hd, ok_bind, pure_eq_ok] at hx
              injection hx with hx; subst hx
              simp only at h; subst h
              obtain ⟨s1, s2, s3, s4, s5, _, _⟩ := dumpTable_shape rr k info _ reader o t hd
              simp only [filterMap_cons, hg, filter_cons, hkeep, if_true, map_cons]
              refine ⟨?_, ?_⟩
              · rw [ih1]; simp only [tableKey, infoKey, s1, s2, s3, s4, hfn]
              · intro t' ht'
                rcases mem_cons.mp ht' with rfl | ht'
                · rw [s5, s1]
                · exact ih2 t' ht'
          · rw [if_neg hkeep] at hx
            injection hx with hx; subst hx
            simp only at h; subst h
            simp only [filterMap_cons, hg, filter_cons, hkeep]
            exact ⟨ih1, ih2⟩

/-- **The table list of DumpDatabaseFromFiles**: the values of ParsePGClass's map that pass the three filters,
in filenode order — for every iteration order of the map. -/
theorem dump_tables (rr : RowReader) (π : MapOrder TableInfo) (hπ : ∀ l, π l ~ l) (cd ad : Bytes)
    (reader : Option FileReader) (o : Options) (tables : List (Nat × TableInfo)) (ht : parsePGClass rr cd = .ok tables)
    (ts : List TableDump) (h : dumpDatabaseFromFiles rr π cd ad reader o = .ok ts) :
    ts.map tableKey = ((sortByFilenode (tables.map (·.2))).filter (keepTable o)).map infoKey := by
  have hk := parsePGClass_keysOK rr cd tables ht
  unfold dumpDatabaseFromFiles at h
  simp only [ht, ok_bind] at h
  cases ha : parsePGAttribute rr ad o.pgVersion with
  | error e => simp [ha] at h
  | ok attrs =>
    simp only [ha, ok_bind] at h
    have := (dumpLoop_keys rr tables attrs reader o hk.2 _ ts h).1
    rw [this, sorted_lookup tables hk _ ((hπ tables).map _)]

end PgVerif.Proofs.Cluster
