/-
  Helper lemmas about the numeric model (jsonb.go:156-250) and PostgreSQL's numeric encoder.
-/
import PgVerif.Model.JsonbView
import PgVerif.Proofs.NumericValue
namespace PgVerif.Proofs
open PgVerif PgVerif.Model

/-! ### masks: a contiguous bit field of a `Nat` is a quotient/remainder -/

theorem land_field (x n k : Nat) : x &&& ((2 ^ n - 1) * 2 ^ k) = (x / 2 ^ k % 2 ^ n) * 2 ^ k := by
  apply Nat.eq_of_testBit_eq
  intro i
  simp only [Nat.testBit_and, Nat.testBit_mul_two_pow, Nat.testBit_two_pow_sub_one, Nat.testBit_mod_two_pow,
    Nat.testBit_div_two_pow]
  by_cases h : k ≤ i
  · simp [h]
    by_cases h2 : i - k < n
    · simp [h2]
    · simp [h2]
  · simp [h]

theorem land_C000 (h : Nat) : h &&& 0xC000 = (h / 0x4000 % 4) * 0x4000 := by
  have := land_field h 2 14; simpa using this
theorem land_8000 (h : Nat) : h &&& 0x8000 = (h / 0x8000 % 2) * 0x8000 := by
  have := land_field h 1 15; simpa using this
theorem land_2000 (h : Nat) : h &&& 0x2000 = (h / 0x2000 % 2) * 0x2000 := by
  have := land_field h 1 13; simpa using this
theorem land_0040 (h : Nat) : h &&& 0x0040 = (h / 64 % 2) * 64 := by
  have := land_field h 1 6; simpa using this
theorem land_003F (h : Nat) : h &&& 0x003F = h % 64 := by
  have := land_mask h 6; simpa using this
theorem land_3 (h : Nat) : h &&& 3 = h % 4 := by
  have := land_mask h 2; simpa using this
theorem land_FF (h : Nat) : h &&& 0xFF = h % 256 := by
  have := land_mask h 8; simpa using this

/-! ### the header word, all 65 536 values at once -/

/-- the three masks `DecodeNumeric` / `decodeNumericShort` / `decodeNumericLong` apply to the header
word compute exactly PostgreSQL's classification (stated with quotients and remainders in
`Spec.classifyHeader`), for every 16-bit word -/
theorem header_masks (h : Nat) :
    ((h &&& 0xC000) == 0xC000) = (h / 0x4000 % 4 == 3) ∧
    (h &&& 0x8000 != 0) = (h / 0x8000 % 2 == 1) ∧
    ((h &&& 0xC000) == 0x4000) = (h / 0x4000 % 4 == 1) ∧
    shortHeaderFields h = ⟨h / 0x2000 % 2 == 1, if h / 64 % 2 == 1 then ((h % 64 : Nat) : Int) - 64 else (h % 64 : Nat)⟩ := by
  refine ⟨?_, ?_, ?_, ?_⟩
  · rw [land_C000]
    have : h / 0x4000 % 4 < 4 := Nat.mod_lt _ (by decide)
    rcases Nat.lt_or_ge (h / 0x4000 % 4) 3 with h3 | h3
    · have e : (h / 0x4000 % 4 == 3) = false := by simp; omega
      rw [e]; simp; omega
    · have e : h / 0x4000 % 4 = 3 := by omega
      rw [e]; rfl
  · rw [land_8000]
    have : h / 0x8000 % 2 < 2 := Nat.mod_lt _ (by decide)
    rcases Nat.lt_or_ge (h / 0x8000 % 2) 1 with h3 | h3
    · have e : h / 0x8000 % 2 = 0 := by omega
      rw [e]; rfl
    · have e : h / 0x8000 % 2 = 1 := by omega
      rw [e]; rfl
  · rw [land_C000]
    have : h / 0x4000 % 4 < 4 := Nat.mod_lt _ (by decide)
    by_cases h1 : h / 0x4000 % 4 = 1
    · rw [h1]; rfl
    · have e : (h / 0x4000 % 4 == 1) = false := by simp [h1]
      rw [e]; simp; omega
  · unfold shortHeaderFields
    rw [land_2000, land_0040, land_003F]
    have a : h / 0x2000 % 2 < 2 := Nat.mod_lt _ (by decide)
    have b : h / 64 % 2 < 2 := Nat.mod_lt _ (by decide)
    have e1 : (h / 0x2000 % 2 * 0x2000 != 0) = (h / 0x2000 % 2 == 1) := by
      rcases Nat.lt_or_ge (h / 0x2000 % 2) 1 with h3 | h3
      · have e : h / 0x2000 % 2 = 0 := by omega
        rw [e]; rfl
      · have e : h / 0x2000 % 2 = 1 := by omega
        rw [e]; rfl
    have e2 : (h / 64 % 2 * 64 != 0) = (h / 64 % 2 == 1) := by
      rcases Nat.lt_or_ge (h / 64 % 2) 1 with h3 | h3
      · have e : h / 64 % 2 = 0 := by omega
        rw [e]; rfl
      · have e : h / 64 % 2 = 1 := by omega
        rw [e]; rfl
    simp only [e1, e2]

/-! ### the digit loop -/

theorem readDigits_total (raw : Bytes) (base n i : Nat) (h : base + (i + n) * 2 ≤ raw.length) :
    ∃ ds, readDigits raw base n i = .ok ds ∧ ds.length = n := by
  induction n generalizing i with
  | zero => exact ⟨[], rfl, rfl⟩
  | succ n ih =>
    obtain ⟨ds, hds, hl⟩ := ih (i + 1) (by omega)
    refine ⟨rd 2 (raw.drop (base + i * 2)) :: ds, ?_, by simp [hl]⟩
    unfold readDigits
    rw [uN_ok 2 raw (base + i * 2) (by omega)]
    simp only [ok_bind, hds, pure_eq_ok]

theorem encDigits_length (ds : List Nat) : (Spec.encDigits ds).length = 2 * ds.length := by
  induction ds with
  | nil => rfl
  | cons d ds ih => simp [Spec.encDigits, ih]; omega

/-- the loop reads back the digit words PostgreSQL wrote -/
theorem readDigits_enc (ds : List Nat) (pre : Bytes) (base i : Nat) (hb : base + i * 2 = pre.length)
    (hd : ∀ d ∈ ds, d < 65536) :
    readDigits (pre ++ Spec.encDigits ds) base ds.length i = .ok ds := by
  induction ds generalizing pre i with
  | nil => rfl
  | cons d ds ih =>
    have hlen := encDigits_length ds
    simp only [List.length_cons, readDigits, Spec.encDigits]
    rw [uN_ok 2 _ (base + i * 2) (by simp [le_length]; omega)]
    simp only [ok_bind]
    rw [hb, List.drop_left' rfl, rd_le 2 d _ (by have := hd d (by simp); omega)]
    have := ih (pre ++ le 2 d) (i + 1) (by simp [le_length]; omega) (fun x hx => hd x (by simp [hx]))
    rw [List.append_assoc] at this
    rw [this]; rfl

theorem mantOf_eq (ds : List Nat) (acc : Nat) :
    Spec.mantOf ds acc = ds.foldl (fun r d => r * 10000 + d) acc := by
  induction ds generalizing acc with
  | nil => rfl
  | cons d ds ih => simp [Spec.mantOf, ih]

theorem any_ge_false (ds : List Nat) (h : ∀ d ∈ ds, d < 10000) :
    ds.any (fun d => decide (d ≥ 10000)) = false := by
  induction ds with
  | nil => rfl
  | cons d ds ih =>
    simp only [List.any_cons, ih (fun x hx => h x (by simp [hx])), Bool.or_false]
    have := h d (by simp)
    simp; omega

/-- computeNumeric on well-formed digits: the decimal text it hands to ParseFloat, read by the Spec's reader,
is the stored numeric's exact value -/
theorem computeNumeric_view (ds : List Nat) (w : Int) (neg : Bool) (h : ∀ d ∈ ds, d < 10000) (hne : ds ≠ []) :
    (computeNumeric ds w neg).toView = some (Spec.Numeric.fin neg w 0 ds).view := by
  have hl : ds.length ≠ 0 := by cases ds <;> simp_all
  have he : ds.isEmpty = false := by cases ds <;> simp_all
  simp [computeNumeric, hl, any_ge_false ds h, NumRes.toView, Spec.Numeric.view, he,
    NumericValue.readDecimal_numericText ds w neg h hne]

/-! ### totality -/

theorem decodeNumericShort_total (raw : Bytes) (header : Nat) (h : 2 ≤ raw.length) :
    ∃ r, decodeNumericShort raw header = .ok r := by
  unfold decodeNumericShort
  by_cases h0 : ((raw.length - 2) / 2 == 0) = true
  · simp [h0]
  · obtain ⟨ds, hds, _⟩ := readDigits_total raw 2 ((raw.length - 2) / 2) 0 (by omega)
    simp [h0, hds]

theorem decodeNumericLong_total (raw : Bytes) : ∃ r, decodeNumericLong raw = .ok r := by
  unfold decodeNumericLong
  by_cases hl : raw.length < 4
  · simp [hl]
  · simp (disch := omega) only [hl, if_false, uN_ok, ok_bind, pure_eq_ok]
    by_cases h0 : ((raw.length - 4) / 2 == 0) = true
    · simp [h0]
    · obtain ⟨ds, hds, _⟩ := readDigits_total raw 4 ((raw.length - 4) / 2) 0 (by omega)
      simp [h0, hds]

theorem decodeNumeric_total (raw : Bytes) : ∃ r, decodeNumeric raw = .ok r := by
  unfold decodeNumeric
  by_cases hl : raw.length < 2
  · simp [hl]
  · simp (disch := omega) only [hl, if_false, uN_ok, ok_bind, pure_eq_ok]
    split
    · exact ⟨_, rfl⟩
    · split
      · exact decodeNumericShort_total raw _ (by omega)
      · exact decodeNumericLong_total raw

theorem decodeJNumeric_total (data : Bytes) : ∃ r, decodeJNumeric data = .ok r := by
  unfold decodeJNumeric
  by_cases hl : data.length < 4
  · simp [hl]
  · simp (disch := omega) only [hl, if_false, uN_ok, ok_bind, pure_eq_ok]
    split
    · split
      · rename_i hg
        simp (disch := omega) only [slice_ok, ok_bind]
        exact decodeNumeric_total _
      · exact decodeNumeric_total _
    · split
      · rename_i hg
        simp (disch := omega) only [slice_ok, ok_bind]
        exact decodeNumeric_total _
      · exact decodeNumeric_total _

theorem decodeTypeNumeric_total (data : Bytes) : ∃ r, decodeTypeNumeric data = .ok r := by
  unfold decodeTypeNumeric
  split
  · exact ⟨_, rfl⟩
  · exact decodeNumeric_total data

/-! ### decoding PostgreSQL's encoding -/

theorem uN2_head (H : Nat) (body : Bytes) (hH : H < 65536) : uN 2 (le 2 H ++ body) 0 = .ok H := by
  rw [uN_ok 2 _ 0 (by simp [le_length])]
  simp only [List.drop_zero]
  rw [rd_le 2 H body (by omega)]

/-- dispatch of DecodeNumeric on a payload that starts with the header word `H` -/
theorem decodeNumeric_dispatch (H : Nat) (body : Bytes) (hH : H < 65536) :
    decodeNumeric (le 2 H ++ body) =
      if H / 0x4000 % 4 == 3 then .ok (.special (specialOf H))
      else if H / 0x8000 % 2 == 1 then decodeNumericShort (le 2 H ++ body) H
      else decodeNumericLong (le 2 H ++ body) := by
  obtain ⟨m1, m2, _, _⟩ := header_masks H
  unfold decodeNumeric
  have hl : ¬ (le 2 H ++ body).length < 2 := by simp [le_length]
  simp only [hl, if_false, uN2_head H body hH, ok_bind, m1, m2]
  split
  · rfl
  · split <;> rfl

theorem ofSigned7 (w : Int) (h1 : -64 ≤ w) (h2 : w ≤ 63) :
    ofSigned 7 w < 128 ∧ (0 ≤ w → (ofSigned 7 w : Int) = w) ∧ (w < 0 → (ofSigned 7 w : Int) = w + 128) := by
  unfold ofSigned
  simp only [show ((2 ^ 7 : Nat) : Int) = 128 by decide]
  omega

theorem toSigned16_ofSigned (w : Int) (h1 : -32768 ≤ w) (h2 : w ≤ 32767) :
    ofSigned 16 w < 65536 ∧ toSigned 16 (ofSigned 16 w) = w := by
  unfold toSigned ofSigned
  simp only [show ((2 ^ 16 : Nat) : Int) = 65536 by decide, show (2 : Nat) ^ (16 - 1) = 32768 by decide,
    show (2 : Nat) ^ 16 = 65536 by decide]
  constructor
  · omega
  · split <;> omega

/-- short form: the decoder recovers sign, weight and digits -/
theorem decodeNumeric_short (neg : Bool) (w : Int) (ds : Nat) (digits : List Nat)
    (hd : ∀ d ∈ digits, d < 10000) (h1 : -64 ≤ w) (h2 : w ≤ 63) (h3 : ds ≤ 63) :
    (decodeNumeric (le 2 (Spec.shortHeader neg w ds) ++ Spec.encDigits digits)).map NumRes.toView =
      .ok (some (Spec.Numeric.fin neg w ds digits).view) := by
  obtain ⟨u1, u2, u3⟩ := ofSigned7 w h1 h2
  have hH : Spec.shortHeader neg w ds < 65536 := by unfold Spec.shortHeader; split <;> omega
  rw [decodeNumeric_dispatch _ _ hH]
  have c1 : (Spec.shortHeader neg w ds / 0x4000 % 4 == 3) = false := by
    unfold Spec.shortHeader; simp; split <;> omega
  have c2 : (Spec.shortHeader neg w ds / 0x8000 % 2 == 1) = true := by
    unfold Spec.shortHeader; simp; split <;> omega
  simp only [c1, c2, Bool.false_eq_true, if_false, if_true]
  unfold decodeNumericShort
  have hf : shortHeaderFields (Spec.shortHeader neg w ds) = ⟨neg, w⟩ := by
    rw [(header_masks _).2.2.2]
    have e1 : (Spec.shortHeader neg w ds / 0x2000 % 2 == 1) = neg := by
      unfold Spec.shortHeader; cases neg <;> simp <;> omega
    rw [e1]
    congr 1
    by_cases hw : 0 ≤ w
    · have := u2 hw
      have e2 : (Spec.shortHeader neg w ds / 64 % 2 == 1) = false := by
        unfold Spec.shortHeader; simp; split <;> omega
      have e3 : ((Spec.shortHeader neg w ds % 64 : Nat) : Int) = w := by
        unfold Spec.shortHeader; split <;> omega
      simp only [e2, Bool.false_eq_true, if_false, e3]
    · have := u3 (by omega)
      have e2 : (Spec.shortHeader neg w ds / 64 % 2 == 1) = true := by
        unfold Spec.shortHeader; simp; split <;> omega
      have e3 : ((Spec.shortHeader neg w ds % 64 : Nat) : Int) - 64 = w := by
        unfold Spec.shortHeader; split <;> omega
      simp only [e2, if_true, e3]
  have hn : ((le 2 (Spec.shortHeader neg w ds) ++ Spec.encDigits digits).length - 2) / 2 = digits.length := by
    simp [le_length, encDigits_length]
  simp only [hf, hn]
  cases digits with
  | nil => rfl
  | cons d rest =>
    have hne : ((d :: rest).length == 0) = false := by simp
    simp only [hne, Bool.false_eq_true, if_false]
    rw [readDigits_enc (d :: rest) (le 2 _) 2 0 (by simp [le_length]) (fun x hx => by have := hd x hx; omega)]
    simp only [ok_bind, pure_eq_ok, Except.map]
    rw [computeNumeric_view (d :: rest) w neg hd (by simp)]
    simp [Spec.Numeric.view]

/-- long form -/
theorem decodeNumeric_long (neg : Bool) (w : Int) (ds : Nat) (digits : List Nat)
    (hd : ∀ d ∈ digits, d < 10000) (h1 : -32768 ≤ w) (h2 : w ≤ 32767) (h3 : ds < 16384) :
    (decodeNumeric (le 2 (Spec.longHeader neg ds) ++ le 2 (ofSigned 16 w) ++ Spec.encDigits digits)).map NumRes.toView =
      .ok (some (Spec.Numeric.fin neg w ds digits).view) := by
  obtain ⟨v1, v2⟩ := toSigned16_ofSigned w h1 h2
  have hH : Spec.longHeader neg ds < 65536 := by unfold Spec.longHeader; split <;> omega
  rw [List.append_assoc, decodeNumeric_dispatch _ _ hH]
  have c1 : (Spec.longHeader neg ds / 0x4000 % 4 == 3) = false := by
    unfold Spec.longHeader; simp; split <;> omega
  have c2 : (Spec.longHeader neg ds / 0x8000 % 2 == 1) = false := by
    unfold Spec.longHeader; simp; split <;> omega
  simp only [c1, c2, Bool.false_eq_true, if_false]
  unfold decodeNumericLong
  have hl : ¬ (le 2 (Spec.longHeader neg ds) ++ (le 2 (ofSigned 16 w) ++ Spec.encDigits digits)).length < 4 := by
    simp [le_length]; omega
  have hw : uN 2 (le 2 (Spec.longHeader neg ds) ++ (le 2 (ofSigned 16 w) ++ Spec.encDigits digits)) 2 = .ok (ofSigned 16 w) := by
    rw [uN_ok 2 _ 2 (by simp [le_length]; omega)]
    rw [List.drop_left' (by simp [le_length]), rd_le 2 _ _ (by omega)]
  have hneg : ((Spec.longHeader neg ds &&& 0xC000) == 0x4000) = neg := by
    rw [(header_masks _).2.2.1]
    unfold Spec.longHeader; cases neg <;> simp <;> omega
  have hn : ((le 2 (Spec.longHeader neg ds) ++ (le 2 (ofSigned 16 w) ++ Spec.encDigits digits)).length - 4) / 2 = digits.length := by
    simp [le_length, encDigits_length]; omega
  simp only [hl, if_false, hw, ok_bind, uN2_head _ _ hH, v2, hneg, hn]
  cases digits with
  | nil => rfl
  | cons d rest =>
    have hne : ((d :: rest).length == 0) = false := by simp
    simp only [hne, Bool.false_eq_true, if_false]
    have := readDigits_enc (d :: rest) (le 2 (Spec.longHeader neg ds) ++ le 2 (ofSigned 16 w)) 4 0
      (by simp [le_length]) (fun x hx => by have := hd x hx; omega)
    rw [List.append_assoc] at this
    rw [this]
    simp only [ok_bind, pure_eq_ok, Except.map]
    rw [computeNumeric_view (d :: rest) w neg hd (by simp)]
    simp [Spec.Numeric.view]

/-- every well-formed numeric, in each header form that admits it, decodes to its exact value -/
theorem decodeNumeric_enc (n : Spec.Numeric) (h : n.WF) (form : Spec.HeaderForm) (hf : form.admits n) :
    (decodeNumeric (Spec.encNumeric form n)).map NumRes.toView = .ok (some n.view) := by
  cases n with
  | nan => cases form <;> rfl
  | pinf => cases form <;> rfl
  | ninf => cases form <;> rfl
  | fin neg w ds digits =>
    obtain ⟨hd, h1, h2, h3⟩ := h
    cases form with
    | short =>
      obtain ⟨a, b, c⟩ := hf
      exact decodeNumeric_short neg w ds digits hd a b c
    | long => exact decodeNumeric_long neg w ds digits hd h1 h2 h3

theorem encNumeric_pos (form : Spec.HeaderForm) (n : Spec.Numeric) : 0 < (Spec.encNumeric form n).length := by
  cases n <;> cases form <;> simp [Spec.encNumeric, le_length] <;> omega

/-! ### the varlena wrapper inside JSONB -/

theorem decodeJNumeric_varlena4 (p : Bytes) (h1 : 0 < p.length) (h2 : p.length + 4 < 2 ^ 30) :
    decodeJNumeric (Spec.varlena4 p) = decodeNumeric p := by
  unfold decodeJNumeric Spec.varlena4
  have hl : ¬ (le 4 ((p.length + 4) * 4) ++ p).length < 4 := by simp [le_length]
  have hu : uN 4 (le 4 ((p.length + 4) * 4) ++ p) 0 = .ok ((p.length + 4) * 4) := by
    rw [uN_ok 4 _ 0 (by simp [le_length])]
    simp only [List.drop_zero]
    rw [rd_le 4 _ p (by omega)]
  simp only [hl, if_false, hu, ok_bind, land_3, Nat.shiftRight_eq_div_pow]
  have e0 : ((p.length + 4) * 4 % 4 == 0) = true := by simp
  have e1 : (p.length + 4) * 4 / 2 ^ 2 = p.length + 4 := by omega
  simp only [e0, if_true, e1]
  have hg : p.length + 4 > 4 ∧ (le 4 ((p.length + 4) * 4) ++ p).length ≥ p.length + 4 := by
    simp [le_length]; omega
  rw [if_pos hg, slice_ok _ 4 (p.length + 4) (by simp [le_length]; omega) (by omega)]
  simp only [ok_bind]
  congr 1
  rw [List.take_of_length_le (by simp [le_length]; omega), List.drop_left' (by simp [le_length])]

theorem decodeJNumeric_varlena1 (p : Bytes) (h1 : 3 ≤ p.length) (h2 : p.length + 1 ≤ 127) :
    decodeJNumeric (Spec.varlena1 p) = decodeNumeric p := by
  unfold decodeJNumeric Spec.varlena1
  have hl : ¬ (UInt8.ofNat ((p.length + 1) * 2 + 1) :: p).length < 4 := by simp; omega
  have hb : (UInt8.ofNat ((p.length + 1) * 2 + 1)).toNat = (p.length + 1) * 2 + 1 := by
    simp [UInt8.toNat_ofNat']; omega
  obtain ⟨a, b, c, rest, hp⟩ : ∃ a b c rest, p = a :: b :: c :: rest := by
    match p, h1 with
    | a :: b :: c :: rest, _ => exact ⟨a, b, c, rest, rfl⟩
  have hu : ∃ hi, uN 4 (UInt8.ofNat ((p.length + 1) * 2 + 1) :: p) 0 = .ok (((p.length + 1) * 2 + 1) + 256 * hi) := by
    rw [uN_ok 4 _ 0 (by simp; omega)]
    simp only [List.drop_zero]
    subst hp
    refine ⟨a.toNat + 256 * (b.toNat + 256 * (c.toNat + 256 * 0)), ?_⟩
    simp only [rd, hb]
  obtain ⟨hi, hu⟩ := hu
  simp only [hl, if_false, hu, ok_bind, land_3, land_FF, Nat.shiftRight_eq_div_pow]
  have e0 : (((p.length + 1) * 2 + 1 + 256 * hi) % 4 == 0) = false := by simp; omega
  have e1 : ((p.length + 1) * 2 + 1 + 256 * hi) % 256 / 2 ^ 1 = p.length + 1 := by omega
  simp only [e0, Bool.false_eq_true, if_false, e1]
  have hg : p.length + 1 > 1 ∧ (UInt8.ofNat ((p.length + 1) * 2 + 1) :: p).length ≥ p.length + 1 := by
    simp; omega
  rw [if_pos hg, slice_ok _ 1 (p.length + 1) (by simp) (by omega)]
  simp only [ok_bind]
  congr 1
  rw [List.take_of_length_le (by simp)]
  rfl

end PgVerif.Proofs
