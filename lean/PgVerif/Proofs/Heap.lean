/-
  Helper lemmas about the heap model (page.go / tuple.go / heap.go).
-/
import PgVerif.Model.Heap
import PgVerif.Spec.Heap
import PgVerif.Proofs.HeapGuard
namespace PgVerif.Proofs
open PgVerif PgVerif.Model

/-- the header flags computed by ParseHeapTuple are functions of the infomask alone -/
def HeaderConsistent (h : TupleHeader) : Prop :=
  h.xminCommitted = h.infomask.testBit 8 ∧ h.xmaxCommitted = h.infomask.testBit 10 ∧
  h.xmaxInvalid = h.infomask.testBit 11 ∧ h.hasNull = h.infomask.testBit 0

theorem mask8 (m : Nat) : (m &&& 0x0100 != 0) = m.testBit 8 := by
  have := land_pow_ne_zero m 8; simpa using this
theorem mask10 (m : Nat) : (m &&& 0x0400 != 0) = m.testBit 10 := by
  have := land_pow_ne_zero m 10; simpa using this
theorem mask11 (m : Nat) : (m &&& 0x0800 != 0) = m.testBit 11 := by
  have := land_pow_ne_zero m 11; simpa using this
theorem mask0 (m : Nat) : (m &&& 0x0001 != 0) = m.testBit 0 := by
  have := land_pow_ne_zero m 0; simpa using this

theorem parseHeapTuple_consistent (d : Bytes) (t : HeapTuple)
    (h : parseHeapTuple d = .ok (some t)) : HeaderConsistent t.header := by
  unfold parseHeapTuple at h
  by_cases hl : d.length < 23
  · simp [hl] at h
  · simp (disch := omega) only [hl, if_false, uN_ok, idx_ok, ok_bind, pure_eq_ok] at h
    split at h
    · simp at h
    · simp (disch := omega) only [sliceFrom_ok, ok_bind] at h
      split at h
      · split at h
        · simp (disch := omega) only [slice_ok, ok_bind] at h
          injection h with h; injection h with h; subst h
          exact ⟨mask8 _, mask10 _, mask11 _, mask0 _⟩
        · injection h with h; injection h with h; subst h
          exact ⟨mask8 _, mask10 _, mask11 _, mask0 _⟩
      · injection h with h; injection h with h; subst h
        exact ⟨mask8 _, mask10 _, mask11 _, mask0 _⟩

theorem collectM_ok {α β} (f : α → M (Option β)) (xs : List α) (ys : List β)
    (h : collectM f xs = .ok ys) : ∀ y ∈ ys, ∃ x ∈ xs, f x = .ok (some y) := by
  induction xs generalizing ys with
  | nil => simp [collectM] at h; subst h; simp
  | cons x xs ih =>
    simp only [collectM] at h
    cases hx : f x with
    | error e => simp [hx] at h
    | ok r =>
      simp only [hx, ok_bind] at h
      cases hr : collectM f xs with
      | error e => simp [hr] at h
      | ok rest =>
        simp only [hr, ok_bind, pure_eq_ok] at h
        injection h with h
        intro y hy
        cases r with
        | none =>
          simp at h; subst h
          obtain ⟨x', hx', hf⟩ := ih rest hr y hy
          exact ⟨x', by simp [hx'], hf⟩
        | some y0 =>
          simp at h; subst h
          cases List.mem_cons.mp hy with
          | inl e => subst e; exact ⟨x, by simp, hx⟩
          | inr m =>
            obtain ⟨x', hx', hf⟩ := ih rest hr y m
            exact ⟨x', by simp [hx'], hf⟩

/-- every tuple ParsePage returns came out of ParseHeapTuple -/
theorem parsePage_from_parseHeapTuple (pg : Bytes) (ts : List HeapTuple) (h : parsePage pg = .ok ts) :
    ∀ t ∈ ts, ∃ d, parseHeapTuple d = .ok (some t) := by
  unfold parsePage at h
  by_cases hl : pg.length < 8192
  · simp [hl] at h; subst h; simp
  · simp only [hl, if_false] at h
    cases hh : parseHeader pg with
    | error e => simp [hh] at h
    | ok hd =>
      simp only [hh, ok_bind] at h
      by_cases hv : validHeader hd
      · simp only [hv, Bool.not_true, Bool.false_eq_true, if_false] at h
        cases hi : parseItems pg hd.lower with
        | error e => simp [hi] at h
        | ok items =>
          simp only [hi, ok_bind] at h
          intro t ht
          obtain ⟨it, _, hf⟩ := pageLoop_ok _ _ _ _ _ h t ht
          unfold pageItem at hf
          split at hf
          · simp at hf
          · split at hf
            · simp at hf
            · cases hs : slice pg it.offset (it.offset + it.length) with
              | error e => simp [hs] at hf
              | ok s => simp only [hs, ok_bind] at hf; exact ⟨s, hf⟩
      · simp [hv] at h; subst h; simp

theorem readTuplesFrom_consistent (data : Bytes) (vis : Bool) (n off : Nat) (es : List TupleEntry)
    (h : readTuplesFrom data vis n off = .ok es) : ∀ e ∈ es, HeaderConsistent e.tuple.header := by
  induction n generalizing off es with
  | zero => simp [readTuplesFrom] at h; subst h; simp
  | succ n ih =>
    simp only [readTuplesFrom] at h
    split at h
    · cases hs : slice data off (off + 8192) with
      | error e => simp [hs] at h
      | ok pg =>
        simp only [hs, ok_bind] at h
        cases hp : parsePage pg with
        | error e => simp [hp] at h
        | ok ts =>
          simp only [hp, ok_bind] at h
          cases hr : readTuplesFrom data vis n (off + 8192) with
          | error e => simp [hr] at h
          | ok rest =>
            simp only [hr, ok_bind, pure_eq_ok] at h
            injection h with h; subst h
            intro e he
            rcases List.mem_append.mp he with he | he
            · simp only [List.mem_map, List.mem_filter] at he
              obtain ⟨t, ⟨ht, _⟩, rfl⟩ := he
              obtain ⟨d, hd⟩ := parsePage_from_parseHeapTuple pg ts hp t ht
              exact parseHeapTuple_consistent d t hd
            · exact ih _ _ hr e he
    · simp at h; subst h; simp

/-- the visible-only scan is the full scan filtered by the tuple's own visibility predicate -/
theorem readTuplesFrom_filter (data : Bytes) (n off : Nat) :
    readTuplesFrom data true n off =
      (readTuplesFrom data false n off).map (fun es => es.filter fun e => e.tuple.isVisible) := by
  induction n generalizing off with
  | zero => simp [readTuplesFrom, Except.map]
  | succ n ih =>
    simp only [readTuplesFrom]
    split
    · cases hs : slice data off (off + 8192) with
      | error e => simp [Except.map, bind, Except.bind]
      | ok pg =>
        simp only [ok_bind]
        cases hp : parsePage pg with
        | error e => simp [Except.map, bind, Except.bind]
        | ok ts =>
          simp only [ok_bind]
          rw [ih]
          cases hr : readTuplesFrom data false n (off + 8192) with
          | error e => simp [Except.map, bind, Except.bind]
          | ok rest =>
            simp [Except.map, List.filter_map, Function.comp_def]
    · simp [Except.map]

end PgVerif.Proofs
