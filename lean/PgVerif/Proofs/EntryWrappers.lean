/-
  Totality of the path-taking wrappers of relmap.go and sequence.go (models in Model/Relmap.lean, Model/Sequence.lean):
  helper lemmas and proofs for Props/C10/Entry.lean.  The file system, and for the sequence functions the two catalog
  parsers, are parameters of the models; nothing is assumed about them.
-/
import PgVerif.Proofs.ControlTotal
namespace PgVerif.Proofs.Entry
open PgVerif PgVerif.Proofs

/-! ## relmap.go: the file-reading wrappers -/

/-- ReadGlobalRelMap returns (a map, or the error) for every file system and data directory: the file may be
missing, empty, truncated or arbitrary bytes. -/
theorem readGlobalRelMap_total (fs : String → Option Bytes) (dir : String) :
    ∃ r, Model.readGlobalRelMap fs dir = .ok r := by
  unfold Model.readGlobalRelMap
  simp only []
  cases fs (dir ++ "/global/pg_filenode.map") with
  | none => exact ⟨none, rfl⟩
  | some data =>
    obtain ⟨r, hr⟩ := parseRelMapFile_total data
    simp only [hr, ok_bind]
    cases r <;> exact ⟨_, rfl⟩

/-- ReadDatabaseRelMap returns for every file system, data directory and database oid. -/
theorem readDatabaseRelMap_total (fs : String → Option Bytes) (dir : String) (db : Nat) :
    ∃ r, Model.readDatabaseRelMap fs dir db = .ok r := by
  unfold Model.readDatabaseRelMap
  simp only []
  cases fs (dir ++ "/base/" ++ toString db ++ "/pg_filenode.map") with
  | none => exact ⟨none, rfl⟩
  | some data =>
    obtain ⟨r, hr⟩ := parseRelMapFile_total data
    simp only [hr, ok_bind]
    cases r <;> exact ⟨_, rfl⟩

/-- the per-database loop of ReadAllRelMaps -/
theorem readAllRelMaps_go_total (fs : String → Option Bytes) (dir : String) (oids : List Nat) :
    ∃ r, Model.readAllRelMaps.go fs dir oids = .ok r := by
  induction oids with
  | nil => exact ⟨[], rfl⟩
  | cons oid rest ih =>
    obtain ⟨rest', hrest⟩ := ih
    obtain ⟨r, hr⟩ := readDatabaseRelMap_total fs dir oid
    unfold Model.readAllRelMaps.go
    simp only [hr, ok_bind]
    cases r with
    | none => exact ⟨_, hrest⟩
    | some rm => simp only [hrest, ok_bind]; exact ⟨_, rfl⟩

/-- ReadAllRelMaps returns for every file system and whatever ParsePGDatabase makes of global/1262 (any list of
database oids: duplicates, zero, oids without a directory). -/
theorem readAllRelMaps_total (fs : String → Option Bytes) (parseDatabase : Bytes → List Nat) (dir : String) :
    ∃ r, Model.readAllRelMaps fs parseDatabase dir = .ok r := by
  unfold Model.readAllRelMaps
  obtain ⟨g, hg⟩ := readGlobalRelMap_total fs dir
  simp only [hg, ok_bind]
  cases g with
  | none => exact ⟨none, rfl⟩
  | some g =>
    simp only []
    cases fs (dir ++ "/global/1262") with
    | none => exact ⟨_, rfl⟩
    | some dbData =>
      obtain ⟨l, hl⟩ := readAllRelMaps_go_total fs dir (parseDatabase dbData)
      simp only [hl, ok_bind]
      exact ⟨_, rfl⟩

/-! ## sequence.go: the cluster-level functions -/

/-- the relation loop of FindSequences -/
theorem findSeqLoop_total (env : Model.SeqEnv) (base : String) (cls : List Model.ClassInfo) :
    ∃ r, Model.findSeqLoop env base cls = .ok r := by
  induction cls with
  | nil => exact ⟨[], rfl⟩
  | cons info rest ih =>
    obtain ⟨r, hr⟩ := ih
    unfold Model.findSeqLoop
    by_cases hk : (info.kind != [83]) = true
    · rw [if_pos hk]; exact ⟨r, hr⟩
    · rw [if_neg hk]
      cases env.fs (base ++ "/" ++ toString info.filenode) with
      | none => exact ⟨r, hr⟩
      | some d =>
        obtain ⟨s, hs⟩ := parseSequenceFile_total d
        simp only [hs, ok_bind]
        cases s with
        | none => exact ⟨r, hr⟩
        | some seq => simp only [hr, ok_bind]; exact ⟨_, rfl⟩

/-- FindSequences returns (a list, or the error) for every file system, every result of the two catalog parsers
(any database list, any relation list: duplicates, zero oids, sequences without a file) and every database name. -/
theorem findSequences_total (env : Model.SeqEnv) (dir : String) (db : Bytes) :
    ∃ r, Model.findSequences env dir db = .ok r := by
  have body : ∀ oid : Nat, ∃ r,
      (if oid = 0 then (pure none : M (Option (List Model.SequenceData)))
       else match env.fs (dir ++ "/base/" ++ toString oid ++ "/1259") with
        | none => pure none
        | some classData => do
          let l ← Model.findSeqLoop env (dir ++ "/base/" ++ toString oid) (Model.seqVisitOrder env (env.parseClass classData))
          pure (some l)) = .ok r := by
    intro oid
    by_cases h0 : oid = 0
    · rw [if_pos h0]; exact ⟨none, rfl⟩
    · rw [if_neg h0]
      cases env.fs (dir ++ "/base/" ++ toString oid ++ "/1259") with
      | none => exact ⟨none, rfl⟩
      | some cd =>
        obtain ⟨l, hl⟩ := findSeqLoop_total env (dir ++ "/base/" ++ toString oid) (Model.seqVisitOrder env (env.parseClass cd))
        simp only [hl, ok_bind]
        exact ⟨_, rfl⟩
  unfold Model.findSequences
  cases env.fs (dir ++ "/global/1262") with
  | none => exact ⟨none, rfl⟩
  | some dbData => exact body _

/-- the database loop of ScanAllSequences -/
theorem scanLoop_total (env : Model.SeqEnv) (dir : String) (dbs : List Model.DbInfo) :
    ∃ r, Model.scanLoop env dir dbs = .ok r := by
  induction dbs with
  | nil => exact ⟨[], rfl⟩
  | cons d rest ih =>
    obtain ⟨r, hr⟩ := ih
    unfold Model.scanLoop
    split
    · exact ⟨r, hr⟩
    · obtain ⟨f, hf⟩ := findSequences_total env dir d.name
      simp only [hf, ok_bind]
      cases f with
      | none => exact ⟨r, hr⟩
      | some seqs => simp only [hr, ok_bind]; exact ⟨_, rfl⟩

/-- ScanAllSequences returns for every file system and every result of the catalog parsers. -/
theorem scanAllSequences_total (env : Model.SeqEnv) (dir : String) :
    ∃ r, Model.scanAllSequences env dir = .ok r := by
  unfold Model.scanAllSequences
  cases env.fs (dir ++ "/global/1262") with
  | none => exact ⟨none, rfl⟩
  | some dbData =>
    obtain ⟨l, hl⟩ := scanLoop_total env dir (env.parseDatabase dbData)
    simp only [hl, ok_bind]
    exact ⟨_, rfl⟩

end PgVerif.Proofs.Entry
