/-
  Helper lemmas about the JSONB model (jsonb.go:22-154): JEntry bit fields, the offset arithmetic of
  endOffset / entryOffLen (for ANY placement of HAS_OFF flags), totality of the parser.
-/
import PgVerif.Proofs.Numeric
namespace PgVerif.Proofs
open PgVerif PgVerif.Model

/-! ### JEntry bit fields -/

theorem land_0FFFFFFF (x : Nat) : x &&& 0x0FFFFFFF = x % 0x10000000 := by
  have := land_mask x 28; simpa using this
theorem land_80000000 (x : Nat) : x &&& 0x80000000 = (x / 0x80000000 % 2) * 0x80000000 := by
  have := land_field x 1 31; simpa using this
theorem land_70000000 (x : Nat) : x &&& 0x70000000 = (x / 0x10000000 % 8) * 0x10000000 := by
  have := land_field x 3 28; simpa using this

theorem jeOffLen_eq (je : Nat) : jeOffLen je = je % 0x10000000 := land_0FFFFFFF je

theorem jeHasOff_eq (je : Nat) : jeHasOff je = (je / 0x80000000 % 2 == 1) := by
  have h : jeHasOff je = (je / 0x80000000 % 2 * 0x80000000 != 0) := congrArg (· != 0) (land_80000000 je)
  rw [h]
  have : je / 0x80000000 % 2 < 2 := Nat.mod_lt _ (by decide)
  rcases Nat.lt_or_ge (je / 0x80000000 % 2) 1 with h3 | h3
  · have e : je / 0x80000000 % 2 = 0 := by omega
    rw [e]; rfl
  · have e : je / 0x80000000 % 2 = 1 := by omega
    rw [e]; rfl

theorem mk_mod (ty v : Nat) (f : Bool) (hv : v < 0x10000000) : (Spec.mkEntry ty f v) % 0x10000000 = v := by
  unfold Spec.mkEntry
  cases f
  · simp only [Bool.false_eq_true, if_false]; omega
  · simp only [if_true]; omega

theorem mk_hi (ty v : Nat) (f : Bool) (hv : v < 0x10000000) (ht : ty < 8) :
    (Spec.mkEntry ty f v / 0x80000000 % 2 == 1) = f := by
  unfold Spec.mkEntry
  cases f
  · have e : (ty * 0x10000000 + v + (if false = true then 0x80000000 else 0)) / 0x80000000 % 2 = 0 := by
      simp only [Bool.false_eq_true, if_false]; omega
    rw [e]; rfl
  · have e : (ty * 0x10000000 + v + (if true = true then 0x80000000 else 0)) / 0x80000000 % 2 = 1 := by
      simp only [if_true]; omega
    rw [e]; rfl

theorem mk_ty (ty v : Nat) (f : Bool) (hv : v < 0x10000000) (ht : ty < 8) :
    Spec.mkEntry ty f v / 0x10000000 % 8 = ty := by
  unfold Spec.mkEntry
  cases f
  · simp only [Bool.false_eq_true, if_false]; omega
  · simp only [if_true]; omega

theorem jeOffLen_mk (ty v : Nat) (f : Bool) (hv : v < 0x10000000) : jeOffLen (Spec.mkEntry ty f v) = v :=
  (jeOffLen_eq _).trans (mk_mod ty v f hv)

theorem jeHasOff_mk (ty v : Nat) (f : Bool) (hv : v < 0x10000000) (ht : ty < 8) : jeHasOff (Spec.mkEntry ty f v) = f :=
  (jeHasOff_eq _).trans (mk_hi ty v f hv ht)

theorem jeType_mk (ty v : Nat) (f : Bool) (hv : v < 0x10000000) (ht : ty < 8) :
    Spec.mkEntry ty f v &&& 0x70000000 = ty * 0x10000000 :=
  (land_70000000 _).trans (congrArg (· * 0x10000000) (mk_ty ty v f hv ht))

/-! ### offsets: endOffset's backward scan + forward sum is the prefix sum, whatever the flag pattern -/

/-- sum of the first `n` lengths -/
def pre (lens : List Nat) (n : Nat) : Nat := (lens.take n).sum

/-- a JEntry array for children of lengths `lens` and types `tys`, with HAS_OFF (and then the end
offset instead of the length) wherever `flags` says so -/
def encE (lens tys : List Nat) (flags : Nat → Bool) : List Nat :=
  (List.range lens.length).map fun i =>
    if flags i then Spec.mkEntry (tys.getD i 0) true (pre lens (i+1)) else Spec.mkEntry (tys.getD i 0) false (lens.getD i 0)

theorem pre_succ (lens : List Nat) (i : Nat) (h : i < lens.length) :
    pre lens (i+1) = pre lens i + lens.getD i 0 := by
  unfold pre
  rw [List.take_add_one, List.getElem?_eq_getElem h]
  simp only [Option.toList, List.sum_append, List.sum_cons, List.sum_nil, List.getD, Option.getD, Nat.add_zero,
    List.getElem?_eq_getElem h]

theorem take_sum_le (lens : List Nat) (i : Nat) : (lens.take i).sum ≤ lens.sum := by
  induction lens generalizing i with
  | nil => simp
  | cons x xs ih =>
    cases i with
    | zero => simp
    | succ i => simp only [List.take_succ_cons, List.sum_cons]; have := ih i; omega

theorem pre_le_total (lens : List Nat) (i : Nat) : pre lens i ≤ pre lens lens.length := by
  unfold pre
  rw [List.take_length]
  exact take_sum_le lens i

theorem len_le_total (lens : List Nat) (i : Nat) (h : i < lens.length) : lens.getD i 0 ≤ pre lens lens.length := by
  have := pre_succ lens i h
  have := pre_le_total lens (i+1)
  omega

theorem getD_encE (lens tys : List Nat) (flags : Nat → Bool) (i : Nat) (h : i < lens.length) :
    (encE lens tys flags).getD i 0 =
      if flags i then Spec.mkEntry (tys.getD i 0) true (pre lens (i+1)) else Spec.mkEntry (tys.getD i 0) false (lens.getD i 0) := by
  simp [encE, List.getD, h]

theorem encE_length (lens tys : List Nat) (flags : Nat → Bool) : (encE lens tys flags).length = lens.length := by
  simp [encE]

section
variable (lens tys : List Nat) (flags : Nat → Bool)
variable (hsmall : pre lens lens.length < 0x10000000) (hty : ∀ i, tys.getD i 0 < 8)
include hsmall hty

omit hty in
theorem offLen_encE (i : Nat) (h : i < lens.length) :
    jeOffLen ((encE lens tys flags).getD i 0) = if flags i then pre lens (i+1) else lens.getD i 0 := by
  rw [getD_encE lens tys flags i h]
  have h1 := pre_le_total lens (i+1)
  have h2 := len_le_total lens i h
  cases flags i
  · simp only [Bool.false_eq_true, if_false]; exact jeOffLen_mk _ _ _ (by omega)
  · simp only [if_true]; exact jeOffLen_mk _ _ _ (by omega)

theorem hasOff_encE (i : Nat) (h : i < lens.length) :
    jeHasOff ((encE lens tys flags).getD i 0) = flags i := by
  rw [getD_encE lens tys flags i h]
  have h1 := pre_le_total lens (i+1)
  have h2 := len_le_total lens i h
  cases flags i
  · simp only [Bool.false_eq_true, if_false]; exact jeHasOff_mk _ _ _ (by omega) (hty i)
  · simp only [if_true]; exact jeHasOff_mk _ _ _ (by omega) (hty i)

omit hty in
/-- forward sum over a run of unflagged entries is the difference of prefix sums -/
theorem sumFrom_unflagged (a n : Nat)
    (hb : a + n ≤ lens.length) (hu : ∀ j, a ≤ j → j < a + n → flags j = false) :
    sumFrom (encE lens tys flags) a n + pre lens a = pre lens (a + n) := by
  induction n generalizing a with
  | zero => simp [sumFrom]
  | succ n ih =>
    have ha : a < lens.length := by omega
    have := ih (a+1) (by omega) (fun j h1 h2 => hu j (by omega) (by omega))
    simp only [sumFrom, offLen_encE lens tys flags hsmall a ha, hu a (Nat.le_refl a) (by omega)]
    rw [pre_succ lens a ha] at this
    simp at this ⊢
    rw [show a + (n + 1) = a + 1 + n by omega]
    omega

theorem scan_spec (idx : Nat) (hidx : idx < lens.length)
    (k : Nat) (hk : k ≤ idx + 1) (hu : ∀ j, k ≤ j → j ≤ idx → flags j = false) :
    (match scan (encE lens tys flags) idx k with
     | some v => v
     | none => sumFrom (encE lens tys flags) 0 (idx+1)) = pre lens (idx+1) := by
  induction k with
  | zero =>
    simp only [scan]
    have := sumFrom_unflagged lens tys flags hsmall 0 (idx+1) (by omega) (fun j _ h2 => hu j (by omega) (by omega))
    simpa [pre] using this
  | succ k ih =>
    have hkl : k < lens.length := by omega
    simp only [scan, hasOff_encE lens tys flags hsmall hty k hkl, offLen_encE lens tys flags hsmall k hkl]
    cases hf : flags k with
    | true =>
      simp only [if_true]
      have := sumFrom_unflagged lens tys flags hsmall (k+1) (idx - k) (by omega)
        (fun j h1 h2 => hu j (by omega) (by omega))
      rw [show k + 1 + (idx - k) = idx + 1 by omega] at this
      show pre lens (k + 1) + sumFrom (encE lens tys flags) (k + 1) (idx - k) = pre lens (idx + 1)
      omega
    | false =>
      simp only [Bool.false_eq_true, if_false]
      exact ih (by omega) (fun j h1 h2 => by
        by_cases hj : j = k
        · subst hj; exact hf
        · exact hu j (by omega) h2)

theorem endOffset_encE (idx : Nat) (hidx : idx < lens.length) :
    endOffset (encE lens tys flags) idx = pre lens (idx+1) := by
  unfold endOffset
  exact scan_spec lens tys flags hsmall hty idx hidx (idx+1) (Nat.le_refl _) (fun j h1 h2 => by omega)

theorem entryOffLenPure_encE (idx base : Nat) (hidx : idx < lens.length) :
    entryOffLenPure (encE lens tys flags) idx base = (base + pre lens idx, (lens.getD idx 0 : Int)) := by
  unfold entryOffLenPure
  have hstart : (if idx > 0 then endOffset (encE lens tys flags) (idx-1) else 0) = pre lens idx := by
    by_cases h0 : idx > 0
    · rw [if_pos h0, endOffset_encE lens tys flags hsmall hty (idx-1) (by omega), show idx - 1 + 1 = idx by omega]
    · have : idx = 0 := by omega
      subst this; simp [pre]
  simp only [hstart, hasOff_encE lens tys flags hsmall hty idx hidx, offLen_encE lens tys flags hsmall idx hidx]
  cases flags idx with
  | true => simp [pre_succ lens idx hidx]; omega
  | false => simp

end

/-! ### totality: no index, no slice expression of the parser can fail, whatever the bytes -/

theorem align4_ge (off : Nat) : off ≤ align4 off := by
  unfold align4
  have := andNot_mask (off + 3) 2
  simp only [show (2 : Nat) ^ 2 - 1 = 3 from rfl, show (2 : Nat) ^ 2 = 4 from rfl] at this
  rw [this]; omega

theorem readEntries_total (data : Bytes) (n i : Nat) (h : 4 + (i + n) * 4 ≤ data.length) :
    ∃ es, readEntries data n i = .ok es ∧ es.length = n := by
  induction n generalizing i with
  | zero => exact ⟨[], rfl, rfl⟩
  | succ n ih =>
    obtain ⟨es, hes, hl⟩ := ih (i + 1) (by omega)
    refine ⟨rd 4 (data.drop (4 + i * 4)) :: es, ?_, by simp [hl]⟩
    unfold readEntries
    rw [uN_ok 4 data (4 + i * 4) (by omega)]
    simp only [ok_bind, hes, pure_eq_ok]

theorem entryOffLen_ok (es : List Nat) (idx base : Nat) (h : idx < es.length) :
    entryOffLen es idx base = .ok (entryOffLenPure es idx base) := by
  unfold entryOffLen; rw [if_pos h]; rfl

/-- decodeJEntry cannot fault, provided the recursive parser cannot fault on any strictly shorter slice;
`off > 0` holds at every call (`off ≥ dataStart ≥ 8`) and makes every child slice strictly shorter -/
theorem decodeJEntry_total (rec : Bytes → M JV) (data : Bytes) (off : Nat) (length : Int) (je : Nat)
    (hoff : 0 < off) (hrec : ∀ d : Bytes, d.length < data.length → ∃ r, rec d = .ok r) :
    ∃ r, decodeJEntry rec data off length je = .ok r := by
  have hal := align4_ge off
  unfold decodeJEntry
  simp only [pure_eq_ok]
  split
  · split
    · rename_i hg
      rw [slice_ok data off (off + length.toNat) hg.2 (by omega)]
      exact ⟨_, rfl⟩
    · exact ⟨_, rfl⟩
  · split
    · split
      · rename_i hg
        have h1 : align4 off - off < length.toNat := by have := hg.1; omega
        rw [slice_ok data (align4 off) (align4 off + length.toNat - (align4 off - off)) hg.2 (by omega)]
        simp only [ok_bind]
        obtain ⟨r, hr⟩ := decodeJNumeric_total
          (List.drop (align4 off) (List.take (align4 off + length.toNat - (align4 off - off)) data))
        rw [hr]; exact ⟨_, rfl⟩
      · exact ⟨_, rfl⟩
    · split
      · split
        · rename_i hg
          have h1 : align4 off - off < length.toNat := by have := hg.1; omega
          rw [slice_ok data (align4 off) (align4 off + length.toNat - (align4 off - off)) hg.2 (by omega)]
          simp only [ok_bind]
          apply hrec
          simp only [List.length_drop, List.length_take]
          have := hg.2
          omega
        · exact ⟨_, rfl⟩
      · split
        · exact ⟨_, rfl⟩
        · split
          · exact ⟨_, rfl⟩
          · split <;> exact ⟨_, rfl⟩

theorem getEntry_ok (entries : List Nat) (i : Nat) (h : i < entries.length) :
    getEntry entries i = .ok entries[i] := by
  unfold getEntry; rw [List.getElem?_eq_getElem h]; rfl

theorem parseArrayLoop_total (rec : Bytes → M JV) (data : Bytes) (entries : List Nat) (dataStart : Nat)
    (hds : 0 < dataStart) (hrec : ∀ d : Bytes, d.length < data.length → ∃ r, rec d = .ok r)
    (n i : Nat) (h : i + n ≤ entries.length) :
    ∃ xs, parseArrayLoop rec data entries dataStart n i = .ok xs := by
  induction n generalizing i with
  | zero => exact ⟨[], rfl⟩
  | succ n ih =>
    obtain ⟨rest, hrest⟩ := ih (i + 1) (by omega)
    unfold parseArrayLoop
    rw [entryOffLen_ok entries i 0 (by omega)]
    simp only [ok_bind]
    rw [getEntry_ok entries i (by omega)]
    simp only [ok_bind]
    obtain ⟨v, hv⟩ := decodeJEntry_total rec data (dataStart + (entryOffLenPure entries i 0).1)
      (entryOffLenPure entries i 0).2 entries[i] (by omega) hrec
    rw [hv]
    simp only [ok_bind, hrest, pure_eq_ok]
    exact ⟨_, rfl⟩

theorem parseObjectLoop_total (rec : Bytes → M JV) (data : Bytes) (entries : List Nat) (dataStart count : Nat)
    (hds : 0 < dataStart) (hrec : ∀ d : Bytes, d.length < data.length → ∃ r, rec d = .ok r)
    (n i : Nat) (h : count + i + n ≤ entries.length) :
    ∃ kvs, parseObjectLoop rec data entries dataStart count n i = .ok kvs := by
  induction n generalizing i with
  | zero => exact ⟨[], rfl⟩
  | succ n ih =>
    obtain ⟨rest, hrest⟩ := ih (i + 1) (by omega)
    unfold parseObjectLoop
    rw [entryOffLen_ok entries i 0 (by omega)]
    simp only [ok_bind]
    have hkey : ∃ key, (if (entryOffLenPure entries i 0).2 ≥ 0 ∧
          dataStart + (entryOffLenPure entries i 0).1 + (entryOffLenPure entries i 0).2.toNat ≤ data.length then
        slice data (dataStart + (entryOffLenPure entries i 0).1)
          (dataStart + (entryOffLenPure entries i 0).1 + (entryOffLenPure entries i 0).2.toNat)
        else pure [] : M Bytes) = .ok key := by
      split
      · rename_i hg
        rw [slice_ok _ _ _ hg.2 (by omega)]; exact ⟨_, rfl⟩
      · exact ⟨_, rfl⟩
    obtain ⟨key, hkey⟩ := hkey
    rw [hkey]
    simp only [ok_bind]
    rw [entryOffLen_ok entries (count + i) 0 (by omega)]
    simp only [ok_bind]
    rw [getEntry_ok entries (count + i) (by omega)]
    simp only [ok_bind]
    obtain ⟨v, hv⟩ := decodeJEntry_total rec data (dataStart + (entryOffLenPure entries (count + i) 0).1)
      (entryOffLenPure entries (count + i) 0).2 entries[count + i] (by omega) hrec
    rw [hv]
    simp only [ok_bind, hrest, pure_eq_ok]
    exact ⟨_, rfl⟩

/-- the body of ParseJSONB cannot fault if the recursive call cannot fault on strictly shorter input -/
theorem parseContainer_total (rec : Bytes → M JV) (data : Bytes)
    (hrec : ∀ d : Bytes, d.length < data.length → ∃ r, rec d = .ok r) :
    ∃ r, parseContainer rec data = .ok r := by
  unfold parseContainer
  by_cases hl : data.length < 4
  · simp [hl]
  · simp (disch := omega) only [hl, if_false, uN_ok, ok_bind, pure_eq_ok]
    generalize rd 4 (List.drop 0 data) = header
    generalize hcnt : header &&& 0x0FFFFFFF = count
    by_cases hbad : ((!header &&& 0x20000000 != 0 && !header &&& 0x40000000 != 0) || decide (count > 10000)) = true
    · rw [if_pos hbad]; exact ⟨_, rfl⟩
    · rw [if_neg hbad]
      by_cases hc0 : (count == 0) = true
      · rw [if_pos hc0]; exact ⟨_, rfl⟩
      · rw [if_neg hc0]
        have hc : count ≠ 0 := by simpa using hc0
        by_cases hobj : (header &&& 0x20000000 != 0) = true
        · simp only [hobj, if_true]
          split
          · exact ⟨_, rfl⟩
          · rename_i hsz
            obtain ⟨es, hes, hesl⟩ := readEntries_total data (count * 2) 0 (by omega)
            rw [hes]
            simp only [ok_bind]
            split
            · exact ⟨_, rfl⟩
            · obtain ⟨kvs, hk⟩ := parseObjectLoop_total rec data es
                (4 + count * 2 * 4) count (by omega) hrec count 0 (by omega)
              rw [hk]; exact ⟨_, rfl⟩
        · simp only [hobj, Bool.false_eq_true, if_false]
          split
          · exact ⟨_, rfl⟩
          · rename_i hsz
            obtain ⟨es, hes, hesl⟩ := readEntries_total data count 0 (by omega)
            rw [hes]
            simp only [ok_bind]
            split
            · exact ⟨_, rfl⟩
            · obtain ⟨xs, hx⟩ := parseArrayLoop_total rec data es
                (4 + count * 4) (by omega) hrec count 0 (by omega)
              rw [hx]
              simp only [ok_bind]
              split
              · split <;> exact ⟨_, rfl⟩
              · exact ⟨_, rfl⟩

/-- with fuel above the length of the input, ParseJSONB returns (never a fault, never out of fuel) -/
theorem parseJSONBFuel_total (fuel : Nat) : ∀ data : Bytes, data.length < fuel →
    ∃ r, parseJSONBFuel fuel data = .ok r := by
  induction fuel with
  | zero => intro data h; omega
  | succ fuel ih =>
    intro data hlen
    exact parseContainer_total (parseJSONBFuel fuel) data (fun d hd => ih d (by omega))

/-! ### the result does not depend on surplus fuel -/

theorem bind_congr' {α β} (x : M α) (f g : α → M β) (h : ∀ a, f a = g a) : (x >>= f) = (x >>= g) := by
  have : f = g := funext h
  rw [this]

theorem decodeJEntry_congr (rec1 rec2 : Bytes → M JV) (data : Bytes) (off : Nat) (length : Int) (je : Nat)
    (hoff : 0 < off) (h : ∀ d : Bytes, d.length < data.length → rec1 d = rec2 d) :
    decodeJEntry rec1 data off length je = decodeJEntry rec2 data off length je := by
  have hal := align4_ge off
  unfold decodeJEntry
  by_cases t0 : ((je &&& 0x70000000) == 0x00000000) = true
  · simp only [t0, if_true]
  · by_cases t1 : ((je &&& 0x70000000) == 0x10000000) = true
    · simp only [t0, t1, if_true, Bool.false_eq_true, if_false]
    · by_cases t5 : ((je &&& 0x70000000) == 0x50000000) = true
      · simp only [t0, t1, t5, if_true, Bool.false_eq_true, if_false]
        by_cases hg : ((align4 off - off : Nat) : Int) < length ∧ align4 off + length.toNat - (align4 off - off) ≤ data.length
        · rw [if_pos hg, if_pos hg]
          have h1 : align4 off - off < length.toNat := by have := hg.1; omega
          rw [slice_ok data (align4 off) (align4 off + length.toNat - (align4 off - off)) hg.2 (by omega)]
          simp only [ok_bind]
          apply h
          simp only [List.length_drop, List.length_take]
          have := hg.2
          omega
        · rw [if_neg hg, if_neg hg]
      · simp only [t0, t1, t5, Bool.false_eq_true, if_false]

theorem parseArrayLoop_congr (rec1 rec2 : Bytes → M JV) (data : Bytes) (entries : List Nat) (dataStart : Nat)
    (hds : 0 < dataStart) (h : ∀ d : Bytes, d.length < data.length → rec1 d = rec2 d) (n i : Nat) :
    parseArrayLoop rec1 data entries dataStart n i = parseArrayLoop rec2 data entries dataStart n i := by
  induction n generalizing i with
  | zero => rfl
  | succ n ih =>
    unfold parseArrayLoop
    apply bind_congr'; intro p
    apply bind_congr'; intro je
    rw [decodeJEntry_congr rec1 rec2 data _ _ je (by omega) h]
    apply bind_congr'; intro v
    rw [ih]

theorem parseObjectLoop_congr (rec1 rec2 : Bytes → M JV) (data : Bytes) (entries : List Nat) (dataStart count : Nat)
    (hds : 0 < dataStart) (h : ∀ d : Bytes, d.length < data.length → rec1 d = rec2 d) (n i : Nat) :
    parseObjectLoop rec1 data entries dataStart count n i = parseObjectLoop rec2 data entries dataStart count n i := by
  induction n generalizing i with
  | zero => rfl
  | succ n ih =>
    unfold parseObjectLoop
    apply bind_congr'; intro p
    apply bind_congr'; intro key
    apply bind_congr'; intro q
    apply bind_congr'; intro je
    rw [decodeJEntry_congr rec1 rec2 data _ _ je (by omega) h]
    apply bind_congr'; intro v
    rw [ih]

theorem parseContainer_congr (rec1 rec2 : Bytes → M JV) (data : Bytes)
    (h : ∀ d : Bytes, d.length < data.length → rec1 d = rec2 d) :
    parseContainer rec1 data = parseContainer rec2 data := by
  unfold parseContainer
  by_cases hl : data.length < 4
  · simp only [hl, if_true]
  · simp only [hl, if_false]
    apply bind_congr'; intro header
    generalize hcnt : header &&& 0x0FFFFFFF = count
    by_cases hbad : ((!header &&& 0x20000000 != 0 && !header &&& 0x40000000 != 0) || decide (count > 10000)) = true
    · simp only [hbad, if_true]
    · rw [if_neg hbad, if_neg hbad]
      by_cases hc0 : (count == 0) = true
      · simp only [hc0, if_true]
      · rw [if_neg hc0, if_neg hc0]
        have hc : count ≠ 0 := by simpa using hc0
        by_cases hobj : (header &&& 0x20000000 != 0) = true
        · simp only [hobj, if_true]
          by_cases hsz : 4 + count * 2 * 4 > data.length
          · simp only [hsz, if_true]
          · simp only [hsz, if_false]
            apply bind_congr'; intro entries
            rw [parseObjectLoop_congr rec1 rec2 data entries _ count (by omega) h]
        · simp only [hobj, Bool.false_eq_true, if_false]
          by_cases hsz : 4 + count * 4 > data.length
          · simp only [hsz, if_true]
          · simp only [hsz, if_false]
            apply bind_congr'; intro entries
            rw [parseArrayLoop_congr rec1 rec2 data entries _ (by omega) h]

/-- any two amounts of fuel above the input length give the same result -/
theorem parseJSONBFuel_fuel (f1 : Nat) : ∀ (f2 : Nat) (data : Bytes), data.length < f1 → data.length < f2 →
    parseJSONBFuel f1 data = parseJSONBFuel f2 data := by
  induction f1 with
  | zero => intro f2 data h; omega
  | succ f1 ih =>
    intro f2 data h1 h2
    cases f2 with
    | zero => omega
    | succ f2 =>
      exact parseContainer_congr _ _ data (fun d hd => ih f2 d (by omega) (by omega))

theorem parseJSONB_total (data : Bytes) : ∃ r, parseJSONB data = .ok r :=
  parseJSONBFuel_total (data.length + 1) data (by omega)

theorem decodeTypeJSONB_total (data : Bytes) : ∃ r, decodeTypeJSONB data = .ok r := by
  unfold decodeTypeJSONB
  simp only [pure_eq_ok]
  split
  · exact ⟨_, rfl⟩
  · obtain ⟨v, hv⟩ := parseJSONB_total data
    rw [hv]
    simp only [ok_bind]
    split
    · exact ⟨_, rfl⟩
    · split
      · rename_i h8
        have h8' : data.length = 8 := by simpa using h8
        rw [uN_ok 4 data 0 (by omega), uN_ok 4 data 4 (by omega)]
        simp only [ok_bind]
        split <;> exact ⟨_, rfl⟩
      · exact ⟨_, rfl⟩

end PgVerif.Proofs
