/-
  Helper lemmas about the JSONB model (jsonb.go): JEntry bit fields, the offset arithmetic of
  endOffset / entryOffLen and of the forward pass of fix 10 (for ANY placement of HAS_OFF flags; the two
  agree on every entry array), totality of the parser, independence of the fuel.
-/
import PgVerif.Proofs.Numeric
namespace PgVerif.Proofs
open PgVerif PgVerif.Model

/-! ### JEntry bit fields -/

theorem land_0FFFFFFF (x : Nat) : x &&& 0x0FFFFFFF = x % 0x10000000 := by
  have := land_mask x 28; simpa using this
theorem land_80000000 (x : Nat) : x &&& 0x80000000 = (x / 0x80000000 % 2) * 0x80000000 := by
  have := land_field x 1 31; simpa using this
theorem land_70000000 (x : Nat) : x &&& 0x70000000 = (x / 0x10000000 % 8) * 0x10000000 := by
  have := land_field x 3 28; simpa using this

theorem jeOffLen_eq (je : Nat) : jeOffLen je = je % 0x10000000 := land_0FFFFFFF je

theorem jeHasOff_eq (je : Nat) : jeHasOff je = (je / 0x80000000 % 2 == 1) := by
  have h : jeHasOff je = (je / 0x80000000 % 2 * 0x80000000 != 0) := congrArg (· != 0) (land_80000000 je)
  rw [h]
  have : je / 0x80000000 % 2 < 2 := Nat.mod_lt _ (by decide)
  rcases Nat.lt_or_ge (je / 0x80000000 % 2) 1 with h3 | h3
  · have e : je / 0x80000000 % 2 = 0 := by omega
    rw [e]; rfl
  · have e : je / 0x80000000 % 2 = 1 := by omega
    rw [e]; rfl

theorem mk_mod (ty v : Nat) (f : Bool) (hv : v < 0x10000000) : (Spec.mkEntry ty f v) % 0x10000000 = v := by
  unfold Spec.mkEntry
  cases f
  · simp only [Bool.false_eq_true, if_false]; omega
  · simp only [if_true]; omega

theorem mk_hi (ty v : Nat) (f : Bool) (hv : v < 0x10000000) (ht : ty < 8) :
    (Spec.mkEntry ty f v / 0x80000000 % 2 == 1) = f := by
  unfold Spec.mkEntry
  cases f
  · have e : (ty * 0x10000000 + v + (if false = true then 0x80000000 else 0)) / 0x80000000 % 2 = 0 := by
      simp only [Bool.false_eq_true, if_false]; omega
    rw [e]; rfl
  · have e : (ty * 0x10000000 + v + (if true = true then 0x80000000 else 0)) / 0x80000000 % 2 = 1 := by
      simp only [if_true]; omega
    rw [e]; rfl

theorem mk_ty (ty v : Nat) (f : Bool) (hv : v < 0x10000000) (ht : ty < 8) :
    Spec.mkEntry ty f v / 0x10000000 % 8 = ty := by
  unfold Spec.mkEntry
  cases f
  · simp only [Bool.false_eq_true, if_false]; omega
  · simp only [if_true]; omega

theorem jeOffLen_mk (ty v : Nat) (f : Bool) (hv : v < 0x10000000) : jeOffLen (Spec.mkEntry ty f v) = v :=
  (jeOffLen_eq _).trans (mk_mod ty v f hv)

theorem jeHasOff_mk (ty v : Nat) (f : Bool) (hv : v < 0x10000000) (ht : ty < 8) : jeHasOff (Spec.mkEntry ty f v) = f :=
  (jeHasOff_eq _).trans (mk_hi ty v f hv ht)

theorem jeType_mk (ty v : Nat) (f : Bool) (hv : v < 0x10000000) (ht : ty < 8) :
    Spec.mkEntry ty f v &&& 0x70000000 = ty * 0x10000000 :=
  (land_70000000 _).trans (congrArg (· * 0x10000000) (mk_ty ty v f hv ht))

/-! ### offsets: endOffset's backward scan + forward sum is the prefix sum, whatever the flag pattern -/

/-- sum of the first `n` lengths -/
def pre (lens : List Nat) (n : Nat) : Nat := (lens.take n).sum

/-- a JEntry array for children of lengths `lens` and types `tys`, with HAS_OFF (and then the end
offset instead of the length) wherever `flags` says so -/
def encE (lens tys : List Nat) (flags : Nat → Bool) : List Nat :=
  (List.range lens.length).map fun i =>
    if flags i then Spec.mkEntry (tys.getD i 0) true (pre lens (i+1)) else Spec.mkEntry (tys.getD i 0) false (lens.getD i 0)

theorem pre_succ (lens : List Nat) (i : Nat) (h : i < lens.length) :
    pre lens (i+1) = pre lens i + lens.getD i 0 := by
  unfold pre
  rw [List.take_add_one, List.getElem?_eq_getElem h]
  simp only [Option.toList, List.sum_append, List.sum_cons, List.sum_nil, List.getD, Option.getD, Nat.add_zero,
    List.getElem?_eq_getElem h]

theorem take_sum_le (lens : List Nat) (i : Nat) : (lens.take i).sum ≤ lens.sum := by
  induction lens generalizing i with
  | nil => simp
  | cons x xs ih =>
    cases i with
    | zero => simp
    | succ i => simp only [List.take_succ_cons, List.sum_cons]; have := ih i; omega

theorem pre_le_total (lens : List Nat) (i : Nat) : pre lens i ≤ pre lens lens.length := by
  unfold pre
  rw [List.take_length]
  exact take_sum_le lens i

theorem len_le_total (lens : List Nat) (i : Nat) (h : i < lens.length) : lens.getD i 0 ≤ pre lens lens.length := by
  have := pre_succ lens i h
  have := pre_le_total lens (i+1)
  omega

theorem getD_encE (lens tys : List Nat) (flags : Nat → Bool) (i : Nat) (h : i < lens.length) :
    (encE lens tys flags).getD i 0 =
      if flags i then Spec.mkEntry (tys.getD i 0) true (pre lens (i+1)) else Spec.mkEntry (tys.getD i 0) false (lens.getD i 0) := by
  simp [encE, List.getD, h]

theorem encE_length (lens tys : List Nat) (flags : Nat → Bool) : (encE lens tys flags).length = lens.length := by
  simp [encE]

section
variable (lens tys : List Nat) (flags : Nat → Bool)
variable (hsmall : pre lens lens.length < 0x10000000) (hty : ∀ i, tys.getD i 0 < 8)
include hsmall hty

omit hty in
theorem offLen_encE (i : Nat) (h : i < lens.length) :
    jeOffLen ((encE lens tys flags).getD i 0) = if flags i then pre lens (i+1) else lens.getD i 0 := by
  rw [getD_encE lens tys flags i h]
  have h1 := pre_le_total lens (i+1)
  have h2 := len_le_total lens i h
  cases flags i
  · simp only [Bool.false_eq_true, if_false]; exact jeOffLen_mk _ _ _ (by omega)
  · simp only [if_true]; exact jeOffLen_mk _ _ _ (by omega)

theorem hasOff_encE (i : Nat) (h : i < lens.length) :
    jeHasOff ((encE lens tys flags).getD i 0) = flags i := by
  rw [getD_encE lens tys flags i h]
  have h1 := pre_le_total lens (i+1)
  have h2 := len_le_total lens i h
  cases flags i
  · simp only [Bool.false_eq_true, if_false]; exact jeHasOff_mk _ _ _ (by omega) (hty i)
  · simp only [if_true]; exact jeHasOff_mk _ _ _ (by omega) (hty i)

omit hty in
/-- forward sum over a run of unflagged entries is the difference of prefix sums -/
theorem sumFrom_unflagged (a n : Nat)
    (hb : a + n ≤ lens.length) (hu : ∀ j, a ≤ j → j < a + n → flags j = false) :
    sumFrom (encE lens tys flags) a n + pre lens a = pre lens (a + n) := by
  induction n generalizing a with
  | zero => simp [sumFrom]
  | succ n ih =>
    have ha : a < lens.length := by omega
    have := ih (a+1) (by omega) (fun j h1 h2 => hu j (by omega) (by omega))
    simp only [sumFrom, offLen_encE lens tys flags hsmall a ha, hu a (Nat.le_refl a) (by omega)]
    rw [pre_succ lens a ha] at this
    simp at this ⊢
    rw [show a + (n + 1) = a + 1 + n by omega]
    omega

theorem scan_spec (idx : Nat) (hidx : idx < lens.length)
    (k : Nat) (hk : k ≤ idx + 1) (hu : ∀ j, k ≤ j → j ≤ idx → flags j = false) :
    (match scan (encE lens tys flags) idx k with
     | some v => v
     | none => sumFrom (encE lens tys flags) 0 (idx+1)) = pre lens (idx+1) := by
  induction k with
  | zero =>
    simp only [scan]
    have := sumFrom_unflagged lens tys flags hsmall 0 (idx+1) (by omega) (fun j _ h2 => hu j (by omega) (by omega))
    simpa [pre] using this
  | succ k ih =>
    have hkl : k < lens.length := by omega
    simp only [scan, hasOff_encE lens tys flags hsmall hty k hkl, offLen_encE lens tys flags hsmall k hkl]
    cases hf : flags k with
    | true =>
      simp only [if_true]
      have := sumFrom_unflagged lens tys flags hsmall (k+1) (idx - k) (by omega)
        (fun j h1 h2 => hu j (by omega) (by omega))
      rw [show k + 1 + (idx - k) = idx + 1 by omega] at this
      show pre lens (k + 1) + sumFrom (encE lens tys flags) (k + 1) (idx - k) = pre lens (idx + 1)
      omega
    | false =>
      simp only [Bool.false_eq_true, if_false]
      exact ih (by omega) (fun j h1 h2 => by
        by_cases hj : j = k
        · subst hj; exact hf
        · exact hu j (by omega) h2)

theorem endOffset_encE (idx : Nat) (hidx : idx < lens.length) :
    endOffset (encE lens tys flags) idx = pre lens (idx+1) := by
  unfold endOffset
  exact scan_spec lens tys flags hsmall hty idx hidx (idx+1) (Nat.le_refl _) (fun j h1 h2 => by omega)

theorem entryOffLenPure_encE (idx base : Nat) (hidx : idx < lens.length) :
    entryOffLenPure (encE lens tys flags) idx base = (base + pre lens idx, (lens.getD idx 0 : Int)) := by
  unfold entryOffLenPure
  have hstart : (if idx > 0 then endOffset (encE lens tys flags) (idx-1) else 0) = pre lens idx := by
    by_cases h0 : idx > 0
    · rw [if_pos h0, endOffset_encE lens tys flags hsmall hty (idx-1) (by omega), show idx - 1 + 1 = idx by omega]
    · have : idx = 0 := by omega
      subst this; simp [pre]
  simp only [hstart, hasOff_encE lens tys flags hsmall hty idx hidx, offLen_encE lens tys flags hsmall idx hidx]
  cases flags idx with
  | true => simp [pre_succ lens idx hidx]; omega
  | false => simp

end

/-! ### the forward pass (fix 10): the end offsets are the prefix sums, whatever the flag pattern -/

/-- the prefix sums `pre lens (a+1), …, pre lens (a+m)` -/
def presFrom (lens : List Nat) (a m : Nat) : List Nat := (List.range' a m).map fun i => pre lens (i+1)

theorem presFrom_length (lens : List Nat) (a m : Nat) : (presFrom lens a m).length = m := by
  simp [presFrom]

theorem getD_presFrom (lens : List Nat) (a m k : Nat) (h : k < m) :
    (presFrom lens a m).getD k 0 = pre lens (a + k + 1) := by
  simp [presFrom, List.getD, h]

theorem encE_eq_range' (lens tys : List Nat) (flags : Nat → Bool) :
    encE lens tys flags = (List.range' 0 lens.length).map fun i =>
      if flags i then Spec.mkEntry (tys.getD i 0) true (pre lens (i+1)) else Spec.mkEntry (tys.getD i 0) false (lens.getD i 0) := by
  unfold encE; rw [List.range_eq_range']

theorem endsFrom_length (end_ : Nat) (es ends : List Nat) (h : endsFrom end_ es = some ends) :
    ends.length = es.length := by
  induction es generalizing end_ ends with
  | nil => simp only [endsFrom, Option.some.injEq] at h; subst h; rfl
  | cons je rest ih =>
    simp only [endsFrom] at h
    split at h
    · cases hr : endsFrom (end_ + jeOffLen je) rest with
      | none => rw [hr] at h; simp at h
      | some t =>
        rw [hr] at h
        simp only [Option.map_some, Option.some.injEq] at h
        subst h
        simp [ih _ _ hr]
    · split at h
      · simp at h
      · cases hr : endsFrom (jeOffLen je) rest with
        | none => rw [hr] at h; simp at h
        | some t =>
          rw [hr] at h
          simp only [Option.map_some, Option.some.injEq] at h
          subst h
          simp [ih _ _ hr]

section
variable (lens tys : List Nat) (flags : Nat → Bool)
variable (hsmall : pre lens lens.length < 0x10000000) (hty : ∀ i, tys.getD i 0 < 8)
include hsmall hty

/-- the forward pass over the entries `a … a+m-1`, entered with the end offset of entry `a-1` -/
theorem endsFrom_range' (m a : Nat) (h : a + m ≤ lens.length) :
    endsFrom (pre lens a) ((List.range' a m).map fun i =>
      if flags i then Spec.mkEntry (tys.getD i 0) true (pre lens (i+1)) else Spec.mkEntry (tys.getD i 0) false (lens.getD i 0)) =
    some (presFrom lens a m) := by
  induction m generalizing a with
  | zero => rfl
  | succ m ih =>
    have ha : a < lens.length := by omega
    have hoff := offLen_encE lens tys flags hsmall a ha
    have hhas := hasOff_encE lens tys flags hsmall hty a ha
    rw [getD_encE lens tys flags a ha] at hoff hhas
    have hps := pre_succ lens a ha
    have ihr := ih (a + 1) (by omega)
    simp only [List.range'_succ, List.map_cons, endsFrom, presFrom, hoff, hhas]
    cases hf : flags a with
    | false =>
      simp only [Bool.not_false, if_true, Bool.false_eq_true, if_false]
      rw [← hps, ihr]; rfl
    | true =>
      simp only [Bool.not_true, Bool.false_eq_true, if_false, if_true]
      rw [if_neg (by omega), ihr]; rfl

/-- the forward pass accepts the entry array and returns the prefix sums -/
theorem endsFrom_encE : endsFrom 0 (encE lens tys flags) = some (presFrom lens 0 lens.length) := by
  rw [encE_eq_range']
  have := endsFrom_range' lens tys flags hsmall hty lens.length 0 (by omega)
  simpa [pre] using this

end

/-- entry `idx` of a container whose forward pass gave `ends` starts at `ends[idx-1]` (0 for the first)
and is `ends[idx] - start` long: what the loops of parseJSONBArray / parseJSONBObject hand to decodeJEntry -/
def spanAt (ends : List Nat) (idx : Nat) : Nat × Int :=
  let start := if idx > 0 then ends.getD (idx-1) 0 else 0
  (start, (ends.getD idx 0 : Int) - start)

theorem spanAt_presFrom (lens : List Nat) (idx : Nat) (h : idx < lens.length) :
    spanAt (presFrom lens 0 lens.length) idx = (pre lens idx, (lens.getD idx 0 : Int)) := by
  unfold spanAt
  have hps := pre_succ lens idx h
  rw [getD_presFrom lens 0 _ idx h]
  by_cases h0 : idx > 0
  · rw [if_pos h0, getD_presFrom lens 0 _ (idx-1) (by omega)]
    simp only [Nat.zero_add, show idx - 1 + 1 = idx by omega, hps]
    congr 1; omega
  · rw [if_neg h0]
    have : idx = 0 := by omega
    subst this
    have hp0 : pre lens 0 = 0 := by simp [pre]
    simp only [Nat.zero_add, hps, hp0]
    congr 1

/-! ### the forward pass computes what `endOffset` / `entryOffLen` compute, for EVERY entry array -/

theorem sumFrom_snoc (es : List Nat) (a n : Nat) :
    sumFrom es a (n+1) = sumFrom es a n + jeOffLen (es.getD (a+n) 0) := by
  induction n generalizing a with
  | zero => simp [sumFrom]
  | succ n ih =>
    rw [sumFrom, ih (a+1), sumFrom]
    rw [show a + 1 + n = a + (n + 1) by omega]
    omega

/-- the value `endOffset` returns when its backward scan still has `k` positions to look at -/
def scanOr (es : List Nat) (idx k : Nat) : Nat :=
  match scan es idx k with
  | some v => v
  | none => sumFrom es 0 (idx+1)

theorem endOffset_eq_scanOr (es : List Nat) (idx : Nat) : endOffset es idx = scanOr es idx (idx+1) := rfl

theorem scanOr_zero (es : List Nat) (idx : Nat) : scanOr es idx 0 = sumFrom es 0 (idx+1) := rfl

theorem scanOr_succ (es : List Nat) (idx k : Nat) :
    scanOr es idx (k+1) = if jeHasOff (es.getD k 0) then jeOffLen (es.getD k 0) + sumFrom es (k+1) (idx - k)
      else scanOr es idx k := by
  unfold scanOr
  rw [scan]
  by_cases hf : jeHasOff (es.getD k 0) = true
  · rw [if_pos hf, if_pos hf]
  · rw [if_neg hf, if_neg hf]

theorem scanOr_succ_idx (es : List Nat) (i k : Nat) (hk : k ≤ i + 1) :
    scanOr es (i+1) k = scanOr es i k + jeOffLen (es.getD (i+1) 0) := by
  induction k with
  | zero =>
    rw [scanOr_zero, scanOr_zero, sumFrom_snoc es 0 (i+1), Nat.zero_add]
  | succ k ih =>
    rw [scanOr_succ, scanOr_succ]
    by_cases hf : jeHasOff (es.getD k 0) = true
    · rw [if_pos hf, if_pos hf, show i + 1 - k = (i - k) + 1 by omega, sumFrom_snoc,
        show k + 1 + (i - k) = i + 1 by omega]
      omega
    · rw [if_neg hf, if_neg hf]
      exact ih (by omega)

theorem endOffset_zero (es : List Nat) : endOffset es 0 = jeOffLen (es.getD 0 0) := by
  rw [endOffset_eq_scanOr, scanOr_succ, scanOr_zero]
  simp [sumFrom]

theorem endOffset_succ (es : List Nat) (i : Nat) :
    endOffset es (i+1) = if jeHasOff (es.getD (i+1) 0) then jeOffLen (es.getD (i+1) 0)
      else endOffset es i + jeOffLen (es.getD (i+1) 0) := by
  rw [endOffset_eq_scanOr, scanOr_succ, scanOr_succ_idx es i (i+1) (by omega), ← endOffset_eq_scanOr]
  simp [sumFrom]

/-- one step of the forward pass -/
theorem endsFrom_cons (e0 je : Nat) (rest ends : List Nat) (h : endsFrom e0 (je :: rest) = some ends) :
    ∃ t, ends = (if jeHasOff je then jeOffLen je else e0 + jeOffLen je) :: t ∧
      endsFrom (if jeHasOff je then jeOffLen je else e0 + jeOffLen je) rest = some t ∧
      e0 ≤ (if jeHasOff je then jeOffLen je else e0 + jeOffLen je) := by
  simp only [endsFrom] at h
  cases hf : jeHasOff je with
  | false =>
    rw [hf] at h
    simp only [Bool.not_false, if_true] at h
    cases hr : endsFrom (e0 + jeOffLen je) rest with
    | none => rw [hr] at h; simp at h
    | some t =>
      rw [hr] at h
      simp only [Option.map_some, Option.some.injEq] at h
      exact ⟨t, by simp [← h], by simpa using hr, by simp⟩
  | true =>
    rw [hf] at h
    simp only [Bool.not_true, Bool.false_eq_true, if_false] at h
    split at h
    · simp at h
    · rename_i hge
      cases hr : endsFrom (jeOffLen je) rest with
      | none => rw [hr] at h; simp at h
      | some t =>
        rw [hr] at h
        simp only [Option.map_some, Option.some.injEq] at h
        exact ⟨t, by simp [← h], by simpa using hr, by simp; omega⟩

/-- the recurrence of the forward pass, by index: `ends[i] = v_i` where HAS_OFF is set, `ends[i-1] + v_i` elsewhere -/
theorem endsFrom_getD (e0 : Nat) (es ends : List Nat) (h : endsFrom e0 es = some ends) (i : Nat) (hi : i < es.length) :
    ends.getD i 0 = if jeHasOff (es.getD i 0) then jeOffLen (es.getD i 0)
      else (if i > 0 then ends.getD (i-1) 0 else e0) + jeOffLen (es.getD i 0) := by
  induction es generalizing e0 ends i with
  | nil => simp at hi
  | cons je rest ih =>
    obtain ⟨t, rfl, ht, _⟩ := endsFrom_cons e0 je rest ends h
    cases i with
    | zero => simp
    | succ i =>
      have := ih _ t ht i (by simpa using hi)
      simp only [List.getD_cons_succ, Nat.add_sub_cancel]
      rw [this]
      cases i with
      | zero => simp
      | succ i => simp

/-- accepted end offsets never decrease (fix 08's check, now part of the forward pass) -/
theorem endsFrom_mono (e0 : Nat) (es ends : List Nat) (h : endsFrom e0 es = some ends) (i : Nat) (hi : i < es.length) :
    (if i > 0 then ends.getD (i-1) 0 else e0) ≤ ends.getD i 0 := by
  induction es generalizing e0 ends i with
  | nil => simp at hi
  | cons je rest ih =>
    obtain ⟨t, rfl, ht, hle⟩ := endsFrom_cons e0 je rest ends h
    cases i with
    | zero => simpa using hle
    | succ i =>
      have := ih _ t ht i (by simpa using hi)
      cases i with
      | zero => simpa using this
      | succ i => simpa using this

/-- consecutive, non-overlapping spans: every length is ≥ 0 and entry `idx+1` starts where entry `idx` ends -/
theorem spanAt_tiling (es ends : List Nat) (h : endsFrom 0 es = some ends) (idx : Nat) (hidx : idx < es.length) :
    0 ≤ (spanAt ends idx).2 ∧ (spanAt ends (idx+1)).1 = (spanAt ends idx).1 + (spanAt ends idx).2.toNat := by
  have hm := endsFrom_mono 0 es ends h idx hidx
  unfold spanAt
  simp only [Nat.add_sub_cancel, show idx + 1 > 0 from Nat.succ_pos idx, if_true]
  constructor
  · omega
  · omega

/-- Fix 10 changes no offset: for EVERY entry array the forward pass accepts (hostile ones included, any
placement of HAS_OFF flags), the end offset it computes for entry `idx` is the one `endOffset` finds by
scanning back to the nearest HAS_OFF entry and summing forward. -/
theorem endsFrom_eq_endOffset (es ends : List Nat) (h : endsFrom 0 es = some ends) (idx : Nat) (hidx : idx < es.length) :
    ends.getD idx 0 = endOffset es idx := by
  induction idx with
  | zero =>
    rw [endsFrom_getD 0 es ends h 0 hidx, endOffset_zero]
    simp
  | succ i ih =>
    rw [endsFrom_getD 0 es ends h (i+1) hidx, endOffset_succ, ← ih (by omega)]
    simp

/-- … and the (start, length) handed to decodeJEntry for entry `idx` is what `entryOffLen` returned -/
theorem spanAt_eq_entryOffLen (es ends : List Nat) (h : endsFrom 0 es = some ends) (idx : Nat) (hidx : idx < es.length) :
    spanAt ends idx = entryOffLenPure es idx 0 := by
  have hrec := endsFrom_getD 0 es ends h idx hidx
  have hstart : (if idx > 0 then ends.getD (idx-1) 0 else 0) = (if idx > 0 then endOffset es (idx-1) else 0) := by
    by_cases h0 : idx > 0
    · rw [if_pos h0, if_pos h0, endsFrom_eq_endOffset es ends h (idx-1) (by omega)]
    · rw [if_neg h0, if_neg h0]
  unfold spanAt entryOffLenPure
  simp only [Nat.zero_add]
  rw [← hstart, hrec]
  by_cases hf : jeHasOff (es.getD idx 0) = true
  · simp only [hf, if_true]
  · simp only [hf, Bool.false_eq_true, if_false]
    congr 1
    omega

/-! ### totality: no index, no slice expression of the parser can fail, whatever the bytes -/

theorem sliceL_eq (data : Bytes) (lo hi : Nat) : sliceL data data.length lo hi = slice data lo hi := by
  unfold sliceL slice
  rw [List.drop_take]

theorem align4_ge (off : Nat) : off ≤ align4 off := by
  unfold align4
  have := andNot_mask (off + 3) 2
  simp only [show (2 : Nat) ^ 2 - 1 = 3 from rfl, show (2 : Nat) ^ 2 = 4 from rfl] at this
  rw [this]; omega

theorem drop3_nonempty (d : Bytes) (h : 4 ≤ d.length) : (d.drop 3).isEmpty = false := by
  cases hd : d.drop 3 with
  | nil =>
    have := congrArg List.length hd
    simp only [List.length_drop, List.length_nil] at this
    omega
  | cons x t => rfl

theorem readEntries_succ (n : Nat) (d : Bytes) (h : 4 ≤ d.length) :
    readEntries (n+1) d = (readEntries n (d.drop 4) >>= fun rest => pure (rd 4 d :: rest)) := by
  rw [readEntries, drop3_nonempty d h]; rfl

theorem readEntries_total (n : Nat) (d : Bytes) (h : n * 4 ≤ d.length) :
    ∃ es, readEntries n d = .ok es ∧ es.length = n := by
  induction n generalizing d with
  | zero => exact ⟨[], rfl, rfl⟩
  | succ n ih =>
    obtain ⟨es, hes, hl⟩ := ih (d.drop 4) (by simp only [List.length_drop]; omega)
    refine ⟨rd 4 d :: es, ?_, by simp [hl]⟩
    rw [readEntries_succ n d (by omega), hes]; rfl

theorem entryOffLen_ok (es : List Nat) (idx base : Nat) (h : idx < es.length) :
    entryOffLen es idx base = .ok (entryOffLenPure es idx base) := by
  unfold entryOffLen; rw [if_pos h]; rfl

/-- decodeJEntry cannot fault, provided the recursive parser cannot fault on any strictly shorter slice;
`off > 0` holds at every call (`off ≥ dataStart ≥ 8`) and makes every child slice strictly shorter -/
theorem decodeJEntry_total (rec : Bytes → M JV) (data : Bytes) (off : Nat) (length : Int) (je : Nat)
    (hoff : 0 < off) (hrec : ∀ d : Bytes, d.length < data.length → ∃ r, rec d = .ok r) :
    ∃ r, decodeJEntry rec data off length je = .ok r := by
  have hal := align4_ge off
  unfold decodeJEntry decodeJEntryN
  simp only [sliceL_eq, pure_eq_ok]
  split
  · split
    · rename_i hg
      rw [slice_ok data off (off + length.toNat) hg.2 (by omega)]
      exact ⟨_, rfl⟩
    · exact ⟨_, rfl⟩
  · split
    · split
      · rename_i hg
        have h1 : align4 off - off < length.toNat := by have := hg.1; omega
        rw [slice_ok data (align4 off) (align4 off + length.toNat - (align4 off - off)) hg.2 (by omega)]
        simp only [ok_bind]
        obtain ⟨r, hr⟩ := decodeJNumeric_total
          (List.drop (align4 off) (List.take (align4 off + length.toNat - (align4 off - off)) data))
        rw [hr]; exact ⟨_, rfl⟩
      · exact ⟨_, rfl⟩
    · split
      · split
        · rename_i hg
          have h1 : align4 off - off < length.toNat := by have := hg.1; omega
          rw [slice_ok data (align4 off) (align4 off + length.toNat - (align4 off - off)) hg.2 (by omega)]
          simp only [ok_bind]
          apply hrec
          simp only [List.length_drop, List.length_take]
          have := hg.2
          omega
        · exact ⟨_, rfl⟩
      · split
        · exact ⟨_, rfl⟩
        · split
          · exact ⟨_, rfl⟩
          · split <;> exact ⟨_, rfl⟩

theorem getEntry_ok (entries : List Nat) (i : Nat) (h : i < entries.length) :
    getEntry entries i = .ok entries[i] := by
  unfold getEntry; rw [List.getElem?_eq_getElem h]; rfl

theorem dropM_ok (xs : List Nat) (n : Nat) (h : n ≤ xs.length) : dropM xs n = .ok (xs.drop n) := by
  unfold dropM; rw [if_neg (by omega)]; rfl

theorem parseArrayLoop_zero (rec : Bytes → M JV) (data : Bytes) (dataStart off : Nat) (es ends : List Nat) :
    parseArrayLoop rec data data.length dataStart 0 off es ends = .ok [] := by
  unfold parseArrayLoop; rfl

theorem parseArrayLoop_cons (rec : Bytes → M JV) (data : Bytes) (dataStart n off je e : Nat) (es ends : List Nat) :
    parseArrayLoop rec data data.length dataStart (n+1) off (je :: es) (e :: ends) =
      (decodeJEntry rec data (dataStart + off) ((e : Int) - off) je >>= fun v =>
        parseArrayLoop rec data data.length dataStart n e es ends >>= fun rest => pure (v :: rest)) := by
  rw [parseArrayLoop]; rfl

theorem parseObjectLoop_zero (rec : Bytes → M JV) (data : Bytes) (dataStart kOff vOff : Nat) (kEnds vals valEnds : List Nat) :
    parseObjectLoop rec data data.length dataStart 0 kOff vOff kEnds vals valEnds = .ok [] := by
  unfold parseObjectLoop; rfl

theorem parseObjectLoop_cons (rec : Bytes → M JV) (data : Bytes) (dataStart n kOff vOff ke je ve : Nat)
    (kEnds vals valEnds : List Nat) :
    parseObjectLoop rec data data.length dataStart (n+1) kOff vOff (ke :: kEnds) (je :: vals) (ve :: valEnds) =
      (objKey data dataStart kOff ((ke : Int) - kOff) >>= fun key =>
        decodeJEntry rec data (dataStart + vOff) ((ve : Int) - vOff) je >>= fun v =>
          parseObjectLoop rec data data.length dataStart n ke ve kEnds vals valEnds >>= fun rest => pure ((key, v) :: rest)) := by
  rw [parseObjectLoop]; rfl

theorem objKey_total (data : Bytes) (dataStart kOff : Nat) (kLen : Int) : ∃ key, objKey data dataStart kOff kLen = .ok key := by
  unfold objKey objKeyN
  rw [sliceL_eq]
  split
  · rename_i hg
    rw [slice_ok _ _ _ hg.2 (by omega)]; exact ⟨_, rfl⟩
  · exact ⟨_, rfl⟩

theorem parseArrayLoop_total (rec : Bytes → M JV) (data : Bytes) (dataStart : Nat)
    (hds : 0 < dataStart) (hrec : ∀ d : Bytes, d.length < data.length → ∃ r, rec d = .ok r)
    (n off : Nat) (es ends : List Nat) (h1 : n ≤ es.length) (h2 : n ≤ ends.length) :
    ∃ xs, parseArrayLoop rec data data.length dataStart n off es ends = .ok xs := by
  induction n generalizing off es ends with
  | zero => exact ⟨[], parseArrayLoop_zero ..⟩
  | succ n ih =>
    match es, ends, h1, h2 with
    | je :: es, e :: ends, h1, h2 =>
      obtain ⟨v, hv⟩ := decodeJEntry_total rec data (dataStart + off) ((e : Int) - off) je (by omega) hrec
      obtain ⟨rest, hrest⟩ := ih e es ends (by simpa using h1) (by simpa using h2)
      refine ⟨v :: rest, ?_⟩
      rw [parseArrayLoop_cons, hv]
      simp only [ok_bind, hrest, pure_eq_ok]
    | [], _, h1, _ => simp at h1
    | _ :: _, [], _, h2 => simp at h2

theorem parseObjectLoop_total (rec : Bytes → M JV) (data : Bytes) (dataStart : Nat)
    (hds : 0 < dataStart) (hrec : ∀ d : Bytes, d.length < data.length → ∃ r, rec d = .ok r)
    (n kOff vOff : Nat) (kEnds vals valEnds : List Nat)
    (h1 : n ≤ kEnds.length) (h2 : n ≤ vals.length) (h3 : n ≤ valEnds.length) :
    ∃ kvs, parseObjectLoop rec data data.length dataStart n kOff vOff kEnds vals valEnds = .ok kvs := by
  induction n generalizing kOff vOff kEnds vals valEnds with
  | zero => exact ⟨[], parseObjectLoop_zero ..⟩
  | succ n ih =>
    match kEnds, vals, valEnds, h1, h2, h3 with
    | ke :: kEnds, je :: vals, ve :: valEnds, h1, h2, h3 =>
      obtain ⟨key, hkey⟩ := objKey_total data dataStart kOff ((ke : Int) - kOff)
      obtain ⟨v, hv⟩ := decodeJEntry_total rec data (dataStart + vOff) ((ve : Int) - vOff) je (by omega) hrec
      obtain ⟨rest, hrest⟩ := ih ke ve kEnds vals valEnds (by simpa using h1) (by simpa using h2) (by simpa using h3)
      refine ⟨(key, v) :: rest, ?_⟩
      rw [parseObjectLoop_cons, hkey]
      simp only [ok_bind, hv, hrest, pure_eq_ok]
    | [], _, _, h1, _, _ => simp at h1
    | _ :: _, [], _, _, h2, _ => simp at h2
    | _ :: _, _ :: _, [], _, _, h3 => simp at h3

theorem parseObject_total (rec : Bytes → M JV) (data : Bytes) (entries ends : List Nat) (dataStart count : Nat)
    (hds : 0 < dataStart) (hrec : ∀ d : Bytes, d.length < data.length → ∃ r, rec d = .ok r)
    (hc : 0 < count) (he : entries.length = count * 2) (hn : ends.length = count * 2) :
    ∃ kvs, parseObject rec data data.length entries ends dataStart count = .ok kvs := by
  unfold parseObject
  rw [dropM_ok entries count (by omega), dropM_ok ends count (by omega), getEntry_ok ends (count - 1) (by omega)]
  simp only [ok_bind]
  exact parseObjectLoop_total rec data dataStart hds hrec count 0 _ ends _ _ (by omega)
    (by simp only [List.length_drop]; omega) (by simp only [List.length_drop]; omega)

/-- the body of ParseJSONB cannot fault if the recursive call cannot fault on strictly shorter input -/
theorem parseContainer_total (rec : Bytes → M JV) (data : Bytes)
    (hrec : ∀ d : Bytes, d.length < data.length → ∃ r, rec d = .ok r) :
    ∃ r, parseContainer rec data = .ok r := by
  unfold parseContainer
  by_cases hl : data.length < 4
  · simp [hl]
  · simp (disch := omega) only [hl, if_false, uN_ok, sliceFrom_ok, ok_bind, pure_eq_ok]
    generalize rd 4 (List.drop 0 data) = header
    generalize hcnt : header &&& 0x0FFFFFFF = count
    by_cases hbad : ((!header &&& 0x20000000 != 0 && !header &&& 0x40000000 != 0)) = true
    · rw [if_pos hbad]; exact ⟨_, rfl⟩
    · rw [if_neg hbad]
      by_cases hc0 : (count == 0) = true
      · rw [if_pos hc0]; exact ⟨_, rfl⟩
      · rw [if_neg hc0]
        have hc : count ≠ 0 := by simpa using hc0
        by_cases hobj : (header &&& 0x20000000 != 0) = true
        · simp only [hobj, if_true]
          split
          · exact ⟨_, rfl⟩
          · rename_i hsz
            obtain ⟨es, hes, hesl⟩ := readEntries_total (count * 2) (data.drop 4)
              (by simp only [List.length_drop]; omega)
            rw [hes]
            simp only [ok_bind]
            cases hends : endsFrom 0 es with
            | none => exact ⟨_, rfl⟩
            | some ends =>
              have hel := endsFrom_length 0 es ends hends
              obtain ⟨kvs, hk⟩ := parseObject_total rec data es ends
                (4 + count * 2 * 4) count (by omega) hrec (by omega) hesl (by omega)
              simp only [hk, ok_bind]; exact ⟨_, rfl⟩
        · simp only [hobj, Bool.false_eq_true, if_false]
          split
          · exact ⟨_, rfl⟩
          · rename_i hsz
            obtain ⟨es, hes, hesl⟩ := readEntries_total count (data.drop 4)
              (by simp only [List.length_drop]; omega)
            rw [hes]
            simp only [ok_bind]
            cases hends : endsFrom 0 es with
            | none => exact ⟨_, rfl⟩
            | some ends =>
              have hel := endsFrom_length 0 es ends hends
              obtain ⟨xs, hx⟩ := parseArrayLoop_total rec data
                (4 + count * 4) (by omega) hrec count 0 es ends (by omega) (by omega)
              simp only [hx, ok_bind]
              split
              · split <;> exact ⟨_, rfl⟩
              · exact ⟨_, rfl⟩

/-- with fuel above the length of the input, ParseJSONB returns (never a fault, never out of fuel) -/
theorem parseJSONBFuel_total (fuel : Nat) : ∀ data : Bytes, data.length < fuel →
    ∃ r, parseJSONBFuel fuel data = .ok r := by
  induction fuel with
  | zero => intro data h; omega
  | succ fuel ih =>
    intro data hlen
    exact parseContainer_total (parseJSONBFuel fuel) data (fun d hd => ih d (by omega))

/-! ### the result does not depend on surplus fuel -/

theorem bind_congr' {α β} (x : M α) (f g : α → M β) (h : ∀ a, f a = g a) : (x >>= f) = (x >>= g) := by
  have : f = g := funext h
  rw [this]

theorem decodeJEntry_congr (rec1 rec2 : Bytes → M JV) (data : Bytes) (off : Nat) (length : Int) (je : Nat)
    (hoff : 0 < off) (h : ∀ d : Bytes, d.length < data.length → rec1 d = rec2 d) :
    decodeJEntry rec1 data off length je = decodeJEntry rec2 data off length je := by
  have hal := align4_ge off
  unfold decodeJEntry decodeJEntryN
  simp only [sliceL_eq]
  by_cases t0 : ((je &&& 0x70000000) == 0x00000000) = true
  · simp only [t0, if_true]
  · by_cases t1 : ((je &&& 0x70000000) == 0x10000000) = true
    · simp only [t0, t1, if_true, Bool.false_eq_true, if_false]
    · by_cases t5 : ((je &&& 0x70000000) == 0x50000000) = true
      · simp only [t0, t1, t5, if_true, Bool.false_eq_true, if_false]
        by_cases hg : ((align4 off - off : Nat) : Int) < length ∧ align4 off + length.toNat - (align4 off - off) ≤ data.length
        · rw [if_pos hg, if_pos hg]
          have h1 : align4 off - off < length.toNat := by have := hg.1; omega
          rw [slice_ok data (align4 off) (align4 off + length.toNat - (align4 off - off)) hg.2 (by omega)]
          simp only [ok_bind]
          apply h
          simp only [List.length_drop, List.length_take]
          have := hg.2
          omega
        · rw [if_neg hg, if_neg hg]
      · simp only [t0, t1, t5, Bool.false_eq_true, if_false]

theorem parseArrayLoop_congr (rec1 rec2 : Bytes → M JV) (data : Bytes) (dataStart : Nat)
    (hds : 0 < dataStart) (h : ∀ d : Bytes, d.length < data.length → rec1 d = rec2 d)
    (n off : Nat) (es ends : List Nat) :
    parseArrayLoop rec1 data data.length dataStart n off es ends = parseArrayLoop rec2 data data.length dataStart n off es ends := by
  induction n generalizing off es ends with
  | zero => rw [parseArrayLoop_zero, parseArrayLoop_zero]
  | succ n ih =>
    match es, ends with
    | je :: es, e :: ends =>
      rw [parseArrayLoop_cons, parseArrayLoop_cons, decodeJEntry_congr rec1 rec2 data _ _ je (by omega) h]
      apply bind_congr'; intro v
      rw [ih]
    | [], _ => simp [parseArrayLoop]
    | _ :: _, [] => simp [parseArrayLoop]

theorem parseObjectLoop_congr (rec1 rec2 : Bytes → M JV) (data : Bytes) (dataStart : Nat)
    (hds : 0 < dataStart) (h : ∀ d : Bytes, d.length < data.length → rec1 d = rec2 d)
    (n kOff vOff : Nat) (kEnds vals valEnds : List Nat) :
    parseObjectLoop rec1 data data.length dataStart n kOff vOff kEnds vals valEnds =
      parseObjectLoop rec2 data data.length dataStart n kOff vOff kEnds vals valEnds := by
  induction n generalizing kOff vOff kEnds vals valEnds with
  | zero => rw [parseObjectLoop_zero, parseObjectLoop_zero]
  | succ n ih =>
    match kEnds, vals, valEnds with
    | ke :: kEnds, je :: vals, ve :: valEnds =>
      rw [parseObjectLoop_cons, parseObjectLoop_cons]
      apply bind_congr'; intro key
      rw [decodeJEntry_congr rec1 rec2 data _ _ je (by omega) h]
      apply bind_congr'; intro v
      rw [ih]
    | [], _, _ => simp [parseObjectLoop]
    | _ :: _, [], _ => simp [parseObjectLoop]
    | _ :: _, _ :: _, [] => simp [parseObjectLoop]

theorem parseObject_congr (rec1 rec2 : Bytes → M JV) (data : Bytes) (entries ends : List Nat) (dataStart count : Nat)
    (hds : 0 < dataStart) (h : ∀ d : Bytes, d.length < data.length → rec1 d = rec2 d) :
    parseObject rec1 data data.length entries ends dataStart count = parseObject rec2 data data.length entries ends dataStart count := by
  unfold parseObject
  apply bind_congr'; intro vals
  apply bind_congr'; intro valEnds
  apply bind_congr'; intro vOff
  exact parseObjectLoop_congr rec1 rec2 data dataStart hds h ..

theorem parseContainer_congr (rec1 rec2 : Bytes → M JV) (data : Bytes)
    (h : ∀ d : Bytes, d.length < data.length → rec1 d = rec2 d) :
    parseContainer rec1 data = parseContainer rec2 data := by
  unfold parseContainer
  by_cases hl : data.length < 4
  · simp only [hl, if_true]
  · simp only [hl, if_false]
    apply bind_congr'; intro header
    generalize hcnt : header &&& 0x0FFFFFFF = count
    by_cases hbad : ((!header &&& 0x20000000 != 0 && !header &&& 0x40000000 != 0)) = true
    · simp only [hbad, if_true]
    · rw [if_neg hbad, if_neg hbad]
      by_cases hc0 : (count == 0) = true
      · simp only [hc0, if_true]
      · rw [if_neg hc0, if_neg hc0]
        have hc : count ≠ 0 := by simpa using hc0
        by_cases hobj : (header &&& 0x20000000 != 0) = true
        · simp only [hobj, if_true]
          by_cases hsz : 4 + count * 2 * 4 > data.length
          · simp only [hsz, if_true]
          · simp only [hsz, if_false]
            apply bind_congr'; intro d4
            apply bind_congr'; intro entries
            cases endsFrom 0 entries with
            | none => rfl
            | some ends =>
              simp only []
              rw [parseObject_congr rec1 rec2 data entries ends _ count (by omega) h]
        · simp only [hobj, Bool.false_eq_true, if_false]
          by_cases hsz : 4 + count * 4 > data.length
          · simp only [hsz, if_true]
          · simp only [hsz, if_false]
            apply bind_congr'; intro d4
            apply bind_congr'; intro entries
            cases endsFrom 0 entries with
            | none => rfl
            | some ends =>
              simp only []
              rw [parseArrayLoop_congr rec1 rec2 data _ (by omega) h]

/-- any two amounts of fuel above the input length give the same result -/
theorem parseJSONBFuel_fuel (f1 : Nat) : ∀ (f2 : Nat) (data : Bytes), data.length < f1 → data.length < f2 →
    parseJSONBFuel f1 data = parseJSONBFuel f2 data := by
  induction f1 with
  | zero => intro f2 data h; omega
  | succ f1 ih =>
    intro f2 data h1 h2
    cases f2 with
    | zero => omega
    | succ f2 =>
      exact parseContainer_congr _ _ data (fun d hd => ih f2 d (by omega) (by omega))

theorem parseJSONB_total (data : Bytes) : ∃ r, parseJSONB data = .ok r :=
  parseJSONBFuel_total (data.length + 1) data (by omega)

theorem decodeTypeJSONB_total (data : Bytes) : ∃ r, decodeTypeJSONB data = .ok r := by
  unfold decodeTypeJSONB
  simp only [pure_eq_ok]
  split
  · exact ⟨_, rfl⟩
  · obtain ⟨v, hv⟩ := parseJSONB_total data
    rw [hv]
    simp only [ok_bind]
    split
    · exact ⟨_, rfl⟩
    · split
      · rename_i h8
        have h8' : data.length = 8 := by simpa using h8
        rw [uN_ok 4 data 0 (by omega), uN_ok 4 data 4 (by omega)]
        simp only [ok_bind]
        split <;> exact ⟨_, rfl⟩
      · exact ⟨_, rfl⟩

end PgVerif.Proofs
