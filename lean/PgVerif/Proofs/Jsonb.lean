/-
  Helper lemmas about the JSONB model (jsonb.go:22-154): JEntry bit fields, the offset arithmetic of
  endOffset / entryOffLen (for ANY placement of HAS_OFF flags), totality of the parser.
-/
import PgVerif.Proofs.Numeric
namespace PgVerif.Proofs
open PgVerif PgVerif.Model

/-! ### JEntry bit fields -/

theorem jeOffLen_mk (ty v : Nat) (f : Bool) (hv : v < 2 ^ 28) : jeOffLen (Spec.mkEntry ty f v) = v := by
  unfold jeOffLen Spec.mkEntry
  have := land_mask (ty * 0x10000000 + v + (if f then 0x80000000 else 0)) 28
  simp only [show (2 : Nat) ^ 28 - 1 = 0x0FFFFFFF by decide] at this
  rw [this]
  cases f <;> simp <;> omega

theorem jeHasOff_mk (ty v : Nat) (f : Bool) (hv : v < 2 ^ 28) (ht : ty < 8) : jeHasOff (Spec.mkEntry ty f v) = f := by
  unfold jeHasOff Spec.mkEntry
  have := land_field (ty * 0x10000000 + v + (if f then 0x80000000 else 0)) 1 31
  simp only [show ((2 : Nat) ^ 1 - 1) * 2 ^ 31 = 0x80000000 by decide] at this
  rw [this]
  cases f
  · have e : (ty * 0x10000000 + v + (if false = true then 0x80000000 else 0)) / 2 ^ 31 % 2 ^ 1 = 0 := by
      simp; omega
    rw [e]; rfl
  · have e : (ty * 0x10000000 + v + (if true = true then 0x80000000 else 0)) / 2 ^ 31 % 2 ^ 1 = 1 := by
      simp; omega
    rw [e]; rfl

theorem jeType_mk (ty v : Nat) (f : Bool) (hv : v < 2 ^ 28) (ht : ty < 8) :
    Spec.mkEntry ty f v &&& 0x70000000 = ty * 0x10000000 := by
  unfold Spec.mkEntry
  have := land_field (ty * 0x10000000 + v + (if f then 0x80000000 else 0)) 3 28
  simp only [show ((2 : Nat) ^ 3 - 1) * 2 ^ 28 = 0x70000000 by decide] at this
  rw [this]
  cases f <;> simp <;> omega

/-! ### offsets: endOffset's backward scan + forward sum is the prefix sum, whatever the flag pattern -/

/-- sum of the first `n` lengths -/
def pre (lens : List Nat) (n : Nat) : Nat := (lens.take n).sum

/-- a JEntry array for children of lengths `lens` and types `tys`, with HAS_OFF (and then the end
offset instead of the length) wherever `flags` says so -/
def encE (lens tys : List Nat) (flags : Nat → Bool) : List Nat :=
  (List.range lens.length).map fun i =>
    if flags i then Spec.mkEntry (tys.getD i 0) true (pre lens (i+1)) else Spec.mkEntry (tys.getD i 0) false (lens.getD i 0)

theorem pre_succ (lens : List Nat) (i : Nat) (h : i < lens.length) :
    pre lens (i+1) = pre lens i + lens.getD i 0 := by
  unfold pre
  rw [List.take_add_one, List.getElem?_eq_getElem h]
  simp only [Option.toList, List.sum_append, List.sum_cons, List.sum_nil, List.getD, Option.getD, Nat.add_zero,
    List.getElem?_eq_getElem h]

theorem pre_le_total (lens : List Nat) (i : Nat) : pre lens i ≤ pre lens lens.length := by
  unfold pre
  rw [List.take_length]
  conv => rhs; rw [← List.take_append_drop i lens]
  simp

theorem len_le_total (lens : List Nat) (i : Nat) (h : i < lens.length) : lens.getD i 0 ≤ pre lens lens.length := by
  have := pre_succ lens i h
  have := pre_le_total lens (i+1)
  omega

theorem getD_encE (lens tys : List Nat) (flags : Nat → Bool) (i : Nat) (h : i < lens.length) :
    (encE lens tys flags).getD i 0 =
      if flags i then Spec.mkEntry (tys.getD i 0) true (pre lens (i+1)) else Spec.mkEntry (tys.getD i 0) false (lens.getD i 0) := by
  simp [encE, List.getD, h]

theorem encE_length (lens tys : List Nat) (flags : Nat → Bool) : (encE lens tys flags).length = lens.length := by
  simp [encE]

section
variable (lens tys : List Nat) (flags : Nat → Bool)
variable (hsmall : pre lens lens.length < 2 ^ 28) (hty : ∀ i, tys.getD i 0 < 8)
include hsmall hty

theorem offLen_encE (i : Nat) (h : i < lens.length) :
    jeOffLen ((encE lens tys flags).getD i 0) = if flags i then pre lens (i+1) else lens.getD i 0 := by
  rw [getD_encE lens tys flags i h]
  have h1 := pre_le_total lens (i+1)
  have h2 := len_le_total lens i h
  cases flags i
  · simp only [Bool.false_eq_true, if_false]; exact jeOffLen_mk _ _ _ (by omega)
  · simp only [if_true]; exact jeOffLen_mk _ _ _ (by omega)

theorem hasOff_encE (i : Nat) (h : i < lens.length) :
    jeHasOff ((encE lens tys flags).getD i 0) = flags i := by
  rw [getD_encE lens tys flags i h]
  have h1 := pre_le_total lens (i+1)
  have h2 := len_le_total lens i h
  cases flags i
  · simp only [Bool.false_eq_true, if_false]; exact jeHasOff_mk _ _ _ (by omega) (hty i)
  · simp only [if_true]; exact jeHasOff_mk _ _ _ (by omega) (hty i)

/-- forward sum over a run of unflagged entries is the difference of prefix sums -/
theorem sumFrom_unflagged (a n : Nat)
    (hb : a + n ≤ lens.length) (hu : ∀ j, a ≤ j → j < a + n → flags j = false) :
    sumFrom (encE lens tys flags) a n + pre lens a = pre lens (a + n) := by
  induction n generalizing a with
  | zero => simp [sumFrom]
  | succ n ih =>
    have ha : a < lens.length := by omega
    have := ih (a+1) (by omega) (fun j h1 h2 => hu j (by omega) (by omega))
    simp only [sumFrom, offLen_encE lens tys flags hsmall hty a ha, hu a (Nat.le_refl a) (by omega)]
    rw [pre_succ lens a ha] at this
    simp at this ⊢
    rw [show a + (n + 1) = a + 1 + n by omega]
    omega

theorem scan_spec (idx : Nat) (hidx : idx < lens.length)
    (k : Nat) (hk : k ≤ idx + 1) (hu : ∀ j, k ≤ j → j ≤ idx → flags j = false) :
    (match scan (encE lens tys flags) idx k with
     | some v => v
     | none => sumFrom (encE lens tys flags) 0 (idx+1)) = pre lens (idx+1) := by
  induction k with
  | zero =>
    simp only [scan]
    have := sumFrom_unflagged lens tys flags hsmall hty 0 (idx+1) (by omega) (fun j _ h2 => hu j (by omega) (by omega))
    simpa [pre] using this
  | succ k ih =>
    have hkl : k < lens.length := by omega
    simp only [scan, hasOff_encE lens tys flags hsmall hty k hkl, offLen_encE lens tys flags hsmall hty k hkl]
    cases hf : flags k with
    | true =>
      simp only [if_true]
      have := sumFrom_unflagged lens tys flags hsmall hty (k+1) (idx - k) (by omega)
        (fun j h1 h2 => hu j (by omega) (by omega))
      rw [show k + 1 + (idx - k) = idx + 1 by omega] at this
      show pre lens (k + 1) + sumFrom (encE lens tys flags) (k + 1) (idx - k) = pre lens (idx + 1)
      omega
    | false =>
      simp only [Bool.false_eq_true, if_false]
      exact ih (by omega) (fun j h1 h2 => by
        by_cases hj : j = k
        · subst hj; exact hf
        · exact hu j (by omega) h2)

theorem endOffset_encE (idx : Nat) (hidx : idx < lens.length) :
    endOffset (encE lens tys flags) idx = pre lens (idx+1) := by
  unfold endOffset
  exact scan_spec lens tys flags hsmall hty idx hidx (idx+1) (Nat.le_refl _) (fun j h1 h2 => by omega)

theorem entryOffLenPure_encE (idx base : Nat) (hidx : idx < lens.length) :
    entryOffLenPure (encE lens tys flags) idx base = (base + pre lens idx, (lens.getD idx 0 : Int)) := by
  unfold entryOffLenPure
  have hstart : (if idx > 0 then endOffset (encE lens tys flags) (idx-1) else 0) = pre lens idx := by
    by_cases h0 : idx > 0
    · rw [if_pos h0, endOffset_encE lens tys flags hsmall hty (idx-1) (by omega), show idx - 1 + 1 = idx by omega]
    · have : idx = 0 := by omega
      subst this; simp [pre]
  simp only [hstart, hasOff_encE lens tys flags hsmall hty idx hidx, offLen_encE lens tys flags hsmall hty idx hidx]
  cases flags idx with
  | true => simp [pre_succ lens idx hidx]; omega
  | false => simp

end

end PgVerif.Proofs
