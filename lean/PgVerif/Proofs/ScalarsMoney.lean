/-
  money: `fmt.Sprintf("%.2f", float64(cents)/100)` prints the exact decimal of cents/100 for
  |cents| < 10^15 — two correctly rounded binary64 operations followed by the exact decimal expansion
  rounded to two places cannot move the value by half a cent.  Helper lemmas for Props/C04.lean.
-/
import PgVerif.Types.Text
set_option linter.unusedSimpArgs false
namespace PgVerif.Proofs.Money
open PgVerif PgVerif.Txt

theorem rneDiv_near (a Q P : Nat) (hQ : 0 < Q) (h1 : 2 * P < 2 * (a * Q) + Q) (h2 : 2 * (a * Q) < 2 * P + Q) :
    rneDiv P Q = a := by
  unfold rneDiv
  by_cases hge : a * Q ≤ P
  · -- P = aQ + δ, 2δ < Q
    have hdm : P / Q = a ∧ P % Q = P - a * Q := by
      rw [Nat.div_mod_unique hQ]
      constructor
      · rw [Nat.mul_comm Q a]; omega
      · omega
    simp only [hdm.1, hdm.2]
    have : 2 * (P - a * Q) < Q := by omega
    rw [if_pos this]
  · -- P = aQ − δ, 0 < δ, 2δ < Q
    have ha : 1 ≤ a := by
      cases a with
      | zero => simp at hge
      | succ n => omega
    have hmul : a * Q = (a - 1) * Q + Q := by
      have : a = (a - 1) + 1 := by omega
      conv => lhs; rw [this, Nat.add_mul, Nat.one_mul]
    have hdm : P / Q = a - 1 ∧ P % Q = P - (a - 1) * Q := by
      rw [Nat.div_mod_unique hQ]
      constructor
      · rw [Nat.mul_comm Q (a - 1)]; omega
      · omega
    simp only [hdm.1, hdm.2]
    have n1 : ¬ 2 * (P - (a - 1) * Q) < Q := by omega
    have n2 : 2 * (P - (a - 1) * Q) > Q := by omega
    rw [if_neg n1, if_pos n2]; omega

theorem rneDiv_scale (X Y c : Nat) (hc : 0 < c) : rneDiv (X * c) (Y * c) = rneDiv X Y := by
  unfold rneDiv
  rw [Nat.mul_div_mul_right X Y hc, Nat.mul_mod_mul_right]
  have e1 : (2 * (X % Y * c) < Y * c) ↔ (2 * (X % Y) < Y) := by
    rw [← Nat.mul_assoc]; exact Nat.mul_lt_mul_right hc
  have e2 : (2 * (X % Y * c) > Y * c) ↔ (2 * (X % Y) > Y) := by
    rw [← Nat.mul_assoc]; exact Nat.mul_lt_mul_right hc
  simp only [e1, e2]

theorem rneDiv_one (X : Nat) : rneDiv X 1 = X := by
  unfold rneDiv; simp [Nat.mod_one]

/-- |100·rneDiv(P,100) − P| ≤ 50 -/
theorem rneDiv_100 (P : Nat) : 100 * rneDiv P 100 ≤ P + 50 ∧ P ≤ 100 * rneDiv P 100 + 50 := by
  unfold rneDiv
  simp only
  split
  · omega
  · split
    · omega
    · split <;> omega

/-- roundRat when the first exponent estimate is right (negative exponent, normal range) -/
theorem roundRat_case1 (p q : Nat) (E : Int) (he0 : (Nat.log2 p : Int) - (Nat.log2 q : Int) - 52 = E)
    (h1 : ¬ scaledFloor p q E < 2 ^ 52) (h2 : ¬ scaledFloor p q E ≥ 2 ^ 53) (h3 : ¬ E < -1074) (h4 : ¬ E ≥ 0) :
    roundRat p q = (if rneDiv (p * 2 ^ (-E).toNat) q ≥ 2 ^ 53 then (rneDiv (p * 2 ^ (-E).toNat) q / 2, E + 1)
                    else (rneDiv (p * 2 ^ (-E).toNat) q, E)) := by
  unfold roundRat
  simp only [he0, h1, h2, h3, h4, if_false]

/-- roundRat when the first exponent estimate is one too high -/
theorem roundRat_case2 (p q : Nat) (E : Int) (he0 : (Nat.log2 p : Int) - (Nat.log2 q : Int) - 52 = E)
    (h1 : scaledFloor p q E < 2 ^ 52) (h2 : ¬ scaledFloor p q (E - 1) ≥ 2 ^ 53) (h3 : ¬ E - 1 < -1074) (h4 : ¬ E - 1 ≥ 0) :
    roundRat p q = (if rneDiv (p * 2 ^ (-(E - 1)).toNat) q ≥ 2 ^ 53 then (rneDiv (p * 2 ^ (-(E - 1)).toNat) q / 2, E - 1 + 1)
                    else (rneDiv (p * 2 ^ (-(E - 1)).toNat) q, E - 1)) := by
  unfold roundRat
  simp only [he0, h1, h2, h3, h4, if_true, if_false]

theorem log2_one' : Nat.log2 1 = 0 := by
  have := (Nat.log2_eq_iff (n := 1) (k := 0) (by decide)).2 ⟨by decide, by decide⟩
  exact this

/-- float64(a) is exact for 0 < a < 2^52: mantissa a·2^k, exponent −k, with k = 52 − log2 a ≥ 1 -/
theorem roundRat_int (a : Nat) (ha : 0 < a) (h : a < 2 ^ 52) :
    ∃ k : Nat, 1 ≤ k ∧ k ≤ 52 ∧ 2 ^ 52 ≤ a * 2 ^ k ∧ a * 2 ^ k < 2 ^ 53 ∧ roundRat a 1 = (a * 2 ^ k, -(k : Int)) := by
  have hne : a ≠ 0 := by omega
  have hL : Nat.log2 a < 52 := (Nat.log2_lt hne).2 h
  have hlo := Nat.log2_self_le hne
  have hhi := @Nat.lt_log2_self a
  generalize hLdef : Nat.log2 a = L at *
  have hk : 52 = L + (52 - L) := by omega
  have hk1 : 53 = (L + 1) + (52 - L) := by omega
  have b1 : 2 ^ 52 ≤ a * 2 ^ (52 - L) := by
    have : (2 : Nat) ^ 52 = 2 ^ L * 2 ^ (52 - L) := by rw [← Nat.pow_add, ← hk]
    rw [this]; exact Nat.mul_le_mul_right _ hlo
  have b2 : a * 2 ^ (52 - L) < 2 ^ 53 := by
    have : (2 : Nat) ^ 53 = 2 ^ (L + 1) * 2 ^ (52 - L) := by rw [← Nat.pow_add, ← hk1]
    rw [this]; exact Nat.mul_lt_mul_of_lt_of_le hhi (Nat.le_refl _) (Nat.pow_pos (by decide))
  refine ⟨52 - L, by omega, by omega, b1, b2, ?_⟩
  have hE : ((Nat.log2 a : Nat) : Int) - ((Nat.log2 1 : Nat) : Int) - 52 = -((52 - L : Nat) : Int) := by
    rw [hLdef, log2_one']; omega
  have hsf : scaledFloor a 1 (-((52 - L : Nat) : Int)) = a * 2 ^ (52 - L) := by
    unfold scaledFloor
    have : ¬ (-((52 - L : Nat) : Int) ≥ 0) := by omega
    rw [if_neg this]
    simp
  rw [roundRat_case1 a 1 _ hE (by rw [hsf]; omega) (by rw [hsf]; omega) (by omega) (by omega)]
  have hm : rneDiv (a * 2 ^ (-(-((52 - L : Nat) : Int))).toNat) 1 = a * 2 ^ (52 - L) := by
    rw [rneDiv_one]; simp
  rw [hm, if_neg (by omega)]

/-- dividing the exact float a·2^k·2^−k by 100 and rounding to hundredths gives back a -/
theorem money_core (a k : Nat) (hk : 1 ≤ k) (hk52 : k ≤ 52) (h1 : 2 ^ 52 ≤ a * 2 ^ k) (h2 : a * 2 ^ k < 2 ^ 53) :
    hundredths (roundRat (a * 2 ^ k) (100 * 2 ^ k)).1 (roundRat (a * 2 ^ k) (100 * 2 ^ k)).2 = a := by
  have hs : 2 ≤ 2 ^ k := by
    have : 2 ^ 1 ≤ 2 ^ k := Nat.pow_le_pow_right (by decide) hk
    simpa using this
  have hspos : 0 < 2 ^ k := by omega
  generalize hp : a * 2 ^ k = p at *
  have hpne : p ≠ 0 := by omega
  have hlp : Nat.log2 p = 52 := (Nat.log2_eq_iff hpne).2 ⟨h1, h2⟩
  have hq64 : 2 ^ (6 + k) = 64 * 2 ^ k := by rw [Nat.pow_add]
  have hq128 : 2 ^ (7 + k) = 128 * 2 ^ k := by rw [Nat.pow_add]
  have hlq : Nat.log2 (100 * 2 ^ k) = 6 + k :=
    (Nat.log2_eq_iff (by omega)).2 ⟨by rw [hq64]; omega, by rw [show 6 + k + 1 = 7 + k by omega, hq128]; omega⟩
  have hE : ((Nat.log2 p : Nat) : Int) - ((Nat.log2 (100 * 2 ^ k) : Nat) : Int) - 52 = -((6 + k : Nat) : Int) := by
    rw [hlp, hlq]; omega
  have t1 : (-(-((6 + k : Nat) : Int))).toNat = 6 + k := by omega
  have t2 : (-(-((6 + k : Nat) : Int) - 1)).toNat = 7 + k := by omega
  have x64 : p * 2 ^ (6 + k) = 64 * p * 2 ^ k := by rw [hq64, Nat.mul_left_comm, Nat.mul_assoc]
  have x128 : p * 2 ^ (7 + k) = 128 * p * 2 ^ k := by rw [hq128, Nat.mul_left_comm, Nat.mul_assoc]
  have sf1 : scaledFloor p (100 * 2 ^ k) (-((6 + k : Nat) : Int)) = 64 * p / 100 := by
    unfold scaledFloor
    rw [if_neg (by omega), t1, x64, Nat.mul_div_mul_right _ _ hspos]
  have sf2 : scaledFloor p (100 * 2 ^ k) (-((6 + k : Nat) : Int) - 1) = 128 * p / 100 := by
    unfold scaledFloor
    rw [if_neg (by omega), t2, x128, Nat.mul_div_mul_right _ _ hspos]
  -- a·(c·2^k) = c·p
  have a64 : a * (64 * 2 ^ k) = 64 * p := by rw [Nat.mul_left_comm, hp]
  have a128 : a * (128 * 2 ^ k) = 128 * p := by rw [Nat.mul_left_comm, hp]
  by_cases hc : 64 * p / 100 < 2 ^ 52
  · -- exponent −(7+k)
    rw [roundRat_case2 p (100 * 2 ^ k) _ hE (by rw [sf1]; exact hc) (by rw [sf2]; omega) (by omega) (by omega)]
    rw [t2, x128, rneDiv_scale _ _ _ hspos]
    have hr := rneDiv_100 (128 * p)
    by_cases hm : rneDiv (128 * p) 100 ≥ 2 ^ 53
    · rw [if_pos hm]
      have hm' : rneDiv (128 * p) 100 = 2 ^ 53 := by omega
      simp only [hm']
      unfold hundredths
      rw [if_neg (by omega)]
      have t3 : (-(-((6 + k : Nat) : Int) - 1 + 1)).toNat = 6 + k := by omega
      rw [t3, hq64]
      apply rneDiv_near a (64 * 2 ^ k) _ (by omega)
      · rw [a64]; omega
      · rw [a64]; omega
    · rw [if_neg hm]
      unfold hundredths
      simp only
      rw [if_neg (by omega), t2, hq128]
      apply rneDiv_near a (128 * 2 ^ k) _ (by omega)
      · rw [a128]; omega
      · rw [a128]; omega
  · -- exponent −(6+k)
    rw [roundRat_case1 p (100 * 2 ^ k) _ hE (by rw [sf1]; exact hc) (by rw [sf1]; omega) (by omega) (by omega)]
    rw [t1, x64, rneDiv_scale _ _ _ hspos]
    have hr := rneDiv_100 (64 * p)
    have hm : ¬ rneDiv (64 * p) 100 ≥ 2 ^ 53 := by omega
    rw [if_neg hm]
    unfold hundredths
    simp only
    rw [if_neg (by omega), t1, hq64]
    apply rneDiv_near a (64 * 2 ^ k) _ (by omega)
    · rw [a64]; omega
    · rw [a64]; omega

/-- `$%.2f` of float64(c)/100 is the exact decimal of c/100 for |c| < 10^15 -/
theorem moneyText_exact (c : Int) (h1 : -(10 ^ 15 : Int) < c) (h2 : c < (10 ^ 15 : Int)) :
    moneyText c = (if c < 0 then [45] else []) ++ decNat (c.natAbs / 100) ++ [46] ++ padNat 2 (c.natAbs % 100) := by
  unfold moneyText
  simp only
  by_cases h0 : c.natAbs = 0
  · rw [if_pos h0, h0]
    have : ¬ c < 0 := by omega
    rw [if_neg this]
    decide
  · rw [if_neg h0]
    have ha : c.natAbs < 2 ^ 52 := by omega
    obtain ⟨k, hk1, hk52, hb1, hb2, hr⟩ := roundRat_int c.natAbs (by omega) ha
    rw [hr]
    have e1 : ¬ (-(k : Int) ≥ 0) := by omega
    have e2 : (-(-(k : Int))).toNat = k := by omega
    simp only [e1, if_false, e2]
    rw [money_core c.natAbs k hk1 hk52 hb1 hb2]

end PgVerif.Proofs.Money
