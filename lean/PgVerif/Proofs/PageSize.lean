/-
  C10, resource clause, heap pages — how much tuple data one page can report (helper lemmas for
  Props/C10/Isolation.lean:C10_size_parsePage_disjoint).

  ParsePage reports, for every accepted NORMAL line pointer, a tuple whose data is a suffix of the pointer's storage.
  If the storage areas of the accepted pointers are pairwise disjoint (PostgreSQL never overlaps tuples) their lengths add
  up to at most the 8192 bytes of the page.  Without that hypothesis nothing bounds the sum: n pointers to one tuple report
  n times its bytes (open finding C10-page-alias).
-/
import PgVerif.Proofs.Isolation
namespace PgVerif.Proofs.PageSize
open PgVerif PgVerif.Model PgVerif.Proofs

/-- the pointer passes ParsePage's tests: NORMAL, non-empty, storage inside `[upper, 8192)` -/
def accepted (upper : Nat) (it : ItemID) : Bool :=
  it.flags == 1 && it.length != 0 && decide (upper ≤ it.offset) && decide (it.offset + it.length ≤ 8192)

/-- the storage areas of two pointers do not overlap -/
def Disj (a b : ItemID) : Prop := a.offset + a.length ≤ b.offset ∨ b.offset + b.length ≤ a.offset

theorem parseHeapTuple_data_len (s : Bytes) (t : HeapTuple) (h : parseHeapTuple s = .ok (some t)) :
    t.data.length ≤ s.length := by
  unfold parseHeapTuple at h
  by_cases h23 : s.length < 23
  · simp [h23] at h
  · simp (disch := omega) only [h23, if_false, uN_ok, idx_ok, ok_bind, pure_eq_ok] at h
    split at h
    · simp at h
    · simp (disch := omega) only [sliceFrom_ok, ok_bind] at h
      split at h
      · split at h
        · simp (disch := omega) only [slice_ok, ok_bind] at h
          simp only [Except.ok.injEq, Option.some.injEq] at h
          subst h; simp
        · simp only [Except.ok.injEq, Option.some.injEq] at h
          subst h; simp
      · simp only [Except.ok.injEq, Option.some.injEq] at h
        subst h; simp

/-- a reported tuple comes from an accepted pointer and its data is no longer than the pointer's storage -/
theorem pageItem_some (data : Bytes) (hd : 8192 ≤ data.length) (upper : Nat) (it : ItemID) (t : HeapTuple)
    (h : pageItem data upper it = .ok (some t)) : accepted upper it = true ∧ t.data.length ≤ it.length := by
  unfold pageItem at h
  by_cases h1 : (it.flags != 1 || it.length == 0) = true
  · rw [if_pos h1] at h; simp at h
  · rw [if_neg h1] at h
    by_cases h2 : (decide (it.offset < upper) || decide (it.offset + it.length > 8192)) = true
    · rw [if_pos h2] at h; simp at h
    · rw [if_neg h2] at h
      simp only [Bool.or_eq_true, decide_eq_true_eq, not_or, Nat.not_lt, bne_iff_ne, ne_eq, beq_iff_eq,
        Decidable.not_not] at h1 h2
      rw [slice_ok _ _ _ (by omega) (by omega)] at h
      simp only [ok_bind] at h
      have := parseHeapTuple_data_len _ t h
      simp only [List.length_drop, List.length_take] at this
      refine ⟨?_, by omega⟩
      simp only [accepted, Bool.and_eq_true, beq_iff_eq, bne_iff_ne, ne_eq, decide_eq_true_eq]
      exact ⟨⟨⟨h1.1, h1.2⟩, h2.1⟩, by omega⟩

/-- total storage of the accepted pointers of a list -/
def weight (upper : Nat) : List ItemID → Nat
  | [] => 0
  | it :: rest => (if accepted upper it then it.length else 0) + weight upper rest

def dataSum (ts : List HeapTuple) : Nat := (ts.map fun t => t.data.length).sum

/-- what ParsePage reports weighs no more than the storage of the accepted pointers -/
theorem collect_weight (data : Bytes) (hd : 8192 ≤ data.length) (upper : Nat) :
    ∀ (items : List ItemID) (ts : List HeapTuple), collectM (pageItem data upper) items = .ok ts →
      dataSum ts ≤ weight upper items
  | [], ts, h => by
    simp only [collectM, pure_eq_ok, Except.ok.injEq] at h; subst h; simp [dataSum, weight]
  | it :: rest, ts, h => by
    simp only [collectM] at h
    cases hx : pageItem data upper it with
    | error e => rw [hx] at h; cases h
    | ok r =>
      rw [hx] at h
      simp only [ok_bind] at h
      cases hr : collectM (pageItem data upper) rest with
      | error e => rw [hr] at h; cases h
      | ok ts' =>
        rw [hr] at h
        simp only [ok_bind, pure_eq_ok, Except.ok.injEq] at h
        have ih := collect_weight data hd upper rest ts' hr
        cases r with
        | none =>
          have h2 : ts' = ts := h
          subst h2
          simp only [weight]; omega
        | some t =>
          have h2 : t :: ts' = ts := h
          subst h2
          have ⟨ha, hl⟩ := pageItem_some data hd upper it t hx
          simp only [weight, ha, if_true, dataSum, List.map_cons, List.sum_cons] at ih ⊢
          omega

/-! ### pairwise disjoint intervals inside `[0, N)` have total length at most `N` -/

def inside (it : ItemID) (k : Nat) : Bool := decide (it.offset ≤ k) && decide (k < it.offset + it.length)

/-- number of points of `[0, N)` inside one interval -/
theorem count_inside (it : ItemID) : ∀ N, ((List.range N).filter (inside it)).length = min (it.offset + it.length) N - min it.offset N
  | 0 => by simp
  | N+1 => by
    rw [List.range_succ, List.filter_append, List.length_append, count_inside it N]
    by_cases h : inside it N = true
    · have h' := h
      simp only [inside, Bool.and_eq_true, decide_eq_true_eq] at h'
      simp only [List.filter_cons, h, if_true, List.filter_nil, List.length_singleton]; omega
    · have h' := h
      simp only [inside, Bool.and_eq_true, decide_eq_true_eq, not_and, Nat.not_lt] at h'
      have hf : inside it N = false := by simpa using h
      simp only [List.filter_cons, hf, Bool.false_eq_true, if_false, List.filter_nil, List.length_nil]
      by_cases ho : it.offset ≤ N
      · have := h' ho; omega
      · omega

/-- how many of the accepted pointers of `items` contain the point `k` -/
def cover (upper : Nat) (items : List ItemID) (k : Nat) : Nat := (items.filter fun it => accepted upper it && inside it k).length

theorem sum_add_map (l : List Nat) (f g : Nat → Nat) :
    (l.map fun k => f k + g k).sum = (l.map f).sum + (l.map g).sum := by
  induction l with
  | nil => rfl
  | cons x xs ih => simp only [List.map_cons, List.sum_cons, ih]; omega

theorem filter_length_sum (l : List Nat) (p : Nat → Bool) : (l.filter p).length = (l.map fun k => if p k then 1 else 0).sum := by
  induction l with
  | nil => rfl
  | cons x xs ih =>
    simp only [List.filter_cons, List.map_cons, List.sum_cons]
    by_cases h : p x = true
    · simp only [h, if_true, List.length_cons, ih]; omega
    · simp only [h, Bool.false_eq_true, if_false, ih]; omega

theorem sum_map_zero (l : List Nat) (f : Nat → Nat) (h : ∀ k, f k = 0) : (l.map f).sum = 0 := by
  induction l with
  | nil => rfl
  | cons x xs ih => simp only [List.map_cons, List.sum_cons, ih, h x]

/-- double counting: the weight is the number of (point, accepted pointer) incidences -/
theorem weight_eq_cover (upper N : Nat) : ∀ (items : List ItemID), (∀ it ∈ items, accepted upper it = true → it.offset + it.length ≤ N) →
    weight upper items = ((List.range N).map (cover upper items)).sum
  | [], _ => by
    rw [sum_map_zero _ _ (fun k => by simp [cover])]; rfl
  | it :: rest, hb => by
    have ih := weight_eq_cover upper N rest (fun x hx => hb x (by simp [hx]))
    have hc : ∀ k, cover upper (it :: rest) k = (if (accepted upper it && inside it k) then 1 else 0) + cover upper rest k := by
      intro k
      simp only [cover, List.filter_cons]
      by_cases h : (accepted upper it && inside it k) = true
      · simp only [h, if_true, List.length_cons]; omega
      · simp only [h, Bool.false_eq_true, if_false]; omega
    have hc' : cover upper (it :: rest) =
        fun k => (if (accepted upper it && inside it k) then 1 else 0) + cover upper rest k := funext hc
    simp only [weight]
    rw [hc', sum_add_map, ← ih]
    congr 1
    by_cases ha : accepted upper it = true
    · have hbnd := hb it (by simp) ha
      simp only [ha, if_true, Bool.true_and]
      rw [← filter_length_sum, count_inside]; omega
    · have haf : accepted upper it = false := by simpa using ha
      simp only [haf, Bool.false_eq_true, if_false, Bool.false_and]
      rw [sum_map_zero _ _ (fun _ => rfl)]

/-- disjoint storage: no point is covered twice -/
theorem cover_le_one (upper : Nat) (k : Nat) : ∀ (items : List ItemID),
    (items.filter (accepted upper)).Pairwise Disj → cover upper items k ≤ 1
  | [], _ => by simp [cover]
  | it :: rest, hp => by
    by_cases ha : accepted upper it = true
    · rw [List.filter_cons, if_pos ha, List.pairwise_cons] at hp
      have ih := cover_le_one upper k rest hp.2
      by_cases hi : inside it k = true
      · -- no other accepted pointer contains k
        have hz : cover upper rest k = 0 := by
          simp only [cover, List.length_eq_zero_iff, List.filter_eq_nil_iff, Bool.and_eq_true, not_and]
          intro x hx hax hix
          have hd := hp.1 x (List.mem_filter.mpr ⟨hx, hax⟩)
          simp only [inside, Bool.and_eq_true, decide_eq_true_eq] at hi hix
          unfold Disj at hd
          omega
        simp only [cover, List.filter_cons, ha, hi, Bool.and_self, if_true, List.length_cons]
        simp only [cover] at hz; omega
      · simp only [cover, List.filter_cons, ha, hi, Bool.and_false, Bool.false_eq_true, if_false]
        exact ih
    · rw [List.filter_cons, if_neg ha] at hp
      have ih := cover_le_one upper k rest hp
      simp only [cover, List.filter_cons, ha, Bool.false_and, Bool.false_eq_true, if_false]
      exact ih

theorem sum_le_length (l : List Nat) (f : Nat → Nat) (h : ∀ k, f k ≤ 1) : (l.map f).sum ≤ l.length := by
  induction l with
  | nil => simp
  | cons x xs ih => simp only [List.map_cons, List.sum_cons, List.length_cons]; have := h x; omega

/-- pairwise disjoint accepted pointers weigh at most one page -/
theorem weight_le (upper N : Nat) (items : List ItemID) (hb : ∀ it ∈ items, accepted upper it = true → it.offset + it.length ≤ N)
    (hp : (items.filter (accepted upper)).Pairwise Disj) : weight upper items ≤ N := by
  rw [weight_eq_cover upper N items hb]
  have := sum_le_length (List.range N) (cover upper items) (fun k => cover_le_one upper k items hp)
  simpa using this

theorem weight_le_page (upper : Nat) (items : List ItemID) (hp : (items.filter (accepted upper)).Pairwise Disj) :
    weight upper items ≤ 8192 :=
  weight_le upper 8192 items (fun it _ ha => by
    simp only [accepted, Bool.and_eq_true, decide_eq_true_eq] at ha; exact ha.2) hp

end PgVerif.Proofs.PageSize
