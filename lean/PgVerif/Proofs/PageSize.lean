/-
  C10, resource clause, heap pages — how much tuple data one page can report (helper lemmas for
  Props/C10/Isolation.lean:C10_size_parsePage).

  ParsePage reports, for every accepted NORMAL line pointer, a tuple whose data is a suffix of the pointer's storage, and
  (fix heap/02) it skips a pointer whose storage overlaps the storage of a tuple it has already reported.  So the storage
  areas of the reported tuples are pairwise disjoint pieces of `[0, 8192)` and their lengths add up to at most the 8192
  bytes of the page — for every byte string (`parsePage_dataSum_le`).
-/
import PgVerif.Proofs.Isolation
namespace PgVerif.Proofs.PageSize
open PgVerif PgVerif.Model PgVerif.Proofs

/-- the pointer passes ParsePage's tests: NORMAL, non-empty, storage inside `[upper, 8192)` -/
def accepted (upper : Nat) (it : ItemID) : Bool :=
  it.flags == 1 && it.length != 0 && decide (upper ≤ it.offset) && decide (it.offset + it.length ≤ 8192)

/-- the storage areas of two pointers do not overlap -/
def Disj (a b : ItemID) : Prop := a.offset + a.length ≤ b.offset ∨ b.offset + b.length ≤ a.offset

theorem parseHeapTuple_data_len (s : Bytes) (t : HeapTuple) (h : parseHeapTuple s = .ok (some t)) :
    t.data.length ≤ s.length := by
  unfold parseHeapTuple at h
  by_cases h23 : s.length < 23
  · simp [h23] at h
  · simp (disch := omega) only [h23, if_false, uN_ok, idx_ok, ok_bind, pure_eq_ok] at h
    split at h
    · simp at h
    · simp (disch := omega) only [sliceFrom_ok, ok_bind] at h
      split at h
      · split at h
        · simp (disch := omega) only [slice_ok, ok_bind] at h
          simp only [Except.ok.injEq, Option.some.injEq] at h
          subst h; simp
        · simp only [Except.ok.injEq, Option.some.injEq] at h
          subst h; simp
      · simp only [Except.ok.injEq, Option.some.injEq] at h
        subst h; simp

/-- a reported tuple comes from an accepted pointer and its data is no longer than the pointer's storage -/
theorem pageItem_some (data : Bytes) (hd : 8192 ≤ data.length) (upper : Nat) (it : ItemID) (t : HeapTuple)
    (h : pageItem data upper it = .ok (some t)) : accepted upper it = true ∧ t.data.length ≤ it.length := by
  unfold pageItem at h
  by_cases h1 : (it.flags != 1 || it.length == 0) = true
  · rw [if_pos h1] at h; simp at h
  · rw [if_neg h1] at h
    by_cases h2 : (decide (it.offset < upper) || decide (it.offset + it.length > 8192)) = true
    · rw [if_pos h2] at h; simp at h
    · rw [if_neg h2] at h
      simp only [Bool.or_eq_true, decide_eq_true_eq, not_or, Nat.not_lt, bne_iff_ne, ne_eq, beq_iff_eq,
        Decidable.not_not] at h1 h2
      rw [slice_ok _ _ _ (by omega) (by omega)] at h
      simp only [ok_bind] at h
      have := parseHeapTuple_data_len _ t h
      simp only [List.length_drop, List.length_take] at this
      refine ⟨?_, by omega⟩
      simp only [accepted, Bool.and_eq_true, beq_iff_eq, bne_iff_ne, ne_eq, decide_eq_true_eq]
      exact ⟨⟨⟨h1.1, h1.2⟩, h2.1⟩, by omega⟩

/-- total storage of the accepted pointers of a list -/
def weight (upper : Nat) : List ItemID → Nat
  | [] => 0
  | it :: rest => (if accepted upper it then it.length else 0) + weight upper rest

def dataSum (ts : List HeapTuple) : Nat := (ts.map fun t => t.data.length).sum

/-! ### pairwise disjoint intervals inside `[0, N)` have total length at most `N` -/

def inside (it : ItemID) (k : Nat) : Bool := decide (it.offset ≤ k) && decide (k < it.offset + it.length)

/-- number of points of `[0, N)` inside one interval -/
theorem count_inside (it : ItemID) : ∀ N, ((List.range N).filter (inside it)).length = min (it.offset + it.length) N - min it.offset N
  | 0 => by simp
  | N+1 => by
    rw [List.range_succ, List.filter_append, List.length_append, count_inside it N]
    by_cases h : inside it N = true
    · have h' := h
      simp only [inside, Bool.and_eq_true, decide_eq_true_eq] at h'
      simp only [List.filter_cons, h, if_true, List.filter_nil, List.length_singleton]; omega
    · have h' := h
      simp only [inside, Bool.and_eq_true, decide_eq_true_eq, not_and, Nat.not_lt] at h'
      have hf : inside it N = false := by simpa using h
      simp only [List.filter_cons, hf, Bool.false_eq_true, if_false, List.filter_nil, List.length_nil]
      by_cases ho : it.offset ≤ N
      · have := h' ho; omega
      · omega

/-- how many of the accepted pointers of `items` contain the point `k` -/
def cover (upper : Nat) (items : List ItemID) (k : Nat) : Nat := (items.filter fun it => accepted upper it && inside it k).length

theorem sum_add_map (l : List Nat) (f g : Nat → Nat) :
    (l.map fun k => f k + g k).sum = (l.map f).sum + (l.map g).sum := by
  induction l with
  | nil => rfl
  | cons x xs ih => simp only [List.map_cons, List.sum_cons, ih]; omega

theorem filter_length_sum (l : List Nat) (p : Nat → Bool) : (l.filter p).length = (l.map fun k => if p k then 1 else 0).sum := by
  induction l with
  | nil => rfl
  | cons x xs ih =>
    simp only [List.filter_cons, List.map_cons, List.sum_cons]
    by_cases h : p x = true
    · simp only [h, if_true, List.length_cons, ih]; omega
    · simp only [h, Bool.false_eq_true, if_false, ih]; omega

theorem sum_map_zero (l : List Nat) (f : Nat → Nat) (h : ∀ k, f k = 0) : (l.map f).sum = 0 := by
  induction l with
  | nil => rfl
  | cons x xs ih => simp only [List.map_cons, List.sum_cons, ih, h x]

/-- double counting: the weight is the number of (point, accepted pointer) incidences -/
theorem weight_eq_cover (upper N : Nat) : ∀ (items : List ItemID), (∀ it ∈ items, accepted upper it = true → it.offset + it.length ≤ N) →
    weight upper items = ((List.range N).map (cover upper items)).sum
  | [], _ => by
    rw [sum_map_zero _ _ (fun k => by simp [cover])]; rfl
  | it :: rest, hb => by
    have ih := weight_eq_cover upper N rest (fun x hx => hb x (by simp [hx]))
    have hc : ∀ k, cover upper (it :: rest) k = (if (accepted upper it && inside it k) then 1 else 0) + cover upper rest k := by
      intro k
      simp only [cover, List.filter_cons]
      by_cases h : (accepted upper it && inside it k) = true
      · simp only [h, if_true, List.length_cons]; omega
      · simp only [h, Bool.false_eq_true, if_false]; omega
    have hc' : cover upper (it :: rest) =
        fun k => (if (accepted upper it && inside it k) then 1 else 0) + cover upper rest k := funext hc
    simp only [weight]
    rw [hc', sum_add_map, ← ih]
    congr 1
    by_cases ha : accepted upper it = true
    · have hbnd := hb it (by simp) ha
      simp only [ha, if_true, Bool.true_and]
      rw [← filter_length_sum, count_inside]; omega
    · have haf : accepted upper it = false := by simpa using ha
      simp only [haf, Bool.false_eq_true, if_false, Bool.false_and]
      rw [sum_map_zero _ _ (fun _ => rfl)]

/-- disjoint storage: no point is covered twice -/
theorem cover_le_one (upper : Nat) (k : Nat) : ∀ (items : List ItemID),
    (items.filter (accepted upper)).Pairwise Disj → cover upper items k ≤ 1
  | [], _ => by simp [cover]
  | it :: rest, hp => by
    by_cases ha : accepted upper it = true
    · rw [List.filter_cons, if_pos ha, List.pairwise_cons] at hp
      have ih := cover_le_one upper k rest hp.2
      by_cases hi : inside it k = true
      · -- no other accepted pointer contains k
        have hz : cover upper rest k = 0 := by
          simp only [cover, List.length_eq_zero_iff, List.filter_eq_nil_iff, Bool.and_eq_true, not_and]
          intro x hx hax hix
          have hd := hp.1 x (List.mem_filter.mpr ⟨hx, hax⟩)
          simp only [inside, Bool.and_eq_true, decide_eq_true_eq] at hi hix
          unfold Disj at hd
          omega
        simp only [cover, List.filter_cons, ha, hi, Bool.and_self, if_true, List.length_cons]
        simp only [cover] at hz; omega
      · simp only [cover, List.filter_cons, ha, hi, Bool.and_false, Bool.false_eq_true, if_false]
        exact ih
    · rw [List.filter_cons, if_neg ha] at hp
      have ih := cover_le_one upper k rest hp
      simp only [cover, List.filter_cons, ha, Bool.false_and, Bool.false_eq_true, if_false]
      exact ih

theorem sum_le_length (l : List Nat) (f : Nat → Nat) (h : ∀ k, f k ≤ 1) : (l.map f).sum ≤ l.length := by
  induction l with
  | nil => simp
  | cons x xs ih => simp only [List.map_cons, List.sum_cons, List.length_cons]; have := h x; omega

/-- pairwise disjoint accepted pointers weigh at most one page -/
theorem weight_le (upper N : Nat) (items : List ItemID) (hb : ∀ it ∈ items, accepted upper it = true → it.offset + it.length ≤ N)
    (hp : (items.filter (accepted upper)).Pairwise Disj) : weight upper items ≤ N := by
  rw [weight_eq_cover upper N items hb]
  have := sum_le_length (List.range N) (cover upper items) (fun k => cover_le_one upper k items hp)
  simpa using this

theorem weight_le_page (upper : Nat) (items : List ItemID) (hp : (items.filter (accepted upper)).Pairwise Disj) :
    weight upper items ≤ 8192 :=
  weight_le upper 8192 items (fun it _ ha => by
    simp only [accepted, Bool.and_eq_true, decide_eq_true_eq] at ha; exact ha.2) hp

theorem weight_append (upper : Nat) (xs ys : List ItemID) : weight upper (xs ++ ys) = weight upper xs + weight upper ys := by
  induction xs with
  | nil => simp [weight]
  | cons x xs ih => simp only [List.cons_append, weight, ih]; omega

/-- **What the guarded loop reports, plus what was claimed before, fits one page.**  `claimed` = accepted pointers with
pairwise disjoint storage (the invariant of ParsePage's loop: it appends a pointer only when nothing claimed overlaps
it); then the data of the tuples the loop still reports and the storage already claimed add up to at most 8192 bytes. -/
theorem pageLoop_weight (data : Bytes) (hd : 8192 ≤ data.length) (upper : Nat) :
    ∀ (items claimed : List ItemID) (ts : List HeapTuple), pageLoop data upper items claimed = .ok ts →
      (∀ c ∈ claimed, accepted upper c = true) → claimed.Pairwise Disj →
      dataSum ts + weight upper claimed ≤ 8192
  | [], claimed, ts, h, hacc, hp => by
    rw [pageLoop_nil] at h; cases h
    have hf : claimed.filter (accepted upper) = claimed := List.filter_eq_self.mpr hacc
    have := weight_le_page upper claimed (by rw [hf]; exact hp)
    simp only [dataSum, List.map_nil, List.sum_nil]; omega
  | it :: rest, claimed, ts, h, hacc, hp => by
    cases hx : pageItemG data upper claimed it with
    | error e => rw [pageLoop_cons_error _ _ _ _ _ e hx] at h; cases h
    | ok r =>
      cases r with
      | none =>
        rw [pageLoop_cons_none _ _ _ _ _ hx] at h
        exact pageLoop_weight data hd upper rest claimed ts h hacc hp
      | some t =>
        rw [pageLoop_cons_some _ _ _ _ _ t hx] at h
        cases hr : pageLoop data upper rest (claimed ++ [it]) with
        | error e => rw [hr] at h; cases h
        | ok ts' =>
          rw [hr] at h
          simp only [ok_bind, pure_eq_ok, Except.ok.injEq] at h
          subst h
          obtain ⟨hno, hitem⟩ := pageItemG_some _ _ _ _ _ hx
          obtain ⟨ha, hl⟩ := pageItem_some data hd upper it t hitem
          have hacc' : ∀ c ∈ claimed ++ [it], accepted upper c = true := by
            intro c hc
            rcases List.mem_append.mp hc with hc | hc
            · exact hacc c hc
            · rw [List.mem_singleton.mp hc]; exact ha
          have hp' : (claimed ++ [it]).Pairwise Disj := by
            rw [List.pairwise_append]
            refine ⟨hp, List.pairwise_singleton _ _, ?_⟩
            intro a ham b hb
            rw [List.mem_singleton.mp hb]
            exact (overlaps_false_iff it a).mp ((overlapsAny_false_iff claimed it).mp hno a ham)
          have ih := pageLoop_weight data hd upper rest (claimed ++ [it]) ts' hr hacc' hp'
          rw [weight_append] at ih
          simp only [weight, ha, if_true, dataSum, List.map_cons, List.sum_cons, Nat.add_zero] at ih ⊢
          omega

/-- **One page reports at most one page of tuple data, for every byte string.** -/
theorem parsePage_dataSum_le (data : Bytes) (ts : List HeapTuple) (hp : parsePage data = .ok ts) : dataSum ts ≤ 8192 := by
  by_cases hl : data.length < 8192
  · unfold parsePage at hp
    simp only [hl, if_true] at hp
    cases hp; simp [dataSum]
  · have hd : 8192 ≤ data.length := by omega
    cases hh : parseHeader data with
    | error e => unfold parsePage at hp; rw [if_neg hl, hh] at hp; cases hp
    | ok h =>
      by_cases hv : validHeader h = true
      · cases hi : parseItems data h.lower with
        | error e =>
          unfold parsePage at hp
          rw [if_neg hl, hh] at hp
          simp only [ok_bind, hv, Bool.not_true, Bool.false_eq_true, if_false, hi] at hp
          cases hp
        | ok items =>
          rw [Isolation.parsePage_items data hd h hh hv items hi] at hp
          have := pageLoop_weight data hd h.upper items [] ts hp (fun _ hc => by cases hc) List.Pairwise.nil
          omega
      · unfold parsePage at hp
        rw [if_neg hl, hh] at hp
        simp only [ok_bind, hv, Bool.not_false, if_true] at hp
        cases hp; simp [dataSum]

/-! ### the whole file -/

def dataSumE (es : List TupleEntry) : Nat := (es.map fun e => e.tuple.data.length).sum

theorem dataSum_filter_le (ts : List HeapTuple) (f : HeapTuple → Bool) : dataSum (ts.filter f) ≤ dataSum ts := by
  induction ts with
  | nil => simp
  | cons t ts ih =>
    simp only [List.filter_cons]
    split
    · simp only [dataSum, List.map_cons, List.sum_cons] at ih ⊢; omega
    · simp only [dataSum, List.map_cons, List.sum_cons] at ih ⊢; omega

theorem dataSumE_pageEntries (vis : Bool) (off : Nat) (ts : List HeapTuple) :
    dataSumE (pageEntries vis off ts) = dataSum (ts.filter fun t => !vis || t.isVisible) := by
  simp [dataSumE, pageEntries, dataSum, List.map_map, Function.comp_def]

theorem dataSumE_append (a b : List TupleEntry) : dataSumE (a ++ b) = dataSumE a + dataSumE b := by
  simp [dataSumE]

/-- the scan from `off` on reports at most 8192 bytes of tuple data per whole page left -/
theorem readTuplesFrom_dataSum_le (data : Bytes) (vis : Bool) :
    ∀ (n off : Nat) (es : List TupleEntry), readTuplesFrom data vis n off = .ok es →
      dataSumE es ≤ 8192 * ((data.length - off) / 8192)
  | 0, _, es, h => by
    simp only [readTuplesFrom, pure_eq_ok, Except.ok.injEq] at h; subst h; simp [dataSumE]
  | n+1, off, es, h => by
    rw [readTuplesFrom_succ] at h
    by_cases hc : off + 8192 ≤ data.length
    · rw [if_pos hc, slice_ok _ _ _ hc (by omega)] at h
      simp only [ok_bind] at h
      cases hp : parsePage ((data.take (off + 8192)).drop off) with
      | error e => rw [hp] at h; cases h
      | ok ts =>
        rw [hp] at h
        simp only [ok_bind] at h
        cases hr : readTuplesFrom data vis n (off + 8192) with
        | error e => rw [hr] at h; cases h
        | ok rest =>
          rw [hr] at h
          simp only [ok_bind, pure_eq_ok, Except.ok.injEq] at h
          subst h
          have ih := readTuplesFrom_dataSum_le data vis n (off + 8192) rest hr
          have h1 := parsePage_dataSum_le _ ts hp
          have h2 := dataSum_filter_le ts (fun t => !vis || t.isVisible)
          rw [dataSumE_append, dataSumE_pageEntries]
          have hq : (data.length - off) / 8192 = (data.length - (off + 8192)) / 8192 + 1 := by omega
          rw [hq, Nat.mul_add]
          omega
    · rw [if_neg hc] at h
      simp only [pure_eq_ok, Except.ok.injEq] at h; subst h; simp [dataSumE]

/-- **ReadTuples never reports more tuple data than the file holds**: at most 8192 bytes per whole page. -/
theorem readTuples_dataSum_le (data : Bytes) (vis : Bool) (es : List TupleEntry) (h : readTuples data vis = .ok es) :
    (es.map fun e => e.tuple.data.length).sum ≤ 8192 * (data.length / 8192) := by
  have := readTuplesFrom_dataSum_le data vis _ 0 es h
  simpa [dataSumE] using this

end PgVerif.Proofs.PageSize
