/-
  The array types of the SQL export (fix 14): pgread's tables (types.go:arrayElemTypes, read from the source; TypeName and
  pgTypeToSQL, executed) against pg_type (`Spec.SqlExport.pgArrayTypes`), and what the value-level proofs of C13 need of a
  pair (type the Spec checks a value against, typID the code formats it with).
-/
import PgVerif.Proofs.SqlCompose
import PgVerif.Generated.Arrays
namespace PgVerif.Proofs.SqlArrayTypes
open PgVerif PgVerif.Export PgVerif.Model.Export PgVerif.Proofs.SqlLex PgVerif.Proofs.SqlCompose
open PgVerif.Spec.SqlLex hiding asc
open PgVerif.Spec.SqlExport (one isOp arrayType elemType castOf isJsonType pgArrayTypes)

/-! ### one bare word -/

def wordOK (w : Bytes) : Bool :=
  match w with
  | [] => false
  | c :: t => isIdentStart c && t.all isIdentCont

def wordTok (w : Bytes) : Tok := .word (fold w)

theorem reads_wordOK (w : Bytes) (h : wordOK w = true) : Reads wordB w [wordTok w] := by
  cases w with
  | nil => simp [wordOK] at h
  | cons c t =>
    simp only [wordOK, Bool.and_eq_true, List.all_eq_true] at h
    exact reads_word c t h.1 h.2

/-! ### the tables -/

/-- the array type oids in scope -/
def keys : List Int := pgArrayTypes.map (·.1)

/-- pgread decodes exactly the array types in the Spec's scope -/
theorem gen_keys : Generated.Export.arrayElemTypes.map (·.1) = keys := by decide

/-- types.go:arrayElemTypes against pg_type.typelem: equal for every array type, except `_regproc` (1008), whose elements
(regproc, oid 24: a 4-byte oid) pgread reads as `oid` (26) — same representation, neither is a JSON or an array type -/
theorem elemTypes_typelem : ∀ p ∈ Generated.Export.arrayElemTypes,
    (arrayType p.1).map (·.1) = some p.2 ∨ (p.1 = 1008 ∧ p.2 = 26 ∧ (arrayType 1008).map (·.1) = some 24) := by decide

/-- the table read from the source is what the executed code shows of it (`arrayCastProbe`: for every oid in -2..5999, is
the cell [true] written with a cast, which, and is the element written as JSON): same oids, the cast is the model's
`arrayCast`, the element is JSON text exactly when the element type is json/jsonb -/
theorem probe_model : Generated.Export.arrayCastProbe.map (fun e => (e.1, Export.asc e.2.1, e.2.2)) =
    Generated.Export.arrayElemTypes.map (fun p => (p.1, arrayCast p.1, isJsonOid p.2)) := by decide +kernel

/-- the same table as area `arrays` reads (Generated.Arrays, the decoder's side) -/
theorem same_as_arrays : Generated.Export.arrayElemTypes =
    Generated.Arrays.arrayElemTypes.map (fun p => ((p.1 : Int), (p.2 : Int))) := by decide

/-- per array type: the cast the code writes is `::` + ONE bare word that folds to pg_type's typname; the element type is
JSON on both sides or on neither, and is not an array type on either side -/
def keyOK (ty : Int) : Bool :=
  (arrayType ty).map (·.2) == some (fold (pgTypeToSQL (typeName ty) ty)) &&
  wordOK (pgTypeToSQL (typeName ty) ty) &&
  (arrayElemType ty).isSome &&
  (isJsonType (elemType ty) == isJsonOid ((arrayElemType ty).getD 0)) &&
  (arrayType (elemType ty)).isNone && (arrayElemType ((arrayElemType ty).getD 0)).isNone

theorem keys_ok : keys.all keyOK = true := by decide +kernel

theorem find_none {α} (l : List (Int × α)) (ty : Int) (h : ty ∉ l.map (·.1)) : l.find? (·.1 == ty) = none := by
  rw [List.find?_eq_none]
  intro x hx hp
  apply h
  have : x.1 = ty := by simpa using hp
  rw [← this]
  exact List.mem_map_of_mem hx

theorem not_key (ty : Int) (h : ty ∉ keys) : arrayType ty = none ∧ arrayElemType ty = none := by
  constructor
  · unfold arrayType; rw [find_none pgArrayTypes ty h]; rfl
  · unfold arrayElemType; rw [find_none Generated.Export.arrayElemTypes ty (by rw [gen_keys]; exact h)]; rfl

/-! ### pairs (Spec type, model typID) -/

/-- the tokens of the cast the model writes -/
def castToks (mt : Int) : List Tok :=
  match arrayElemType mt with
  | some _ => [.op [58], .op [58], wordTok (pgTypeToSQL (typeName mt) mt)]
  | none => []

/-- what the value-level proofs need of a Spec type `st` and the typID `mt` the code formats with -/
structure Pair (st mt : Int) : Prop where
  json : isJsonType st = isJsonOid mt
  cast : ∀ more, castOf st (castToks mt ++ more) = some more
  reads : Reads wordB (arrayCast mt) (castToks mt) ∨ (arrayCast mt = [] ∧ castToks mt = [])
  elemJson : isJsonType (elemType st) = isJsonOid ((arrayElemType mt).getD 0)
  elemLeafS : arrayType (elemType st) = none
  elemLeafM : arrayElemType ((arrayElemType mt).getD 0) = none

theorem elemType_of_none (ty : Int) (h : arrayType ty = none) : elemType ty = 0 := by
  unfold elemType; rw [h]

theorem zero_facts : arrayType 0 = none ∧ arrayElemType 0 = none ∧ isJsonType 0 = isJsonOid 0 := by decide

/-- a pair of types that are not array types on either side (elements of arrays, the unknown type 0) -/
theorem Pair.leaf (st mt : Int) (hj : isJsonType st = isJsonOid mt) (hs : arrayType st = none) (hm : arrayElemType mt = none) :
    Pair st mt where
  json := hj
  cast := fun more => by simp [castOf, castToks, hs, hm]
  reads := Or.inr ⟨by simp [arrayCast, hm], by simp [castToks, hm]⟩
  elemJson := by rw [elemType_of_none st hs, hm]; exact zero_facts.2.2
  elemLeafS := by rw [elemType_of_none st hs]; exact zero_facts.1
  elemLeafM := by rw [hm]; exact zero_facts.2.1

/-- the elements of a pair form a pair -/
theorem Pair.elem {st mt : Int} (h : Pair st mt) : Pair (elemType st) ((arrayElemType mt).getD 0) :=
  Pair.leaf _ _ h.elemJson h.elemLeafS h.elemLeafM

theorem colon2 : Reads anyB [58, 58] [.op [58], .op [58]] := by
  have h := reads_self 58 (by decide) (by decide)
  have := Reads.append_cons h h trivial
  simpa using this

/-- every type oid, as the Spec's type and as the code's typID, is a pair: in a column of type `ty` the code's text is
checked against `ty` -/
theorem Pair.self (ty : Int) : Pair ty ty := by
  by_cases hk : ty ∈ keys
  · have hok := List.all_eq_true.mp keys_ok ty hk
    simp only [keyOK, Bool.and_eq_true, beq_iff_eq, Option.isNone_iff_eq_none] at hok
    obtain ⟨⟨⟨⟨⟨h1, h2⟩, h3⟩, h4⟩, h5⟩, h6⟩ := hok
    obtain ⟨em, hem⟩ := Option.isSome_iff_exists.mp h3
    cases hat : arrayType ty with
    | none => rw [hat] at h1; simp at h1
    | some p =>
      obtain ⟨es, nm⟩ := p
      rw [hat] at h1
      simp only [Option.map_some, Option.some.injEq] at h1
      refine ⟨rfl, ?_, Or.inl ?_, h4, h5, h6⟩
      · intro more
        simp only [castOf, hat, castToks, hem, wordTok, List.cons_append, List.nil_append]
        simp [one, isOp, h1]
      · have hw := reads_wordOK _ h2
        have := Reads.append colon2 hw (fun _ _ => trivial)
        simp only [arrayCast, castToks, hem]
        exact this
  · obtain ⟨hs, hm⟩ := not_key ty hk
    exact Pair.leaf ty ty rfl hs hm

end PgVerif.Proofs.SqlArrayTypes
