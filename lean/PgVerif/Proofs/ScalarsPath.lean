/-
  path / polygon: the stored layout round-trips through decodePathOrPolygon, and the stored and the send/recv
  layouts can never both fit one input.
-/
import PgVerif.Proofs.ScalarsRT
import PgVerif.Proofs.ScalarsRange
namespace PgVerif.Proofs.ScalarsRT
open PgVerif PgVerif.Model.Scalars PgVerif.Spec.Scalars PgVerif.Txt

set_option linter.unusedSimpArgs false

/-! ### the points loop -/

theorem flatMap_encPt_length (pts : List Pt) : (pts.flatMap encPt).length = 16 * pts.length := by
  induction pts with
  | nil => rfl
  | cons p t ih => simp only [List.flatMap_cons, List.length_append, encPt_length, ih, List.length_cons]; omega

theorem pathPoints_enc (first : Nat) (rest : List Pt) (a : Bytes) (i : Nat) (ha : a.length = first + i * 16)
    (hc : ∀ p ∈ rest, p.1 < 2 ^ 64 ∧ p.2 < 2 ^ 64) :
    pathPoints (a ++ rest.flatMap encPt) first rest.length i = .ok (rest.map ptPieces) := by
  induction rest generalizing a i with
  | nil => rfl
  | cons p t ih =>
    have hp := hc p (List.mem_cons_self)
    have ht : ∀ q ∈ t, q.1 < 2 ^ 64 ∧ q.2 < 2 ^ 64 := fun q hq => hc q (List.mem_cons_of_mem _ hq)
    have e : a ++ (p :: t).flatMap encPt = a ++ encPt p ++ t.flatMap encPt := by
      simp only [List.flatMap_cons, List.append_assoc]
    have hi : first + (i + 1) * 16 = first + i * 16 + 16 := by omega
    have s : slice (a ++ encPt p ++ t.flatMap encPt) (first + i * 16) (first + (i + 1) * 16) = .ok (encPt p) := by
      rw [hi]; exact slice_mid a (encPt p) _ _ 16 ha (encPt_length p)
    have r := ih (a ++ encPt p) (i + 1) (by simp only [List.length_append, encPt_length, ha]; omega) ht
    rw [e]
    simp only [List.length_cons, pathPoints, s, ok_bind, decodePoint_enc p hp.1 hp.2, r, pure_eq_ok, List.map_cons]

/-! ### the stored layout is recognised -/

theorem wf_path (closed : Bool) (pts : List Pt) (h : (Val.path closed pts).WF) :
    1 ≤ pts.length ∧ pts.length < 2 ^ 27 ∧ ∀ p ∈ pts, p.1 < 2 ^ 64 ∧ p.2 < 2 ^ 64 := by
  simpa [Val.WF, Val.wf, and_assoc] using h

theorem wf_polygon (bbox : Bytes) (pts : List Pt) (h : (Val.polygon bbox pts).WF) :
    bbox.length = 32 ∧ 1 ≤ pts.length ∧ pts.length < 2 ^ 27 ∧ ∀ p ∈ pts, p.1 < 2 ^ 64 ∧ p.2 < 2 ^ 64 := by
  simpa [Val.WF, Val.wf, and_assoc] using h

theorem i32_le0 (n : Nat) (rest : Bytes) (h : n < 2 ^ 27) : i32 (le 4 n ++ rest) 0 = .ok (n : Int) := by
  have h1 : n < 256 ^ 4 := by
    have : (256 : Nat) ^ 4 = 2 ^ 32 := by decide
    have : (2 : Nat) ^ 27 < 2 ^ 32 := by decide
    omega
  have h2 : n < 2 ^ (32 - 1) := by
    have : (2 : Nat) ^ 27 < 2 ^ (32 - 1) := by decide
    omega
  simp only [i32, uN_le0 4 n rest h1, ok_bind, pure_eq_ok, toSigned_small 32 n h2]

theorem i32_le4 (n f : Nat) (rest : Bytes) (h : f < 2) : i32 (le 4 n ++ (le 4 f ++ rest)) 4 = .ok (f : Int) := by
  have h1 : f < 256 ^ 4 := by
    have : (256 : Nat) ^ 4 = 2 ^ 32 := by decide
    omega
  have h2 : f < 2 ^ (32 - 1) := by
    have : (2 : Nat) < 2 ^ (32 - 1) := by decide
    omega
  simp only [i32, uN_le 4 f 4 (le 4 n) rest (by simp) h1, ok_bind, pure_eq_ok, toSigned_small 32 f h2]

theorem stored_never_fallback_path (closed : Bool) (pts : List Pt) (h : (Val.path closed pts).WF) :
    storedLayout (enc (.path closed pts)) 602 = .ok (some (pts.length, closed)) := by
  obtain ⟨_, hn, _⟩ := wf_path closed pts h
  show storedLayout (le 4 pts.length ++ le 4 (if closed then 1 else 0) ++ le 4 0 ++ pts.flatMap encPt) 602 = _
  have hf : (if closed then 1 else 0 : Nat) < 2 := by cases closed <;> decide
  generalize hfd : (if closed then 1 else 0 : Nat) = f at hf
  have e : le 4 pts.length ++ le 4 f ++ le 4 0 ++ pts.flatMap encPt
      = le 4 pts.length ++ (le 4 f ++ (le 4 0 ++ pts.flatMap encPt)) := by simp only [List.append_assoc]
  rw [e]
  have hlen : (le 4 pts.length ++ (le 4 f ++ (le 4 0 ++ pts.flatMap encPt))).length = 12 + 16 * pts.length := by
    simp only [List.length_append, le_length, flatMap_encPt_length]; omega
  have hs : storedFirst 602 = 12 := by decide
  have hg : (le 4 pts.length ++ (le 4 f ++ (le 4 0 ++ pts.flatMap encPt))).length ≥ 12 := by omega
  have hcnd : ((pts.length : Int) ≥ 0 ∧
      (((le 4 pts.length ++ (le 4 f ++ (le 4 0 ++ pts.flatMap encPt))).length : Nat) : Int) = ((12 : Nat) : Int) + (pts.length : Int) * 16) := by
    rw [hlen]; omega
  have ho : ((602 : Nat) == OidPath) = true := by decide
  unfold storedLayout
  simp only [hs]
  rw [if_pos hg, i32_le0 _ _ hn]
  simp only [ok_bind]
  rw [if_pos hcnd]
  simp only [ho, if_true, i32_le4 _ _ _ hf, ok_bind, pure_eq_ok, Int.toNat_natCast]
  subst hfd
  cases closed <;> rfl

theorem stored_never_fallback_polygon (bbox : Bytes) (pts : List Pt) (h : (Val.polygon bbox pts).WF) :
    storedLayout (enc (.polygon bbox pts)) 604 = .ok (some (pts.length, false)) := by
  obtain ⟨hb, _, hn, _⟩ := wf_polygon bbox pts h
  show storedLayout (le 4 pts.length ++ bbox ++ pts.flatMap encPt) 604 = _
  have e : le 4 pts.length ++ bbox ++ pts.flatMap encPt = le 4 pts.length ++ (bbox ++ pts.flatMap encPt) := by
    simp only [List.append_assoc]
  rw [e]
  have hlen : (le 4 pts.length ++ (bbox ++ pts.flatMap encPt)).length = 36 + 16 * pts.length := by
    simp only [List.length_append, le_length, flatMap_encPt_length, hb]; omega
  have hs : storedFirst 604 = 36 := by decide
  have hg : (le 4 pts.length ++ (bbox ++ pts.flatMap encPt)).length ≥ 36 := by omega
  have hcnd : ((pts.length : Int) ≥ 0 ∧
      (((le 4 pts.length ++ (bbox ++ pts.flatMap encPt)).length : Nat) : Int) = ((36 : Nat) : Int) + (pts.length : Int) * 16) := by
    rw [hlen]; omega
  have ho : ((604 : Nat) == OidPath) = false := by decide
  unfold storedLayout
  simp only [hs]
  rw [if_pos hg, i32_le0 _ _ hn]
  simp only [ok_bind]
  rw [if_pos hcnd]
  simp only [ho, Bool.false_eq_true, if_false, pure_eq_ok, Int.toNat_natCast]

/-! ### round trip -/

theorem decodePath_enc (closed : Bool) (pts : List Pt) (h : (Val.path closed pts).WF) :
    decodePathOrPolygon (enc (.path closed pts)) 602 = .ok (view (.path closed pts)) := by
  obtain ⟨_, _, hc⟩ := wf_path closed pts h
  unfold decodePathOrPolygon
  rw [stored_never_fallback_path closed pts h]
  simp only [ok_bind]
  have hs : storedFirst 602 = 12 := by decide
  rw [hs]
  show pathOut (le 4 pts.length ++ le 4 (if closed then 1 else 0) ++ le 4 0 ++ pts.flatMap encPt) 602 12 pts.length closed = _
  unfold pathOut
  rw [pathPoints_enc 12 pts _ 0 (by simp) hc]
  simp only [ok_bind]
  cases closed <;> rfl

theorem decodePolygon_enc (bbox : Bytes) (pts : List Pt) (h : (Val.polygon bbox pts).WF) :
    decodePathOrPolygon (enc (.polygon bbox pts)) 604 = .ok (view (.polygon bbox pts)) := by
  obtain ⟨hb, _, _, hc⟩ := wf_polygon bbox pts h
  unfold decodePathOrPolygon
  rw [stored_never_fallback_polygon bbox pts h]
  simp only [ok_bind]
  have hs : storedFirst 604 = 36 := by decide
  rw [hs]
  show pathOut (le 4 pts.length ++ bbox ++ pts.flatMap encPt) 604 36 pts.length false = _
  unfold pathOut
  rw [pathPoints_enc 36 pts _ 0 (by simp [hb]) hc]
  rfl

/-! ### the two layouts exclude each other -/

theorem storedFirst_cases (oid : Nat) : storedFirst oid = 12 ∨ storedFirst oid = 36 := by
  unfold storedFirst; split <;> simp

theorem storedLayout_len (data : Bytes) (oid n : Nat) (c : Bool) (h : storedLayout data oid = .ok (some (n, c))) :
    data.length = storedFirst oid + 16 * n := by
  unfold storedLayout at h
  simp only [] at h
  by_cases hg : data.length ≥ storedFirst oid
  · rw [if_pos hg] at h
    cases h0 : i32 data 0 with
    | error e => rw [h0] at h; cases h
    | ok k =>
      rw [h0] at h
      simp only [ok_bind] at h
      by_cases hcnd : k ≥ 0 ∧ (data.length : Int) = (storedFirst oid : Int) + k * 16
      · rw [if_pos hcnd] at h
        have hk : n = k.toNat := by
          by_cases ho : (oid == OidPath) = true
          · rw [if_pos ho] at h
            cases h4 : i32 data 4 with
            | error e => rw [h4] at h; cases h
            | ok j =>
              rw [h4] at h
              simp only [ok_bind, pure_eq_ok, Except.ok.injEq, Option.some.injEq, Prod.mk.injEq] at h
              exact h.1.symm
          · rw [if_neg ho] at h
            simp only [pure_eq_ok, Except.ok.injEq, Option.some.injEq, Prod.mk.injEq] at h
            exact h.1.symm
        omega
      · rw [if_neg hcnd] at h
        simp only [pure_eq_ok, Except.ok.injEq] at h
        cases h
  · rw [if_neg hg] at h
    simp only [pure_eq_ok, Except.ok.injEq] at h
    cases h

theorem layouts_exclusive (data : Bytes) (oid n : Nat) (c : Bool) (h : storedLayout data oid = .ok (some (n, c))) :
    ¬ ∃ m : Nat, data.length = 5 + 16 * m := by
  have hl := storedLayout_len data oid n c h
  rintro ⟨m, hm⟩
  rcases storedFirst_cases oid with hs | hs <;> omega

theorem wire_not_stored (data : Bytes) (oid m : Nat) (h : data.length = 5 + 16 * m) :
    storedLayout data oid = .ok none := by
  unfold storedLayout
  simp only []
  by_cases hg : data.length ≥ storedFirst oid
  · rw [if_pos hg]
    have h4 : 0 + 4 ≤ data.length := by rcases storedFirst_cases oid with hs | hs <;> omega
    simp only [i32, uN_ok 4 data 0 h4, ok_bind, pure_eq_ok]
    generalize toSigned 32 (rd 4 (List.drop 0 data)) = k
    have hcnd : ¬ (k ≥ 0 ∧ (data.length : Int) = (storedFirst oid : Int) + k * 16) := by
      rcases storedFirst_cases oid with hs | hs <;> omega
    rw [if_neg hcnd]
  · rw [if_neg hg]; rfl

end PgVerif.Proofs.ScalarsRT
