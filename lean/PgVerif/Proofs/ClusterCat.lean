/-
  Helper lemmas for C01: reading a catalog heap (PostgreSQL's real layout, `Spec.encHeapOf`) with one of the tool's
  fixed catalog schemas (catalog.go), which only know a prefix of the attributes.  Generic part: what the scalar
  decoder must do on the catalog column types (`CatDec`), the row a tuple of fixed-width attributes decodes to
  (`catalogRow`), and ReadRows over the whole heap (`readRows_catalog`).
-/
import PgVerif.Proofs.ClusterPages
import PgVerif.Proofs.ClusterStr
import PgVerif.Model.Cluster
import PgVerif.Model.RowsDec
namespace PgVerif.Proofs.Cluster
open PgVerif PgVerif.Model PgVerif.Spec PgVerif.Proofs PgVerif.Proofs.Rows List

/-! ### what the catalog logic needs from the scalar decoder -/

/-- The scalar decoder (`DecodeType`, area scalars) on the column types of the tool's catalog schemas: an `oid` is the
unsigned 32-bit value, an `int2` the signed 16-bit value, a `name` the bytes before the first NUL, a `"char"` the
byte itself; `int4`, `float4` and `bool` columns (never looked at by the catalog logic) just decode. -/
structure CatDec (dec : Dec) : Prop where
  oid : ∀ bs : Bytes, bs.length = 4 → dec bs 26 = .ok (.int (rd 4 bs))
  name : ∀ bs : Bytes, bs.length = 64 → dec bs 19 = .ok (.str (cstring bs 64))
  char : ∀ bs : Bytes, bs.length = 1 → dec bs 18 = .ok (.str bs)
  int2 : ∀ bs : Bytes, bs.length = 2 → dec bs 21 = .ok (.int (toSigned 16 (rd 2 bs)))
  int4 : ∀ bs : Bytes, bs.length = 4 → ∃ g, dec bs 23 = .ok g
  float4 : ∀ bs : Bytes, bs.length = 4 → ∃ g, dec bs 700 = .ok g
  bool : ∀ bs : Bytes, bs.length = 1 → ∃ g, dec bs 16 = .ok g

/-- the value of a computation that returned -/
def okVal (x : M GoVal) : GoVal := match x with | .ok v => v | .error _ => .nil

theorem okVal_of_ok (x : M GoVal) (h : ∃ v, x = .ok v) : x = .ok (okVal x) := by
  obtain ⟨v, rfl⟩ := h; rfl

/-- (type oid, attlen) of the columns of the tool's catalog schemas -/
def catKinds : List (Int × Int) := [(26, 4), (19, 64), (18, 1), (21, 2), (23, 4), (700, 4), (16, 1)]

def catKind (c : Col) : Prop := (c.typid, c.len) ∈ catKinds
instance (c : Col) : Decidable (catKind c) := by unfold catKind; infer_instance

theorem catDec_total (dec : Dec) (hd : CatDec dec) (c : Col) (hk : catKind c) (bs : Bytes) (hl : (bs.length : Int) = c.len) :
    ∃ v, dec bs c.typid = .ok v := by
  unfold catKind catKinds at hk
  simp only [mem_cons, Prod.mk.injEq, not_mem_nil, or_false] at hk
  rcases hk with ⟨h1, h2⟩ | ⟨h1, h2⟩ | ⟨h1, h2⟩ | ⟨h1, h2⟩ | ⟨h1, h2⟩ | ⟨h1, h2⟩ | ⟨h1, h2⟩ <;> rw [h1] <;> rw [h2] at hl
  · exact ⟨_, hd.oid bs (by omega)⟩
  · exact ⟨_, hd.name bs (by omega)⟩
  · exact ⟨_, hd.char bs (by omega)⟩
  · exact ⟨_, hd.int2 bs (by omega)⟩
  · exact hd.int4 bs (by omega)
  · exact hd.float4 bs (by omega)
  · exact hd.bool bs (by omega)

/-! ### rows of fixed-width attributes -/

/-- one fixed-width attribute: its bytes fit the column -/
def FixedOK (c : Col) (bs : Bytes) : Prop := Pow2Align c.align ∧ 0 < c.len ∧ (bs.length : Int) = c.len ∧ catKind c

/-- the decoded row of a tuple that starts with the fixed-width attributes `bss` of the columns `cols` -/
def catalogRow (dec : Dec) : List Col → List Bytes → Row
  | c :: cs, bs :: bss => (c.name, okVal (dec bs c.typid)) :: catalogRow dec cs bss
  | _, _ => []

/-- every attribute is a fixed-width one that fits its column -/
def AllFixed : List Col → List Bytes → Prop
  | [], [] => True
  | c :: cs, bs :: bss => FixedOK c bs ∧ AllFixed cs bss
  | _, _ => False

theorem expectedCols_fixed (dec : Dec) (hd : CatDec dec) :
    ∀ (cols : List Col) (bss : List Bytes) (k : Nat), cols.length ≤ k → AllFixed cols bss →
      expectedCols (varlenaVal dec) cols (bss.map fun bs => some (.fixed bs)) k = .ok (catalogRow dec cols bss)
  | [], [], _, _, _ => rfl
  | [], _ :: _, _, _, h => h.elim
  | _ :: _, [], _, _, h => h.elim
  | c :: cs, bs :: bss, k, hk, h => by
    obtain ⟨⟨_, hpos, hlen, hkind⟩, hrest⟩ := h
    cases k with
    | zero => simp at hk
    | succ k =>
      simp only [map_cons, expectedCols, expectedVal, Nat.succ_sub_one]
      rw [varlenaVal_nonempty dec bs c.typid (by omega), okVal_of_ok _ (catDec_total dec hd c hkind bs hlen)]
      simp only [ok_bind]
      rw [expectedCols_fixed dec hd cs bss k (by simp at hk; omega) hrest]
      rfl

theorem catalogRow_names (dec : Dec) : ∀ (cols : List Col) (bss : List Bytes), bss.length = cols.length →
    (catalogRow dec cols bss).map (·.1) = cols.map (·.name)
  | [], [], _ => rfl
  | c :: cs, bs :: bss, h => by
    simp only [catalogRow, map_cons]
    rw [catalogRow_names dec cs bss (by simpa using h)]
  | [], _ :: _, h => by simp at h
  | _ :: _, [], h => by simp at h

theorem allFixed_length : ∀ (cols : List Col) (bss : List Bytes), AllFixed cols bss → bss.length = cols.length
  | [], [], _ => rfl
  | [], _ :: _, h => h.elim
  | _ :: _, [], h => h.elim
  | _ :: cs, _ :: bss, h => by simp [allFixed_length cs bss h.2]

theorem fixedOK_zip : ∀ (cols : List Col) (bss : List Bytes), AllFixed cols bss →
    ∀ p ∈ cols.zip (bss.map Datum.fixed), Pow2Align p.1.align ∧ p.2.WF p.1
  | [], [], _ => by intro p hp; simp at hp
  | [], _ :: _, h => h.elim
  | _ :: _, [], h => h.elim
  | c :: cs, bs :: bss, h => by
    intro p hp
    simp only [map_cons, zip_cons_cons, mem_cons] at hp
    rcases hp with rfl | hp
    · exact ⟨h.1.1, h.1.2.1, h.1.2.2.1⟩
    · exact fixedOK_zip cs bss h.2 p hp

/-! ### liveness of a formed row -/

theorem testBit_flags (m f k : Nat) (hf : f < 8) (hk : 3 ≤ k) : (m / 8 * 8 + f).testBit k = m.testBit k := by
  obtain ⟨j, rfl⟩ : ∃ j, k = j + 3 := ⟨k - 3, by omega⟩
  simp only [Nat.testBit_eq_decide_div_mod_eq]
  have h1 : 2 ^ (j + 3) = 8 * 2 ^ j := by rw [Nat.pow_add]; omega
  rw [h1, ← Nat.div_div_eq_div_mul, ← Nat.div_div_eq_div_mul]
  have : (m / 8 * 8 + f) / 8 = m / 8 := by omega
  rw [this]

theorem liveBits_formTuple (cols : List Col) (r : RowV) : liveBits (formTuple cols r).infomask = liveBits r.infomask := by
  have hf : (if r.hasNull then 1 else 0) + (if (r.vals.take r.natts).any isVarwidth then 2 else 0) +
      (if (r.vals.take r.natts).any isExternal then 4 else 0) < 8 := by
    split <;> split <;> split <;> omega
  simp only [liveBits, formTuple]
  rw [testBit_flags _ _ 8 hf (by omega), testBit_flags _ _ 10 hf (by omega), testBit_flags _ _ 11 hf (by omega)]

/-! ### one catalog tuple through DecodeTuple -/

/-- A catalog row version formed by PostgreSQL (all `cols.length` attributes stored) whose data area starts with
the fixed-width attributes `bss` laid out as the columns `tcols`, read with a schema `S` that matches `tcols`:
DecodeTuple returns the row of `bss` decoded column by column. -/
theorem decodeTuple_catalog (dec : Dec) (hd : CatDec dec) (cols : List Col) (vals : List (Option Datum)) (infomask : Nat)
    (S : List Column) (tcols : List Col) (bss : List Bytes) (rest : Bytes)
    (hwf : RowV.WF cols ⟨vals, cols.length, infomask⟩)
    (hm : ColsMatch 0 S tcols) (hok : AllFixed tcols bss) (hne : S ≠ [])
    (hsome : ∀ j, j < tcols.length → (vals.getD j none).isSome = true) (hle : tcols.length ≤ cols.length)
    (hdata : form cols vals 0 = form tcols (bss.map fun bs => some (.fixed bs)) 0 ++ rest) :
    decodeTuple dec (mtuple (formRow cols vals infomask)) S = .ok (some (toRow (catalogRow dec tcols bss))) := by
  have hvl : vals.length = cols.length := hwf.1
  unfold formRow
  rw [mtuple_formTuple cols _ hwf]
  generalize (mtuple (formTuple cols ⟨vals, cols.length, infomask⟩)).header = hdr
  unfold decodeTuple
  have : ¬ ((rowTuple hdr cols ⟨vals, cols.length, infomask⟩).data.length = 0 ∧ S.length = 0) := by
    intro ⟨_, h⟩; exact hne (length_eq_zero_iff.mp h)
  rw [if_neg this]
  have hnull : ∀ j, j < tcols.length → (rowTuple hdr cols ⟨vals, cols.length, infomask⟩).isNull (((0 + j : Nat) : Int) + 1) = false := by
    intro j hj
    rw [Nat.zero_add]
    unfold rowTuple
    by_cases hn : (⟨vals, cols.length, infomask⟩ : RowV).hasNull = true
    · simp only [hn, if_true]
      rw [isNull_enc, present_getD _ j (by simp; omega) (by simp; omega)]
      show (!(vals.getD j none).isSome) = false
      rw [hsome j hj]; rfl
    · simp only [hn]; rfl
  have hdata' : (rowTuple hdr cols ⟨vals, cols.length, infomask⟩).data =
      [] ++ (form tcols ((bss.map Datum.fixed).map some) ([] : Bytes).length ++ rest) := by
    simp only [rowTuple, nil_append, length_nil, map_map]
    rw [take_of_length_le (Nat.le_refl _), take_of_length_le (by omega), hdata]
    rfl
  have := decodeCols_stored dec _ tcols S (bss.map Datum.fixed) 0 [] rest hm
    (by rw [length_map]; exact allFixed_length _ _ hok) (fixedOK_zip tcols bss hok) hnull hdata'
  simp only [length_nil] at this
  rw [this, map_map]
  have h2 := expectedCols_fixed dec hd tcols bss tcols.length (Nat.le_refl _) hok
  simp only [Function.comp_def] at h2 ⊢
  rw [h2]
  rfl

/-! ### a whole catalog heap through ReadRows -/

/-- ReadRows (visible only) over an encoded catalog heap: if every stored row version — live or dead — decodes to
`row` of its abstract value, the result is `row` of the live versions, in heap order. -/
theorem readRows_catalog {α} (dec : Dec) (cols : List Col) (vals : α → List (Option Datum)) (h : HeapOf α) (S : List Column)
    (row : α → Row)
    (hwf : ∀ s ∈ h.versions, RowV.WF cols ⟨vals s.val, cols.length, s.infomask⟩)
    (hfit : pagesFit (h.map fun pg => pg.map fun s => formRow cols (vals s.val) s.infomask))
    (hrow : ∀ s ∈ h.versions, decodeTuple dec (mtuple (formRow cols (vals s.val) s.infomask)) S = .ok (some (row s.val))) :
    readRows dec (encHeapOf cols vals h) S true = .ok (h.live.map row) := by
  unfold encHeapOf
  rw [readRows_pages dec _ S true ?_ hfit]
  · have hflat : (h.map fun pg => pg.map fun s => formRow cols (vals s.val) s.infomask).flatten =
        h.versions.map fun s => formRow cols (vals s.val) s.infomask := by
      unfold HeapOf.versions
      rw [map_flatten]
    rw [hflat, filter_map, ← PgVerif.Proofs.Rows.collectM_map]
    have hf : ((fun t : Tuple => !true || liveBits t.infomask) ∘ fun s : Stored α => formRow cols (vals s.val) s.infomask)
        = fun s => liveBits s.infomask := by
      funext s
      simp only [Function.comp, Bool.not_true, Bool.false_or, formRow]
      exact liveBits_formTuple _ _
    rw [hf]
    unfold HeapOf.live
    rw [map_map]
    apply collectM_all_some
    intro s hs
    exact hrow s (mem_filter.mp hs).1
  · intro ts hts t ht
    simp only [mem_map] at hts
    obtain ⟨pg, hpg, rfl⟩ := hts
    simp only [mem_map] at ht
    obtain ⟨s, hs, rfl⟩ := ht
    exact formTuple_WF cols _ (hwf s (by unfold HeapOf.versions; exact mem_flatten.mpr ⟨pg, hpg, hs⟩))

/-! ### the decoder the families run satisfies `CatDec` -/

set_option linter.unusedSimpArgs false in
/-- area rows' local model of DecodeType (the decoder the C01 families run) decodes the catalog column types as the
catalog logic needs -/
theorem catDec_local : CatDec LocalDec.dec := by
  refine ⟨?_, ?_, ?_, ?_, ?_, ?_, ?_⟩
  · intro bs h
    unfold LocalDec.dec
    simp only [LocalDec.localFixedLen]
    rw [if_neg (by omega)]
    simp (config := { decide := true }) only [h, if_false, if_true, gt_iff_lt]
    rw [uN_ok 4 bs 0 (by omega)]
    rfl
  · intro bs h
    unfold LocalDec.dec
    simp only [LocalDec.localFixedLen]
    rw [if_neg (by omega)]
    simp (config := { decide := true }) only [h, if_false, if_true, gt_iff_lt]
    rfl
  · intro bs h
    unfold LocalDec.dec
    simp only [LocalDec.localFixedLen]
    rw [if_neg (by omega)]
    simp (config := { decide := true }) only [h, if_false, if_true, gt_iff_lt]
    rw [sliceTo_ok bs 1 (by omega)]
    simp only [ok_bind, pure_eq_ok]
    rw [take_of_length_le (by omega)]
  · intro bs h
    unfold LocalDec.dec
    simp only [LocalDec.localFixedLen]
    rw [if_neg (by omega)]
    simp (config := { decide := true }) only [h, if_false, if_true, gt_iff_lt]
    rw [uN_ok 2 bs 0 (by omega)]
    rfl
  · intro bs h
    unfold LocalDec.dec
    simp only [LocalDec.localFixedLen]
    rw [if_neg (by omega)]
    simp (config := { decide := true }) only [h, if_false, if_true, gt_iff_lt]
    rw [uN_ok 4 bs 0 (by omega)]
    exact ⟨_, rfl⟩
  · intro bs h
    unfold LocalDec.dec
    simp only [LocalDec.localFixedLen]
    rw [if_neg (by omega)]
    simp (config := { decide := true }) only [h, if_false, if_true, gt_iff_lt]
    exact ⟨_, rfl⟩
  · intro bs h
    unfold LocalDec.dec
    simp only [LocalDec.localFixedLen]
    rw [if_neg (by omega)]
    simp (config := { decide := true }) only [h, if_false, if_true, gt_iff_lt]
    rw [idx_ok bs 0 (by omega)]
    exact ⟨_, rfl⟩

end PgVerif.Proofs.Cluster
