/-
  Round trip, objects: the combined key/value entry array, parseJSONBObject's loop, the Go map built
  from pairwise distinct keys.  (Continues Proofs/JsonbRound.lean; same generic container lemmas.)
-/
import PgVerif.Proofs.JsonbRound
namespace PgVerif.Proofs
open PgVerif PgVerif.Model

/-! ### children of an encoded object: n keys (strings), then n values -/

def keyChildren (ks : List Bytes) : List Child := ks.map fun k => (0, k)

def valChildren (pos : Nat) : List (Bytes × Spec.Json) → List Child
  | [] => []
  | (_, x) :: rest => Spec.encValue pos x :: valChildren (pos + (Spec.encValue pos x).2.length) rest

theorem keyChildren_length (ks : List Bytes) : (keyChildren ks).length = ks.length := by simp [keyChildren]

theorem valChildren_length (pos : Nat) (kvs : List (Bytes × Spec.Json)) : (valChildren pos kvs).length = kvs.length := by
  induction kvs generalizing pos with
  | nil => rfl
  | cons kv rest ih => obtain ⟨k, x⟩ := kv; simp [valChildren, ih]

theorem encKeys_eq (idx total : Nat) (ks : List Bytes) :
    Spec.encKeys idx total ks = (entriesOf idx total (keyChildren ks), bodyOf (keyChildren ks)) := by
  induction ks generalizing idx total with
  | nil => rfl
  | cons k ks ih =>
    have e : Spec.encKeys idx total (k :: ks) =
      (Spec.strideEntry idx 0 k.length (total + k.length) :: (Spec.encKeys (idx + 1) (total + k.length) ks).1,
       k ++ (Spec.encKeys (idx + 1) (total + k.length) ks).2) := rfl
    rw [e, ih]
    rfl

theorem encVals_eq (pos idx total : Nat) (kvs : List (Bytes × Spec.Json)) :
    Spec.encVals pos idx total kvs = (entriesOf idx total (valChildren pos kvs), bodyOf (valChildren pos kvs)) := by
  induction kvs generalizing pos idx total with
  | nil => rfl
  | cons kv rest ih =>
    obtain ⟨k, x⟩ := kv
    have e : Spec.encVals pos idx total ((k, x) :: rest) =
      (Spec.strideEntry idx (Spec.encValue pos x).1 (Spec.encValue pos x).2.length (total + (Spec.encValue pos x).2.length) ::
        (Spec.encVals (pos + (Spec.encValue pos x).2.length) (idx + 1) (total + (Spec.encValue pos x).2.length) rest).1,
       (Spec.encValue pos x).2 ++
        (Spec.encVals (pos + (Spec.encValue pos x).2.length) (idx + 1) (total + (Spec.encValue pos x).2.length) rest).2) := rfl
    rw [e, ih]
    rfl

theorem getD_valChildren (pos : Nat) (kvs : List (Bytes × Spec.Json)) (k : Nat) (h : k < kvs.length) :
    (valChildren pos kvs).getD k default =
      Spec.encValue (pos + pre (lensOf (valChildren pos kvs)) k) (kvs.getD k default).2 := by
  induction kvs generalizing pos k with
  | nil => simp at h
  | cons kv rest ih =>
    obtain ⟨key, x⟩ := kv
    cases k with
    | zero => simp [valChildren, pre]
    | succ k =>
      have := ih (pos + (Spec.encValue pos x).2.length) k (by simpa using h)
      simp only [valChildren, List.getD_cons_succ, this, lensOf, List.map_cons, pre, List.take_succ_cons, List.sum_cons]
      congr 1; omega

theorem bodyOf_append (a b : List Child) : bodyOf (a ++ b) = bodyOf a ++ bodyOf b := by
  induction a with
  | nil => rfl
  | cons c rest ih => simp [bodyOf, ih]

/-- the object header word -/
def objHeader (n : Nat) : Nat := n + 0x20000000

/-- the bytes of an object container whose combined children (keys then values) are `cs`, `n` pairs -/
def objBytes (n : Nat) (cs : List Child) : Bytes :=
  le 4 (objHeader n) ++ (Spec.encEntries (entriesOf 0 0 cs) ++ bodyOf cs)

theorem encValue_obj (pos : Nat) (kvs : List (Bytes × Spec.Json)) :
    Spec.encValue pos (.obj kvs) =
      (5, zeros (Spec.padTo4 pos) ++ objBytes kvs.length
        (keyChildren (kvs.map (·.1)) ++
          valChildren (pos + Spec.padTo4 pos + 4 + 8 * kvs.length + (bodyOf (keyChildren (kvs.map (·.1)))).length) kvs)) := by
  have e : Spec.encValue pos (.obj kvs) = (5, zeros (Spec.padTo4 pos) ++ le 4 (kvs.length + 0x20000000) ++
      Spec.encEntries ((Spec.encKeys 0 0 (kvs.map (·.1))).1 ++
        (Spec.encVals (pos + Spec.padTo4 pos + 4 + 8 * kvs.length + (Spec.encKeys 0 0 (kvs.map (·.1))).2.length) kvs.length
          (Spec.encKeys 0 0 (kvs.map (·.1))).2.length kvs).1) ++
      (Spec.encKeys 0 0 (kvs.map (·.1))).2 ++
      (Spec.encVals (pos + Spec.padTo4 pos + 4 + 8 * kvs.length + (Spec.encKeys 0 0 (kvs.map (·.1))).2.length) kvs.length
          (Spec.encKeys 0 0 (kvs.map (·.1))).2.length kvs).2) := rfl
  rw [e, encKeys_eq, encVals_eq]
  simp only [objBytes, objHeader, entriesOf_append, bodyOf_append, keyChildren_length, List.length_map,
    Nat.zero_add, List.append_assoc]

theorem objHeader_fields (n : Nat) (hn : n < 0x10000000) :
    objHeader n < 256 ^ 4 ∧ objHeader n &&& 0x0FFFFFFF = n ∧ (objHeader n &&& 0x20000000 != 0) = true := by
  rw [land_0FFFFFFF, land_20000000, show (256 : Nat) ^ 4 = 0x100000000 from rfl]
  unfold objHeader
  refine ⟨by omega, by omega, ?_⟩
  have e : (n + 0x20000000) / 0x20000000 % 2 = 1 := by omega
  rw [e]; rfl

theorem objBytes_length (n : Nat) (cs : List Child) :
    (objBytes n cs).length = 4 + 4 * cs.length + (bodyOf cs).length := by
  simp [objBytes, le_length, encEntries_length, entriesOf_length]; omega

/-- ParseJSONB's body, abstractly, for a header word with the object flag -/
theorem parseContainer_object_abs (rec : Bytes → M JV) (data : Bytes) (H n : Nat) (es ends : List Nat)
    (kvs : List (Bytes × JV))
    (hl : 4 + n * 2 * 4 ≤ data.length) (hu : uN 4 data 0 = .ok H) (a2 : H &&& 0x0FFFFFFF = n)
    (a3 : (H &&& 0x20000000 != 0) = true) (h0 : 0 < n)
    (hre : readEntries (n * 2) (data.drop 4) = .ok es) (hm : endsFrom 0 es = some ends)
    (hloop : parseObject rec data data.length es ends (4 + n * 2 * 4) n = .ok kvs) :
    parseContainer rec data = .ok (.obj (buildMap kvs)) := by
  unfold parseContainer
  have hl' : ¬ data.length < 4 := by omega
  simp only [hl', if_false, hu, ok_bind, a2, a3, pure_eq_ok]
  have c1 : (!true && !(H &&& 0x40000000 != 0)) = false := rfl
  have c2 : (n == 0) = false := by simp; omega
  simp only [c1, c2, Bool.false_eq_true, if_false, if_true]
  rw [if_neg (by omega), sliceFrom_ok data 4 (by omega)]
  simp only [ok_bind, hre, hm, hloop]

/-- parseJSONBObject's loop over the end offsets of the key children `K` (followed by anything) and the
entries and end offsets of the value children `V`, given the key and the decoded value of every pair -/
theorem parseObjectLoop_children (rec : Bytes → M JV) (data : Bytes) (dataStart : Nat) (K V : List Child)
    (hKV : K.length = V.length) (kTot vIdx vTot : Nat) (tail : List Nat)
    (rs : List (Bytes × JV)) (hr : rs.length = K.length)
    (hkey : ∀ k, k < K.length →
      objKey data dataStart (kTot + pre (lensOf K) k) ((lensOf K).getD k 0 : Int) = .ok (rs.getD k default).1)
    (hval : ∀ k, k < V.length →
      decodeJEntry rec data (dataStart + (vTot + pre (lensOf V) k)) ((lensOf V).getD k 0 : Int)
        ((entriesOf vIdx vTot V).getD k 0) = .ok (rs.getD k default).2) :
    parseObjectLoop rec data data.length dataStart K.length kTot vTot (endsOf kTot K ++ tail) (entriesOf vIdx vTot V)
      (endsOf vTot V) = .ok rs := by
  induction K generalizing V kTot vIdx vTot rs with
  | nil =>
    have : rs = [] := List.eq_nil_of_length_eq_zero (by simpa using hr)
    subst this; exact parseObjectLoop_zero ..
  | cons c rest ih =>
    match V, hKV, rs, hr with
    | d :: V', hKV, r :: rs', hr =>
      have k0 := hkey 0 (by simp)
      have v0 := hval 0 (by simp)
      simp only [lensOf, List.map_cons, List.getD_cons_zero, entriesOf, pre, List.take_zero, List.sum_nil,
        Nat.add_zero] at k0 v0
      simp only [List.length_cons, entriesOf, endsOf, List.cons_append]
      rw [parseObjectLoop_cons]
      rw [show ((kTot + c.2.length : Nat) : Int) - (kTot : Int) = (c.2.length : Int) by omega, k0]
      simp only [ok_bind]
      rw [show ((vTot + d.2.length : Nat) : Int) - (vTot : Int) = (d.2.length : Int) by omega, v0]
      simp only [ok_bind]
      rw [ih V' (by simpa using hKV) (kTot + c.2.length) (vIdx + 1) (vTot + d.2.length) rs' (by simpa using hr)
        (fun k hk' => by
          have := hkey (k + 1) (by simpa using hk')
          simp only [lensOf, List.map_cons, List.getD_cons_succ] at this
          rw [pre_cons_succ] at this
          simp only [lensOf]
          rw [show kTot + c.2.length + pre (List.map (fun x => x.2.length) rest) k =
            kTot + (c.2.length + pre (List.map (fun x => x.2.length) rest) k) by omega]
          exact this)
        (fun k hk' => by
          have := hval (k + 1) (by simpa using hk')
          simp only [lensOf, List.map_cons, List.getD_cons_succ, entriesOf] at this
          rw [pre_cons_succ] at this
          simp only [lensOf]
          rw [show vTot + d.2.length + pre (List.map (fun x => x.2.length) V') k =
            vTot + (d.2.length + pre (List.map (fun x => x.2.length) V') k) by omega]
          exact this)]
      rfl

/-- parseJSONBObject on the combined entry array of keys `K` and values `V` -/
theorem parseObject_children (rec : Bytes → M JV) (data : Bytes) (dataStart : Nat) (K V : List Child)
    (hKV : K.length = V.length) (h0 : 0 < K.length)
    (rs : List (Bytes × JV)) (hr : rs.length = K.length)
    (hkey : ∀ k, k < K.length →
      objKey data dataStart (pre (lensOf K) k) ((lensOf K).getD k 0 : Int) = .ok (rs.getD k default).1)
    (hval : ∀ k, k < V.length →
      decodeJEntry rec data (dataStart + ((bodyOf K).length + pre (lensOf V) k)) ((lensOf V).getD k 0 : Int)
        ((entriesOf K.length (bodyOf K).length V).getD k 0) = .ok (rs.getD k default).2) :
    parseObject rec data data.length (entriesOf 0 0 (K ++ V)) (endsOf 0 (K ++ V)) dataStart K.length = .ok rs := by
  unfold parseObject
  have hel : (entriesOf 0 0 K).length = K.length := entriesOf_length 0 0 K
  have hnl : (endsOf 0 K).length = K.length := endsOf_length 0 K
  rw [entriesOf_append, endsOf_append]
  simp only [Nat.zero_add]
  rw [dropM_ok _ _ (by simp [hel]), dropM_ok _ _ (by simp [hnl])]
  simp only [ok_bind]
  rw [List.drop_left' hel, List.drop_left' hnl]
  rw [getEntry_getD _ _ (by simp [hnl]; omega)]
  simp only [ok_bind]
  have hlast : (endsOf 0 K ++ endsOf (bodyOf K).length V).getD (K.length - 1) 0 = (bodyOf K).length := by
    have := getD_endsOf_last 0 K h0
    simp only [Nat.zero_add] at this
    rw [← this]
    simp only [List.getD]
    rw [List.getElem?_append_left (by rw [hnl]; omega)]
  rw [hlast]
  exact parseObjectLoop_children rec data dataStart K V hKV 0 K.length (bodyOf K).length _ rs hr
    (fun k hk' => by simp only [Nat.zero_add]; exact hkey k hk') hval

/-! ### a Go map filled with pairwise distinct keys keeps every pair, in order -/

theorem buildMap_fold (acc rest : List (Bytes × JV)) (h : ((acc ++ rest).map (·.1)).Nodup) :
    rest.foldl (fun m kv => jvInsert m kv.1 kv.2) acc = acc ++ rest := by
  induction rest generalizing acc with
  | nil => simp
  | cons kv rest ih =>
    simp only [List.foldl_cons]
    have hnot : acc.any (fun p => p.1 == kv.1) = false := by
      rw [List.any_eq_false]
      intro p hp
      simp only [List.map_append, List.map_cons] at h
      have := (List.nodup_append.mp h).2.2 p.1 (List.mem_map_of_mem hp) kv.1 (by simp)
      simpa using this
    have e : jvInsert acc kv.1 kv.2 = acc ++ [kv] := by
      unfold jvInsert; rw [hnot]; simp
    rw [e, ih (acc ++ [kv]) (by simpa using h)]
    simp

theorem buildMap_nodup (kvs : List (Bytes × JV)) (h : (kvs.map (·.1)).Nodup) : buildMap kvs = kvs := by
  unfold buildMap
  have := buildMap_fold [] kvs (by simpa using h)
  simpa using this

/-! ### decoding child `j` of any container -/

theorem child_decodes (hd : Bytes) (cs : List Child) (j : Nat) (hj : j < cs.length) (x : Spec.Json) (pos f : Nat)
    (hc : cs.getD j default = Spec.encValue pos x)
    (hpos : pos % 4 = (hd.length + pre (lensOf cs) j) % 4) (hoff : 0 < hd.length)
    (hx : DecodesAs x) (hcov : covered x = true)
    (hsmall : (bodyOf cs).length < 0x10000000) (hf : (hd ++ bodyOf cs).length ≤ f) :
    ∃ r, decodeJEntry (parseJSONBFuel f) (hd ++ bodyOf cs) (hd.length + pre (lensOf cs) j)
        ((lensOf cs).getD j 0 : Int) ((entriesOf 0 0 cs).getD j 0) = .ok r ∧ r.toView = x.view := by
  have hLl : (lensOf cs).length = cs.length := by simp [lensOf]
  have hbl := bodyOf_length cs
  rw [← hLl] at hbl
  have hjl : j < (lensOf cs).length := by omega
  have hlk : (lensOf cs).getD j 0 = (cs.getD j default).2.length := by
    simp [lensOf, List.getD, List.getElem?_eq_getElem hj]
  have htk : (tysOf cs).getD j 0 = (cs.getD j default).1 := by
    simp [tysOf, List.getD, List.getElem?_eq_getElem hj]
  have hle := len_le_total (lensOf cs) j hjl
  have hpl := pre_succ (lensOf cs) j hjl
  have hpt := pre_le_total (lensOf cs) (j + 1)
  have hsl := slice_child hd cs j hj
  rw [hlk, hc] at hsl
  have hent : (entriesOf 0 0 cs).getD j 0 / 0x10000000 % 8 = (Spec.encValue pos x).1 := by
    rw [getD_entriesOf 0 0 _ j hj, htk, hc]
    unfold Spec.strideEntry
    split
    · exact mk_ty _ _ _ (by omega) (encValue_ty_lt _ _)
    · exact mk_ty _ _ _ (by omega) (encValue_ty_lt _ _)
  rw [hlk, hc] at hle hpl
  rw [hlk, hc]
  have hdl : (hd ++ bodyOf cs).length = hd.length + (bodyOf cs).length := by simp
  exact hx hcov pos (hd.length + pre (lensOf cs) j) (hd ++ bodyOf cs) f ((entriesOf 0 0 cs).getD j 0)
    hpos (by omega) (by omega) hsl (by omega) hent hf

/-! ### a whole object container -/

theorem lensOf_append (a b : List Child) : lensOf (a ++ b) = lensOf a ++ lensOf b := by simp [lensOf]

theorem pre_append_left (A B : List Nat) (k : Nat) (h : k ≤ A.length) : pre (A ++ B) k = pre A k := by
  unfold pre; rw [List.take_append_of_le_length h]

theorem pre_append_right (A B : List Nat) (k : Nat) : pre (A ++ B) (A.length + k) = pre A A.length + pre B k := by
  unfold pre
  rw [List.take_append, List.take_of_length_le (by omega), List.take_length]
  simp

theorem toViewKvs_eq (rs : List (Bytes × JV)) (kvs : List (Bytes × Spec.Json)) (hl : rs.length = kvs.length)
    (h : ∀ k, k < kvs.length → (rs.getD k default).1 = (kvs.getD k default).1 ∧
      (rs.getD k default).2.toView = (kvs.getD k default).2.view) :
    toViewKvs rs = Spec.viewKvs kvs ∧ rs.map (·.1) = kvs.map (·.1) := by
  induction kvs generalizing rs with
  | nil =>
    cases rs with
    | nil => exact ⟨rfl, rfl⟩
    | cons r rs => simp at hl
  | cons kv kvs ih =>
    cases rs with
    | nil => simp at hl
    | cons r rs =>
      obtain ⟨k, v⟩ := kv
      obtain ⟨rk, rv⟩ := r
      have h0 := h 0 (by simp)
      simp only [List.getD_cons_zero] at h0
      obtain ⟨i1, i2⟩ := ih rs (by simpa using hl) (fun k hk => by
        have := h (k + 1) (by simpa using hk)
        simpa using this)
      simp only [toViewKvs, Spec.viewKvs, List.map_cons, h0.1, h0.2, i1, i2, and_self]

theorem getD_append_left' (a b : List Child) (i : Nat) (h : i < a.length) :
    (a ++ b).getD i default = a.getD i default := by
  simp [List.getD, List.getElem?_append_left h]

theorem getD_append_right' (a b : List Child) (i : Nat) (h : a.length ≤ i) :
    (a ++ b).getD i default = b.getD (i - a.length) default := by
  simp [List.getD, List.getElem?_append_right h]

theorem getD_keyChildren (ks : List Bytes) (k : Nat) (h : k < ks.length) :
    (keyChildren ks).getD k default = (0, ks.getD k default) := by
  simp [keyChildren, List.getD, List.getElem?_eq_getElem h]

theorem getD_nat_append_left (a b : List Nat) (i : Nat) (h : i < a.length) : (a ++ b).getD i 0 = a.getD i 0 := by
  simp [List.getD, List.getElem?_append_left h]

theorem getD_nat_append_right (a b : List Nat) (i : Nat) : (a ++ b).getD (a.length + i) 0 = b.getD i 0 := by
  simp [List.getD, List.getElem?_append_right (Nat.le_add_right a.length i)]

/-- an encoded object container (written at a 4-aligned position; `P` = position of its first value)
parses to the pairs of `kvs`, given the induction hypothesis for the values -/
theorem parse_objBytes (kvs : List (Bytes × Spec.Json)) (P f : Nat)
    (hP : P % 4 = (4 + 8 * kvs.length + (bodyOf (keyChildren (kvs.map (·.1)))).length) % 4)
    (ih : ∀ kv ∈ kvs, DecodesAs kv.2) (hs : coveredKvs kvs = true)
    (h0 : 0 < kvs.length)
    (hsmall : (objBytes kvs.length (keyChildren (kvs.map (·.1)) ++ valChildren P kvs)).length < 0x10000000)
    (hf : (objBytes kvs.length (keyChildren (kvs.map (·.1)) ++ valChildren P kvs)).length ≤ f) :
    ∃ rs, parseContainer (parseJSONBFuel f) (objBytes kvs.length (keyChildren (kvs.map (·.1)) ++ valChildren P kvs)) =
        .ok (.obj (buildMap rs)) ∧ toViewKvs rs = Spec.viewKvs kvs ∧ rs.map (·.1) = kvs.map (·.1) := by
  generalize hK : keyChildren (kvs.map (·.1)) = K at *
  generalize hV : valChildren P kvs = V at *
  have hKl : K.length = kvs.length := by rw [← hK]; simp [keyChildren]
  have hVl : V.length = kvs.length := by rw [← hV]; exact valChildren_length P kvs
  have hcl : (K ++ V).length = kvs.length * 2 := by simp [hKl, hVl]; omega
  have hlen := objBytes_length kvs.length (K ++ V)
  have hLl : (lensOf (K ++ V)).length = (K ++ V).length := by simp [lensOf]
  have hbl := bodyOf_length (K ++ V)
  rw [← hLl] at hbl
  have hbK := bodyOf_length K
  have hLK : (lensOf K).length = K.length := by simp [lensOf]
  obtain ⟨a1, a2, a3⟩ := objHeader_fields kvs.length (by omega)
  have hdata : objBytes kvs.length (K ++ V) =
      (le 4 (objHeader kvs.length) ++ Spec.encEntries (entriesOf 0 0 (K ++ V))) ++ bodyOf (K ++ V) := by
    simp [objBytes]
  have hhd : (le 4 (objHeader kvs.length) ++ Spec.encEntries (entriesOf 0 0 (K ++ V))).length = 4 + kvs.length * 2 * 4 := by
    simp [le_length, encEntries_length, entriesOf_length, hcl]; omega
  have hty : ∀ c ∈ K ++ V, c.1 < 8 := by
    intro c hc
    rcases List.mem_append.mp hc with m | m
    · rw [← hK] at m
      simp only [keyChildren, List.mem_map] at m
      obtain ⟨k, _, rfl⟩ := m
      show (0 : Nat) < 8; decide
    · obtain ⟨k, hk, rfl⟩ := List.getElem_of_mem m
      have hk' : k < kvs.length := by omega
      have := getD_valChildren P kvs k hk'
      rw [hV] at this
      simp only [List.getD, List.getElem?_eq_getElem hk, Option.getD_some] at this
      rw [this]; exact encValue_ty_lt _ _
  have hsm : pre (lensOf (K ++ V)) (lensOf (K ++ V)).length < 0x10000000 := by omega
  have hty' : ∀ i, (tysOf (K ++ V)).getD i 0 < 8 := by
    intro i
    by_cases hi : i < (K ++ V).length
    · simp only [tysOf, List.getD, List.getElem?_map, List.getElem?_eq_getElem hi, Option.map_some, Option.getD_some]
      exact hty _ (List.getElem_mem hi)
    · have hn : (tysOf (K ++ V))[i]? = none := by
        apply List.getElem?_eq_none
        simp only [tysOf, List.length_map]; omega
      simp [List.getD, hn]
  -- values
  have hex : ∀ k, ∃ r, k < kvs.length →
      decodeJEntry (parseJSONBFuel f) (objBytes kvs.length (K ++ V))
        (4 + kvs.length * 2 * 4 + pre (lensOf (K ++ V)) (kvs.length + k))
        ((lensOf (K ++ V)).getD (kvs.length + k) 0 : Int) ((entriesOf 0 0 (K ++ V)).getD (kvs.length + k) 0) = .ok r ∧
      r.toView = (kvs.getD k default).2.view := by
    intro k
    by_cases hk : k < kvs.length
    · have hx : kvs.getD k default ∈ kvs := by
        simp only [List.getD, List.getElem?_eq_getElem hk, Option.getD_some]; exact List.getElem_mem hk
      have hc : (K ++ V).getD (kvs.length + k) default =
          Spec.encValue (P + pre (lensOf V) k) (kvs.getD k default).2 := by
        rw [getD_append_right' _ _ _ (by omega), hKl, show kvs.length + k - kvs.length = k by omega, ← hV]
        exact getD_valChildren P kvs k hk
      have hpre : pre (lensOf (K ++ V)) (kvs.length + k) = pre (lensOf K) (lensOf K).length + pre (lensOf V) k := by
        rw [lensOf_append, ← hKl, ← hLK]; exact pre_append_right _ _ _
      rw [hLK] at hpre
      obtain ⟨r, hr1, hr2⟩ := child_decodes (le 4 (objHeader kvs.length) ++ Spec.encEntries (entriesOf 0 0 (K ++ V)))
        (K ++ V) (kvs.length + k) (by omega) (kvs.getD k default).2 (P + pre (lensOf V) k) f hc
        (by rw [hhd, hpre]; omega) (by omega) (ih _ hx) (coveredKvs_mem kvs hs _ hx) (by omega)
        (by rw [← hdata]; exact hf)
      rw [← hdata, hhd] at hr1
      exact ⟨r, fun _ => ⟨hr1, hr2⟩⟩
    · exact ⟨default, fun h => absurd h hk⟩
  obtain ⟨g, hg⟩ := Classical.axiomOfChoice hex
  have hLV : (lensOf V).length = V.length := by simp [lensOf]
  refine ⟨(List.range kvs.length).map (fun k => ((kvs.getD k default).1, g k)), ?_, ?_⟩
  · apply parseContainer_object_abs (parseJSONBFuel f) _ (objHeader kvs.length) kvs.length (entriesOf 0 0 (K ++ V))
      (endsOf 0 (K ++ V)) _ (by omega) ?_ a2 a3 h0 ?_ (endsFrom_entriesOf 0 0 (K ++ V) (by omega) hty) ?_
    · rw [uN_ok 4 _ 0 (by omega)]
      simp only [List.drop_zero, objBytes]
      rw [rd_le 4 _ _ a1]
    · have := readEntries_enc (entriesOf 0 0 (K ++ V)) (bodyOf (K ++ V)) (entriesOf_lt 0 0 (K ++ V) (by omega) hty)
      rw [entriesOf_length, hcl] at this
      unfold objBytes
      rw [List.drop_left' (by simp [le_length])]
      exact this
    · have hl := parseObject_children (parseJSONBFuel f) (objBytes kvs.length (K ++ V)) (4 + kvs.length * 2 * 4) K V
        (by omega) (by omega) ((List.range kvs.length).map (fun k => ((kvs.getD k default).1, g k)))
        (by simp [hKl]) ?_ ?_
      · rw [hKl] at hl; exact hl
      · -- keys
        intro k hk
        have hk' : k < kvs.length := by omega
        have e1 : pre (lensOf K) k = pre (lensOf (K ++ V)) k := by
          rw [lensOf_append, pre_append_left _ _ _ (by omega)]
        have e2 : (lensOf K).getD k 0 = (lensOf (K ++ V)).getD k 0 := by
          rw [lensOf_append, getD_nat_append_left _ _ _ (by omega)]
        rw [e1, e2]
        have hkl : k < (lensOf (K ++ V)).length := by omega
        have hle := pre_succ (lensOf (K ++ V)) k hkl
        have hpt := pre_le_total (lensOf (K ++ V)) (k + 1)
        unfold objKey objKeyN
        simp only [sliceL_eq, Int.toNat_natCast]
        rw [if_pos ⟨by omega, by omega⟩, slice_ok _ _ _ (by omega) (by omega)]
        have hsl := slice_child (le 4 (objHeader kvs.length) ++ Spec.encEntries (entriesOf 0 0 (K ++ V))) (K ++ V) k (by omega)
        rw [← hdata, hhd] at hsl
        rw [hsl, getD_append_left' _ _ _ (by omega), ← hK, getD_keyChildren _ k (by simpa using hk')]
        simp [List.getD, hk']
      · -- values
        intro k hk
        have hk' : k < kvs.length := by omega
        have e1 : (bodyOf K).length + pre (lensOf V) k = pre (lensOf (K ++ V)) (kvs.length + k) := by
          rw [lensOf_append, ← hKl, ← hLK, pre_append_right, hLK, hbK]
        have e2 : (lensOf V).getD k 0 = (lensOf (K ++ V)).getD (kvs.length + k) 0 := by
          rw [lensOf_append, ← hKl, ← hLK, getD_nat_append_right]
        have e3 : (entriesOf K.length (bodyOf K).length V).getD k 0 = (entriesOf 0 0 (K ++ V)).getD (kvs.length + k) 0 := by
          rw [entriesOf_append, ← hKl]
          simp only [Nat.zero_add]
          rw [← entriesOf_length 0 0 K, getD_nat_append_right, entriesOf_length]
        rw [e1, e2, e3, (hg k hk').1]
        simp [List.getD, hk']
  · apply toViewKvs_eq _ _ (by simp)
    intro k hk
    simp only [List.getD, List.getElem?_map, List.getElem?_range hk, Option.map_some, Option.getD_some, true_and]
    rw [(hg k hk).2]
    simp [List.getD]

end PgVerif.Proofs
