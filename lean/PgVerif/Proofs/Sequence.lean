/-
  Helper lemmas for C20 (sequences): IsSequenceFile on every page-sized buffer, and ParseSequenceFile on an
  encoded sequence page.
-/
import PgVerif.Model.Sequence
import PgVerif.Proofs.KeySort
import PgVerif.Spec.Sequence
namespace PgVerif.Proofs
open PgVerif PgVerif.Spec

/-- IsSequenceFile on any buffer of at least one page = the spec's recognition predicate -/
theorem isSequenceFile_eq (p : Bytes) (hp : p.length ≥ 8192) : Model.isSequenceFile p = .ok (isSeqPage p) := by
  unfold Model.isSequenceFile isSeqPage
  rw [if_neg (by omega)]
  simp (disch := omega) only [uN_ok, ok_bind, pure_eq_ok]
  unfold rdAt seqMagic
  have hlt := rd_lt 2 (List.drop 16 p)
  by_cases h0 : rd 2 (List.drop 16 p) = 0
  · simp [h0]
  · by_cases h1 : rd 2 (List.drop 16 p) > 8192 - 4
    · have : ¬ (rd 2 (List.drop 16 p) + 4 ≤ 8192) := by omega
      simp [h1, this]
    · have h2 : rd 2 (List.drop 16 p) + 4 ≤ 8192 := by omega
      have h3 : 0 < rd 2 (List.drop 16 p) := by omega
      rw [if_neg (by omega)]
      simp (disch := omega) only [uN_ok, ok_bind]
      simp [h2, h3]

theorem isSequenceFile_short (p : Bytes) (hp : p.length < 8192) : Model.isSequenceFile p = .ok false := by
  unfold Model.isSequenceFile
  rw [if_pos hp]; rfl

/-! ### the encoded page -/

theorem toSigned_ofSigned64' (v : Int) (h1 : -(2 ^ 63 : Int) ≤ v) (h2 : v < 2 ^ 63) :
    toSigned 64 (ofSigned 64 v) = v := by
  unfold toSigned ofSigned
  simp only [show (64 - 1 : Nat) = 63 from rfl]
  have e : ((2 ^ 64 : Nat) : Int) = 18446744073709551616 := by decide
  rw [e]
  split <;> omega

theorem ofSigned64_lt' (v : Int) : ofSigned 64 v < 256 ^ 8 := by
  unfold ofSigned
  have e : ((2 ^ 64 : Nat) : Int) = 18446744073709551616 := by decide
  rw [e]; omega

/-- the 17 data bytes of a sequence tuple -/
def seqData (s : SeqState) : Bytes := le 8 (ofSigned 64 s.lastValue) ++ le 8 (ofSigned 64 s.logCnt) ++ [b2byte s.isCalled]

theorem parseSequenceTuple_seqData (s : SeqState) (h1 : -(2 ^ 63 : Int) ≤ s.lastValue) (h2 : s.lastValue < 2 ^ 63) :
    Model.parseSequenceTuple (seqData s) = .ok (some { lastValue := s.lastValue, isCalled := s.isCalled }) := by
  have hl : (seqData s).length = 17 := by simp [seqData]
  unfold Model.parseSequenceTuple Model.i64At
  rw [if_neg (by omega), if_pos (by omega)]
  simp (disch := omega) only [uN_ok, ok_bind, pure_eq_ok]
  rw [if_pos (by omega)]
  simp only [ok_bind]
  have r0 : rd 8 (List.drop 0 (seqData s)) = ofSigned 64 s.lastValue := by
    unfold seqData
    rw [List.drop_zero, List.append_assoc]
    exact rd_le 8 _ _ (ofSigned64_lt' _)
  have r16 : rd 1 (List.drop 16 (seqData s)) = (b2byte s.isCalled).toNat := by
    unfold seqData
    rw [List.drop_left' (by simp)]
    simp [rd]
  rw [r0, r16, toSigned_ofSigned64' _ h1 h2]
  cases s.isCalled <;> rfl

theorem lp_decode (off len : Nat) (ho : off < 2 ^ 15) (hl : len < 2 ^ 15) :
    (off + 2 ^ 15 * 1 + 2 ^ 17 * len) &&& 0x7FFF = off ∧ ((off + 2 ^ 15 * 1 + 2 ^ 17 * len) >>> 17) &&& 0x7FFF = len := by
  have h1 : ∀ x, x &&& 0x7FFF = x % 2 ^ 15 := fun x => land_mask x 15
  simp only [Nat.shiftRight_eq_div_pow, h1]
  constructor <;> omega

theorem SeqPage.tuple_length (p : SeqPage) (h : p.WF) : p.tuple.length = p.tupLen := by
  obtain ⟨_, _, _, _, _, hc, _⟩ := h
  simp [SeqPage.tuple, SeqPage.tupLen, SeqPage.hoff, hc]; omega

/-- ParseSequenceFile on the encoding of a well-formed sequence page returns the stored state -/
theorem parseSequenceFile_enc (p : SeqPage) (h : p.WF) :
    Model.parseSequenceFile (encSeqPage p) =
      .ok (some { lastValue := p.st.lastValue, isCalled := p.st.isCalled }) := by
  have htl := SeqPage.tuple_length p h
  obtain ⟨hh0, hprune, _, _, _, hc, _, _, hhoff, ⟨hv1, hv2⟩, _⟩ := h
  have hmid : p.mid.length ≤ 232 := by unfold SeqPage.hoff at hhoff; omega
  have htupLen : p.tupLen = 40 + p.mid.length := by simp [SeqPage.tupLen, SeqPage.hoff]; omega
  have htupOff : p.tupOff = 8184 - (p.tupLen + 7) / 8 * 8 := rfl
  have hoffLo : 7904 ≤ p.tupOff := by omega
  have hoffHi : p.tupOff + p.tupLen ≤ 8184 := by omega
  generalize hlp : p.tupOff + 2 ^ 15 * 1 + 2 ^ 17 * p.tupLen = lp
  have hlpv : lp < 256 ^ 4 := by omega
  obtain ⟨hd1, hd2⟩ := lp_decode p.tupOff p.tupLen (by omega) (by omega)
  rw [hlp] at hd1 hd2
  -- the page as prefix ++ tuple ++ suffix
  have e : encSeqPage p = p.hdr0 ++ (le 2 28 ++ (le 2 p.tupOff ++ (le 2 8184 ++ (le 2 (8192 + 4) ++ (le 4 p.prune ++ (le 4 lp ++
      (zeros (p.tupOff - 28) ++ (p.tuple ++ (zeros (8184 - p.tupOff - p.tupLen) ++ (le 4 seqMagic ++ zeros 4)))))))))) := by
    simp [encSeqPage, hlp, List.append_assoc]
  have hlen : (encSeqPage p).length = 8192 := by
    rw [e]; simp [hh0, htl]; omega
  have r12 : rd 2 (List.drop 12 (encSeqPage p)) = 28 := by
    rw [e]; exact rdAt_append' 2 28 12 p.hdr0 _ hh0.symm (by decide)
  have r16 : rd 2 (List.drop 16 (encSeqPage p)) = 8184 := by
    rw [e]
    have := rdAt_append' 2 8184 16 (p.hdr0 ++ (le 2 28 ++ le 2 p.tupOff)) (le 2 (8192 + 4) ++ (le 4 p.prune ++ (le 4 lp ++
      (zeros (p.tupOff - 28) ++ (p.tuple ++ (zeros (8184 - p.tupOff - p.tupLen) ++ (le 4 seqMagic ++ zeros 4))))))) (by simp [hh0]) (by decide)
    simpa [rdAt, List.append_assoc] using this
  have r24 : rd 4 (List.drop 24 (encSeqPage p)) = lp := by
    rw [e]
    have := rdAt_append' 4 lp 24 (p.hdr0 ++ (le 2 28 ++ (le 2 p.tupOff ++ (le 2 8184 ++ (le 2 (8192 + 4) ++ le 4 p.prune)))))
      (zeros (p.tupOff - 28) ++ (p.tuple ++ (zeros (8184 - p.tupOff - p.tupLen) ++ (le 4 seqMagic ++ zeros 4)))) (by simp [hh0]) hlpv
    simpa [rdAt, List.append_assoc] using this
  have r8184 : rd 4 (List.drop 8184 (encSeqPage p)) = seqMagic := by
    rw [e]
    have := rdAt_append' 4 seqMagic 8184 (p.hdr0 ++ (le 2 28 ++ (le 2 p.tupOff ++ (le 2 8184 ++ (le 2 (8192 + 4) ++ (le 4 p.prune ++ (le 4 lp ++
      (zeros (p.tupOff - 28) ++ (p.tuple ++ zeros (8184 - p.tupOff - p.tupLen))))))))))
      (zeros 4) (by simp [hh0, htl]; omega) (by decide)
    simpa [rdAt, List.append_assoc] using this
  have hslice : List.drop p.tupOff (List.take (p.tupOff + p.tupLen) (encSeqPage p)) = p.tuple := by
    have e2 : encSeqPage p = (p.hdr0 ++ (le 2 28 ++ (le 2 p.tupOff ++ (le 2 8184 ++ (le 2 (8192 + 4) ++ (le 4 p.prune ++ (le 4 lp ++
      zeros (p.tupOff - 28)))))))) ++ (p.tuple ++ (zeros (8184 - p.tupOff - p.tupLen) ++ (le 4 seqMagic ++ zeros 4))) := by
      rw [e]; simp [List.append_assoc]
    have hpre : (p.hdr0 ++ (le 2 28 ++ (le 2 p.tupOff ++ (le 2 8184 ++ (le 2 (8192 + 4) ++ (le 4 p.prune ++ (le 4 lp ++
      zeros (p.tupOff - 28)))))))).length = p.tupOff := by simp [hh0]; omega
    rw [e2, List.take_append, hpre, List.take_of_length_le (by omega), show p.tupOff + p.tupLen - p.tupOff = p.tupLen by omega,
      List.drop_left' hpre, ← htl, List.take_left']
    rfl
  have ht22 : ∀ (hh : 22 < p.tuple.length), p.tuple[22] = UInt8.ofNat p.hoff := by
    intro hh
    have e3 : p.tuple = (le 4 p.xmin ++ le 4 p.xmax ++ le 4 p.cid ++ p.ctid ++ le 2 p.infomask2 ++ le 2 p.infomask) ++
        (UInt8.ofNat p.hoff :: (p.mid ++ (le 8 (ofSigned 64 p.st.lastValue) ++ le 8 (ofSigned 64 p.st.logCnt) ++ [b2byte p.st.isCalled]))) := by
      simp [SeqPage.tuple, List.append_assoc]
    have hl22 : (le 4 p.xmin ++ le 4 p.xmax ++ le 4 p.cid ++ p.ctid ++ le 2 p.infomask2 ++ le 2 p.infomask).length = 22 := by
      simp [hc]
    simp only [e3]
    rw [List.getElem_append_right (by omega)]
    simp [hc]
  have hdrop : List.drop p.hoff p.tuple = seqData p.st := by
    have e4 : p.tuple = (le 4 p.xmin ++ le 4 p.xmax ++ le 4 p.cid ++ p.ctid ++ le 2 p.infomask2 ++ le 2 p.infomask ++
        [UInt8.ofNat p.hoff] ++ p.mid) ++ seqData p.st := by
      simp [SeqPage.tuple, seqData, List.append_assoc]
    rw [e4]
    exact List.drop_left' (by simp [hc, SeqPage.hoff]; omega)
  unfold Model.parseSequenceFile
  rw [if_neg (by omega)]
  simp (disch := omega) only [uN_ok, ok_bind, pure_eq_ok, r16]
  rw [if_neg (by omega)]
  simp only [r8184, r12, r24, hd1, hd2]
  rw [if_neg (by simp [seqMagic]), if_neg (by omega), if_neg (by omega)]
  simp (disch := omega) only [slice_ok, ok_bind, hslice]
  rw [if_neg (by omega)]
  simp (disch := omega) only [idx_ok, ok_bind]
  rw [ht22 (by omega)]
  have hb : (UInt8.ofNat p.hoff).toNat = p.hoff := by
    simp [UInt8.toNat_ofNat']; omega
  simp only [hb]
  have hh23 : ¬ (p.hoff < 23 ∨ p.hoff > p.tuple.length) := by unfold SeqPage.hoff at *; omega
  simp only [hh23, if_false]
  rw [if_neg (by unfold SeqPage.hoff at *; omega)]
  simp (disch := (unfold SeqPage.hoff at *; omega)) only [sliceFrom_ok, ok_bind, hdrop]
  exact parseSequenceTuple_seqData p.st hv1 hv2

/-! ### the per-database listing -/

/-- the record FindSequences builds for a sequence relation `c` whose file holds page `p` -/
def listed (c : Model.ClassInfo) (p : SeqPage) : Model.SequenceData :=
  { name := c.name, oid := c.oid, filenode := c.filenode, lastValue := p.st.lastValue, isCalled := p.st.isCalled }

theorem findSeqLoop_enc (env : Model.SeqEnv) (base : String) (pageOf : Model.ClassInfo → SeqPage)
    (cs : List Model.ClassInfo)
    (h : ∀ c ∈ cs, c.kind = [83] → (pageOf c).WF ∧
      env.fs (base ++ "/" ++ toString c.filenode) = some (encSeqPage (pageOf c))) :
    Model.findSeqLoop env base cs =
      .ok ((cs.filter fun c => c.kind == [83]).map fun c => listed c (pageOf c)) := by
  induction cs with
  | nil => rfl
  | cons c t ih =>
    have iht := ih (fun x hx => h x (by simp [hx]))
    unfold Model.findSeqLoop
    by_cases hk : c.kind = [83]
    · obtain ⟨hwf, hfs⟩ := h c (by simp) hk
      have hk' : (c.kind != [83]) = false := by simp [hk]
      have hk'' : (c.kind == [83]) = true := by simp [hk]
      simp only [hk', Bool.false_eq_true, if_false, hfs, parseSequenceFile_enc _ hwf, ok_bind, iht, pure_eq_ok,
        List.filter_cons, hk'', if_true, List.map_cons]
      rfl
    · have hk' : (c.kind != [83]) = true := by simp [hk]
      have hk'' : (c.kind == [83]) = false := by simp [hk]
      simp only [hk', if_true, iht, List.filter_cons, hk'', Bool.false_eq_true, if_false]

/-- the order FindSequences visits the relations in does not depend on the map iteration order: it is the parsed
map sorted by filenode -/
theorem seqVisitOrder_eq (env : Model.SeqEnv) (tables : List Model.ClassInfo)
    (hπ : (env.order tables).Perm tables) (hmap : KeySort.DistinctKeys (fun c : Model.ClassInfo => c.filenode) tables) :
    Model.seqVisitOrder env tables = Model.keySort (·.filenode) tables :=
  KeySort.keySort_perm_invariant _ _ _ hπ (hmap.perm hπ.symm)

theorem findSequences_enc (env : Model.SeqEnv) (dir : String) (dbName dbData classData : Bytes) (d : Model.DbInfo)
    (pageOf : Model.ClassInfo → SeqPage)
    (hπ : (env.order (env.parseClass classData)).Perm (env.parseClass classData))
    (hmap : KeySort.DistinctKeys (fun c : Model.ClassInfo => c.filenode) (env.parseClass classData))
    (h1 : env.fs (dir ++ "/global/1262") = some dbData)
    (h2 : (env.parseDatabase dbData).find? (·.name == dbName) = some d) (h3 : d.oid ≠ 0)
    (h4 : env.fs (dir ++ "/base/" ++ toString d.oid ++ "/1259") = some classData)
    (h5 : ∀ c ∈ env.parseClass classData, c.kind = [83] → (pageOf c).WF ∧
      env.fs (dir ++ "/base/" ++ toString d.oid ++ "/" ++ toString c.filenode) = some (encSeqPage (pageOf c))) :
    Model.findSequences env dir dbName =
      .ok (some (((Model.keySort (·.filenode) (env.parseClass classData)).filter fun c => c.kind == [83]).map
        fun c => listed c (pageOf c))) := by
  unfold Model.findSequences
  simp only [h1, h2, if_neg h3, h4, pure_eq_ok]
  rw [seqVisitOrder_eq env _ hπ hmap]
  rw [findSeqLoop_enc env _ pageOf _ (fun c hc => h5 c ((KeySort.keySort_perm _ _).subset hc))]
  rfl

end PgVerif.Proofs
