/-
  GetSegmentNumberFromPath (model, `Model/Segment.lean`) on well-formed relation file paths:
  `<dir>/<stem>.<digits>` carries segment number `<digits>`, `<dir>/<stem>` (no '.') is segment 0.
-/
import PgVerif.Model.Segment
import PgVerif.Proofs.ChecksumAcct
namespace PgVerif.Proofs.SegmentPath
open PgVerif PgVerif.Model
open PgVerif.Proofs.ChecksumAcct (takeWhile_append_stop)

/-- a directory prefix: empty, or ending in '/' -/
def IsDirPrefix (dir : Bytes) : Prop := dir = [] ∨ ∃ d, dir = d ++ [47]

/-! ### list helpers -/

theorem takeWhile_all {α} (p : α → Bool) (a : List α) (ha : ∀ y ∈ a, p y = true) :
    a.takeWhile p = a := by
  induction a with
  | nil => rfl
  | cons y ys ih =>
    simp only [List.takeWhile_cons, ha y (by simp), if_true]
    rw [ih (fun z hz => ha z (by simp [hz]))]

theorem bne_of_not_mem (c : UInt8) (s : Bytes) (h : c ∉ s) : ∀ y ∈ s.reverse, (y != c) = true := by
  intro y hy
  have hy' : y ∈ s := by simpa using hy
  have : y ≠ c := fun e => h (e ▸ hy')
  simpa using this

/-- nothing to cut when `c` does not occur -/
theorem afterLast_not_mem (c : UInt8) (s : Bytes) (h : c ∉ s) : afterLast c s = s := by
  unfold afterLast
  rw [takeWhile_all _ _ (bne_of_not_mem c s h), List.reverse_reverse]

/-- the text after the last `c` -/
theorem afterLast_split (c : UInt8) (a b : Bytes) (h : c ∉ b) : afterLast c (a ++ c :: b) = b := by
  unfold afterLast
  have e : (a ++ c :: b).reverse = b.reverse ++ c :: a.reverse := by simp
  rw [e, takeWhile_append_stop _ _ _ _ (bne_of_not_mem c b h) (by simp), List.reverse_reverse]

/-- a path whose last byte is not '/' has no trailing slashes -/
theorem dropTrailingSlashes_last (q : Bytes) (x : UInt8) (hx : x ≠ 47) :
    dropTrailingSlashes (q ++ [x]) = q ++ [x] := by
  unfold dropTrailingSlashes
  have e : (q ++ [x]).reverse = x :: q.reverse := by simp
  have hb : (x == 47) = false := by simpa using hx
  rw [e, List.dropWhile_cons]
  simp only [hb, Bool.false_eq_true, if_false]
  simp

theorem exists_snoc (s : Bytes) (h : s ≠ []) : ∃ q x, s = q ++ [x] := by
  induction s with
  | nil => exact absurd rfl h
  | cons c t ih =>
    cases t with
    | nil => exact ⟨[], c, rfl⟩
    | cons d t' =>
      obtain ⟨q, x, e⟩ := ih (by simp)
      exact ⟨c :: q, x, by rw [e]; rfl⟩

/-! ### filepath.Base on `<dir>/<name>` -/

theorem pathBase_dir_name (dir name : Bytes) (hd : IsDirPrefix dir) (hn : (47 : UInt8) ∉ name)
    (hne : name ≠ []) : pathBase (dir ++ name) = name := by
  obtain ⟨q, x, e⟩ := exists_snoc name hne
  have hx : x ≠ 47 := by
    intro ex
    apply hn
    rw [e, ex]; simp
  have hdrop : dropTrailingSlashes (dir ++ name) = dir ++ name := by
    rw [e, ← List.append_assoc]
    exact dropTrailingSlashes_last (dir ++ q) x hx
  have hafter : afterLast 47 (dir ++ name) = name := by
    rcases hd with h0 | ⟨d, h1⟩
    · rw [h0, List.nil_append]; exact afterLast_not_mem 47 name hn
    · rw [h1, List.append_assoc]
      exact afterLast_split 47 d name hn
  have he1 : (dir ++ name).isEmpty = false := by
    rw [e]; cases dir <;> cases q <;> rfl
  have he2 : name.isEmpty = false := by
    cases name with
    | nil => exact absurd rfl hne
    | cons _ _ => rfl
  unfold pathBase
  simp only [he1, hdrop, hafter, he2, Bool.false_eq_true, if_false]

/-! ### strconv.Atoi on a digit string -/

theorem isDigit_ne_slash_dot (c : UInt8) (h : isDigit c = true) : c ≠ 47 ∧ c ≠ 46 ∧ c ≠ 43 ∧ c ≠ 45 := by
  refine ⟨?_, ?_, ?_, ?_⟩ <;> intro e <;> subst e <;> exact absurd h (by decide)

theorem digits_not_mem (ds : Bytes) (hdig : ds.all isDigit = true) :
    (47 : UInt8) ∉ ds ∧ (46 : UInt8) ∉ ds := by
  rw [List.all_eq_true] at hdig
  refine ⟨fun hm => ?_, fun hm => ?_⟩
  · exact (isDigit_ne_slash_dot 47 (hdig 47 hm)).1 rfl
  · exact (isDigit_ne_slash_dot 46 (hdig 46 hm)).2.1 rfl

theorem atoi_digits (ds : Bytes) (hds : ds ≠ []) (hdig : ds.all isDigit = true)
    (hval : digitsVal ds < 2 ^ 63) : atoi ds = some (digitsVal ds : Int) := by
  cases ds with
  | nil => exact absurd rfl hds
  | cons c t =>
    have hc : isDigit c = true := by
      simp only [List.all_cons, Bool.and_eq_true] at hdig; exact hdig.1
    obtain ⟨_, _, h43, h45⟩ := isDigit_ne_slash_dot c hc
    have e43 : ((some c : Option UInt8) == some 43) = false := by simpa using h43
    have e45 : ((some c : Option UInt8) == some 45) = false := by simpa using h45
    unfold atoi
    simp only [List.head?_cons, e43, e45, Bool.or_self, Bool.false_eq_true, if_false, hdig,
      List.isEmpty_cons, Bool.not_true]
    rw [if_pos hval]

/-! ### Main theorems -/

/-- `<dir>/<stem>.<digits>` carries segment number `<digits>` -/
theorem segmentNumber_suffix (dir stem ds : Bytes) (hd : IsDirPrefix dir) (hs : (47 : UInt8) ∉ stem)
    (hds : ds ≠ []) (hdig : ds.all isDigit = true) (hval : digitsVal ds < 2 ^ 63) :
    getSegmentNumberFromPath (dir ++ stem ++ 46 :: ds) = (digitsVal ds : Int) := by
  obtain ⟨h47, h46⟩ := digits_not_mem ds hdig
  have hn : (47 : UInt8) ∉ stem ++ 46 :: ds := by
    intro hm
    rcases List.mem_append.mp hm with h | h
    · exact hs h
    · rcases List.mem_cons.mp h with h | h
      · exact absurd h (by decide)
      · exact h47 h
  have hbase : pathBase (dir ++ stem ++ 46 :: ds) = stem ++ 46 :: ds := by
    rw [List.append_assoc]
    exact pathBase_dir_name dir (stem ++ 46 :: ds) hd hn (by simp)
  have hc : (stem ++ 46 :: ds).contains 46 = true := by simp
  unfold getSegmentNumberFromPath
  simp only [hbase, hc, Bool.not_true, Bool.false_eq_true, if_false,
    afterLast_split 46 stem ds h46, atoi_digits ds hds hdig hval]

/-- `<dir>/<stem>` without a '.' in the file name is segment 0 -/
theorem segmentNumber_plain (dir stem : Bytes) (hd : IsDirPrefix dir) (hs : (47 : UInt8) ∉ stem)
    (hdot : (46 : UInt8) ∉ stem) (hne : stem ≠ []) :
    getSegmentNumberFromPath (dir ++ stem) = 0 := by
  have hc : stem.contains 46 = false := by simpa using hdot
  unfold getSegmentNumberFromPath
  simp only [pathBase_dir_name dir stem hd hs hne, hc, Bool.not_false, if_true]

end PgVerif.Proofs.SegmentPath
