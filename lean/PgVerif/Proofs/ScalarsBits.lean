/-
  Round-trip lemmas for bit strings and inet / cidr (area `scalars`): helpers for Props/C04.lean.
-/
import PgVerif.Proofs.ScalarsRT
namespace PgVerif.Proofs.ScalarsRT
open PgVerif PgVerif.Model.Scalars PgVerif.Spec.Scalars PgVerif.Txt

/-! ### bit / varbit -/

def bitCh (b : Bool) : UInt8 := if b then 49 else 48

/-- the byte built from eight booleans, MSB first -/
def byte8 (b0 b1 b2 b3 b4 b5 b6 b7 : Bool) : UInt8 :=
  UInt8.ofNat ([b0, b1, b2, b3, b4, b5, b6, b7].foldl (fun acc b => 2 * acc + (if b then 1 else 0)) 0)

theorem byteOfBits_eq (bs : List Bool) :
    byteOfBits bs = byte8 (bs.getD 0 false) (bs.getD 1 false) (bs.getD 2 false) (bs.getD 3 false)
      (bs.getD 4 false) (bs.getD 5 false) (bs.getD 6 false) (bs.getD 7 false) := by
  simp [byteOfBits, byte8, List.range, List.range.loop]

theorem byte8_test (b0 b1 b2 b3 b4 b5 b6 b7 : Bool) (r : Nat) (hr : r < 8) :
    ((byte8 b0 b1 b2 b3 b4 b5 b6 b7).toNat &&& (1 <<< (7 - r)) != 0) = [b0, b1, b2, b3, b4, b5, b6, b7].getD r false := by
  have : r = 0 ∨ r = 1 ∨ r = 2 ∨ r = 3 ∨ r = 4 ∨ r = 5 ∨ r = 6 ∨ r = 7 := by omega
  rcases this with rfl | rfl | rfl | rfl | rfl | rfl | rfl | rfl <;>
    cases b0 <;> cases b1 <;> cases b2 <;> cases b3 <;> cases b4 <;> cases b5 <;> cases b6 <;> cases b7 <;> rfl

theorem byteOfBits_test (bs : List Bool) (r : Nat) (hr : r < 8) :
    ((byteOfBits bs).toNat &&& (1 <<< (7 - r)) != 0) = bs.getD r false := by
  rw [byteOfBits_eq, byte8_test _ _ _ _ _ _ _ _ r hr]
  have : r = 0 ∨ r = 1 ∨ r = 2 ∨ r = 3 ∨ r = 4 ∨ r = 5 ∨ r = 6 ∨ r = 7 := by omega
  rcases this with rfl | rfl | rfl | rfl | rfl | rfl | rfl | rfl <;> rfl

theorem packBitsN_get (n : Nat) (bs : List Bool) (q : Nat) (hq : q < n) :
    (packBitsN n bs)[q]? = some (byteOfBits (bs.drop (8 * q))) := by
  induction n generalizing bs q with
  | zero => omega
  | succ n ih =>
    cases q with
    | zero => simp [packBitsN]
    | succ q =>
      simp only [packBitsN, List.getElem?_cons_succ]
      rw [ih (bs.drop 8) q (by omega), List.drop_drop]
      congr 3; omega

theorem packBitsN_length (n : Nat) (bs : List Bool) : (packBitsN n bs).length = n := by
  induction n generalizing bs with
  | zero => rfl
  | succ n ih => simp [packBitsN, ih]

theorem bitChars_enc (pre : Bytes) (hp : pre.length = 4) (bits : List Bool) (n i : Nat) (h : i + n = bits.length) :
    bitChars (pre ++ packBits bits) n i = (bits.drop i).map bitCh := by
  induction n generalizing i with
  | zero =>
    have : bits.drop i = [] := List.drop_eq_nil_of_le (by omega)
    simp [bitChars, this]
  | succ n ih =>
    have hi : i < bits.length := by omega
    have hd : bits.drop i = bits[i] :: bits.drop (i + 1) := (List.drop_eq_getElem_cons hi)
    rw [hd, List.map_cons]
    unfold bitChars
    simp only
    rw [ih (i + 1) (by omega)]
    congr 1
    have hq : i / 8 < (bits.length + 7) / 8 := by omega
    have hg : (pre ++ packBits bits)[4 + i / 8]? = some (byteOfBits (bits.drop (8 * (i / 8)))) := by
      rw [List.getElem?_append_right (by omega)]
      have : 4 + i / 8 - pre.length = i / 8 := by omega
      rw [this]
      exact packBitsN_get _ _ _ hq
    rw [hg]
    simp only
    rw [byteOfBits_test _ (i % 8) (Nat.mod_lt _ (by decide))]
    have : (bits.drop (8 * (i / 8))).getD (i % 8) false = bits[i] := by
      rw [List.getD_eq_getElem?_getD, List.getElem?_drop]
      have : 8 * (i / 8) + i % 8 = i := by omega
      rw [this, List.getElem?_eq_getElem hi]; rfl
    rw [this]
    cases bits[i] <;> rfl

/-! ### inet / cidr -/

theorem u8_toNat (n : Nat) (h : n < 256) : (UInt8.ofNat n).toNat = n := by
  simp [UInt8.toNat_ofNat']; omega

theorem u8_bne (n k : Nat) (hn : n < 256) (hk : k < 256) : (UInt8.ofNat n != UInt8.ofNat k) = (n != k) := by
  by_cases e : n = k
  · subst e; simp
  · have : UInt8.ofNat n ≠ UInt8.ofNat k := by
      intro h
      have := congrArg UInt8.toNat h
      rw [u8_toNat n hn, u8_toNat k hk] at this
      exact e this
    have hb : (n != k) = true := by simp [e]
    rw [hb]
    simp only [bne_iff_ne, ne_eq]
    exact this

theorem decodeInet_v4 (x0 x1 x2 x3 : UInt8) (bits : Nat) (hb : bits ≤ 32) :
    decodeInet ([2, UInt8.ofNat bits] ++ [x0, x1, x2, x3]) = .ok (view (.inet false false [x0, x1, x2, x3] bits)) := by
  have e : decodeInet ([2, UInt8.ofNat bits] ++ [x0, x1, x2, x3]) =
      (if (UInt8.ofNat bits != UInt8.ofNat 32) = true then
        .ok (.str (fmtIPv4 x0 x1 x2 x3 ++ [47] ++ decNat (UInt8.ofNat bits).toNat))
       else .ok (.str (fmtIPv4 x0 x1 x2 x3))) := rfl
  rw [e, u8_bne bits 32 (by omega) (by omega), u8_toNat bits (by omega), ite_ok_str]
  have ev : ipv4Text [x0, x1, x2, x3] = fmtIPv4 x0 x1 x2 x3 := by
    simp [ipv4Text, fmtIPv4, joinBytes, List.append_assoc]
  simp only [view, ev, Bool.false_eq_true, if_false]

theorem decodeInet_v6 (x0 x1 x2 x3 x4 x5 x6 x7 x8 x9 x10 x11 x12 x13 x14 x15 : UInt8) (bits : Nat) (hb : bits ≤ 128) :
    decodeInet ([3, UInt8.ofNat bits] ++ [x0, x1, x2, x3, x4, x5, x6, x7, x8, x9, x10, x11, x12, x13, x14, x15]) = .ok (view (.inet false true [x0, x1, x2, x3, x4, x5, x6, x7, x8, x9, x10, x11, x12, x13, x14, x15] bits)) := by
  have e : decodeInet ([3, UInt8.ofNat bits] ++ [x0, x1, x2, x3, x4, x5, x6, x7, x8, x9, x10, x11, x12, x13, x14, x15]) =
      (if (UInt8.ofNat bits != UInt8.ofNat 128) = true then
        .ok (.str (joinBytes [58] (ipv6Text [x0, x1, x2, x3, x4, x5, x6, x7, x8, x9, x10, x11, x12, x13, x14, x15]) ++ [47] ++ decNat (UInt8.ofNat bits).toNat))
       else .ok (.str (joinBytes [58] (ipv6Text [x0, x1, x2, x3, x4, x5, x6, x7, x8, x9, x10, x11, x12, x13, x14, x15])))) := rfl
  rw [e, u8_bne bits 128 (by omega) (by omega), u8_toNat bits (by omega), ite_ok_str]
  simp only [view, if_true]

end PgVerif.Proofs.ScalarsRT
