/-
  `Model.keySort` returns a key-sorted rearrangement of its input; on inputs with pairwise distinct keys the result
  is strictly ascending and does not depend on the order of the input (the core of the C11 statements for
  FindSequences and GetTOASTVerboseInfo).
-/
import PgVerif.Model.KeySort
namespace PgVerif.Proofs.KeySort
open PgVerif.Model List

theorem keyInsert_perm {α} (key : α → Nat) (a : α) (l : List α) : keyInsert key a l ~ a :: l := by
  induction l with
  | nil => exact Perm.refl _
  | cons b bs ih =>
    unfold keyInsert
    by_cases h : key a ≤ key b
    · rw [if_pos h]
    · rw [if_neg h]
      exact (Perm.cons b ih).trans (Perm.swap a b bs)

theorem keySort_perm {α} (key : α → Nat) (l : List α) : keySort key l ~ l := by
  induction l with
  | nil => exact Perm.refl _
  | cons a l ih =>
    show keyInsert key a (keySort key l) ~ a :: l
    exact (keyInsert_perm key a _).trans (Perm.cons a ih)

theorem keyInsert_sorted {α} (key : α → Nat) (a : α) (l : List α)
    (h : l.Pairwise fun x y => key x ≤ key y) : (keyInsert key a l).Pairwise fun x y => key x ≤ key y := by
  induction l with
  | nil => simp [keyInsert]
  | cons b bs ih =>
    unfold keyInsert
    have hb := (pairwise_cons.mp h)
    by_cases hab : key a ≤ key b
    · rw [if_pos hab]
      refine pairwise_cons.mpr ⟨?_, h⟩
      intro y hy
      rcases mem_cons.mp hy with rfl | hy
      · exact hab
      · exact Nat.le_trans hab (hb.1 y hy)
    · rw [if_neg hab]
      refine pairwise_cons.mpr ⟨?_, ih hb.2⟩
      intro y hy
      have hy' := (keyInsert_perm key a bs).subset hy
      rcases mem_cons.mp hy' with rfl | hy'
      · omega
      · exact hb.1 y hy'

theorem keySort_sorted {α} (key : α → Nat) (l : List α) : (keySort key l).Pairwise fun x y => key x ≤ key y := by
  induction l with
  | nil => simp [keySort]
  | cons a l ih => exact keyInsert_sorted key a _ ih

/-- pairwise distinct keys, as a property of the key list -/
def DistinctKeys {α} (key : α → Nat) (l : List α) : Prop := (l.map key).Pairwise (· ≠ ·)

theorem DistinctKeys.perm {α} {key : α → Nat} {l₁ l₂ : List α} (hp : l₁ ~ l₂) (h : DistinctKeys key l₁) :
    DistinctKeys key l₂ :=
  ((hp.map key).pairwise_iff (fun {a b} (hab : a ≠ b) => fun e => hab e.symm)).mp h

theorem DistinctKeys.inj {α} {key : α → Nat} {l : List α} (h : DistinctKeys key l) :
    ∀ a ∈ l, ∀ b ∈ l, key a = key b → a = b := by
  induction l with
  | nil => intro a ha; cases ha
  | cons x xs ih =>
    unfold DistinctKeys at h
    simp only [map_cons, pairwise_cons, mem_map, forall_exists_index, and_imp, forall_apply_eq_imp_iff₂] at h
    intro a ha b hb e
    rcases mem_cons.mp ha with ea | ha' <;> rcases mem_cons.mp hb with eb | hb'
    · rw [ea, eb]
    · rw [ea] at e; exact absurd e (h.1 b hb')
    · rw [eb] at e; exact absurd e.symm (h.1 a ha')
    · exact ih h.2 a ha' b hb' e

/-- two key-sorted lists that are rearrangements of each other are equal when the keys are pairwise distinct -/
theorem sorted_perm_eq {α} (key : α → Nat) (l₁ l₂ : List α) (hp : l₁ ~ l₂)
    (h1 : l₁.Pairwise fun x y => key x ≤ key y) (h2 : l₂.Pairwise fun x y => key x ≤ key y)
    (hd : DistinctKeys key l₁) : l₁ = l₂ := by
  apply Perm.eq_of_pairwise (le := fun x y => key x ≤ key y) _ h1 h2 hp
  intro a b ha hb hab hba
  exact hd.inj a ha b (hp.symm.subset hb) (by omega)

/-- **sorting by key forgets the input order**: rearrangements of one list with pairwise distinct keys sort to the
same list -/
theorem keySort_perm_invariant {α} (key : α → Nat) (l₁ l₂ : List α) (hp : l₁ ~ l₂) (hd : DistinctKeys key l₁) :
    keySort key l₁ = keySort key l₂ :=
  sorted_perm_eq key _ _ ((keySort_perm key l₁).trans (hp.trans (keySort_perm key l₂).symm))
    (keySort_sorted key l₁) (keySort_sorted key l₂) (hd.perm (keySort_perm key l₁).symm)

/-- with pairwise distinct keys the sorted list is strictly ascending -/
theorem keySort_strict {α} (key : α → Nat) (l : List α) (hd : DistinctKeys key l) :
    (keySort key l).Pairwise fun x y => key x < key y := by
  have hs := keySort_sorted key l
  have hd' : DistinctKeys key (keySort key l) := hd.perm (keySort_perm key l).symm
  unfold DistinctKeys at hd'
  rw [pairwise_map] at hd'
  have := hs.and hd'
  exact this.imp (fun ⟨h1, h2⟩ => by omega)

/-- a list that is already strictly ascending is left alone -/
theorem keySort_of_strict {α} (key : α → Nat) (l : List α) (h : l.Pairwise fun x y => key x < key y) :
    keySort key l = l := by
  have hd : DistinctKeys key l := by
    unfold DistinctKeys; rw [pairwise_map]; exact h.imp (fun h => by omega)
  exact sorted_perm_eq key _ _ (keySort_perm key l) (keySort_sorted key l) (h.imp (fun h => by omega))
    (hd.perm (keySort_perm key l).symm)

end PgVerif.Proofs.KeySort
