/-
  The dump chain with the row source as a parameter (Model/DeletedScan.lean, the tree after fixes/rows/07):
  with the live row source it IS the dump chain of Model/Cluster.lean (so DumpDataDir / DumpDatabaseFromFiles are
  unchanged by the refactoring), and it never faults when the row source does not.
-/
import PgVerif.Model.DeletedScan
import PgVerif.Proofs.HeapFile
namespace PgVerif.Proofs.DeletedScan
open PgVerif PgVerif.Model PgVerif.Proofs
open PgVerif.Spec (Options)

theorem dumpTableRows_live (rr : RowReader) (fn : Nat) (info : TableInfo) (attrs : List AttrInfo)
    (reader : Option FileReader) (o : Options) :
    dumpTableRows (readTableRows rr) fn info attrs reader o = dumpTable rr fn info attrs reader o := rfl

theorem dumpOneRows_live (rr : RowReader) (tables : List (Nat × TableInfo)) (attrs : List (Nat × List AttrInfo))
    (reader : Option FileReader) (o : Options) (fn : Nat) :
    dumpOneRows (readTableRows rr) tables attrs reader o fn = dumpOne rr tables attrs reader o fn := rfl

theorem dumpDatabaseFromFilesRows_live (rr : RowReader) (π : MapOrder TableInfo) (classData attrData : Bytes)
    (reader : Option FileReader) (o : Options) :
    dumpDatabaseFromFilesRows rr (readTableRows rr) π classData attrData reader o =
      dumpDatabaseFromFiles rr π classData attrData reader o := rfl

theorem dumpDbRows_live (rr : RowReader) (π : MapOrder TableInfo) (fs : Bytes → Option Bytes) (o : Options) (db : DatabaseInfo) :
    dumpDbRows rr (readTableRows rr) π fs o db = dumpDb rr π fs o db := rfl

theorem dumpDataDirRows_live (rr : RowReader) (π : MapOrder TableInfo) (fs : Bytes → Option Bytes) (o : Options) :
    dumpDataDirRows rr (readTableRows rr) π fs o = dumpDataDir rr π fs o := rfl

/-- a row source that returns on every input -/
def TotalRows (rows : RowSource) : Prop := ∀ data cols, ∃ r, rows data cols = .ok r

theorem dumpTableRows_total (rows : RowSource) (h : TotalRows rows) (fn : Nat) (info : TableInfo) (attrs : List AttrInfo)
    (reader : Option FileReader) (o : Options) : ∃ r, dumpTableRows rows fn info attrs reader o = .ok r := by
  unfold dumpTableRows
  simp only
  cases (if o.listOnly = true then none else reader) with
  | none => exact ⟨_, rfl⟩
  | some rd =>
    simp only
    cases rd fn with
    | none => exact ⟨_, rfl⟩
    | some data =>
      simp only
      by_cases hl : data.length = 0
      · rw [if_pos hl]; exact ⟨_, rfl⟩
      · rw [if_neg hl]
        obtain ⟨rs, hr⟩ := h data (attrs.map fun a => ⟨a.name, a.typid, a.len, a.num, a.align⟩)
        simp only [hr, ok_bind, pure_eq_ok]
        exact ⟨_, rfl⟩

theorem dumpDatabaseFromFilesRows_total (rr : RowReader) (rows : RowSource) (h : TotalRows rows)
    (hcls : ∀ d, ∃ r, parsePGClass rr d = .ok r) (hatt : ∀ d v, ∃ r, parsePGAttribute rr d v = .ok r)
    (π : MapOrder TableInfo) (classData attrData : Bytes) (reader : Option FileReader) (o : Options) :
    ∃ r, dumpDatabaseFromFilesRows rr rows π classData attrData reader o = .ok r := by
  obtain ⟨tables, ht⟩ := hcls classData
  obtain ⟨attrs, ha⟩ := hatt attrData o.pgVersion
  simp only [dumpDatabaseFromFilesRows, ht, ha, ok_bind]
  apply collectM_total
  intro fn
  unfold dumpOneRows
  cases mapGet tables fn with
  | none => exact ⟨_, rfl⟩
  | some info =>
    simp only
    by_cases hk : keepTable o info = true
    · rw [if_pos hk]
      obtain ⟨t, htb⟩ := dumpTableRows_total rows h fn info ((mapGet attrs info.oid).getD []) reader o
      simp only [htb, ok_bind, pure_eq_ok]
      exact ⟨_, rfl⟩
    · rw [if_neg hk]; exact ⟨_, rfl⟩

theorem dumpDataDirRows_total (rr : RowReader) (rows : RowSource) (h : TotalRows rows)
    (hdb : ∀ d, ∃ r, parsePGDatabase rr d = .ok r)
    (hcls : ∀ d, ∃ r, parsePGClass rr d = .ok r) (hatt : ∀ d v, ∃ r, parsePGAttribute rr d v = .ok r)
    (π : MapOrder TableInfo) (fs : Bytes → Option Bytes) (o : Options) : ∃ r, dumpDataDirRows rr rows π fs o = .ok r := by
  unfold dumpDataDirRows
  cases fs pathGlobal1262 with
  | none => exact ⟨_, rfl⟩
  | some dbData =>
    simp only
    obtain ⟨dbs, hd⟩ := hdb dbData
    simp only [hd, ok_bind]
    have : ∃ r, collectM (dumpDbRows rr rows π fs o) dbs = .ok r := by
      apply collectM_total
      intro db
      unfold dumpDbRows
      by_cases h1 : Spec.isPrefixB (strBytes "template") db.name = true
      · rw [if_pos h1]; exact ⟨_, rfl⟩
      · rw [if_neg h1]
        by_cases h2 : (o.dbFilter != [] && db.name != o.dbFilter) = true
        · rw [if_pos h2]; exact ⟨_, rfl⟩
        · rw [if_neg h2]
          simp only
          by_cases h3 : ((fs (basePath db.oid 1259)).getD []).length = 0
          · rw [if_pos h3]; exact ⟨_, rfl⟩
          · rw [if_neg h3]
            obtain ⟨ts, hts⟩ := dumpDatabaseFromFilesRows_total rr rows h hcls hatt π ((fs (basePath db.oid 1259)).getD [])
              ((fs (basePath db.oid 1249)).getD []) (some fun fn => fs (basePath db.oid fn)) o
            simp only [hts, ok_bind, pure_eq_ok]
            exact ⟨_, rfl⟩
    obtain ⟨r, hr⟩ := this
    simp only [hr, ok_bind, pure_eq_ok]
    exact ⟨_, rfl⟩

end PgVerif.Proofs.DeletedScan
