/-
  C04 / type `json`: the library model `Model.ScalarsJsonLib.jsonUnmarshal` (the documented behaviour of
  `encoding/json.Unmarshal` into `interface{}`, built on the neutral RFC 8259 parser `Spec.Json.parse`) reads the text
  PostgreSQL stores for a document (`Spec.Scalars.JV.render`, three white-space styles) back to exactly the Go value
  the Spec's view demands (`JV.view`).  This discharges, for that library model, what the earlier C04 theorem on `json` had to assume.

  Route:  `parse (d.render ws) = some (jOf d)`  (structure, white space, string escapes, number tokens; holds for
  every document) and `toGo (jOf d) = some d.view` for well-formed `d` (distinct keys: `mapInsert` appends;
  numbers: the digits and exponent read from `jsonNum`'s three shapes give the same `f64OfRat` call as the view and
  stay below the overflow threshold).
-/
import PgVerif.Model.ScalarsJsonLib
import PgVerif.Spec.Scalars
import PgVerif.Proofs.ExportJson
import PgVerif.Proofs.CliRender
namespace PgVerif.Proofs.ScalarsJsonParse
open PgVerif PgVerif.Spec.Json PgVerif.Model.ScalarsJsonLib
open PgVerif.Txt (decAux decNat zpad digitCh f64OfRat asc)
open PgVerif.Spec.Scalars (JV jsonNum jsonEscape)
open PgVerif.Proofs.ExportJson (skipWs_nonws spanDigits_all digit_or_minus_facts numText_parse)

/-! ### decimal digits of `Txt.decNat` -/

theorem digitCh_toNat (k : Nat) (h : k < 10) : (digitCh k).toNat = 48 + k := by
  simp only [digitCh, UInt8.toNat_ofNat']; omega

theorem digitCh_isDigit (k : Nat) (h : k < 10) : isDigit (digitCh k) = true := by
  have := digitCh_toNat k h
  simp only [isDigit, Bool.and_eq_true, decide_eq_true_eq, UInt8.le_iff_toNat_le, this]
  have e1 : (48 : UInt8).toNat = 48 := rfl
  have e2 : (57 : UInt8).toNat = 57 := rfl
  omega

theorem digitCh_ne48 (k : Nat) (h : k < 10) (hk : k ≠ 0) : digitCh k ≠ 48 := by
  intro he
  have := congrArg UInt8.toNat he
  rw [digitCh_toNat k h] at this
  have h48 : (48 : UInt8).toNat = 48 := rfl
  omega

theorem decAux_acc (f n : Nat) (acc : Bytes) : decAux f n acc = decAux f n [] ++ acc := by
  induction f generalizing n acc with
  | zero => simp [decAux]
  | succ f ih =>
    unfold decAux
    split
    · simp
    · rw [ih (n / 10) (_ :: acc), ih (n / 10) [_]]; simp

theorem digitsVal_append (a : Bytes) (d : UInt8) : digitsVal (a ++ [d]) = digitsVal a * 10 + (d.toNat - 48) := by
  simp [digitsVal, List.foldl_append]

theorem digitsVal_single (d : UInt8) : digitsVal [d] = d.toNat - 48 := by
  simp [digitsVal]

/-- the digits of `n`: non-empty, all digits, no leading zero unless the text is `0`, and they denote `n` -/
theorem decAux_props (f n : Nat) (h : n ≤ f + 9) :
    decAux f n [] ≠ [] ∧ (∀ c ∈ decAux f n [], isDigit c = true) ∧
    (1 < (decAux f n []).length → (decAux f n []).head? ≠ some 48) ∧ digitsVal (decAux f n []) = n := by
  induction f generalizing n with
  | zero =>
    have hn : n < 10 := by omega
    have hm : n % 10 = n := Nat.mod_eq_of_lt hn
    simp only [decAux, hm]
    refine ⟨List.cons_ne_nil _ _, ?_, by simp, ?_⟩
    · intro c hc; rw [List.mem_singleton.mp hc]; exact digitCh_isDigit n hn
    · rw [digitsVal_single, digitCh_toNat n hn]; omega
  | succ f ih =>
    unfold decAux
    by_cases hn : n < 10
    · rw [if_pos hn]
      refine ⟨List.cons_ne_nil _ _, ?_, by simp, ?_⟩
      · intro c hc; rw [List.mem_singleton.mp hc]; exact digitCh_isDigit n hn
      · rw [digitsVal_single, digitCh_toNat n hn]; omega
    · rw [if_neg hn, decAux_acc]
      obtain ⟨h1, h2, h3, h4⟩ := ih (n / 10) (by omega)
      refine ⟨by simp, ?_, fun _ => ?_, ?_⟩
      · intro c hc
        simp only [List.mem_append, List.mem_singleton] at hc
        rcases hc with hc | hc
        · exact h2 c hc
        · rw [hc]; exact digitCh_isDigit (n % 10) (by omega)
      · cases hd : decAux f (n / 10) [] with
        | nil => exact absurd hd h1
        | cons c t =>
          rw [hd] at h3 h4
          simp only [List.cons_append, List.head?_cons, ne_eq, Option.some.injEq]
          intro hc; subst hc
          cases t with
          | nil =>
            rw [digitsVal_single] at h4
            have : (48 : UInt8).toNat = 48 := rfl
            omega
          | cons c2 t2 => exact h3 (by simp) rfl
      · rw [digitsVal_append, h4, digitCh_toNat (n % 10) (by omega)]; omega

theorem decNat_props (n : Nat) :
    decNat n ≠ [] ∧ (∀ c ∈ decNat n, isDigit c = true) ∧
    (1 < (decNat n).length → (decNat n).head? ≠ some 48) ∧ digitsVal (decNat n) = n :=
  decAux_props n n (by omega)

theorem digitsVal_zeros (j : Nat) (ds : Bytes) : digitsVal (List.replicate j 48 ++ ds) = digitsVal ds := by
  induction j with
  | zero => simp
  | succ j ih =>
    simp only [List.replicate_succ, List.cons_append]
    have : digitsVal (48 :: (List.replicate j 48 ++ ds)) = digitsVal (List.replicate j 48 ++ ds) := by
      simp [digitsVal]
    rw [this, ih]

theorem zpad_props (w : Nat) (ds : Bytes) (hd : ∀ c ∈ ds, isDigit c = true) :
    (∀ c ∈ zpad w ds, isDigit c = true) ∧ digitsVal (zpad w ds) = digitsVal ds ∧
    (zpad w ds).length = (w - ds.length) + ds.length := by
  refine ⟨?_, digitsVal_zeros _ _, by simp [zpad]⟩
  intro c hc
  simp only [zpad, List.mem_append, List.mem_replicate] at hc
  rcases hc with ⟨_, hc⟩ | hc
  · subst hc; decide
  · exact hd c hc

/-! ### `scanNum` in stages -/

def fracScan (r : Bytes) : Option (Bytes × Bytes) :=
  match r with
  | c :: t => if c = 46 then (let fp := spanDigits t; if fp.1 = [] then none else some (46 :: fp.1, fp.2)) else some ([], r)
  | [] => some ([], [])

def expScan (r1 : Bytes) : Option (Bytes × Bytes) :=
  match r1 with
  | e :: t =>
    if e = 101 ∨ e = 69 then
      let (sg, t') : Bytes × Bytes := match t with | s :: t2 => if s = 43 ∨ s = 45 then ([s], t2) else ([], t) | [] => ([], [])
      let ed := spanDigits t'
      if ed.1 = [] then none else some (e :: sg ++ ed.1, ed.2)
    else some ([], r1)
  | [] => some ([], [])

def scanBody (sign r0 : Bytes) : Option (Bytes × Bytes) :=
  let ip := spanDigits r0
  if ip.1 = [] ∨ (ip.1.length > 1 ∧ ip.1.head? = some 48) then none
  else
    match fracScan ip.2 with
    | none => none
    | some (frac, r1) =>
      match expScan r1 with
      | none => none
      | some (exp, r2) => some (sign ++ ip.1 ++ frac ++ exp, r2)

theorem scanNum_neg (t : Bytes) : scanNum (45 :: t) = scanBody [45] t := rfl
theorem scanNum_pos (c : UInt8) (t : Bytes) (h : c ≠ 45) : scanNum (c :: t) = scanBody [] (c :: t) := by
  simp only [scanNum, h, if_false]; rfl

/-- the next byte (if any) is not a digit -/
def NDH (rest : Bytes) : Prop := ∀ c, rest.head? = some c → isDigit c = false

/-- what follows a value in a rendered document: the end, `,`, `]`, `}`, a newline or a tab -/
def Fol (rest : Bytes) : Prop := ∀ c, rest.head? = some c → c = 44 ∨ c = 93 ∨ c = 125 ∨ c = 10 ∨ c = 9

theorem fol_facts (c : UInt8) (h : c = 44 ∨ c = 93 ∨ c = 125 ∨ c = 10 ∨ c = 9) :
    isDigit c = false ∧ c ≠ 46 ∧ c ≠ 101 ∧ c ≠ 69 := by
  rcases h with h | h | h | h | h <;> subst h <;> decide

theorem fol_ndh (rest : Bytes) (h : Fol rest) : NDH rest := fun c hc => (fol_facts c (h c hc)).1

theorem fracScan_skip (r : Bytes) (h : ∀ c, r.head? = some c → c ≠ 46) : fracScan r = some ([], r) := by
  cases r with
  | nil => rfl
  | cons c t => simp [fracScan, h c rfl]

theorem fracScan_frac (fp rest : Bytes) (hne : fp ≠ []) (hd : ∀ c ∈ fp, isDigit c = true) (hr : NDH rest) :
    fracScan (46 :: (fp ++ rest)) = some (46 :: fp, rest) := by
  simp [fracScan, spanDigits_all fp rest hd hr, hne]

theorem expScan_skip (r : Bytes) (h : ∀ c, r.head? = some c → c ≠ 101 ∧ c ≠ 69) : expScan r = some ([], r) := by
  cases r with
  | nil => rfl
  | cons c t => simp [expScan, (h c rfl).1, (h c rfl).2]

theorem digit_ne_sign (c : UInt8) (h : isDigit c = true) : c ≠ 43 ∧ c ≠ 45 := by
  constructor <;> (intro e; subst e; revert h; decide)

theorem expScan_neg (ed rest : Bytes) (hne : ed ≠ []) (hd : ∀ c ∈ ed, isDigit c = true) (hr : NDH rest) :
    expScan (101 :: 45 :: (ed ++ rest)) = some (101 :: 45 :: ed, rest) := by
  simp [expScan, spanDigits_all ed rest hd hr, hne]

theorem expScan_pos (ed rest : Bytes) (hne : ed ≠ []) (hd : ∀ c ∈ ed, isDigit c = true) (hr : NDH rest) :
    expScan (101 :: (ed ++ rest)) = some (101 :: ed, rest) := by
  cases ed with
  | nil => exact absurd rfl hne
  | cons d ds =>
    have hs := digit_ne_sign d (hd d (by simp))
    have := spanDigits_all (d :: ds) rest hd hr
    rw [List.cons_append] at this
    simp [expScan, hs.1, hs.2, this]

theorem scanBody_parts (sign ip tail frac r1 exp rest : Bytes) (hne : ip ≠ []) (hd : ∀ c ∈ ip, isDigit c = true)
    (hz : 1 < ip.length → ip.head? ≠ some 48) (ht : NDH tail)
    (hf : fracScan tail = some (frac, r1)) (he : expScan r1 = some (exp, rest)) :
    scanBody sign (ip ++ tail) = some (sign ++ ip ++ frac ++ exp, rest) := by
  have hl : ¬ (ip = [] ∨ (ip.length > 1 ∧ ip.head? = some 48)) := by
    intro h; rcases h with h | ⟨h1, h2⟩
    · exact hne h
    · exact hz h1 h2
  simp only [scanBody, spanDigits_all ip tail hd ht, hl, if_false, hf, he]

/-! ### number texts -/

/-- a JSON number text from its parts: sign, integer digits, fraction digits (none if empty), exponent -/
def numText (neg : Bool) (ip fp : Bytes) (ex : Option Int) : Bytes :=
  (if neg then [45] else []) ++ ip ++ (if fp = [] then [] else 46 :: fp) ++
    (match ex with | none => [] | some x => 101 :: Txt.decInt x)

def expText (ex : Option Int) : Bytes := match ex with | none => [] | some x => 101 :: Txt.decInt x
def fracText (fp : Bytes) : Bytes := if fp = [] then [] else 46 :: fp

theorem numText_eq (neg : Bool) (ip fp : Bytes) (ex : Option Int) :
    numText neg ip fp ex = (if neg then [45] else []) ++ (ip ++ (fracText fp ++ expText ex)) := by
  simp only [numText, fracText, expText, List.append_assoc]

/-- the head of the exponent text followed by a delimiter: not a digit, not a point -/
theorem expText_head (ex : Option Int) (rest : Bytes) (hr : Fol rest) :
    ∀ c, (expText ex ++ rest).head? = some c → isDigit c = false ∧ c ≠ 46 := by
  intro c hc
  cases ex with
  | none => simp only [expText, List.nil_append] at hc; exact ⟨(fol_facts c (hr c hc)).1, (fol_facts c (hr c hc)).2.1⟩
  | some x => simp [expText] at hc; subst hc; decide

theorem expScan_expText (ex : Option Int) (rest : Bytes) (hr : Fol rest) :
    expScan (expText ex ++ rest) = some (expText ex, rest) := by
  cases ex with
  | none =>
    simp only [expText, List.nil_append]
    exact expScan_skip rest (fun c hc => ⟨(fol_facts c (hr c hc)).2.2.1, (fol_facts c (hr c hc)).2.2.2⟩)
  | some x =>
    obtain ⟨h1, h2, _, _⟩ := decNat_props x.natAbs
    simp only [expText, Txt.decInt]
    by_cases hx : x < 0
    · simp only [hx, if_true, List.cons_append]
      exact expScan_neg _ rest h1 h2 (fol_ndh rest hr)
    · simp only [hx, if_false, List.cons_append]
      exact expScan_pos _ rest h1 h2 (fol_ndh rest hr)

theorem fracScan_fracText (fp tail : Bytes) (hd : ∀ c ∈ fp, isDigit c = true)
    (ht : ∀ c, tail.head? = some c → isDigit c = false ∧ c ≠ 46) :
    fracScan (fracText fp ++ tail) = some (fracText fp, tail) := by
  by_cases hfp : fp = []
  · simp only [fracText, hfp, if_true, List.nil_append]
    exact fracScan_skip tail (fun c hc => (ht c hc).2)
  · simp only [fracText, hfp, if_false, List.cons_append]
    exact fracScan_frac fp tail hfp hd (fun c hc => (ht c hc).1)

theorem fracText_head (fp tail : Bytes) (ht : ∀ c, tail.head? = some c → isDigit c = false ∧ c ≠ 46) :
    NDH (fracText fp ++ tail) := by
  intro c hc
  by_cases hfp : fp = []
  · simp only [fracText, hfp, if_true, List.nil_append] at hc; exact (ht c hc).1
  · simp [fracText, hfp] at hc; subst hc; decide

/-- the integer digits of a number: non-empty, digits only, no leading zero unless it is the single digit -/
structure IntPart (ip : Bytes) : Prop where
  ne : ip ≠ []
  dig : ∀ c ∈ ip, isDigit c = true
  lead : 1 < ip.length → ip.head? ≠ some 48

theorem digit_ne_minus (c : UInt8) (h : isDigit c = true) : c ≠ 45 := (digit_ne_sign c h).2

theorem scanNum_numText (neg : Bool) (ip fp : Bytes) (ex : Option Int) (rest : Bytes) (hip : IntPart ip)
    (hfp : ∀ c ∈ fp, isDigit c = true) (hr : Fol rest) :
    scanNum (numText neg ip fp ex ++ rest) = some (numText neg ip fp ex, rest) := by
  have he := expScan_expText ex rest hr
  have hE := expText_head ex rest hr
  have hf := fracScan_fracText fp (expText ex ++ rest) hfp hE
  have hF := fracText_head fp (expText ex ++ rest) hE
  have key : ∀ sign : Bytes, scanBody sign (ip ++ (fracText fp ++ (expText ex ++ rest))) =
      some (sign ++ ip ++ fracText fp ++ expText ex, rest) :=
    fun sign => scanBody_parts sign ip _ _ _ _ rest hip.ne hip.dig hip.lead hF hf he
  rw [numText_eq]
  cases neg with
  | true =>
    simp only [if_true, List.cons_append, List.nil_append, List.append_assoc]
    rw [scanNum_neg, key]
    simp
  | false =>
    simp only [Bool.false_eq_true, if_false, List.nil_append, List.append_assoc]
    cases hipc : ip with
    | nil => exact absurd hipc hip.ne
    | cons d ds =>
      have hd45 : d ≠ 45 := digit_ne_minus d (hip.dig d (by rw [hipc]; simp))
      have := key []
      rw [hipc] at this
      simp only [List.cons_append] at this ⊢
      rw [scanNum_pos d _ hd45, this]
      simp


/-! ### what the library model reads from a number text -/

theorem allDigits_of (ds : Bytes) (hne : ds ≠ []) (hd : ∀ c ∈ ds, isDigit c = true) : allDigits ds = true := by
  cases ds with
  | nil => exact absurd rfl hne
  | cons d t => simpa [allDigits] using hd

theorem expOf_expText (ex : Option Int) : expOf (expText ex) = some (ex.getD 0) := by
  cases ex with
  | none => rfl
  | some x =>
    obtain ⟨h1, h2, _, h4⟩ := decNat_props x.natAbs
    have had := allDigits_of _ h1 h2
    simp only [expText, Txt.decInt, Option.getD_some]
    by_cases hx : x < 0
    · simp only [hx, if_true, expOf, true_or, had, h4]
      congr 1; omega
    · simp only [hx, if_false]
      cases hdn : decNat x.natAbs with
      | nil => exact absurd hdn h1
      | cons d ds =>
        have hs := digit_ne_sign d (h2 d (by rw [hdn]; simp))
        rw [hdn] at had h4
        simp only [expOf, true_or, if_true]
        split
        · rename_i heq; simp at heq; exact absurd heq.1 hs.2
        · rename_i heq; simp at heq; exact absurd heq.1 hs.1
        · rename_i heq; simp only [had, h4, if_true]; congr 1; omega

theorem fracOf_fracText (fp : Bytes) (ex : Option Int) (hd : ∀ c ∈ fp, isDigit c = true) :
    fracOf (fracText fp ++ expText ex) = (fp, expText ex) := by
  have hE := expText_head ex [] (by intro c hc; simp at hc)
  simp only [List.append_nil] at hE
  by_cases hfp : fp = []
  · subst hfp
    simp only [fracText, if_true, List.nil_append]
    cases ex with
    | none => rfl
    | some x => rfl
  · simp only [fracText, hfp, if_false, List.cons_append, fracOf]
    exact spanDigits_all fp _ hd (fun c hc => (hE c hc).1)

theorem numAbs_parts (neg : Bool) (ip fp : Bytes) (ex : Option Int) (hip : IntPart ip)
    (hfp : ∀ c ∈ fp, isDigit c = true) :
    numAbs neg (ip ++ (fracText fp ++ expText ex)) = finish neg (ip ++ fp) (ex.getD 0 - (fp.length : Int)) := by
  have hE := expText_head ex [] (by intro c hc; simp at hc)
  simp only [List.append_nil] at hE
  have hF := fracText_head fp (expText ex) hE
  simp only [numAbs, spanDigits_all ip _ hip.dig hF, fracOf_fracText fp ex hfp, expOf_expText]

theorem numBits_numText (neg : Bool) (ip fp : Bytes) (ex : Option Int) (hip : IntPart ip)
    (hfp : ∀ c ∈ fp, isDigit c = true) :
    numBits (numText neg ip fp ex) = finish neg (ip ++ fp) (ex.getD 0 - (fp.length : Int)) := by
  have hs := scanNum_numText neg ip fp ex [] hip hfp (by intro c hc; simp at hc)
  simp only [List.append_nil] at hs
  have hn := numAbs_parts neg ip fp ex hip hfp
  unfold numBits
  rw [hs]
  simp only
  rw [numText_eq]
  cases neg with
  | true => simpa using hn
  | false =>
    cases hipc : ip with
    | nil => exact absurd hipc hip.ne
    | cons d ds =>
      have hd45 : d ≠ 45 := digit_ne_minus d (hip.dig d (by rw [hipc]; simp))
      rw [hipc] at hn
      simp only [Bool.false_eq_true, if_false, List.nil_append, List.cons_append] at hn ⊢
      split
      · rename_i heq; simp at heq; exact absurd heq.1 hd45
      · exact hn


/-! ### within the common range nothing overflows, and the same `f64OfRat` call comes out -/

theorem pow10_pos (k : Nat) : 0 < 10 ^ k := Nat.pow_pos (by decide)

set_option exponentiation.threshold 1100 in
/-- the threshold of the model in its readable form -/
theorem infThreshold_eq : infThreshold = 2 ^ 1024 - 2 ^ 970 := by decide

theorem infThreshold_big : 10 ^ 20 * 10 ^ 30 ≤ infThreshold := by decide

theorem finish_wf (neg : Bool) (ds : Bytes) (m : Nat) (e : Int) (hm : digitsVal ds = m) (hlt : m < 10 ^ 20)
    (h1 : -30 ≤ e) (h2 : e ≤ 30) :
    finish neg ds e = some (if e ≥ 0 then f64OfRat neg (m * 10 ^ e.toNat) 1 else f64OfRat neg m (10 ^ (-e).toNat)) := by
  have hT : 10 ^ 20 * 10 ^ 30 ≤ infThreshold := infThreshold_big
  have hT2 : 10 ^ 20 ≤ infThreshold := Nat.le_trans (by decide) infThreshold_big
  unfold finish
  simp only [hm]
  by_cases hm0 : m = 0
  · subst hm0
    by_cases he : e ≥ 0 <;> simp [he, f64OfRat]
  by_cases he : e ≥ 0
  · have hg : ¬ (e > 400) := by omega
    have hp : ¬ (m * 10 ^ e.toNat ≥ infThreshold) := by
      have : 10 ^ e.toNat ≤ 10 ^ 30 := Nat.pow_le_pow_right (by decide) (by omega)
      have := Nat.mul_lt_mul_of_lt_of_le hlt this (pow10_pos _)
      omega
    simp only [hm0, he, if_true, hg, hp, if_false]
  · have hg : ¬ ((-e).toNat > 400 + ds.length) := by omega
    have hp : ¬ (m ≥ 10 ^ (-e).toNat * infThreshold) := by
      have := Nat.mul_le_mul (pow10_pos (-e).toNat) (Nat.le_refl infThreshold)
      omega
    simp only [hm0, he, if_false, hg, hp]

theorem decNat_intPart (m : Nat) : IntPart (decNat m) :=
  ⟨(decNat_props m).1, (decNat_props m).2.1, (decNat_props m).2.2.1⟩

/-- the three shapes of `jsonNum` as sign, integer digits, fraction digits and exponent -/
theorem jsonNum_parts (neg : Bool) (m : Nat) (e : Int) :
    ∃ ip fp ex, jsonNum neg m e = numText neg ip fp ex ∧ IntPart ip ∧ (∀ c ∈ fp, isDigit c = true) ∧
      digitsVal (ip ++ fp) = m ∧ Option.getD ex 0 - (fp.length : Int) = e := by
  obtain ⟨h1, h2, h3, h4⟩ := decNat_props m
  by_cases he0 : e = 0
  · refine ⟨decNat m, [], none, ?_, decNat_intPart m, by simp, by simpa using h4, by simp [he0]⟩
    simp [jsonNum, numText, he0]
  by_cases hneg : e < 0 ∧ e ≥ -30
  · -- a decimal point inside the zero-padded digits
    obtain ⟨z1, z2, z3⟩ := zpad_props ((-e).toNat + 1) (decNat m) h2
    generalize hk : (-e).toNat = k at *
    generalize hd : zpad (k + 1) (decNat m) = d at *
    have hk1 : 1 ≤ k := by omega
    have hL : k + 1 ≤ d.length := by omega
    have hfl : (d.drop (d.length - k)).length = k := by simp only [List.length_drop]; omega
    have hfne : d.drop (d.length - k) ≠ [] := by
      intro h; rw [h] at hfl; simp at hfl; omega
    refine ⟨d.take (d.length - k), d.drop (d.length - k), none, ?_, ⟨?_, ?_, ?_⟩, ?_, ?_, ?_⟩
    · simp [jsonNum, numText, he0, hneg.1, hneg.2, hk, hd, hfne]
    · intro h
      have := congrArg List.length h
      simp only [List.length_take, List.length_nil] at this
      omega
    · intro c hc; exact z1 c (List.mem_of_mem_take hc)
    · intro hlen
      simp only [List.length_take] at hlen
      -- more than one integer digit: nothing was padded
      have hnp : k + 1 - (decNat m).length = 0 := by omega
      have hdd : d = decNat m := by rw [← hd]; simp [zpad, hnp]
      rw [List.head?_take, if_neg (by omega), hdd]
      exact h3 (by rw [← hdd]; omega)
    · intro c hc; exact z1 c (List.mem_of_mem_drop hc)
    · rw [List.take_append_drop, z2, h4]
    · simp only [Option.getD_none, hfl]; omega
  · refine ⟨decNat m, [], some e, ?_, decNat_intPart m, by simp, by simpa using h4, by simp⟩
    have : ¬ (e < 0 ∧ -30 ≤ e) := fun h => hneg ⟨h.1, h.2⟩
    simp [jsonNum, numText, he0, this]

theorem jsonNum_head (neg : Bool) (m : Nat) (e : Int) :
    ∃ c t, jsonNum neg m e = c :: t ∧ (c = 45 ∨ isDigit c = true) := by
  obtain ⟨ip, fp, ex, h, hip, _, _, _⟩ := jsonNum_parts neg m e
  rw [h, numText_eq]
  cases neg with
  | true => exact ⟨45, _, rfl, Or.inl rfl⟩
  | false =>
    cases hipc : ip with
    | nil => exact absurd hipc hip.ne
    | cons d ds => exact ⟨d, _, rfl, Or.inr (hip.dig d (by rw [hipc]; simp))⟩

/-- a rendered number, followed by a delimiter, is read as one number token with exactly that text -/
theorem parseV_jsonNum (neg : Bool) (m : Nat) (e : Int) (f : Nat) (rest : Bytes) (hr : Fol rest) :
    parseV (f + 1) (jsonNum neg m e ++ rest) = some (.num (jsonNum neg m e), rest) := by
  refine numText_parse _ rest f (jsonNum_head neg m e) ?_
  obtain ⟨ip, fp, ex, h, hip, hfp, _, _⟩ := jsonNum_parts neg m e
  rw [h]
  exact scanNum_numText neg ip fp ex rest hip hfp hr

/-- within the common range the library model makes of a rendered number the float the view shows -/
theorem numBits_jsonNum (neg : Bool) (m : Nat) (e : Int) (hlt : m < 10 ^ 20) (h1 : -30 ≤ e) (h2 : e ≤ 30) :
    numBits (jsonNum neg m e) =
      some (if e ≥ 0 then f64OfRat neg (m * 10 ^ e.toNat) 1 else f64OfRat neg m (10 ^ (-e).toNat)) := by
  obtain ⟨ip, fp, ex, h, hip, hfp, hv, he⟩ := jsonNum_parts neg m e
  rw [h, numBits_numText neg ip fp ex hip hfp, he]
  exact finish_wf neg (ip ++ fp) m e hv hlt h1 h2

/-! ### strings -/

def escByte (b : UInt8) : Bytes :=
  if b == 34 then [92, 34] else if b == 92 then [92, 92]
  else if b.toNat < 32 then asc "\\u00" ++ Txt.hexPad 2 b.toNat else [b]

theorem jsonEscape_eq (s : Bytes) : jsonEscape s = s.flatMap escByte := rfl

theorem hexPad2 : ∀ n : Fin 32, Txt.hexPad 2 n.val = [Txt.hexCh false (n.val / 16), Txt.hexCh false (n.val % 16)] := by
  decide

theorem asc_u00 : asc "\\u00" = [92, 117, 48, 48] := by decide

theorem escByte_scan (b : UInt8) (tail : Bytes) (r : Bytes × Bytes) (h : scanStr tail = some r) :
    scanStr (escByte b ++ tail) = some (b :: r.1, r.2) := by
  unfold escByte
  by_cases h1 : b = 34
  · subst h1
    exact CliRender.esc2_scan 34 34 (by decide) (by decide) tail r h
  by_cases h2 : b = 92
  · subst h2
    exact CliRender.esc2_scan 92 92 (by decide) (by decide) tail r h
  have e1 : (b == 34) = false := by simpa using h1
  have e2 : (b == 92) = false := by simpa using h2
  simp only [e1, e2, Bool.false_eq_true, if_false]
  by_cases h3 : b.toNat < 32
  · rw [if_pos h3, asc_u00, hexPad2 ⟨b.toNat, h3⟩]
    exact CliRender.u00_scan b (by omega) tail r h
  · rw [if_neg h3]
    have h32 : ¬ b < 32 := by simpa [UInt8.lt_iff_toNat_lt] using h3
    simp only [List.cons_append, List.nil_append]
    rw [scanStr.eq_def]
    simp only [h1, h2, h32, if_false, h, Option.map_some]

theorem scanStr_escape (s rest : Bytes) : scanStr (jsonEscape s ++ 34 :: rest) = some (s, rest) := by
  rw [jsonEscape_eq]
  induction s with
  | nil => simp only [List.flatMap_nil, List.nil_append]; exact CliRender.scanStr_quote rest
  | cons c s ih =>
    simp only [List.flatMap_cons, List.append_assoc]
    exact escByte_scan c _ (s, rest) ih

/-! ### the JSON value a rendered document denotes -/

open PgVerif.Spec.Scalars (renderList renderKvs viewList viewKvs wfList wfKvs)

mutual
def jOf : JV → J
  | .null => .null
  | .bool b => .bool b
  | .num n m e => .num (jsonNum n m e)
  | .str s => .str s
  | .arr xs => .arr (jOfList xs)
  | .obj kvs => .obj (jOfKvs kvs)
def jOfList : List JV → List J
  | [] => []
  | x :: xs => jOf x :: jOfList xs
def jOfKvs : List (Bytes × JV) → List (Bytes × J)
  | [] => []
  | (k, v) :: rest => (k, jOf v) :: jOfKvs rest
end

mutual
def need : JV → Nat
  | .arr xs => 1 + needList xs
  | .obj kvs => 1 + needKvs kvs
  | _ => 1
def needList : List JV → Nat
  | [] => 0
  | x :: xs => 1 + max (need x) (needList xs)
def needKvs : List (Bytes × JV) → Nat
  | [] => 0
  | (_, v) :: rest => 1 + max (need v) (needKvs rest)
end

/-! the optional white space of the three styles -/
def wOpen (ws : Nat) : Bytes := if ws ≥ 2 then [32] else []
def wArr (ws : Nat) : Bytes := if ws ≥ 2 then [10] else []
def wObj (ws : Nat) : Bytes := if ws ≥ 2 then [9] else []
def wSep (ws : Nat) : Bytes := if ws ≥ 1 then [32] else []

def AllWs (w : Bytes) : Prop := ∀ c ∈ w, isWs c = true

theorem allWs_ite (p : Prop) [Decidable p] (c : UInt8) (h : isWs c = true) : AllWs (if p then [c] else []) := by
  intro d hd
  split at hd
  · rw [List.mem_singleton.mp hd]; exact h
  · simp at hd

theorem wOpen_ws (ws : Nat) : AllWs (wOpen ws) := allWs_ite _ 32 (by decide)
theorem wArr_ws (ws : Nat) : AllWs (wArr ws) := allWs_ite _ 10 (by decide)
theorem wObj_ws (ws : Nat) : AllWs (wObj ws) := allWs_ite _ 9 (by decide)
theorem wSep_ws (ws : Nat) : AllWs (wSep ws) := allWs_ite _ 32 (by decide)

theorem skipWs_allWs (w bs : Bytes) (h : AllWs w) : skipWs (w ++ bs) = skipWs bs := by
  induction w with
  | nil => rfl
  | cons c w ih =>
    simp only [List.cons_append, skipWs, h c (by simp), if_true]
    exact ih (fun d hd => h d (by simp [hd]))

theorem render_arr (ws : Nat) (xs : List JV) :
    (JV.arr xs).render ws = 91 :: (wOpen ws ++ (renderList ws xs ++ (wArr ws ++ [93]))) := by
  simp only [JV.render, wOpen, wArr, List.cons_append, List.nil_append, List.append_assoc]

theorem render_obj (ws : Nat) (kvs : List (Bytes × JV)) :
    (JV.obj kvs).render ws = 123 :: (wOpen ws ++ (renderKvs ws kvs ++ (wObj ws ++ [125]))) := by
  simp only [JV.render, wOpen, wObj, List.cons_append, List.nil_append, List.append_assoc]

theorem renderList_one (ws : Nat) (x : JV) : renderList ws [x] = x.render ws := by
  simp only [renderList]

theorem renderList_more (ws : Nat) (x y : JV) (ys : List JV) :
    renderList ws (x :: y :: ys) = x.render ws ++ 44 :: (wSep ws ++ renderList ws (y :: ys)) := by
  simp only [renderList, wSep, List.cons_append, List.nil_append, List.append_assoc]

theorem renderKvs_one (ws : Nat) (k : Bytes) (v : JV) :
    renderKvs ws [(k, v)] = 34 :: (jsonEscape k ++ 34 :: 58 :: (wSep ws ++ v.render ws)) := by
  simp only [renderKvs, wSep, List.cons_append, List.nil_append, List.append_assoc]

theorem renderKvs_more (ws : Nat) (k : Bytes) (v : JV) (kv2 : Bytes × JV) (more : List (Bytes × JV)) :
    renderKvs ws ((k, v) :: kv2 :: more) =
      34 :: (jsonEscape k ++ 34 :: 58 :: (wSep ws ++ (v.render ws ++ 44 :: (wSep ws ++ renderKvs ws (kv2 :: more))))) := by
  simp only [renderKvs, wSep, List.cons_append, List.nil_append, List.append_assoc]

/-- the first byte of a value's text: not white space and not a closing bracket -/
theorem value_head (ws : Nat) (v : JV) : ∃ c t, v.render ws = c :: t ∧ isWs c = false ∧ c ≠ 93 ∧ c ≠ 125 := by
  cases v with
  | null => exact ⟨110, _, rfl, by decide, by decide, by decide⟩
  | bool b =>
    cases b
    · exact ⟨102, _, rfl, by decide, by decide, by decide⟩
    · exact ⟨116, _, rfl, by decide, by decide, by decide⟩
  | num n m e =>
    obtain ⟨c, t, h1, h2⟩ := jsonNum_head n m e
    refine ⟨c, t, by simp only [JV.render, h1], ?_⟩
    rcases h2 with h2 | h2
    · subst h2; decide
    · exact ExportJson.digit_not c h2
  | str s => exact ⟨34, _, by simp only [JV.render]; rfl, by decide, by decide, by decide⟩
  | arr xs => exact ⟨91, _, render_arr ws xs, by decide, by decide, by decide⟩
  | obj kvs => exact ⟨123, _, render_obj ws kvs, by decide, by decide, by decide⟩

theorem elems_head (ws : Nat) (x : JV) (xs : List JV) (tail : Bytes) :
    ∃ c t, renderList ws (x :: xs) ++ tail = c :: t ∧ isWs c = false ∧ c ≠ 93 := by
  obtain ⟨c, t, hct, hws, h93, _⟩ := value_head ws x
  cases xs with
  | nil => exact ⟨c, t ++ tail, by rw [renderList_one, hct]; rfl, hws, h93⟩
  | cons y ys => exact ⟨c, _, by rw [renderList_more, hct]; rfl, hws, h93⟩

theorem members_head (ws : Nat) (k : Bytes) (v : JV) (kvs : List (Bytes × JV)) (tail : Bytes) :
    ∃ t, renderKvs ws ((k, v) :: kvs) ++ tail = 34 :: t := by
  cases kvs with
  | nil => exact ⟨_, by rw [renderKvs_one]; rfl⟩
  | cons y ys => exact ⟨_, by rw [renderKvs_more]; rfl⟩

theorem fol_cons (c : UInt8) (t : Bytes) (h : c = 44 ∨ c = 93 ∨ c = 125 ∨ c = 10 ∨ c = 9) : Fol (c :: t) := by
  intro d hd; simp at hd; subst hd; exact h

theorem fol_wArr (ws : Nat) (t : Bytes) : Fol (wArr ws ++ 93 :: t) := by
  unfold wArr; split
  · exact fol_cons 10 _ (by decide)
  · exact fol_cons 93 _ (by decide)

theorem fol_wObj (ws : Nat) (t : Bytes) : Fol (wObj ws ++ 125 :: t) := by
  unfold wObj; split
  · exact fol_cons 9 _ (by decide)
  · exact fol_cons 125 _ (by decide)

open CliRender (parseV_congr parseElems_congr parseMembers_congr)

mutual
/-- the text of a document in any of the three styles, followed by a delimiter, parses to the JSON value it denotes
and stops exactly there -/
theorem parseV_render : ∀ (v : JV) (ws f : Nat) (rest : Bytes), need v ≤ f → Fol rest →
    parseV f (v.render ws ++ rest) = some (jOf v, rest)
  | .null, ws, f, rest, hf, _ => by
    cases f with
    | zero => simp [need] at hf
    | succ f => simp [JV.render, jOf, parseV, skipWs, isWs, asc]
  | .bool b, ws, f, rest, hf, _ => by
    cases f with
    | zero => simp [need] at hf
    | succ f => cases b <;> simp [JV.render, jOf, parseV, skipWs, isWs, asc]
  | .num n m e, ws, f, rest, hf, hr => by
    cases f with
    | zero => simp [need] at hf
    | succ f =>
      simp only [JV.render, jOf]
      exact parseV_jsonNum n m e f rest hr
  | .str s, ws, f, rest, hf, _ => by
    cases f with
    | zero => simp [need] at hf
    | succ f =>
      have hs := scanStr_escape s rest
      simp only [JV.render, jOf, List.cons_append, List.nil_append, List.append_assoc]
      simp [parseV, skipWs, isWs, hs]
  | .arr [], ws, f, rest, hf, _ => by
    cases f with
    | zero => simp [need] at hf
    | succ f =>
      rw [render_arr]
      simp only [renderList, List.nil_append, List.cons_append, List.append_assoc, jOf, jOfList, parseV]
      simp only [skipWs_nonws 91 _ (by decide), show ((91 : UInt8) = 110) = False by decide,
        show ((91 : UInt8) = 116) = False by decide, show ((91 : UInt8) = 102) = False by decide,
        show ((91 : UInt8) = 34) = False by decide, if_false, if_true]
      rw [skipWs_allWs _ _ (wOpen_ws ws), skipWs_allWs _ _ (wArr_ws ws), skipWs_nonws 93 _ (by decide)]
      rfl
  | .arr (x :: xs), ws, f, rest, hf, _ => by
    cases f with
    | zero => simp [need] at hf
    | succ f =>
      have hfl : needList (x :: xs) ≤ f := by simp only [need] at hf; omega
      have ih := parseElems_render x xs ws f rest hfl
      obtain ⟨c, t', ht', hws, h93⟩ := elems_head ws x xs (wArr ws ++ 93 :: rest)
      rw [render_arr]
      simp only [jOf, List.cons_append, List.append_assoc, List.nil_append, parseV]
      simp only [skipWs_nonws 91 _ (by decide), show ((91 : UInt8) = 110) = False by decide,
        show ((91 : UInt8) = 116) = False by decide, show ((91 : UInt8) = 102) = False by decide,
        show ((91 : UInt8) = 34) = False by decide, if_false, if_true]
      rw [skipWs_allWs _ _ (wOpen_ws ws), parseElems_congr f _ _ (skipWs_allWs _ _ (wOpen_ws ws))]
      rw [ht'] at ih ⊢
      rw [skipWs_nonws c t' hws]
      split
      · rename_i heq; simp at heq; exact absurd heq.1 h93
      · rw [ih]; rfl
  | .obj [], ws, f, rest, hf, _ => by
    cases f with
    | zero => simp [need] at hf
    | succ f =>
      rw [render_obj]
      simp only [renderKvs, List.nil_append, List.cons_append, List.append_assoc, jOf, jOfKvs, parseV]
      simp only [skipWs_nonws 123 _ (by decide), show ((123 : UInt8) = 110) = False by decide,
        show ((123 : UInt8) = 116) = False by decide, show ((123 : UInt8) = 102) = False by decide,
        show ((123 : UInt8) = 34) = False by decide, show ((123 : UInt8) = 91) = False by decide, if_false, if_true]
      rw [skipWs_allWs _ _ (wOpen_ws ws), skipWs_allWs _ _ (wObj_ws ws), skipWs_nonws 125 _ (by decide)]
      rfl
  | .obj ((k, v) :: kvs), ws, f, rest, hf, _ => by
    cases f with
    | zero => simp [need] at hf
    | succ f =>
      have hfl : needKvs ((k, v) :: kvs) ≤ f := by simp only [need] at hf; omega
      have ih := parseMembers_render k v kvs ws f rest hfl
      obtain ⟨t', ht'⟩ := members_head ws k v kvs (wObj ws ++ 125 :: rest)
      rw [render_obj]
      simp only [jOf, List.cons_append, List.append_assoc, List.nil_append, parseV]
      simp only [skipWs_nonws 123 _ (by decide), show ((123 : UInt8) = 110) = False by decide,
        show ((123 : UInt8) = 116) = False by decide, show ((123 : UInt8) = 102) = False by decide,
        show ((123 : UInt8) = 34) = False by decide, show ((123 : UInt8) = 91) = False by decide, if_false, if_true]
      rw [skipWs_allWs _ _ (wOpen_ws ws), parseMembers_congr f _ _ (skipWs_allWs _ _ (wOpen_ws ws))]
      rw [ht'] at ih ⊢
      rw [skipWs_nonws 34 t' (by decide)]
      split
      · rename_i heq; simp at heq
      · rw [ih]; rfl
termination_by v => sizeOf v
decreasing_by all_goals (simp_wf; try omega)
/-- one or more values separated by commas, closed by `]` -/
theorem parseElems_render : ∀ (x : JV) (xs : List JV) (ws f : Nat) (rest : Bytes),
    needList (x :: xs) ≤ f →
    parseElems f (renderList ws (x :: xs) ++ (wArr ws ++ 93 :: rest)) = some (jOfList (x :: xs), rest)
  | x, [], ws, f, rest, hf => by
    cases f with
    | zero => simp [needList] at hf
    | succ f =>
      have hx : need x ≤ f := by simp only [needList] at hf; omega
      have h1 := parseV_render x ws f (wArr ws ++ 93 :: rest) hx (fol_wArr ws rest)
      rw [renderList_one]
      simp only [parseElems, h1, skipWs_allWs _ _ (wArr_ws ws), skipWs_nonws 93 _ (by decide), jOfList]
  | x, y :: ys, ws, f, rest, hf => by
    cases f with
    | zero => simp [needList] at hf
    | succ f =>
      have hx : need x ≤ f := by simp only [needList] at hf; omega
      have hys : needList (y :: ys) ≤ f := by simp only [needList] at hf ⊢; omega
      have h1 := parseV_render x ws f (44 :: (wSep ws ++ (renderList ws (y :: ys) ++ (wArr ws ++ 93 :: rest))))
        hx (fol_cons 44 _ (Or.inl rfl))
      have h2 := parseElems_render y ys ws f rest hys
      rw [renderList_more]
      simp only [List.append_assoc, List.cons_append, parseElems, h1]
      simp only [skipWs_nonws 44 _ (by decide), parseElems_congr f _ _ (skipWs_allWs _ _ (wSep_ws ws)), h2,
        Option.map_some, jOfList]
termination_by x xs => sizeOf x + sizeOf xs
decreasing_by all_goals (simp_wf; try omega)
/-- one or more `"key": value` members separated by commas, closed by `}` -/
theorem parseMembers_render : ∀ (k : Bytes) (v : JV) (kvs : List (Bytes × JV)) (ws f : Nat) (rest : Bytes),
    needKvs ((k, v) :: kvs) ≤ f →
    parseMembers f (renderKvs ws ((k, v) :: kvs) ++ (wObj ws ++ 125 :: rest)) = some (jOfKvs ((k, v) :: kvs), rest)
  | k, v, [], ws, f, rest, hf => by
    cases f with
    | zero => simp [needKvs] at hf
    | succ f =>
      have hx : need v ≤ f := by simp only [needKvs] at hf; omega
      have h1 := parseV_render v ws f (wObj ws ++ 125 :: rest) hx (fol_wObj ws rest)
      have hs := scanStr_escape k (58 :: (wSep ws ++ (v.render ws ++ (wObj ws ++ 125 :: rest))))
      rw [renderKvs_one]
      simp only [List.append_assoc, List.cons_append]
      simp only [parseMembers, skipWs_nonws 34 _ (by decide), hs, skipWs_nonws 58 _ (by decide),
        parseV_congr f _ _ (skipWs_allWs _ _ (wSep_ws ws)), h1, skipWs_allWs _ _ (wObj_ws ws),
        skipWs_nonws 125 _ (by decide), jOfKvs]
  | k, v, (k2, v2) :: more, ws, f, rest, hf => by
    cases f with
    | zero => simp [needKvs] at hf
    | succ f =>
      have hx : need v ≤ f := by simp only [needKvs] at hf; omega
      have hys : needKvs ((k2, v2) :: more) ≤ f := by simp only [needKvs] at hf ⊢; omega
      have h1 := parseV_render v ws f (44 :: (wSep ws ++ (renderKvs ws ((k2, v2) :: more) ++ (wObj ws ++ 125 :: rest))))
        hx (fol_cons 44 _ (Or.inl rfl))
      have h2 := parseMembers_render k2 v2 more ws f rest hys
      have hs := scanStr_escape k (58 :: (wSep ws ++ (v.render ws ++
        44 :: (wSep ws ++ (renderKvs ws ((k2, v2) :: more) ++ (wObj ws ++ 125 :: rest))))))
      rw [renderKvs_more]
      simp only [List.append_assoc, List.cons_append]
      simp only [parseMembers, skipWs_nonws 34 _ (by decide), hs, skipWs_nonws 58 _ (by decide),
        parseV_congr f _ _ (skipWs_allWs _ _ (wSep_ws ws)), h1, skipWs_nonws 44 _ (by decide),
        parseMembers_congr f _ _ (skipWs_allWs _ _ (wSep_ws ws)), h2, Option.map_some, jOfKvs]
termination_by _ v kvs => sizeOf v + sizeOf kvs
decreasing_by all_goals (simp_wf; try omega)
end

/-! ### the fuel of `parse` suffices -/

mutual
theorem need_le : ∀ (ws : Nat) (v : JV), need v ≤ (v.render ws).length + 1
  | _, .null => by simp [need]
  | _, .bool _ => by simp [need]
  | _, .num _ _ _ => by simp [need]
  | _, .str _ => by simp [need]
  | ws, .arr xs => by
    have := needList_le ws xs
    rw [render_arr]
    simp only [need, List.length_cons, List.length_append, List.length_nil]
    omega
  | ws, .obj kvs => by
    have := needKvs_le ws kvs
    rw [render_obj]
    simp only [need, List.length_cons, List.length_append, List.length_nil]
    omega
theorem needList_le : ∀ (ws : Nat) (xs : List JV), needList xs ≤ (renderList ws xs).length + 2
  | _, [] => by simp [needList]
  | ws, [x] => by
    have := need_le ws x
    rw [renderList_one]
    simp only [needList]; omega
  | ws, x :: y :: ys => by
    have h1 := need_le ws x
    have h2 := needList_le ws (y :: ys)
    rw [renderList_more]
    simp only [needList, List.length_cons, List.length_append] at h2 ⊢
    omega
theorem needKvs_le : ∀ (ws : Nat) (kvs : List (Bytes × JV)), needKvs kvs ≤ (renderKvs ws kvs).length + 2
  | _, [] => by simp [needKvs]
  | ws, [(k, v)] => by
    have := need_le ws v
    rw [renderKvs_one]
    simp only [needKvs, List.length_cons, List.length_append]; omega
  | ws, (k, v) :: kv2 :: rest => by
    have h1 := need_le ws v
    have h2 := needKvs_le ws (kv2 :: rest)
    rw [renderKvs_more]
    simp only [needKvs, List.length_cons, List.length_append] at h2 ⊢
    omega
end

/-- the stored text of a document, in any of the three styles, is valid JSON denoting `jOf` of the document
(no well-formedness needed: every byte string and every mantissa/exponent has a parseable text) -/
theorem parse_render (d : JV) (ws : Nat) : parse (d.render ws) = some (jOf d) := by
  unfold parse
  have h := parseV_render d ws (2 * (d.render ws).length + 2) [] (by have := need_le ws d; omega)
    (by intro c hc; simp at hc)
  simp only [List.append_nil] at h
  rw [h]
  simp [skipWs]

/-! ### from the JSON value to the Go value -/

theorem mapInsert_fresh (acc : List (Bytes × GoVal)) (k : Bytes) (v : GoVal) (h : k ∉ acc.map (·.1)) :
    mapInsert acc k v = acc ++ [(k, v)] := by
  have : acc.any (fun kv => kv.1 == k) = false := by
    rw [Bool.eq_false_iff]
    intro hany
    rw [List.any_eq_true] at hany
    obtain ⟨kv, hkv, he⟩ := hany
    have : kv.1 = k := by simpa using he
    exact h (by rw [← this]; exact List.mem_map_of_mem hkv)
  simp only [mapInsert, this, Bool.false_eq_true, if_false]

theorem viewKvs_keys (kvs : List (Bytes × JV)) : (viewKvs kvs).map (·.1) = kvs.map (·.1) := by
  induction kvs with
  | nil => simp [viewKvs]
  | cons kv rest ih => obtain ⟨k, v⟩ := kv; simp [viewKvs, ih]

mutual
theorem toGo_jOf : ∀ (d : JV), d.wf = true → toGo (jOf d) = some d.view
  | .null, _ => by simp [jOf, toGo, JV.view]
  | .bool b, _ => by simp [jOf, toGo, JV.view]
  | .num n m e, h => by
    simp only [JV.wf, Bool.and_eq_true, decide_eq_true_eq] at h
    simp only [jOf, toGo, JV.view, numBits_jsonNum n m e h.1.1 h.1.2 h.2, Option.map_some]
  | .str s, _ => by simp [jOf, toGo, JV.view]
  | .arr xs, h => by
    simp only [JV.wf] at h
    simp only [jOf, toGo, JV.view, toGoList_jOf xs h, Option.map_some]
  | .obj kvs, h => by
    simp only [JV.wf, Bool.and_eq_true, decide_eq_true_eq] at h
    have := toGoKvs_jOf kvs [] h.1 h.2 (by simp)
    simp only [jOf, toGo, JV.view, this, Option.map_some, List.nil_append]
theorem toGoList_jOf : ∀ (xs : List JV), wfList xs = true → toGoList (jOfList xs) = some (viewList xs)
  | [], _ => by simp [jOfList, toGoList, viewList]
  | x :: xs, h => by
    simp only [wfList, Bool.and_eq_true] at h
    simp only [jOfList, toGoList, viewList, toGo_jOf x h.1, toGoList_jOf xs h.2]
/-- distinct keys that are not yet in the map are appended in order -/
theorem toGoKvs_jOf : ∀ (kvs : List (Bytes × JV)) (acc : List (Bytes × GoVal)), wfKvs kvs = true →
    (kvs.map (·.1)).Nodup → (∀ k ∈ kvs.map (·.1), k ∉ acc.map (·.1)) →
    toGoKvs (jOfKvs kvs) acc = some (acc ++ viewKvs kvs)
  | [], acc, _, _, _ => by simp [jOfKvs, toGoKvs, viewKvs]
  | (k, v) :: rest, acc, h, hnd, hdis => by
    simp only [wfKvs, Bool.and_eq_true] at h
    simp only [List.map_cons, List.nodup_cons] at hnd
    have hk : k ∉ acc.map (·.1) := hdis k (by simp)
    have hdis' : ∀ k' ∈ rest.map (·.1), k' ∉ (acc ++ [(k, v.view)]).map (·.1) := by
      intro k' hk' hmem
      simp only [List.map_append, List.map_cons, List.map_nil, List.mem_append, List.mem_singleton] at hmem
      rcases hmem with hmem | hmem
      · exact hdis k' (by simp only [List.map_cons, List.mem_cons]; exact Or.inr hk') hmem
      · subst hmem; exact hnd.1 hk'
    have ih := toGoKvs_jOf rest (acc ++ [(k, v.view)]) h.2 hnd.2 hdis'
    simp only [jOfKvs, toGoKvs, toGo_jOf v h.1.2, mapInsert_fresh acc k v.view hk, ih, viewKvs,
      List.append_assoc, List.cons_append, List.nil_append]
end

/-- the same for any style number (styles above 2 render like 2) -/
theorem jsonUnmarshal_render_any (d : JV) (ws : Nat) (hd : d.wf = true) :
    jsonUnmarshal (d.render ws) = some d.view := by
  simp only [jsonUnmarshal, parse_render d ws, Option.bind_some]
  exact toGo_jOf d hd

/-- **the library model reads PostgreSQL's stored `json` text back to the document's Go value**: for every
well-formed document (`JV.wf`: distinct keys per object, mantissa < 10^20, |exponent| ≤ 30; the UTF-8 validity of
strings that `wf` also demands is not used) and each of the three white-space styles, `Unmarshal` of the rendered
text succeeds and yields exactly `d.view`: same structure, members in document order, strings byte for byte,
every number the binary64 nearest to ±mant·10^exp. -/
theorem jsonUnmarshal_render (d : JV) (ws : Nat) (hd : d.wf = true) (_hws : ws ≤ 2) :
    jsonUnmarshal (d.render ws) = some d.view :=
  jsonUnmarshal_render_any d ws hd

/-- the stored text of a document is never empty -/
theorem render_length_pos (d : JV) (ws : Nat) : (d.render ws).length ≥ 1 := by
  obtain ⟨c, t, h, _⟩ := value_head ws d
  rw [h]; simp

/-! ### examples, by evaluation -/

/-- `{ "k": -12.5, "é": [ null, true, 1e30\n], "": { "x": "\"\u000a😀"\t}, "n": 9007199254740993\t}` (style 2) -/
def exDoc : JV :=
  .obj [([107], .num true 125 (-1)),
        ([0xC3, 0xA9], .arr [.null, .bool true, .num false 1 30]),
        ([], .obj [([120], .str [34, 10, 0xF0, 0x9F, 0x98, 0x80])]),
        ([110], .num false 9007199254740993 0)]

example : exDoc.wf = true := by decide
example : (JV.num true 125 (-1)).render 0 = asc "-12.5" := by decide
example : (JV.num false 5 (-3)).render 0 = asc "0.005" := by decide
example : (JV.num false 1 30).render 0 = asc "1e30" := by decide
example : (JV.arr [.str [34, 10], .obj [([107], .null)]]).render 2 = asc "[ \"\\\"\\u000a\", { \"k\": null\t}\n]" := by decide
example : jsonUnmarshal (exDoc.render 0) = some exDoc.view := rfl
example : jsonUnmarshal (exDoc.render 1) = some exDoc.view := rfl
example : jsonUnmarshal (exDoc.render 2) = some exDoc.view := rfl
/-- the value read: -12.5, 1e30 and 2^53 (9007199254740993 is a tie and rounds to even) as IEEE bits -/
example : jsonUnmarshal (exDoc.render 2) =
    some (.obj [([107], .f64 0xC029000000000000),
                ([0xC3, 0xA9], .arr [.nil, .bool true, .f64 0x46293E5939A08CEA]),
                ([], .obj [([120], .str [34, 10, 0xF0, 0x9F, 0x98, 0x80])]),
                ([110], .f64 0x4340000000000000)]) := rfl
example : jsonUnmarshal (asc "0.005") = some (.f64 0x3F747AE147AE147B) := rfl
example : jsonUnmarshal (asc "1E+2") = some (.f64 0x4059000000000000) := rfl
example : jsonUnmarshal (asc "-0") = some (.f64 0x8000000000000000) := rfl
example : jsonUnmarshal (asc "01") = none := rfl
example : jsonUnmarshal (asc "[1,]") = none := rfl

/-! the remaining examples are evaluated by the kernel (`decide +kernel` on a decidable projection of the result):
the powers of ten involved are beyond the elaborator's `exponentiation.threshold` -/

/-- the float of a result that is a number -/
def f64Of : Option GoVal → Option Nat
  | some (.f64 b) => some b
  | _ => none

/-- the members of a result that is an object of numbers -/
def membersF64 : Option GoVal → Option (List (Bytes × Nat))
  | some (.obj kvs) => kvs.mapM (fun kv => match kv.2 with | .f64 b => some (kv.1, b) | _ => none)
  | _ => none

/-- Go map semantics: the last duplicate wins, at the first position -/
example : membersF64 (jsonUnmarshal (asc "{\"a\":1,\"b\":3,\"a\":2}")) =
    some [([97], 0x4000000000000000), ([98], 0x4008000000000000)] := by decide +kernel
/-- range: the largest finite value is read, the midpoint to 2^1024 and everything above is an error, 1e-400 is 0 -/
example : f64Of (jsonUnmarshal (asc "1.7976931348623158e308")) = some 0x7FEFFFFFFFFFFFFF := by decide +kernel
example : (jsonUnmarshal (asc "1.7976931348623159e308")).isNone = true := by decide +kernel
example : (jsonUnmarshal (asc "1e999999999")).isNone = true := by decide +kernel
example : f64Of (jsonUnmarshal (asc "1e-400")) = some 0 := by decide +kernel
example : f64Of (jsonUnmarshal (asc "-1e-999999999")) = some 0x8000000000000000 := by decide +kernel
/-- the threshold of the model is exactly where the correctly rounded value turns infinite -/
example : f64OfRat false (infThreshold - 1) 1 = 0x7FEFFFFFFFFFFFFF := by decide +kernel
example : f64OfRat false infThreshold 1 = 0x7FF0000000000000 := by decide +kernel
example : f64OfRat true (infThreshold * 10 - 1) 10 = 0xFFEFFFFFFFFFFFFF := by decide +kernel
/-- a lone surrogate escape is rejected by the neutral parser (Go: U+FFFD); outside the image of `JV.render` -/
example : (jsonUnmarshal (asc "\"\\ud800\"")).isNone = true := by decide +kernel

end PgVerif.Proofs.ScalarsJsonParse
