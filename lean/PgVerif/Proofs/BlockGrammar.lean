/-
  ParseBlockRange (model, `Model/Block.lean`) against the independent grammar of the range option
  (`Spec/Block.lean: rangeSyntax`): the model accepts exactly the strings of the grammar, with the
  numbers they denote, and rejects every other non-empty string with an error.
-/
import PgVerif.Proofs.Block
namespace PgVerif.Proofs.BlockGrammar
open PgVerif PgVerif.Model
open PgVerif.Spec.BlockAddr (rangeSyntax number isDigits decimal splitFirstColon)

/-! ### L1: the two splitters agree -/

theorem splitFirstColon_none (s : Bytes) (h : splitFirstColon s = none) : s.contains 58 = false := by
  induction s with
  | nil => rfl
  | cons c rest ih =>
    unfold splitFirstColon at h
    by_cases hc : c = 58
    · subst hc; simp at h
    · have hc' : (c == 58) = false := by simpa using hc
      rw [if_neg (by simp [hc'])] at h
      have hr : splitFirstColon rest = none := by
        cases hs : splitFirstColon rest with
        | none => rfl
        | some p => rw [hs] at h; simp at h
      have := ih hr
      simp only [List.contains_cons, this, Bool.or_false]
      cases hq : ((58 : UInt8) == c) with
      | false => rfl
      | true => exact absurd (beq_iff_eq.mp hq).symm hc

theorem splitFirstColon_some (s l r : Bytes) (h : splitFirstColon s = some (l, r)) :
    s.contains 58 = true ∧ splitColon2 s = [l, r] ∧ s = l ++ 58 :: r ∧ l.contains 58 = false := by
  induction s generalizing l with
  | nil => simp [splitFirstColon] at h
  | cons c rest ih =>
    unfold splitFirstColon at h
    by_cases hc : c = 58
    · subst hc
      rw [if_pos (by decide)] at h
      simp only [Option.some.injEq, Prod.mk.injEq] at h
      obtain ⟨h1, h2⟩ := h
      subst h1; subst h2
      refine ⟨by simp, ?_, by simp, by simp⟩
      unfold splitColon2
      rw [if_pos (by decide)]
    · have hc' : (c == 58) = false := by simpa using hc
      rw [if_neg (by simp [hc'])] at h
      cases hs : splitFirstColon rest with
      | none => rw [hs] at h; simp at h
      | some p =>
        obtain ⟨l', r'⟩ := p
        rw [hs] at h
        simp only [Option.map_some, Option.some.injEq, Prod.mk.injEq] at h
        obtain ⟨h1, h2⟩ := h
        subst h1; subst h2
        obtain ⟨i1, i2, i3, i4⟩ := ih l' hs
        have hq : ((58 : UInt8) == c) = false := by
          cases hq : ((58 : UInt8) == c) with
          | false => rfl
          | true => exact absurd (beq_iff_eq.mp hq).symm hc
        refine ⟨by simp only [List.contains_cons, i1, Bool.or_true], ?_, by rw [i3]; simp,
          by simp only [List.contains_cons, i4, hq, Bool.or_false]⟩
        unfold splitColon2
        rw [if_neg (by simp [hc']), i2]

/-! ### L2: the two number readers agree -/

theorem isDigit_not_sign (c : UInt8) (h : isDigit c = true) : c ≠ 43 ∧ c ≠ 45 := by
  refine ⟨?_, ?_⟩ <;> intro e <;> subst e <;> exact absurd h (by decide)

theorem all_isDigit_eq (p : Bytes) : (p.all fun c => 48 ≤ c && c ≤ 57) = p.all isDigit := rfl

theorem parseBlockNumber_eq (p : Bytes) : parseBlockNumber p = (number p).map (fun (n : Nat) => (n : Int)) := by
  cases p with
  | nil => simp [parseBlockNumber, atoi, number, isDigits]
  | cons c t =>
    unfold parseBlockNumber number isDigits
    rw [all_isDigit_eq]
    by_cases hall : (c :: t).all isDigit = true
    · have hc : isDigit c = true := by
        simp only [List.all_cons, Bool.and_eq_true] at hall; exact hall.1
      obtain ⟨h43, h45⟩ := isDigit_not_sign c hc
      have e43 : ((some c : Option UInt8) == some 43) = false := by simpa using h43
      have e45 : ((some c : Option UInt8) == some 45) = false := by simpa using h45
      rw [if_pos hall]
      unfold atoi
      simp only [List.head?_cons, e43, e45, Bool.or_self, Bool.false_eq_true, if_false, hall,
        List.isEmpty_cons, Bool.not_true, Bool.not_false, Bool.true_and]
      show (if digitsVal (c :: t) < 2 ^ 63 then some ((digitsVal (c :: t) : Nat) : Int) else none) = _
      have hd : decimal (c :: t) = digitsVal (c :: t) := rfl
      rw [hd]
      by_cases hlt : digitsVal (c :: t) < 2 ^ 63
      · simp [hlt]
      · simp [hlt]
    · have hall' : (c :: t).all isDigit = false := by simpa using hall
      rw [if_neg hall, hall']
      simp

/-! ### L3: one side of a range -/

theorem parseSide_some (p : Bytes) (n : Nat) (hp : p ≠ []) (h : number p = some n) :
    parseSide p = .ok (n : Int) := by
  unfold parseSide
  have he : p.isEmpty = false := by cases p with | nil => exact absurd rfl hp | cons _ _ => rfl
  rw [he, parseBlockNumber_eq, h]
  simp only [Bool.false_eq_true, if_false, Option.map_some]
  rw [if_neg (by omega)]

theorem parseSide_none (p : Bytes) (hp : p ≠ []) (h : number p = none) :
    parseSide p = .error .syntax := by
  unfold parseSide
  have he : p.isEmpty = false := by cases p with | nil => exact absurd rfl hp | cons _ _ => rfl
  rw [he, parseBlockNumber_eq, h]
  simp

theorem parseSide_nil : parseSide [] = .ok (-1) := rfl

theorem number_nil : number [] = none := by simp [number, isDigits]

theorem validateRange_open_left (b : Nat) :
    validateRange ⟨-1, (b : Int)⟩ = .ok (some ⟨-1, (b : Int)⟩) := by
  unfold validateRange
  rw [if_neg]
  simp

theorem validateRange_open_right (a : Nat) :
    validateRange ⟨(a : Int), -1⟩ = .ok (some ⟨(a : Int), -1⟩) := by
  unfold validateRange
  rw [if_neg]
  simp

theorem validateRange_le (a b : Nat) (h : a ≤ b) :
    validateRange ⟨(a : Int), (b : Int)⟩ = .ok (some ⟨(a : Int), (b : Int)⟩) := by
  unfold validateRange
  rw [if_neg]
  simp only [ge_iff_le, gt_iff_lt, Bool.and_eq_true, decide_eq_true_eq, not_and, Int.not_lt]
  intro _; omega

theorem validateRange_gt (a b : Nat) (h : ¬ a ≤ b) :
    validateRange ⟨(a : Int), (b : Int)⟩ = .error .order := by
  unfold validateRange
  rw [if_pos]
  simp only [ge_iff_le, gt_iff_lt, Bool.and_eq_true, decide_eq_true_eq]
  omega

/-! ### The model's result as a function of the grammar's pieces -/

/-- no ':' : a single number -/
theorem parseBlockRange_nocolon (s : Bytes) (hs : s ≠ []) (h : splitFirstColon s = none) :
    parseBlockRange s = .ok (match number s with
      | some n => .ok (some ⟨(n : Int), (n : Int)⟩)
      | none => .error .syntax) := by
  have he : s.isEmpty = false := by cases s with | nil => exact absurd rfl hs | cons _ _ => rfl
  unfold parseBlockRange
  rw [he, splitFirstColon_none s h, parseBlockNumber_eq]
  simp only [Bool.false_eq_true, if_false, pure_eq_ok]
  cases hn : number s with
  | none => simp
  | some n =>
    simp only [Option.map_some]
    rw [if_neg (by omega), validateRange_le n n (Nat.le_refl n)]

/-- with a ':' : the two sides -/
theorem parseBlockRange_colon (s l r : Bytes) (h : splitFirstColon s = some (l, r)) :
    parseBlockRange s = .ok (
      if l.isEmpty && r.isEmpty then .error .emptyRange
      else match parseSide l with
        | .error e => .error e
        | .ok start =>
          match parseSide r with
          | .error e => .error e
          | .ok stop => validateRange ⟨start, stop⟩) := by
  obtain ⟨h1, h2, h3, _⟩ := splitFirstColon_some s l r h
  have he : s.isEmpty = false := by rw [h3]; cases l <;> rfl
  unfold parseBlockRange
  rw [he, h1, h2]
  simp only [Bool.false_eq_true, if_false, if_true, part, List.getElem?_cons_zero,
    List.getElem?_cons_succ, ok_bind, pure_eq_ok]
  rfl

/-! ### Main theorems -/

theorem parseBlockRange_empty : parseBlockRange [] = .ok (.ok none) := rfl

/-- every string of the grammar is accepted with exactly the numbers it denotes -/
theorem parseBlockRange_accepts (s : Bytes) (a b : Int) (h : rangeSyntax s = some (a, b)) :
    parseBlockRange s = .ok (.ok (some ⟨a, b⟩)) := by
  unfold rangeSyntax at h
  cases hsp : splitFirstColon s with
  | none =>
    rw [hsp] at h
    simp only at h
    have hs : s ≠ [] := by
      intro e; subst e; rw [number_nil] at h; simp at h
    rw [parseBlockRange_nocolon s hs hsp]
    cases hn : number s with
    | none => rw [hn] at h; simp at h
    | some n =>
      rw [hn] at h
      simp only [Option.pure_def, Option.bind_eq_bind, Option.bind_some,
        Option.map_some, Option.some.injEq, Prod.mk.injEq] at h
      obtain ⟨h1, h2⟩ := h
      subst h1; subst h2; rfl
  | some p =>
    obtain ⟨l, r⟩ := p
    rw [hsp] at h
    simp only at h
    rw [parseBlockRange_colon s l r hsp]
    cases l with
    | nil =>
      cases r with
      | nil => simp at h
      | cons d r' =>
        simp only [List.isEmpty_nil, List.isEmpty_cons, Bool.and_false, Bool.false_eq_true,
          if_false, if_true] at h
        cases hn : number (d :: r') with
        | none => rw [hn] at h; simp at h
        | some m =>
          rw [hn] at h
          simp only [Int.reduceNeg, Option.pure_def, Option.bind_eq_bind, Option.bind_some,
            Option.map_some, Option.some.injEq, Prod.mk.injEq] at h
          obtain ⟨h1, h2⟩ := h
          subst h1; subst h2
          simp only [List.isEmpty_nil, List.isEmpty_cons, Bool.and_false, Bool.false_eq_true,
            if_false, parseSide_nil, parseSide_some (d :: r') m (by simp) hn]
          exact congrArg _ (validateRange_open_left m)
    | cons c l' =>
      cases r with
      | nil =>
        simp only [List.isEmpty_nil, List.isEmpty_cons, Bool.false_and, Bool.false_eq_true,
          if_false, if_true] at h
        cases hn : number (c :: l') with
        | none => rw [hn] at h; simp at h
        | some n =>
          rw [hn] at h
          simp only [Int.reduceNeg, Option.pure_def, Option.bind_eq_bind, Option.bind_some,
            Option.map_some, Option.some.injEq, Prod.mk.injEq] at h
          obtain ⟨h1, h2⟩ := h
          subst h1; subst h2
          simp only [List.isEmpty_nil, List.isEmpty_cons, Bool.false_and, Bool.false_eq_true,
            if_false, parseSide_nil, parseSide_some (c :: l') n (by simp) hn]
          exact congrArg _ (validateRange_open_right n)
      | cons d r' =>
        simp only [List.isEmpty_cons, Bool.false_and, Bool.false_eq_true, if_false] at h
        cases hn : number (c :: l') with
        | none => rw [hn] at h; simp at h
        | some n =>
          cases hm : number (d :: r') with
          | none => rw [hn, hm] at h; simp at h
          | some m =>
            rw [hn, hm] at h
            simp only at h
            by_cases hle : n ≤ m
            · rw [if_pos hle] at h
              simp only [Option.some.injEq, Prod.mk.injEq] at h
              obtain ⟨h1, h2⟩ := h
              subst h1; subst h2
              simp only [List.isEmpty_cons, Bool.false_and, Bool.false_eq_true, if_false,
                parseSide_some (c :: l') n (by simp) hn, parseSide_some (d :: r') m (by simp) hm]
              exact congrArg _ (validateRange_le n m hle)
            · rw [if_neg hle] at h; simp at h

/-- every other non-empty string is rejected with an error (never a panic, never a range) -/
theorem parseBlockRange_rejects (s : Bytes) (hs : s ≠ []) (h : rangeSyntax s = none) :
    ∃ e, parseBlockRange s = .ok (.error e) := by
  unfold rangeSyntax at h
  cases hsp : splitFirstColon s with
  | none =>
    rw [hsp] at h
    simp only at h
    rw [parseBlockRange_nocolon s hs hsp]
    cases hn : number s with
    | none => exact ⟨.syntax, rfl⟩
    | some n => rw [hn] at h; simp at h
  | some p =>
    obtain ⟨l, r⟩ := p
    rw [hsp] at h
    simp only at h
    rw [parseBlockRange_colon s l r hsp]
    cases l with
    | nil =>
      cases r with
      | nil => exact ⟨.emptyRange, rfl⟩
      | cons d r' =>
        simp only [List.isEmpty_nil, List.isEmpty_cons, Bool.and_false, Bool.false_eq_true,
          if_false, if_true] at h
        cases hn : number (d :: r') with
        | some m => rw [hn] at h; simp at h
        | none =>
          refine ⟨.syntax, ?_⟩
          simp only [List.isEmpty_nil, List.isEmpty_cons, Bool.and_false, Bool.false_eq_true,
            if_false, parseSide_nil, parseSide_none (d :: r') (by simp) hn]
    | cons c l' =>
      cases r with
      | nil =>
        simp only [List.isEmpty_nil, List.isEmpty_cons, Bool.false_and, Bool.false_eq_true,
          if_false, if_true] at h
        cases hn : number (c :: l') with
        | some n => rw [hn] at h; simp at h
        | none =>
          refine ⟨.syntax, ?_⟩
          simp only [List.isEmpty_cons, Bool.false_and, Bool.false_eq_true,
            if_false, parseSide_none (c :: l') (by simp) hn]
      | cons d r' =>
        simp only [List.isEmpty_cons, Bool.false_and, Bool.false_eq_true, if_false] at h
        cases hn : number (c :: l') with
        | none =>
          refine ⟨.syntax, ?_⟩
          simp only [List.isEmpty_cons, Bool.false_and, Bool.false_eq_true,
            if_false, parseSide_none (c :: l') (by simp) hn]
        | some n =>
          cases hm : number (d :: r') with
          | none =>
            refine ⟨.syntax, ?_⟩
            simp only [List.isEmpty_cons, Bool.false_and, Bool.false_eq_true, if_false,
              parseSide_some (c :: l') n (by simp) hn, parseSide_none (d :: r') (by simp) hm]
          | some m =>
            rw [hn, hm] at h
            simp only at h
            by_cases hle : n ≤ m
            · rw [if_pos hle] at h; simp at h
            · refine ⟨.order, ?_⟩
              simp only [List.isEmpty_cons, Bool.false_and, Bool.false_eq_true, if_false,
                parseSide_some (c :: l') n (by simp) hn, parseSide_some (d :: r') m (by simp) hm]
              exact congrArg _ (validateRange_gt n m hle)

/-- the model returns a range exactly for the strings of the grammar, and exactly the range they denote -/
theorem parseBlockRange_ok_iff (s : Bytes) (a b : Int) :
    parseBlockRange s = .ok (.ok (some ⟨a, b⟩)) ↔ rangeSyntax s = some (a, b) := by
  constructor
  · intro h
    by_cases hs : s = []
    · subst hs; rw [parseBlockRange_empty] at h; simp at h
    · cases hr : rangeSyntax s with
      | none =>
        obtain ⟨e, he⟩ := parseBlockRange_rejects s hs hr
        rw [he] at h; simp at h
      | some p =>
        obtain ⟨a', b'⟩ := p
        rw [parseBlockRange_accepts s a' b' hr] at h
        simp only [Except.ok.injEq, Option.some.injEq, BlockRange.mk.injEq] at h
        rw [h.1, h.2]
  · exact parseBlockRange_accepts s a b

/-! ### The language of `rangeSyntax`, declaratively -/

theorem isDigit_not_colon (c : UInt8) (h : isDigit c = true) : (c == 58) = false := by
  cases hq : (c == 58) with
  | false => rfl
  | true => have e := beq_iff_eq.mp hq; subst e; exact absurd h (by decide)

/-- a number is a non-empty string of digits -/
theorem number_some (p : Bytes) (n : Nat) (h : number p = some n) :
    p ≠ [] ∧ p.all isDigit = true := by
  unfold number isDigits at h
  rw [all_isDigit_eq] at h
  cases p with
  | nil => simp at h
  | cons c t =>
    refine ⟨by simp, ?_⟩
    cases hall : (c :: t).all isDigit with
    | true => rfl
    | false => rw [hall] at h; simp at h

theorem splitFirstColon_digits (p : Bytes) (h : p.all isDigit = true) : splitFirstColon p = none := by
  induction p with
  | nil => rfl
  | cons c t ih =>
    simp only [List.all_cons, Bool.and_eq_true] at h
    unfold splitFirstColon
    rw [if_neg (by simp [isDigit_not_colon c h.1]), ih h.2]
    rfl

theorem splitFirstColon_append (l r : Bytes) (h : l.all isDigit = true) :
    splitFirstColon (l ++ 58 :: r) = some (l, r) := by
  induction l with
  | nil => simp [splitFirstColon]
  | cons c t ih =>
    simp only [List.all_cons, Bool.and_eq_true] at h
    rw [List.cons_append]
    unfold splitFirstColon
    rw [if_neg (by simp [isDigit_not_colon c h.1]), ih h.2]
    rfl

/-- `rangeSyntax` accepts exactly `a`, `a:b`, `a:`, `:b` with decimal numbers (non-empty, digits only,
< 2^63) and a ≤ b; an open side is reported as -1 -/
theorem rangeSyntax_iff (s : Bytes) (a b : Int) : rangeSyntax s = some (a, b) ↔
    (∃ n, number s = some n ∧ a = n ∧ b = n) ∨
    (∃ l r n m, s = l ++ 58 :: r ∧ number l = some n ∧ number r = some m ∧ n ≤ m ∧ a = n ∧ b = m) ∨
    (∃ l n, s = l ++ [58] ∧ number l = some n ∧ a = n ∧ b = -1) ∨
    (∃ r m, s = 58 :: r ∧ number r = some m ∧ a = -1 ∧ b = m) := by
  constructor
  · intro h
    unfold rangeSyntax at h
    cases hsp : splitFirstColon s with
    | none =>
      rw [hsp] at h
      simp only at h
      cases hn : number s with
      | none => rw [hn] at h; simp at h
      | some n =>
        rw [hn] at h
        simp only [Option.pure_def, Option.bind_eq_bind, Option.bind_some,
          Option.map_some, Option.some.injEq, Prod.mk.injEq] at h
        exact Or.inl ⟨n, rfl, h.1.symm, h.2.symm⟩
    | some p =>
      obtain ⟨l, r⟩ := p
      rw [hsp] at h
      simp only at h
      obtain ⟨_, _, hs, _⟩ := splitFirstColon_some s l r hsp
      cases l with
      | nil =>
        cases r with
        | nil => simp at h
        | cons d r' =>
          simp only [List.isEmpty_nil, List.isEmpty_cons, Bool.and_false, Bool.false_eq_true,
            if_false, if_true] at h
          cases hn : number (d :: r') with
          | none => rw [hn] at h; simp at h
          | some m =>
            rw [hn] at h
            simp only [Int.reduceNeg, Option.pure_def, Option.bind_eq_bind, Option.bind_some,
              Option.map_some, Option.some.injEq, Prod.mk.injEq] at h
            exact Or.inr (Or.inr (Or.inr ⟨d :: r', m, by simpa using hs, hn, h.1.symm, h.2.symm⟩))
      | cons c l' =>
        cases r with
        | nil =>
          simp only [List.isEmpty_nil, List.isEmpty_cons, Bool.false_and, Bool.false_eq_true,
            if_false, if_true] at h
          cases hn : number (c :: l') with
          | none => rw [hn] at h; simp at h
          | some n =>
            rw [hn] at h
            simp only [Int.reduceNeg, Option.pure_def, Option.bind_eq_bind, Option.bind_some,
              Option.map_some, Option.some.injEq, Prod.mk.injEq] at h
            exact Or.inr (Or.inr (Or.inl ⟨c :: l', n, hs, hn, h.1.symm, h.2.symm⟩))
        | cons d r' =>
          simp only [List.isEmpty_cons, Bool.false_and, Bool.false_eq_true, if_false] at h
          cases hn : number (c :: l') with
          | none => rw [hn] at h; simp at h
          | some n =>
            cases hm : number (d :: r') with
            | none => rw [hn, hm] at h; simp at h
            | some m =>
              rw [hn, hm] at h
              simp only at h
              by_cases hle : n ≤ m
              · rw [if_pos hle] at h
                simp only [Option.some.injEq, Prod.mk.injEq] at h
                exact Or.inr (Or.inl ⟨c :: l', d :: r', n, m, hs, hn, hm, hle, h.1.symm, h.2.symm⟩)
              · rw [if_neg hle] at h; simp at h
  · intro h
    rcases h with ⟨n, hn, ha, hb⟩ | ⟨l, r, n, m, hs, hn, hm, hle, ha, hb⟩ | ⟨l, n, hs, hn, ha, hb⟩ |
      ⟨r, m, hs, hm, ha, hb⟩
    · subst ha; subst hb
      unfold rangeSyntax
      rw [splitFirstColon_digits s (number_some s n hn).2, hn]
      rfl
    · subst ha; subst hb; subst hs
      obtain ⟨hl, hld⟩ := number_some l n hn
      obtain ⟨hr, _⟩ := number_some r m hm
      unfold rangeSyntax
      rw [splitFirstColon_append l r hld]
      have el : l.isEmpty = false := by cases l with | nil => exact absurd rfl hl | cons _ _ => rfl
      have er : r.isEmpty = false := by cases r with | nil => exact absurd rfl hr | cons _ _ => rfl
      simp only [el, er, Bool.false_and, Bool.false_eq_true, if_false, hn, hm]
      rw [if_pos hle]
    · subst ha; subst hb; subst hs
      obtain ⟨hl, hld⟩ := number_some l n hn
      unfold rangeSyntax
      rw [splitFirstColon_append l [] hld]
      have el : l.isEmpty = false := by cases l with | nil => exact absurd rfl hl | cons _ _ => rfl
      simp only [el, List.isEmpty_nil, Bool.false_and, Bool.false_eq_true, if_false, if_true, hn]
      rfl
    · subst ha; subst hb; subst hs
      obtain ⟨hr, _⟩ := number_some r m hm
      unfold rangeSyntax
      have er : r.isEmpty = false := by cases r with | nil => exact absurd rfl hr | cons _ _ => rfl
      have : splitFirstColon (58 :: r) = some ([], r) := by simp [splitFirstColon]
      rw [this]
      simp only [er, List.isEmpty_nil, Bool.and_false, Bool.false_eq_true, if_false, if_true, hm]
      rfl

end PgVerif.Proofs.BlockGrammar
