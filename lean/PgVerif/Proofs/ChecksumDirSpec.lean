/-
  VerifyDataDirChecksums on a data directory built from the Spec's description (`Spec.BlockAddr.DataDir`): the files
  the scan visits, and their results, are exactly those of the Spec's view `ckDirFiles` (REVIEW.md C19 finding 4: the
  directory theorem had no tie to the Spec).  Used by `Props.C19.C19_cksum_dir_spec`.
-/
import PgVerif.Proofs.ChecksumAcct
namespace PgVerif.Proofs.ChecksumDirSpec
open PgVerif PgVerif.Model PgVerif.Proofs.Block PgVerif.Proofs.ChecksumAcct
open PgVerif.Spec.BlockAddr

/-! ### the file system of a Spec directory -/

def segEntry (s : SegFile) : Bytes × DbEntry := (s.name, .file (encFile s.file))

/-- the entries of a directory of relation files, as a listing (any order would do: `C19_cksum_dir`) -/
def dbEntriesOf (db : Database) : List (Bytes × DbEntry) :=
  db.segs.map segEntry ++ db.others.map (fun o => (o.1, DbEntry.file o.2)) ++ db.subdirs.map (fun d => (d, DbEntry.dir))

def baseEntriesOf (b : BaseDir) : List (Bytes × BaseEntry) :=
  b.dbs.map (fun db => (decimalName db.oid, BaseEntry.dir (dbEntriesOf db))) ++
  b.strayFiles.map (fun n => (n, BaseEntry.file)) ++
  b.strayDirs.map (fun d => (d.1, BaseEntry.dir (d.2.map fun f => (f.1, DbEntry.file f.2))))

/-- the model's file-system parameter for a Spec data directory -/
def fsOf (enabled : Bool) (d : DataDir) : DataDirFS :=
  { checksumsEnabled := enabled, base := some (baseEntriesOf d.base), global := d.globalDir.map dbEntriesOf,
    tblspc := d.tablespaces.map fun t => (decimalName t.oid, SpcEntry.dir [(t.verDir, VerEntry.dir (baseEntriesOf t.dbs))]) }

/-! ### from the model's records to the Spec's views -/

def toView (r : FileChecksumResult) : CkFileView :=
  ⟨r.totalBlocks, r.validBlocks, r.invalidBlocks, r.zeroBlocks, r.errors.map toCkError⟩

def toCkDirFile (sf : ScannedFile) : CkDirFile := ⟨sf.db, sf.name, toView sf.result⟩

theorem toView_fileResult (ck : Bytes → Nat → Nat) (f : RelFile) (seg : Nat) (hwf : f.WF)
    (hseg : seg * 131072 + f.blocks.length ≤ 2 ^ 32) :
    toView (fileResult ck (encFile f) seg) = ckFileView ck seg f.blocks := by
  obtain ⟨_, h1, h2, h3, h4, h5⟩ := fileResult_encFile ck f seg hwf hseg
  unfold toView
  rw [h1, h2, h3, h4, h5]

/-! ### one directory of relation files -/

theorem encFile_short (f : RelFile) (h : f.WF) : (encFile f).length < 8192 ↔ f.blocks.length = 0 := by
  have := encFile_blocks f h
  omega

theorem visit_seg (ck : Bytes → Nat → Nat) (dir : Bytes) (s : SegFile) (hf : s.file.WF)
    (hn : relSegNumber s.name = some s.seg) :
    visitFile ck dir (segEntry s) =
      if s.file.blocks.length ≥ 1 then some ⟨dir, s.name, fileResult ck (encFile s.file) s.seg⟩ else none := by
  unfold visitFile segEntry
  simp only [relFileSegment_eq_relSegNumber, hn]
  have := encFile_short s.file hf
  by_cases hb : s.file.blocks.length ≥ 1
  · have : ¬ (encFile s.file).length < 8192 := by omega
    simp only [this, if_false, hb, if_true]
  · have : (encFile s.file).length < 8192 := by omega
    simp only [this, if_true, hb, if_false]

theorem visit_segs (ck : Bytes → Nat → Nat) (dir : Bytes) (segs : List SegFile)
    (h : ∀ s ∈ segs, s.file.WF ∧ relSegNumber s.name = some s.seg) :
    (segs.map segEntry).filterMap (visitFile ck dir) =
      (segs.filter fun s => s.file.blocks.length ≥ 1).map fun s => ⟨dir, s.name, fileResult ck (encFile s.file) s.seg⟩ := by
  induction segs with
  | nil => rfl
  | cons s rest ih =>
    obtain ⟨hf, hn⟩ := h s (by simp)
    have ih' := ih fun x hx => h x (by simp [hx])
    simp only [List.map_cons, List.filterMap_cons, visit_seg ck dir s hf hn, List.filter_cons]
    by_cases hb : s.file.blocks.length ≥ 1
    · simp only [hb, if_true, decide_true, List.map_cons, ih']
    · simp only [hb, if_false, decide_false, ih', Bool.false_eq_true]

theorem visit_others (ck : Bytes → Nat → Nat) (dir : Bytes) (others : List (Bytes × Bytes))
    (h : ∀ o ∈ others, relSegNumber o.1 = none) :
    (others.map fun o => (o.1, DbEntry.file o.2)).filterMap (visitFile ck dir) = [] := by
  induction others with
  | nil => rfl
  | cons o rest ih =>
    have ho := h o (by simp)
    simp only [List.map_cons, List.filterMap_cons, visitFile, relFileSegment_eq_relSegNumber, ho,
      ih fun x hx => h x (by simp [hx])]

theorem visit_subdirs (ck : Bytes → Nat → Nat) (dir : Bytes) (subdirs : List Bytes) :
    (subdirs.map fun d => (d, DbEntry.dir)).filterMap (visitFile ck dir) = [] := by
  induction subdirs with
  | nil => rfl
  | cons d rest ih => simp only [List.map_cons, List.filterMap_cons, visitFile, ih]

/-- what the scan finds in one Spec directory of relation files: its relation segment files (every fork) that hold
at least one block, each verified with its own segment number; nothing else -/
theorem visit_db (ck : Bytes → Nat → Nat) (dir : Bytes) (db : Database) (h : db.WF) :
    ((dbEntriesOf db).filterMap (visitFile ck dir)).map toCkDirFile = ckFilesOf ck dir db := by
  obtain ⟨hs, ho⟩ := h
  unfold dbEntriesOf ckFilesOf
  rw [List.filterMap_append, List.filterMap_append, visit_segs ck dir db.segs (fun s hx => ⟨(hs s hx).1, (hs s hx).2.1⟩),
    visit_others ck dir db.others ho, visit_subdirs, List.append_nil, List.append_nil, List.map_map]
  apply List.map_congr_left
  intro s hsf
  have hmem : s ∈ db.segs := (List.mem_filter.mp hsf).1
  obtain ⟨hf, _, hb⟩ := hs s hmem
  simp only [Function.comp, toCkDirFile, toView_fileResult ck s.file s.seg hf hb]

/-! ### a directory of database directories -/

theorem number32_isSome_parse (s : Bytes) (h : (number32 s).isSome = true) : ¬ (parseUint32 s).isNone = true := by
  rw [parseUint32_eq_number32]
  cases hn : number32 s with
  | none => rw [hn] at h; cases h
  | some _ => simp

theorem number32_none_parse (s : Bytes) (h : number32 s = none) : (parseUint32 s).isNone = true := by
  rw [parseUint32_eq_number32, h]; rfl

theorem slash_eq_joinPath (a b : Bytes) : slash a b = joinPath a b := rfl

theorem visit_base (ck : Bytes → Nat → Nat) (dir : Bytes) (b : BaseDir) (h : b.WF) :
    ((baseEntriesOf b).flatMap (visitDbU ck dir)).map toCkDirFile = ckBaseFiles ck dir b := by
  obtain ⟨hd, hs⟩ := h
  unfold baseEntriesOf ckBaseFiles
  have h2 : (b.strayFiles.map fun n => (n, BaseEntry.file)).flatMap (visitDbU ck dir) = [] := by
    induction b.strayFiles with
    | nil => rfl
    | cons n rest ih => simp only [List.map_cons, List.flatMap_cons, visitDbU, ih, List.append_nil]
  have h3 : (b.strayDirs.map fun d => (d.1, BaseEntry.dir (d.2.map fun f => (f.1, DbEntry.file f.2)))).flatMap
      (visitDbU ck dir) = [] := by
    generalize b.strayDirs = l at hs
    induction l with
    | nil => rfl
    | cons d rest ih =>
      have hn := number32_none_parse d.1 (hs d (by simp))
      simp only [List.map_cons, List.flatMap_cons, visitDbU, hn, if_true, List.nil_append,
        ih fun x hx => hs x (by simp [hx])]
  rw [List.flatMap_append, List.flatMap_append, h2, h3, List.append_nil, List.append_nil]
  generalize b.dbs = dbs at hd
  induction dbs with
  | nil => rfl
  | cons db rest ih =>
    obtain ⟨hw, ho⟩ := hd db (by simp)
    have hn := number32_isSome_parse _ ho
    simp only [List.map_cons, List.flatMap_cons, List.map_append, visitDbU, hn, if_false, Bool.false_eq_true]
    rw [visit_db ck _ db hw, ih fun x hx => hd x (by simp [hx])]
    rfl

/-! ### the whole data directory -/

theorem listedFiles_spec (ck : Bytes → Nat → Nat) (enabled : Bool) (d : DataDir) (h : d.WF) :
    (listedFiles ck (fsOf enabled d) (baseEntriesOf d.base)).map toCkDirFile = ckDirFiles ck d := by
  obtain ⟨hg, hb, ht⟩ := h
  unfold listedFiles ckDirFiles fsOf
  simp only [List.map_append]
  congr 1
  · congr 1
    · cases hgd : d.globalDir with
      | none => rfl
      | some g => exact visit_db ck globalName g (hg g hgd)
    · exact visit_base ck baseName d.base hb
  · generalize d.tablespaces = ts at ht
    induction ts with
    | nil => rfl
    | cons t rest ih =>
      obtain ⟨ho, hv, hw⟩ := ht t (by simp)
      have hn := number32_isSome_parse _ ho
      have hp : ¬ (t.verDir.take 3 != pgPrefix) = true := by
        have : t.verDir.take 3 = pgPrefix := hv
        simp [this]
      simp only [List.map_cons, List.flatMap_cons, List.map_append, visitSpcU, visitVerU, hn, hp, if_false,
        Bool.false_eq_true, List.flatMap_nil, List.append_nil]
      rw [ih fun x hx => ht x (by simp [hx])]
      congr 1
      exact visit_base ck _ t.dbs hw

end PgVerif.Proofs.ChecksumDirSpec
