/-
  Size of what the inline-compressed branch of ReadVarlena (fixes/rows/09) returns, in terms of the INPUT: at most 255
  bytes per stream byte (LZ4's densest encoding; pglz: 91), and below 2^30 — whatever va_tcinfo claims.
-/
import PgVerif.Proofs.ToastSize
import PgVerif.Proofs.InlineComp
namespace PgVerif.Proofs.InlineComp
open PgVerif PgVerif.Model PgVerif.Proofs PgVerif.Proofs.Toast

theorem inlineDecompress_size (data : Bytes) (total : Nat) (v : Bytes) (h8 : 8 ≤ total) (hl : total ≤ data.length)
    (h : inlineDecompress data total = .ok (some v)) : v.length ≤ 255 * (total - 8) ∧ v.length < 2 ^ 30 := by
  unfold inlineDecompress at h
  rw [uN_ok 4 data 4 (by omega), slice_ok _ _ _ hl h8] at h
  simp only [ok_bind] at h
  have hslen : ((data.take total).drop 8).length = total - 8 := by simp; omega
  have hmod : rd 4 (data.drop 4) % 2 ^ 30 < 2 ^ 30 := Nat.mod_lt _ (by decide)
  split at h
  · obtain ⟨r, hr⟩ := decompressPGLZ_total ((data.take total).drop 8) (rd 4 (data.drop 4) % 2 ^ 30)
    rw [hr] at h
    simp only [ok_bind, pure_eq_ok, Except.ok.injEq] at h
    obtain ⟨hrv, hlen⟩ := acceptRaw_len _ _ _ h
    subst hrv
    have := Proofs.ToastSize.decompressPGLZ_ratio _ _ _ hr
    rw [hslen] at this
    exact ⟨by omega, by omega⟩
  · split at h
    · obtain ⟨r, hr⟩ := decompressLZ4_total ((data.take total).drop 8) (rd 4 (data.drop 4) % 2 ^ 30)
      rw [hr] at h
      simp only [ok_bind, pure_eq_ok, Except.ok.injEq] at h
      obtain ⟨hrv, hlen⟩ := acceptRaw_len _ _ _ h
      subst hrv
      have := (Proofs.ToastSize.decompressLZ4_len _ _ _ hr).2
      rw [hslen] at this
      exact ⟨by omega, by omega⟩
    · simp [acceptRaw, pure, Except.pure] at h

end PgVerif.Proofs.InlineComp
