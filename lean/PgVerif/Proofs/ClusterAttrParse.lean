/-
  Helper lemmas for C01: ParsePGAttribute (catalog.go) on an encoded pg_attribute — the map relation oid ↦ columns it
  builds (grouping, the attnum > 0 filter, the sort by attnum) against the specification's `userAttrs`, for the hinted
  schema choice and for auto-detection.
-/
import PgVerif.Proofs.ClusterAttrRows
set_option linter.unusedSimpArgs false
namespace PgVerif.Proofs.Cluster
open PgVerif PgVerif.Model PgVerif.Spec PgVerif.Proofs PgVerif.Proofs.Rows List

/-! ### the grouping map -/

theorem mapGet_mapAppend {β} (m : List (Nat × List β)) (k k' : Nat) (v : β) :
    (mapGet (mapAppend m k' v) k).getD [] = (mapGet m k).getD [] ++ (if k' = k then [v] else []) := by
  induction m with
  | nil =>
    unfold mapAppend mapGet
    by_cases h : k' = k
    · subst h; simp
    · have : (k == k') = false := by simpa using fun e : k = k' => h e.symm
      simp [lookup_cons, this, h]
  | cons e rest ih =>
    obtain ⟨k'', vs⟩ := e
    unfold mapAppend
    by_cases h1 : k'' = k'
    · subst h1
      rw [if_pos rfl]
      unfold mapGet
      by_cases h2 : k'' = k
      · subst h2; simp [lookup_cons]
      · have : (k == k'') = false := by simpa using fun e : k = k'' => h2 e.symm
        simp [lookup_cons, this, h2]
    · rw [if_neg h1]
      unfold mapGet at ih ⊢
      by_cases h2 : k = k''
      · subst h2
        have : ¬ k' = k := fun e => h1 e.symm
        simp [lookup_cons, this]
      · have : (k == k'') = false := by simpa using h2
        simp only [lookup_cons, this]
        exact ih

theorem mapGet_map_sort {β} (f : List β → List β) (hf : f [] = []) (m : List (Nat × List β)) (k : Nat) :
    (mapGet (m.map fun (p : Nat × List β) => (p.1, f p.2)) k).getD [] = f ((mapGet m k).getD []) := by
  induction m with
  | nil => simp [mapGet, hf]
  | cons e rest ih =>
    obtain ⟨k', vs⟩ := e
    unfold mapGet at ih ⊢
    by_cases h : k = k'
    · subst h; simp [lookup_cons]
    · have : (k == k') = false := by simpa using h
      simp only [map_cons, lookup_cons, this]
      exact ih

def attrInfoOf (ab : AttrRow → UInt8) (a : AttrRow) : AttrInfo := ⟨a.name, (a.typid : Int), a.num, a.len, (ab a).toNat⟩

theorem attrStep_fields (m : List (Nat × List AttrInfo)) (row : Row) (a : AttrRow) (ab : AttrRow → UInt8)
    (h : AttrFields row a (ab a)) :
    attrStep m row = if a.relid = 0 ∨ a.num ≤ 0 then m else mapAppend m a.relid (attrInfoOf ab a) := by
  unfold attrStep
  simp only [h.relid, h.num, h.name, h.typid, h.len, h.align]
  rfl

/-- what the loop of ParsePGAttribute has stored under relation oid `k` -/
theorem foldl_attrStep_get (rowOf : AttrRow → Row) (ab : AttrRow → UInt8) (as : List AttrRow)
    (hf : ∀ a ∈ as, AttrFields (rowOf a) a (ab a)) (m : List (Nat × List AttrInfo)) (k : Nat) (hk : 0 < k) :
    (mapGet ((as.map rowOf).foldl attrStep m) k).getD [] =
      (mapGet m k).getD [] ++ (as.filter fun a => a.relid = k ∧ a.num > 0).map (attrInfoOf ab) := by
  induction as generalizing m with
  | nil => simp
  | cons a as ih =>
    rw [map_cons, foldl_cons, ih (fun x hx => hf x (by simp [hx])), attrStep_fields m _ a ab (hf a (by simp))]
    by_cases hskip : a.relid = 0 ∨ a.num ≤ 0
    · rw [if_pos hskip]
      have : ¬ (a.relid = k ∧ a.num > 0) := by
        intro ⟨h1, h2⟩
        rcases hskip with h | h <;> omega
      rw [filter_cons, if_neg (by simpa using this)]
    · rw [if_neg hskip, mapGet_mapAppend]
      by_cases hr : a.relid = k
      · have : a.relid = k ∧ a.num > 0 := ⟨hr, by omega⟩
        rw [if_pos hr, filter_cons, if_pos (by simpa using this)]
        simp
      · have : ¬ (a.relid = k ∧ a.num > 0) := fun h => hr h.1
        rw [if_neg hr, filter_cons, if_neg (by simpa using this)]
        simp

/-! ### the sort by attnum -/

theorem mem_insertAttr (a x : AttrRow) (l : List AttrRow) : x ∈ insertAttr a l ↔ x = a ∨ x ∈ l := by
  induction l with
  | nil => simp [insertAttr]
  | cons b bs ih =>
    unfold insertAttr
    split
    · simp
    · simp only [mem_cons, ih]
      constructor
      · rintro (h | h | h) <;> simp [h]
      · rintro (h | h | h) <;> simp [h]

theorem mem_sortAttrs (x : AttrRow) (l : List AttrRow) : x ∈ sortAttrs l ↔ x ∈ l := by
  induction l with
  | nil => simp [sortAttrs]
  | cons a l ih =>
    show x ∈ insertAttr a (sortAttrs l) ↔ _
    rw [mem_insertAttr, ih]; simp

theorem insertByNum_map (f : AttrRow → AttrInfo) (hf : ∀ a, (f a).num = a.num) (a : AttrRow) (l : List AttrRow)
    (h : ∀ b ∈ l, b.num ≠ a.num) : insertByNum (f a) (l.map f) = (insertAttr a l).map f := by
  induction l with
  | nil => rfl
  | cons b bs ih =>
    simp only [map_cons, insertByNum, insertAttr, hf]
    have hne := h b (by simp)
    by_cases hlt : a.num < b.num
    · rw [if_pos (by omega), if_pos hlt]; rfl
    · rw [if_neg (by omega), if_neg hlt, map_cons, ih (fun x hx => h x (by simp [hx]))]

theorem sortByNum_map (f : AttrRow → AttrInfo) (hf : ∀ a, (f a).num = a.num) (l : List AttrRow)
    (hnd : (l.map (·.num)).Nodup) : sortByNum (l.map f) = (sortAttrs l).map f := by
  induction l with
  | nil => rfl
  | cons a l ih =>
    simp only [map_cons, nodup_cons] at hnd
    show insertByNum (f a) (sortByNum (l.map f)) = (insertAttr a (sortAttrs l)).map f
    rw [ih hnd.2, insertByNum_map f hf a _ ?_]
    intro b hb he
    exact hnd.1 (by rw [← he]; exact mem_map_of_mem ((mem_sortAttrs b l).mp hb))

theorem nodup_nums (l : List AttrRow) (k : Nat) (h : (l.map fun a => (a.relid, a.num)).Nodup) :
    ((l.filter fun a => a.relid = k ∧ a.num > 0).map (·.num)).Nodup := by
  induction l with
  | nil => simp
  | cons a l ih =>
    simp only [map_cons, nodup_cons] at h
    rw [filter_cons]
    split
    · rename_i hc
      have hc' : a.relid = k ∧ a.num > 0 := by simpa using hc
      rw [map_cons, nodup_cons]
      refine ⟨?_, ih h.2⟩
      intro hm
      obtain ⟨b, hb, hbn⟩ := mem_map.mp hm
      have hb' := mem_filter.mp hb
      have hbc : b.relid = k ∧ b.num > 0 := by simpa using hb'.2
      apply h.1
      have : (a.relid, a.num) = (b.relid, b.num) := by rw [hc'.1, hbc.1, hbn]
      rw [this]
      exact mem_map_of_mem (f := fun a : AttrRow => (a.relid, a.num)) hb'.1
    · exact ih h.2

/-- the columns ParsePGAttribute reports for relation `k`: the live pg_attribute rows of `k` with attnum > 0, in
attnum order -/
theorem grouped_sorted (ab : AttrRow → UInt8) (live : List AttrRow) (k : Nat)
    (hnd : (live.map fun a => (a.relid, a.num)).Nodup) :
    sortByNum ((live.filter fun a => a.relid = k ∧ a.num > 0).map (attrInfoOf ab)) =
      (sortAttrs (live.filter fun a => a.relid = k ∧ a.num > 0)).map (attrInfoOf ab) :=
  sortByNum_map (attrInfoOf ab) (fun _ => rfl) _ (nodup_nums live k hnd)



/-! ### ReadRows on pg_attribute, per schema -/

structure AttHeapWF (l : Layout) (att : HeapOf AttrRow) : Prop where
  rows : ∀ s ∈ att.versions, AttrWF s.val ∧ s.infomask < 65536
  fit : pagesFit (att.map fun pg => pg.map fun s => formRow (pgAttributeCols l) (attrVals l s.val) s.infomask)

theorem attrWF_name {a : AttrRow} (h : AttrWF a) : a.name.length ≤ 64 := by have := h.name.2.1; omega

theorem readRows_attr_A (dec : Dec) (hd : CatDec dec) (l : Layout) (hl : l ≠ .v16) (att : HeapOf AttrRow) (hw : AttHeapWF l att) :
    readRows dec (encHeapOf (pgAttributeCols l) (attrVals l) att) schemaPGAttrV15 true =
      .ok (att.live.map fun a => toRow (attrRowA dec a)) :=
  readRows_catalog dec _ _ att schemaPGAttrV15 (fun a => toRow (attrRowA dec a))
    (fun s hs => attr_WF l s.val s.infomask (attrWF_name (hw.rows s hs).1) (hw.rows s hs).2) hw.fit
    (fun s hs => attr_decode_A dec hd l hl s.val s.infomask (attrWF_name (hw.rows s hs).1) (hw.rows s hs).2)

theorem readRows_attr_B (dec : Dec) (hd : CatDec dec) (att : HeapOf AttrRow) (hw : AttHeapWF .v16 att) :
    readRows dec (encHeapOf (pgAttributeCols .v16) (attrVals .v16) att) schemaPGAttrV16 true =
      .ok (att.live.map fun a => toRow (attrRowB dec a)) :=
  readRows_catalog dec _ _ att schemaPGAttrV16 (fun a => toRow (attrRowB dec a))
    (fun s hs => attr_WF .v16 s.val s.infomask (attrWF_name (hw.rows s hs).1) (hw.rows s hs).2) hw.fit
    (fun s hs => attr_decode_B dec hd s.val s.infomask (attrWF_name (hw.rows s hs).1) (hw.rows s hs).2)

theorem readRows_attr_C (dec : Dec) (hd : CatDec dec) (l : Layout) (hl : l ≠ .v16) (att : HeapOf AttrRow) (hw : AttHeapWF l att) :
    readRows dec (encHeapOf (pgAttributeCols l) (attrVals l) att) schemaPGAttrV16 true =
      .ok (att.live.map fun a => toRow (attrRowC dec a)) :=
  readRows_catalog dec _ _ att schemaPGAttrV16 (fun a => toRow (attrRowC dec a))
    (fun s hs => attr_WF l s.val s.infomask (attrWF_name (hw.rows s hs).1) (hw.rows s hs).2) hw.fit
    (fun s hs => attr_decode_C dec hd l hl s.val s.infomask (attrWF_name (hw.rows s hs).1) (hw.rows s hs).2)

theorem live_mem_versions {α} (h : HeapOf α) (a : α) (ha : a ∈ h.live) : ∃ s ∈ h.versions, s.val = a := by
  unfold HeapOf.live at ha
  obtain ⟨s, hs, rfl⟩ := mem_map.mp ha
  exact ⟨s, (mem_filter.mp hs).1, rfl⟩

/-! ### detectAttrSchema -/

/-- the tool's probe: at least five live rows, and the first five carry attnum 1..5 (`Gen.autoDetectOK` on the 16 layout) -/
def firstFiveOK (live : List AttrRow) : Bool :=
  decide (live.length ≥ 5) && ((live.take 5).zipIdx.all fun (a, i) => a.num == (i : Int) + 1)

theorem zipIdx_all_map (f : AttrRow → Row) : ∀ (l : List AttrRow) (k : Nat), (∀ a ∈ l, getInt (f a) "attnum" = a.num) →
    ((l.map f).zipIdx k).all (fun (p : Row × Nat) => getInt p.1 "attnum" == (p.2 : Int) + 1) =
      (l.zipIdx k).all (fun (p : AttrRow × Nat) => p.1.num == (p.2 : Int) + 1)
  | [], _, _ => rfl
  | a :: l, k, h => by
    simp only [map_cons, zipIdx_cons, all_cons, h a (by simp)]
    rw [zipIdx_all_map f l (k + 1) (fun x hx => h x (by simp [hx]))]

theorem firstFive_map (f : AttrRow → Row) (live : List AttrRow) (h : ∀ a ∈ live, getInt (f a) "attnum" = a.num) :
    firstFiveMatch (live.map f) = ((live.take 5).zipIdx.all fun (p : AttrRow × Nat) => p.1.num == (p.2 : Int) + 1) := by
  unfold firstFiveMatch
  rw [← map_take]
  exact zipIdx_all_map f (live.take 5) 0 (fun a ha => h a (mem_of_mem_take ha))

theorem firstFive_false (f : AttrRow → Row) (a : AttrRow) (rest : List AttrRow) (h : getInt (f a) "attnum" ≠ 1) :
    firstFiveMatch ((a :: rest).map f) = false := by
  unfold firstFiveMatch
  simp only [map_cons, take_succ_cons, zipIdx_cons, all_cons]
  have : (getInt (f a) "attnum" == ((0 : Nat) : Int) + 1) = false := by simpa using h
  rw [this]; rfl

/-- when the schema choice of the tool is the right one: the hint agrees with the layout, or there is no hint and
auto-detection works out — on a 16 layout the first five live rows carry attnum 1..5 (else finding A04), on a
12–15 layout the first live row's attstattarget is one PostgreSQL accepts -/
def SchemaOK (l : Layout) (att : HeapOf AttrRow) (ver : Nat) : Prop :=
  (16 ≤ ver ∧ l = .v16) ∨ (12 ≤ ver ∧ ver < 16 ∧ l ≠ .v16) ∨
  (ver < 12 ∧ ((l = .v16 ∧ firstFiveOK att.live = true) ∨
               (l ≠ .v16 ∧ ∀ a, att.live.head? = some a → -65536 ≤ a.stattarget ∧ a.stattarget < 65536)))

theorem detect_enc (dec : Dec) (hd : CatDec dec) (l : Layout) (att : HeapOf AttrRow) (ver : Nat) (hw : AttHeapWF l att)
    (hs : SchemaOK l att ver) :
    detectAttrSchema (readRows dec) (encHeapOf (pgAttributeCols l) (attrVals l) att) (ver : Int) =
      .ok (if l = .v16 then schemaPGAttrV16 else schemaPGAttrV15) := by
  unfold detectAttrSchema
  rcases hs with ⟨h1, h2⟩ | ⟨h1, h2, h3⟩ | ⟨h1, h2⟩
  · rw [if_pos (by omega), if_pos h2]; rfl
  · rw [if_neg (by omega), if_pos (by omega), if_neg h3]; rfl
  · rw [if_neg (by omega), if_neg (by omega)]
    rcases h2 with ⟨h2, h3⟩ | ⟨h2, h3⟩
    · subst h2
      rw [readRows_attr_B dec hd att hw]
      simp only [ok_bind, length_map, if_true]
      have hf := firstFive_map (fun a => toRow (attrRowB dec a)) att.live (fun a ha => by
        obtain ⟨s, hs, rfl⟩ := live_mem_versions att a ha
        exact (fields_B dec hd s.val (hw.rows s hs).1).num)
      unfold firstFiveOK at h3
      simp only [Bool.and_eq_true, decide_eq_true_eq] at h3
      rw [if_pos ⟨h3.1, by rw [hf]; exact h3.2⟩]; rfl
    · rw [readRows_attr_C dec hd l h2 att hw, if_neg h2]
      simp only [ok_bind, length_map]
      cases hlive : att.live with
      | nil => simp
      | cons a rest =>
        have ha : a ∈ att.live := by rw [hlive]; simp
        obtain ⟨s, hs, rfl⟩ := live_mem_versions att a ha
        have := firstFive_false (fun a => toRow (attrRowC dec a)) s.val rest
          (attnum_C dec hd s.val (h3 s.val (by rw [hlive]; rfl)))
        rw [this]
        simp

theorem toolAlignByte_15 (l : Layout) (hl : l ≠ .v16) : toolAlignByte l = fun _ => b3 (ofSigned 32 (-1)) := by
  cases l
  · rfl
  · rfl
  · exact absurd rfl hl

/-- **ParsePGAttribute on an encoded pg_attribute**, every layout: under the right schema choice the map it returns
holds, for every relation oid, the live attributes with attnum > 0 in attnum order, each with its catalog name, type
oid, attnum and attlen — and, as `Align`, the byte the tool takes for attalign (`toolAlignByte`, finding A03). -/
theorem parsePGAttribute_enc (dec : Dec) (hd : CatDec dec) (l : Layout) (att : HeapOf AttrRow) (ver : Nat) (hw : AttHeapWF l att)
    (hs : SchemaOK l att ver) (hnd : (att.live.map fun a => (a.relid, a.num)).Nodup) :
    ∃ m, parsePGAttribute (readRows dec) (encHeapOf (pgAttributeCols l) (attrVals l) att) (ver : Int) = .ok m ∧
      ∀ k, 0 < k → (mapGet m k).getD [] = (userAttrs att k).map (attrInfoOf (toolAlignByte l)) := by
  unfold parsePGAttribute
  rw [detect_enc dec hd l att ver hw hs]
  simp only [ok_bind]
  by_cases hl : l = .v16
  · subst hl
    rw [if_pos rfl, readRows_attr_B dec hd att hw]
    refine ⟨_, rfl, ?_⟩
    intro k hk
    rw [mapGet_map_sort sortByNum rfl,
      foldl_attrStep_get (fun a => toRow (attrRowB dec a)) (toolAlignByte .v16) att.live ?_ [] k hk]
    · simp only [mapGet, lookup_nil, Option.getD_none, nil_append]
      exact grouped_sorted _ att.live k hnd
    · intro a ha
      obtain ⟨s, hs, rfl⟩ := live_mem_versions att a ha
      exact fields_B dec hd s.val (hw.rows s hs).1
  · rw [if_neg hl, readRows_attr_A dec hd l hl att hw]
    refine ⟨_, rfl, ?_⟩
    intro k hk
    rw [mapGet_map_sort sortByNum rfl,
      foldl_attrStep_get (fun a => toRow (attrRowA dec a)) (toolAlignByte l) att.live ?_ [] k hk]
    · simp only [mapGet, lookup_nil, Option.getD_none, nil_append]
      exact grouped_sorted _ att.live k hnd
    · intro a ha
      obtain ⟨s, hs, rfl⟩ := live_mem_versions att a ha
      rw [toolAlignByte_15 l hl]
      exact fields_A dec hd s.val (hw.rows s hs).1

end PgVerif.Proofs.Cluster
