/-
  Helper lemmas for C01: ParsePGAttribute (catalog.go) on an encoded pg_attribute — the map relation oid ↦ columns it
  builds (grouping, the attnum > 0 filter, the sort by attnum) against the specification's `userAttrs`, for the hinted
  layout and for the automatic choice between the three layouts (catalog.go:readAttrRows, fixes/cluster/08).
-/
import PgVerif.Proofs.ClusterAttrRows
set_option linter.unusedSimpArgs false
namespace PgVerif.Proofs.Cluster
open PgVerif PgVerif.Model PgVerif.Spec PgVerif.Proofs PgVerif.Proofs.Rows List

/-! ### the grouping map -/

theorem mapGet_mapAppend {β} (m : List (Nat × List β)) (k k' : Nat) (v : β) :
    (mapGet (mapAppend m k' v) k).getD [] = (mapGet m k).getD [] ++ (if k' = k then [v] else []) := by
  induction m with
  | nil =>
    unfold mapAppend mapGet
    by_cases h : k' = k
    · subst h; simp
    · have : (k == k') = false := by simpa using fun e : k = k' => h e.symm
      simp [lookup_cons, this, h]
  | cons e rest ih =>
    obtain ⟨k'', vs⟩ := e
    unfold mapAppend
    by_cases h1 : k'' = k'
    · subst h1
      rw [if_pos rfl]
      unfold mapGet
      by_cases h2 : k'' = k
      · subst h2; simp [lookup_cons]
      · have : (k == k'') = false := by simpa using fun e : k = k'' => h2 e.symm
        simp [lookup_cons, this, h2]
    · rw [if_neg h1]
      unfold mapGet at ih ⊢
      by_cases h2 : k = k''
      · subst h2
        have : ¬ k' = k := fun e => h1 e.symm
        simp [lookup_cons, this]
      · have : (k == k'') = false := by simpa using h2
        simp only [lookup_cons, this]
        exact ih

theorem mapGet_map_sort {β} (f : List β → List β) (hf : f [] = []) (m : List (Nat × List β)) (k : Nat) :
    (mapGet (m.map fun (p : Nat × List β) => (p.1, f p.2)) k).getD [] = f ((mapGet m k).getD []) := by
  induction m with
  | nil => simp [mapGet, hf]
  | cons e rest ih =>
    obtain ⟨k', vs⟩ := e
    unfold mapGet at ih ⊢
    by_cases h : k = k'
    · subst h; simp [lookup_cons]
    · have : (k == k') = false := by simpa using h
      simp only [map_cons, lookup_cons, this]
      exact ih

/-- the `AttrInfo` ParsePGAttribute builds for a pg_attribute row: `Align` is the row's attalign character -/
def attrInfoOf (a : AttrRow) : AttrInfo := ⟨a.name, (a.typid : Int), a.num, a.len, (alignByte a).toNat⟩

theorem attrStep_fields (m : List (Nat × List AttrInfo)) (row : Row) (a : AttrRow)
    (h : AttrFields row a) :
    attrStep m row = if a.relid = 0 ∨ a.num ≤ 0 then m else mapAppend m a.relid (attrInfoOf a) := by
  unfold attrStep
  simp only [h.relid, h.num, h.name, h.typid, h.len, h.align]
  rfl

/-- what the loop of ParsePGAttribute has stored under relation oid `k` -/
theorem foldl_attrStep_get (rowOf : AttrRow → Row) (as : List AttrRow)
    (hf : ∀ a ∈ as, AttrFields (rowOf a) a) (m : List (Nat × List AttrInfo)) (k : Nat) (hk : 0 < k) :
    (mapGet ((as.map rowOf).foldl attrStep m) k).getD [] =
      (mapGet m k).getD [] ++ (as.filter fun a => a.relid = k ∧ a.num > 0).map attrInfoOf := by
  induction as generalizing m with
  | nil => simp
  | cons a as ih =>
    rw [map_cons, foldl_cons, ih (fun x hx => hf x (by simp [hx])), attrStep_fields m _ a (hf a (by simp))]
    by_cases hskip : a.relid = 0 ∨ a.num ≤ 0
    · rw [if_pos hskip]
      have : ¬ (a.relid = k ∧ a.num > 0) := by
        intro ⟨h1, h2⟩
        rcases hskip with h | h <;> omega
      rw [filter_cons, if_neg (by simpa using this)]
    · rw [if_neg hskip, mapGet_mapAppend]
      by_cases hr : a.relid = k
      · have : a.relid = k ∧ a.num > 0 := ⟨hr, by omega⟩
        rw [if_pos hr, filter_cons, if_pos (by simpa using this)]
        simp
      · have : ¬ (a.relid = k ∧ a.num > 0) := fun h => hr h.1
        rw [if_neg hr, filter_cons, if_neg (by simpa using this)]
        simp

/-! ### the sort by attnum -/

theorem mem_insertAttr (a x : AttrRow) (l : List AttrRow) : x ∈ insertAttr a l ↔ x = a ∨ x ∈ l := by
  induction l with
  | nil => simp [insertAttr]
  | cons b bs ih =>
    unfold insertAttr
    split
    · simp
    · simp only [mem_cons, ih]
      constructor
      · rintro (h | h | h) <;> simp [h]
      · rintro (h | h | h) <;> simp [h]

theorem mem_sortAttrs (x : AttrRow) (l : List AttrRow) : x ∈ sortAttrs l ↔ x ∈ l := by
  induction l with
  | nil => simp [sortAttrs]
  | cons a l ih =>
    show x ∈ insertAttr a (sortAttrs l) ↔ _
    rw [mem_insertAttr, ih]; simp

theorem insertByNum_map (f : AttrRow → AttrInfo) (hf : ∀ a, (f a).num = a.num) (a : AttrRow) (l : List AttrRow)
    (h : ∀ b ∈ l, b.num ≠ a.num) : insertByNum (f a) (l.map f) = (insertAttr a l).map f := by
  induction l with
  | nil => rfl
  | cons b bs ih =>
    simp only [map_cons, insertByNum, insertAttr, hf]
    have hne := h b (by simp)
    by_cases hlt : a.num < b.num
    · rw [if_pos (by omega), if_pos hlt]; rfl
    · rw [if_neg (by omega), if_neg hlt, map_cons, ih (fun x hx => h x (by simp [hx]))]

theorem sortByNum_map (f : AttrRow → AttrInfo) (hf : ∀ a, (f a).num = a.num) (l : List AttrRow)
    (hnd : (l.map (·.num)).Nodup) : sortByNum (l.map f) = (sortAttrs l).map f := by
  induction l with
  | nil => rfl
  | cons a l ih =>
    simp only [map_cons, nodup_cons] at hnd
    show insertByNum (f a) (sortByNum (l.map f)) = (insertAttr a (sortAttrs l)).map f
    rw [ih hnd.2, insertByNum_map f hf a _ ?_]
    intro b hb he
    exact hnd.1 (by rw [← he]; exact mem_map_of_mem ((mem_sortAttrs b l).mp hb))

theorem nodup_nums (l : List AttrRow) (k : Nat) (h : (l.map fun a => (a.relid, a.num)).Nodup) :
    ((l.filter fun a => a.relid = k ∧ a.num > 0).map (·.num)).Nodup := by
  induction l with
  | nil => simp
  | cons a l ih =>
    simp only [map_cons, nodup_cons] at h
    rw [filter_cons]
    split
    · rename_i hc
      have hc' : a.relid = k ∧ a.num > 0 := by simpa using hc
      rw [map_cons, nodup_cons]
      refine ⟨?_, ih h.2⟩
      intro hm
      obtain ⟨b, hb, hbn⟩ := mem_map.mp hm
      have hb' := mem_filter.mp hb
      have hbc : b.relid = k ∧ b.num > 0 := by simpa using hb'.2
      apply h.1
      have : (a.relid, a.num) = (b.relid, b.num) := by rw [hc'.1, hbc.1, hbn]
      rw [this]
      exact mem_map_of_mem (f := fun a : AttrRow => (a.relid, a.num)) hb'.1
    · exact ih h.2

/-- the columns ParsePGAttribute reports for relation `k`: the live pg_attribute rows of `k` with attnum > 0, in
attnum order -/
theorem grouped_sorted (live : List AttrRow) (k : Nat)
    (hnd : (live.map fun a => (a.relid, a.num)).Nodup) :
    sortByNum ((live.filter fun a => a.relid = k ∧ a.num > 0).map attrInfoOf) =
      (sortAttrs (live.filter fun a => a.relid = k ∧ a.num > 0)).map attrInfoOf :=
  sortByNum_map attrInfoOf (fun _ => rfl) _ (nodup_nums live k hnd)



/-! ### ReadRows on pg_attribute, per schema -/

structure AttHeapWF (l : Layout) (att : HeapOf AttrRow) : Prop where
  rows : ∀ s ∈ att.versions, AttrWF s.val ∧ s.infomask < 65536
  fit : pagesFit (att.map fun pg => pg.map fun s => formRow (pgAttributeCols l) (attrVals l s.val) s.infomask)

theorem attrWF_name {a : AttrRow} (h : AttrWF a) : a.name.length ≤ 64 := by have := h.name.2.1; omega

/-- the row a pg_attribute row of layout `l` decodes to under the schema of `l` -/
def attrRowOf (dec : Dec) (l : Layout) (a : AttrRow) : Row :=
  match l with
  | .v16 => toRow (attrRow16 dec a)
  | .v14 => toRow (attrRow14 dec a)
  | .v12 => toRow (attrRow12 dec a)

/-- the schema of layout `l` -/
def schemaOf (l : Layout) : List Column :=
  match l with
  | .v16 => catSchemaAttr16
  | .v14 => catSchemaAttr14
  | .v12 => catSchemaAttr12

theorem fields_of (dec : Dec) (hd : CatDec dec) (l : Layout) (a : AttrRow) (hw : AttrWF a) : AttrFields (attrRowOf dec l a) a := by
  cases l
  · exact fields_12 dec hd a hw
  · exact fields_14 dec hd a hw
  · exact fields_16 dec hd a hw

/-- **ReadRows on pg_attribute under the schema of its own layout**: one row per live version, in heap order, each with
every field from its own bytes -/
theorem readRows_attr_own (dec : Dec) (hd : CatDec dec) (l : Layout) (att : HeapOf AttrRow) (hw : AttHeapWF l att) :
    readRows dec (encHeapOf (pgAttributeCols l) (attrVals l) att) (schemaOf l) true = .ok (att.live.map (attrRowOf dec l)) := by
  cases l
  · exact readRows_catalog dec _ _ att catSchemaAttr12 (fun a => toRow (attrRow12 dec a))
      (fun s hs => attr_WF .v12 s.val s.infomask (attrWF_name (hw.rows s hs).1) (hw.rows s hs).2) hw.fit
      (fun s hs => attr_decode_12 dec hd s.val s.infomask (attrWF_name (hw.rows s hs).1) (hw.rows s hs).2)
  · exact readRows_catalog dec _ _ att catSchemaAttr14 (fun a => toRow (attrRow14 dec a))
      (fun s hs => attr_WF .v14 s.val s.infomask (attrWF_name (hw.rows s hs).1) (hw.rows s hs).2) hw.fit
      (fun s hs => attr_decode_14 dec hd s.val s.infomask (attrWF_name (hw.rows s hs).1) (hw.rows s hs).2)
  · exact readRows_catalog dec _ _ att catSchemaAttr16 (fun a => toRow (attrRow16 dec a))
      (fun s hs => attr_WF .v16 s.val s.infomask (attrWF_name (hw.rows s hs).1) (hw.rows s hs).2) hw.fit
      (fun s hs => attr_decode_16 dec hd s.val s.infomask (attrWF_name (hw.rows s hs).1) (hw.rows s hs).2)

/-- the 16 schema on a 12–15 pg_attribute (reading D) -/
theorem readRows_attr_D (dec : Dec) (hd : CatDec dec) (l : Layout) (hl : l ≠ .v16) (att : HeapOf AttrRow) (hw : AttHeapWF l att) :
    readRows dec (encHeapOf (pgAttributeCols l) (attrVals l) att) catSchemaAttr16 true =
      .ok (att.live.map fun a => toRow (attrRowD dec l a)) :=
  readRows_catalog dec _ _ att catSchemaAttr16 (fun a => toRow (attrRowD dec l a))
    (fun s hs => attr_WF l s.val s.infomask (attrWF_name (hw.rows s hs).1) (hw.rows s hs).2) hw.fit
    (fun s hs => attr_decode_D dec hd l hl s.val s.infomask (attrWF_name (hw.rows s hs).1) (hw.rows s hs).2)

/-- the 14–15 schema on a 12–13 pg_attribute (reading E) -/
theorem readRows_attr_E (dec : Dec) (hd : CatDec dec) (att : HeapOf AttrRow) (hw : AttHeapWF .v12 att) :
    readRows dec (encHeapOf (pgAttributeCols .v12) (attrVals .v12) att) catSchemaAttr14 true =
      .ok (att.live.map fun a => toRow (attrRowE dec a)) :=
  readRows_catalog dec _ _ att catSchemaAttr14 (fun a => toRow (attrRowE dec a))
    (fun s hs => attr_WF .v12 s.val s.infomask (attrWF_name (hw.rows s hs).1) (hw.rows s hs).2) hw.fit
    (fun s hs => attr_decode_E dec hd s.val s.infomask (attrWF_name (hw.rows s hs).1) (hw.rows s hs).2)

theorem collectM_some_exists {α γ} (f : α → M (Option γ)) (xs : List α) (h : ∀ x ∈ xs, ∃ y, f x = .ok (some y)) :
    ∃ ys, collectM f xs = .ok ys ∧ ys.length = xs.length := by
  induction xs with
  | nil => exact ⟨[], rfl, rfl⟩
  | cons x xs ih =>
    obtain ⟨y, hy⟩ := h x (by simp)
    obtain ⟨ys, hys, hl⟩ := ih (fun z hz => h z (by simp [hz]))
    refine ⟨y :: ys, ?_, by simp [hl]⟩
    simp only [collectM, hy, ok_bind, hys, pure_eq_ok]

/-- **any of the three schemas on a pg_attribute of any layout**: ReadRows returns one row per live version (what the rows
hold is the business of the readings above) -/
theorem readRows_attr_any (dec : Dec) (hd : CatDec dec) (l : Layout) (att : HeapOf AttrRow) (hw : AttHeapWF l att)
    (S : List Column) (hne : S ≠ []) (hS : ∀ c ∈ S, catKindM c) :
    ∃ rows, readRows dec (encHeapOf (pgAttributeCols l) (attrVals l) att) S true = .ok rows ∧ rows.length = att.live.length := by
  unfold encHeapOf
  rw [readRows_pages dec _ S true ?_ hw.fit]
  · have hflat : (att.map fun pg => pg.map fun s => formRow (pgAttributeCols l) (attrVals l s.val) s.infomask).flatten =
        att.versions.map fun s => formRow (pgAttributeCols l) (attrVals l s.val) s.infomask := by
      unfold HeapOf.versions
      rw [map_flatten]
    rw [hflat, filter_map]
    obtain ⟨ys, hys, hlen⟩ := collectM_some_exists (fun t => decodeTuple dec (mtuple t) S) _
      (fun t _ => decodeTuple_catSchema dec hd (mtuple t) S hne hS)
    refine ⟨ys, hys, ?_⟩
    rw [hlen, length_map]
    unfold HeapOf.live
    rw [length_map]
    congr 1
    apply filter_congr
    intro s _
    simp only [Function.comp, Bool.not_true, Bool.false_or, formRow]
    exact liveBits_formTuple _ _
  · intro ts hts t ht
    simp only [mem_map] at hts
    obtain ⟨pg, hpg, rfl⟩ := hts
    simp only [mem_map] at ht
    obtain ⟨s, hs, rfl⟩ := ht
    exact formTuple_WF _ _ (attr_WF l s.val s.infomask (attrWF_name (hw.rows s (by unfold HeapOf.versions; exact mem_flatten.mpr ⟨pg, hpg, hs⟩)).1)
      (hw.rows s (by unfold HeapOf.versions; exact mem_flatten.mpr ⟨pg, hpg, hs⟩)).2)

theorem live_mem_versions {α} (h : HeapOf α) (a : α) (ha : a ∈ h.live) : ∃ s ∈ h.versions, s.val = a := by
  unfold HeapOf.live at ha
  obtain ⟨s, hs, rfl⟩ := mem_map.mp ha
  exact ⟨s, (mem_filter.mp hs).1, rfl⟩

/-! ### the choice of the layout (dropped.go:readAttrRowsWithDropped) -/

/-- attstorage is one of PostgreSQL's four storage strategies: 'p', 'e', 'm', 'x' -/
def StorageOK (a : AttrRow) : Prop := a.storage = 112 ∨ a.storage = 101 ∨ a.storage = 109 ∨ a.storage = 120
instance (a : AttrRow) : Decidable (StorageOK a) := by unfold StorageOK; infer_instance

theorem alignByte_csid (a : AttrRow) : catOneOfBytes [99, 115, 105, 100] [alignByte a] = true := by
  unfold alignByte alignCh
  split
  · decide
  · split
    · decide
    · split <;> decide

theorem alignByte_not_pemx (a : AttrRow) : catOneOfBytes [112, 101, 109, 120] [alignByte a] = false := by
  unfold alignByte alignCh
  split
  · decide
  · split
    · decide
    · split <;> decide

theorem storage_pemx (a : AttrRow) (h : StorageOK a) : catOneOfBytes [112, 101, 109, 120] [UInt8.ofNat a.storage] = true := by
  rcases h with h | h | h | h <;> rw [h] <;> decide

/-- a row read under its own layout is plausible when its attstorage is a legal one -/
theorem plausible_own (row : Row) (a : AttrRow) (h : AttrFields row a) (hs : StorageOK a) : catPlausibleAttrRow row = true := by
  unfold catPlausibleAttrRow
  rw [h.align, h.storage, alignByte_csid, storage_pemx a hs]
  rfl

theorem score_all (f : AttrRow → Row) (as : List AttrRow) (h : ∀ a ∈ as, catPlausibleAttrRow (f a) = true) :
    catAttrScore (as.map f) = as.length := by
  unfold catAttrScore
  rw [filter_eq_self.mpr, length_map]
  intro r hr
  obtain ⟨a, ha, rfl⟩ := mem_map.mp hr
  exact h a ha

theorem score_none (f : AttrRow → Row) (as : List AttrRow) (h : ∀ a ∈ as, catPlausibleAttrRow (f a) = false) :
    catAttrScore (as.map f) = 0 := by
  unfold catAttrScore
  rw [filter_eq_nil_iff.mpr]
  · rfl
  · intro r hr
    obtain ⟨a, ha, rfl⟩ := mem_map.mp hr
    simp [h a ha]

theorem score_le (rows : List Row) : catAttrScore rows ≤ rows.length := by
  unfold catAttrScore
  exact length_filter_le _ _

theorem better_keep (best : List Row × Nat) (rows : List Row) (h : catAttrScore rows ≤ best.2) : catBetterRows best rows = best := by
  unfold catBetterRows
  rw [if_neg (by omega)]

/-- the first layout under which every row is plausible takes over from an empty best -/
theorem better_first (rows : List Row) (h : catAttrScore rows = rows.length) : catBetterRows ([], 0) rows = (rows, rows.length) := by
  unfold catBetterRows
  by_cases h0 : rows.length = 0
  · have : rows = [] := length_eq_zero_iff.mp h0
    subst this
    rfl
  · rw [if_pos (by simp only; omega), h]

/-- when the layout is the right one: the hint names it (16+, 14–15, 12–13), or there is no hint and every live row's
attstorage is one of PostgreSQL's four characters (true of every real pg_attribute; not stated by `Spec.Cluster.WF`) —
then the automatic choice finds it whatever the rows are and in whatever order they come -/
def SchemaOK (l : Layout) (att : HeapOf AttrRow) (ver : Nat) : Prop :=
  (16 ≤ ver ∧ l = .v16) ∨ (14 ≤ ver ∧ ver < 16 ∧ l = .v14) ∨ (12 ≤ ver ∧ ver < 14 ∧ l = .v12) ∨
  (ver < 12 ∧ ∀ a ∈ att.live, StorageOK a)

/-- **The automatic choice picks the layout the file is in**, for every pg_attribute heap of legal storage characters:
under its own layout every live row is plausible; a 12–15 file read as 16 has no plausible row (attalign = 0xFF), a
12–13 file read as 14–15 has none either (attstorage = the attalign character); a layout tried later never beats one
under which every row is plausible. -/
theorem auto_enc (dec : Dec) (hd : CatDec dec) (l : Layout) (att : HeapOf AttrRow) (hw : AttHeapWF l att)
    (hst : ∀ a ∈ att.live, StorageOK a) :
    catReadAttrRowsAuto (readRows dec) (encHeapOf (pgAttributeCols l) (attrVals l) att) = .ok (att.live.map (attrRowOf dec l)) := by
  have hwf : ∀ a ∈ att.live, AttrWF a := by
    intro a ha
    obtain ⟨s, hs, rfl⟩ := live_mem_versions att a ha
    exact (hw.rows s hs).1
  have hown : catAttrScore (att.live.map (attrRowOf dec l)) = (att.live.map (attrRowOf dec l)).length := by
    rw [score_all _ _ (fun a ha => plausible_own _ a (fields_of dec hd l a (hwf a ha)) (hst a ha)), length_map]
  unfold catReadAttrRowsAuto
  cases l
  · -- 12–13
    obtain hD := readRows_attr_D dec hd .v12 (by decide) att hw
    obtain hE := readRows_attr_E dec hd att hw
    obtain hO := readRows_attr_own dec hd .v12 att hw
    rw [hD, hE]
    simp only [ok_bind]
    rw [show catSchemaAttr12 = schemaOf .v12 from rfl, hO]
    simp only [ok_bind, pure_eq_ok]
    have s16 : catAttrScore (att.live.map fun a => toRow (attrRowD dec .v12 a)) = 0 :=
      score_none _ _ (fun a _ => by
        unfold catPlausibleAttrRow
        rw [align_D dec hd .v12 (by decide) a]
        rfl)
    have s15 : catAttrScore (att.live.map fun a => toRow (attrRowE dec a)) = 0 :=
      score_none _ _ (fun a _ => by
        unfold catPlausibleAttrRow
        rw [storage_E dec hd a, alignByte_not_pemx]
        simp)
    have e1 : catBetterRows ([], 0) (att.live.map fun a => toRow (attrRowD dec .v12 a)) = ([], 0) :=
      better_keep _ _ (by rw [s16]; exact Nat.zero_le _)
    have e2 : catBetterRows ([], 0) (att.live.map fun a => toRow (attrRowE dec a)) = ([], 0) :=
      better_keep _ _ (by rw [s15]; exact Nat.zero_le _)
    rw [e1, e2, better_first _ hown]
  · -- 14–15
    obtain hD := readRows_attr_D dec hd .v14 (by decide) att hw
    obtain hO := readRows_attr_own dec hd .v14 att hw
    obtain ⟨r12, h12, hl12⟩ := readRows_attr_any dec hd .v14 att hw catSchemaAttr12 schema12_ne schema12_cat
    rw [hD]
    simp only [ok_bind]
    rw [show catSchemaAttr14 = schemaOf .v14 from rfl, hO, h12]
    simp only [ok_bind, pure_eq_ok]
    have s16 : catAttrScore (att.live.map fun a => toRow (attrRowD dec .v14 a)) = 0 :=
      score_none _ _ (fun a _ => by
        unfold catPlausibleAttrRow
        rw [align_D dec hd .v14 (by decide) a]
        rfl)
    have e1 : catBetterRows ([], 0) (att.live.map fun a => toRow (attrRowD dec .v14 a)) = ([], 0) :=
      better_keep _ _ (by rw [s16]; exact Nat.zero_le _)
    have e3 : catBetterRows (att.live.map (attrRowOf dec .v14), (att.live.map (attrRowOf dec .v14)).length) r12 =
        (att.live.map (attrRowOf dec .v14), (att.live.map (attrRowOf dec .v14)).length) :=
      better_keep _ _ (by have := score_le r12; simp only [length_map]; omega)
    rw [e1, better_first _ hown, e3]
  · -- 16
    obtain hO := readRows_attr_own dec hd .v16 att hw
    obtain ⟨r15, h15, hl15⟩ := readRows_attr_any dec hd .v16 att hw catSchemaAttr14 schema14_ne schema14_cat
    obtain ⟨r12, h12, hl12⟩ := readRows_attr_any dec hd .v16 att hw catSchemaAttr12 schema12_ne schema12_cat
    rw [show catSchemaAttr16 = schemaOf .v16 from rfl, hO, h15, h12]
    simp only [ok_bind, pure_eq_ok]
    have e2 : catBetterRows (att.live.map (attrRowOf dec .v16), (att.live.map (attrRowOf dec .v16)).length) r15 =
        (att.live.map (attrRowOf dec .v16), (att.live.map (attrRowOf dec .v16)).length) :=
      better_keep _ _ (by have := score_le r15; simp only [length_map]; omega)
    have e3 : catBetterRows (att.live.map (attrRowOf dec .v16), (att.live.map (attrRowOf dec .v16)).length) r12 =
        (att.live.map (attrRowOf dec .v16), (att.live.map (attrRowOf dec .v16)).length) :=
      better_keep _ _ (by have := score_le r12; simp only [length_map]; omega)
    rw [better_first _ hown, e2, e3]

/-- **catalog.go:readAttrRows on an encoded pg_attribute**: the live rows under the file's own layout, hinted or not -/
theorem readAttrRows_enc (dec : Dec) (hd : CatDec dec) (l : Layout) (att : HeapOf AttrRow) (ver : Nat) (hw : AttHeapWF l att)
    (hs : SchemaOK l att ver) :
    readAttrRows (readRows dec) (encHeapOf (pgAttributeCols l) (attrVals l) att) (ver : Int) = .ok (att.live.map (attrRowOf dec l)) := by
  unfold readAttrRows
  rcases hs with ⟨h1, h2⟩ | ⟨h1, h2, h3⟩ | ⟨h1, h2, h3⟩ | ⟨h1, h2⟩
  · subst h2
    rw [if_pos (by omega)]
    exact readRows_attr_own dec hd .v16 att hw
  · subst h3
    rw [if_neg (by omega), if_pos (by omega)]
    exact readRows_attr_own dec hd .v14 att hw
  · subst h3
    rw [if_neg (by omega), if_neg (by omega), if_pos (by omega)]
    exact readRows_attr_own dec hd .v12 att hw
  · rw [if_neg (by omega), if_neg (by omega), if_neg (by omega)]
    exact auto_enc dec hd l att hw h2

/-- **ParsePGAttribute on an encoded pg_attribute**, every layout, hinted or chosen automatically: the map it returns
holds, for every relation oid, the live attributes with attnum > 0 in attnum order, each with its catalog name, type
oid, attnum, attlen and — as `Align` — its attalign character. -/
theorem parsePGAttribute_enc (dec : Dec) (hd : CatDec dec) (l : Layout) (att : HeapOf AttrRow) (ver : Nat) (hw : AttHeapWF l att)
    (hs : SchemaOK l att ver) (hnd : (att.live.map fun a => (a.relid, a.num)).Nodup) :
    ∃ m, parsePGAttribute (readRows dec) (encHeapOf (pgAttributeCols l) (attrVals l) att) (ver : Int) = .ok m ∧
      ∀ k, 0 < k → (mapGet m k).getD [] = (userAttrs att k).map attrInfoOf := by
  unfold parsePGAttribute
  rw [readAttrRows_enc dec hd l att ver hw hs]
  simp only [ok_bind]
  refine ⟨_, rfl, ?_⟩
  intro k hk
  rw [mapGet_map_sort sortByNum rfl, foldl_attrStep_get (attrRowOf dec l) att.live ?_ [] k hk]
  · simp only [mapGet, lookup_nil, Option.getD_none, nil_append]
    exact grouped_sorted att.live k hnd
  · intro a ha
    obtain ⟨s, hs, rfl⟩ := live_mem_versions att a ha
    exact fields_of dec hd l s.val (hw.rows s hs).1

end PgVerif.Proofs.Cluster
