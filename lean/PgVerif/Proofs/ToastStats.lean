/-
  GetTOASTVerboseInfo: the grouping / counting maps of the Go code (association lists in the model) hold exactly the
  per-key tallies (used by Props/C08).
-/
import PgVerif.Proofs.ToastRel
import PgVerif.Proofs.KeySort
namespace PgVerif.Proofs.Toast
open PgVerif PgVerif.Model PgVerif.Model.Toast PgVerif.Spec PgVerif.Spec.Toast PgVerif.Proofs
set_option linter.unusedVariables false

/-! ### a Go map updated in a loop, as an association list -/

/-- `m[k] = upd(m[k])` if present, `m[k] = ins` otherwise -/
def upsert {β} (m : List (Nat × β)) (k : Nat) (ins : β) (upd : β → β) : List (Nat × β) :=
  if m.any (·.1 == k) then m.map fun kv => if kv.1 == k then (kv.1, upd kv.2) else kv
  else m ++ [(k, ins)]

/-- what a map built by such a loop satisfies with respect to the events `xs` processed so far: keys distinct, the
value under `k` is the summary `S` of the (non-empty) sub-list of events with key `k`, every event's key is present -/
structure MapInv {α β} (key : α → Nat) (S : List α → β) (m : List (Nat × β)) (xs : List α) : Prop where
  distinct : (m.map (·.1)).Pairwise (· ≠ ·)
  entries : ∀ kv ∈ m, kv.2 = S (xs.filter (key · == kv.1)) ∧ xs.filter (key · == kv.1) ≠ []
  present : ∀ x ∈ xs, ∃ kv ∈ m, kv.1 = key x

theorem any_key {β} (m : List (Nat × β)) (k : Nat) : m.any (·.1 == k) = true ↔ ∃ kv ∈ m, kv.1 = k := by
  simp [List.any_eq_true]

theorem upsert_inv {α β} (key : α → Nat) (S : List α → β) (ins : α → β) (upd : α → β → β)
    (hins : ∀ x, S [x] = ins x) (hupd : ∀ l x, l ≠ [] → S (l ++ [x]) = upd x (S l))
    (m : List (Nat × β)) (xs : List α) (x : α) (h : MapInv key S m xs) :
    MapInv key S (upsert m (key x) (ins x) (upd x)) (xs ++ [x]) := by
  unfold upsert
  by_cases hk : m.any (·.1 == key x) = true
  · rw [if_pos hk]
    obtain ⟨kv0, hkv0, hkey0⟩ := (any_key m (key x)).mp hk
    refine ⟨?_, ?_, ?_⟩
    · have : (m.map fun kv => if kv.1 == key x then (kv.1, upd x kv.2) else kv).map (·.1) = m.map (·.1) := by
        rw [List.map_map]; apply List.map_congr_left; intro kv _; simp only [Function.comp]; split <;> rfl
      rw [this]; exact h.distinct
    · intro kv' hkv'
      simp only [List.mem_map] at hkv'
      obtain ⟨kv, hkv, rfl⟩ := hkv'
      obtain ⟨e1, e2⟩ := h.entries kv hkv
      by_cases hc : (kv.1 == key x) = true
      · have hx : (key x == kv.1) = true := by simp only [beq_iff_eq] at hc ⊢; exact hc.symm
        simp only [hc, if_true, List.filter_append, List.filter_cons, hx, List.filter_nil]
        exact ⟨by rw [hupd _ _ e2, e1], by simp⟩
      · have hx : (key x == kv.1) = false := by
          simp only [beq_iff_eq] at hc; simp only [beq_eq_false_iff_ne, ne_eq]; exact fun e => hc e.symm
        simp only [hc, Bool.false_eq_true, if_false, List.filter_append, List.filter_cons, hx, List.filter_nil, List.append_nil]
        exact ⟨e1, e2⟩
    · intro y hy
      have hmem : ∀ kv ∈ m, ∃ kv' ∈ (m.map fun kv => if kv.1 == key x then (kv.1, upd x kv.2) else kv), kv'.1 = kv.1 := by
        intro kv hkv
        refine ⟨_, List.mem_map.mpr ⟨kv, hkv, rfl⟩, ?_⟩
        split <;> rfl
      rcases List.mem_append.mp hy with hy | hy
      · obtain ⟨kv, hkv, e⟩ := h.present y hy
        obtain ⟨kv', hkv', e'⟩ := hmem kv hkv
        exact ⟨kv', hkv', by rw [e', e]⟩
      · simp only [List.mem_singleton] at hy; subst hy
        obtain ⟨kv', hkv', e'⟩ := hmem kv0 hkv0
        exact ⟨kv', hkv', by rw [e', hkey0]⟩
  · rw [if_neg hk]
    have hnone : ∀ kv ∈ m, kv.1 ≠ key x := by
      intro kv hkv e
      exact hk ((any_key m (key x)).mpr ⟨kv, hkv, e⟩)
    have hfil : xs.filter (key · == key x) = [] := by
      rw [List.filter_eq_nil_iff]
      intro y hy hc
      obtain ⟨kv, hkv, e⟩ := h.present y hy
      simp only [beq_iff_eq] at hc
      exact hnone kv hkv (by rw [e, hc])
    refine ⟨?_, ?_, ?_⟩
    · simp only [List.map_append, List.map_cons, List.map_nil]
      rw [List.pairwise_append]
      refine ⟨h.distinct, by simp, ?_⟩
      intro a ha b hb
      simp only [List.mem_singleton] at hb; subst hb
      simp only [List.mem_map] at ha
      obtain ⟨kv, hkv, rfl⟩ := ha
      exact hnone kv hkv
    · intro kv hkv
      rcases List.mem_append.mp hkv with hkv | hkv
      · obtain ⟨e1, e2⟩ := h.entries kv hkv
        have hx : (key x == kv.1) = false := by
          simp only [beq_eq_false_iff_ne, ne_eq]; exact fun e => hnone kv hkv e.symm
        simp only [List.filter_append, List.filter_cons, hx, List.filter_nil, List.append_nil, Bool.false_eq_true, if_false]
        exact ⟨e1, e2⟩
      · simp only [List.mem_singleton] at hkv; subst hkv
        simp only [List.filter_append, hfil, List.nil_append, List.filter_cons, beq_self_eq_true, if_true, List.filter_nil]
        exact ⟨(hins x).symm, by simp⟩
    · intro y hy
      rcases List.mem_append.mp hy with hy | hy
      · obtain ⟨kv, hkv, e⟩ := h.present y hy
        exact ⟨kv, List.mem_append_left _ hkv, e⟩
      · simp only [List.mem_singleton] at hy; subst hy
        exact ⟨(key y, ins y), by simp, rfl⟩

theorem foldl_upsert_inv {α β} (key : α → Nat) (S : List α → β) (ins : α → β) (upd : α → β → β)
    (hins : ∀ x, S [x] = ins x) (hupd : ∀ l x, l ≠ [] → S (l ++ [x]) = upd x (S l)) (rest : List α) :
    ∀ (m : List (Nat × β)) (pre : List α), MapInv key S m pre →
      MapInv key S (rest.foldl (fun m x => upsert m (key x) (ins x) (upd x)) m) (pre ++ rest) := by
  induction rest with
  | nil => intro m pre h; simpa using h
  | cons x rest ih =>
    intro m pre h
    simp only [List.foldl_cons]
    have := ih _ (pre ++ [x]) (upsert_inv key S ins upd hins hupd m pre x h)
    simpa [List.append_assoc] using this

theorem mapInv_nil {α β} (key : α → Nat) (S : List α → β) : MapInv key S [] ([] : List α) :=
  ⟨by simp, by simp, by simp⟩

/-- the invariant speaks about the map as a set of entries: it survives any rearrangement -/
theorem MapInv.perm {α β} {key : α → Nat} {S : List α → β} {m m' : List (Nat × β)} {xs : List α}
    (h : MapInv key S m xs) (hp : m'.Perm m) : MapInv key S m' xs :=
  ⟨((hp.map (·.1)).pairwise_iff (fun {a b} (hab : a ≠ b) => fun e => hab e.symm)).mpr h.distinct,
   fun kv hkv => h.entries kv (hp.subset hkv),
   fun x hx => by obtain ⟨kv, hkv, e⟩ := h.present x hx; exact ⟨kv, hp.symm.subset hkv, e⟩⟩

/-! ### the two maps of GetTOASTVerboseInfo -/

theorem groupInsert_eq (m : List (Nat × List Chunk)) (c : Chunk) :
    groupInsert m c = upsert m c.id [c] (· ++ [c]) := rfl

theorem countInsert_eq (m : List (Nat × Nat)) (k : Nat) : countInsert m k = upsert m k 1 (· + 1) := rfl

/-- `valueChunks`: under each chunk id, exactly the chunks with that id, in order -/
theorem groups_inv (cs : List Chunk) : MapInv (fun c : Chunk => c.id) id (cs.foldl groupInsert []) cs := by
  have := foldl_upsert_inv (fun c : Chunk => c.id) id (fun c => [c]) (fun c l => l ++ [c])
    (fun x => rfl) (fun l x _ => rfl) cs [] [] (mapInv_nil _ _)
  have e : groupInsert = fun (m : List (Nat × List Chunk)) (x : Chunk) => upsert m x.id [x] (fun l => l ++ [x]) := by
    funext m c; rfl
  rw [e]
  simpa using this

/-- `ChunkDistribution`: under each count, the number of values having that many chunks -/
theorem counts_inv (ns : List Nat) : MapInv (fun n : Nat => n) List.length (ns.foldl countInsert []) ns := by
  have := foldl_upsert_inv (fun n : Nat => n) List.length (fun _ => 1) (fun _ n => n + 1)
    (fun x => rfl) (fun l x _ => by simp) ns [] [] (mapInv_nil _ _)
  have e : countInsert = fun (m : List (Nat × Nat)) (x : Nat) => upsert m x 1 (fun n => n + 1) := by
    funext m c; rfl
  rw [e]
  simpa using this

end PgVerif.Proofs.Toast

namespace PgVerif.Proofs.Toast
open PgVerif PgVerif.Model PgVerif.Model.Toast PgVerif.Spec PgVerif.Spec.Toast PgVerif.Proofs

/-- What a correct per-table report says about a (non-empty) list of live rows: the scalar tallies; exactly one entry
per distinct chunk id, carrying that value's chunk count and byte total, the entries in ascending chunk id order (which
fixes the list `values` completely: `StatsOK.values_unique`); the maximum of the chunk counts; and a distribution map
that holds, under each occurring chunk count, the number of values with that count (a Go map: no order). -/
structure StatsOK (relid : Nat) (rows : List Row) (i : VerboseInfo) : Prop where
  relid : i.toastRelID = relid
  totalChunks : i.totalChunks = rows.length
  totalSize : i.totalSize = (rows.map (·.data.length)).sum
  avg : i.avgNum = (rows.map (·.data.length)).sum ∧ i.avgDen = rows.length
  unique : i.uniqueValues = i.values.length
  valuesDistinct : (i.values.map (·.chunkID)).Pairwise (· ≠ ·)
  valuesSorted : (i.values.map (·.chunkID)).Pairwise (· < ·)
  valuesTally : ∀ x ∈ i.values, x.numChunks = (rows.filter (·.id == x.chunkID)).length ∧ x.numChunks ≠ 0 ∧
    x.totalSize = ((rows.filter (·.id == x.chunkID)).map (·.data.length)).sum
  valuesAll : ∀ r ∈ rows, ∃ x ∈ i.values, x.chunkID = r.id
  maxOK : (∀ x ∈ i.values, x.numChunks ≤ i.maxChunksPerValue) ∧ ∃ x ∈ i.values, x.numChunks = i.maxChunksPerValue
  distDistinct : (i.distribution.map (·.1)).Pairwise (· ≠ ·)
  distTally : ∀ kv ∈ i.distribution, kv.2 = (i.values.filter (·.numChunks == kv.1)).length ∧ kv.2 ≠ 0
  distAll : ∀ x ∈ i.values, ∃ kv ∈ i.distribution, kv.1 = x.numChunks

theorem foldl_max_ge (l : List Nat) (a : Nat) : a ≤ l.foldl max a ∧ ∀ n ∈ l, n ≤ l.foldl max a := by
  induction l generalizing a with
  | nil => simp
  | cons x xs ih =>
    simp only [List.foldl_cons, List.mem_cons]
    obtain ⟨h1, h2⟩ := ih (max a x)
    refine ⟨by omega, ?_⟩
    intro n hn
    rcases hn with rfl | hn
    · omega
    · exact h2 n hn

theorem foldl_max_mem (l : List Nat) (a : Nat) : l.foldl max a = a ∨ l.foldl max a ∈ l := by
  induction l generalizing a with
  | nil => simp
  | cons x xs ih =>
    simp only [List.foldl_cons, List.mem_cons]
    rcases ih (max a x) with h | h
    · rw [h]
      by_cases hc : a ≤ x
      · right; left; omega
      · left; omega
    · right; right; exact h

theorem filter_toChunk (rows : List Row) (k : Nat) :
    (rows.map toChunk).filter (fun c => c.id == k) = (rows.filter (fun r => r.id == k)).map toChunk := by
  rw [List.filter_map]; rfl

theorem verboseInfo_rows_with (π : GroupOrder) (hπ : ∀ l, (π l).Perm l) (relid : Nat) (rows : List Row) (hne : rows ≠ []) :
    StatsOK relid rows (buildInfoWith π relid (rows.map toChunk)) := by
  unfold buildInfoWith
  dsimp only
  have G0 := groups_inv (rows.map toChunk)
  have hperm : (keySort (fun g : Nat × List Chunk => g.1) (π ((rows.map toChunk).foldl groupInsert []))).Perm
      ((rows.map toChunk).foldl groupInsert []) := (KeySort.keySort_perm _ _).trans (hπ _)
  have G := G0.perm hperm
  have hstrict : (keySort (fun g : Nat × List Chunk => g.1) (π ((rows.map toChunk).foldl groupInsert []))).Pairwise
      (fun x y => x.1 < y.1) :=
    KeySort.keySort_strict _ _ (KeySort.DistinctKeys.perm (hπ _).symm G0.distinct)
  have hlen := hperm.length_eq
  generalize keySort (fun g : Nat × List Chunk => g.1) (π ((rows.map toChunk).foldl groupInsert [])) = gs at G hstrict hlen ⊢
  have hsum : ((rows.map toChunk).map (·.data.length)).sum = (rows.map (·.data.length)).sum := by
    simp [List.map_map, Function.comp_def, toChunk]
  have hvals : ∀ x ∈ gs.map
      (fun g => (⟨g.1, g.2.length, (g.2.map (·.data.length)).sum⟩ : ValueInfo)),
      x.numChunks = (rows.filter (·.id == x.chunkID)).length ∧ x.numChunks ≠ 0 ∧
      x.totalSize = ((rows.filter (·.id == x.chunkID)).map (·.data.length)).sum := by
    intro x hx
    simp only [List.mem_map] at hx
    obtain ⟨g, hg, rfl⟩ := hx
    obtain ⟨e1, e2⟩ := G.entries g hg
    simp only [id] at e1
    rw [filter_toChunk] at e1 e2
    simp only [e1, List.length_map, List.map_map, Function.comp_def, toChunk]
    refine ⟨trivial, ?_, trivial⟩
    intro h0
    apply e2
    rw [List.length_eq_zero_iff.mp h0]; rfl
  have D := counts_inv ((gs.map
      (fun g => (⟨g.1, g.2.length, (g.2.map (·.data.length)).sum⟩ : ValueInfo))).map (·.numChunks))
  refine ⟨rfl, by simp, hsum, ⟨hsum, by simp⟩, by simp [hlen], ?_, ?_, hvals, ?_, ?_, D.distinct, ?_, ?_⟩
  · simp only [List.map_map, Function.comp_def]; exact G.distinct
  · simp only [List.map_map, Function.comp_def]; rw [List.pairwise_map]; exact hstrict
  · intro r hr
    obtain ⟨g, hg, e⟩ := G.present (toChunk r) (List.mem_map.mpr ⟨r, hr, rfl⟩)
    exact ⟨_, List.mem_map.mpr ⟨g, hg, rfl⟩, e⟩
  · constructor
    · intro x hx
      exact (foldl_max_ge _ 0).2 _ (List.mem_map.mpr ⟨x, hx, rfl⟩)
    · rcases foldl_max_mem ((gs.map
        (fun g => (⟨g.1, g.2.length, (g.2.map (·.data.length)).sum⟩ : ValueInfo))).map (·.numChunks)) 0 with h | h
      · -- the maximum is 0 only if there is no value; but there is a row
        exfalso
        cases rows with
        | nil => exact hne rfl
        | cons r rs =>
          obtain ⟨g, hg, e⟩ := G.present (toChunk r) (by simp)
          have hx := hvals _ (List.mem_map.mpr ⟨g, hg, rfl⟩)
          have hle := (foldl_max_ge ((gs.map
            (fun g => (⟨g.1, g.2.length, (g.2.map (·.data.length)).sum⟩ : ValueInfo))).map (·.numChunks)) 0).2 _
            (List.mem_map.mpr ⟨_, List.mem_map.mpr ⟨g, hg, rfl⟩, rfl⟩)
          rw [h] at hle
          exact hx.2.1 (by omega)
      · obtain ⟨x, hx, e⟩ := List.mem_map.mp h
        exact ⟨x, hx, e⟩
  · intro kv hkv
    obtain ⟨e1, e2⟩ := D.entries kv hkv
    rw [List.filter_map] at e1 e2
    refine ⟨by rw [e1, List.length_map]; rfl, ?_⟩
    rw [e1]
    intro h0
    apply e2
    rw [List.length_eq_zero_iff.mp h0]
  · intro x hx
    exact D.present x.numChunks (List.mem_map.mpr ⟨x, hx, rfl⟩)

theorem verboseInfo_rows (relid : Nat) (rows : List Row) (hne : rows ≠ []) :
    StatsOK relid rows (buildInfo relid (rows.map toChunk)) :=
  verboseInfo_rows_with id (fun l => List.Perm.refl l) relid rows hne

/-- **the report does not depend on the iteration order of the value map** (C11): any two rearrangements give the
same `VerboseInfo`, field for field, `Values` in the same order -/
theorem buildInfoWith_order_independent (π π' : GroupOrder) (hπ : ∀ l, (π l).Perm l) (hπ' : ∀ l, (π' l).Perm l)
    (relid : Nat) (chunks : List Chunk) : buildInfoWith π relid chunks = buildInfoWith π' relid chunks := by
  unfold buildInfoWith
  dsimp only
  have G0 := groups_inv chunks
  have : keySort (fun g : Nat × List Chunk => g.1) (π (chunks.foldl groupInsert [])) =
      keySort (fun g : Nat × List Chunk => g.1) (π' (chunks.foldl groupInsert [])) :=
    KeySort.keySort_perm_invariant _ _ _ ((hπ _).trans (hπ' _).symm) (KeySort.DistinctKeys.perm (hπ _).symm G0.distinct)
  simp only [this]

/-- GetTOASTVerboseInfo on an encoded layout, for every iteration order of the value map -/
theorem verboseInfo_layout_with (π : GroupOrder) (hπ : ∀ l, (π l).Perm l) (relid : Nat) (lay : Layout) (h : lay.WF) :
    (lay.liveRows = [] → getTOASTVerboseInfoWith π relid (encToastRel lay) = .ok none) ∧
    (lay.liveRows ≠ [] → ∃ i, getTOASTVerboseInfoWith π relid (encToastRel lay) = .ok (some i) ∧ StatsOK relid lay.liveRows i) := by
  constructor
  · intro he
    unfold getTOASTVerboseInfoWith
    rw [readTOASTTable_layout lay h, he]
    rfl
  · intro hne
    refine ⟨_, ?_, verboseInfo_rows_with π hπ relid lay.liveRows hne⟩
    unfold getTOASTVerboseInfoWith
    rw [readTOASTTable_layout lay h]
    simp only [ok_bind]
    rw [if_neg (by simp; exact hne)]
    rfl

theorem verboseInfo_layout (relid : Nat) (lay : Layout) (h : lay.WF) :
    (lay.liveRows = [] → getTOASTVerboseInfo relid (encToastRel lay) = .ok none) ∧
    (lay.liveRows ≠ [] → ∃ i, getTOASTVerboseInfo relid (encToastRel lay) = .ok (some i) ∧ StatsOK relid lay.liveRows i) :=
  verboseInfo_layout_with id (fun l => List.Perm.refl l) relid lay h

/-- the whole function is independent of the iteration order, for every byte string -/
theorem getTOASTVerboseInfoWith_order_independent (π π' : GroupOrder) (hπ : ∀ l, (π l).Perm l) (hπ' : ∀ l, (π' l).Perm l)
    (relid : Nat) (data : Bytes) : getTOASTVerboseInfoWith π relid data = getTOASTVerboseInfoWith π' relid data := by
  unfold getTOASTVerboseInfoWith
  simp only [buildInfoWith_order_independent π π' hπ hπ']

/-- `StatsOK` fixes the list `Values` completely: two reports satisfying it for the same rows list the same entries in
the same order -/
theorem StatsOK.values_unique {relid : Nat} {rows : List Row} {i j : VerboseInfo}
    (hi : StatsOK relid rows i) (hj : StatsOK relid rows j) : i.values = j.values := by
  -- same set of chunk ids (those occurring in rows), each entry determined by its id, both sorted by id
  have key : ∀ (a b : VerboseInfo), StatsOK relid rows a → StatsOK relid rows b → ∀ x ∈ a.values, x ∈ b.values := by
    intro a b ha hb x hx
    obtain ⟨n1, n0, n2⟩ := ha.valuesTally x hx
    -- some row carries x's id
    have hrow : ∃ r ∈ rows, r.id = x.chunkID := by
      cases hf : rows.filter (·.id == x.chunkID) with
      | nil => rw [hf] at n1; exact absurd n1 n0
      | cons r rs =>
        have hr : r ∈ rows.filter (·.id == x.chunkID) := by rw [hf]; simp
        obtain ⟨hr1, hr2⟩ := List.mem_filter.mp hr
        exact ⟨r, hr1, by simpa using hr2⟩
    obtain ⟨r, hr, hrid⟩ := hrow
    obtain ⟨y, hy, hyid⟩ := hb.valuesAll r hr
    obtain ⟨m1, _, m2⟩ := hb.valuesTally y hy
    have hid : y.chunkID = x.chunkID := by rw [hyid, hrid]
    have : y = x := by
      cases x; cases y
      simp only at hid n1 n2 m1 m2
      subst hid
      simp only [ValueInfo.mk.injEq, true_and]
      exact ⟨by rw [m1, n1], by rw [m2, n2]⟩
    rw [← this]; exact hy
  have hsub1 := key i j hi hj
  have hsub2 := key j i hj hi
  have hnd : ∀ (a : VerboseInfo), StatsOK relid rows a → a.values.Nodup := by
    intro a ha
    have := ha.valuesDistinct
    rw [List.pairwise_map] at this
    exact this.imp (fun hne e => hne (by rw [e]))
  have hp : i.values.Perm j.values :=
    (List.perm_ext_iff_of_nodup (hnd i hi) (hnd j hj)).mpr (fun x => ⟨hsub1 x, hsub2 x⟩)
  have s1 := hi.valuesSorted; have s2 := hj.valuesSorted
  rw [List.pairwise_map] at s1 s2
  exact KeySort.sorted_perm_eq (·.chunkID) _ _ hp (s1.imp (fun h => Nat.le_of_lt h)) (s2.imp (fun h => Nat.le_of_lt h))
    (by unfold KeySort.DistinctKeys; exact hi.valuesDistinct)

end PgVerif.Proofs.Toast
