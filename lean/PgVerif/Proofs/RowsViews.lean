/-
  Helper lemmas about the row views (ReadRows / ReadDeletedRows / ReadRowsWithDeleted) as filters of one
  list of decoded tuples.
-/
import PgVerif.Model.Rows
import PgVerif.Proofs.Heap
namespace PgVerif.Proofs.Rows
open PgVerif PgVerif.Model

/-- the column loop never looks at the tuple header -/
theorem decodeCols_header (dec : Dec) (hdr hdr' : TupleHeader) (bm : Option Bytes) (data : Bytes)
    (cols : List Column) (i off : Nat) :
    decodeCols dec ⟨hdr', bm, data⟩ cols i off = decodeCols dec ⟨hdr, bm, data⟩ cols i off := by
  have hn : ∀ n, HeapTuple.isNull ⟨hdr', bm, data⟩ n = HeapTuple.isNull ⟨hdr, bm, data⟩ n := fun _ => rfl
  induction cols generalizing i off with
  | nil => rfl
  | cons c cs ih =>
    simp only [decodeCols, hn, ih]

theorem decodeTuple_header (dec : Dec) (hdr hdr' : TupleHeader) (bm : Option Bytes) (data : Bytes) (cols : List Column) :
    decodeTuple dec ⟨hdr', bm, data⟩ cols = decodeTuple dec ⟨hdr, bm, data⟩ cols := by
  unfold decodeTuple
  simp only [decodeCols_header dec hdr hdr' bm data]

/-- with at least one column, DecodeTuple never answers "no row" -/
theorem decodeTuple_some (dec : Dec) (t : HeapTuple) (cols : List Column) (hne : cols ≠ []) (r : Option Row)
    (h : decodeTuple dec t cols = .ok r) : r.isSome = true := by
  unfold decodeTuple at h
  have : ¬ (t.data.length = 0 ∧ cols.length = 0) := fun ⟨_, h0⟩ => hne (List.length_eq_zero_iff.mp h0)
  rw [if_neg this] at h
  cases hd : decodeCols dec t cols 0 0 with
  | error e => simp [hd] at h
  | ok ps => simp [hd] at h; subst h; rfl

theorem decodedEntries_nil (dec : Dec) (cols : List Column) : decodedEntries dec cols [] = .ok [] := rfl

theorem decodedEntries_cons (dec : Dec) (cols : List Column) (e : TupleEntry) (es : List TupleEntry) :
    decodedEntries dec cols (e :: es) =
      (decodeTuple dec e.tuple cols >>= fun r => decodedEntries dec cols es >>= fun rest =>
        pure (match r with | some row => (e.tuple, row) :: rest | none => rest)) := by
  simp only [decodedEntries, collectM]
  cases decodeTuple dec e.tuple cols with
  | error err => rfl
  | ok r => cases r <;> rfl

/-- the shape of a successful decode of e :: es -/
theorem decodedEntries_cons_ok (dec : Dec) (cols : List Column) (e : TupleEntry) (es : List TupleEntry)
    (rs : List (HeapTuple × Row)) (h : decodedEntries dec cols (e :: es) = .ok rs) :
    ∃ r rest, decodeTuple dec e.tuple cols = .ok r ∧ decodedEntries dec cols es = .ok rest ∧
      rs = (match r with | some row => (e.tuple, row) :: rest | none => rest) := by
  rw [decodedEntries_cons] at h
  cases hd : decodeTuple dec e.tuple cols with
  | error err => simp [hd] at h
  | ok r =>
    simp only [hd, ok_bind] at h
    cases hr : decodedEntries dec cols es with
    | error err => simp [hr] at h
    | ok rest =>
      simp only [hr, ok_bind, pure_eq_ok] at h
      injection h with h
      exact ⟨r, rest, rfl, rfl, h.symm⟩

/-- every view that decodes a filtered sub-list of the tuples is the same filter of the decoded list -/
theorem collect_filter (dec : Dec) (cols : List Column) (p : HeapTuple → Bool) (es : List TupleEntry)
    (rs : List (HeapTuple × Row)) (h : decodedEntries dec cols es = .ok rs) :
    collectM (fun e => decodeTuple dec e.tuple cols) (es.filter fun e => p e.tuple)
      = .ok ((rs.filter fun x => p x.1).map (·.2)) := by
  induction es generalizing rs with
  | nil =>
    rw [decodedEntries_nil] at h; injection h with h; subst h; rfl
  | cons e es ih =>
    obtain ⟨r, rest, hd, hr, hrs⟩ := decodedEntries_cons_ok dec cols e es rs h
    have ih' := ih rest hr
    subst hrs
    by_cases hp : p e.tuple = true
    · simp only [List.filter_cons, hp, if_true, collectM, hd, ok_bind, ih']
      cases r with
      | none => rfl
      | some row => simp [hp]
    · simp only [List.filter_cons, hp]
      cases r with
      | none => exact ih'
      | some row => simp [hp, ih']

theorem filter_true {α} (l : List α) : l.filter (fun _ => true) = l := by simp

/-- the deleted-row scan reports the tuples whose own `isDeleted` holds, decoded like everywhere else -/
theorem collect_deleted (dec : Dec) (cols : List Column) (hne : cols ≠ []) (es : List TupleEntry)
    (rs : List (HeapTuple × Row)) (h : decodedEntries dec cols es = .ok rs) :
    ∃ ds, collectM (deletedStep dec cols) es = .ok ds ∧
      ds.filterMap (·.data) = (rs.filter fun x => x.1.isDeleted).map (·.2) ∧
      ds.length = (es.filter fun e => e.tuple.isDeleted).length := by
  have hpos : cols.length > 0 := List.length_pos_iff.mpr hne
  induction es generalizing rs with
  | nil => rw [decodedEntries_nil] at h; injection h with h; subst h; exact ⟨[], rfl, rfl, rfl⟩
  | cons e es ih =>
    obtain ⟨r, rest, hd, hr, hrs⟩ := decodedEntries_cons_ok dec cols e es rs h
    have hsome := decodeTuple_some dec e.tuple cols hne r hd
    obtain ⟨ds, hds, hdata, hlen⟩ := ih rest hr
    subst hrs
    cases r with
    | none => simp at hsome
    | some row =>
      by_cases hp : e.tuple.isDeleted = true
      · refine ⟨⟨e.pageOffset, some row, e.tuple.data.length⟩ :: ds, ?_, ?_, ?_⟩
        · simp only [collectM, deletedStep, hp, if_true, hpos, hd, ok_bind, pure_eq_ok, hds]
        · simp [hp, hdata]
        · simp [hp, hlen]
      · refine ⟨ds, ?_, ?_, ?_⟩
        · simp only [collectM, deletedStep, hp, ok_bind, pure_eq_ok, hds]; rfl
        · simp [hp, hdata]
        · simp [hp, hlen]

end PgVerif.Proofs.Rows
