/-
  Helper lemmas for C01: the file tree `Spec.fsOf c` of a cluster — which content sits under which path (paths are
  `base/<db oid>/<filenode>` in decimal: distinct numbers give distinct paths) — satisfies `TreeOf`.
-/
import PgVerif.Proofs.ClusterFull
namespace PgVerif.Proofs.Cluster
open PgVerif PgVerif.Model PgVerif.Spec PgVerif.Proofs List

/-! ### paths -/

theorem basePath_eq (db fn : Nat) : basePath db fn = pathBase db fn := rfl

theorem sb_base : strBytes "base/" = [98, 97, 115, 101, 47] := by rw [strBytes_eq]; rfl
theorem sb_slash : strBytes "/" = [47] := by rw [strBytes_eq]; rfl

theorem pathBase_eq (db fn : Nat) : pathBase db fn = [98, 97, 115, 101, 47] ++ (decBytes db ++ 47 :: decBytes fn) := by
  unfold pathBase natBytes decBytes
  rw [sb_base, sb_slash]
  simp

theorem pathBase_inj (a b a' b' : Nat) (h : pathBase a b = pathBase a' b') : a = a' ∧ b = b' := by
  rw [pathBase_eq, pathBase_eq] at h
  have h1 := append_cancel_left h
  obtain ⟨h2, h3⟩ := digits_slash_cancel _ _ _ _ (fun x hx => (decBytes_digits a x hx).1) (fun x hx => (decBytes_digits a' x hx).1) h1
  exact ⟨decBytes_inj _ _ h2, decBytes_inj _ _ h3⟩

theorem sb_pgversion_ne (db fn : Nat) : (pathBase db fn == strBytes "PG_VERSION") = false := by
  rw [pathBase_eq]
  have : strBytes "PG_VERSION" = 80 :: (strBytes "PG_VERSION").tail := by rw [strBytes_eq]; rfl
  rw [this]
  simp only [cons_append, beq_eq_false_iff_ne, ne_eq, cons.injEq, not_and]
  intro h; exact absurd h (by decide)

theorem pathGlobal_1262 : pathGlobal 1262 = pathGlobal1262 := by
  unfold pathGlobal pathGlobal1262 natBytes
  rw [strBytes_eq, strBytes_eq, strBytes_eq]
  decide

theorem sb_global_ne (db fn : Nat) : (pathBase db fn == pathGlobal 1262) = false := by
  rw [pathBase_eq, pathGlobal_1262]
  have : pathGlobal1262 = 103 :: pathGlobal1262.tail := by unfold pathGlobal1262; rw [strBytes_eq]; rfl
  rw [this]
  simp only [cons_append, beq_eq_false_iff_ne, ne_eq, cons.injEq, not_and]
  intro h; exact absurd h (by decide)

theorem global_ne_version : (pathGlobal1262 == strBytes "PG_VERSION") = false := by
  unfold pathGlobal1262
  rw [strBytes_eq, strBytes_eq]
  decide

/-! ### association lists keyed by paths -/

theorem lookupB_append_none {β} (l₁ l₂ : List (Bytes × β)) (k : Bytes) (h : l₁.lookup k = none) :
    (l₁ ++ l₂).lookup k = l₂.lookup k := by
  induction l₁ with
  | nil => rfl
  | cons e rest ih =>
    obtain ⟨k', v⟩ := e
    simp only [cons_append, lookup_cons] at h ⊢
    cases hk : k == k' with
    | true => simp [hk] at h
    | false => simp only [hk] at h ⊢; exact ih h

theorem lookupB_append_some {β} (l₁ l₂ : List (Bytes × β)) (k : Bytes) (v : β) (h : l₁.lookup k = some v) :
    (l₁ ++ l₂).lookup k = some v := by
  induction l₁ with
  | nil => simp at h
  | cons e rest ih =>
    obtain ⟨k', v'⟩ := e
    simp only [cons_append, lookup_cons] at h ⊢
    cases hk : k == k' with
    | true => simpa [hk] using h
    | false => simp only [hk] at h ⊢; exact ih h

theorem lookupB_none_of_keys {β} (l : List (Bytes × β)) (k : Bytes) (h : ∀ e ∈ l, e.1 ≠ k) : l.lookup k = none := by
  induction l with
  | nil => rfl
  | cons e rest ih =>
    obtain ⟨k', v⟩ := e
    have : (k == k') = false := by
      simp only [beq_eq_false_iff_ne, ne_eq]
      intro he; exact h (k', v) (by simp) he.symm
    simp only [lookup_cons, this]
    exact ih (fun e he => h e (by simp [he]))

/-- files of one database keyed by filenode, looked up by path -/
theorem lookup_files {β γ} (oid : Nat) (g : Nat → β → γ) (m : List (Nat × β)) (fn : Nat) :
    (m.map fun (p : Nat × β) => (pathBase oid p.1, g p.1 p.2)).lookup (pathBase oid fn) = (m.lookup fn).map (g fn) := by
  induction m with
  | nil => rfl
  | cons e rest ih =>
    obtain ⟨fn', v⟩ := e
    simp only [map_cons, lookup_cons]
    by_cases h : fn = fn'
    · subst h; simp
    · have h1 : (fn == fn') = false := by simpa using h
      have h2 : (pathBase oid fn == pathBase oid fn') = false := by
        simp only [beq_eq_false_iff_ne, ne_eq]
        intro he; exact h (pathBase_inj _ _ _ _ he).2
      simp only [h1, h2]
      exact ih

theorem dbFiles_keys (l : Layout) (oid : Nat) (d : DbContent) : ∀ e ∈ dbFiles l oid d, ∃ fn, e.1 = pathBase oid fn := by
  intro e he
  unfold dbFiles at he
  simp only [cons_append, nil_append, mem_cons, mem_append, mem_map] at he
  rcases he with rfl | rfl | ⟨p, _, rfl⟩ | ⟨p, _, rfl⟩
  · exact ⟨1259, rfl⟩
  · exact ⟨1249, rfl⟩
  · exact ⟨p.1, rfl⟩
  · exact ⟨p.1, rfl⟩

theorem dbFiles_other (l : Layout) (oid oid' : Nat) (d : DbContent) (fn : Nat) (h : oid' ≠ oid) :
    (dbFiles l oid' d).lookup (pathBase oid fn) = none := by
  apply lookupB_none_of_keys
  intro e he hk
  obtain ⟨fn', hfn'⟩ := dbFiles_keys l oid' d e he
  rw [hfn'] at hk
  exact h (pathBase_inj _ _ _ _ hk).1

theorem dbFiles_1259 (l : Layout) (oid : Nat) (d : DbContent) :
    (dbFiles l oid d).lookup (pathBase oid 1259) = some (encHeapOf pgClassCols classVals d.cls) := by
  unfold dbFiles
  simp

theorem dbFiles_1249 (l : Layout) (oid : Nat) (d : DbContent) :
    (dbFiles l oid d).lookup (pathBase oid 1249) = some (encHeapOf (pgAttributeCols l) (attrVals l) d.att) := by
  unfold dbFiles
  have : (pathBase oid 1249 == pathBase oid 1259) = false := by
    simp only [beq_eq_false_iff_ne, ne_eq]
    intro he; exact absurd (pathBase_inj _ _ _ _ he).2 (by decide)
  simp [lookup_cons, this]

theorem dbFiles_heap (l : Layout) (oid : Nat) (d : DbContent) (fn : Nat) (h1 : fn ≠ 1259) (h2 : fn ≠ 1249)
    (h3 : d.raws.lookup fn = none) :
    (dbFiles l oid d).lookup (pathBase oid fn) = (d.heaps.lookup fn).map (encRowPages (colsOfFilenode d fn)) := by
  unfold dbFiles
  have e1 : (pathBase oid fn == pathBase oid 1259) = false := by
    simp only [beq_eq_false_iff_ne, ne_eq]
    intro he; exact h1 (pathBase_inj _ _ _ _ he).2
  have e2 : (pathBase oid fn == pathBase oid 1249) = false := by
    simp only [beq_eq_false_iff_ne, ne_eq]
    intro he; exact h2 (pathBase_inj _ _ _ _ he).2
  simp only [cons_append, nil_append, lookup_cons, e1, e2]
  have hh := lookup_files oid (fun fn pages => encRowPages (colsOfFilenode d fn) pages) d.heaps fn
  have hr := lookup_files oid (fun _ (bs : Bytes) => bs) d.raws fn
  cases hl : d.heaps.lookup fn with
  | some pages =>
    rw [hl] at hh
    exact lookupB_append_some _ _ _ _ hh
  | none =>
    rw [hl] at hh
    rw [lookupB_append_none _ _ _ hh, hr, h3]
    rfl

theorem content_other (l : Layout) (content : List (Nat × DbContent)) (oid fn : Nat) (h : ∀ e ∈ content, e.1 ≠ oid) :
    ((content.map fun (p : Nat × DbContent) => dbFiles l p.1 p.2).flatten).lookup (pathBase oid fn) = none := by
  apply lookupB_none_of_keys
  intro e he hk
  obtain ⟨fs, hfs, hef⟩ := mem_flatten.mp he
  obtain ⟨p, hp, rfl⟩ := mem_map.mp hfs
  obtain ⟨fn', hfn'⟩ := dbFiles_keys l p.1 p.2 e hef
  rw [hfn'] at hk
  exact h p hp (pathBase_inj _ _ _ _ hk).1

/-- the files of all databases, looked up by a path of database `oid` -/
theorem content_lookup (l : Layout) (content : List (Nat × DbContent)) (hnd : (content.map (·.1)).Nodup) (oid fn : Nat) :
    ((content.map fun (p : Nat × DbContent) => dbFiles l p.1 p.2).flatten).lookup (pathBase oid fn) =
      match content.lookup oid with
      | some d => (dbFiles l oid d).lookup (pathBase oid fn)
      | none => none := by
  induction content with
  | nil => rfl
  | cons e rest ih =>
    obtain ⟨oid', d'⟩ := e
    simp only [map_cons, nodup_cons] at hnd
    simp only [map_cons, flatten_cons, lookup_cons]
    by_cases h : oid = oid'
    · subst h
      simp only [beq_self_eq_true]
      cases hf : (dbFiles l oid d').lookup (pathBase oid fn) with
      | some v => exact lookupB_append_some _ _ _ _ hf
      | none =>
        rw [lookupB_append_none _ _ _ hf]
        apply content_other
        intro e he hk
        exact hnd.1 (by rw [← hk]; exact mem_map_of_mem he)
    · have h1 : (oid == oid') = false := by simpa using h
      simp only [h1]
      rw [lookupB_append_none _ _ _ (dbFiles_other l oid oid' d' fn (fun e => h e.symm))]
      exact ih hnd.2

/-! ### without segments, tablespaces, relocated catalogs and fast defaults every relation is one file under `base/<db>/` -/

theorem heapFiles_plain (ver oid : Nat) (d : DbContent) (h : Nat × List (List RowV)) (ht : ∀ r ∈ d.cls.live, r.tblspc = 0) :
    heapFiles ver 0 oid d h 0 = [(pathBase oid h.1, encRowPages (colsOfFilenode d h.1) h.2)] := by
  have hp : heapPath ver oid d h.1 0 = pathBase oid h.1 := by
    unfold heapPath pathDb
    cases hf : relOfFilenode d.cls h.1 with
    | none => rfl
    | some r =>
      unfold relOfFilenode at hf
      simp only [ht r (mem_of_find?_eq_some hf), if_true]
  simp only [heapFiles, chunksOf, if_true, numbered, map_cons, map_nil, segSuffix, append_nil, hp]

theorem flatten_map_singleton {α β} (f : α → β) (g : α → List β) (l : List α) (h : ∀ x ∈ l, g x = [f x]) :
    (l.map g).flatten = l.map f := by
  induction l with
  | nil => rfl
  | cons x xs ih =>
    simp only [map_cons, flatten_cons]
    rw [h x (by simp), ih (fun y hy => h y (by simp [hy]))]
    rfl

theorem dbFilesPlaced_plain (ver : Nat) (l : Layout) (oid : Nat) (d : DbContent) (ht : ∀ r ∈ d.cls.live, r.tblspc = 0)
    (h1259 : mappedNode d.relmap 1259 = 1259) (h1249 : mappedNode d.relmap 1249 = 1249) (hm : d.missing = []) :
    dbFilesPlaced ver 0 l oid d 0 = dbFiles l oid d := by
  unfold dbFilesPlaced dbFiles
  rw [flatten_map_singleton (fun (p : Nat × List (List RowV)) => (pathBase oid p.1, encRowPages (colsOfFilenode d p.1) p.2))
    (fun h => heapFiles ver 0 oid d h 0) d.heaps (fun h _ => heapFiles_plain ver oid d h ht), h1259, h1249, hm, attrValsM_nil]
  rfl

theorem dbTblspc_plain (c : Cluster) (hp : ∀ db ∈ c.dbs.live, db.tblspc = 0) (oid : Nat) : dbTblspc c oid = 0 := by
  unfold dbTblspc
  cases hf : c.dbs.live.find? (fun db => db.oid == oid) with
  | none => rfl
  | some db => exact hp db (mem_of_find?_eq_some hf)

/-- the relation files of a plain cluster (everything but the pg_filenode.map files) -/
def plainFiles (c : Cluster) : List (Bytes × Bytes) :=
  [(strBytes "PG_VERSION", natBytes c.pgVersion ++ [10]),
   (pathGlobal 1262, encHeapOf (pgDatabaseCols c.pgVersion) (dbVals c.pgVersion) c.dbs)] ++
  (c.content.map fun (p : Nat × DbContent) => dbFiles c.layout p.1 p.2).flatten

theorem filesOf_plain (c : Cluster) (hp : c.Plain) (hid : c.IdentityMapped) (hnm : c.NoFastDefaults) :
    filesOf c = plainFiles c ++ mapFilesOf c := by
  unfold filesOf plainFiles
  rw [hid.1]
  congr 3
  apply map_congr_left
  intro p hpm
  obtain ⟨oid, d⟩ := p
  simp only
  rw [hp.1, dbTblspc_plain c hp.2.2]
  exact dbFilesPlaced_plain c.pgVersion c.layout oid d (hp.2.1 _ hpm) (hid.2 _ hpm).1 (hid.2 _ hpm).2 (hnm _ hpm)

/-! ### the pg_filenode.map files do not shadow or answer for any relation file -/

theorem sb_mapname : strBytes "/pg_filenode.map" = 47 :: 112 :: (strBytes "/pg_filenode.map").drop 2 := by rw [strBytes_eq]; rfl

theorem pathMapDb_ne (oid oid' fn ver : Nat) : pathMapDb 0 ver oid' ≠ pathBase oid fn := by
  intro he
  unfold pathMapDb at he
  rw [if_pos rfl, pathBase_eq, sb_base, sb_mapname] at he
  have h1 : natBytes oid' ++ 47 :: (112 :: (strBytes "/pg_filenode.map").drop 2) = decBytes oid ++ 47 :: decBytes fn := by
    simpa [List.append_assoc] using he
  obtain ⟨_, h3⟩ := digits_slash_cancel _ _ _ _ (fun x hx => (decBytes_digits oid' x hx).1) (fun x hx => (decBytes_digits oid x hx).1) h1
  have hmem : (112 : UInt8) ∈ decBytes fn := by rw [← h3]; simp
  exact absurd (decBytes_digits fn 112 hmem).2 (by decide)

theorem pathMapGlobal_ne (oid fn : Nat) : pathMapGlobal ≠ pathBase oid fn := by
  intro he
  rw [pathBase_eq] at he
  have : pathMapGlobal = 103 :: pathMapGlobal.tail := by unfold pathMapGlobal; rw [strBytes_eq]; rfl
  rw [this] at he
  simp only [cons_append, cons.injEq] at he
  exact absurd he.1 (by decide)

theorem mapFiles_base (c : Cluster) (hp : ∀ db ∈ c.dbs.live, db.tblspc = 0) (oid fn : Nat) :
    (mapFilesOf c).lookup (pathBase oid fn) = none := by
  apply lookupB_none_of_keys
  intro e he hk
  unfold mapFilesOf at he
  simp only [mem_cons, mem_map] at he
  rcases he with rfl | ⟨p, _, rfl⟩
  · exact pathMapGlobal_ne oid fn hk
  · simp only [dbTblspc_plain c hp] at hk
    exact pathMapDb_ne oid p.1 fn c.pgVersion hk

/-- looking a `base/<db>/<n>` path up in the whole tree = looking it up among the relation files -/
theorem filesOf_lookup_base (c : Cluster) (hp : c.Plain) (hid : c.IdentityMapped) (hnm : c.NoFastDefaults) (oid fn : Nat) :
    (filesOf c).lookup (pathBase oid fn) = (plainFiles c).lookup (pathBase oid fn) := by
  rw [filesOf_plain c hp hid hnm]
  cases hl : (plainFiles c).lookup (pathBase oid fn) with
  | some v => exact lookupB_append_some _ _ _ _ hl
  | none => rw [lookupB_append_none _ _ _ hl]; exact mapFiles_base c hp.2.2 oid fn

/-- **The encoded file tree is the tree the theorems talk about** — for a cluster without segmented heaps and without
tablespaces (`Cluster.Plain`; open findings C01-SEG and C01-TBLSPC are about the others), whose mapped catalogs still live
under their oids (`Cluster.IdentityMapped`; open finding C01-MAPPED) and that records no fast defaults
(`Cluster.NoFastDefaults`; open finding C01-MISSINGVAL). -/
theorem treeOf_fsOf (c : Cluster) (hnd : (c.content.map (·.1)).Nodup) (hp : c.Plain) (hid : c.IdentityMapped)
    (hnm : c.NoFastDefaults) : TreeOf c (fsOf c) := by
  have hbase : ∀ oid fn, fsOf c (basePath oid fn) =
      match c.content.lookup oid with
      | some d => (dbFiles c.layout oid d).lookup (pathBase oid fn)
      | none => none := by
    intro oid fn
    unfold fsOf
    rw [basePath_eq, filesOf_lookup_base c hp hid hnm]
    unfold plainFiles
    simp only [cons_append, nil_append, lookup_cons, sb_pgversion_ne, sb_global_ne]
    exact content_lookup c.layout c.content hnd oid fn
  refine ⟨?_, ?_, ?_, ?_, ?_⟩
  · unfold fsOf
    rw [filesOf_plain c hp hid hnm]
    apply lookupB_append_some
    unfold plainFiles
    simp only [cons_append, nil_append, lookup_cons, global_ne_version, pathGlobal_1262, beq_self_eq_true]
  · intro oid d hl
    rw [hbase, hl]
    exact dbFiles_1259 c.layout oid d
  · intro oid d hl
    rw [hbase, hl]
    exact dbFiles_1249 c.layout oid d
  · intro oid d hl fn h1 h2 h3
    rw [hbase, hl]
    exact dbFiles_heap c.layout oid d fn h1 h2 h3
  · intro oid hl
    rw [hbase, hl]

end PgVerif.Proofs.Cluster
