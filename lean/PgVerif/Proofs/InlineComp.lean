/-
  The inline-compressed branch of ReadVarlena (fixes/rows/09; `Model.inlineDecompress`, shared by the models of areas rows
  and toast): totality of the two decompressors (moved here unchanged from Proofs/ToastTotal.lean, same names) and of the
  branch, the size bound of its result in the input, and its value on the layout `Spec.Comp.stored` of any valid stream.
-/
import PgVerif.Proofs.Pglz
import PgVerif.Proofs.Lz4
import PgVerif.Model.InlineComp
import PgVerif.Spec.Rows
namespace PgVerif.Proofs.Toast
open PgVerif PgVerif.Model PgVerif.Proofs
set_option linter.unusedVariables false

/-! ### decompressors -/

open PgVerif.Model.Pglz PgVerif.Proofs.Pglz in
theorem items_total (raw n ctrl bit : Nat) (data out : Bytes) : ∃ r, items raw n ctrl bit data out = .ok r := by
  induction n generalizing bit data out with
  | zero => exact ⟨_, rfl⟩
  | succ n ih =>
    simp only [items]
    split
    · exact ⟨_, rfl⟩
    · split
      · rcases data with _ | ⟨b0, _ | ⟨b1, rest⟩⟩
        · exact ⟨_, rfl⟩
        · exact ⟨_, rfl⟩
        · simp only []
          split
          · rcases rest with _ | ⟨b2, r2⟩
            · exact ⟨_, rfl⟩
            · simp only []
              split
              · exact ih ..
              · rename_i hc
                rw [copyLoopM_eq _ _ _ (by omega) _ _ _ (by omega)]
                simp only [ok_bind]
                exact ih ..
          · split
            · exact ih ..
            · rename_i hc
              rw [copyLoopM_eq _ _ _ (by omega) _ _ _ (by omega)]
              simp only [ok_bind]
              exact ih ..
      · rcases data with _ | ⟨b, rest⟩
        · exact ⟨_, rfl⟩
        · exact ih ..

open PgVerif.Model.Pglz in
theorem decompress_total (raw f : Nat) (data out : Bytes) : ∃ r, decompress raw f data out = .ok r := by
  induction f generalizing data out with
  | zero => exact ⟨_, rfl⟩
  | succ f ih =>
    simp only [decompress]
    split
    · exact ⟨_, rfl⟩
    · rcases data with _ | ⟨ctrl, rest⟩
      · exact ⟨_, rfl⟩
      · obtain ⟨r, hr⟩ := items_total raw 8 ctrl.toNat 0 rest out
        simp only [hr, ok_bind]
        exact ih ..

theorem decompressPGLZ_total (data : Bytes) (raw : Nat) : ∃ r, Pglz.decompressPGLZ data raw = .ok r := by
  unfold Pglz.decompressPGLZ
  split
  · exact ⟨_, rfl⟩
  · obtain ⟨r, hr⟩ := decompress_total raw (data.length + 1) data []
    simp only [hr, ok_bind]
    exact ⟨_, rfl⟩

open PgVerif.Model.Lz4 PgVerif.Proofs.Pglz in
theorem lz4_loop_total (raw f : Nat) (data out : Bytes) : ∃ r, loop raw f data out = .ok r := by
  induction f generalizing data out with
  | zero => exact ⟨_, rfl⟩
  | succ f ih =>
    simp only [loop]
    split
    · exact ⟨_, rfl⟩
    · rcases data with _ | ⟨token, d1⟩
      · exact ⟨_, rfl⟩
      · simp only []
        generalize hr : (if token.toNat >>> 4 = 15 then readExt d1 15 else (token.toNat >>> 4, d1)) = r
        generalize hl : (if r.1 > r.2.length then r.2.length else r.1) = litLen
        split
        · exact ⟨_, rfl⟩
        · rcases hd : List.drop litLen r.2 with _ | ⟨o0, _ | ⟨o1, d4⟩⟩
          · exact ⟨_, rfl⟩
          · exact ⟨_, rfl⟩
          · simp only []
            split
            · exact ⟨_, rfl⟩
            · split
              · exact ⟨_, rfl⟩
              · rename_i h0 hgt
                rw [copyLoopM_eq _ _ _ (by omega) _ _ _ (by omega)]
                simp only [ok_bind]
                exact ih ..

theorem decompressLZ4_total (data : Bytes) (raw : Nat) : ∃ r, Lz4.decompressLZ4 data raw = .ok r := by
  unfold Lz4.decompressLZ4
  split
  · exact ⟨_, rfl⟩
  · exact lz4_loop_total ..

end PgVerif.Proofs.Toast

namespace PgVerif.Proofs.InlineComp
open PgVerif PgVerif.Model PgVerif.Proofs PgVerif.Proofs.Toast

theorem take_drop_mid' (a p rest : Bytes) (n : Nat) (hn : n = a.length) :
    ((a ++ (p ++ rest)).take (p.length + n)).drop n = p := by
  subst hn
  rw [← List.append_assoc, show p.length + a.length = (a ++ p).length by simp; omega, List.take_left']
  · simp
  · rfl

theorem acceptRaw_len (n : Nat) (r : Option Bytes) (d : Bytes) (h : acceptRaw n r = some d) : r = some d ∧ d.length = n := by
  cases r with
  | none => simp [acceptRaw] at h
  | some out =>
    simp only [acceptRaw] at h
    split at h
    · simp only [Option.some.injEq] at h; subst h; exact ⟨rfl, by assumption⟩
    · cases h

/-- the branch never faults once the guards of ReadVarlena hold (8 ≤ total ≤ len(data)) -/
theorem inlineDecompress_total (data : Bytes) (total : Nat) (h8 : 8 ≤ total) (hl : total ≤ data.length) :
    ∃ r, inlineDecompress data total = .ok r := by
  unfold inlineDecompress
  rw [uN_ok 4 data 4 (by omega), slice_ok _ _ _ hl h8]
  simp only [ok_bind]
  split
  · obtain ⟨r, hr⟩ := decompressPGLZ_total ((data.take total).drop 8) (rd 4 (data.drop 4) % 2 ^ 30)
    rw [hr]; exact ⟨_, rfl⟩
  · split
    · obtain ⟨r, hr⟩ := decompressLZ4_total ((data.take total).drop 8) (rd 4 (data.drop 4) % 2 ^ 30)
      rw [hr]; exact ⟨_, rfl⟩
    · exact ⟨_, rfl⟩

/-- the value on PostgreSQL's layout: any 4 header bytes, va_tcinfo, the rendering of any valid stream, anything after it -/
theorem inlineDecompress_enc (z : Spec.Comp) (hdr rest : Bytes) (hh : hdr.length = 4) (hz : z.WF) :
    inlineDecompress (hdr ++ (z.stored ++ rest)) (z.stored.length + 4) = .ok (some z.original) := by
  obtain ⟨h30, hwf⟩ := hz
  have htc : z.tcinfo < 256 ^ 4 := by
    cases z <;> simp only [Spec.Comp.tcinfo, Spec.Comp.original] at h30 ⊢ <;> omega
  have hsl : z.stored.length = 4 + z.stream.length := by simp [Spec.Comp.stored]
  have hX : hdr ++ (z.stored ++ rest) = (hdr ++ le 4 z.tcinfo) ++ (z.stream ++ rest) := by
    simp [Spec.Comp.stored]
  have hd4 : (hdr ++ (z.stored ++ rest)).drop 4 = le 4 z.tcinfo ++ (z.stream ++ rest) := by
    have := List.drop_left (l₁ := hdr) (l₂ := z.stored ++ rest)
    rw [hh] at this; rw [this]; simp [Spec.Comp.stored]
  have htd : (((hdr ++ le 4 z.tcinfo) ++ (z.stream ++ rest)).take (z.stream.length + 8)).drop 8 = z.stream :=
    take_drop_mid' (hdr ++ le 4 z.tcinfo) z.stream rest 8 (by simp; omega)
  have hlen : (hdr ++ (z.stored ++ rest)).length = 8 + z.stream.length + rest.length := by
    simp [Spec.Comp.stored]; omega
  unfold inlineDecompress
  rw [uN_ok 4 _ 4 (by omega), slice_ok _ _ _ (by omega) (by omega), hd4, rd_le 4 _ _ htc]
  rw [show z.stored.length + 4 = z.stream.length + 8 by omega, hX, htd]
  simp only [ok_bind]
  cases z with
  | pglz ts =>
    simp only [Spec.Comp.tcinfo, Spec.Comp.original, Spec.Comp.stream] at h30 hwf ⊢
    have h0 : (Spec.Pglz.expand ts).length / 2 ^ 30 = 0 := by omega
    have hm : (Spec.Pglz.expand ts).length % 2 ^ 30 = (Spec.Pglz.expand ts).length := by omega
    simp only [h0, hm, ↓reduceIte, Proofs.Pglz.decompressPGLZ_render ts hwf.1 hwf.2, ok_bind]
    simp [acceptRaw]
  | lz4 b =>
    simp only [Spec.Comp.tcinfo, Spec.Comp.original, Spec.Comp.stream] at h30 hwf ⊢
    have h0 : ¬ ((Spec.Lz4.expand b).length + 2 ^ 30) / 2 ^ 30 = 0 := by omega
    have h1 : ((Spec.Lz4.expand b).length + 2 ^ 30) / 2 ^ 30 = 1 := by omega
    have hm : ((Spec.Lz4.expand b).length + 2 ^ 30) % 2 ^ 30 = (Spec.Lz4.expand b).length := by omega
    simp only [h1, hm, ↓reduceIte, Proofs.Lz4.decompressLZ4_render b hwf, ok_bind]
    simp [acceptRaw]

end PgVerif.Proofs.InlineComp
