/-
  Round trip for whole documents: the nested induction over Spec.Json (arrays and objects to any
  depth) and the top-level statements.
-/
import PgVerif.Proofs.JsonbObj
namespace PgVerif.Proofs
open PgVerif PgVerif.Model

theorem drop_add_of_append (data : Bytes) (off n pad : Nat) (rest : Bytes)
    (h : (data.take (off + n)).drop off = zeros pad ++ rest) :
    (data.take (off + n)).drop (off + pad) = rest := by
  rw [← List.drop_drop, h, List.drop_left' (by simp)]

theorem parseContainer_empty_obj (rec : Bytes → M JV) :
    parseContainer rec (objBytes 0 ([] ++ [])) = .ok (.obj []) := rfl

theorem decodesAs_all (x : Spec.Json) : DecodesAs x := by
  refine Spec.Json.rec (motive_1 := DecodesAs) (motive_2 := fun xs => ∀ x ∈ xs, DecodesAs x)
    (motive_3 := fun kvs => ∀ kv ∈ kvs, DecodesAs kv.2) (motive_4 := fun p => DecodesAs p.2)
    ?_ ?_ ?_ ?_ ?_ ?_ ?_ ?_ ?_ ?_ ?_ x
  · -- null
    intro _ pos off data fuel e _ _ _ _ _ he _
    have henc : Spec.encValue pos .null = (4, []) := rfl
    rw [henc] at he
    exact ⟨.nil, decodeJEntry_null _ _ _ _ _ he, rfl⟩
  · -- bool
    intro b _ pos off data fuel e _ _ _ _ _ he _
    cases b
    · have henc : Spec.encValue pos (.bool false) = (2, []) := rfl
      rw [henc] at he
      exact ⟨.bool false, decodeJEntry_false _ _ _ _ _ he, rfl⟩
    · have henc : Spec.encValue pos (.bool true) = (3, []) := rfl
      rw [henc] at he
      exact ⟨.bool true, decodeJEntry_true _ _ _ _ _ he, rfl⟩
  · -- numeric
    intro n long hs pos off data fuel e hp _ hb hsl hsm he _
    have hwf : n.WF := by simpa [covered] using hs
    have henc : Spec.encValue pos (.num n long) =
      (1, zeros (Spec.padTo4 pos) ++ Spec.varlena4 (Spec.encNumeric (Spec.formOf n long) n)) := rfl
    rw [henc] at hb hsl hsm he ⊢
    simp only [List.length_append, zeros_length] at hb hsm ⊢
    have hvl : (Spec.varlena4 (Spec.encNumeric (Spec.formOf n long) n)).length =
        (Spec.encNumeric (Spec.formOf n long) n).length + 4 := by
      simp [Spec.varlena4, le_length]; omega
    have hpos := encNumeric_pos (Spec.formOf n long) n
    rw [decodeJEntry_num _ data pos off _ e he hp (by omega) hb]
    rw [drop_add_of_append data off _ _ _ (by simpa [List.length_append] using hsl)]
    rw [decodeJNumeric_varlena4 _ hpos (by omega)]
    have hv := decodeNumeric_enc n hwf (Spec.formOf n long) (formOf_admits n long)
    cases hd : decodeNumeric (Spec.encNumeric (Spec.formOf n long) n) with
    | error er => rw [hd] at hv; simp [Except.map] at hv
    | ok r0 =>
      rw [hd] at hv
      simp only [Except.map, Except.ok.injEq] at hv
      refine ⟨JV.ofNum r0, rfl, ?_⟩
      cases r0 with
      | none => simp [NumRes.toView] at hv
      | int0 => simp only [JV.ofNum, JV.toView, hv]; rfl
      | fzero => simp only [JV.ofNum, JV.toView, hv]; rfl
      | special s => simp only [JV.ofNum, JV.toView, hv]; rfl
      | num t => simp only [JV.ofNum, JV.toView, hv]; rfl
  · -- string
    intro s _ pos off data fuel e _ _ hb hsl _ he _
    have henc : Spec.encValue pos (.str s) = (0, s) := rfl
    rw [henc] at hb hsl he ⊢
    rw [decodeJEntry_str _ data off s.length e he hb, hsl]
    exact ⟨_, rfl, rfl⟩
  · -- array
    intro xs ih hs pos off data fuel e hp hoff hb hsl hsm he hfuel
    simp only [covered] at hs
    obtain ⟨hpa, hp4⟩ := padTo4_aligned pos
    rw [encValue_arr] at hb hsl hsm he ⊢
    simp only [List.length_append, zeros_length] at hb hsm ⊢
    have hal := arrBytes_length (childEncs (pos + Spec.padTo4 pos + 4 + 4 * xs.length) xs) false
    rw [decodeJEntry_container _ data pos off _ e he hp (by omega) hb]
    rw [drop_add_of_append data off _ _ _ (by simpa [List.length_append] using hsl)]
    cases fuel with
    | zero => omega
    | succ f =>
      show ∃ r, parseContainer (parseJSONBFuel f) _ = .ok r ∧ _
      by_cases h0 : xs.length = 0
      · have : xs = [] := List.eq_nil_of_length_eq_zero h0
        subst this
        exact ⟨_, parseContainer_empty_arr _ _, rfl⟩
      · obtain ⟨rs, h1, h2, h3⟩ := parse_arrBytes xs (pos + Spec.padTo4 pos + 4 + 4 * xs.length) false f
          (by omega) ih hs (by omega) (by omega) (by omega)
        refine ⟨_, h1, ?_⟩
        show Spec.JView.arr (toViewList rs) = Spec.JView.arr (Spec.viewList xs)
        rw [h3]
  · -- object
    intro kvs ih hs pos off data fuel e hp hoff hb hsl hsm he hfuel
    simp only [covered, Bool.and_eq_true, decide_eq_true_eq] at hs
    obtain ⟨hpa, hp4⟩ := padTo4_aligned pos
    rw [encValue_obj] at hb hsl hsm he ⊢
    simp only [List.length_append, zeros_length] at hb hsm ⊢
    have hal := objBytes_length kvs.length (keyChildren (kvs.map (·.1)) ++
      valChildren (pos + Spec.padTo4 pos + 4 + 8 * kvs.length + (bodyOf (keyChildren (kvs.map (·.1)))).length) kvs)
    rw [decodeJEntry_container _ data pos off _ e he hp (by omega) hb]
    rw [drop_add_of_append data off _ _ _ (by simpa [List.length_append] using hsl)]
    cases fuel with
    | zero => omega
    | succ f =>
      show ∃ r, parseContainer (parseJSONBFuel f) _ = .ok r ∧ _
      by_cases h0 : kvs.length = 0
      · have : kvs = [] := List.eq_nil_of_length_eq_zero h0
        subst this
        exact ⟨_, parseContainer_empty_obj _, rfl⟩
      · obtain ⟨rs, h1, h2, h3⟩ := parse_objBytes kvs
          (pos + Spec.padTo4 pos + 4 + 8 * kvs.length + (bodyOf (keyChildren (kvs.map (·.1)))).length) f
          (by omega) ih hs.2 (by omega) (by omega) (by omega)
        refine ⟨_, h1, ?_⟩
        rw [buildMap_nodup rs (by rw [h3]; exact hs.1)]
        show Spec.JView.obj (toViewKvs rs) = Spec.JView.obj (Spec.viewKvs kvs)
        rw [h2]
  · intro x hx; simp at hx
  · intro x xs ihx ihxs y hy
    rcases List.mem_cons.mp hy with e | m
    · subst e; exact ihx
    · exact ihxs y m
  · intro x hx; simp at hx
  · intro p ps ihp ihps y hy
    rcases List.mem_cons.mp hy with e | m
    · subst e; exact ihp
    · exact ihps y m
  · intro k v ihv; exact ihv

/-! ### whole documents -/

theorem encJsonb_scalar (j : Spec.Json) (h : j.isContainer = false) :
    Spec.encJsonb j = arrBytes (childEncs 12 [j]) true := by
  unfold Spec.encJsonb
  rw [h]
  simp only [Bool.false_eq_true, if_false]
  rw [encElems_eq]
  simp only [arrBytes, arrHeader, childEncs_length, List.length_singleton, List.append_assoc, if_true]

theorem roundtrip_scalar (j : Spec.Json) (hc : j.isContainer = false) (hs : covered j = true)
    (hsize : (Spec.encJsonb j).length < 0x10000000) :
    (parseJSONB (Spec.encJsonb j)).map JV.toView = .ok j.view := by
  rw [encJsonb_scalar j hc] at hsize ⊢
  unfold parseJSONB
  show (parseContainer (parseJSONBFuel _) _).map JV.toView = _
  obtain ⟨rs, h1, h2, h3⟩ := parse_arrBytes [j] 12 true (arrBytes (childEncs 12 [j]) true).length (by simp)
    (fun x _ => decodesAs_all x) (by simp [coveredList, hs]) (by simp) hsize (Nat.le_refl _)
  rw [h1]
  match rs, h2, h3 with
  | [r], _, h3 =>
    simp only [toViewList, Spec.viewList, List.cons.injEq, and_true] at h3
    simp only [Except.map, unwrapScalar, if_true, h3]

theorem roundtrip_array (xs : List Spec.Json) (hs : covered (.arr xs) = true)
    (hsize : (Spec.encJsonb (.arr xs)).length < 0x10000000) :
    (parseJSONB (Spec.encJsonb (.arr xs))).map JV.toView = .ok (Spec.Json.arr xs).view := by
  have e : Spec.encJsonb (.arr xs) = (Spec.encValue 4 (.arr xs)).2 := rfl
  rw [e, encValue_arr] at hsize ⊢
  have hp : Spec.padTo4 4 = 0 := rfl
  simp only [hp, zeros, List.replicate_zero, List.nil_append, Nat.add_zero] at hsize ⊢
  simp only [covered] at hs
  unfold parseJSONB
  show (parseContainer (parseJSONBFuel _) _).map JV.toView = _
  by_cases h0 : xs.length = 0
  · have : xs = [] := List.eq_nil_of_length_eq_zero h0
    subst this
    rw [show childEncs (4 + 4 + 4 * ([] : List Spec.Json).length) [] = [] from rfl, parseContainer_empty_arr]
    rfl
  · obtain ⟨rs, h1, h2, h3⟩ := parse_arrBytes xs (4 + 4 + 4 * xs.length) false
      (arrBytes (childEncs (4 + 4 + 4 * xs.length) xs) false).length (by omega)
      (fun x _ => decodesAs_all x) hs (by omega) hsize (Nat.le_refl _)
    rw [h1]
    show Except.ok (Spec.JView.arr (toViewList rs)) = Except.ok (Spec.JView.arr (Spec.viewList xs))
    rw [h3]

theorem roundtrip_object (kvs : List (Bytes × Spec.Json)) (hs : covered (.obj kvs) = true)
    (hsize : (Spec.encJsonb (.obj kvs)).length < 0x10000000) :
    (parseJSONB (Spec.encJsonb (.obj kvs))).map JV.toView = .ok (Spec.Json.obj kvs).view := by
  have e : Spec.encJsonb (.obj kvs) = (Spec.encValue 4 (.obj kvs)).2 := rfl
  rw [e, encValue_obj] at hsize ⊢
  have hp : Spec.padTo4 4 = 0 := rfl
  simp only [hp, zeros, List.replicate_zero, List.nil_append, Nat.add_zero] at hsize ⊢
  simp only [covered, Bool.and_eq_true, decide_eq_true_eq] at hs
  unfold parseJSONB
  show (parseContainer (parseJSONBFuel _) _).map JV.toView = _
  by_cases h0 : kvs.length = 0
  · have : kvs = [] := List.eq_nil_of_length_eq_zero h0
    subst this
    rfl
  · obtain ⟨rs, h1, h2, h3⟩ := parse_objBytes kvs
      (4 + 4 + 8 * kvs.length + (bodyOf (keyChildren (kvs.map (·.1)))).length) _
      (by omega) (fun kv _ => decodesAs_all kv.2) hs.2 (by omega) hsize (Nat.le_refl _)
    rw [h1, buildMap_nodup rs (by rw [h3]; exact hs.1)]
    show Except.ok (Spec.JView.obj (toViewKvs rs)) = Except.ok (Spec.JView.obj (Spec.viewKvs kvs))
    rw [h2]

/-- round trip for every covered document -/
theorem roundtrip_covered (j : Spec.Json) (hs : covered j = true)
    (hsize : (Spec.encJsonb j).length < 0x10000000) :
    (parseJSONB (Spec.encJsonb j)).map JV.toView = .ok j.view := by
  cases j with
  | arr xs => exact roundtrip_array xs hs hsize
  | obj kvs => exact roundtrip_object kvs hs hsize
  | null => exact roundtrip_scalar _ rfl hs hsize
  | bool b => exact roundtrip_scalar _ rfl hs hsize
  | num n l => exact roundtrip_scalar _ rfl hs hsize
  | str s => exact roundtrip_scalar _ rfl hs hsize

end PgVerif.Proofs
