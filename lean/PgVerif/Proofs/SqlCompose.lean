/-
  Composition machinery for C13_sql: reading a concatenation of pieces token by token.
  `Reads B text toks` — whatever follows `text` (provided its first byte satisfies the boundary condition `B`), the lexer
  reads `text` as exactly the tokens `toks` and continues with what follows.
-/
import PgVerif.Proofs.SqlLex
import PgVerif.Proofs.ExportDec
namespace PgVerif.Proofs.SqlCompose
open PgVerif PgVerif.Export PgVerif.Spec.SqlLex PgVerif.Model.Export PgVerif.Proofs.SqlLex

def pre (tok : Option Tok) (ts : List Tok) : List Tok := match tok with | some k => k :: ts | none => ts

/-- more fuel than the length of the input changes nothing -/
theorem lexF_fuel (f : Nat) : ∀ bs : Bytes, bs.length < f → lexF (f + 1) bs = lexF f bs := by
  induction f with
  | zero => intro bs h; omega
  | succ f ih =>
    intro bs h
    cases bs with
    | nil => simp [lexF]
    | cons c t =>
      rw [lexF, lexF]
      cases hn : next (c :: t) with
      | none => rfl
      | some p =>
        obtain ⟨tok, rest⟩ := p
        simp only []
        by_cases hl : rest.length < (c :: t).length
        · rw [if_pos hl, if_pos hl, ih rest (by simp only [List.length_cons] at h hl; omega)]
        · rw [if_neg hl, if_neg hl]

theorem lexF_eq_lex (f : Nat) (bs : Bytes) (h : bs.length < f) : lexF f bs = lex bs := by
  unfold lex
  induction f with
  | zero => omega
  | succ f ih =>
    by_cases h' : bs.length < f
    · rw [lexF_fuel f bs h', ih h']
    · have : f = bs.length := by omega
      subst this; rfl

/-- one step of `lex` -/
theorem lex_step (bs rest : Bytes) (tok : Option Tok) (hn : next bs = some (tok, rest)) (hl : rest.length < bs.length) :
    lex bs = (lex rest).map (pre tok) := by
  cases bs with
  | nil => simp at hl
  | cons c t =>
    have : lex (c :: t) = lexF ((c :: t).length + 1) (c :: t) := rfl
    rw [this, lexF, hn]
    simp only []
    rw [if_pos hl, lexF_eq_lex _ rest (by omega)]
    cases tok <;> rfl

/-- boundary conditions are predicates on the first byte of what follows (`none` = end of input) -/
abbrev Bnd := Option UInt8 → Prop

def Reads (B : Bnd) (text : Bytes) (toks : List Tok) : Prop :=
  ∀ rest, B rest.head? → lex (text ++ rest) = (lex rest).map (toks ++ ·)

def anyB : Bnd := fun _ => True

theorem Reads.nil (B : Bnd) : Reads B [] [] := by
  intro rest _; simp

/-- sequencing: the second piece must start with a byte the first piece accepts as its boundary -/
theorem Reads.append {B1 B2 : Bnd} {t1 t2 : Bytes} {k1 k2 : List Tok} (h1 : Reads B1 t1 k1) (h2 : Reads B2 t2 k2)
    (hb : ∀ rest : Bytes, B2 rest.head? → B1 (t2 ++ rest).head?) : Reads B2 (t1 ++ t2) (k1 ++ k2) := by
  intro rest hr
  rw [List.append_assoc, h1 (t2 ++ rest) (hb rest hr), h2 rest hr]
  cases lex rest <;> simp

/-- the usual case: the second piece is not empty and starts with an acceptable byte -/
theorem Reads.append_cons {B1 B2 : Bnd} {t1 : Bytes} {c : UInt8} {t2 : Bytes} {k1 k2 : List Tok} (h1 : Reads B1 t1 k1)
    (h2 : Reads B2 (c :: t2) k2) (hb : B1 (some c)) : Reads B2 (t1 ++ c :: t2) (k1 ++ k2) :=
  Reads.append h1 h2 (fun _ _ => by simpa using hb)

theorem Reads.weaken {B1 B2 : Bnd} {t : Bytes} {k : List Tok} (h : Reads B1 t k) (hb : ∀ o, B2 o → B1 o) : Reads B2 t k :=
  fun rest hr => h rest (hb _ hr)

/-- a single lexer step as a `Reads` fact -/
theorem Reads.of_next {B : Bnd} (text : Bytes) (tok : Option Tok) (hne : text ≠ [])
    (h : ∀ rest, B rest.head? → next (text ++ rest) = some (tok, rest)) : Reads B text (pre tok []) := by
  intro rest hr
  rw [lex_step (text ++ rest) rest tok (h rest hr) (by
    cases text with
    | nil => exact absurd rfl hne
    | cons c t => simp only [List.length_append, List.length_cons]; omega)]
  cases tok <;> cases lex rest <;> simp [pre]


/-- a single step of `next0` on text without NUL as a `Reads` fact -/
theorem Reads.of_next0 {B : Bnd} (text : Bytes) (tok : Option Tok) (hne : text ≠ []) (h0 : (0 : UInt8) ∉ text)
    (h : ∀ rest, B rest.head? → next0 (text ++ rest) = some (tok, rest)) : Reads B text (pre tok []) :=
  Reads.of_next text tok hne (fun rest hr => next_of_next0 text rest tok (h rest hr) h0)

/-! ### boundary conditions -/

def wordB : Bnd := fun o => ∀ c, o = some c → isIdentCont c = false ∧ c ≠ 39 ∧ c ≠ 38
def identB : Bnd := fun o => ∀ c, o = some c → isIdentCont c = false ∧ c ≠ 39 ∧ c ≠ 38 ∧ c ≠ 34
def strB : Bnd := fun o => ∀ c, o = some c → c ≠ 39 ∧ isSpace c = false ∧ c ≠ 45
def numB : Bnd := fun o => ∀ c, o = some c → isIdentCont c = false ∧ c ≠ 46

/-! ### pieces -/

theorem reads_space (c : UInt8) (h : isSpace c = true) : Reads anyB [c] [] :=
  Reads.of_next0 [c] none (by simp) (by simp; intro e; subst e; simp [isSpace] at h) (fun rest _ => by simp [next0, h])

theorem self_facts (c : UInt8) (h : isSelfOnly c = true) (h46 : c ≠ 46) :
    isSpace c = false ∧ c ≠ 45 ∧ c ≠ 47 ∧ c ≠ 39 ∧ c ≠ 34 ∧ c ≠ 36 ∧ isDigit c = false ∧ isIdentStart c = false := by
  byte_omega

/-- `, ( ) [ ] ; :` are tokens of their own whatever follows -/
theorem reads_self (c : UInt8) (h : isSelfOnly c = true) (h46 : c ≠ 46) : Reads anyB [c] [.op [c]] := by
  obtain ⟨h1, h2, h3, h4, h5, h6, h7, h8⟩ := self_facts c h h46
  exact Reads.of_next0 [c] (some (.op [c])) (by simp) (by simp; intro e; subst e; simp [isSelfOnly] at h) (fun rest _ => by
    simp [next0, h1, h2, h3, h4, h5, h6, h7, h8, h46, h])

theorem reads_word (c : UInt8) (w : Bytes) (hc : isIdentStart c = true) (hw : ∀ d ∈ w, isIdentCont d = true) :
    Reads wordB (c :: w) [.word (fold (c :: w))] :=
  Reads.of_next (c :: w) (some (.word (fold (c :: w)))) (by simp) (fun rest hr => next_word c w rest hc hw hr)

theorem reads_quoteLiteral (s : Bytes) : Reads strB (quoteLiteral s) [.str (cstr s)] :=
  Reads.of_next _ (some (.str (cstr s))) (by rw [quoteLiteral_eq]; unfold quoteLit; split <;> simp) (fun rest hr => next_quoteLiteral s rest hr)

theorem quoteIdent_ne_nil (n : Bytes) (hn : n ≠ []) : quoteIdent n ≠ [] := by
  unfold quoteIdent; split
  · simp
  · exact hn

theorem reads_quoteIdent (n : Bytes) (hn : n ≠ []) (h0 : (0 : UInt8) ∉ n) : Reads identB (quoteIdent n) [identTok n] :=
  Reads.of_next _ (some (identTok n)) (quoteIdent_ne_nil n hn) (fun rest hr => (next_quoteIdent' n rest hn h0 hr).1)

theorem isName_identTok (n : Bytes) (hn : n ≠ []) : Spec.SqlExport.isName n (identTok n) = true :=
  (next0_quoteIdent' n [] hn (by intro c hc; simp at hc)).2


/-! ### comment lines -/

def nlB : Bnd := fun o => ∀ c, o = some c → isNewline c = true

theorem reads_commentLine (text : Bytes) (ht : ∀ c ∈ text, isNewline c = false) (h0 : (0 : UInt8) ∉ text) :
    Reads anyB (45 :: 45 :: text ++ [10]) [.comment text] := by
  have h1 : Reads nlB (45 :: 45 :: text) [.comment text] :=
    Reads.of_next _ (some (.comment text)) (by simp) (fun rest hr => by
      have := next_comment text rest ht h0 hr
      simpa using this)
  have h2 := reads_space 10 (by decide)
  have := Reads.append_cons h1 h2 (by intro c hc; simp at hc; subst hc; decide)
  simpa using this

/-! ### numbers -/

theorem isDigit_of_isDig (c : UInt8) (h : ExportDec.IsDig c) : isDigit c = true := by
  simp only [isDigit, Bool.and_eq_true, decide_eq_true_eq, UInt8.le_iff_toNat_le]
  exact h

theorem digit_facts (c : UInt8) (h : isDigit c = true) :
    isSpace c = false ∧ c ≠ 45 ∧ c ≠ 47 ∧ c ≠ 39 ∧ c ≠ 34 ∧ c ≠ 36 ∧ isOpChar c = false ∧ isIdentCont c = true := by
  byte_omega

theorem notIdentCont_facts (c : UInt8) (h : isIdentCont c = false) : isDigit c = false ∧ c ≠ 101 ∧ c ≠ 69 := by
  byte_omega

theorem scanNumber_digits (ds rest : Bytes) (hd : ∀ c ∈ ds, isDigit c = true) (hr : numB rest.head?) :
    scanNumber (ds ++ rest) = (ds, rest) := by
  have hspan : spanB isDigit (ds ++ rest) = (ds, rest) :=
    spanB_all isDigit ds rest hd (fun c hc => (notIdentCont_facts c (hr c hc).1).1)
  unfold scanNumber
  simp only [hspan]
  cases rest with
  | nil => simp
  | cons c t =>
    have h1 := (hr c rfl).2
    have h2 := notIdentCont_facts c (hr c rfl).1
    simp [h1, h2.2.1, h2.2.2]

theorem reads_digits (ds : Bytes) (hne : ds ≠ []) (hd : ∀ c ∈ ds, isDigit c = true) : Reads numB ds [.num ds] := by
  apply Reads.of_next0 ds (some (.num ds)) hne (by
    intro h; have := hd 0 h; simp [isDigit] at this)
  intro rest hr
  cases ds with
  | nil => exact absurd rfl hne
  | cons d ds' =>
    obtain ⟨h1, h2, h3, h4, h5, h6, _, _⟩ := digit_facts d (hd d (by simp))
    have hsn := scanNumber_digits (d :: ds') rest hd hr
    simp only [List.cons_append] at hsn ⊢
    simp only [next0, h1, h2, h3, h4, h5, h6, hd d (by simp), false_and, if_false, Bool.false_eq_true, true_or, if_true, hsn]
    have : ¬ (rest.head?.any isIdentCont = true) := by
      cases rest with
      | nil => simp
      | cons c t => simp [(hr c rfl).1]
    simp [this]

def digitB : Bnd := fun o => ∃ c, o = some c ∧ isDigit c = true

/-- a minus sign directly before a digit is the operator `-` -/
theorem reads_minus : Reads digitB [45] [.op [45]] := by
  apply Reads.of_next0 [45] (some (.op [45])) (by simp) (by decide)
  intro rest hr
  obtain ⟨d, hd, hdig⟩ := hr
  cases rest with
  | nil => simp at hd
  | cons d' t =>
    simp at hd; subst hd
    obtain ⟨h1, h2, h3, h4, h5, h6, h7, _⟩ := digit_facts d' hdig
    have hop : opRun (45 :: d' :: t) = ([45], d' :: t) := by
      rw [opRun]
      have : opRun (d' :: t) = ([], d' :: t) := by
        cases t with
        | nil => simp [opRun, h7]
        | cons e t' => simp [opRun, h7]
      simp [this, h2, isOpChar]
    simp [next0, isSpace, h2, isDigit, isIdentStart, isUpper, isLower, isSelfOnly, isOpChar, scanOp, hop]

def intToks (i : Int) : List Tok := if i < 0 then [.op [45], .num (dec i.natAbs)] else [.num (dec i.natAbs)]

theorem reads_decInt (i : Int) : Reads numB (decInt i) (intToks i) := by
  obtain ⟨h1, h2, _⟩ := ExportDec.dec_props i.natAbs
  have hd : ∀ c ∈ dec i.natAbs, isDigit c = true := fun c hc => isDigit_of_isDig c (h2 c hc)
  have hdigits := reads_digits (dec i.natAbs) h1 hd
  unfold decInt intToks
  by_cases hi : i < 0
  · simp only [hi, if_true]
    cases hdec : dec i.natAbs with
    | nil => exact absurd hdec h1
    | cons d ds =>
      rw [hdec] at hdigits hd
      have := Reads.append_cons reads_minus hdigits ⟨d, rfl, hd d (by simp)⟩
      simpa using this
  · simp only [hi, if_false]; exact hdigits

end PgVerif.Proofs.SqlCompose
