/-
  Composition machinery for C13_sql: reading a concatenation of pieces token by token.
  `Reads B text toks` — whatever follows `text` (provided its first byte satisfies the boundary condition `B`), the lexer
  reads `text` as exactly the tokens `toks` and continues with what follows.
-/
import PgVerif.Proofs.SqlLex
import PgVerif.Proofs.ExportDec
namespace PgVerif.Proofs.SqlCompose
open PgVerif PgVerif.Export PgVerif.Spec.SqlLex PgVerif.Model.Export PgVerif.Proofs.SqlLex

def pre (tok : Option Tok) (ts : List Tok) : List Tok := match tok with | some k => k :: ts | none => ts

/-- more fuel than the length of the input changes nothing -/
theorem lexF_fuel (f : Nat) : ∀ bs : Bytes, bs.length < f → lexF (f + 1) bs = lexF f bs := by
  induction f with
  | zero => intro bs h; omega
  | succ f ih =>
    intro bs h
    cases bs with
    | nil => simp [lexF]
    | cons c t =>
      rw [lexF, lexF]
      cases hn : next (c :: t) with
      | none => rfl
      | some p =>
        obtain ⟨tok, rest⟩ := p
        simp only []
        by_cases hl : rest.length < (c :: t).length
        · rw [if_pos hl, if_pos hl, ih rest (by simp only [List.length_cons] at h hl; omega)]
        · rw [if_neg hl, if_neg hl]

theorem lexF_eq_lex (f : Nat) (bs : Bytes) (h : bs.length < f) : lexF f bs = lex bs := by
  unfold lex
  induction f with
  | zero => omega
  | succ f ih =>
    by_cases h' : bs.length < f
    · rw [lexF_fuel f bs h', ih h']
    · have : f = bs.length := by omega
      subst this; rfl

/-- one step of `lex` -/
theorem lex_step (bs rest : Bytes) (tok : Option Tok) (hn : next bs = some (tok, rest)) (hl : rest.length < bs.length) :
    lex bs = (lex rest).map (pre tok) := by
  cases bs with
  | nil => simp at hl
  | cons c t =>
    have : lex (c :: t) = lexF ((c :: t).length + 1) (c :: t) := rfl
    rw [this, lexF, hn]
    simp only []
    rw [if_pos hl, lexF_eq_lex _ rest (by omega)]
    cases tok <;> rfl

/-- boundary conditions are predicates on the first byte of what follows (`none` = end of input) -/
abbrev Bnd := Option UInt8 → Prop

def Reads (B : Bnd) (text : Bytes) (toks : List Tok) : Prop :=
  ∀ rest, B rest.head? → lex (text ++ rest) = (lex rest).map (toks ++ ·)

def anyB : Bnd := fun _ => True

theorem Reads.nil (B : Bnd) : Reads B [] [] := by
  intro rest _; simp

/-- sequencing: the second piece must start with a byte the first piece accepts as its boundary -/
theorem Reads.append {B1 B2 : Bnd} {t1 t2 : Bytes} {k1 k2 : List Tok} (h1 : Reads B1 t1 k1) (h2 : Reads B2 t2 k2)
    (hb : ∀ rest : Bytes, B2 rest.head? → B1 (t2 ++ rest).head?) : Reads B2 (t1 ++ t2) (k1 ++ k2) := by
  intro rest hr
  rw [List.append_assoc, h1 (t2 ++ rest) (hb rest hr), h2 rest hr]
  cases lex rest <;> simp

/-- the usual case: the second piece is not empty and starts with an acceptable byte -/
theorem Reads.append_cons {B1 B2 : Bnd} {t1 : Bytes} {c : UInt8} {t2 : Bytes} {k1 k2 : List Tok} (h1 : Reads B1 t1 k1)
    (h2 : Reads B2 (c :: t2) k2) (hb : B1 (some c)) : Reads B2 (t1 ++ c :: t2) (k1 ++ k2) :=
  Reads.append h1 h2 (fun _ _ => by simpa using hb)

theorem Reads.weaken {B1 B2 : Bnd} {t : Bytes} {k : List Tok} (h : Reads B1 t k) (hb : ∀ o, B2 o → B1 o) : Reads B2 t k :=
  fun rest hr => h rest (hb _ hr)

/-- a single lexer step as a `Reads` fact -/
theorem Reads.of_next {B : Bnd} (text : Bytes) (tok : Option Tok) (hne : text ≠ [])
    (h : ∀ rest, B rest.head? → next (text ++ rest) = some (tok, rest)) : Reads B text (pre tok []) := by
  intro rest hr
  rw [lex_step (text ++ rest) rest tok (h rest hr) (by
    cases text with
    | nil => exact absurd rfl hne
    | cons c t => simp only [List.length_append, List.length_cons]; omega)]
  cases tok <;> cases lex rest <;> simp [pre]

end PgVerif.Proofs.SqlCompose
