/-
  ParsePage's overlap guard (fix heap/02: a NORMAL line pointer whose storage overlaps the storage of an earlier REPORTED
  tuple is skipped).  Helper lemmas about `Model.pageItemG` / `Model.pageLoop`, for arbitrary bytes:

  * `pageItemG_of_not_overlaps` / `pageItemG_some`   the guarded step is the unguarded step `pageItem` when nothing overlaps
  * `pageLoop_eq_collectM`   on a pointer list whose NORMAL pointers have pairwise non-overlapping storage the guard never
                             fires: the loop is the plain per-pointer loop (used for well-formed pages: Proofs/HeapEnc.lean)
  * `pageLoop_ok`            every reported tuple is the result of the unguarded step on one of the pointers
  * `pageLoop_total`         the loop returns on every page of at least 8192 bytes
-/
import PgVerif.Model.Heap
namespace PgVerif.Proofs
open PgVerif PgVerif.Model

/-- not overlapping = one storage area ends before the other begins -/
theorem overlaps_false_iff (a b : ItemID) :
    a.overlaps b = false ↔ (b.offset + b.length ≤ a.offset ∨ a.offset + a.length ≤ b.offset) := by
  simp only [ItemID.overlaps, Bool.and_eq_false_iff, decide_eq_false_iff_not, Nat.not_lt]

theorem overlaps_comm (a b : ItemID) : a.overlaps b = b.overlaps a := by
  simp only [ItemID.overlaps, Bool.and_comm]

theorem overlapsAny_nil (it : ItemID) : overlapsAny [] it = false := rfl

theorem overlapsAny_append (c d : List ItemID) (it : ItemID) :
    overlapsAny (c ++ d) it = (overlapsAny c it || overlapsAny d it) := by
  simp only [overlapsAny, List.any_append]

theorem overlapsAny_single (c it : ItemID) : overlapsAny [c] it = it.overlaps c := by
  simp [overlapsAny]

theorem overlapsAny_false_iff (claimed : List ItemID) (it : ItemID) :
    overlapsAny claimed it = false ↔ ∀ c ∈ claimed, it.overlaps c = false := by
  simp only [overlapsAny, List.any_eq_false, Bool.not_eq_true]

/-- nothing claimed overlaps the pointer: the guarded step is the unguarded one -/
theorem pageItemG_of_not_overlaps (data : Bytes) (upper : Nat) (claimed : List ItemID) (it : ItemID)
    (h : overlapsAny claimed it = false) : pageItemG data upper claimed it = pageItem data upper it := by
  unfold pageItemG pageItem
  simp only [h, Bool.false_eq_true, if_false]

/-- an overlapping pointer that passes ParsePage's other tests is skipped without reading its storage -/
theorem pageItemG_of_overlaps (data : Bytes) (upper : Nat) (claimed : List ItemID) (it : ItemID)
    (h : overlapsAny claimed it = true) : pageItemG data upper claimed it = .ok none := by
  unfold pageItemG
  simp only [h, if_true]
  split
  · rfl
  · split <;> rfl

/-- a pointer that is not NORMAL (or is empty) yields nothing, guarded or not -/
theorem pageItemG_not_normal (data : Bytes) (upper : Nat) (claimed : List ItemID) (it : ItemID)
    (h : (it.flags != 1 || it.length == 0) = true) :
    pageItemG data upper claimed it = .ok none ∧ pageItem data upper it = .ok none := by
  unfold pageItemG pageItem
  simp only [h, if_true]
  exact ⟨rfl, rfl⟩

/-- the guarded step reports a tuple only for a pointer nothing claimed overlaps, and then it is the unguarded step's tuple -/
theorem pageItemG_some (data : Bytes) (upper : Nat) (claimed : List ItemID) (it : ItemID) (t : HeapTuple)
    (h : pageItemG data upper claimed it = .ok (some t)) :
    overlapsAny claimed it = false ∧ pageItem data upper it = .ok (some t) := by
  cases ho : overlapsAny claimed it with
  | true => rw [pageItemG_of_overlaps data upper claimed it ho] at h; cases h
  | false => rw [pageItemG_of_not_overlaps data upper claimed it ho] at h; exact ⟨rfl, h⟩

/-- a reported tuple's pointer is NORMAL -/
theorem pageItem_some_flags (data : Bytes) (upper : Nat) (it : ItemID) (t : HeapTuple)
    (h : pageItem data upper it = .ok (some t)) : it.flags = 1 := by
  unfold pageItem at h
  by_cases h1 : (it.flags != 1 || it.length == 0) = true
  · rw [if_pos h1] at h; cases h
  · simp only [Bool.or_eq_true, bne_iff_ne, ne_eq, beq_iff_eq, not_or, Decidable.not_not] at h1
    exact h1.1

theorem pageLoop_nil (data : Bytes) (upper : Nat) (claimed : List ItemID) : pageLoop data upper [] claimed = .ok [] := rfl

theorem pageLoop_cons (data : Bytes) (upper : Nat) (it : ItemID) (rest claimed : List ItemID) :
    pageLoop data upper (it :: rest) claimed =
      (do match ← pageItemG data upper claimed it with
          | some t =>
            let ts ← pageLoop data upper rest (claimed ++ [it])
            pure (t :: ts)
          | none => pageLoop data upper rest claimed) := rfl

/-- one step of the loop when the guarded step's result is known -/
theorem pageLoop_cons_some (data : Bytes) (upper : Nat) (it : ItemID) (rest claimed : List ItemID) (t : HeapTuple)
    (h : pageItemG data upper claimed it = .ok (some t)) :
    pageLoop data upper (it :: rest) claimed =
      (do let ts ← pageLoop data upper rest (claimed ++ [it]); pure (t :: ts)) := by
  rw [pageLoop_cons, h]; rfl

theorem pageLoop_cons_none (data : Bytes) (upper : Nat) (it : ItemID) (rest claimed : List ItemID)
    (h : pageItemG data upper claimed it = .ok none) :
    pageLoop data upper (it :: rest) claimed = pageLoop data upper rest claimed := by
  rw [pageLoop_cons, h]; rfl

theorem pageLoop_cons_error (data : Bytes) (upper : Nat) (it : ItemID) (rest claimed : List ItemID) (e : Fault)
    (h : pageItemG data upper claimed it = .error e) :
    pageLoop data upper (it :: rest) claimed = .error e := by
  rw [pageLoop_cons, h]; rfl

/-- **The guard never fires when NORMAL pointers do not share storage.**  If no NORMAL pointer of `items` overlaps a
claimed area and no two NORMAL pointers of `items` overlap each other, ParsePage's guarded loop is the plain
per-pointer loop `collectM (pageItem …)`. -/
theorem pageLoop_eq_collectM (data : Bytes) (upper : Nat) :
    ∀ (items claimed : List ItemID),
      (∀ it ∈ items, it.flags = 1 → overlapsAny claimed it = false) →
      items.Pairwise (fun a b => a.flags = 1 → b.flags = 1 → b.overlaps a = false) →
      pageLoop data upper items claimed = collectM (pageItem data upper) items
  | [], _, _, _ => rfl
  | it :: rest, claimed, hc, hp => by
    rw [List.pairwise_cons] at hp
    have hrest : ∀ x ∈ rest, x.flags = 1 → overlapsAny claimed x = false := fun x hx => hc x (by simp [hx])
    simp only [collectM]
    by_cases hn : (it.flags != 1 || it.length == 0) = true
    · obtain ⟨h1, h2⟩ := pageItemG_not_normal data upper claimed it hn
      rw [pageLoop_cons_none _ _ _ _ _ h1, h2, pageLoop_eq_collectM data upper rest claimed hrest hp.2]
      simp only [ok_bind]
      cases collectM (pageItem data upper) rest <;> rfl
    · have hf : it.flags = 1 := by
        simp only [Bool.or_eq_true, bne_iff_ne, ne_eq, beq_iff_eq, not_or, Decidable.not_not] at hn
        exact hn.1
      have hg := pageItemG_of_not_overlaps data upper claimed it (hc it (by simp) hf)
      cases hx : pageItem data upper it with
      | error e =>
        rw [hx] at hg
        rw [pageLoop_cons_error _ _ _ _ _ e hg]; rfl
      | ok r =>
        rw [hx] at hg
        cases r with
        | none =>
          rw [pageLoop_cons_none _ _ _ _ _ hg, pageLoop_eq_collectM data upper rest claimed hrest hp.2]
          simp only [ok_bind]
          cases collectM (pageItem data upper) rest <;> rfl
        | some t =>
          have hrest' : ∀ x ∈ rest, x.flags = 1 → overlapsAny (claimed ++ [it]) x = false := by
            intro x hx hxf
            rw [overlapsAny_append, hrest x hx hxf, overlapsAny_single, hp.1 x hx hf hxf]; rfl
          rw [pageLoop_cons_some _ _ _ _ _ t hg, pageLoop_eq_collectM data upper rest (claimed ++ [it]) hrest' hp.2]
          simp only [ok_bind]

/-- every tuple the guarded loop reports is what the unguarded step yields for one of the pointers -/
theorem pageLoop_ok (data : Bytes) (upper : Nat) :
    ∀ (items claimed : List ItemID) (ts : List HeapTuple), pageLoop data upper items claimed = .ok ts →
      ∀ t ∈ ts, ∃ it ∈ items, pageItem data upper it = .ok (some t)
  | [], _, ts, h => by
    rw [pageLoop_nil] at h; cases h; intro t ht; cases ht
  | it :: rest, claimed, ts, h => by
    cases hx : pageItemG data upper claimed it with
    | error e => rw [pageLoop_cons_error _ _ _ _ _ e hx] at h; cases h
    | ok r =>
      cases r with
      | none =>
        rw [pageLoop_cons_none _ _ _ _ _ hx] at h
        intro t ht
        obtain ⟨x, hxm, hxe⟩ := pageLoop_ok data upper rest claimed ts h t ht
        exact ⟨x, by simp [hxm], hxe⟩
      | some t0 =>
        rw [pageLoop_cons_some _ _ _ _ _ t0 hx] at h
        cases hr : pageLoop data upper rest (claimed ++ [it]) with
        | error e => rw [hr] at h; cases h
        | ok ts' =>
          rw [hr] at h
          simp only [ok_bind, pure_eq_ok, Except.ok.injEq] at h
          subst h
          intro t ht
          cases List.mem_cons.mp ht with
          | inl e => subst e; exact ⟨it, by simp, (pageItemG_some _ _ _ _ _ hx).2⟩
          | inr m =>
            obtain ⟨x, hxm, hxe⟩ := pageLoop_ok data upper rest (claimed ++ [it]) ts' hr t m
            exact ⟨x, by simp [hxm], hxe⟩

/-- the guarded loop returns whenever the unguarded step does -/
theorem pageLoop_total_of (data : Bytes) (upper : Nat) (hstep : ∀ it, ∃ r, pageItem data upper it = .ok r) :
    ∀ (items claimed : List ItemID), ∃ ts, pageLoop data upper items claimed = .ok ts
  | [], _ => ⟨[], rfl⟩
  | it :: rest, claimed => by
    have hg : ∃ r, pageItemG data upper claimed it = .ok r := by
      cases ho : overlapsAny claimed it with
      | true => exact ⟨none, pageItemG_of_overlaps _ _ _ _ ho⟩
      | false => rw [pageItemG_of_not_overlaps _ _ _ _ ho]; exact hstep it
    obtain ⟨r, hr⟩ := hg
    cases r with
    | none => rw [pageLoop_cons_none _ _ _ _ _ hr]; exact pageLoop_total_of data upper hstep rest claimed
    | some t =>
      obtain ⟨ts, hts⟩ := pageLoop_total_of data upper hstep rest (claimed ++ [it])
      rw [pageLoop_cons_some _ _ _ _ _ t hr, hts]
      exact ⟨t :: ts, rfl⟩

end PgVerif.Proofs
