/-
  Helper lemmas for C01: ParsePGClass on the live pg_class rows of a well-formed database, and the link between
  the tool's three filters and the property's "ordinary user table that passes the filters".
-/
import PgVerif.Proofs.ClusterTables
namespace PgVerif.Proofs.Cluster
open PgVerif PgVerif.Model List
open PgVerif.Spec (TableDump DatabaseDump Options ClassRow)

theorem classStep_eq (m : List (Nat × TableInfo)) (row : Row) :
    classStep m row = if (infoOfRow row).filenode > 0 then mapPut m (infoOfRow row).filenode (infoOfRow row) else m := rfl

def nzInfos (l : List TableInfo) : List TableInfo := l.filter fun i => decide (i.filenode > 0)

theorem nzInfos_cons_pos (i : TableInfo) (l : List TableInfo) (h : i.filenode > 0) : nzInfos (i :: l) = i :: nzInfos l := by
  unfold nzInfos; rw [filter_cons]; simp [h]

theorem nzInfos_cons_neg (i : TableInfo) (l : List TableInfo) (h : ¬ i.filenode > 0) : nzInfos (i :: l) = nzInfos l := by
  unfold nzInfos; rw [filter_cons]; simp [h]

/-- with pairwise distinct non-zero filenodes the map is just the list of entries, in row order -/
theorem foldl_classStep_distinct (rows : List Row) (acc : List (Nat × TableInfo))
    (h : (acc.map (·.1) ++ (nzInfos (rows.map infoOfRow)).map (·.filenode)).Nodup) :
    rows.foldl classStep acc = acc ++ (nzInfos (rows.map infoOfRow)).map (fun i => (i.filenode, i)) := by
  induction rows generalizing acc with
  | nil => simp [nzInfos]
  | cons row rows ih =>
    rw [foldl_cons, classStep_eq, map_cons]
    by_cases hfn : (infoOfRow row).filenode > 0
    · rw [map_cons, nzInfos_cons_pos _ _ hfn] at h
      rw [nzInfos_cons_pos _ _ hfn, if_pos hfn]
      have habs : (infoOfRow row).filenode ∉ acc.map (·.1) := by
        intro hm
        exact (nodup_append.mp h).2.2 _ hm _ (by simp) rfl
      rw [mapPut_absent _ _ _ habs, ih]
      · simp
      · simpa [List.append_assoc] using h
    · rw [map_cons, nzInfos_cons_neg _ _ hfn] at h
      rw [nzInfos_cons_neg _ _ hfn, if_neg hfn]
      exact ih acc h

theorem parsePGClass_live (rr : RowReader) (cd : Bytes) (rows : List Row) (live : List ClassRow)
    (hr : rr cd schemaPGClass true = .ok rows) (hrows : rows.map infoOfRow = live.map infoOfRel)
    (hnd : ((live.filter (·.filenode != 0)).map (·.filenode)).Nodup) :
    ∃ tables, parsePGClass rr cd = .ok tables ∧
      tables.map (·.2) = (live.filter (·.filenode != 0)).map infoOfRel := by
  refine ⟨_, by simp only [parsePGClass, hr, ok_bind, pure_eq_ok]; rfl, ?_⟩
  have hfilter : nzInfos (rows.map infoOfRow) = (live.filter (·.filenode != 0)).map infoOfRel := by
    unfold nzInfos
    rw [hrows, filter_map]
    congr 1
    apply filter_congr
    intro r _
    simp only [Function.comp, infoOfRel]
    by_cases hz : r.filenode = 0
    · simp [hz]
    · simp [hz, Nat.pos_iff_ne_zero]
  rw [foldl_classStep_distinct rows [] (by
    simp only [map_nil, nil_append, hfilter, map_map]
    exact hnd)]
  simp only [nil_append, hfilter, map_map]
  apply map_congr_left
  intro r _
  rfl

/-- the tool's three `continue` filters on a TableInfo that came from a pg_class row with storage = the property's
"ordinary user table passing the system-table and name filters" -/
theorem keepTable_selected (o : Options) (r : ClassRow) (hk : r.kind < 256) (hf : r.filenode ≠ 0)
    (ha : o.tableFilter = [] ∨ (GoCase.lowerStable o.tableFilter = true ∧ GoCase.lowerStable r.name = true)) :
    keepTable o (infoOfRel r) = Spec.selectedRel o r := by
  unfold keepTable Spec.selectedRel infoOfRel
  have hlow : (o.tableFilter != [] && !Spec.containsB (GoCase.goToLower r.name) (GoCase.goToLower o.tableFilter)) =
      (o.tableFilter != [] && !Spec.containsB (Spec.lowerB r.name) (Spec.lowerB o.tableFilter)) := by
    rcases ha with h0 | ⟨h1, h2⟩
    · rw [h0]; rfl
    · rw [GoCase.lowerStable_eq h1, GoCase.lowerStable_eq h2]
  simp only [hlow]
  have hkind : (([UInt8.ofNat r.kind] : Bytes) != [114] && ([UInt8.ofNat r.kind] : Bytes) != []) = !(r.kind == 114) := by
    by_cases h114 : r.kind = 114
    · rw [h114]; decide
    · have hne : UInt8.ofNat r.kind ≠ 114 := by
        intro he
        have h2 : (UInt8.ofNat r.kind).toNat = (114 : UInt8).toNat := by rw [he]
        rw [UInt8.toNat_ofNat'] at h2
        have h3 : (114 : UInt8).toNat = 114 := rfl
        omega
      have h1 : (([UInt8.ofNat r.kind] : Bytes) != [114]) = true := by
        rw [bne_iff_ne]; intro h; injection h with h; exact hne h
      have h2 : (([UInt8.ofNat r.kind] : Bytes) != []) = true := by
        rw [bne_iff_ne]; intro h; cases h
      have h3 : (r.kind == 114) = false := by simpa using h114
      rw [h1, h2, h3]; rfl
  have hfn : (r.filenode != 0) = true := by simpa using hf
  have hte : (!(o.tableFilter != [])) = o.tableFilter.isEmpty := by
    cases o.tableFilter <;> rfl
  simp only [hkind, hfn, Bool.not_not, Bool.and_true, Bool.not_and, hte]

/-- filtering commutes with the insertion sort when the keys are distinct -/
theorem sortBy_filter {α} (key : α → Nat) (p : α → Bool) (l : List α)
    (hinj : ∀ a ∈ l, ∀ b ∈ l, key a = key b → a = b) : (sortBy key l).filter p = sortBy key (l.filter p) := by
  apply sorted_perm_eq key
  · exact ((sortBy_perm key l).filter p).trans (sortBy_perm key (l.filter p)).symm
  · exact (sortBy_sorted key l).filter p
  · exact sortBy_sorted key _
  · intro a ha b hb
    exact hinj a ((sortBy_perm key l).subset (mem_filter.mp ha).1) b ((sortBy_perm key l).subset (mem_filter.mp hb).1)

theorem nodup_map_inj {α} (key : α → Nat) (l : List α) (h : (l.map key).Nodup) :
    ∀ a ∈ l, ∀ b ∈ l, key a = key b → a = b := by
  induction l with
  | nil => intro a ha; simp at ha
  | cons x xs ih =>
    simp only [map_cons, nodup_cons] at h
    intro a ha b hb hab
    rcases mem_cons.mp ha with ha' | ha' <;> rcases mem_cons.mp hb with hb' | hb'
    · rw [ha', hb']
    · exact absurd (by rw [← ha', hab]; exact mem_map_of_mem hb') h.1
    · exact absurd (by rw [← hb', ← hab]; exact mem_map_of_mem ha') h.1
    · exact ih h.2 a ha' b hb' hab

open PgVerif.Model.GoCase (FilterStable)

theorem filterAscii_at {o : Options} {live : List ClassRow} (h : FilterStable o live) (r : ClassRow) (hr : r ∈ live) :
    o.tableFilter = [] ∨ (GoCase.lowerStable o.tableFilter = true ∧ GoCase.lowerStable r.name = true) := by
  rcases h with h | ⟨h1, h2⟩
  · exact Or.inl h
  · exact Or.inr ⟨h1, h2 r hr⟩

/-- the (oid, name, filenode, kind) of the property's table for a selected pg_class row -/
def relKey (r : ClassRow) : Nat × Bytes × Nat × Bytes := (r.oid, r.name, r.filenode, [114])

/-- **From the live pg_class rows to the dump's table list.**  If the row reader hands ParsePGClass the live rows
of pg_class (as far as oid, relname, relfilenode, relkind go) and the live rows with storage have pairwise distinct
filenodes, then DumpDatabaseFromFiles lists exactly the rows that are ordinary tables (relkind r, relfilenode ≠ 0)
passing the system-table and name filters, each exactly once, in filenode order — for every iteration order of
the table map and every pg_attribute / heap content. -/
theorem dump_tables_of_live (rr : RowReader) (π : MapOrder TableInfo) (hπ : ∀ l, π l ~ l) (cd ad : Bytes)
    (reader : Option FileReader) (o : Options) (rows : List Row) (live : List ClassRow)
    (hr : rr cd schemaPGClass true = .ok rows) (hrows : rows.map infoOfRow = live.map infoOfRel)
    (hnd : ((live.filter (·.filenode != 0)).map (·.filenode)).Nodup) (hkind : ∀ r ∈ live, r.kind < 256)
    (hasc : FilterStable o live)
    (ts : List TableDump) (h : dumpDatabaseFromFiles rr π cd ad reader o = .ok ts) :
    ts.map tableKey = (sortBy ClassRow.filenode (live.filter (Spec.selectedRel o))).map relKey := by
  obtain ⟨tables, ht, hvals⟩ := parsePGClass_live rr cd rows live hr hrows hnd
  rw [dump_tables rr π hπ cd ad reader o tables ht ts h, hvals, sortByFilenode_eq,
    sortBy_map infoOfRel ClassRow.filenode TableInfo.filenode (fun _ => rfl), filter_map, map_map]
  have hinj := nodup_map_inj ClassRow.filenode _ hnd
  have hmemNZ : ∀ r ∈ sortBy ClassRow.filenode (live.filter (·.filenode != 0)), r ∈ live ∧ r.filenode ≠ 0 := by
    intro r hr'
    have := mem_filter.mp ((sortBy_perm _ _).subset hr')
    exact ⟨this.1, by simpa using this.2⟩
  have hf : (sortBy ClassRow.filenode (live.filter (·.filenode != 0))).filter (keepTable o ∘ infoOfRel) =
      (sortBy ClassRow.filenode (live.filter (·.filenode != 0))).filter (Spec.selectedRel o) := by
    apply filter_congr
    intro r hr'
    obtain ⟨h1, h2⟩ := hmemNZ r hr'
    exact keepTable_selected o r (hkind r h1) h2 (filterAscii_at hasc r h1)
  rw [hf, sortBy_filter ClassRow.filenode (Spec.selectedRel o) _ hinj, filter_filter]
  have hsel : (live.filter fun r => Spec.selectedRel o r && (r.filenode != 0)) = live.filter (Spec.selectedRel o) := by
    apply filter_congr
    intro r _
    unfold Spec.selectedRel
    cases (r.filenode != 0) <;> simp
  rw [hsel]
  apply map_congr_left
  intro r hr'
  have hs := (mem_filter.mp ((sortBy_perm _ _).subset hr')).2
  have h114 : r.kind = 114 := by
    unfold Spec.selectedRel at hs
    simp only [Bool.and_eq_true, beq_iff_eq] at hs
    exact hs.1.1.1
  simp only [Function.comp, infoKey, infoOfRel, relKey, h114]
  rfl

/-- the same table list, read off the specification's expected dump -/
theorem expectedDb_keys (val : Spec.Val) (o : Options) (db : Spec.DbRow) (d : Spec.DbContent) :
    (Spec.expectedDb val o db d).tables.map tableKey =
      (sortBy ClassRow.filenode (d.cls.live.filter (Spec.selectedRel o))).map relKey := by
  unfold Spec.expectedDb
  simp only
  rw [sortTables_eq, sortBy_map (Spec.expectedTable val d o) ClassRow.filenode TableDump.filenode (fun _ => rfl), map_map]
  apply map_congr_left
  intro r _
  rfl

end PgVerif.Proofs.Cluster
