/-
  Helper lemmas for area `cluster`: insertion sorts used by the model (keys of the table map, tables by
  filenode) are sorted permutations, hence invariant under any rearrangement of their input (the core of C11,
  after DESIGN.md B.10), and `collectM` facts.
-/
import PgVerif.Model.Remote
import PgVerif.Proofs.Heap
import PgVerif.Proofs.HeapFile
namespace PgVerif.Proofs.Cluster
open PgVerif PgVerif.Model List

/-! ### a generic insertion sort by a natural-number key -/

def insertBy {α} (key : α → Nat) (a : α) : List α → List α
  | [] => [a]
  | b :: bs => if key a ≤ key b then a :: b :: bs else b :: insertBy key a bs

def sortBy {α} (key : α → Nat) (l : List α) : List α := l.foldr (insertBy key) []

theorem insertBy_perm {α} (key : α → Nat) (a : α) (l : List α) : insertBy key a l ~ a :: l := by
  induction l with
  | nil => exact Perm.refl _
  | cons b bs ih =>
    unfold insertBy
    by_cases h : key a ≤ key b
    · rw [if_pos h]
    · rw [if_neg h]
      exact (Perm.cons b ih).trans (Perm.swap a b bs)

theorem sortBy_perm {α} (key : α → Nat) (l : List α) : sortBy key l ~ l := by
  induction l with
  | nil => exact Perm.refl _
  | cons a l ih =>
    show insertBy key a (sortBy key l) ~ a :: l
    exact (insertBy_perm key a _).trans (Perm.cons a ih)

theorem insertBy_sorted {α} (key : α → Nat) (a : α) (l : List α)
    (h : l.Pairwise fun x y => key x ≤ key y) : (insertBy key a l).Pairwise fun x y => key x ≤ key y := by
  induction l with
  | nil => simp [insertBy]
  | cons b bs ih =>
    unfold insertBy
    have hb := (pairwise_cons.mp h)
    by_cases hab : key a ≤ key b
    · rw [if_pos hab]
      refine pairwise_cons.mpr ⟨?_, h⟩
      intro y hy
      rcases mem_cons.mp hy with rfl | hy
      · exact hab
      · exact Nat.le_trans hab (hb.1 y hy)
    · rw [if_neg hab]
      refine pairwise_cons.mpr ⟨?_, ih hb.2⟩
      intro y hy
      have hy' := (insertBy_perm key a bs).subset hy
      rcases mem_cons.mp hy' with rfl | hy'
      · omega
      · exact hb.1 y hy'

theorem sortBy_sorted {α} (key : α → Nat) (l : List α) : (sortBy key l).Pairwise fun x y => key x ≤ key y := by
  induction l with
  | nil => simp [sortBy]
  | cons a l ih => exact insertBy_sorted key a _ ih

/-- two key-sorted lists that are permutations of each other are equal when the key is injective on them -/
theorem sorted_perm_eq {α} (key : α → Nat) (l₁ l₂ : List α) (hp : l₁ ~ l₂)
    (h1 : l₁.Pairwise fun x y => key x ≤ key y) (h2 : l₂.Pairwise fun x y => key x ≤ key y)
    (hinj : ∀ a ∈ l₁, ∀ b ∈ l₁, key a = key b → a = b) : l₁ = l₂ := by
  apply Perm.eq_of_pairwise (le := fun x y => key x ≤ key y) _ h1 h2 hp
  intro a b ha hb hab hba
  exact hinj a ha b (hp.symm.subset hb) (by omega)

/-- **sorting forgets the input order**: for inputs that are rearrangements of each other and carry pairwise
distinct keys -/
theorem sortBy_perm_invariant {α} (key : α → Nat) (l₁ l₂ : List α) (hp : l₁ ~ l₂)
    (hinj : ∀ a ∈ l₁, ∀ b ∈ l₁, key a = key b → a = b) : sortBy key l₁ = sortBy key l₂ := by
  apply sorted_perm_eq key _ _ ((sortBy_perm key l₁).trans (hp.trans (sortBy_perm key l₂).symm))
    (sortBy_sorted key l₁) (sortBy_sorted key l₂)
  intro a ha b hb
  exact hinj a ((sortBy_perm key l₁).subset ha) b ((sortBy_perm key l₁).subset hb)

theorem sortNat_eq (l : List Nat) : sortNat l = sortBy id l := by
  unfold sortNat sortBy
  congr 1
  funext a l
  induction l with
  | nil => rfl
  | cons b bs ih => simp only [insertNat, insertBy, id, ih]

theorem sortByFilenode_eq (l : List TableInfo) : sortByFilenode l = sortBy (·.filenode) l := by
  unfold sortByFilenode sortBy
  congr 1
  funext a l
  induction l with
  | nil => rfl
  | cons b bs ih => simp only [insertByFilenode, insertBy, ih]

/-- the sorted key list does not depend on the order the keys were collected in (no distinctness needed:
equal keys are equal elements) -/
theorem sortNat_perm_invariant (l₁ l₂ : List Nat) (hp : l₁ ~ l₂) : sortNat l₁ = sortNat l₂ := by
  rw [sortNat_eq, sortNat_eq]
  exact sortBy_perm_invariant id l₁ l₂ hp (fun a _ b _ h => h)

/-! ### collectM -/

theorem collectM_append {α β} (f : α → M (Option β)) (xs ys : List α) (rx ry : List β)
    (hx : collectM f xs = .ok rx) (hy : collectM f ys = .ok ry) : collectM f (xs ++ ys) = .ok (rx ++ ry) := by
  induction xs generalizing rx with
  | nil => simp [collectM] at hx; subst hx; simpa using hy
  | cons x xs ih =>
    simp only [collectM, List.cons_append] at hx ⊢
    cases hfx : f x with
    | error e => simp [hfx] at hx
    | ok r =>
      simp only [hfx, ok_bind] at hx ⊢
      cases hr : collectM f xs with
      | error e => simp [hr] at hx
      | ok rest =>
        simp only [hr, ok_bind, pure_eq_ok] at hx
        rw [ih rest hr]
        simp only [ok_bind, pure_eq_ok]
        injection hx with hx
        subst hx
        cases r <;> rfl

end PgVerif.Proofs.Cluster
