/-
  The page checksum (C19): the model of the repaired `computePageChecksum` (fix 11 of /verif/fixes/block) IS the Spec's
  `pg_checksum_page` on every 8192-byte page (`computePageChecksum_eq_pg`), facts about the Spec function (never 0, does
  not depend on the stored field), the known values on the empty heap page, and — kept as a regression record — the
  pre-fix function (`Orig.computePageChecksum`, the rotate/xor fold of the code before fix 11) with the witness page of
  the finding `C19-checksum-not-postgres` on which it gave 0.
-/
import PgVerif.Spec.PgChecksum
import PgVerif.Model.Checksum
namespace PgVerif.Proofs.PgChecksum
open PgVerif PgVerif.Spec.PgChecksum

/-! ### facts about the Spec function -/

/-- `pg_checksum_page` is never 0 and fits in 16 bits -/
theorem pgChecksumPage_range (page : Bytes) (blkno : Nat) :
    1 ≤ pgChecksumPage page blkno ∧ pgChecksumPage page blkno ≤ 65535 := by
  unfold pgChecksumPage
  omega

/-- overwriting bytes 8..9 does not change the page with the checksum field cleared -/
theorem clearChecksumField_field (page : Bytes) (x y : UInt8) (h : 10 ≤ page.length) :
    clearChecksumField (page.take 8 ++ [x, y] ++ page.drop 10) = clearChecksumField page := by
  unfold clearChecksumField
  have h8 : (page.take 8).length = 8 := by simp only [List.length_take]; omega
  have e1 : (page.take 8 ++ [x, y] ++ page.drop 10).take 8 = page.take 8 := by
    rw [List.append_assoc, List.take_left' h8]
  have e2 : (page.take 8 ++ [x, y] ++ page.drop 10).drop 10 = page.drop 10 := by
    have : (page.take 8 ++ [x, y]).length = 10 := by simp only [List.length_append, h8, List.length_cons, List.length_nil]
    rw [List.drop_left' this]
  rw [e1, e2]

/-- the stored checksum does not enter the computed one -/
theorem pgChecksumPage_field (page : Bytes) (blkno : Nat) (x y : UInt8) (h : 10 ≤ page.length) :
    pgChecksumPage (page.take 8 ++ [x, y] ++ page.drop 10) blkno = pgChecksumPage page blkno := by
  unfold pgChecksumPage
  rw [clearChecksumField_field page x y h]

theorem clearChecksumField_length (page : Bytes) (h : 10 ≤ page.length) :
    (clearChecksumField page).length = page.length := by
  unfold clearChecksumField
  simp only [List.length_append, List.length_take, List.length_drop, List.length_cons, List.length_nil]
  omega

/-- a non-new block whose stored checksum is 0 fails PostgreSQL's verification -/
theorem pageVerdict_stored_zero (page : Bytes) (blkno : Nat)
    (hz : allZero page = false) (hu : pdUpper page ≠ 0) (hs : pdChecksum page = 0) :
    pageVerdict page blkno = some false := by
  unfold pageVerdict
  have h1 := (pgChecksumPage_range page blkno).1
  have : (pdChecksum page == pgChecksumPage page blkno) = false := by
    rw [hs]
    cases hc : pgChecksumPage page blkno with
    | zero => omega
    | succ n => rfl
  simp only [hz, Bool.false_eq_true, if_false, hu, this]

/-! ### the model of the repaired code against the Spec -/

theorem words32_eq (bs : Bytes) : Model.words32 bs = words bs := by
  induction bs using Model.words32.induct with
  | case1 a b c d rest ih => simp only [Model.words32, words, ih]
  | case2 bs h =>
    rw [Model.words32, words]
    · exact h
    · exact h

theorem checksumComp_eq (c v : Nat) : Model.checksumComp c v = comp c v := rfl

theorem baseOffsets_eq : Model.checksumBaseOffsets = checksumBaseOffsets := rfl

/-- the word loop of `pgChecksumBlock` from word number `i` on -/
def stepFrom : Nat → List Nat → List Nat → List Nat
  | _, sums, [] => sums
  | i, sums, w :: ws => stepFrom (i + 1) (Model.pgSumsStep sums (i, w)) ws

theorem foldl_zip_range' (ws : List Nat) : ∀ (i : Nat) (sums : List Nat),
    ((List.range' i ws.length).zip ws).foldl Model.pgSumsStep sums = stepFrom i sums ws := by
  induction ws with
  | nil => intro i sums; rfl
  | cons w ws ih =>
    intro i sums
    simp only [List.length_cons, List.range'_succ, List.zip_cons_cons, List.foldl_cons, stepFrom]
    exact ih _ _

theorem stepFrom_length (ws : List Nat) : ∀ (i : Nat) (sums : List Nat), (stepFrom i sums ws).length = sums.length := by
  induction ws with
  | nil => intro i sums; rfl
  | cons w ws ih =>
    intro i sums
    simp only [stepFrom]
    rw [ih]
    simp only [Model.pgSumsStep, List.length_set]

theorem stepFrom_append (a b : List Nat) : ∀ (i : Nat) (sums : List Nat),
    stepFrom i sums (a ++ b) = stepFrom (i + a.length) (stepFrom i sums a) b := by
  induction a with
  | nil => intro i sums; rfl
  | cons w ws ih =>
    intro i sums
    simp only [List.cons_append, stepFrom, List.length_cons]
    rw [ih]
    have : i + 1 + ws.length = i + (ws.length + 1) := by omega
    rw [this]

/-- inside one row of 32 words: the words `r`, taken from word number `32k + |A|` on, are mixed into the partial sums
`mid` that follow the first `|A|` ones -/
theorem stepFrom_mid (k : Nat) (r : List Nat) : ∀ (mid A B : List Nat), mid.length = r.length → A.length + r.length ≤ 32 →
    stepFrom (32 * k + A.length) (A ++ mid ++ B) r = A ++ List.zipWith comp mid r ++ B := by
  induction r with
  | nil =>
    intro mid A B hm _
    have : mid = [] := List.eq_nil_of_length_eq_zero hm
    subst this
    rfl
  | cons w ws ih =>
    intro mid A B hm hA
    match mid, hm with
    | m :: ms, hm =>
      have hms : ms.length = ws.length := by simpa using hm
      simp only [List.length_cons] at hA
      have hidx : (32 * k + A.length) % 32 = A.length := by omega
      have hstep : Model.pgSumsStep (A ++ m :: ms ++ B) (32 * k + A.length, w) =
          (A ++ [comp m w]) ++ ms ++ B := by
        unfold Model.pgSumsStep
        simp only [hidx]
        have hg : (A ++ m :: ms ++ B).getD A.length 0 = m := by
          simp [List.getD_eq_getElem?_getD, List.append_assoc]
        rw [hg, checksumComp_eq]
        simp [List.append_assoc]
      simp only [stepFrom]
      rw [hstep]
      have := ih ms (A ++ [comp m w]) B hms (by simp only [List.length_append, List.length_cons, List.length_nil]; omega)
      simp only [List.length_append, List.length_cons, List.length_nil] at this
      have e : 32 * k + A.length + 1 = 32 * k + (A.length + (0 + 1)) := by omega
      rw [e, this]
      simp [List.append_assoc]

/-- a whole row: the 32 words of row `k` are mixed into the 32 partial sums, column by column -/
theorem stepFrom_row (k : Nat) (sums row : List Nat) (hs : sums.length = 32) (hr : row.length = 32) :
    stepFrom (32 * k) sums row = round sums row := by
  have := stepFrom_mid k row sums [] [] (by omega) (by simp only [List.length_nil]; omega)
  simpa [round] using this

theorem round_length (sums row : List Nat) (hs : sums.length = 32) (hr : row.length = 32) :
    (round sums row).length = 32 := by
  simp only [round, List.length_zipWith, hs, hr, Nat.min_self]

/-- the word loop over whole rows is the fold of `round` over the rows -/
theorem stepFrom_rows : ∀ (fuel : Nat) (ws : List Nat) (k : Nat) (sums : List Nat), sums.length = 32 →
    ws.length ≤ fuel → ws.length % 32 = 0 → stepFrom (32 * k) sums ws = (rowsFuel fuel ws).foldl round sums := by
  intro fuel
  induction fuel with
  | zero =>
    intro ws k sums _ hf _
    have : ws = [] := List.eq_nil_of_length_eq_zero (by omega)
    subst this
    rfl
  | succ fuel ih =>
    intro ws k sums hs hf hm
    unfold rowsFuel
    by_cases hlt : ws.length < nSums
    · have : ws = [] := List.eq_nil_of_length_eq_zero (by simp only [nSums] at hlt; omega)
      subst this
      simp only [hlt, if_true]
      rfl
    · simp only [hlt, if_false, List.foldl_cons]
      simp only [nSums] at hlt ⊢
      have hsplit : ws = ws.take 32 ++ ws.drop 32 := (List.take_append_drop 32 ws).symm
      have htl : (ws.take 32).length = 32 := by simp only [List.length_take]; omega
      have hdl : (ws.drop 32).length = ws.length - 32 := List.length_drop
      conv => lhs; rw [hsplit]
      rw [stepFrom_append, htl, stepFrom_row k sums _ hs htl]
      have e : 32 * k + 32 = 32 * (k + 1) := by omega
      rw [e]
      exact ih (ws.drop 32) (k + 1) _ (round_length sums _ hs htl) (by omega) (by omega)

theorem zeroRound_eq (sums : List Nat) (hs : sums.length = 32) : Model.zeroRound sums = round sums zeroRow := by
  have gen : ∀ l : List Nat, l.map (comp · 0) = List.zipWith comp l (List.replicate l.length 0) := by
    intro l
    induction l with
    | nil => rfl
    | cons a l ih => simp only [List.map_cons, List.length_cons, List.replicate_succ, List.zipWith_cons_cons, ih]
  show sums.map (comp · 0) = List.zipWith comp sums (List.replicate nSums 0)
  rw [gen, hs]
  rfl

theorem zeroRound_length (sums : List Nat) : (Model.zeroRound sums).length = sums.length := by
  simp only [Model.zeroRound, List.length_map]

theorem pageCopy_eq_clear (page : Bytes) (hlen : page.length = 8192) : Model.pageCopy page = clearChecksumField page := by
  unfold Model.pageCopy clearChecksumField
  have h1 : page.take 8192 = page := List.take_of_length_le (by omega)
  have h2 : zeros (8192 - page.length) = [] := by rw [hlen]; rfl
  simp only [h1, h2, List.append_nil]

/-- `pgChecksumBlock` of the repaired code on 8192 bytes: `pg_checksum_block` of the data with bytes 8..9 cleared,
xor the block number, `% 65535 + 1` -/
theorem pgChecksumBlock_eq (c : Bytes) (bn : Nat) (hlen : c.length = 8192) :
    Model.pgChecksumBlock c bn = pgChecksumPage c bn := by
  have hc : (clearChecksumField c).length = 8192 := by rw [clearChecksumField_length c (by omega)]; exact hlen
  have hw : (words (clearChecksumField c)).length = 2048 := by
    have : ∀ bs : Bytes, (Model.words32 bs).length = bs.length / 4 := by
      intro bs
      induction bs using Model.words32.induct with
      | case1 a b c d rest ih => simp only [Model.words32, List.length_cons, ih]; omega
      | case2 bs h =>
        have : bs.length < 4 := by
          match bs, h with
          | [], _ => simp
          | [_], _ => simp
          | [_, _], _ => simp
          | [_, _, _], _ => simp
          | a :: b :: c :: d :: rest, h => exact absurd rfl (h a b c d rest)
        rw [Model.words32]
        · simp; omega
        · exact h
    rw [← words32_eq, this, hc]
  unfold Model.pgChecksumBlock pgChecksumPage pgChecksumBlock
  have h9 : c.length > 9 := by omega
  simp only [h9, if_true]
  have hcl : c.take 8 ++ [0, 0] ++ c.drop 10 = clearChecksumField c := rfl
  rw [hcl, words32_eq, List.range_eq_range', foldl_zip_range', baseOffsets_eq]
  have hb : checksumBaseOffsets.length = 32 := rfl
  have hS : (stepFrom 0 checksumBaseOffsets (words (clearChecksumField c))).length = 32 := by rw [stepFrom_length]; exact hb
  have hrows : stepFrom 0 checksumBaseOffsets (words (clearChecksumField c)) =
      (rows (words (clearChecksumField c))).foldl round checksumBaseOffsets := by
    have := stepFrom_rows (words (clearChecksumField c)).length (words (clearChecksumField c)) 0 checksumBaseOffsets hb
      (Nat.le_refl _) (by rw [hw])
    simpa [rows] using this
  rw [zeroRound_eq _ hS, zeroRound_eq _ (round_length _ _ hS rfl), hrows]
  omega

/-- **The repaired `computePageChecksum` is PostgreSQL's `pg_checksum_page`**: for EVERY 8192-byte page and every
block number (uint32 wrap-around of the products included: `Model.mask32`) -/
theorem computePageChecksum_eq_pg (page : Bytes) (bn : Nat) (hlen : page.length = 8192) :
    Model.computePageChecksum page bn = pgChecksumPage page bn := by
  unfold Model.computePageChecksum
  rw [pageCopy_eq_clear page hlen]
  have hc : (clearChecksumField page).length = 8192 := by rw [clearChecksumField_length page (by omega)]; exact hlen
  rw [pgChecksumBlock_eq _ bn hc]
  unfold pgChecksumPage
  have : clearChecksumField (clearChecksumField page) = clearChecksumField page :=
    clearChecksumField_field page 0 0 (by omega)
  rw [this]

/-! ### known values

The empty heap page as `PageInit` writes it (pd_lower 24, pd_upper = pd_special = 8192, pd_pagesize_version 0x2004,
everything else zero) has `pg_checksum_page` 0x6560, 0x655F, 0x655D as block 0, 1, 7 (values computed independently by
two reviews, REVIEW.md / REVIEW2.md item 7): a check of the base-offset table and of the algorithm's structure. -/

def emptyHeapPage : Bytes := zeros 12 ++ [24, 0, 0, 32, 0, 32, 4, 32] ++ zeros 8172

set_option maxRecDepth 100000 in
theorem emptyHeapPage_checksums :
    pgChecksumPage emptyHeapPage 0 = 0x6560 ∧ pgChecksumPage emptyHeapPage 1 = 0x655F ∧
    pgChecksumPage emptyHeapPage 7 = 0x655D := by decide +kernel

/-! ### the pre-fix function and the witness of the (repaired) finding `C19-checksum-not-postgres` -/

namespace Orig

/-- checksum.go:checksumComp before fix 11 -/
def checksumComp (checksum value : Nat) : Nat :=
  let lo := value &&& 0xFFFF
  let hi := value >>> 16
  let shift := checksum &&& 0x1F
  let c := if shift > 0 then Model.mask32 ((checksum >>> shift) ||| Model.mask32 (checksum <<< (32 - shift))) else checksum
  let c := c ^^^ lo
  c ^^^ Model.mask32 (hi <<< 1)

def fold16 (c : Nat) : Nat := ((c >>> 16) ^^^ (c &&& 0xFFFF)) % 65536

/-- checksum.go:computePageChecksum before fix 11: a rotate/xor fold over the words, `^ blockNumber`, folded to 16 bits -/
def computePageChecksum (page : Bytes) (blockNumber : Nat) : Nat :=
  let c := (Model.words32 (Model.pageCopy page)).foldl checksumComp 0
  fold16 (c ^^^ blockNumber)

end Orig

/-- An empty heap page as `PageInit` writes it (pd_lower 24, pd_upper = pd_special = 8192, pd_pagesize_version 0x2004),
stored `pd_checksum` 0, with the bytes 78 48 00 00 at the very end (inside the free space of the page). -/
def witnessPage : Bytes := zeros 12 ++ [24, 0, 0, 32, 0, 32, 4, 32] ++ zeros 8168 ++ [0x78, 0x48, 0, 0]

theorem witnessPage_length : witnessPage.length = 8192 := by decide +kernel

theorem witnessPage_not_zero : Model.allZero witnessPage = false := by decide +kernel

theorem witnessPage_not_zero' : allZero witnessPage = false := by decide +kernel

theorem witnessPage_upper : pdUpper witnessPage = 8192 := by decide +kernel

theorem witnessPage_stored : pdChecksum witnessPage = 0 := by decide +kernel

set_option maxRecDepth 100000 in
/-- the pre-fix function gave 0 for the witness page as block 0 -/
theorem witnessPage_tool_orig : Orig.computePageChecksum witnessPage 0 = 0 := by decide +kernel

end PgVerif.Proofs.PgChecksum
