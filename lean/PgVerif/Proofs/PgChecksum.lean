/-
  Facts about the Spec of PostgreSQL's page checksum (Spec/PgChecksum.lean) that hold for EVERY base-offset table,
  and the witness page of the open finding `C19-checksum-not-postgres`: a block on which the tool's own function
  `computePageChecksum` gives 0.
-/
import PgVerif.Spec.PgChecksum
import PgVerif.Model.Checksum
namespace PgVerif.Proofs.PgChecksum
open PgVerif PgVerif.Spec.PgChecksum

/-- `pg_checksum_page` is never 0 and fits in 16 bits, whatever the base-offset table -/
theorem pgChecksumPage_range (offs : List Nat) (page : Bytes) (blkno : Nat) :
    1 ≤ pgChecksumPage offs page blkno ∧ pgChecksumPage offs page blkno ≤ 65535 := by
  unfold pgChecksumPage
  omega

/-- the stored checksum does not enter the computed one -/
theorem pgChecksumPage_field (offs : List Nat) (page : Bytes) (blkno : Nat) (x y : UInt8) (h : 10 ≤ page.length) :
    pgChecksumPage offs (page.take 8 ++ [x, y] ++ page.drop 10) blkno = pgChecksumPage offs page blkno := by
  unfold pgChecksumPage clearChecksumField
  have h8 : (page.take 8).length = 8 := by simp only [List.length_take]; omega
  have e1 : (page.take 8 ++ [x, y] ++ page.drop 10).take 8 = page.take 8 := by
    rw [List.append_assoc, List.take_left' h8]
  have e2 : (page.take 8 ++ [x, y] ++ page.drop 10).drop 10 = page.drop 10 := by
    have : (page.take 8 ++ [x, y]).length = 10 := by simp only [List.length_append, h8, List.length_cons, List.length_nil]
    rw [List.drop_left' this]
  rw [e1, e2]

/-- a non-new block whose stored checksum is 0 fails PostgreSQL's verification, for EVERY base-offset table -/
theorem pageVerdict_stored_zero (offs : List Nat) (page : Bytes) (blkno : Nat)
    (hz : allZero page = false) (hu : pdUpper page ≠ 0) (hs : pdChecksum page = 0) :
    pageVerdict offs page blkno = some false := by
  unfold pageVerdict
  have h1 := (pgChecksumPage_range offs page blkno).1
  have : (pdChecksum page == pgChecksumPage offs page blkno) = false := by
    rw [hs]
    cases hc : pgChecksumPage offs page blkno with
    | zero => omega
    | succ n => rfl
  simp only [hz, Bool.false_eq_true, if_false, hu, this]

/-! ### the witness of the open finding -/

/-- An empty heap page as `PageInit` writes it (pd_lower 24, pd_upper = pd_special = 8192, pd_pagesize_version 0x2004),
stored `pd_checksum` 0, with the bytes 78 48 00 00 at the very end (inside the free space of the page). -/
def witnessPage : Bytes := zeros 12 ++ [24, 0, 0, 32, 0, 32, 4, 32] ++ zeros 8168 ++ [0x78, 0x48, 0, 0]

theorem witnessPage_length : witnessPage.length = 8192 := by decide +kernel

theorem witnessPage_not_zero : Model.allZero witnessPage = false := by decide +kernel

theorem witnessPage_not_zero' : allZero witnessPage = false := by decide +kernel

theorem witnessPage_upper : pdUpper witnessPage = 8192 := by decide +kernel

theorem witnessPage_stored : pdChecksum witnessPage = 0 := by decide +kernel

set_option maxRecDepth 100000 in
/-- the tool's own function gives 0 for the witness page as block 0 -/
theorem witnessPage_tool : Model.computePageChecksum witnessPage 0 = 0 := by decide +kernel

end PgVerif.Proofs.PgChecksum
