/-
  Helper lemmas for C13 (CSV side): no cell value other than NULL and the empty string is written as the empty field
  (`Spec.CsvExport.valuesKept` holds of the records the model's text reads back as).
-/
import PgVerif.Proofs.ExportJson
import PgVerif.Proofs.ExportDec
import PgVerif.Model.ExportCsv
import PgVerif.Spec.CsvExport
namespace PgVerif.Proofs.CsvKept
open PgVerif PgVerif.Export PgVerif.Model.Export

theorem decInt_ne_nil (i : Int) : decInt i ≠ [] := by
  obtain ⟨h1, _, _⟩ := ExportDec.dec_props i.natAbs
  unfold decInt
  split
  · simp
  · exact h1

theorem floatText_ne_nil (text : Bytes)
    (h : isNonFiniteText text = false → ∃ c t, text = c :: t ∧ (c = 45 ∨ Spec.Json.isDigit c = true)) : text ≠ [] := by
  intro he
  subst he
  have : isNonFiniteText [] = false := by decide
  obtain ⟨c, t, h1, _⟩ := h this
  cases h1

theorem jsonCell_arr_ne_nil (F : FloatFmt) (xs : List GoVal) : jsonCell F (.arr xs) ≠ [] := by
  unfold jsonCell
  cases h : goJson F (.arr xs) with
  | none => simp [writeJSONValue]
  | some b =>
    simp only [goJson, Option.map_eq_some_iff] at h
    obtain ⟨e, _, rfl⟩ := h
    simp

theorem jsonCell_obj_ne_nil (F : FloatFmt) (kvs : List (Bytes × GoVal)) : jsonCell F (.obj kvs) ≠ [] := by
  unfold jsonCell
  cases h : goJson F (.obj kvs) with
  | none => simp [writeJSONValue]
  | some b =>
    simp only [goJson, Option.map_eq_some_iff] at h
    obtain ⟨e, _, rfl⟩ := h
    simp

/-- only NULL and the empty string have the empty field text -/
theorem formatCSVValue_nil (F : FloatFmt) (hF : ExportJson.FloatOK F) (v : GoVal) (h : formatCSVValue F v = []) :
    v = .nil ∨ v = .str [] := by
  cases v with
  | nil => exact Or.inl rfl
  | bool b => cases b <;> simp [formatCSVValue, asc] at h
  | int i => exact absurd h (decInt_ne_nil i)
  | f64 b => exact absurd h (floatText_ne_nil _ (fun hn => (hF.num64 b hn).2.1))
  | f32 b => exact absurd h (floatText_ne_nil _ (fun hn => (hF.num32 b hn).2.1))
  | str s => simp only [formatCSVValue] at h; subst h; exact Or.inr rfl
  | arr xs => exact absurd h (jsonCell_arr_ne_nil F xs)
  | obj kvs => exact absurd h (jsonCell_obj_ne_nil F kvs)

theorem all_zip_map {α β} (l : List α) (f : α → β) (p : α × β → Bool) (h : ∀ x ∈ l, p (x, f x) = true) :
    (l.zip (l.map f)).all p = true := by
  induction l with
  | nil => rfl
  | cons x l ih =>
    simp only [List.map_cons, List.zip_cons_cons, List.all_cons, Bool.and_eq_true]
    exact ⟨h x (by simp), ih (fun y hy => h y (by simp [hy]))⟩

/-- the records of a table's CSV (header, then the rows' cell texts) keep every value -/
theorem valuesKept_model (F : FloatFmt) (hF : ExportJson.FloatOK F) (t : TableDump) :
    Spec.CsvExport.valuesKept t (t.columns.map (·.name) :: t.rows.map fun r => t.columns.map (cellCSV F r)) = true := by
  unfold Spec.CsvExport.valuesKept
  simp only [List.drop_succ_cons, List.drop_zero]
  apply all_zip_map
  intro row _
  apply all_zip_map
  intro col _
  simp only [cellCSV]
  cases hg : row.get col.name with
  | none => rfl
  | some v =>
    cases v with
    | nil => rfl
    | str s =>
      cases s with
      | nil => rfl
      | cons c s' => simp [formatCSVValue]
    | bool _ | int _ | f64 _ | f32 _ | arr _ | obj _ =>
      simp only [Bool.not_eq_true', List.isEmpty_eq_false_iff]
      intro he
      rcases formatCSVValue_nil F hF _ he with h | h <;> cases h

end PgVerif.Proofs.CsvKept
