/-
  Totality of the toast models (C10): no function of toast.go panics, whatever the bytes, the pointer, the chunks.
-/
import PgVerif.Proofs.HeapFile
import PgVerif.Proofs.Pglz
import PgVerif.Model.Toast
import PgVerif.Proofs.InlineComp
namespace PgVerif.Proofs.Toast
open PgVerif PgVerif.Model PgVerif.Model.Toast PgVerif.Proofs
set_option linter.unusedVariables false

theorem le32_total (data : Bytes) (lo : Nat) (h : lo + 4 ≤ data.length) : ∃ r, le32 data lo = .ok r := by
  unfold le32
  rw [slice_ok _ _ _ h (by omega)]
  simp only [ok_bind]
  rw [uN_ok _ _ _ (by simp; omega)]
  exact ⟨_, rfl⟩

theorem parseTOASTPointer_total (data : Bytes) : ∃ r, parseTOASTPointer data = .ok r := by
  unfold parseTOASTPointer
  by_cases h : data.length < 18
  · simp [h]
  · simp (disch := omega) only [h, if_false, idx_ok, ok_bind, pure_eq_ok]
    split
    · exact ⟨_, rfl⟩
    · obtain ⟨a, ha⟩ := le32_total data 2 (by omega)
      obtain ⟨b, hb⟩ := le32_total data (2 + 4) (by omega)
      obtain ⟨c, hc⟩ := le32_total data (2 + 8) (by omega)
      obtain ⟨d, hd⟩ := le32_total data (2 + 12) (by omega)
      simp only [ha, hb, hc, hd, ok_bind]
      exact ⟨_, rfl⟩

theorem isTOASTPointer_total (data : Bytes) : ∃ r, isTOASTPointer data = .ok r := by
  unfold isTOASTPointer
  by_cases h : data.length < 2
  · simp [h]
  · simp (disch := omega) only [h, if_false, idx_ok, ok_bind, pure_eq_ok]
    exact ⟨_, rfl⟩

theorem readVarlena_total (data : Bytes) : ∃ r, readVarlena data = .ok r := by
  unfold readVarlena
  by_cases h : data.length = 0
  · simp [h]
  · simp (disch := omega) only [h, if_false, idx_ok, ok_bind, pure_eq_ok]
    split
    · split
      · exact ⟨_, rfl⟩
      · rename_i hc
        simp only [Bool.or_eq_true, decide_eq_true_eq, not_or, Nat.not_le, Nat.not_lt] at hc
        rw [slice_ok _ _ _ (by omega) (by omega)]
        exact ⟨_, rfl⟩
    · split
      · split
        · rename_i h18
          rw [idx_ok _ _ (by omega)]
          exact ⟨_, rfl⟩
        · exact ⟨_, rfl⟩
      · split
        · exact ⟨_, rfl⟩
        · rename_i h4
          rw [uN_ok _ _ _ (by omega)]
          simp only [ok_bind]
          split
          · exact ⟨_, rfl⟩
          · rename_i hc
            simp only [Bool.or_eq_true, decide_eq_true_eq, not_or, Nat.not_le, Nat.not_lt] at hc
            split
            · rename_i hz
              simp only [Bool.and_eq_true, decide_eq_true_eq, ge_iff_le] at hz
              obtain ⟨v, hv⟩ := Proofs.InlineComp.inlineDecompress_total data (rd 4 (data.drop 0) >>> 2) (by omega) (by omega)
              rw [hv]; exact ⟨_, rfl⟩
            · rw [slice_ok _ _ _ (by omega) (by omega)]
              exact ⟨_, rfl⟩

theorem chunkOf_total (tdata : Bytes) : ∃ r, chunkOf tdata = .ok r := by
  unfold chunkOf
  by_cases h : tdata.length < 8
  · simp [h]
  · have hal : align 8 4 = 8 := by decide
    simp (disch := omega) only [h, if_false, uN_ok, ok_bind, pure_eq_ok, hal]
    split
    · rw [sliceFrom_ok _ _ (by omega)]
      obtain ⟨r, hr⟩ := readVarlena_total (tdata.drop 8)
      simp only [ok_bind, hr]
      split <;> exact ⟨_, rfl⟩
    · split <;> exact ⟨_, rfl⟩

theorem parseHeapTuple_some_len (data : Bytes) (t : HeapTuple) (h : parseHeapTuple data = .ok (some t)) :
    23 ≤ data.length := by
  by_cases hl : data.length < 23
  · unfold parseHeapTuple at h
    simp [hl, pure, Except.pure] at h
  · omega

/-- toast.go:toastVisible never faults on a tuple ParseHeapTuple accepted (≥ 23 bytes: t_xmin @0, t_infomask @20) -/
theorem toastVisible_total (raw : Bytes) (h : 23 ≤ raw.length) : ∃ r, Model.Toast.toastVisible raw = .ok r := by
  unfold Model.Toast.toastVisible
  simp (disch := omega) only [uN_ok, ok_bind, pure_eq_ok]
  split
  · exact ⟨_, rfl⟩
  · split <;> exact ⟨_, rfl⟩

theorem toastPageItem_total (data : Bytes) (hd : data.length ≥ 8192) (upper : Nat) (it : ItemID) :
    ∃ r, toastPageItem data upper it = .ok r := by
  unfold toastPageItem
  split
  · exact ⟨_, rfl⟩
  · split
    · exact ⟨_, rfl⟩
    · rename_i hc
      have hc' : ¬ (it.offset < upper ∨ it.offset + it.length > 8192) := by simpa using hc
      rw [slice_ok _ _ _ (by omega) (by omega)]
      simp only [ok_bind]
      obtain ⟨r, hr⟩ := parseHeapTuple_total ((data.take (it.offset + it.length)).drop it.offset)
      rw [hr]
      simp only [ok_bind]
      cases r with
      | none => exact ⟨_, rfl⟩
      | some t =>
        obtain ⟨v, hv⟩ := toastVisible_total _ (parseHeapTuple_some_len _ t hr)
        simp only [hv, ok_bind, pure_eq_ok]
        exact ⟨_, rfl⟩

theorem toastPageTuples_total (data : Bytes) (hd : data.length ≥ 8192) : ∃ r, toastPageTuples data = .ok r := by
  unfold toastPageTuples parseHeader
  simp (disch := omega) only [uN_ok, ok_bind, pure_eq_ok]
  split
  · exact ⟨_, rfl⟩
  · obtain ⟨items, hi⟩ := parseItemsLoop_total data (rd 2 (data.drop 12)) (itemCount (rd 2 (data.drop 12))) 24
    simp only [parseItems, hi, ok_bind]
    exact collectM_total _ _ (toastPageItem_total data hd _)

theorem readTOASTTuplesFrom_total (data : Bytes) (n off : Nat) : ∃ r, readTOASTTuplesFrom data n off = .ok r := by
  induction n generalizing off with
  | zero => exact ⟨_, rfl⟩
  | succ n ih =>
    simp only [readTOASTTuplesFrom]
    split
    · rename_i hc
      rw [slice_ok _ _ _ hc (by omega)]
      obtain ⟨ts, hts⟩ := toastPageTuples_total ((data.take (off + 8192)).drop off) (by simp; omega)
      obtain ⟨r, hr⟩ := ih (off + 8192)
      simp only [ok_bind, hts, hr, pure_eq_ok]
      exact ⟨_, rfl⟩
    · exact ⟨_, rfl⟩

theorem readTOASTTable_total (data : Bytes) : ∃ r, readTOASTTable data = .ok r := by
  unfold readTOASTTable
  obtain ⟨ts, hts⟩ := readTOASTTuplesFrom_total data (data.length / 8192 + 1) 0
  have : readTOASTTuples data = .ok ts := hts
  simp only [this, ok_bind]
  exact collectM_total _ _ (fun t => chunkOf_total _)

theorem decompressStored_total (zlib : Bytes → Nat → Option Bytes) (p : Ptr) (data : Bytes) (h : 4 ≤ data.length) :
    ∃ r, decompressStored zlib p data = .ok r := by
  unfold decompressStored
  rw [sliceFrom_ok _ _ h]
  simp only [ok_bind]
  obtain ⟨a, ha⟩ := decompressLZ4_total (data.drop 4) (p.rawSize - 4)
  obtain ⟨b, hb⟩ := decompressPGLZ_total (data.drop 4) (p.rawSize - 4)
  split
  · simp only [ha, ok_bind]
    cases a with
    | some d => exact ⟨_, rfl⟩
    | none =>
      simp only [hb, ok_bind]
      cases b with
      | some d => simp only []; split <;> (try split) <;> exact ⟨_, rfl⟩
      | none => simp only []; split <;> exact ⟨_, rfl⟩
  · simp only [pure_eq_ok, ok_bind, hb]
    cases b with
    | some d => simp only []; split <;> (try split) <;> exact ⟨_, rfl⟩
    | none => simp only []; split <;> exact ⟨_, rfl⟩

theorem reassembleTOAST_total (zlib : Bytes → Nat → Option Bytes) (chunks : List Chunk) (valueID : Nat) (ptr : Option Ptr) :
    ∃ r, reassembleTOAST zlib chunks valueID ptr = .ok r := by
  unfold reassembleTOAST
  simp only [pure_eq_ok, ok_bind]
  split
  · exact ⟨_, rfl⟩
  · cases ptr with
    | none => exact ⟨_, rfl⟩
    | some p =>
      simp only []
      split
      · rename_i hc
        simp only [Bool.and_eq_true, decide_eq_true_eq] at hc
        obtain ⟨r, hr⟩ := decompressStored_total zlib p
          (List.flatMap (·.data) ((chunks.filter (·.id == valueID)).mergeSort fun a b => decide (a.seq ≤ b.seq))) (by omega)
        simp only [hr, ok_bind]
        exact ⟨_, rfl⟩
      · exact ⟨_, rfl⟩

theorem readValue_tail (zlib : Bytes → Nat → Option Bytes) (p : Ptr) (r : Reader) (t : List (Nat × List Chunk)) :
    ∃ x, (match t.lookup p.toastRelID with
      | none => (pure (none, { r with tables := t }) : M (Option Bytes × Reader))
      | some cs => do pure (← reassembleTOAST zlib cs p.valueID (some p), { r with tables := t })) = .ok x := by
  cases t.lookup p.toastRelID with
  | none => exact ⟨_, rfl⟩
  | some cs =>
    obtain ⟨x, hx⟩ := reassembleTOAST_total zlib cs p.valueID (some p)
    simp only [hx, ok_bind]
    exact ⟨_, rfl⟩

theorem readValue_total (zlib : Bytes → Nat → Option Bytes) (readFile : Nat → Option Bytes) (r : Reader) (data : Bytes) :
    ∃ x, readValue zlib readFile r data = .ok x := by
  unfold readValue
  obtain ⟨p, hp⟩ := parseTOASTPointer_total data
  simp only [hp, ok_bind]
  cases p with
  | none => exact ⟨_, rfl⟩
  | some p =>
    simp only []
    split
    · cases readFile p.toastRelID with
      | none =>
        simp only [pure_eq_ok, ok_bind]
        exact readValue_tail zlib p r _
      | some f =>
        obtain ⟨cs, hcs⟩ := readTOASTTable_total f
        simp only [hcs, pure_eq_ok, ok_bind]
        exact readValue_tail zlib p r _
    · simp only [pure_eq_ok, ok_bind]
      exact readValue_tail zlib p r _

theorem getTOASTVerboseInfoWith_total (π : GroupOrder) (relid : Nat) (data : Bytes) :
    ∃ r, getTOASTVerboseInfoWith π relid data = .ok r := by
  unfold getTOASTVerboseInfoWith
  obtain ⟨cs, hcs⟩ := readTOASTTable_total data
  simp only [hcs, ok_bind]
  split <;> exact ⟨_, rfl⟩

theorem getTOASTVerboseInfo_total (relid : Nat) (data : Bytes) : ∃ r, getTOASTVerboseInfo relid data = .ok r := by
  unfold getTOASTVerboseInfo getTOASTVerboseInfoWith
  obtain ⟨cs, hcs⟩ := readTOASTTable_total data
  simp only [hcs, ok_bind]
  split <;> exact ⟨_, rfl⟩

end PgVerif.Proofs.Toast
