/-
  catalog.go:readAttrRows (fixes/cluster/08) calls dropped.go's schema tables and readAttrRowsWithDropped.  The model of
  catalog.go (Model/Catalog.lean, area cluster) and the model of dropped.go (Model/Dropped.lean, area dropped) each carry
  their own transcription of those (Model/Dropped.lean imports Model/Catalog.lean, not the other way round), each over
  its own table generated from the source (Generated/Cluster.lean, Generated/Dropped.lean).  This file ties the two: the
  tables are the same lists and the two automatic choices are the same function.
-/
import PgVerif.Model.Dropped
namespace PgVerif.Proofs.Cluster
open PgVerif PgVerif.Model

/-- the three layout tables generated for area cluster are the ones generated for area dropped -/
theorem catSchemas_eq_dropped :
    catSchemaAttr16 = schemaPGAttrDropped ∧ catSchemaAttr14 = schemaPGAttrDroppedV15 ∧ catSchemaAttr12 = schemaPGAttrDroppedV12 :=
  ⟨rfl, rfl, rfl⟩

theorem catPlausible_eq_dropped (row : Row) : catPlausibleAttrRow row = drPlausibleAttrRow row := rfl

/-- the automatic layout choice modelled in Model/Catalog.lean is dropped.go:readAttrRowsWithDropped as modelled in
Model/Dropped.lean (whose properties — `Props/Dropped.lean` — therefore speak about the rows ParsePGAttribute sees) -/
theorem catReadAttrRowsAuto_eq_dropped (rr : RowReader) (data : Bytes) :
    catReadAttrRowsAuto rr data = readAttrRowsWithDropped rr data := rfl

end PgVerif.Proofs.Cluster
