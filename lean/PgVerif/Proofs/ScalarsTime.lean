/-
  date / timestamp round trips on top of the calendar lemma (area `scalars`): helpers for Props/C04.lean.
-/
import PgVerif.Proofs.ScalarsRT
import PgVerif.Proofs.ScalarsCal
import PgVerif.Proofs.ScalarsFrac
set_option linter.unusedSimpArgs false
namespace PgVerif.Proofs.ScalarsRT
open PgVerif PgVerif.Model.Scalars PgVerif.Spec.Scalars PgVerif.Txt PgVerif.Proofs.ScalarsCal

theorem validYMD_iff (y m d : Nat) :
    validYMD y m d = true ↔ (1 ≤ y ∧ y ≤ 9999 ∧ 1 ≤ m ∧ m ≤ 12 ∧ 1 ≤ d ∧ d ≤ daysInMonth y m) := by
  simp [validYMD, and_assoc]

theorem daysInMonth_le (y m : Nat) : daysInMonth y m ≤ 31 := by
  unfold daysInMonth
  split
  · split <;> omega
  · split <;> omega

theorem daysBeforeMonth_le (y m : Nat) (hm : 1 ≤ m ∧ m ≤ 12) : daysBeforeMonth y m ≤ 335 := by
  have hm' : m = 1 ∨ m = 2 ∨ m = 3 ∨ m = 4 ∨ m = 5 ∨ m = 6 ∨ m = 7 ∨ m = 8 ∨ m = 9 ∨ m = 10 ∨ m = 11 ∨ m = 12 := by omega
  rcases hm' with rfl | rfl | rfl | rfl | rfl | rfl | rfl | rfl | rfl | rfl | rfl | rfl <;>
    cases hl : isLeap y <;> simp [daysBeforeMonth, hl]

/-- the stored date of a valid civil date of years 1..9999 is far inside int32 -/
theorem pgDate_bounds (y m d : Nat) (h : validYMD y m d = true) : -730119 ≤ pgDate y m d ∧ pgDate y m d ≤ 2921940 := by
  have h' := (validYMD_iff y m d).1 h
  have h1 := daysInMonth_le y m
  have h2 := daysBeforeMonth_le y m ⟨h'.2.2.1, h'.2.2.2.1⟩
  unfold pgDate daysBeforeYear
  omega

theorem fmtYear_nat (y : Nat) : fmtYear (y : Int) = padNat 4 y := by
  unfold fmtYear
  have : ¬ ((y : Int) < 0) := by omega
  simp [this]

theorem fmtDate_pgDate (y m d : Nat) (h : validYMD y m d = true) : fmtDate (pgDate y m d + 10957) = ymdText y m d := by
  have h' := (validYMD_iff y m d).1 h
  unfold fmtDate
  rw [civil_pgDate y m d h'.1 ⟨h'.2.2.1, h'.2.2.2.1⟩ ⟨h'.2.2.2.2.1, h'.2.2.2.2.2⟩]
  simp only [fmtYear_nat, ymdText]

/-- Go's truncating division with the sign correction of the repaired timestamp code is the floor -/
theorem floorDiv_eq (us : Int) :
    (if us.tmod 1000000 < 0 then us.tdiv 1000000 - 1 else us.tdiv 1000000) = us / 1000000 := by
  by_cases h : 0 ≤ us
  · rw [Int.tdiv_eq_ediv_of_nonneg h, Int.tmod_eq_emod_of_nonneg h]
    have : ¬ (us % 1000000 < 0) := by omega
    rw [if_neg this]
  · obtain ⟨k, hk⟩ : ∃ k : Nat, us = -(k : Int) := ⟨us.natAbs, by omega⟩
    subst hk
    rw [Int.neg_tdiv, Int.neg_tmod]
    have e1 : Int.tdiv (k : Int) 1000000 = ((k / 1000000 : Nat) : Int) := rfl
    have e2 : Int.tmod (k : Int) 1000000 = ((k % 1000000 : Nat) : Int) := rfl
    rw [e1, e2]
    by_cases hz : k % 1000000 = 0
    · have : ¬ (-((k % 1000000 : Nat) : Int) < 0) := by omega
      rw [if_neg this]; omega
    · have : (-((k % 1000000 : Nat) : Int) < 0) := by omega
      rw [if_pos this]; omega

/-- decDate on the stored form of any well-formed date value -/
theorem decDate_enc (dv : DateV) (h : dv.wf = true) : decDate (le 4 (ofSigned 32 dv.stored)) = .ok (.str dv.text) := by
  cases dv with
  | posInf => rfl
  | negInf => rfl
  | fin y m d =>
    have hv : validYMD y m d = true := h
    have hb := pgDate_bounds y m d hv
    have hin : inI 32 (pgDate y m d) = true := by
      simp only [inI, Bool.and_eq_true, decide_eq_true_eq, Nat.reduceSub, Int.reducePow]; omega
    unfold decDate
    simp only [DateV.stored, i32, uN_le1 4 _ (ofSigned_lt 32 _), ok_bind, pure_eq_ok, toSigned_ofSigned32 _ hin]
    have h1 : ¬ pgDate y m d = 2147483647 := by omega
    have h2 : ¬ pgDate y m d = -2147483648 := by omega
    simp only [h1, h2, if_false, fmtDate_pgDate y m d hv]
    rfl

/-- the stored timestamp of a well-formed finite value: seconds and microseconds split -/
theorem tsStored_split (y m d hh mi ss usec : Nat) (h : (TsV.fin y m d hh mi ss usec).wf = true) :
    (TsV.fin y m d hh mi ss usec).stored / 1000000 = pgDate y m d * 86400 + ((hh * 3600 + mi * 60 + ss : Nat) : Int) ∧
    validYMD y m d = true ∧ hh < 24 ∧ mi < 60 ∧ ss < 60 ∧ usec < 1000000 := by
  have h' : validYMD y m d = true ∧ hh < 24 ∧ mi < 60 ∧ ss < 60 ∧ usec < 1000000 := by
    simpa [TsV.wf, and_assoc] using h
  refine ⟨?_, h'⟩
  simp only [TsV.stored]
  omega

theorem fmtUnix_ts (y m d hh mi ss : Nat) (hv : validYMD y m d = true) (h1 : hh < 24) (h2 : mi < 60) (h3 : ss < 60) :
    fmtUnix (pgEpochUnix + (pgDate y m d * 86400 + ((hh * 3600 + mi * 60 + ss : Nat) : Int)))
      = ymdText y m d ++ [32] ++ hmsText hh mi ss := by
  unfold fmtUnix pgEpochUnix
  have e1 : (946684800 + (pgDate y m d * 86400 + ((hh * 3600 + mi * 60 + ss : Nat) : Int))) / 86400 = pgDate y m d + 10957 := by omega
  have e2 : ((946684800 + (pgDate y m d * 86400 + ((hh * 3600 + mi * 60 + ss : Nat) : Int))) % 86400).toNat = hh * 3600 + mi * 60 + ss := by omega
  simp only [e1, e2, fmtDate_pgDate y m d hv, hmsText]
  have e3 : (hh * 3600 + mi * 60 + ss) / 3600 = hh := by omega
  have e4 : (hh * 3600 + mi * 60 + ss) / 60 % 60 = mi := by omega
  have e5 : (hh * 3600 + mi * 60 + ss) % 60 = ss := by omega
  rw [e3, e4, e5]
  simp only [List.append_assoc]

/-- decTimestamp on the stored form of any well-formed timestamp value -/
theorem decTimestamp_enc (t : TsV) (h : t.wf = true) : decTimestamp (le 8 (ofSigned 64 t.stored)) = .ok (.str t.text) := by
  cases t with
  | posInf => rfl
  | negInf => rfl
  | fin y m d hh mi ss usec =>
    obtain ⟨hs, hv, h1, h2, h3, h4⟩ := tsStored_split y m d hh mi ss usec h
    have hb := pgDate_bounds y m d hv
    have hst : (TsV.fin y m d hh mi ss usec).stored
        = (pgDate y m d * 86400 + ((hh * 3600 + mi * 60 + ss : Nat) : Int)) * 1000000 + ((usec : Nat) : Int) := rfl
    have hin : inI 64 (TsV.fin y m d hh mi ss usec).stored = true := by
      simp only [inI, Bool.and_eq_true, decide_eq_true_eq, Nat.reduceSub, Int.reducePow, hst]; omega
    unfold decTimestamp
    simp only [i64, uN_le1 8 _ (ofSigned_lt 64 _), ok_bind, pure_eq_ok, toSigned_ofSigned64 _ hin]
    have n1 : ¬ (TsV.fin y m d hh mi ss usec).stored = 9223372036854775807 := by rw [hst]; omega
    have n2 : ¬ (TsV.fin y m d hh mi ss usec).stored = -9223372036854775808 := by rw [hst]; omega
    have hfr : (TsV.fin y m d hh mi ss usec).stored % 1000000 = ((usec : Nat) : Int) := by rw [hst]; omega
    simp only [n1, n2, if_false, floorDiv_eq, ScalarsFrac.floorMod_eq, hfr, ScalarsFrac.fracSeconds_nat, hs,
      fmtUnix_ts y m d hh mi ss hv h1 h2 h3]
    rfl

end PgVerif.Proofs.ScalarsRT
