/-
  ParseIndexFile on an encoded well-formed index file.
-/
import PgVerif.Proofs.IndexMeta
namespace PgVerif.Proofs.Index
open PgVerif PgVerif.Model.Index PgVerif.Spec.Index

theorem slice_mid (pre mid post : Bytes) :
    slice (pre ++ mid ++ post) pre.length (pre.length + mid.length) = .ok mid := by
  rw [slice_ok _ _ _ (by simp) (Nat.le_add_right _ _)]
  congr 1
  rw [List.append_assoc, List.take_length_add_append, List.drop_left', List.take_left']
  · rfl
  · rfl

/-- the expected page records, numbered from `i` -/
def expectPagesFrom (i : Nat) : List Page → List PageInfo
  | [] => []
  | p :: ps => expectPage i p :: expectPagesFrom (i + 1) ps

theorem pages_length (ps : List Page) (h : ∀ p ∈ ps, p.WF) : (ps.flatMap encPage).length = ps.length * 8192 := by
  induction ps with
  | nil => simp
  | cons p ps ih =>
    simp only [List.flatMap_cons, List.length_append, List.length_cons, encPage_length p (h p (by simp)),
      ih (fun q hq => h q (by simp [hq])), Nat.add_mul, Nat.one_mul]
    omega

theorem parsePages_enc (am : AM) (ps : List Page) (hw : ∀ p ∈ ps, p.WF ∧ p.op.am = am) (pre tail : Bytes) (i : Nat)
    (hpre : pre.length = i * 8192) (hn : i + ps.length ≤ 2 ^ 32) :
    parsePages (pre ++ ps.flatMap encPage ++ tail) (code am) ps.length i = .ok (expectPagesFrom i ps) := by
  induction ps generalizing pre i with
  | nil => rfl
  | cons p ps ih =>
    obtain ⟨hp, ha⟩ := hw p (by simp)
    have hl := encPage_length p hp
    simp only [List.length_cons] at hn
    have hi : i % 2 ^ 32 = i := Nat.mod_eq_of_lt (by omega)
    have hs : slice (pre ++ (p :: ps).flatMap encPage ++ tail) (i * 8192) (i * 8192 + 8192) = .ok (encPage p) := by
      have := slice_mid pre (encPage p) (ps.flatMap encPage ++ tail)
      rw [hpre, hl] at this
      simpa [List.append_assoc] using this
    have hrest := ih (fun q hq => hw q (by simp [hq])) (pre ++ encPage p) (i + 1)
      (by simp only [List.length_append, hpre, hl, Nat.add_mul, Nat.one_mul]) (by omega)
    simp only [List.length_cons, parsePages, hs, ok_bind, hi]
    rw [← ha, parseIndexPage_enc p hp i, ha]
    simp only [ok_bind]
    have e : pre ++ (p :: ps).flatMap encPage ++ tail = pre ++ encPage p ++ ps.flatMap encPage ++ tail := by
      simp [List.append_assoc]
    rw [e, hrest]
    rfl

/-- what ParseIndexFile must return for a spec file, as a model record -/
def expectInfo (f : File) : IndexInfo :=
  { type := code f.am, typeString := typeString (code f.am), totalPages := f.pages.length,
    metaInfo := f.metaPage.map expectMeta, levels := metaLevels (f.metaPage.map expectMeta),
    rootPage := metaRoot (f.metaPage.map expectMeta), pages := expectPagesFrom 0 f.pages }

theorem div_pages (n t : Nat) (ht : t < 8192) : (n * 8192 + t) / 8192 = n := by omega

theorem parseIndexFile_enc (f : File) (hf : f.WF) : parseIndexFile (encFile f) = .ok (some (expectInfo f)) := by
  obtain ⟨hw, hm, ht, hn⟩ := hf
  cases hps : f.pages with
  | nil => unfold File.metaOK at hm; simp [hps] at hm
  | cons p0 rest =>
    have hp0 : f.pages.head? = some p0 := by rw [hps]; rfl
    obtain ⟨hpw, hpa⟩ := hw p0 (by rw [hps]; simp)
    have hlen : (encFile f).length = f.pages.length * 8192 + f.tail.length := by
      unfold encFile; rw [List.length_append, pages_length _ (fun p hp => (hw p hp).1)]
    have hpos : 0 < f.pages.length := by rw [hps]; simp
    have h8 : 8192 ≤ (encFile f).length := by
      rw [hlen]; generalize f.pages.length = n at hpos ⊢; omega
    have hdiv : (encFile f).length / 8192 = f.pages.length := by rw [hlen]; exact div_pages _ _ ht
    have hs0 : slice (encFile f) 0 8192 = .ok (encPage p0) := by
      have := slice_mid [] (encPage p0) (rest.flatMap encPage ++ f.tail)
      rw [encPage_length p0 hpw] at this
      simpa [encFile, hps, List.append_assoc] using this
    obtain ⟨hmeta, hmagic⟩ := parseMeta_enc f p0 hp0 hpw hpa hm
    have hdet := detect_enc p0 hpw hmagic
    rw [hpa] at hdet
    have hpages := parsePages_enc f.am f.pages hw [] f.tail 0 rfl (by omega)
    unfold parseIndexFile
    rw [if_neg (by omega)]
    simp only [hs0, ok_bind, hdet, hmeta, hdiv]
    have e : encFile f = [] ++ f.pages.flatMap encPage ++ f.tail := by simp [encFile]
    rw [e, hpages]
    rfl

end PgVerif.Proofs.Index

namespace PgVerif.Proofs.Index
open PgVerif PgVerif.Model.Index PgVerif.Spec.Index

/-! ### from the expected records to the Spec's views -/

theorem map_expect (am : AM) (ps : List Page) (hw : ∀ p ∈ ps, p.WF ∧ p.op.am = am) (i : Nat) :
    (expectPagesFrom i ps).map (viewOf am) = pagesViewFrom i ps := by
  induction ps generalizing i with
  | nil => rfl
  | cons p ps ih =>
    obtain ⟨hp, ha⟩ := hw p (by simp)
    simp only [expectPagesFrom, pagesViewFrom, List.map_cons, ih (fun q hq => hw q (by simp [hq]))]
    rw [← ha, (viewOf_expect p hp i).1]

theorem forall_expect (P : PageInfo → Prop) (ps : List Page) (h : ∀ i, ∀ p ∈ ps, P (expectPage i p)) (i : Nat) :
    ∀ pi ∈ expectPagesFrom i ps, P pi := by
  induction ps generalizing i with
  | nil => intro pi hpi; simp [expectPagesFrom] at hpi
  | cons p ps ih =>
    intro pi hpi
    simp only [expectPagesFrom, List.mem_cons] at hpi
    rcases hpi with e | hpi
    · subst e; exact h i p (by simp)
    · exact ih (fun j q hq => h j q (by simp [hq])) (i + 1) pi hpi

theorem zip_expect (R : PageInfo → Page → Prop) (ps : List Page) (h : ∀ i, ∀ p ∈ ps, R (expectPage i p) p) (i : Nat) :
    ∀ x ∈ (expectPagesFrom i ps).zip ps, R x.1 x.2 := by
  induction ps generalizing i with
  | nil => intro x hx; simp [expectPagesFrom] at hx
  | cons p ps ih =>
    intro x hx
    simp only [expectPagesFrom, List.zip_cons_cons, List.mem_cons] at hx
    rcases hx with e | hx
    · subst e; exact h i p (by simp)
    · exact ih (fun j q hq => h j q (by simp [hq])) (i + 1) x hx

theorem expect_length (ps : List Page) (i : Nat) : (expectPagesFrom i ps).length = ps.length := by
  induction ps generalizing i with
  | nil => rfl
  | cons p ps ih => simp [expectPagesFrom, ih]

def metaViewOf : MetaInfo → MetaView
  | .btree a b c d e f => .btree a b c d e f
  | .hash a b c d e f g h => .hash a b c d e f g h
  | .gin a b c d e f g h i j => .gin a b c d e f g h i j

theorem metaViewOf_expect (m : Meta) : metaViewOf (expectMeta m) = metaView m := by cases m <;> rfl

/-! ### flag names -/

theorem expect_flagStrings (i : Nat) (p : Page) :
    (expectPage i p).flagStrings = flagStrings (code p.op.am) p.op.flags := by
  cases hp : p.op <;> simp [expectPage, hp, Opaque.am, Opaque.flags, code]

/-- every (mask, name) the tool knows is a single bit, and the name is PostgreSQL's name of that bit
(modulo the per-method macro prefix and the `_PAGE` suffix of the hash page types) -/
theorem names_table_sound : ∀ am ∈ AM.all, ∀ e ∈ flagTable (code am),
    ∃ k ∈ List.range 16, e.1 = 2 ^ k ∧ shortFlagName am k = some e.2 := by
  decide

/-- … and conversely every bit PostgreSQL defines for a method (`Spec.Index.pgFlagNames`) has its entry in the tool's
table (fix 08): the table is complete with respect to PostgreSQL's, not only sound -/
theorem names_table_complete : ∀ am ∈ AM.all, ∀ e ∈ pgFlagNames am,
    (2 ^ e.1, shortName am e.2) ∈ flagTable (code am) := by
  decide

theorem am_mem_all (am : AM) : am ∈ AM.all := by cases am <;> simp [AM.all]

theorem lookup_mem {α β} [BEq α] [LawfulBEq α] (l : List (α × β)) (k : α) (v : β) (h : l.lookup k = some v) :
    (k, v) ∈ l := by
  induction l with
  | nil => simp [List.lookup] at h
  | cons x xs ih =>
    obtain ⟨a, b⟩ := x
    by_cases hk : k == a
    · have e : k = a := by simpa using hk
      simp only [List.lookup, hk] at h
      cases h
      rw [e]; simp
    · simp only [List.lookup, hk] at h
      exact List.mem_cons_of_mem _ (ih h)

/-- The names reported for a flag word are exactly PostgreSQL's names of the set bits that PostgreSQL defines for the
method: a name is in the list iff it is the (short) name of a set, defined bit.  Nothing about the tool's own table
is mentioned: `shortFlagName` is the Spec's table `pgFlagNames`. -/
def NamesOK (am : AM) (flags : Nat) (names : List String) : Prop :=
  ∀ name, name ∈ names ↔ ∃ k, flags.testBit k = true ∧ shortFlagName am k = some name

theorem flagStrings_ok (am : AM) (flags : Nat) : NamesOK am flags (flagStrings (code am) flags) := by
  intro name
  constructor
  · intro hn
    simp only [flagStrings, List.mem_map, List.mem_filter] at hn
    obtain ⟨e, ⟨he, hb⟩, rfl⟩ := hn
    obtain ⟨k, _, hk, hs⟩ := names_table_sound am (am_mem_all am) e he
    rw [hk, land_pow_ne_zero] at hb
    exact ⟨k, hb, hs⟩
  · rintro ⟨k, hb, hs⟩
    unfold shortFlagName at hs
    cases hl : (pgFlagNames am).lookup k with
    | none => rw [hl] at hs; cases hs
    | some n =>
      rw [hl] at hs
      have hname : shortName am n = name := by simpa using hs
      have hmem := names_table_complete am (am_mem_all am) (k, n) (lookup_mem _ _ _ hl)
      simp only [flagStrings, List.mem_map, List.mem_filter]
      exact ⟨(2 ^ k, shortName am n), ⟨hmem, by rw [land_pow_ne_zero]; exact hb⟩, hname⟩

end PgVerif.Proofs.Index
