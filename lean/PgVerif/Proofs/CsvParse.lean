/-
  Helper lemmas for C13 (CSV side): Spec.Csv reads back what the model of encoding/csv.Writer (+ fix 07) writes.
-/
import PgVerif.Spec.CsvExport
import PgVerif.Model.ExportCsv
import PgVerif.Proofs.SqlLex
namespace PgVerif.Proofs.CsvParse
open PgVerif PgVerif.Export PgVerif.Spec.Csv PgVerif.Model.Export

theorem escapeQ_cons (q c : UInt8) (s : Bytes) : escapeQ q (c :: s) = escapeByte q c ++ escapeQ q s := by
  simp [escapeQ]

/-- a quoted body with doubled quotes, a closing quote and then anything but a quote reads back as the original -/
theorem quoted_escape (s rest : Bytes) (hr : rest.head? ≠ some 34) :
    quoted (escapeQ 34 s ++ 34 :: rest) = some (s, rest) := by
  induction s with
  | nil =>
    cases rest with
    | nil => simp [escapeQ, quoted]
    | cons c2 t =>
      have : c2 ≠ 34 := by intro h; apply hr; simp [h]
      simp [escapeQ, quoted, this]
  | cons c s ih =>
    rw [escapeQ_cons]
    by_cases hc : c = 34
    · subst hc
      simp only [escapeByte, if_true, List.cons_append, List.nil_append, quoted, ih, Option.map_some]
    · simp only [escapeByte, hc, if_false, List.cons_append, List.nil_append]
      cases h : escapeQ 34 s ++ 34 :: rest with
      | nil => simp at h
      | cons c2 t =>
        rw [quoted]
        simp only [hc, if_false]
        rw [← h, ih]
        rfl

def plainByte (c : UInt8) : Bool := !(c == 10 || c == 13 || c == 34 || c == 44)

theorem unquoted_plain (x rest : Bytes) (sep : UInt8) (hs : isSep sep = true) (hx : ∀ c ∈ x, plainByte c = true) :
    unquoted (x ++ sep :: rest) = some (x, sep :: rest) := by
  induction x with
  | nil => simp [unquoted, hs]
  | cons c x ih =>
    have hc := hx c (by simp)
    have h1 : isSep c = false := by
      simp only [plainByte, isSep] at hc ⊢
      cases h10 : c == 10 <;> cases h13 : c == 13 <;> cases h44 : c == 44 <;> simp_all
    have h2 : c ≠ 34 := by
      intro h; subst h; simp [plainByte] at hc
    simp only [List.cons_append, unquoted, h1, h2, if_false, Bool.false_eq_true]
    rw [ih (fun d hd => hx d (by simp [hd]))]
    rfl

/-- a field that the writer leaves bare contains no comma, quote, CR or LF -/
theorem plain_of_noQuotes (x : Bytes) (h : fieldNeedsQuotes x = false) : ∀ c ∈ x, plainByte c = true := by
  unfold fieldNeedsQuotes at h
  split at h
  · rename_i he; simp at he; subst he; simp
  · split at h
    · simp at h
    · split at h
      · simp at h
      · rename_i hany
        intro c hc
        simp only [List.any_eq_true, not_exists, not_and, Bool.not_eq_true] at hany
        have := hany c hc
        simp [plainByte, this]

/-- one field as csv.Writer writes it, followed by a comma or LF, reads back exactly -/
theorem field_csvField (x rest : Bytes) (sep : UInt8) (hs : sep = 44 ∨ sep = 10) :
    field (csvField x ++ sep :: rest) = some (x, sep :: rest) := by
  have hsep : isSep sep = true := by rcases hs with h | h <;> subst h <;> decide
  have hne : sep ≠ 34 := by rcases hs with h | h <;> subst h <;> decide
  unfold csvField
  by_cases hq : fieldNeedsQuotes x = true
  · rw [if_pos hq]
    simp only [List.cons_append, List.append_assoc, List.nil_append, field]
    rw [quoted_escape x (sep :: rest) (by simp [hne])]
    simp [hsep]
  · rw [if_neg hq]
    simp only [Bool.not_eq_true] at hq
    have hp := plain_of_noQuotes x hq
    have hu := unquoted_plain x rest sep hsep hp
    cases x with
    | nil =>
      simp only [List.nil_append] at hu ⊢
      unfold field
      split
      · rename_i heq; simp at heq; exact absurd heq.1 hne
      · exact hu
    | cons c x =>
      have h2 : c ≠ 34 := by
        intro h; subst h; have := hp 34 (by simp); simp [plainByte] at this
      unfold field
      split
      · rename_i heq; simp at heq; exact absurd heq.1 h2
      · exact hu

/-- a record of at least one field, terminated by LF, reads back as its fields -/
theorem record_csvRecord (fields : List Bytes) (hne : fields ≠ []) (rest : Bytes) :
    ∀ f, fields.length ≤ f → record f (csvRecord fields ++ rest) = some (fields, rest) := by
  unfold csvRecord
  induction fields with
  | nil => exact absurd rfl hne
  | cons x more ih =>
    intro f hf
    cases f with
    | zero => simp at hf
    | succ f =>
      cases more with
      | nil =>
        simp only [List.map, joinB, List.append_assoc, List.cons_append, List.nil_append, record]
        rw [field_csvField x rest 10 (Or.inr rfl)]
        simp
      | cons y more' =>
        simp only [List.map, joinB, List.append_assoc, List.cons_append, List.nil_append, record]
        rw [field_csvField x _ 44 (Or.inl rfl)]
        have := ih (by simp) f (by simp at hf ⊢; omega)
        simp only [List.map, List.append_assoc, List.cons_append, List.nil_append] at this
        simp [this]

/-- the text of one record as the (fixed) table writer emits it: a single empty field is written `""` -/
def lineText (r : List Bytes) : Bytes := if r == [[]] then [34, 34, 10] else csvRecord r

theorem record_lineText (r : List Bytes) (hne : r ≠ []) (rest : Bytes) (f : Nat) (hf : r.length ≤ f) :
    record f (lineText r ++ rest) = some (r, rest) := by
  unfold lineText
  by_cases h : (r == [[]]) = true
  · have : r = [[]] := by simpa using h
    subst this
    cases f with
    | zero => simp at hf
    | succ f => simp [record, field, quoted, isSep]
  · rw [if_neg h]
    exact record_csvRecord r hne rest f hf

theorem joinB_length (fs : List Bytes) (hne : fs ≠ []) : fs.length ≤ (joinB [44] fs).length + 1 := by
  induction fs with
  | nil => exact absurd rfl hne
  | cons x more ih =>
    cases more with
    | nil => simp [joinB]
    | cons y more' =>
      have := ih (by simp)
      simp only [joinB, List.length_append, List.length_cons, List.length_nil] at this ⊢
      omega

theorem lineText_length (r : List Bytes) (hne : r ≠ []) : r.length ≤ (lineText r).length := by
  unfold lineText
  split
  · rename_i h; have : r = [[]] := by simpa using h
    subst this; simp
  · have := joinB_length (r.map csvField) (by simpa using hne)
    simp only [csvRecord, List.length_append, List.length_map, List.length_cons, List.length_nil] at this ⊢
    omega

/-- a written record never starts with a line break (so it is not mistaken for an empty line) -/
theorem lineText_head (r : List Bytes) (hne : r ≠ []) : ∃ c t, lineText r = c :: t ∧ c ≠ 10 ∧ c ≠ 13 := by
  unfold lineText
  by_cases h : (r == [[]]) = true
  · rw [if_pos h]; exact ⟨34, [34, 10], rfl, by decide, by decide⟩
  · rw [if_neg h]
    cases r with
    | nil => exact absurd rfl hne
    | cons x more =>
      unfold csvRecord csvField
      by_cases hq : fieldNeedsQuotes x = true
      · cases more with
        | nil => simp only [List.map, joinB, hq, if_true]; exact ⟨34, _, rfl, by decide, by decide⟩
        | cons y more' => simp only [List.map, joinB, hq, if_true]; exact ⟨34, _, rfl, by decide, by decide⟩
      · have hp := plain_of_noQuotes x (by simpa using hq)
        cases x with
        | nil =>
          cases more with
          | nil => simp at h
          | cons y more' => simp only [List.map, joinB, hq]; exact ⟨44, _, rfl, by decide, by decide⟩
        | cons c x' =>
          have hc := hp c (by simp)
          have h10 : c ≠ 10 := by intro e; subst e; simp [plainByte] at hc
          have h13 : c ≠ 13 := by intro e; subst e; simp [plainByte] at hc
          cases more with
          | nil => simp only [List.map, joinB, hq]; exact ⟨c, _, rfl, h10, h13⟩
          | cons y more' => simp only [List.map, joinB, hq]; exact ⟨c, _, rfl, h10, h13⟩

def linesText (recs : List (List Bytes)) : Bytes := recs.flatMap lineText

theorem skipBlank_cons (c : UInt8) (t : Bytes) (h10 : c ≠ 10) (h13 : c ≠ 13) : skipBlank (c :: t) = c :: t := by
  unfold skipBlank
  split
  · rename_i heq; simp at heq; exact absurd heq.1 h10
  · rename_i heq; simp at heq; exact absurd heq.1 h13
  · rfl

/-- the written records, one after the other, read back as exactly these records -/
theorem recordsF_lines (recs : List (List Bytes)) (hall : ∀ r ∈ recs, r ≠ []) (tail : Bytes) (htail : skipBlank tail = []) :
    ∀ f, recs.length + 1 ≤ f → recordsF f (linesText recs ++ tail) = some recs := by
  induction recs with
  | nil =>
    intro f hf
    cases f with
    | zero => omega
    | succ f => simp [linesText, recordsF, htail]
  | cons r recs ih =>
    intro f hf
    cases f with
    | zero => omega
    | succ f =>
      have hr : r ≠ [] := hall r (by simp)
      obtain ⟨c, t, hct, h10, h13⟩ := lineText_head r hr
      have hlen := lineText_length r hr
      have hlt : linesText (r :: recs) ++ tail = c :: (t ++ (linesText recs ++ tail)) := by
        simp [linesText, hct]
      rw [hlt, recordsF, skipBlank_cons c _ h10 h13]
      simp only []
      have hrec : record ((c :: (t ++ (linesText recs ++ tail))).length + 1) (c :: (t ++ (linesText recs ++ tail)))
          = some (r, linesText recs ++ tail) := by
        have := record_lineText r hr (linesText recs ++ tail) ((c :: (t ++ (linesText recs ++ tail))).length + 1)
          (by rw [hct] at hlen; simp only [List.length_cons, List.length_append] at hlen ⊢; omega)
        rw [hct] at this
        simpa using this
      rw [hrec]
      simp only [List.length_cons, List.length_append]
      rw [if_pos (by omega)]
      rw [ih (fun x hx => hall x (by simp [hx])) f (by simp at hf; omega)]
      rfl

theorem linesText_length (recs : List (List Bytes)) (hall : ∀ r ∈ recs, r ≠ []) : recs.length ≤ (linesText recs).length := by
  induction recs with
  | nil => simp
  | cons r recs ih =>
    have h1 := lineText_length r (hall r (by simp))
    have hr : r ≠ [] := hall r (by simp)
    have h2 := ih (fun x hx => hall x (by simp [hx]))
    simp only [linesText, List.flatMap_cons, List.length_append, List.length_cons] at h2 ⊢
    cases r with
    | nil => exact absurd rfl hr
    | cons x more => simp only [List.length_cons] at h1; omega

theorem parse_lines (recs : List (List Bytes)) (hall : ∀ r ∈ recs, r ≠ []) : parse (linesText recs) = some recs := by
  unfold parse
  have := recordsF_lines recs hall [] rfl ((linesText recs).length + 1) (by have := linesText_length recs hall; omega)
  simpa using this


/-! ### the model's table text is these lines -/

def expectedRecords (F : FloatFmt) (t : TableDump) : List (List Bytes) :=
  t.columns.map (·.name) :: t.rows.map fun r => t.columns.map (cellCSV F r)

theorem tableToCSV_lines (F : FloatFmt) (t : TableDump) (hc : t.columns ≠ []) (hh : t.columns.map (·.name) ≠ [[]]) :
    tableToCSV F t = linesText (expectedRecords F t) := by
  have he : t.columns.isEmpty = false := by
    cases h : t.columns with
    | nil => exact absurd h hc
    | cons _ _ => rfl
  have hl : lineText (t.columns.map (·.name)) = csvRecord (t.columns.map (·.name)) := by
    unfold lineText
    rw [if_neg (by simpa using hh)]
  unfold tableToCSV expectedRecords linesText
  rw [he]
  simp only [Bool.false_eq_true, if_false, List.flatMap_cons, hl, List.flatMap_map]
  rfl

/-! ### section headers -/

theorem isPrefix_append (a b : Bytes) : Spec.SqlLex.isPrefix a (a ++ b) = true := by
  induction a with
  | nil => simp [Spec.SqlLex.isPrefix]
  | cons c a ih => simp [Spec.SqlLex.isPrefix, ih]

theorem mem_splits (sep x y : Bytes) (hs : sep ≠ []) : (x, y) ∈ Spec.CsvExport.splits sep (x ++ sep ++ y) := by
  induction x with
  | nil =>
    cases sep with
    | nil => exact absurd rfl hs
    | cons c sep' =>
      simp only [List.nil_append, List.cons_append, Spec.CsvExport.splits]
      have := isPrefix_append (c :: sep') y
      simp only [List.cons_append] at this
      simp [this]
  | cons c x ih =>
    simp only [List.cons_append, Spec.CsvExport.splits, List.mem_append, List.mem_map]
    right
    exact ⟨(x, y), by simpa using ih, rfl⟩


/-- the section header without its LF -/
def headerLine (db table : Bytes) : Bytes :=
  Spec.SqlLex.asc "# Database: " ++ commentText db ++ Spec.SqlLex.asc ", Table: " ++ commentText table

theorem sectionHeader_eq (db table : Bytes) : sectionHeader db table = headerLine db table ++ [10] := by
  simp [sectionHeader, headerLine, asc, Spec.SqlLex.asc]

theorem headerLine_noNewline (db table : Bytes) : ∀ c ∈ headerLine db table, (c == 10 || c == 13) = false := by
  intro c hc
  have key : ∀ d, Spec.SqlLex.isNewline d = (d == 10 || d == 13) := fun d => rfl
  simp only [headerLine, List.mem_append] at hc
  rcases hc with ((h | h) | h) | h
  · revert c; decide
  · rw [← key]; exact Proofs.SqlLex.commentText_noNewline db c h
  · revert c; decide
  · rw [← key]; exact Proofs.SqlLex.commentText_noNewline table c h

/-- the header line of a section is a single line that decodes back to the two names -/
theorem headerOK_headerLine (db table : Bytes) : Spec.CsvExport.headerOK db table (headerLine db table) = true := by
  unfold Spec.CsvExport.headerOK
  simp only [Bool.and_eq_true, Bool.not_eq_true', List.any_eq_false, List.any_eq_true, beq_iff_eq]
  refine ⟨⟨?_, ?_⟩, ?_⟩
  · intro c hc
    have := headerLine_noNewline db table c hc
    simpa using this
  · simp [headerLine, List.append_assoc]
  · refine ⟨(commentText db, commentText table), ?_, ?_⟩
    · have : (headerLine db table).drop (Spec.SqlLex.asc "# Database: ").length
          = commentText db ++ Spec.SqlLex.asc ", Table: " ++ commentText table := by
        simp [headerLine, List.append_assoc]
      rw [this]
      exact mem_splits _ _ _ (by decide)
    · simp [Proofs.SqlLex.commentDecode_commentText]


/-! ### reading a multi-table export section by section -/

theorem takeLine_line (line rest : Bytes) (h : ∀ c ∈ line, (c == 10 || c == 13) = false) :
    Spec.CsvExport.takeLine (line ++ 10 :: rest) = some (line, rest) := by
  induction line with
  | nil => simp [Spec.CsvExport.takeLine]
  | cons c line ih =>
    have hc : c ≠ 10 := by
      intro e; have := h c (by simp); subst e; simp at this
    simp only [List.cons_append, Spec.CsvExport.takeLine, hc, if_false]
    rw [ih (fun d hd => h d (by simp [hd]))]
    rfl

theorem takeRecords_lines (recs : List (List Bytes)) (hall : ∀ r ∈ recs, r ≠ []) (tail : Bytes) :
    takeRecords recs.length (linesText recs ++ tail) = some (recs, tail) := by
  induction recs with
  | nil => simp [takeRecords, linesText]
  | cons r recs ih =>
    have hr : r ≠ [] := hall r (by simp)
    obtain ⟨c, t, hct, h10, h13⟩ := lineText_head r hr
    have hlen := lineText_length r hr
    have hlt : linesText (r :: recs) ++ tail = c :: (t ++ (linesText recs ++ tail)) := by
      simp [linesText, hct]
    rw [hlt]
    rw [List.length_cons, takeRecords, skipBlank_cons c _ h10 h13]
    simp only []
    have hrec : record ((c :: (t ++ (linesText recs ++ tail))).length + 1) (c :: (t ++ (linesText recs ++ tail)))
        = some (r, linesText recs ++ tail) := by
      have := record_lineText r hr (linesText recs ++ tail) ((c :: (t ++ (linesText recs ++ tail))).length + 1)
        (by rw [hct] at hlen; simp only [List.length_cons, List.length_append] at hlen ⊢; omega)
      rw [hct] at this
      simpa using this
    rw [hrec]
    simp only []
    rw [ih (fun x hx => hall x (by simp [hx]))]
    rfl

/-- the records a reader must get from a table's section (none for a table without columns) -/
def expectedOf (F : FloatFmt) (t : TableDump) : List (List Bytes) := if t.columns.isEmpty then [] else expectedRecords F t

theorem tableToCSV_expectedOf (F : FloatFmt) (t : TableDump) (hh : t.columns.map (·.name) ≠ [[]]) :
    tableToCSV F t = linesText (expectedOf F t) ∧ ∀ r ∈ expectedOf F t, r ≠ [] := by
  unfold expectedOf
  by_cases he : t.columns.isEmpty = true
  · simp only [he, if_true]
    exact ⟨by simp [tableToCSV, he, linesText], by simp⟩
  · have hc : t.columns ≠ [] := by intro e; simp [e] at he
    simp only [he, Bool.false_eq_true, if_false]
    refine ⟨tableToCSV_lines F t hc hh, ?_⟩
    intro r hr
    simp only [expectedRecords, List.mem_cons, List.mem_map] at hr
    rcases hr with h | ⟨row, _, h⟩
    · subst h; simpa using hc
    · subst h; simpa using hc

def sectionsOfDb (F : FloatFmt) (db : DatabaseDump) : List (Bytes × Bytes × List (List Bytes)) :=
  db.tables.map fun t => (db.name, t.name, expectedOf F t)

theorem sections_ok (F : FloatFmt) (dbname : Bytes) : ∀ (ts : List TableDump) (more : List (Bytes × Bytes × List (List Bytes))) (tail : Bytes),
    (∀ t ∈ ts, t.columns.map (·.name) ≠ [[]]) →
    Spec.CsvExport.sectionsVerdict ((ts.map fun t => (dbname, t.name, expectedOf F t)) ++ more)
      ((ts.flatMap fun t => sectionHeader dbname t.name ++ tableToCSV F t ++ [10]) ++ tail)
      = Spec.CsvExport.sectionsVerdict more tail
  | [], more, tail, _ => by simp
  | t :: ts, more, tail, h => by
    obtain ⟨hlines, hne⟩ := tableToCSV_expectedOf F t (h t (by simp))
    have ih := sections_ok F dbname ts more tail (fun x hx => h x (by simp [hx]))
    simp only [List.map, List.flatMap_cons, List.cons_append, List.append_assoc]
    rw [Spec.CsvExport.sectionsVerdict, sectionHeader_eq, List.append_assoc]
    simp only [List.cons_append, List.nil_append]
    rw [takeLine_line _ _ (headerLine_noNewline dbname t.name)]
    simp only [headerOK_headerLine, Bool.not_true, Bool.false_eq_true, if_false]
    rw [hlines, takeRecords_lines _ hne]
    simp only [bne_self_eq_false, Bool.false_eq_true, if_false]
    simp only [List.append_assoc] at ih
    exact ih


def sectionsOf (F : FloatFmt) (d : DumpResult) : List (Bytes × Bytes × List (List Bytes)) := d.flatMap (sectionsOfDb F)

theorem dump_sections_ok (F : FloatFmt) : ∀ (d : DumpResult), (∀ db ∈ d, ∀ t ∈ db.tables, t.columns.map (·.name) ≠ [[]]) →
    Spec.CsvExport.sectionsVerdict (sectionsOf F d) (toCSV F d) = "ok"
  | [], _ => by simp [sectionsOf, toCSV, Spec.CsvExport.sectionsVerdict]
  | db :: d, h => by
    have ih := dump_sections_ok F d (fun x hx => h x (by simp [hx]))
    have := sections_ok F db.name db.tables (sectionsOf F d) (toCSV F d) (h db (by simp))
    simp only [sectionsOf, toCSV, List.flatMap_cons, sectionsOfDb, dbToCSV] at this ih ⊢
    rw [this]
    exact ih

end PgVerif.Proofs.CsvParse
