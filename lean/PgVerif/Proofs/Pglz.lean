/-
  decompressPGLZ on rendered token streams (DESIGN.md Appendix B.6, adapted to the fault-aware model):
  the overlapping copy loop `result[start + i % off]` equals the byte-by-byte copy, the tag codec, one
  token step, one control-byte group, the whole stream.
-/
import PgVerif.Model.Pglz
import PgVerif.Spec.Pglz
namespace PgVerif.Proofs.Pglz
open PgVerif PgVerif.Model.Pglz PgVerif.Spec.Pglz
set_option linter.unusedVariables false

/-! ### the copy loop -/

/-- the index of the copy loop is always in range: the fault-aware loop is the plain one -/
theorem copyLoopM_eq (start off raw : Nat) (hoff : 0 < off) (n : Nat) :
    ∀ (i : Nat) (out : Bytes), start + off ≤ out.length →
      copyLoopM start off raw n i out = .ok (copyLoop start off raw n i out) := by
  induction n with
  | zero => intro i out _; rfl
  | succ n ih =>
    intro i out hlen
    simp only [copyLoopM, copyLoop]
    split
    · rw [if_neg (by omega)]
      have hlt : i % off < off := Nat.mod_lt _ hoff
      have hi : start + i % off < out.length := by omega
      rw [idx_ok _ _ hi]
      simp only [ok_bind]
      have hg : out.getD (start + i % off) 0 = out[start + i % off] := by
        simp [List.getD, hi]
      rw [hg]
      exact ih (i+1) _ (by simp; omega)
    · rfl

/-- periodicity invariant: everything written so far from `start` on is `off`-periodic -/
def Periodic (out : Bytes) (start off : Nat) : Prop :=
  ∀ j, start + j < out.length → out.getD (start + j) 0 = out.getD (start + j % off) 0

theorem getD_append_left (a b : Bytes) (i : Nat) (h : i < a.length) : (a ++ b).getD i 0 = a.getD i 0 := by
  simp [List.getD, List.getElem?_append_left h]

theorem getD_append_at (a : Bytes) (x : UInt8) : (a ++ [x]).getD a.length 0 = x := by
  simp [List.getD]

theorem copyLoop_eq (start off raw : Nat) (hoff : 0 < off) (n : Nat) :
    ∀ (i : Nat) (out : Bytes), out.length = start + off + i → out.length + n ≤ raw →
      Periodic out start off →
      copyLoop start off raw n i out = expandMatch off n out := by
  induction n with
  | zero => intro i out _ _ _; rfl
  | succ n ih =>
    intro i out hlen hraw hper
    simp only [copyLoop, expandMatch]
    rw [if_pos (by omega)]
    have hread : out.getD (start + i % off) 0 = out.getD (out.length - off) 0 := by
      have h1 : out.length - off = start + i := by omega
      rw [h1]
      exact (hper i (by omega)).symm
    rw [hread]
    apply ih (i+1)
    · simp; omega
    · simp; omega
    · intro j hj
      simp at hj
      have hlt : i % off < off := Nat.mod_lt _ hoff
      by_cases hjl : start + j < out.length
      · rw [getD_append_left _ _ _ hjl, getD_append_left _ _ _ (by have := Nat.mod_le j off; omega)]
        exact hper j hjl
      · have hje : start + j = out.length := by omega
        have hj' : j = off + i := by omega
        rw [hje, getD_append_at]
        have hmod : j % off = i % off := by
          rw [hj', Nat.add_mod_left]
        rw [hmod, getD_append_left _ _ _ (by omega)]
        have h1 : out.length - off = start + i := by omega
        rw [h1]
        exact hper i (by omega)

/-- a match as both decompressors run it: start = len − off, i = 0 -/
theorem copyLoop_match (out : Bytes) (off len raw : Nat) (h1 : 0 < off) (h2 : off ≤ out.length)
    (hraw : out.length + len ≤ raw) :
    copyLoopM (out.length - off) off raw len 0 out = .ok (expandMatch off len out) := by
  rw [copyLoopM_eq _ _ _ h1 _ _ _ (by omega)]
  congr 1
  apply copyLoop_eq (out.length - off) off raw h1 len 0 out (by omega) hraw
  intro j hj
  have : j < off := by omega
  rw [Nat.mod_eq_of_lt this]

/-! ### tag codec -/

set_option maxRecDepth 100000 in
theorem and240 : ∀ x : Fin 256, x.val &&& 0xF0 = x.val / 16 * 16 := by decide
theorem and15 (x : Nat) : x &&& 0x0F = x % 16 := by
  have := Nat.and_two_pow_sub_one_eq_mod x 4; simpa using this

theorem dec_tag (off l : Nat) (ho : off ≤ 4095) (hl : l ≤ 15) :
    decLen (UInt8.ofNat (off / 256 * 16 + l)) = l + 3 ∧
    decOff (UInt8.ofNat (off / 256 * 16 + l)) (UInt8.ofNat (off % 256)) = off := by
  have hx : off / 256 * 16 + l < 256 := by omega
  have h1 : (UInt8.ofNat (off / 256 * 16 + l)).toNat = off / 256 * 16 + l := by
    simp [UInt8.toNat_ofNat']; omega
  have h2 : (UInt8.ofNat (off % 256)).toNat = off % 256 := by
    simp [UInt8.toNat_ofNat']
  constructor
  · simp only [decLen, h1, and15]; omega
  · simp only [decOff, h1, h2]
    have := and240 ⟨off / 256 * 16 + l, hx⟩
    simp only at this
    rw [this]
    have h3 : (off / 256 * 16 + l) / 16 * 16 = off / 256 * 16 := by omega
    have e1 : (off / 256 * 16) <<< 4 = (off / 256) <<< 8 := by
      simp only [Nat.shiftLeft_eq]; omega
    rw [h3, e1, ← Nat.shiftLeft_add_eq_or_of_lt (i := 8) (by omega : off % 256 < 2 ^ 8) (off / 256),
      Nat.shiftLeft_eq]
    omega

/-! ### lengths on the spec side -/

theorem expandMatch_length (off n : Nat) (out : Bytes) : (expandMatch off n out).length = out.length + n := by
  induction n generalizing out with
  | zero => rfl
  | succ n ih => simp [expandMatch, ih]; omega

theorem expandTok_length (out : Bytes) (t : Tok) : (expandTok out t).length = out.length + t.produces := by
  cases t <;> simp [expandTok, Tok.produces, expandMatch_length]

def producesAll (ts : List Tok) : Nat := (ts.map Tok.produces).sum

theorem producesAll_cons (t : Tok) (ts : List Tok) : producesAll (t :: ts) = t.produces + producesAll ts := by
  simp [producesAll]

theorem expandFrom_length (ts : List Tok) (out : Bytes) : (expandFrom ts out).length = out.length + producesAll ts := by
  induction ts generalizing out with
  | nil => simp [expandFrom, producesAll]
  | cons t ts ih =>
    simp only [expandFrom, List.foldl_cons] at ih ⊢
    rw [ih, expandTok_length]; simp [producesAll]; omega

/-! ### one token, one group, the whole stream -/

theorem items_tok (raw n ctrl bit : Nat) (t : Tok) (rest out : Bytes)
    (hwf : t.WF) (hoff : t.offOK out.length)
    (hbit : ctrl.testBit bit = t.isMatch) (hraw : out.length + t.produces ≤ raw) :
    items raw (n+1) ctrl bit (renderTok t ++ rest) out = items raw n ctrl (bit+1) rest (expandTok out t) := by
  cases t with
  | lit b =>
    simp only [Tok.produces] at hraw
    simp only [items, renderTok, List.cons_append, List.nil_append, hbit, Tok.isMatch, expandTok]
    rw [if_neg (by simp; omega)]; simp
  | mat off len =>
    obtain ⟨h1, h2, h3, h4⟩ := hwf
    simp only [Tok.produces] at hraw
    simp only [Tok.offOK] at hoff
    by_cases hl : len < 18
    · obtain ⟨dl, dof⟩ := dec_tag off (len - 3) h2 (by omega)
      simp only [items, renderTok, hl, if_true, List.cons_append, List.nil_append, hbit, Tok.isMatch, expandTok]
      rw [if_neg (by simp; omega)]
      simp only [dl, dof, if_true]
      rw [if_neg (by omega), if_neg (by omega), show len - 3 + 3 = len by omega,
        copyLoop_match out off len raw h1 hoff hraw]
      rfl
    · obtain ⟨dl, dof⟩ := dec_tag off 15 h2 (by omega)
      have hb2 : (UInt8.ofNat (len - 18)).toNat = len - 18 := by simp [UInt8.toNat_ofNat']; omega
      simp only [items, renderTok, hl, if_false, List.cons_append, List.nil_append, hbit, Tok.isMatch, expandTok]
      rw [if_neg (by simp; omega)]
      simp only [dl, dof, if_true, hb2]
      rw [if_neg (by omega), show 15 + 3 + (len - 18) = len by omega,
        copyLoop_match out off len raw h1 hoff hraw]
      rfl

theorem ctrlOf_lt (g : List Tok) : ctrlOf g < 2 ^ g.length := by
  induction g with
  | nil => simp [ctrlOf]
  | cons t ts ih => simp only [ctrlOf, List.length_cons, Nat.pow_succ]; split <;> omega

theorem ctrlOf_testBit (g : List Tok) (i : Nat) (h : i < g.length) :
    (ctrlOf g).testBit i = g[i].isMatch := by
  induction g generalizing i with
  | nil => simp at h
  | cons t ts ih =>
    cases i with
    | zero =>
      simp only [ctrlOf, List.getElem_cons_zero, Nat.testBit_zero]
      cases t.isMatch <;> simp <;> omega
    | succ i =>
      simp only [ctrlOf, List.getElem_cons_succ, Nat.testBit_succ]
      rw [← ih i (by simpa using h)]
      congr 1
      cases t.isMatch <;> simp <;> omega

theorem items_group (raw ctrl : Nat) (g : List Tok) :
    ∀ (n bit : Nat) (rest out : Bytes), g.length ≤ n → (∀ t ∈ g, t.WF) → OffsOK g out.length →
      (∀ i (h : i < g.length), ctrl.testBit (bit + i) = g[i].isMatch) →
      out.length + producesAll g ≤ raw →
      items raw n ctrl bit (g.flatMap renderTok ++ rest) out
        = items raw (n - g.length) ctrl (bit + g.length) rest (expandFrom g out) := by
  induction g with
  | nil => intro n bit rest out _ _ _ _ _; simp [expandFrom]
  | cons t ts ih =>
    intro n bit rest out hn hwf hoffs hbits hraw
    obtain ⟨ho, hos⟩ := hoffs
    rw [producesAll_cons] at hraw
    cases n with
    | zero => simp at hn
    | succ n =>
      simp only [List.flatMap_cons, List.append_assoc]
      rw [items_tok raw n ctrl bit t _ out (hwf t (by simp)) ho
        (by have := hbits 0 (by simp); simpa using this) (by omega)]
      have := ih n (bit+1) rest (expandTok out t) (by simpa using hn)
        (fun u hu => hwf u (by simp [hu]))
        (by rw [expandTok_length]; exact hos)
        (fun i h => by
          have := hbits (i+1) (by simpa using h)
          simpa [Nat.add_assoc, Nat.add_comm 1 i] using this)
        (by rw [expandTok_length]; omega)
      rw [this]
      simp only [expandFrom, List.foldl_cons, List.length_cons]
      congr 1 <;> omega

theorem items_nil (raw n ctrl bit : Nat) (out : Bytes) : items raw n ctrl bit [] out = .ok ([], out) := by
  cases n <;> simp [items]

theorem produces_pos (t : Tok) (h : t.WF) : 1 ≤ t.produces := by
  cases t with
  | lit b => simp [Tok.produces]
  | mat off len => obtain ⟨_, _, h3, _⟩ := h; simp [Tok.produces]; omega

/-- Whole stream: groups of 8 tokens, the last one possibly shorter. -/
theorem decompress_render (raw : Nat) (gs : List (List Tok)) :
    ∀ (fuel : Nat) (out : Bytes), gs.length ≤ fuel →
      (∀ g ∈ gs, g ≠ [] ∧ g.length ≤ 8 ∧ ∀ t ∈ g, t.WF) →
      (∀ g ∈ gs.dropLast, g.length = 8) →
      OffsOK gs.flatten out.length →
      raw = out.length + producesAll gs.flatten →
      decompress raw fuel (gs.flatMap renderGroup) out = .ok (expandFrom gs.flatten out) := by
  induction gs with
  | nil => intro fuel out _ _ _ _ _; cases fuel <;> simp [decompress, expandFrom]
  | cons g gs ih =>
    intro fuel out hf hg hfull hoffs hraw
    obtain ⟨hne, hle, hwf⟩ := hg g (by simp)
    cases fuel with
    | zero => simp at hf
    | succ fuel =>
      have hsplit : producesAll (g :: gs).flatten = producesAll g + producesAll gs.flatten := by
        simp [producesAll, List.flatten_cons]
      have hpos : 1 ≤ producesAll g := by
        cases g with
        | nil => exact absurd rfl hne
        | cons t ts => rw [producesAll_cons]; have := produces_pos t (hwf t (by simp)); omega
      have hoffs' : OffsOK g out.length ∧ OffsOK gs.flatten (out.length + producesAll g) := by
        clear ih hfull hraw hsplit hpos hg hf hne hle hwf
        simp only [List.flatten_cons] at hoffs
        induction g generalizing out with
        | nil => simpa [OffsOK, producesAll] using hoffs
        | cons t ts iht =>
          obtain ⟨h1, h2⟩ := hoffs
          have := iht (out := expandTok out t) (by rw [expandTok_length]; exact h2)
          rw [expandTok_length] at this
          exact ⟨⟨h1, this.1⟩, by rw [producesAll_cons]; simpa [Nat.add_assoc] using this.2⟩
      have hc : (UInt8.ofNat (ctrlOf g)).toNat = ctrlOf g := by
        have := ctrlOf_lt g
        have : 2 ^ g.length ≤ 2 ^ 8 := Nat.pow_le_pow_right (by omega) hle
        simp [UInt8.toNat_ofNat']; omega
      simp only [List.flatMap_cons, renderGroup, List.cons_append, decompress]
      rw [if_neg (by simp; omega)]
      simp only [hc]
      rw [items_group raw (ctrlOf g) g 8 0 _ out hle hwf hoffs'.1
        (fun i h => by simpa using ctrlOf_testBit g i h) (by omega)]
      cases gs with
      | nil =>
        simp only [List.flatMap_nil, items_nil, ok_bind, List.flatten_cons, List.flatten_nil, List.append_nil]
        cases fuel <;> simp [decompress]
      | cons g2 gs2 =>
        have h8 : g.length = 8 := hfull g (by simp [List.dropLast])
        simp only [h8, Nat.sub_self, items, ok_bind, pure_eq_ok, List.flatten_cons]
        have := ih fuel (expandFrom g out) (by simpa using hf)
          (fun g' hg' => hg g' (by simp [hg']))
          (fun g' hg' => hfull g' (by simp [List.dropLast] at hg' ⊢; exact Or.inr hg'))
          (by rw [expandFrom_length]; exact hoffs'.2)
          (by rw [expandFrom_length]; omega)
        rw [this]
        simp [expandFrom, List.foldl_append]

end PgVerif.Proofs.Pglz

namespace PgVerif.Proofs.Pglz
open PgVerif PgVerif.Model.Pglz PgVerif.Spec.Pglz

/-! ### grouping by 8 -/

theorem group8_flatten (ts : List Tok) : (group8 ts).flatten = ts := by
  induction ts using group8.induct with
  | case1 a b c d e f g h rest ih => simp [group8, ih]
  | case2 => rfl
  | case3 l h1 h2 =>
    rw [group8]
    · simp
    · exact h1
    · exact h2

theorem group8_wf (ts : List Tok) : ∀ g ∈ group8 ts, g ≠ [] ∧ g.length ≤ 8 := by
  induction ts using group8.induct with
  | case1 a b c d e f g h rest ih =>
    intro x hx
    simp only [group8, List.mem_cons] at hx
    rcases hx with rfl | hx
    · simp
    · exact ih x hx
  | case2 => intro x hx; simp [group8] at hx
  | case3 l h1 h2 =>
    intro x hx
    rw [group8] at hx
    · simp only [List.mem_singleton] at hx
      subst hx
      refine ⟨fun e => h2 e, ?_⟩
      match x, h1 with
      | [], _ => simp
      | [_], _ => simp
      | [_, _], _ => simp
      | [_, _, _], _ => simp
      | [_, _, _, _], _ => simp
      | [_, _, _, _, _], _ => simp
      | [_, _, _, _, _, _], _ => simp
      | [_, _, _, _, _, _, _], _ => simp
      | a :: b :: c :: d :: e :: f :: g :: h :: rest, h1 => exact absurd rfl (h1 a b c d e f g h rest)
    · exact h1
    · exact h2

theorem group8_full (ts : List Tok) : ∀ g ∈ (group8 ts).dropLast, g.length = 8 := by
  induction ts using group8.induct with
  | case1 a b c d e f g h rest ih =>
    intro x hx
    rw [group8] at hx
    cases hr : group8 rest with
    | nil => rw [hr] at hx; simp [List.dropLast] at hx
    | cons g2 gs2 =>
      rw [hr] at hx ih
      simp only [List.dropLast, List.mem_cons] at hx
      rcases hx with rfl | hx
      · rfl
      · exact ih x hx
  | case2 => intro x hx; simp [group8] at hx
  | case3 l h1 h2 =>
    intro x hx
    rw [group8] at hx
    · simp [List.dropLast] at hx
    · exact h1
    · exact h2

theorem render_length_ge (gs : List (List Tok)) : gs.length ≤ (gs.flatMap renderGroup).length := by
  induction gs with
  | nil => simp
  | cons g gs ih => simp only [List.flatMap_cons, List.length_append, List.length_cons, renderGroup]; omega

/-- decompressPGLZ on the rendering of any valid token list (at least 4 stream bytes: the Go function rejects
shorter input) returns exactly the bytes the tokens stand for. -/
theorem decompressPGLZ_render (ts : List Tok) (h : PglzWF ts) (h4 : 4 ≤ (renderPglz ts).length) :
    decompressPGLZ (renderPglz ts) (expand ts).length = .ok (some (expand ts)) := by
  obtain ⟨hwf, hoffs⟩ := h
  unfold decompressPGLZ
  rw [if_neg (by omega)]
  have hfl := group8_flatten ts
  have := decompress_render (expand ts).length (group8 ts) ((renderPglz ts).length + 1) []
    (by have := render_length_ge (group8 ts); unfold renderPglz; omega)
    (fun g hg => ⟨(group8_wf ts g hg).1, (group8_wf ts g hg).2,
      fun t ht => hwf t (by rw [← hfl]; exact List.mem_flatten.mpr ⟨g, hg, ht⟩)⟩)
    (group8_full ts)
    (by rw [hfl]; exact hoffs)
    (by rw [hfl]; simp [expand, expandFrom_length])
  unfold renderPglz at this ⊢
  rw [this, hfl]
  rfl

end PgVerif.Proofs.Pglz

namespace PgVerif.Proofs.Pglz
open PgVerif PgVerif.Model.Pglz PgVerif.Spec.Pglz

/-! ### a stream shorter than 4 bytes is never smaller than what it stands for -/

theorem renderTok_length_pos (t : Tok) : 1 ≤ (renderTok t).length := by
  cases t with
  | lit b => simp [renderTok]
  | mat off len => simp only [renderTok]; split <;> simp

theorem flatMap_renderTok_ge (g : List Tok) : g.length ≤ (g.flatMap renderTok).length := by
  induction g with
  | nil => simp
  | cons t ts ih =>
    have := renderTok_length_pos t
    simp only [List.flatMap_cons, List.length_append, List.length_cons]; omega

theorem render_groups_ge (gs : List (List Tok)) : gs.flatten.length + gs.length ≤ (gs.flatMap renderGroup).length := by
  induction gs with
  | nil => simp
  | cons g gs ih =>
    have := flatMap_renderTok_ge g
    simp only [List.flatten_cons, List.flatMap_cons, List.length_append, List.length_cons, renderGroup]; omega

theorem renderPglz_ge (ts : List Tok) (hne : ts ≠ []) : ts.length + 1 ≤ (renderPglz ts).length := by
  have h := render_groups_ge (group8 ts)
  rw [group8_flatten] at h
  have : 1 ≤ (group8 ts).length := by
    cases hg : group8 ts with
    | nil => have := group8_flatten ts; rw [hg] at this; simp at this; exact absurd this hne
    | cons _ _ => simp
  unfold renderPglz; omega

/-- the compressed form of a value is only kept when it is smaller (`4 + |stream| < |original|`); such a stream has at
least 4 bytes — a shorter one is a control byte and at most two literals -/
theorem pglz_stream_ge4 (ts : List Tok) (h : PglzWF ts) (hc : 4 + (renderPglz ts).length < (expand ts).length) :
    4 ≤ (renderPglz ts).length := by
  obtain ⟨hwf, hoffs⟩ := h
  have hlen : (expand ts).length = producesAll ts := by simp [expand, expandFrom_length]
  rw [hlen] at hc
  match ts, hwf, hoffs, hc with
  | [], _, _, hc => simp [producesAll] at hc
  | [t], hwf, hoffs, hc =>
    cases t with
    | lit b => simp [producesAll, Tok.produces] at hc
    | mat off len =>
      have := hwf (.mat off len) (by simp)
      obtain ⟨h1, _⟩ := this
      simp only [OffsOK, Tok.offOK] at hoffs
      omega
  | [t1, t2], hwf, hoffs, hc =>
    cases t1 with
    | mat off len =>
      have := hwf (.mat off len) (by simp)
      obtain ⟨h1, _⟩ := this
      simp only [OffsOK, Tok.offOK] at hoffs
      omega
    | lit b =>
      cases t2 with
      | lit b2 => simp [producesAll, Tok.produces] at hc; omega
      | mat off len =>
        have : (renderPglz [.lit b, .mat off len]).length = 1 + 1 + (renderTok (.mat off len)).length := by
          simp [renderPglz, group8, renderGroup, renderTok]; omega
        have h2 : 2 ≤ (renderTok (.mat off len)).length := by simp only [renderTok]; split <;> simp
        omega
  | t1 :: t2 :: t3 :: rest, _, _, _ =>
    have := renderPglz_ge (t1 :: t2 :: t3 :: rest) (by simp)
    simp only [List.length_cons] at this; omega

end PgVerif.Proofs.Pglz
