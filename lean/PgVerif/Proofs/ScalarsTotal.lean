/-
  Totality of the scalar model (area `scalars`): helper lemmas for Props/C10/Scalars.lean.
-/
import PgVerif.Model.Scalars
import PgVerif.Proofs.InlineComp
namespace PgVerif.Proofs.Scalars
open PgVerif PgVerif.Model.Scalars PgVerif.Txt

/-- the computation returns (does not fault) -/
def Total {α} (m : M α) : Prop := ∃ r, m = .ok r

theorem total_ok {α} (a : α) : Total (Except.ok a : M α) := ⟨a, rfl⟩
theorem total_pure {α} (a : α) : Total (pure a : M α) := ⟨a, rfl⟩

theorem total_bind {α β} {m : M α} {f : α → M β} (hm : Total m) (hf : ∀ a, Total (f a)) : Total (m >>= f) := by
  obtain ⟨a, ha⟩ := hm
  rw [ha]
  exact hf a

theorem total_ite {α} {c : Prop} [Decidable c] {a b : M α} (ha : c → Total a) (hb : ¬c → Total b) :
    Total (if c then a else b) := by
  by_cases h : c
  · rw [if_pos h]; exact ha h
  · rw [if_neg h]; exact hb h

theorem uN_total (n : Nat) (data : Bytes) (off : Nat) (h : off + n ≤ data.length) : Total (uN n data off) :=
  ⟨_, uN_ok n data off h⟩
theorem idx_total (data : Bytes) (i : Nat) (h : i < data.length) : Total (idx data i) := ⟨_, idx_ok data i h⟩
theorem slice_total (data : Bytes) (lo hi : Nat) (h : hi ≤ data.length) (h2 : lo ≤ hi) : Total (slice data lo hi) :=
  ⟨_, slice_ok data lo hi h h2⟩
theorem sliceTo_total (data : Bytes) (hi : Nat) (h : hi ≤ data.length) : Total (sliceTo data hi) :=
  ⟨_, sliceTo_ok data hi h⟩

theorem slice_length (data : Bytes) (lo hi : Nat) (s : Bytes) (h : slice data lo hi = .ok s) : s.length = hi - lo := by
  unfold slice at h
  split at h
  · cases h
  · injection h with h; subst h; simp; omega

theorem i16_total (data : Bytes) (off : Nat) (h : off + 2 ≤ data.length) : Total (i16 data off) := by
  unfold i16; exact total_bind (uN_total _ _ _ h) fun _ => total_pure _
theorem i32_total (data : Bytes) (off : Nat) (h : off + 4 ≤ data.length) : Total (i32 data off) := by
  unfold i32; exact total_bind (uN_total _ _ _ h) fun _ => total_pure _
theorem i64_total (data : Bytes) (off : Nat) (h : off + 8 ≤ data.length) : Total (i64 data off) := by
  unfold i64; exact total_bind (uN_total _ _ _ h) fun _ => total_pure _
theorem u16_total (data : Bytes) (off : Nat) (h : off + 2 ≤ data.length) : Total (u16 data off) := uN_total _ _ _ h
theorem u32_total (data : Bytes) (off : Nat) (h : off + 4 ≤ data.length) : Total (u32 data off) := uN_total _ _ _ h
theorem u64_total (data : Bytes) (off : Nat) (h : off + 8 ≤ data.length) : Total (u64 data off) := uN_total _ _ _ h

/-! ### the case bodies of decodeScalar -/

theorem decBool_total (data : Bytes) (h : 1 ≤ data.length) : Total (decBool data) := by
  unfold decBool; exact total_bind (idx_total _ _ (by omega)) fun _ => total_pure _
theorem decChar_total (data : Bytes) (h : 1 ≤ data.length) : Total (decChar data) := by
  unfold decChar; exact total_bind (sliceTo_total _ _ h) fun _ => total_pure _
theorem decInt2_total (data : Bytes) (h : 2 ≤ data.length) : Total (decInt2 data) := by
  unfold decInt2; exact total_bind (i16_total _ _ (by omega)) fun _ => total_pure _
theorem decInt4_total (data : Bytes) (h : 4 ≤ data.length) : Total (decInt4 data) := by
  unfold decInt4; exact total_bind (i32_total _ _ (by omega)) fun _ => total_pure _
theorem decInt8_total (data : Bytes) (h : 8 ≤ data.length) : Total (decInt8 data) := by
  unfold decInt8; exact total_bind (i64_total _ _ (by omega)) fun _ => total_pure _
theorem decU32_total (data : Bytes) (h : 4 ≤ data.length) : Total (decU32 data) := by
  unfold decU32; exact total_bind (u32_total _ _ (by omega)) fun _ => total_pure _
theorem decTid_total (data : Bytes) (h : 6 ≤ data.length) : Total (decTid data) := by
  unfold decTid
  exact total_bind (u32_total _ _ (by omega)) fun _ => total_bind (u16_total _ _ (by omega)) fun _ => total_pure _
theorem decFloat4_total (data : Bytes) (h : 4 ≤ data.length) : Total (decFloat4 data) := by
  unfold decFloat4; exact total_bind (u32_total _ _ (by omega)) fun _ => total_pure _
theorem decFloat8_total (data : Bytes) (h : 8 ≤ data.length) : Total (decFloat8 data) := by
  unfold decFloat8; exact total_bind (u64_total _ _ (by omega)) fun _ => total_pure _
theorem decMoney_total (data : Bytes) (h : 8 ≤ data.length) : Total (decMoney data) := by
  unfold decMoney; exact total_bind (i64_total _ _ (by omega)) fun _ => total_pure _

theorem decDate_total (data : Bytes) (h : 4 ≤ data.length) : Total (decDate data) := by
  unfold decDate
  refine total_bind (i32_total _ _ (by omega)) fun d => ?_
  by_cases h1 : d = 2147483647
  · simp [h1]; exact total_ok _
  · by_cases h2 : d = -2147483648
    · simp [h2]; exact total_ok _
    · simp [h1, h2]; exact total_ok _

theorem decTime_total (data : Bytes) (h : 8 ≤ data.length) : Total (decTime data) := by
  unfold decTime; exact total_bind (i64_total _ _ (by omega)) fun _ => total_pure _
theorem decTimeTZ_total (data : Bytes) (h : 12 ≤ data.length) : Total (decTimeTZ data) := by
  unfold decTimeTZ
  exact total_bind (i64_total _ _ (by omega)) fun _ => total_bind (i32_total _ _ (by omega)) fun _ => total_pure _

theorem decTimestamp_total (data : Bytes) (h : 8 ≤ data.length) : Total (decTimestamp data) := by
  unfold decTimestamp
  refine total_bind (i64_total _ _ (by omega)) fun d => ?_
  by_cases h1 : d = 9223372036854775807
  · simp [h1]; exact total_ok _
  · by_cases h2 : d = -9223372036854775808
    · simp [h2]; exact total_ok _
    · simp [h1, h2]; exact total_ok _

theorem macBytes_total (data : Bytes) (n i : Nat) (h : i + n ≤ data.length) : Total (macBytes data n i) := by
  induction n generalizing i with
  | zero => exact total_pure _
  | succ n ih =>
    unfold macBytes
    exact total_bind (idx_total _ _ (by omega)) fun _ => total_bind (ih (i + 1) (by omega)) fun _ => total_pure _

theorem decMac_total (data : Bytes) (n : Nat) (h : n ≤ data.length) : Total (decMac data n) := by
  unfold decMac; exact total_bind (macBytes_total _ _ _ (by omega)) fun _ => total_pure _

theorem decUUID_total (data : Bytes) (h : 16 ≤ data.length) : Total (decUUID data) := by
  unfold decUUID
  exact total_bind (slice_total _ _ _ (by omega) (by omega)) fun _ =>
    total_bind (slice_total _ _ _ (by omega) (by omega)) fun _ =>
    total_bind (slice_total _ _ _ (by omega) (by omega)) fun _ =>
    total_bind (slice_total _ _ _ (by omega) (by omega)) fun _ =>
    total_bind (slice_total _ _ _ (by omega) (by omega)) fun _ => total_pure _

theorem decPgLsn_total (data : Bytes) (h : 8 ≤ data.length) : Total (decPgLsn data) := by
  unfold decPgLsn
  exact total_bind (u32_total _ _ (by omega)) fun _ => total_bind (u32_total _ _ (by omega)) fun _ => total_pure _

theorem decodePoint_total (data : Bytes) : Total (decodePoint data) := by
  unfold decodePoint
  by_cases h : data.length < 16
  · simp [h]; exact total_ok _
  · simp only [h, if_false]
    exact total_bind (u64_total _ _ (by omega)) fun _ => total_bind (u64_total _ _ (by omega)) fun _ => total_pure _

theorem decPoint_total (data : Bytes) : Total (decPoint data) := by
  unfold decPoint; exact total_bind (decodePoint_total _) fun _ => total_pure _

theorem decLseg_total (data : Bytes) (h : 32 ≤ data.length) : Total (decLseg data) := by
  unfold decLseg
  exact total_bind (slice_total _ _ _ (by omega) (by omega)) fun _ => total_bind (decodePoint_total _) fun _ =>
    total_bind (slice_total _ _ _ (by omega) (by omega)) fun _ => total_bind (decodePoint_total _) fun _ => total_pure _

theorem decBox_total (data : Bytes) (h : 32 ≤ data.length) : Total (decBox data) := by
  unfold decBox
  exact total_bind (slice_total _ _ _ (by omega) (by omega)) fun _ => total_bind (decodePoint_total _) fun _ =>
    total_bind (slice_total _ _ _ (by omega) (by omega)) fun _ => total_bind (decodePoint_total _) fun _ => total_pure _

theorem decLine_total (data : Bytes) (h : 24 ≤ data.length) : Total (decLine data) := by
  unfold decLine
  exact total_bind (u64_total _ _ (by omega)) fun _ => total_bind (u64_total _ _ (by omega)) fun _ =>
    total_bind (u64_total _ _ (by omega)) fun _ => total_pure _

theorem decCircle_total (data : Bytes) (h : 24 ≤ data.length) : Total (decCircle data) := by
  unfold decCircle
  exact total_bind (slice_total _ _ _ (by omega) (by omega)) fun _ => total_bind (decodePoint_total _) fun _ =>
    total_bind (u64_total _ _ (by omega)) fun _ => total_pure _

theorem pathPoints_total (data : Bytes) (first n i : Nat) (h : first + (i + n) * 16 ≤ data.length) :
    Total (pathPoints data first n i) := by
  induction n generalizing i with
  | zero => exact total_pure _
  | succ n ih =>
    unfold pathPoints
    exact total_bind (slice_total _ _ _ (by omega) (by omega)) fun _ => total_bind (decodePoint_total _) fun _ =>
      total_bind (ih (i + 1) (by omega)) fun _ => total_pure _

theorem pathOut_total (data : Bytes) (oid first npts : Nat) (closed : Bool) (h : first + npts * 16 ≤ data.length) :
    Total (pathOut data oid first npts closed) := by
  unfold pathOut
  refine total_bind (pathPoints_total _ _ _ _ (by omega)) fun pts => ?_
  split <;> exact total_pure _

/-- the stored-layout attempt returns, and what it returns fits the data -/
theorem storedLayout_total (data : Bytes) (oid : Nat) :
    ∃ r, storedLayout data oid = .ok r ∧ ∀ n c, r = some (n, c) → storedFirst oid + n * 16 ≤ data.length := by
  unfold storedLayout
  have hf : 12 ≤ storedFirst oid := by unfold storedFirst; split <;> omega
  by_cases h : data.length ≥ storedFirst oid
  · simp only [h, if_true]
    obtain ⟨n, hn⟩ := i32_total data 0 (by omega)
    simp only [hn, ok_bind]
    by_cases hg : n ≥ 0 ∧ (data.length : Int) = (storedFirst oid : Nat) + n * 16
    · simp only [hg, and_self, if_true]
      have hfit : storedFirst oid + n.toNat * 16 ≤ data.length := by omega
      by_cases ho : (oid == OidPath) = true
      · simp only [ho, if_true]
        obtain ⟨c, hc⟩ := i32_total data 4 (by omega)
        simp only [hc, ok_bind, pure_eq_ok]
        exact ⟨_, rfl, fun n' c' he => by injection he with he; injection he with h1 h2; subst h1; exact hfit⟩
      · simp only [ho, if_false, pure_eq_ok]
        exact ⟨_, rfl, fun n' c' he => by injection he with he; injection he with h1 h2; subst h1; exact hfit⟩
    · simp only [hg, if_false, pure_eq_ok]
      exact ⟨none, rfl, fun _ _ he => by cases he⟩
  · simp only [h, if_false, pure_eq_ok]
    exact ⟨none, rfl, fun _ _ he => by cases he⟩

theorem decodePathOrPolygon_total (data : Bytes) (oid : Nat) : Total (decodePathOrPolygon data oid) := by
  unfold decodePathOrPolygon
  obtain ⟨r, hr, hfit⟩ := storedLayout_total data oid
  rw [hr]
  simp only [ok_bind]
  cases r with
  | some p =>
    obtain ⟨n, c⟩ := p
    exact pathOut_total _ _ _ _ _ (hfit n c rfl)
  | none =>
    simp only []
    by_cases h : data.length < 5
    · simp [h]; exact total_ok _
    · simp only [h, if_false]
      refine total_bind (idx_total _ _ (by omega)) fun c => total_bind (i32_total _ _ (by omega)) fun npts => ?_
      by_cases hg : (npts < 0 || (data.length : Int) < 5 + npts * 16) = true
      · simp only [hg, if_true]; exact total_pure _
      · simp only [hg]
        have h1 : ¬ npts < 0 := by intro hn; simp [hn] at hg
        have h2 : ¬ (data.length : Int) < 5 + npts * 16 := by intro hn; simp [hn] at hg
        exact pathOut_total _ _ _ _ _ (by omega)

theorem decodeBitString_total (data : Bytes) : Total (decodeBitString data) := by
  unfold decodeBitString
  by_cases h : data.length < 4
  · simp [h]; exact total_ok _
  · simp only [h, if_false]
    refine total_bind (i32_total _ _ (by omega)) fun bl => ?_
    split <;> exact total_pure _

theorem decodeInterval_total (data : Bytes) : Total (decodeInterval data) := by
  unfold decodeInterval
  by_cases h : data.length < 16
  · simp [h]; exact total_ok _
  · simp only [h, if_false]
    refine total_bind (i64_total _ _ (by omega)) fun _ => total_bind (i32_total _ _ (by omega)) fun _ =>
      total_bind (i32_total _ _ (by omega)) fun _ => ?_
    exact total_ite (fun _ => total_pure _) (fun _ => total_pure _)

theorem ipv6Groups_total (data : Bytes) (start n i : Nat) (h : start + (i + n) * 2 ≤ data.length) :
    Total (ipv6Groups data start n i) := by
  induction n generalizing i with
  | zero => exact total_pure _
  | succ n ih =>
    unfold ipv6Groups
    cases hs : slice data (start + i * 2) (start + i * 2 + 2) with
    | error e =>
      have := slice_ok data (start + i * 2) (start + i * 2 + 2) (by omega) (by omega)
      rw [this] at hs; cases hs
    | ok s =>
      have hl := slice_length _ _ _ _ hs
      simp only [ok_bind]
      exact total_bind (idx_total _ _ (by omega)) fun _ => total_bind (idx_total _ _ (by omega)) fun _ =>
        total_bind (ih (i + 1) (by omega)) fun _ => total_pure _

theorem total_iteB {α} {c : Bool} {a b : M α} (ha : c = true → Total a) (hb : c = false → Total b) :
    Total (if c = true then a else b) := by
  cases c
  · simp; exact hb rfl
  · simp; exact ha rfl

theorem decodeInet_total (data : Bytes) : Total (decodeInet data) := by
  unfold decodeInet
  by_cases h : data.length < 2
  · simp [h]; exact total_ok _
  · simp only [h, if_false]
    refine total_bind (idx_total _ _ (by omega)) fun family => total_bind (idx_total _ _ (by omega)) fun bits => ?_
    have tail : ∀ addr : Bytes, Total (if (bits != 32) = true then (pure (GoVal.str (addr ++ [47] ++ decNat bits.toNat)) : M GoVal)
              else pure (GoVal.str addr)) := fun _ => total_iteB (fun _ => total_pure _) (fun _ => total_pure _)
    refine total_iteB (fun _ => ?_) (fun _ => ?_)
    · refine total_iteB (fun h6 => ?_) (fun h6 => ?_)
      · have : data.length = 6 := by simpa using h6
        exact total_bind (idx_total _ _ (by omega)) fun _ => total_bind (idx_total _ _ (by omega)) fun _ =>
          total_bind (idx_total _ _ (by omega)) fun _ => total_bind (idx_total _ _ (by omega)) fun _ => tail _
      · refine total_ite (fun h8 => ?_) (fun _ => ?_)
        · exact total_bind (idx_total _ _ (by omega)) fun _ => total_bind (idx_total _ _ (by omega)) fun _ =>
            total_bind (idx_total _ _ (by omega)) fun _ => total_bind (idx_total _ _ (by omega)) fun _ => tail _
        · exact total_pure _
    · refine total_iteB (fun _ => ?_) (fun _ => total_pure _)
      by_cases h18 : (data.length == 18) = true
      · have : data.length = 18 := by simpa using h18
        simp only [h18, if_true]
        exact total_bind (ipv6Groups_total _ _ _ _ (by omega)) fun _ => total_iteB (fun _ => total_pure _) (fun _ => total_pure _)
      · simp only [h18]
        by_cases h20 : data.length ≥ 20
        · simp only [h20, if_true]
          exact total_bind (ipv6Groups_total _ _ _ _ (by omega)) fun _ => total_iteB (fun _ => total_pure _) (fun _ => total_pure _)
        · simp only [h20, if_false]
          exact total_pure _

/-- the out-of-scope decoders (arrays, numeric, jsonb) return on every input -/
structure ExtTotal (ext : Ext) : Prop where
  arr : ∀ d e, Total (ext.decodeArray d e)
  num : ∀ d, Total (ext.decodeNumeric d)
  jsonb : ∀ d, Total (ext.parseJSONB d)

/-- the `null` document test reads `u32(data,0)` and `u32(data,4)` only behind `len(data) == 8` -/
theorem jsonbNilCase_total (data : Bytes) : Total (jsonbNilCase data) := by
  unfold jsonbNilCase
  refine total_ite (fun h8 => ?_) (fun _ => total_pure _)
  refine total_bind (u32_total _ _ (by omega)) fun _ => ?_
  refine total_ite (fun _ => ?_) (fun _ => total_pure _)
  refine total_bind (u32_total _ _ (by omega)) fun _ => ?_
  exact total_ite (fun _ => total_pure _) (fun _ => total_pure _)

theorem decJSONB_total (ext : Ext) (hext : ExtTotal ext) (data : Bytes) : Total (decJSONB ext data) := by
  unfold decJSONB
  refine total_bind (hext.jsonb _) fun v => ?_
  split
  · exact jsonbNilCase_total data
  · exact total_pure _

/-- past the short-input guard, a fixed-width type has all its bytes -/
theorem need {data : Bytes} {oid : Nat} (hs : shortInput data oid = false) (n : Nat)
    (hl : fixedLengths.lookup oid = some n) : n ≤ data.length := by
  unfold shortInput at hs
  rw [hl] at hs
  simpa using hs

theorem decodeScalar0_total (ext : Ext) (hext : ExtTotal ext) (data : Bytes) (oid : Nat) :
    Total (decodeScalar0 ext data oid) := by
  unfold decodeScalar0
  refine total_iteB (fun _ => total_pure _) (fun hs => ?_)
  refine total_ite (fun ho => ?_) (fun _ => ?_)
  · subst ho; exact decBool_total _ (need hs 1 rfl)
  refine total_ite (fun ho => ?_) (fun _ => ?_)
  · subst ho; exact decChar_total _ (need hs 1 rfl)
  refine total_ite (fun ho => ?_) (fun _ => ?_)
  · subst ho; exact total_pure _
  refine total_ite (fun ho => ?_) (fun _ => ?_)
  · subst ho; exact decInt2_total _ (need hs 2 rfl)
  refine total_ite (fun ho => ?_) (fun _ => ?_)
  · subst ho; exact decInt4_total _ (need hs 4 rfl)
  refine total_ite (fun ho => ?_) (fun _ => ?_)
  · rcases ho with rfl | rfl <;> exact decU32_total _ (need hs 4 rfl)
  refine total_ite (fun ho => ?_) (fun _ => ?_)
  · subst ho; exact decInt8_total _ (need hs 8 rfl)
  refine total_ite (fun ho => ?_) (fun _ => ?_)
  · subst ho; exact decU32_total _ (need hs 4 rfl)
  refine total_ite (fun ho => ?_) (fun _ => ?_)
  · subst ho; exact decTid_total _ (need hs 6 rfl)
  refine total_ite (fun ho => ?_) (fun _ => ?_)
  · subst ho; exact decFloat4_total _ (need hs 4 rfl)
  refine total_ite (fun ho => ?_) (fun _ => ?_)
  · subst ho; exact decFloat8_total _ (need hs 8 rfl)
  refine total_ite (fun ho => ?_) (fun _ => ?_)
  · subst ho; exact decMoney_total _ (need hs 8 rfl)
  refine total_iteB (fun _ => total_pure _) (fun _ => ?_)
  refine total_ite (fun ho => ?_) (fun _ => ?_)
  · subst ho; exact total_pure _
  refine total_ite (fun ho => ?_) (fun _ => ?_)
  · subst ho; exact total_pure _
  refine total_ite (fun ho => ?_) (fun _ => ?_)
  · rcases ho with rfl | rfl <;> exact decodeBitString_total _
  refine total_ite (fun ho => ?_) (fun _ => ?_)
  · subst ho; exact decDate_total _ (need hs 4 rfl)
  refine total_ite (fun ho => ?_) (fun _ => ?_)
  · subst ho; exact decTime_total _ (need hs 8 rfl)
  refine total_ite (fun ho => ?_) (fun _ => ?_)
  · subst ho; exact decTimeTZ_total _ (need hs 12 rfl)
  refine total_ite (fun ho => ?_) (fun _ => ?_)
  · rcases ho with rfl | rfl <;> exact decTimestamp_total _ (need hs 8 rfl)
  refine total_ite (fun ho => ?_) (fun _ => ?_)
  · subst ho; exact decodeInterval_total _
  refine total_ite (fun ho => ?_) (fun _ => ?_)
  · subst ho; exact decMac_total _ _ (need hs 6 rfl)
  refine total_ite (fun ho => ?_) (fun _ => ?_)
  · subst ho; exact decMac_total _ _ (need hs 8 rfl)
  refine total_ite (fun ho => ?_) (fun _ => ?_)
  · rcases ho with rfl | rfl <;> exact decodeInet_total _
  refine total_ite (fun ho => ?_) (fun _ => ?_)
  · subst ho; exact decUUID_total _ (need hs 16 rfl)
  refine total_ite (fun ho => ?_) (fun _ => ?_)
  · subst ho; exact decPgLsn_total _ (need hs 8 rfl)
  refine total_ite (fun ho => ?_) (fun _ => ?_)
  · subst ho; exact decPoint_total _
  refine total_ite (fun ho => ?_) (fun _ => ?_)
  · subst ho; exact decLseg_total _ (need hs 32 rfl)
  refine total_ite (fun ho => ?_) (fun _ => ?_)
  · subst ho; exact decBox_total _ (need hs 32 rfl)
  refine total_ite (fun ho => ?_) (fun _ => ?_)
  · subst ho; exact decLine_total _ (need hs 24 rfl)
  refine total_ite (fun ho => ?_) (fun _ => ?_)
  · subst ho; exact decCircle_total _ (need hs 24 rfl)
  refine total_ite (fun ho => ?_) (fun _ => ?_)
  · rcases ho with rfl | rfl <;> exact decodePathOrPolygon_total _ _
  refine total_ite (fun ho => ?_) (fun _ => ?_)
  · subst ho; exact hext.num _
  refine total_ite (fun ho => ?_) (fun _ => ?_)
  · rcases ho with rfl | rfl <;> exact total_pure _
  refine total_ite (fun ho => ?_) (fun _ => ?_)
  · subst ho; exact decJSONB_total ext hext _
  exact total_pure _

theorem decodeType0_total (ext : Ext) (hext : ExtTotal ext) (data : Bytes) (oid : Nat) :
    Total (decodeType0 ext data oid) := by
  unfold decodeType0
  refine total_ite (fun _ => total_pure _) (fun _ => ?_)
  split
  · exact hext.arr _ _
  · exact decodeScalar0_total ext hext data oid

theorem readBound_total (ext : Ext) (hext : ExtTotal ext) (data : Bytes) (offset elemSize elemOid : Nat) :
    Total (readBound ext data offset elemSize elemOid) := by
  unfold readBound
  refine total_ite (fun _ => total_pure _) (fun h => ?_)
  exact total_bind (slice_total _ _ _ (by omega) (by omega)) fun _ =>
    total_bind (decodeType0_total ext hext _ _) fun _ => total_pure _

theorem decodeRangeFixed_total (ext : Ext) (hext : ExtTotal ext) (data : Bytes) (flags elemOid elemSize : Nat) :
    Total (decodeRangeFixed ext data flags elemOid elemSize) := by
  unfold decodeRangeFixed
  have hlow : Total (rangeLower ext data flags elemOid elemSize) := by
    unfold rangeLower
    refine total_iteB (fun _ => total_pure _) (fun _ => ?_)
    refine total_bind (readBound_total ext hext _ _ _ _) fun r => ?_
    cases r <;> exact total_pure _
  refine total_bind hlow fun lower => ?_
  cases lower with
  | none => exact total_pure _
  | some lo =>
    obtain ⟨lb, offset⟩ := lo
    have hup : Total (rangeUpper ext data flags elemOid elemSize offset) := by
      unfold rangeUpper
      exact total_iteB (fun _ => total_pure _) (fun _ => readBound_total ext hext _ _ _ _)
    refine total_bind hup fun upper => ?_
    cases upper <;> exact total_pure _

/-- types.go:ReadVarlena (the model of area rows) returns on every input -/
theorem readVarlena_total (data : Bytes) : Total (Model.readVarlena data) := by
  unfold Model.readVarlena
  by_cases h : data.length = 0
  · simp [h]; exact total_ok _
  · simp only [h, if_false]
    refine total_bind (idx_total _ _ (by omega)) fun first => ?_
    refine total_ite (fun _ => ?_) (fun _ => ?_)
    · refine total_ite (fun _ => total_pure _) (fun hc => ?_)
      exact total_bind (slice_total _ _ _ (by omega) (by omega)) fun _ => total_pure _
    · refine total_ite (fun _ => ?_) (fun _ => ?_)
      · refine total_ite (fun h18 => ?_) (fun _ => total_pure _)
        refine total_bind (idx_total _ _ (by omega)) fun tag => ?_
        split <;> exact total_pure _
      · refine total_ite (fun _ => total_pure _) (fun h4 => ?_)
        refine total_bind (uN_total _ _ _ (by omega)) fun header => ?_
        refine total_ite (fun _ => total_pure _) (fun hc => ?_)
        refine total_ite (fun hz => ?_) (fun _ => ?_)
        · exact total_bind (Proofs.InlineComp.inlineDecompress_total _ _ (by omega) (by omega)) fun _ => total_pure _
        · exact total_bind (slice_total _ _ _ (by omega) (by omega)) fun _ => total_pure _

theorem numBound_total (ext : Ext) (hext : ExtTotal ext) (data : Bytes) (offset : Nat) :
    Total (numBound ext data offset) := by
  unfold numBound
  have h1 : Total (if offset < data.length - 1 then do
      if (← idx data offset) == 0 then pure (align (offset + 4) 4 - 4) else pure offset
    else (pure offset : M Nat)) := by
    refine total_ite (fun h => ?_) (fun _ => total_pure _)
    refine total_bind (idx_total _ _ (by omega)) fun b => ?_
    split <;> exact total_pure _
  refine total_bind h1 fun off => ?_
  refine total_ite (fun _ => total_pure _) (fun h => ?_)
  refine total_bind (slice_total _ _ _ (by omega) (by omega)) fun s => ?_
  refine total_bind (readVarlena_total s) fun r => ?_
  split
  · exact total_pure _
  · refine total_bind (hext.num _) fun v => ?_
    split <;> exact total_pure _

theorem decodeNumericRange_total (ext : Ext) (hext : ExtTotal ext) (data : Bytes) (flags : Nat) :
    Total (decodeNumericRange ext data flags) := by
  unfold decodeNumericRange
  have hl : Total (if (flags &&& 0x08 != 0) = true then (pure ([], 4) : M (List GoVal × Nat)) else numBound ext data 4) :=
    total_iteB (fun _ => total_pure _) (fun _ => numBound_total ext hext _ _)
  refine total_bind hl fun p => ?_
  obtain ⟨lb, offset⟩ := p
  have hu : Total (if (flags &&& 0x10 != 0) = true then (pure ([], offset) : M (List GoVal × Nat)) else numBound ext data offset) :=
    total_iteB (fun _ => total_pure _) (fun _ => numBound_total ext hext _ _)
  refine total_bind hu fun q => ?_
  obtain ⟨ub, o2⟩ := q
  exact total_pure _

theorem decodeRange_total (ext : Ext) (hext : ExtTotal ext) (data : Bytes) (oid : Nat) :
    Total (decodeRange ext data oid) := by
  unfold decodeRange
  by_cases h : data.length < 5
  · simp [h]; exact total_ok _
  · simp only [h, if_false]
    refine total_bind (idx_total _ _ (by omega)) fun fl => ?_
    refine total_iteB (fun _ => total_pure _) (fun _ => ?_)
    refine total_ite (fun _ => ?_) (fun _ => ?_)
    · exact decodeNumericRange_total ext hext _ _
    · split
      · exact total_pure _
      · exact decodeRangeFixed_total ext hext _ _ _ _

theorem decodeScalar_total (ext : Ext) (hext : ExtTotal ext) (data : Bytes) (oid : Nat) :
    Total (decodeScalar ext data oid) := by
  unfold decodeScalar
  exact total_iteB (fun _ => decodeRange_total ext hext _ _) (fun _ => decodeScalar0_total ext hext _ _)

theorem decodeType_total (ext : Ext) (hext : ExtTotal ext) (data : Bytes) (oid : Nat) :
    Total (decodeType ext data oid) := by
  unfold decodeType
  refine total_ite (fun _ => total_pure _) (fun _ => ?_)
  split
  · exact hext.arr _ _
  · exact decodeScalar_total ext hext data oid

theorem bitChars_length (data : Bytes) (n i : Nat) : (bitChars data n i).length = n := by
  induction n generalizing i with
  | zero => rfl
  | succ n ih => simp [bitChars, ih]

theorem bitString_bounded (data : Bytes) (s : Bytes) (h : decodeBitString data = .ok (.str s)) :
    s.length ≤ 8 * data.length := by
  unfold decodeBitString at h
  by_cases hl : data.length < 4
  · simp [hl] at h; subst h; simp
  · simp only [hl, if_false] at h
    obtain ⟨bl, hb⟩ := i32_total data 0 (by omega)
    rw [hb] at h
    simp only [ok_bind] at h
    split at h
    · injection h with h; injection h with h; subst h; simp
    · injection h with h; injection h with h; subst h
      rw [bitChars_length]
      split <;> omega

end PgVerif.Proofs.Scalars
