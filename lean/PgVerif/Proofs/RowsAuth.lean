/-
  ParsePGAuthID's per-tuple walk on a role formed by PostgreSQL's rules.
-/
import PgVerif.Proofs.RowsFile
namespace PgVerif.Proofs.Rows
open PgVerif PgVerif.Model PgVerif.Spec PgVerif.Proofs

def roleRow (r : Role) (m : Nat) : RowV := { vals := roleVals r, natts := 12, infomask := m }

/-- what the tool reports for a role version -/
def authView (r : Role) : AuthInfo := ⟨r.oid, r.name, r.password.getD [], r.super, r.canlogin⟩

theorem bb_ne (b : Bool) : (bb b != 0) = b := by cases b <;> rfl

theorem role_present (r : Role) (m : Nat) :
    (roleRow r m).present = [true, true, true, true, true, true, true, true, true, true, r.password.isSome, r.validUntil.isSome] := by
  simp [roleRow, RowV.present, roleVals, boolDatum]

/-- the tail of the data area: rolpassword at 80, then rolvaliduntil -/
def authTail (r : Role) : Bytes :=
  form authTailCols [r.password.map textDatum, r.validUntil.map fun v => .fixed (le 8 v)] 80

theorem role_data (r : Role) (m : Nat) (hdr : TupleHeader) (hl : r.name.length ≤ 64) :
    (rowTuple hdr authidCols (roleRow r m)).data =
      le 4 r.oid ++ ((r.name ++ zeros (64 - r.name.length)) ++ ([bb r.super, bb r.inherit, bb r.createrole, bb r.createdb,
        bb r.canlogin, bb r.replication, bb r.bypassrls, 0] ++ (le 4 r.connlimit ++ authTail r))) := by
  have hN : (r.name ++ zeros (64 - r.name.length)).length = 64 := by
    simp only [List.length_append, zeros_length]; omega
  simp only [rowTuple, roleRow]
  have h1 : List.take 12 authidCols = authidCols := rfl
  have h2 : List.take 12 (roleVals r) = roleVals r := rfl
  rw [h1, h2]
  exact authData r _ hN _ _

theorem role_isNull11 (r : Role) (m : Nat) (hdr : TupleHeader) :
    (rowTuple hdr authidCols (roleRow r m)).isNull 11 = r.password.isNone := by
  have h11 : (11 : Int) = ((10 : Nat) : Int) + 1 := rfl
  unfold rowTuple
  by_cases hn : (roleRow r m).hasNull = true
  · simp only [hn, if_true]
    rw [h11, isNull_enc, role_present]
    cases r.password <;> rfl
  · rw [if_neg hn, isNull_nobitmap]
    have : (roleRow r m).present.any (!·) = false := by simpa [RowV.hasNull] using hn
    rw [role_present] at this
    cases hp : r.password with
    | none => simp [hp] at this
    | some _ => rfl

/-- the password walk at offset 80 -/
theorem authPassword_role (r : Role) (h : r.WF) (m : Nat) (hdr : TupleHeader) :
    authPassword (rowTuple hdr authidCols (roleRow r m)) 80 = .ok (r.password.getD []) := by
  obtain ⟨_, hn1, hn63, hn0, _, hpw, _⟩ := h
  unfold authPassword
  rw [role_isNull11]
  cases hp : r.password with
  | none => simp
  | some p =>
    obtain ⟨hp1, hp30⟩ := hpw p hp
    have hdata := role_data r m hdr (by omega)
    have hN : (r.name ++ zeros (64 - r.name.length)).length = 64 := by
      simp only [List.length_append, zeros_length]; omega
    have hal : Model.align 80 4 = 80 := by decide
    -- the tail starts with the password datum
    have htail0 : authTail r = formDatum ⟨strBytes "rolpassword", 25, -1, 4⟩ 80 (textDatum p) ++
        form [⟨strBytes "rolvaliduntil", 1184, 8, 8⟩] [r.validUntil.map fun v => .fixed (le 8 v)]
          (80 + (formDatum ⟨strBytes "rolpassword", 25, -1, 4⟩ 80 (textDatum p)).length) := by
      unfold authTail; rw [hp]; rfl
    generalize form [⟨strBytes "rolvaliduntil", 1184, 8, 8⟩] [r.validUntil.map fun v => .fixed (le 8 v)]
          (80 + (formDatum ⟨strBytes "rolpassword", 25, -1, 4⟩ 80 (textDatum p)).length) = rest at htail0
    have htail : authTail r = (if p.length ≤ 126 then UInt8.ofNat (2 * (p.length + 1) + 1) :: (p ++ rest)
        else le 4 ((p.length + 4) * 4) ++ (p ++ rest)) := by
      rw [htail0]
      by_cases hs : p.length ≤ 126
      · simp [textDatum, hs, formDatum]
      · simp [textDatum, hs, formDatum, pad, alignUp, zeros]
    have htl : 0 < (authTail r).length := by rw [htail]; split <;> simp <;> omega
    have hsplit : (rowTuple hdr authidCols (roleRow r m)).data =
        (le 4 r.oid ++ ((r.name ++ zeros (64 - r.name.length)) ++ ([bb r.super, bb r.inherit, bb r.createrole, bb r.createdb,
          bb r.canlogin, bb r.replication, bb r.bypassrls, 0] ++ le 4 r.connlimit))) ++ authTail r := by
      rw [hdata]; simp [List.append_assoc]
    have hpre : (le 4 r.oid ++ ((r.name ++ zeros (64 - r.name.length)) ++ ([bb r.super, bb r.inherit, bb r.createrole, bb r.createdb,
          bb r.canlogin, bb r.replication, bb r.bypassrls, 0] ++ le 4 r.connlimit))).length = 80 := by
      simp only [List.length_append, le_length, hN, List.length_cons, List.length_nil]
    have hlen : (rowTuple hdr authidCols (roleRow r m)).data.length = 80 + (authTail r).length := by
      rw [hsplit, List.length_append, hpre]
    rw [hal, if_pos ⟨by simp, by omega⟩, if_pos (by omega), sliceFrom_ok _ _ (by omega)]
    simp only [ok_bind]
    have hdrop : (rowTuple hdr authidCols (roleRow r m)).data.drop 80 = authTail r := by
      rw [hsplit]; exact List.drop_left' hpre
    rw [hdrop, htail]
    by_cases hs : p.length ≤ 126
    · rw [if_pos hs, readVarlena_short p rest hs]; rfl
    · rw [if_neg hs, readVarlena_long _ p rest rfl hp30]; rfl

/-- **one role version**: the fixed-offset walk of ParsePGAuthID returns the role's oid, name, super and login
flags and its exact password verifier -/
theorem authOne_role (r : Role) (h : r.WF) (m : Nat) (hdr : TupleHeader) :
    authOne (rowTuple hdr authidCols (roleRow r m)) = .ok (some (authView r)) := by
  have hpwd := authPassword_role r h m hdr
  obtain ⟨hoid, hn1, hn63, hn0, _, _, _⟩ := h
  have hdata := role_data r m hdr (by omega)
  have hN : (r.name ++ zeros (64 - r.name.length)).length = 64 := by
    simp only [List.length_append, zeros_length]; omega
  generalize hD : (rowTuple hdr authidCols (roleRow r m)).data = D at hdata
  have hlen : D.length = 80 + (authTail r).length := by
    rw [hdata]; simp only [List.length_append, le_length, hN, List.length_cons, List.length_nil]; omega
  have hoidv : uN 4 D 0 = .ok r.oid := by
    rw [uN_ok 4 D 0 (by omega), hdata]
    simp only [List.drop_zero]
    rw [rd_le 4 r.oid _ (by simpa using hoid)]
  have hslice : sliceFrom D 4 = .ok ((r.name ++ zeros (64 - r.name.length)) ++ ([bb r.super, bb r.inherit, bb r.createrole,
      bb r.createdb, bb r.canlogin, bb r.replication, bb r.bypassrls, 0] ++ (le 4 r.connlimit ++ authTail r))) := by
    rw [sliceFrom_ok _ _ (by omega), hdata]
    congr 1
  have h68 : idx D 68 = .ok (bb r.super) := by
    rw [hdata, ← List.append_assoc, idx_append_right _ _ 68 0 (by simp [hN])]; rfl
  have h72 : idx D 72 = .ok (bb r.canlogin) := by
    rw [hdata, ← List.append_assoc, idx_append_right _ _ 72 4 (by simp [hN])]; rfl
  unfold authOne
  rw [hD, if_neg (by omega), if_pos (by omega), hoidv]
  simp only [ok_bind]
  rw [if_pos (by omega), hslice]
  simp only [ok_bind]
  rw [if_pos (by omega), h68]
  simp only [ok_bind]
  rw [if_pos (by omega), h72]
  simp only [ok_bind]
  rw [if_pos (by omega)]
  have hal : Model.align (73 + 2) 4 + 4 = 80 := by decide
  rw [hal, hpwd]
  simp only [ok_bind]
  rw [cstring_name r.name _ hn0 hn63, if_neg (by omega)]
  simp only [bb_ne, authView, pure_eq_ok]

/-- a role version formed by PostgreSQL's rules is a well-formed row of the 12-column pg_authid schema -/
theorem roleRow_WF (r : Role) (h : r.WF) (m : Nat) (hm : m < 65536) : (roleRow r m).WF authidCols := by
  obtain ⟨_, _, hn63, _, _, hpw, _⟩ := h
  refine ⟨rfl, by simp [roleRow, authidCols], by simp [roleRow], hm, ?_⟩
  intro p hp
  simp only [roleRow, authidCols, roleVals, bcol, boolDatum, List.zip_cons_cons, List.zip_nil_right, List.mem_cons,
    List.not_mem_nil, or_false] at hp
  rcases hp with hp | hp | hp | hp | hp | hp | hp | hp | hp | hp | hp | hp <;> subst hp <;>
    refine ⟨by simp, ?_⟩ <;> intro d hd
  · injection hd with hd; subst hd; exact ⟨by simp, by simp⟩
  · injection hd with hd; subst hd
    exact ⟨by simp, by simp only [List.length_append, zeros_length]; omega⟩
  · injection hd with hd; subst hd; exact ⟨by simp, by simp⟩
  · injection hd with hd; subst hd; exact ⟨by simp, by simp⟩
  · injection hd with hd; subst hd; exact ⟨by simp, by simp⟩
  · injection hd with hd; subst hd; exact ⟨by simp, by simp⟩
  · injection hd with hd; subst hd; exact ⟨by simp, by simp⟩
  · injection hd with hd; subst hd; exact ⟨by simp, by simp⟩
  · injection hd with hd; subst hd; exact ⟨by simp, by simp⟩
  · injection hd with hd; subst hd; exact ⟨by simp, by simp⟩
  · cases hp' : r.password with
    | none => simp [hp'] at hd
    | some pw =>
      simp only [hp', Option.map_some, Option.some.injEq] at hd
      subst hd
      obtain ⟨_, h30⟩ := hpw pw hp'
      unfold textDatum
      split
      · exact ⟨rfl, by assumption⟩
      · exact ⟨rfl, h30⟩
  · cases hv : r.validUntil with
    | none => simp [hv] at hd
    | some v =>
      simp only [hv, Option.map_some, Option.some.injEq] at hd
      subst hd
      exact ⟨by simp, by simp⟩


end PgVerif.Proofs.Rows
