/-
  Helper lemmas for C15 (secret scan): the substring helpers of secrets.go equal their specification;
  a finding for every cell whose text contains a detectable token.
-/
import PgVerif.Model.Secrets
import PgVerif.Proofs.Search
namespace PgVerif.Proofs.Secrets
open PgVerif PgVerif.Spec.Search PgVerif.Model.Search PgVerif.Model.Secrets PgVerif.Proofs.Search

/-! ### bytesEqual / bytesContains / containsIgnoreCase -/

theorem bytesEqual_iff : ∀ a b : Bytes, bytesEqual a b = true ↔ a = b
  | [], [] => by simp [bytesEqual]
  | [], _ :: _ => by simp [bytesEqual]
  | _ :: _, [] => by simp [bytesEqual]
  | x :: xs, y :: ys => by
    simp only [bytesEqual]
    by_cases h : x = y
    · subst h; simp [bytesEqual_iff xs ys]
    · simp [h]

theorem isPrefix_iff : ∀ a s : Bytes, isPrefix a s = true ↔ ∃ post, s = a ++ post
  | [], s => by simp [isPrefix]
  | _ :: _, [] => by simp [isPrefix]
  | x :: xs, y :: ys => by
    simp only [isPrefix, Bool.and_eq_true, beq_iff_eq, isPrefix_iff xs ys, List.cons_append, List.cons.injEq]
    constructor
    · rintro ⟨rfl, post, rfl⟩; exact ⟨post, rfl, rfl⟩
    · rintro ⟨post, rfl, rfl⟩; exact ⟨rfl, post, rfl⟩

theorem isPrefix_take (a s : Bytes) : isPrefix a s = bytesEqual (s.take a.length) a := by
  rw [Bool.eq_iff_iff, isPrefix_iff, bytesEqual_iff]
  constructor
  · rintro ⟨post, rfl⟩; simp
  · intro h
    refine ⟨s.drop a.length, ?_⟩
    have := (List.take_append_drop a.length s).symm
    rw [h] at this
    exact this

/-- `occursIn` means: the text splits as prefix ++ sub ++ suffix -/
theorem occursIn_iff (sub : Bytes) : ∀ s : Bytes, occursIn sub s = true ↔ ∃ pre post, s = pre ++ sub ++ post
  | [] => by
    simp only [occursIn, List.isEmpty_iff]
    constructor
    · rintro rfl; exact ⟨[], [], rfl⟩
    · rintro ⟨pre, post, h⟩
      have := congrArg List.length h
      simp only [List.length_nil, List.length_append] at this
      exact List.eq_nil_of_length_eq_zero (by omega)
  | c :: cs => by
    simp only [occursIn, Bool.or_eq_true, isPrefix_iff, occursIn_iff sub cs]
    constructor
    · rintro (⟨post, h⟩ | ⟨pre, post, h⟩)
      · exact ⟨[], post, by simpa using h⟩
      · exact ⟨c :: pre, post, by simp [h]⟩
    · rintro ⟨pre, post, h⟩
      cases pre with
      | nil => exact Or.inl ⟨post, by simpa using h⟩
      | cons x pre =>
        simp only [List.cons_append, List.cons.injEq] at h
        exact Or.inr ⟨pre, post, h.2⟩

theorem occursIn_short (sub s : Bytes) (h : s.length < sub.length) : occursIn sub s = false := by
  rw [← Bool.not_eq_true, occursIn_iff]
  rintro ⟨pre, post, rfl⟩
  simp only [List.length_append] at h; omega

theorem containsLoop_eq (sub : Bytes) (hL : 0 < sub.length) : ∀ (n : Nat) (s : Bytes), n + sub.length = s.length + 1 →
    containsLoop sub n s = occursIn sub s
  | 0, s, h => by rw [occursIn_short sub s (by omega)]; rfl
  | n+1, [], h => by simp at h; omega
  | n+1, c :: cs, h => by
    simp only [containsLoop, occursIn, List.drop_one, List.tail_cons]
    rw [containsLoop_eq sub hL n cs (by simp at h; omega), isPrefix_take]
    cases bytesEqual (List.take sub.length (c :: cs)) sub <;> simp

/-- Go's `bytesContains` is the substring test -/
theorem bytesContains_eq (s sub : Bytes) : bytesContains s sub = occursIn sub s := by
  unfold bytesContains
  by_cases h0 : sub.length = 0
  · rw [if_pos h0]
    have : sub = [] := List.eq_nil_of_length_eq_zero h0
    subst this
    exact ((occursIn_iff [] s).2 ⟨[], s, rfl⟩).symm
  · rw [if_neg h0]
    by_cases h1 : sub.length > s.length
    · rw [if_pos h1, occursIn_short sub s h1]
    · rw [if_neg h1]
      exact containsLoop_eq sub (by omega) _ s (by omega)

theorem toLowerAscii_eq (s : Bytes) : toLowerAscii s = lower s := by
  simp only [toLowerAscii, lower]
  congr 1; funext c
  simp only [lowerByte, ge_iff_le, Bool.and_eq_true, decide_eq_true_eq]

/-- Go's `containsIgnoreCase` is the substring test on the ASCII-lower-cased texts -/
theorem containsIgnoreCase_eq (s sub : Bytes) : containsIgnoreCase s sub = occursIn (lower sub) (lower s) := by
  simp only [containsIgnoreCase, bytesContains_eq, toLowerAscii_eq]

theorem occursIn_trans (a b c : Bytes) (h1 : occursIn a b = true) (h2 : occursIn b c = true) : occursIn a c = true := by
  rw [occursIn_iff] at *
  obtain ⟨p1, q1, rfl⟩ := h1
  obtain ⟨p2, q2, rfl⟩ := h2
  exact ⟨p2 ++ p1, q1 ++ q2, by simp [List.append_assoc]⟩

theorem occursIn_lower (a b : Bytes) (h : occursIn a b = true) : occursIn (lower a) (lower b) = true := by
  rw [occursIn_iff] at *
  obtain ⟨p, q, rfl⟩ := h
  exact ⟨lower p, lower q, by simp [lower]⟩

/-! ### a finding for every cell whose text contains the token -/

/-- the keyword pre-filter lets the detector through when one of its keywords occurs in the token
(as is, or ignoring ASCII case), or when it has no keywords -/
def KeywordOccurs (det : Detector) (tok : Bytes) : Prop :=
  det.keywords = [] ∨ ∃ kw ∈ det.keywords, occursIn kw tok = true ∨ occursIn (lower kw) (lower tok) = true

theorem scanWith_finds (det : Detector) (tok : Bytes) (r : DetResult) (s : Bytes)
    (hk : KeywordOccurs det tok) (hs : occursIn tok s = true)
    (hd : ∃ found, det.fromData s = some found ∧ r ∈ found) : r ∈ scanWith s det := by
  obtain ⟨found, hf, hr⟩ := hd
  simp only [scanWith]
  have hpass : ¬ ((!(det.keywords.any fun kw => bytesContains s kw || containsIgnoreCase s kw) && decide (det.keywords.length > 0)) = true) := by
    rcases hk with h0 | ⟨kw, hkw, hocc⟩
    · simp [h0]
    · have : (det.keywords.any fun kw => bytesContains s kw || containsIgnoreCase s kw) = true := by
        rw [List.any_eq_true]
        refine ⟨kw, hkw, ?_⟩
        rw [bytesContains_eq, containsIgnoreCase_eq, Bool.or_eq_true]
        rcases hocc with h | h
        · exact Or.inl (occursIn_trans _ _ _ h hs)
        · exact Or.inr (occursIn_trans _ _ _ h (occursIn_lower _ _ hs))
      simp [this]
  rw [if_neg hpass, hf]
  exact hr

end PgVerif.Proofs.Secrets
