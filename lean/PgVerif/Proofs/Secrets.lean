/-
  Helper lemmas for C15 (secret scan): the substring helpers of secrets.go equal their specification;
  a finding for every cell whose text contains a detectable token.
-/
import PgVerif.Model.Secrets
import PgVerif.Proofs.Search
namespace PgVerif.Proofs.Secrets
open PgVerif PgVerif.Spec.Search PgVerif.Model.Search PgVerif.Model.Secrets PgVerif.Proofs.Search

/-! ### bytesEqual / bytesContains / containsIgnoreCase -/

theorem bytesEqual_iff : ∀ a b : Bytes, bytesEqual a b = true ↔ a = b
  | [], [] => by simp [bytesEqual]
  | [], _ :: _ => by simp [bytesEqual]
  | _ :: _, [] => by simp [bytesEqual]
  | x :: xs, y :: ys => by
    simp only [bytesEqual]
    by_cases h : x = y
    · subst h; simp [bytesEqual_iff xs ys]
    · simp [h]

theorem isPrefix_iff : ∀ a s : Bytes, isPrefix a s = true ↔ ∃ post, s = a ++ post
  | [], s => by simp [isPrefix]
  | _ :: _, [] => by simp [isPrefix]
  | x :: xs, y :: ys => by
    simp only [isPrefix, Bool.and_eq_true, beq_iff_eq, isPrefix_iff xs ys, List.cons_append, List.cons.injEq]
    constructor
    · rintro ⟨rfl, post, rfl⟩; exact ⟨post, rfl, rfl⟩
    · rintro ⟨post, rfl, rfl⟩; exact ⟨rfl, post, rfl⟩

theorem isPrefix_take (a s : Bytes) : isPrefix a s = bytesEqual (s.take a.length) a := by
  rw [Bool.eq_iff_iff, isPrefix_iff, bytesEqual_iff]
  constructor
  · rintro ⟨post, rfl⟩; simp
  · intro h
    refine ⟨s.drop a.length, ?_⟩
    have := (List.take_append_drop a.length s).symm
    rw [h] at this
    exact this

/-- `occursIn` means: the text splits as prefix ++ sub ++ suffix -/
theorem occursIn_iff (sub : Bytes) : ∀ s : Bytes, occursIn sub s = true ↔ ∃ pre post, s = pre ++ sub ++ post
  | [] => by
    simp only [occursIn, List.isEmpty_iff]
    constructor
    · rintro rfl; exact ⟨[], [], rfl⟩
    · rintro ⟨pre, post, h⟩
      have := congrArg List.length h
      simp only [List.length_nil, List.length_append] at this
      exact List.eq_nil_of_length_eq_zero (by omega)
  | c :: cs => by
    simp only [occursIn, Bool.or_eq_true, isPrefix_iff, occursIn_iff sub cs]
    constructor
    · rintro (⟨post, h⟩ | ⟨pre, post, h⟩)
      · exact ⟨[], post, by simpa using h⟩
      · exact ⟨c :: pre, post, by simp [h]⟩
    · rintro ⟨pre, post, h⟩
      cases pre with
      | nil => exact Or.inl ⟨post, by simpa using h⟩
      | cons x pre =>
        simp only [List.cons_append, List.cons.injEq] at h
        exact Or.inr ⟨pre, post, h.2⟩

theorem occursIn_short (sub s : Bytes) (h : s.length < sub.length) : occursIn sub s = false := by
  rw [← Bool.not_eq_true, occursIn_iff]
  rintro ⟨pre, post, rfl⟩
  simp only [List.length_append] at h; omega

theorem containsLoop_eq (sub : Bytes) (hL : 0 < sub.length) : ∀ (n : Nat) (s : Bytes), n + sub.length = s.length + 1 →
    containsLoop sub n s = occursIn sub s
  | 0, s, h => by rw [occursIn_short sub s (by omega)]; rfl
  | n+1, [], h => by simp at h; omega
  | n+1, c :: cs, h => by
    simp only [containsLoop, occursIn, List.drop_one, List.tail_cons]
    rw [containsLoop_eq sub hL n cs (by simp at h; omega), isPrefix_take]
    cases bytesEqual (List.take sub.length (c :: cs)) sub <;> simp

/-- Go's `bytesContains` is the substring test -/
theorem bytesContains_eq (s sub : Bytes) : bytesContains s sub = occursIn sub s := by
  unfold bytesContains
  by_cases h0 : sub.length = 0
  · rw [if_pos h0]
    have : sub = [] := List.eq_nil_of_length_eq_zero h0
    subst this
    exact ((occursIn_iff [] s).2 ⟨[], s, rfl⟩).symm
  · rw [if_neg h0]
    by_cases h1 : sub.length > s.length
    · rw [if_pos h1, occursIn_short sub s h1]
    · rw [if_neg h1]
      exact containsLoop_eq sub (by omega) _ s (by omega)

theorem toLowerAscii_eq (s : Bytes) : toLowerAscii s = lower s := by
  simp only [toLowerAscii, lower]
  congr 1; funext c
  simp only [lowerByte, ge_iff_le, Bool.and_eq_true, decide_eq_true_eq]

/-- Go's `containsIgnoreCase` is the substring test on the ASCII-lower-cased texts -/
theorem containsIgnoreCase_eq (s sub : Bytes) : containsIgnoreCase s sub = occursIn (lower sub) (lower s) := by
  simp only [containsIgnoreCase, bytesContains_eq, toLowerAscii_eq]

theorem occursIn_trans (a b c : Bytes) (h1 : occursIn a b = true) (h2 : occursIn b c = true) : occursIn a c = true := by
  rw [occursIn_iff] at *
  obtain ⟨p1, q1, rfl⟩ := h1
  obtain ⟨p2, q2, rfl⟩ := h2
  exact ⟨p2 ++ p1, q1 ++ q2, by simp [List.append_assoc]⟩

theorem occursIn_lower (a b : Bytes) (h : occursIn a b = true) : occursIn (lower a) (lower b) = true := by
  rw [occursIn_iff] at *
  obtain ⟨p, q, rfl⟩ := h
  exact ⟨lower p, lower q, by simp [lower]⟩

/-! ### ScanString / scanTable compute the specified view -/

/-- the keyword loop of ScanString decides `keywordPass` -/
theorem keywordPass_eq (det : Detector) (s : Bytes) :
    (!(det.keywords.any fun kw => bytesContains s kw || containsIgnoreCase s kw) && decide (det.keywords.length > 0))
      = !keywordPass det s := by
  have hany : (det.keywords.any fun kw => bytesContains s kw || containsIgnoreCase s kw)
      = det.keywords.any fun kw => occursIn kw s || occursIn (lower kw) (lower s) := by
    congr 1; funext kw; rw [bytesContains_eq, containsIgnoreCase_eq]
  rw [hany]
  simp only [keywordPass]
  cases hk : det.keywords with
  | nil => simp
  | cons k ks => simp

theorem scanWith_eq (data : Bytes) (det : Detector) :
    scanWith data det = if keywordPass det data then (det.fromData data).getD [] else [] := by
  simp only [scanWith]
  rw [keywordPass_eq]
  cases keywordPass det data
  · simp
  · cases det.fromData data <;> simp

/-- Go's ScanString = the specified per-text view -/
theorem scanString_eq (dets : List Detector) (data : Bytes) : scanString dets data = scanText dets data := by
  simp only [scanString, scanText]
  congr 1; funext det; exact scanWith_eq data det

theorem mem_scanText (dets : List Detector) (text : Bytes) (r : DetResult) :
    r ∈ scanText dets text ↔ ∃ det ∈ dets, keywordPass det text = true ∧ ∃ found, det.fromData text = some found ∧ r ∈ found := by
  simp only [scanText, List.mem_flatMap]
  constructor
  · rintro ⟨det, hdet, hr⟩
    by_cases hk : keywordPass det text = true
    · rw [if_pos hk] at hr
      cases hf : det.fromData text with
      | none => rw [hf] at hr; cases hr
      | some found => rw [hf] at hr; exact ⟨det, hdet, hk, found, hf, hr⟩
    · rw [if_neg hk] at hr; cases hr
  · rintro ⟨det, hdet, hk, found, hf, hr⟩
    exact ⟨det, hdet, by rw [if_pos hk, hf]; exact hr⟩

theorem fmtV_nil_short (sh : GoVal → Bytes) : (fmtV sh .nil).length < 8 := by
  simp [fmtV]

/-- one column of one row: the findings of its cell (nothing when the row has no such column: `<nil>` is too short) -/
theorem scanCell_eq (dets : List Detector) (sh : GoVal → Bytes) (db tbl : Bytes) (i : Nat) (row : Row) (c : Bytes) :
    scanCell dets sh db tbl i row c =
      ((lookup c row).map fun v => (c, v)).toList.flatMap (cellFindings dets sh db tbl i) := by
  simp only [scanCell, scanString_eq]
  cases lookup c row with
  | none => simp [fmtV_nil_short]
  | some v =>
    simp only [Option.getD_some, Option.map_some, Option.toList_some, List.flatMap_cons, List.flatMap_nil, List.append_nil,
      cellFindings]

theorem scanRow_eq (dets : List Detector) (sh : GoVal → Bytes) (db tbl : Bytes) (i : Nat) (row : Row) :
    ∀ l : List Bytes, l.flatMap (scanCell dets sh db tbl i row) =
      (l.filterMap fun c => (lookup c row).map fun v => (c, v)).flatMap (cellFindings dets sh db tbl i)
  | [] => rfl
  | c :: l => by
    simp only [List.flatMap_cons, List.filterMap_cons]
    rw [scanRow_eq dets sh db tbl i row l, scanCell_eq]
    cases lookup c row <;> simp

/-- **main equation of the secret scan**: ScanDumpResult returns exactly the specified view, for every dump -/
theorem scan_eq_expected (dets : List Detector) (sh : GoVal → Bytes) (d : Dump) :
    scanDumpResult dets sh d = expectedFindings dets sh d := by
  simp only [scanDumpResult, expectedFindings]
  congr 1; funext D
  simp only [scanDatabaseDump]
  congr 1; funext t
  simp only [scanTable]
  congr 1; funext ri
  simp only [rowCells, rowKeys_eq]
  exact scanRow_eq dets sh D.name t.name ri.2 ri.1 _

end PgVerif.Proofs.Secrets
