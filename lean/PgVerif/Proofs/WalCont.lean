/-
  Per-page independence after fixes/wal/04, 05: what ParseWALFile reports for a page does not depend on the
  pages before it, and depends on the pages after it only through the continuation data they carry
  (`continuationData`).  Helper lemmas for `C17_pages` (Props/C17.lean).
-/
import PgVerif.Proofs.Wal
namespace PgVerif.Proofs.Wal
open PgVerif PgVerif.Model.Wal

/-- the fuel of the continuation loop does not matter once it is at least `need` -/
theorem contLoop_fuel (f1 f2 : Nat) (fol : Bytes) (need : Nat) (h1 : need ≤ f1) (h2 : need ≤ f2) :
    contLoop f1 fol need = contLoop f2 fol need := by
  induction f1 generalizing f2 fol need with
  | zero =>
    have : need = 0 := by omega
    subst this
    rw [contLoop_zero', contLoop_zero']
  | succ f1 ih =>
    cases f2 with
    | zero =>
      have : need = 0 := by omega
      subst this
      rw [contLoop_zero', contLoop_zero']
    | succ f2 =>
      by_cases hneed : 0 < need
      · by_cases hlen : 8192 ≤ fol.length
        · obtain ⟨h, hh, e1⟩ := contLoop_succ f1 fol need hneed hlen
          obtain ⟨h', hh', e2⟩ := contLoop_succ f2 fol need hneed hlen
          rw [hh] at hh'
          injection hh' with hh'
          subst hh'
          have hhs := headerSize_cases h.info
          rw [e1, e2, ih f2 (fol.drop 8192) _ (by omega) (by omega)]
        · unfold contLoop
          rw [if_pos hneed, if_pos (by omega), if_pos hneed, if_pos (by omega)]
      · have : need = 0 := by omega
        subst this
        rw [contLoop_zero', contLoop_zero']

/-- whole pages `x` in front: the continuation data found in `x ++ b` depends on `b` only through the
continuation data `b` itself gives -/
theorem contLoop_through (x b b' : Bytes) (m : Nat) (hx : x.length = m * 8192)
    (hb : ∀ need, continuationData b need = continuationData b' need) (fuel need : Nat) (hf : need ≤ fuel) :
    contLoop fuel (x ++ b) need = contLoop fuel (x ++ b') need := by
  induction m generalizing x fuel need with
  | zero =>
    have : x = [] := by
      cases x with
      | nil => rfl
      | cons c t => simp at hx
    subst this
    simp only [List.nil_append]
    by_cases hneed : 0 < need
    · have := hb need
      unfold continuationData at this
      rw [if_pos hneed, if_pos hneed] at this
      rw [contLoop_fuel fuel need b need hf (Nat.le_refl _), contLoop_fuel fuel need b' need hf (Nat.le_refl _), this]
    · have : need = 0 := by omega
      subst this
      rw [contLoop_zero', contLoop_zero']
  | succ m ih =>
    cases fuel with
    | zero => rfl
    | succ fuel =>
      by_cases hneed : 0 < need
      · have hl : 8192 ≤ x.length := by omega
        obtain ⟨h, hh, e1⟩ := contLoop_succ fuel (x ++ b) need hneed (by rw [List.length_append]; omega)
        obtain ⟨h', hh', e2⟩ := contLoop_succ fuel (x ++ b') need hneed (by rw [List.length_append]; omega)
        rw [List.take_append_of_le_length hl] at hh hh' e1 e2
        rw [hh] at hh'
        injection hh' with hh'
        subst hh'
        have hhs := headerSize_cases h.info
        rw [List.drop_append_of_le_length hl] at e1 e2
        rw [e1, e2, ih (x.drop 8192) (by rw [List.length_drop, hx]; omega) fuel _ (by omega)]
      · have : need = 0 := by omega
        subst this
        rw [contLoop_zero', contLoop_zero']

theorem continuationData_through (x b b' : Bytes) (m : Nat) (hx : x.length = m * 8192)
    (hb : ∀ need, continuationData b need = continuationData b' need) (need : Nat) :
    continuationData (x ++ b) need = continuationData (x ++ b') need := by
  unfold continuationData
  split
  · exact contLoop_through x b b' m hx hb need need (Nat.le_refl _)
  · rfl

theorem recordLoop_congr (data f1 f2 : Bytes) (h : ∀ need, continuationData f1 need = continuationData f2 need)
    (pa magic fuel pos : Nat) : recordLoop data f1 pa magic fuel pos = recordLoop data f2 pa magic fuel pos := by
  induction fuel generalizing pos with
  | zero => rfl
  | succ fuel ih =>
    have hb : ∀ tail, recordBytes tail f1 = recordBytes tail f2 := by
      intro tail; rw [recordBytes_eq, recordBytes_eq]; simp only [h]
    unfold recordLoop
    simp only [hb, ih]

/-- what a page reports depends on the pages that follow only through the continuation data they carry -/
theorem pageRecs_congr (pg f1 f2 : Bytes) (h : ∀ need, continuationData f1 need = continuationData f2 need) :
    pageRecs pg f1 = pageRecs pg f2 := by
  unfold pageRecs parseWALPage
  simp only [recordLoop_congr _ f1 f2 h]

theorem pagesPure_congr (a b b' : Bytes) (n : Nat) (ha : a.length = n * 8192)
    (hb : ∀ need, continuationData b need = continuationData b' need) (fuel k : Nat) (hk : k + fuel ≤ n) :
    pagesPure (a ++ b) fuel (k * 8192) = pagesPure (a ++ b') fuel (k * 8192) := by
  induction fuel generalizing k with
  | zero => rfl
  | succ fuel ih =>
    simp only [pagesPure, List.length_append]
    have hle : k * 8192 + 8192 ≤ a.length := by omega
    rw [if_pos (by omega), if_pos (by omega)]
    rw [List.take_append_of_le_length hle, List.take_append_of_le_length hle,
      List.drop_append_of_le_length hle, List.drop_append_of_le_length hle]
    rw [pageRecs_congr _ _ _ (continuationData_through (a.drop (k * 8192 + 8192)) b b' (n - (k + 1))
      (by rw [List.length_drop, ha, Nat.sub_mul]; omega) hb)]
    congr 1
    have := ih (k + 1) (by omega)
    rw [show (k + 1) * 8192 = k * 8192 + 8192 by omega] at this
    exact this

/-- the records of the pages of `a` depend on what follows `a` only through its continuation data -/
theorem prefixRecs_congr (a b b' : Bytes) (n : Nat) (ha : a.length = n * 8192)
    (hb : ∀ need, continuationData b need = continuationData b' need) : prefixRecs a b = prefixRecs a b' := by
  unfold prefixRecs
  have := pagesPure_congr a b b' n ha hb (a.length / 8192) 0 (by rw [ha, Nat.mul_div_cancel _ (by decide : 0 < 8192)]; omega)
  simpa using this

theorem continuationData_nil (need : Nat) : continuationData [] need = .ok none := by
  unfold continuationData
  split
  · rename_i h
    cases need with
    | zero => omega
    | succ n => unfold contLoop; rw [if_pos h, if_pos (by simp)]; rfl
  · rfl

theorem prefixRecs_nil (a : Bytes) (n : Nat) (ha : a.length = n * 8192) : prefixRecs a [] = fileRecs a := by
  have h := fileRecs_append a [] n ha
  rw [List.append_nil, fileRecs_short [] (by simp), List.append_nil] at h
  exact h.symm

/-- never-written (all-zero) bytes carry no continuation data -/
theorem continuationData_zeros (m need : Nat) : continuationData (zeros m) need = .ok none := by
  unfold continuationData
  split
  · rename_i hneed
    cases need with
    | zero => omega
    | succ k =>
      by_cases hm : 8192 ≤ m
      · obtain ⟨h, hh, e⟩ := contLoop_succ k (zeros m) (k + 1) hneed (by simpa using hm)
        have hz : (zeros m).take 8192 = zeros 8192 := by
          simp only [zeros, List.take_replicate]; congr 1; omega
        rw [hz] at hh
        have h0 : parsePageHeader (zeros 8192) = .ok { magic := 0, info := 0, tli := 0, pageAddr := 0, remLen := 0 } := by
          unfold parsePageHeader
          rw [uN_ok 2 _ 0 (by simp), uN_ok 2 _ 2 (by simp), uN_ok 4 _ 4 (by simp), uN_ok 8 _ 8 (by simp), uN_ok 4 _ 16 (by simp)]
          simp only [ok_bind, drop_zeros, rd_zeros]
          rfl
        rw [h0] at hh
        have hmag : h.magic = 0 := (congrArg PageHeader.magic (Except.ok.inj hh)).symm
        rw [e, hmag]
        split
        · rfl
        · rename_i hc
          exact absurd (by rfl) hc
      · unfold contLoop
        rw [if_pos hneed, if_pos (by simp; omega)]
        rfl
  · rfl


end PgVerif.Proofs.Wal
