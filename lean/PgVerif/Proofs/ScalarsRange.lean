/-
  Range types: decodeRange on PostgreSQL's stored layout, for all 32 flag bytes (area `scalars`).
  Helper lemmas for Props/C04.lean.
-/
import PgVerif.Proofs.ScalarsRT
import PgVerif.Proofs.ScalarsTime
import PgVerif.Proofs.ScalarsBits
set_option linter.unusedSimpArgs false
namespace PgVerif.Proofs.ScalarsRT
open PgVerif PgVerif.Model.Scalars PgVerif.Spec.Scalars PgVerif.Txt

theorem slice_mid (a b c : Bytes) (off n : Nat) (ha : a.length = off) (hb : b.length = n) :
    slice (a ++ b ++ c) off (off + n) = .ok b := by
  rw [slice_ok _ _ _ (by simp; omega) (by omega)]
  have h1 : (a ++ b ++ c).take (off + n) = a ++ b := by
    rw [List.take_left' (by simp; omega)]
  rw [h1, List.drop_left' ha]

/-- one bound sitting at `off`, followed by at least the flag byte -/
theorem readBound_at (ext : Ext) (a b c : Bytes) (off size elemOid : Nat) (v : GoVal)
    (ha : a.length = off) (hb : b.length = size) (hc : 1 ≤ c.length) (hd : decodeType0 ext b elemOid = .ok v) :
    readBound ext (a ++ b ++ c) off size elemOid = .ok (some (fmtV v)) := by
  unfold readBound
  have hl : ¬ (off + size > (a ++ b ++ c).length - 1) := by simp; omega
  rw [if_neg hl, slice_mid a b c off size ha hb]
  simp only [ok_bind, hd, pure_eq_ok]

theorem mask1 (m : Nat) : (m &&& 0x01 != 0) = m.testBit 0 := by
  have := land_pow_ne_zero m 0; simpa using this
theorem mask2 (m : Nat) : (m &&& 0x02 != 0) = m.testBit 1 := by
  have := land_pow_ne_zero m 1; simpa using this
theorem mask4 (m : Nat) : (m &&& 0x04 != 0) = m.testBit 2 := by
  have := land_pow_ne_zero m 2; simpa using this
theorem mask8 (m : Nat) : (m &&& 0x08 != 0) = m.testBit 3 := by
  have := land_pow_ne_zero m 3; simpa using this
theorem mask16 (m : Nat) : (m &&& 0x10 != 0) = m.testBit 4 := by
  have := land_pow_ne_zero m 4; simpa using this

theorem align_elem (offset size : Nat) (hs : size = 4 ∨ size = 8) (ho : offset = 4 ∨ offset = 4 + size) :
    (if size > 1 then align (offset + 4) size - 4 else offset) = offset := by
  rcases hs with rfl | rfl <;> rcases ho with rfl | rfl <;> decide

/-- decodeRangeFixed on the stored layout of a non-empty range with fixed-width bounds -/
theorem rangeFixed_rt (ext : Ext) (pre lo hi lot hit : Bytes) (flags elemOid size : Nat) (vl vh : GoVal)
    (hpre : pre.length = 4) (hsz : size = 4 ∨ size = 8) (hlo : lo.length = size) (hhi : hi.length = size)
    (hdl : decodeType0 ext lo elemOid = .ok vl) (hfl : fmtV vl = lot)
    (hdh : decodeType0 ext hi elemOid = .ok vh) (hfh : fmtV vh = hit) (fb : UInt8) :
    decodeRangeFixed ext (pre ++ (if flags.testBit 3 then [] else lo) ++ (if flags.testBit 4 then [] else hi) ++ [fb])
      flags elemOid size
    = .ok (.str ([if flags.testBit 1 then 91 else 40] ++ (if flags.testBit 3 then [] else lot) ++ [44] ++
        (if flags.testBit 4 then [] else hit) ++ [if flags.testBit 2 then 93 else 41])) := by
  unfold decodeRangeFixed rangeLower rangeUpper rangeOut
  simp only [mask2, mask4, mask8, mask16]
  cases h3 : flags.testBit 3 <;> cases h4 : flags.testBit 4
  · -- both bounds present
    simp only [Bool.false_eq_true, if_false]
    have r1 := readBound_at ext pre lo (hi ++ [fb]) 4 size elemOid vl hpre hlo (by simp) hdl
    have r2 := readBound_at ext (pre ++ lo) hi [fb] (4 + size) size elemOid vh (by simp; omega) hhi (by simp) hdh
    simp only [List.append_assoc] at r1 r2 ⊢
    rw [r1]; simp only [ok_bind, pure_eq_ok]
    rw [align_elem (4 + size) size hsz (Or.inr rfl), r2]
    simp only [ok_bind, pure_eq_ok, hfl, hfh, Bool.not_false, if_true, List.append_assoc]
  · -- lower only
    simp only [Bool.false_eq_true, if_false, if_true, List.append_nil]
    have r1 := readBound_at ext pre lo [fb] 4 size elemOid vl hpre hlo (by simp) hdl
    rw [r1]; simp only [ok_bind, pure_eq_ok, hfl, Bool.not_true, Bool.false_eq_true, if_false, List.append_assoc, List.append_nil]
  · -- upper only
    simp only [Bool.false_eq_true, if_false, if_true, List.append_nil, ok_bind, pure_eq_ok]
    have r2 := readBound_at ext pre hi [fb] 4 size elemOid vh hpre hhi (by simp) hdh
    rw [align_elem 4 size hsz (Or.inl rfl), r2]
    simp only [ok_bind, pure_eq_ok, hfh, Bool.not_false, if_true, List.append_assoc, List.nil_append]
  · -- no bounds
    simp only [if_true, ok_bind, pure_eq_ok, Bool.not_true, Bool.false_eq_true, if_false, List.append_nil, List.append_assoc,
      List.nil_append]

/-! ### the bounds -/

theorem decodeType0_eq (ext : Ext) (data : Bytes) (oid : Nat) (hr : isRangeOid oid = false) :
    decodeType0 ext data oid = decodeType ext data oid := by
  unfold decodeType0 decodeType decodeScalar
  simp [hr]

def elemOidOf : RangeTy → Nat
  | .int4 => 23 | .int8 => 20 | .date => 1082 | .ts => 1114 | .tstz => 1184 | .num => 1700
def elemSizeOf : RangeTy → Nat
  | .int4 => 4 | .int8 => 8 | .date => 4 | .ts => 8 | .tstz => 8 | .num => 0

/-- a well-formed bound of a fixed-width range type decodes (through DecodeType) to a value whose `%v`
text is the bound's text, and occupies exactly the element size -/
theorem bound_ok (ext : Ext) (ty : RangeTy) (hty : ty ≠ .num) (b : Bound) (hb : b.wf ty = true) :
    ∃ v, decodeType0 ext (encBoundAs ty b) (elemOidOf ty) = .ok v ∧ fmtV v = b.text ∧
      (encBoundAs ty b).length = elemSizeOf ty := by
  cases b with
  | int i =>
    have h' : (ty = .int4 ∧ inI 32 i = true) ∨ (ty = .int8 ∧ inI 64 i = true) := by
      simpa [Bound.wf] using hb
    rcases h' with ⟨rfl, hi⟩ | ⟨rfl, hi⟩
    · refine ⟨.int i, ?_, rfl, by simp [encBoundAs, elemSizeOf]⟩
      show decodeType0 ext (le 4 (ofSigned 32 i)) 23 = _
      rw [decodeType0_eq _ _ _ (by decide), decodeType_23 ext _ (by simp)]
      simp only [decInt4, i32, uN_le1 4 _ (ofSigned_lt 32 i), ok_bind, pure_eq_ok, toSigned_ofSigned32 i hi]
    · refine ⟨.int i, ?_, rfl, by simp [encBoundAs, elemSizeOf]⟩
      show decodeType0 ext (le 8 (ofSigned 64 i)) 20 = _
      rw [decodeType0_eq _ _ _ (by decide), decodeType_20 ext _ (by simp)]
      simp only [decInt8, i64, uN_le1 8 _ (ofSigned_lt 64 i), ok_bind, pure_eq_ok, toSigned_ofSigned64 i hi]
  | date d =>
    have h' : ty = .date ∧ d.wf = true := by simpa [Bound.wf] using hb
    obtain ⟨rfl, hd⟩ := h'
    refine ⟨.str d.text, ?_, rfl, by simp [encBoundAs, encBound, elemSizeOf]⟩
    show decodeType0 ext (le 4 (ofSigned 32 d.stored)) 1082 = _
    rw [decodeType0_eq _ _ _ (by decide), decodeType_1082 ext _ (by simp)]
    exact decDate_enc d hd
  | ts t =>
    have h' : (ty = .ts ∨ ty = .tstz) ∧ t.wf = true := by simpa [Bound.wf] using hb
    obtain ⟨hty', ht⟩ := h'
    rcases hty' with rfl | rfl
    · refine ⟨.str t.text, ?_, rfl, by simp [encBoundAs, encBound, elemSizeOf]⟩
      show decodeType0 ext (le 8 (ofSigned 64 t.stored)) 1114 = _
      rw [decodeType0_eq _ _ _ (by decide), decodeType_1114 ext _ (by simp)]
      exact decTimestamp_enc t ht
    · refine ⟨.str t.text, ?_, rfl, by simp [encBoundAs, encBound, elemSizeOf]⟩
      show decodeType0 ext (le 8 (ofSigned 64 t.stored)) 1184 = _
      rw [decodeType0_eq _ _ _ (by decide), decodeType_1184 ext _ (by simp)]
      exact decTimestamp_enc t ht
  | num n form =>
    have h' : ty = .num := by
      simp only [Bound.wf, Bool.and_eq_true, beq_iff_eq] at hb
      exact hb.1.1.1
    exact absurd h' hty

def defaultBound : RangeTy → Bound
  | .int4 | .int8 => .int 0
  | .date => .date .posInf
  | .ts | .tstz => .ts .posInf
  | .num => .num (.fin false 0 0 [1]) .short

theorem defaultBound_wf (ty : RangeTy) : (defaultBound ty).wf ty = true := by
  cases ty <;> decide

theorem idx_last (a : Bytes) (x : UInt8) : idx (a ++ [x]) ((a ++ [x]).length - 1) = .ok x := by
  rw [idx_ok _ _ (by simp)]
  simp

theorem rangeElem_ty (ty : RangeTy) (hty : ty ≠ .num) : rangeElem ty.oid = some (elemOidOf ty, elemSizeOf ty) := by
  cases ty <;> first | rfl | exact absurd rfl hty

/-- a bound of a fixed-width range type is never preceded by padding -/
theorem boundPad_fixed (ty : RangeTy) (hty : ty ≠ .num) (b : Bound) (hb : b.wf ty = true) (k : Nat) : boundPad k b = [] := by
  cases b with
  | num n form =>
    have h' : ty = .num := by
      simp only [Bound.wf, Bool.and_eq_true, beq_iff_eq] at hb
      exact hb.1.1.1
    exact absurd h' hty
  | _ => rfl

/-- the view of a range of a fixed-width element type is the plain text of range_out -/
theorem view_range_fixed (ty : RangeTy) (hty : ty ≠ .num) (flags : Nat) (lo hi : Bound) :
    view (.range ty flags lo hi) = .str (rangeText flags lo hi) := by
  cases ty <;> first | rfl | exact absurd rfl hty

/-- decodeRange on the stored layout of any range of a fixed-width element type, for every flag byte -/
theorem decodeRange_rt (ext : Ext) (ty : RangeTy) (hty : ty ≠ .num) (flags : Nat) (lo hi : Bound) (hf : flags < 32)
    (hlo : rangeHasLower flags = true → lo.wf ty = true) (hhi : rangeHasUpper flags = true → hi.wf ty = true) :
    decodeRange ext (enc (.range ty flags lo hi)) ty.oid = .ok (view (.range ty flags lo hi)) := by
  have hfb : (UInt8.ofNat flags).toNat = flags := u8_toNat flags (by omega)
  rw [view_range_fixed ty hty]
  have hpad : (if rangeHasUpper flags then
        boundPad (4 + (if rangeHasLower flags then encBoundAs ty lo else []).length) hi ++ encBoundAs ty hi else []) =
      (if rangeHasUpper flags then encBoundAs ty hi else []) := by
    cases hu : rangeHasUpper flags
    · rfl
    · simp only [if_true]; rw [boundPad_fixed ty hty hi (hhi hu)]; rfl
  show decodeRange ext (le 4 ty.oid ++ (if rangeHasLower flags then encBoundAs ty lo else []) ++
      (if rangeHasUpper flags then
        boundPad (4 + (if rangeHasLower flags then encBoundAs ty lo else []).length) hi ++ encBoundAs ty hi else []) ++
      [UInt8.ofNat flags]) ty.oid
    = .ok (.str (rangeText flags lo hi))
  rw [hpad]
  unfold decodeRange
  have hlen : ¬ (le 4 ty.oid ++ (if rangeHasLower flags then encBoundAs ty lo else []) ++
      (if rangeHasUpper flags then encBoundAs ty hi else []) ++ [UInt8.ofNat flags]).length < 5 := by
    simp only [List.length_append, le_length, List.length_cons, List.length_nil]; omega
  rw [if_neg hlen, idx_last]
  simp only [ok_bind, hfb, mask1]
  cases h0 : flags.testBit 0
  · -- not empty
    have hnum : ¬ ty.oid = OidNumRange := by cases ty <;> first | decide | exact absurd rfl hty
    simp only [Bool.false_eq_true, if_false, hnum, rangeElem_ty ty hty]
    have hL : rangeHasLower flags = !flags.testBit 3 := by simp [rangeHasLower, h0]
    have hU : rangeHasUpper flags = !flags.testBit 4 := by simp [rangeHasUpper, h0]
    -- absent bounds are replaced by a well-formed dummy (they are neither stored nor shown)
    let lo' := if flags.testBit 3 then defaultBound ty else lo
    let hi' := if flags.testBit 4 then defaultBound ty else hi
    have wl : lo'.wf ty = true := by
      cases h3 : flags.testBit 3
      · simp only [lo', h3]; exact hlo (by simp [hL, h3])
      · simp only [lo', h3]; exact defaultBound_wf ty
    have wh : hi'.wf ty = true := by
      cases h4 : flags.testBit 4
      · simp only [hi', h4]; exact hhi (by simp [hU, h4])
      · simp only [hi', h4]; exact defaultBound_wf ty
    obtain ⟨vl, dl, fl, ll⟩ := bound_ok ext ty hty lo' wl
    obtain ⟨vh, dh, fh, lh⟩ := bound_ok ext ty hty hi' wh
    have hsz : elemSizeOf ty = 4 ∨ elemSizeOf ty = 8 := by
      cases ty <;> first | exact Or.inl rfl | exact Or.inr rfl | exact absurd rfl hty
    have key := rangeFixed_rt ext (le 4 ty.oid) (encBoundAs ty lo') (encBoundAs ty hi') lo'.text hi'.text flags
      (elemOidOf ty) (elemSizeOf ty) vl vh (by simp) hsz ll lh dl fl dh fh (UInt8.ofNat flags)
    have e1 : (if rangeHasLower flags = true then encBoundAs ty lo else []) = (if flags.testBit 3 = true then [] else encBoundAs ty lo') := by
      cases h3 : flags.testBit 3 <;> simp [hL, h3, lo']
    have e2 : (if rangeHasUpper flags = true then encBoundAs ty hi else []) = (if flags.testBit 4 = true then [] else encBoundAs ty hi') := by
      cases h4 : flags.testBit 4 <;> simp [hU, h4, hi']
    rw [e1, e2, key]
    have t1 : (if flags.testBit 3 = true then [] else lo'.text) = (if rangeHasLower flags = true then lo.text else []) := by
      cases h3 : flags.testBit 3 <;> simp [hL, h3, lo']
    have t2 : (if flags.testBit 4 = true then [] else hi'.text) = (if rangeHasUpper flags = true then hi.text else []) := by
      cases h4 : flags.testBit 4 <;> simp [hU, h4, hi']
    simp only [rangeText, h0, Bool.false_eq_true, if_false, t1, t2]
  · -- EMPTY flag: nothing else is looked at
    simp only [if_true, pure_eq_ok, rangeText, h0]
    rfl

end PgVerif.Proofs.ScalarsRT
