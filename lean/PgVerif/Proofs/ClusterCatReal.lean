/-
  `CatDec` (Proofs/ClusterCat.lean: what the catalog logic of C01 needs from the scalar decoder) discharged for the
  composed model of the REAL DecodeType, `Props.C10.Entry.rowsDec X` = the closed model `decodeTypeC X` of
  types.go:DecodeType (Proofs/EntryClosed.lean: `Scalars.decodeType` with the real array / numeric / jsonb models plugged
  in), for every renderer `X`.  (`catDec_local` in ClusterCat.lean discharges it only for area rows' toy decoder.)

  Route: the seven catalog column types (oid 26, name 19, "char" 18, int2 21, int4 23, float4 700, bool 16) are neither
  array oids nor range oids, so on a non-empty input DecodeType is `decodeScalar0` (`decodeTypeC_scalar0`); an input of
  exactly the type's fixed length passes the short-input guard (`shortInput_exact`); the switch then picks the case of
  the type (`scalar0_*`) and the little reader of that case returns (`decU32_ok`, …).
  Nothing here depends on which element type `arrayElemTypes` gives to any array oid, nor on the renderers.
-/
import PgVerif.Proofs.ClusterCat
import PgVerif.Props.C10.Entry
namespace PgVerif.Proofs.Cluster
open PgVerif PgVerif.Model PgVerif.Proofs.Entry

/-! ### DecodeType on a type that is neither an array nor a range -/

/-- On a non-empty input and a type oid that is neither an array type nor a range type, the closed model of DecodeType
is the scalar switch `decodeScalar0` (whatever decodes array elements is not consulted). -/
theorem decodeTypeC_scalar0 (X : Render) (bs : Bytes) (oid : Nat) (hne : bs.length ≠ 0)
    (ha : Scalars.arrayElemTypes.lookup oid = none) (hr : Scalars.isRangeOid oid = false) :
    decodeTypeC X bs oid = Scalars.decodeScalar0 (extOf X (decodeTypeN X 1)) bs oid := by
  show Scalars.decodeType (extOf X (decodeTypeN X 1)) bs oid = _
  unfold Scalars.decodeType Scalars.decodeScalar
  rw [if_neg hne, ha, hr]
  rfl

/-- the short-input guard lets an input of at least the type's fixed length through -/
theorem shortInput_exact (bs : Bytes) (oid n : Nat) (hf : Scalars.fixedLengths.lookup oid = some n) (hl : n ≤ bs.length) :
    Scalars.shortInput bs oid = false := by
  unfold Scalars.shortInput
  rw [hf]
  exact decide_eq_false (by omega)

/-! ### the seven catalog column types are neither array nor range types, and have these fixed lengths -/

theorem notArray_oid : Scalars.arrayElemTypes.lookup 26 = none := by decide
theorem notArray_name : Scalars.arrayElemTypes.lookup 19 = none := by decide
theorem notArray_char : Scalars.arrayElemTypes.lookup 18 = none := by decide
theorem notArray_int2 : Scalars.arrayElemTypes.lookup 21 = none := by decide
theorem notArray_int4 : Scalars.arrayElemTypes.lookup 23 = none := by decide
theorem notArray_float4 : Scalars.arrayElemTypes.lookup 700 = none := by decide
theorem notArray_bool : Scalars.arrayElemTypes.lookup 16 = none := by decide

theorem fixedLen_oid : Scalars.fixedLengths.lookup 26 = some 4 := by decide
theorem fixedLen_name : Scalars.fixedLengths.lookup 19 = some 64 := by decide
theorem fixedLen_char : Scalars.fixedLengths.lookup 18 = some 1 := by decide
theorem fixedLen_int2 : Scalars.fixedLengths.lookup 21 = some 2 := by decide
theorem fixedLen_int4 : Scalars.fixedLengths.lookup 23 = some 4 := by decide
theorem fixedLen_float4 : Scalars.fixedLengths.lookup 700 = some 4 := by decide
theorem fixedLen_bool : Scalars.fixedLengths.lookup 16 = some 1 := by decide

/-! ### the case the switch picks, once the short-input guard is passed -/

theorem scalar0_oid (e : Scalars.Ext) (bs : Bytes) (h : Scalars.shortInput bs 26 = false) :
    Scalars.decodeScalar0 e bs 26 = Scalars.decU32 bs := by
  unfold Scalars.decodeScalar0
  rw [h]
  rfl

theorem scalar0_name (e : Scalars.Ext) (bs : Bytes) (h : Scalars.shortInput bs 19 = false) :
    Scalars.decodeScalar0 e bs 19 = .ok (.str (Scalars.cstring bs 64)) := by
  unfold Scalars.decodeScalar0
  rw [h]
  rfl

theorem scalar0_char (e : Scalars.Ext) (bs : Bytes) (h : Scalars.shortInput bs 18 = false) :
    Scalars.decodeScalar0 e bs 18 = Scalars.decChar bs := by
  unfold Scalars.decodeScalar0
  rw [h]
  rfl

theorem scalar0_int2 (e : Scalars.Ext) (bs : Bytes) (h : Scalars.shortInput bs 21 = false) :
    Scalars.decodeScalar0 e bs 21 = Scalars.decInt2 bs := by
  unfold Scalars.decodeScalar0
  rw [h]
  rfl

theorem scalar0_int4 (e : Scalars.Ext) (bs : Bytes) (h : Scalars.shortInput bs 23 = false) :
    Scalars.decodeScalar0 e bs 23 = Scalars.decInt4 bs := by
  unfold Scalars.decodeScalar0
  rw [h]
  rfl

theorem scalar0_float4 (e : Scalars.Ext) (bs : Bytes) (h : Scalars.shortInput bs 700 = false) :
    Scalars.decodeScalar0 e bs 700 = Scalars.decFloat4 bs := by
  unfold Scalars.decodeScalar0
  rw [h]
  rfl

theorem scalar0_bool (e : Scalars.Ext) (bs : Bytes) (h : Scalars.shortInput bs 16 = false) :
    Scalars.decodeScalar0 e bs 16 = Scalars.decBool bs := by
  unfold Scalars.decodeScalar0
  rw [h]
  rfl

/-! ### the readers of those cases on an input that is long enough -/

/-- oid: the unsigned little-endian value of the four bytes -/
theorem decU32_ok (bs : Bytes) (h : 4 ≤ bs.length) : Scalars.decU32 bs = .ok (.int (rd 4 bs)) := by
  unfold Scalars.decU32 Scalars.u32
  rw [uN_ok 4 bs 0 (by omega)]
  rfl

/-- int2: the signed value of the two bytes -/
theorem decInt2_ok (bs : Bytes) (h : 2 ≤ bs.length) : Scalars.decInt2 bs = .ok (.int (toSigned 16 (rd 2 bs))) := by
  unfold Scalars.decInt2 Scalars.i16
  rw [uN_ok 2 bs 0 (by omega)]
  rfl

/-- int4: the signed value of the four bytes -/
theorem decInt4_ok (bs : Bytes) (h : 4 ≤ bs.length) : Scalars.decInt4 bs = .ok (.int (toSigned 32 (rd 4 bs))) := by
  unfold Scalars.decInt4 Scalars.i32
  rw [uN_ok 4 bs 0 (by omega)]
  rfl

/-- float4: the bit pattern -/
theorem decFloat4_ok (bs : Bytes) (h : 4 ≤ bs.length) : Scalars.decFloat4 bs = .ok (.f32 (rd 4 bs)) := by
  unfold Scalars.decFloat4 Scalars.u32
  rw [uN_ok 4 bs 0 (by omega)]
  rfl

/-- "char": the first byte, as a one-byte string -/
theorem decChar_ok (bs : Bytes) (h : 1 ≤ bs.length) : Scalars.decChar bs = .ok (.str (bs.take 1)) := by
  unfold Scalars.decChar
  rw [sliceTo_ok bs 1 h]
  rfl

/-- bool: first byte non-zero -/
theorem decBool_ok (bs : Bytes) (h : 0 < bs.length) : Scalars.decBool bs = .ok (.bool (bs[0] != 0)) := by
  unfold Scalars.decBool
  rw [idx_ok bs 0 h]
  rfl

/-! ### the closed DecodeType on the catalog column types -/

/-- DecodeType of a 4-byte `oid` value: the unsigned 32-bit number -/
theorem decodeTypeC_oid (X : Render) (bs : Bytes) (h : bs.length = 4) : decodeTypeC X bs 26 = .ok (.int (rd 4 bs)) := by
  rw [decodeTypeC_scalar0 X bs 26 (by omega) notArray_oid (by decide),
    scalar0_oid _ bs (shortInput_exact bs 26 4 fixedLen_oid (by omega)), decU32_ok bs (by omega)]

/-- DecodeType of a 64-byte `name` value: the bytes before the first NUL -/
theorem decodeTypeC_name (X : Render) (bs : Bytes) (h : bs.length = 64) :
    decodeTypeC X bs 19 = .ok (.str (Scalars.cstring bs 64)) := by
  rw [decodeTypeC_scalar0 X bs 19 (by omega) notArray_name (by decide),
    scalar0_name _ bs (shortInput_exact bs 19 64 fixedLen_name (by omega))]

/-- DecodeType of a 1-byte `"char"` value: that byte as a string -/
theorem decodeTypeC_char (X : Render) (bs : Bytes) (h : bs.length = 1) : decodeTypeC X bs 18 = .ok (.str bs) := by
  rw [decodeTypeC_scalar0 X bs 18 (by omega) notArray_char (by decide),
    scalar0_char _ bs (shortInput_exact bs 18 1 fixedLen_char (by omega)), decChar_ok bs (by omega),
    List.take_of_length_le (by omega)]

/-- DecodeType of a 2-byte `int2` value: the signed 16-bit number -/
theorem decodeTypeC_int2 (X : Render) (bs : Bytes) (h : bs.length = 2) :
    decodeTypeC X bs 21 = .ok (.int (toSigned 16 (rd 2 bs))) := by
  rw [decodeTypeC_scalar0 X bs 21 (by omega) notArray_int2 (by decide),
    scalar0_int2 _ bs (shortInput_exact bs 21 2 fixedLen_int2 (by omega)), decInt2_ok bs (by omega)]

/-- DecodeType of a 4-byte `int4` value: the signed 32-bit number -/
theorem decodeTypeC_int4 (X : Render) (bs : Bytes) (h : bs.length = 4) :
    decodeTypeC X bs 23 = .ok (.int (toSigned 32 (rd 4 bs))) := by
  rw [decodeTypeC_scalar0 X bs 23 (by omega) notArray_int4 (by decide),
    scalar0_int4 _ bs (shortInput_exact bs 23 4 fixedLen_int4 (by omega)), decInt4_ok bs (by omega)]

/-- DecodeType of a 4-byte `float4` value: its bit pattern -/
theorem decodeTypeC_float4 (X : Render) (bs : Bytes) (h : bs.length = 4) : decodeTypeC X bs 700 = .ok (.f32 (rd 4 bs)) := by
  rw [decodeTypeC_scalar0 X bs 700 (by omega) notArray_float4 (by decide),
    scalar0_float4 _ bs (shortInput_exact bs 700 4 fixedLen_float4 (by omega)), decFloat4_ok bs (by omega)]

/-- DecodeType of a 1-byte `bool` value: byte ≠ 0 -/
theorem decodeTypeC_bool (X : Render) (bs : Bytes) (h : bs.length = 1) :
    decodeTypeC X bs 16 = .ok (.bool (bs[0]'(by omega) != 0)) := by
  rw [decodeTypeC_scalar0 X bs 16 (by omega) notArray_bool (by decide),
    scalar0_bool _ bs (shortInput_exact bs 16 1 fixedLen_bool (by omega)), decBool_ok bs (by omega)]

/-- area scalars' `cstring` (binary.go) is the same function as area rows' (the one `CatDec` is stated with) -/
theorem scalars_cstring_eq (bs : Bytes) (n : Nat) : Scalars.cstring bs n = Model.cstring bs n := rfl

/-- The real DecodeType — the closed model `decodeTypeC` of types.go:DecodeType, composed of the models of areas scalars,
arrays and numjson, as the value decoder `rowsDec X` of heap.go — decodes the column types of the tool's catalog
schemas as the catalog logic of C01 needs, whatever the renderers `X` are: a 4-byte `oid` is the unsigned 32-bit
value, a 2-byte `int2` the signed 16-bit value, a 64-byte `name` the bytes before the first NUL, a 1-byte `"char"` the
byte itself as a string; 4-byte `int4` / `float4` and 1-byte `bool` values decode without error. -/
theorem catDec_rowsDec (X : PgVerif.Proofs.Entry.Render) : CatDec (PgVerif.Props.C10.Entry.rowsDec X) where
  oid bs h := decodeTypeC_oid X bs h
  name bs h := decodeTypeC_name X bs h
  char bs h := decodeTypeC_char X bs h
  int2 bs h := decodeTypeC_int2 X bs h
  int4 bs h := ⟨_, decodeTypeC_int4 X bs h⟩
  float4 bs h := ⟨_, decodeTypeC_float4 X bs h⟩
  bool bs h := ⟨_, decodeTypeC_bool X bs h⟩

/-- non-vacuity / sanity on concrete inputs: the real model on an oid, a "char" and an int2 value -/
example : PgVerif.Props.C10.Entry.rowsDec PgVerif.Props.C10.Entry.trivialRender [0x3b, 0x0a, 0, 0] 26 = .ok (.int 2619) := by rfl
example : PgVerif.Props.C10.Entry.rowsDec PgVerif.Props.C10.Entry.trivialRender [114] 18 = .ok (.str [114]) := by rfl
example : PgVerif.Props.C10.Entry.rowsDec PgVerif.Props.C10.Entry.trivialRender [0xff, 0xff] 21 = .ok (.int (-1)) := by rfl

#print axioms catDec_rowsDec

end PgVerif.Proofs.Cluster
