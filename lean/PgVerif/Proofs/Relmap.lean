/-
  Helper lemmas for C20 (relation map): reading an encoded pg_filenode.map.
-/
import PgVerif.Model.Relmap
import PgVerif.Spec.Relmap
namespace PgVerif.Proofs
open PgVerif PgVerif.Spec

def toMapping (e : Nat × Nat) : Model.RelMapping := ⟨e.1, e.2⟩

theorem flatMap_encMapping_length (ms : List (Nat × Nat)) : (ms.flatMap encMapping).length = 8 * ms.length := by
  induction ms with
  | nil => rfl
  | cons e t ih => simp [encMapping, ih]; omega

/-- the mapping loop over `pre ++ mappings ++ rest`, started right after `pre`, returns the mappings in order -/
theorem relMapLoop_enc (ms : List (Nat × Nat)) (pre rest : Bytes) (off : Nat) (hoff : off = pre.length)
    (hwf : ∀ e ∈ ms, e.1 < 2 ^ 32 ∧ e.2 < 2 ^ 32) :
    Model.relMapLoop (pre ++ (ms.flatMap encMapping ++ rest)) ms.length off = .ok (ms.map toMapping) := by
  induction ms generalizing pre off with
  | nil => rfl
  | cons e t ih =>
    have he := hwf e (by simp)
    simp only [List.length_cons, Model.relMapLoop, List.flatMap_cons, encMapping, List.append_assoc]
    have hlen : off + 8 ≤ (pre ++ (le 4 e.1 ++ (le 4 e.2 ++ (t.flatMap encMapping ++ rest)))).length := by
      simp; omega
    rw [if_neg (by omega)]
    simp (disch := omega) only [uN_ok, ok_bind]
    have r1 : rd 4 (List.drop off (pre ++ (le 4 e.1 ++ (le 4 e.2 ++ (t.flatMap encMapping ++ rest))))) = e.1 :=
      rdAt_append' 4 e.1 off pre _ hoff (by omega)
    have r2 : rd 4 (List.drop (off + 4) (pre ++ (le 4 e.1 ++ (le 4 e.2 ++ (t.flatMap encMapping ++ rest))))) = e.2 := by
      have := rdAt_append' 4 e.2 (off + 4) (pre ++ le 4 e.1) (t.flatMap encMapping ++ rest) (by simp; omega) (by omega)
      simpa [rdAt, List.append_assoc] using this
    rw [r1, r2]
    have := ih (pre ++ (le 4 e.1 ++ le 4 e.2)) (off + 8) (by simp; omega) (fun x hx => hwf x (by simp [hx]))
    simp only [List.append_assoc] at this
    rw [this]
    rfl

theorem toSigned32_small (n : Nat) (h : n < 2 ^ 31) : toSigned 32 n = (n : Int) := by
  unfold toSigned
  rw [if_pos (by simpa using h)]

/-- the length of an encoding with `mx` slots and `padLen` padding bytes -/
theorem encRelMapRaw_length_core (mx padLen magic count : Nat) (m : RelMap) (h1 : m.mappings.length ≤ mx)
    (h2 : m.unused.length = 8 * (mx - m.mappings.length)) (h4 : m.pad.length = padLen) :
    (encRelMapRaw magic count m).length = 8 + 8 * mx + 4 + padLen := by
  simp [-List.length_flatMap, encRelMapRaw, flatMap_encMapping_length, h2, h4]
  omega

theorem encRelMapRaw_length (magic count : Nat) (m : RelMap) (h : m.WF) : (encRelMapRaw magic count m).length = 512 := by
  obtain ⟨h1, h2, _, h4, _⟩ := h
  rw [encRelMapRaw_length_core relmapMax 4 magic count m h1 h2 h4]; rfl

theorem encRelMapRaw_length16 (magic count : Nat) (m : RelMap) (h : m.WF16) : (encRelMapRaw magic count m).length = 524 := by
  obtain ⟨h1, h2, _, h4, _⟩ := h
  rw [encRelMapRaw_length_core relmapMax16 0 magic count m h1 h2 h4]; rfl

/-- ParseRelMapFile on an encoded map with `mx` slots followed by `tail`, when the file size selects `mx` -/
theorem parseRelMapFile_enc_core (mx padLen : Nat) (m : RelMap) (h1 : m.mappings.length ≤ mx)
    (h2 : m.unused.length = 8 * (mx - m.mappings.length)) (h3 : m.crc < 2 ^ 32) (h4 : m.pad.length = padLen)
    (h5 : ∀ e ∈ m.mappings, e.1 < 2 ^ 32 ∧ e.2 < 2 ^ 32) (tail : Bytes) (hmx : 62 ≤ mx ∧ mx ≤ 64)
    (hsz : 512 ≤ 8 + 8 * mx + 4 + padLen)
    (hsel : (if 8 + 8 * mx + 4 + padLen + tail.length = 524 then 64 else 62) = mx) :
    Model.parseRelMapFile (encRelMap m ++ tail) =
      .ok (some { magic := relmapMagic, numMappings := m.mappings.length, mappings := m.mappings.map toMapping, crc := m.crc }) := by
  have hlen := encRelMapRaw_length_core mx padLen relmapMagic m.mappings.length m h1 h2 h4
  have hl : (encRelMap m ++ tail).length = 8 + 8 * mx + 4 + padLen + tail.length := by simp [encRelMap, hlen]
  unfold Model.parseRelMapFile
  rw [if_neg (by omega)]
  simp (disch := omega) only [uN_ok, ok_bind, pure_eq_ok]
  have e : encRelMap m ++ tail = le 4 relmapMagic ++ (le 4 m.mappings.length ++
      (m.mappings.flatMap encMapping ++ (m.unused ++ (le 4 m.crc ++ (m.pad ++ tail))))) := by
    simp [encRelMap, encRelMapRaw, List.append_assoc]
  have r0 : rd 4 (List.drop 0 (encRelMap m ++ tail)) = relmapMagic := by
    rw [e]; exact rd_le 4 _ _ (by decide)
  have r4 : rd 4 (List.drop 4 (encRelMap m ++ tail)) = m.mappings.length := by
    rw [e]
    have := rdAt_append' 4 m.mappings.length 4 (le 4 relmapMagic) (m.mappings.flatMap encMapping ++ (m.unused ++ (le 4 m.crc ++ (m.pad ++ tail)))) (by simp) (by omega)
    simpa [rdAt] using this
  have rcrc : rd 4 (List.drop (8 + mx * 8) (encRelMap m ++ tail)) = m.crc := by
    rw [e]
    have := rdAt_append' 4 m.crc (8 + mx * 8) (le 4 relmapMagic ++ (le 4 m.mappings.length ++ (m.mappings.flatMap encMapping ++ m.unused)))
      (m.pad ++ tail) (by simp [-List.length_flatMap, flatMap_encMapping_length, h2]; omega) h3
    simpa [rdAt, List.append_assoc] using this
  have hloop : Model.relMapLoop (encRelMap m ++ tail) m.mappings.length 8 = .ok (m.mappings.map toMapping) := by
    rw [e]
    have := relMapLoop_enc m.mappings (le 4 relmapMagic ++ le 4 m.mappings.length) (m.unused ++ (le 4 m.crc ++ (m.pad ++ tail))) 8
      (by simp) h5
    simpa [List.append_assoc] using this
  rw [r0, r4]
  rw [if_neg (by simp [relmapMagic]), toSigned32_small _ (by omega)]
  rw [hl, hsel]
  rw [if_neg (by omega)]
  simp only [Int.toNat_natCast, hloop, ok_bind]
  rw [if_pos (by omega)]
  simp only [ok_bind]
  rw [rcrc]

/-- ParseRelMapFile on an encoded PostgreSQL 12–15 map followed by anything that does not make the file 524 bytes long -/
theorem parseRelMapFile_enc (m : RelMap) (h : m.WF) (tail : Bytes) (ht : tail.length ≠ 12) :
    Model.parseRelMapFile (encRelMap m ++ tail) =
      .ok (some { magic := relmapMagic, numMappings := m.mappings.length, mappings := m.mappings.map toMapping, crc := m.crc }) := by
  obtain ⟨h1, h2, h3, h4, h5⟩ := h
  exact parseRelMapFile_enc_core relmapMax 4 m h1 h2 h3 h4 h5 tail (by decide) (by decide)
    (by unfold relmapMax; rw [if_neg (by omega)])

/-- ParseRelMapFile on an encoded PostgreSQL 16 map (exactly 524 bytes) -/
theorem parseRelMapFile_enc16 (m : RelMap) (h : m.WF16) :
    Model.parseRelMapFile (encRelMap m) =
      .ok (some { magic := relmapMagic, numMappings := m.mappings.length, mappings := m.mappings.map toMapping, crc := m.crc }) := by
  obtain ⟨h1, h2, h3, h4, h5⟩ := h
  have := parseRelMapFile_enc_core relmapMax16 0 m h1 h2 h3 h4 h5 [] (by decide) (by decide) (by unfold relmapMax16; rfl)
  simpa using this

/-- the largest count ParseRelMapFile accepts in a file of `n` bytes: 64 in a 524-byte file (PostgreSQL 16), 62 otherwise -/
def maxCountFor (n : Nat) : Nat := if n = 524 then 64 else 62

/-- rejection, for every byte string: too short, wrong magic or a count outside 0..max give the error result -/
theorem parseRelMapFile_reject (bs : Bytes)
    (h : bs.length < 512 ∨ rdAt 4 0 bs ≠ 0x592717 ∨ toSigned 32 (rdAt 4 4 bs) < 0 ∨
      toSigned 32 (rdAt 4 4 bs) > maxCountFor bs.length) :
    Model.parseRelMapFile bs = .ok none := by
  unfold Model.parseRelMapFile
  by_cases hl : bs.length < 512
  · simp [hl]
  · simp (disch := omega) only [hl, if_false, uN_ok, ok_bind, pure_eq_ok]
    unfold rdAt maxCountFor at h
    by_cases hm : rd 4 (List.drop 0 bs) ≠ 0x592717
    · rw [if_pos hm]
    · rw [if_neg hm]
      have : toSigned 32 (rd 4 (List.drop 4 bs)) < 0 ∨
          toSigned 32 (rd 4 (List.drop 4 bs)) > ((if bs.length = 524 then 64 else 62 : Nat) : Int) := by
        rcases h with h | h | h | h
        · exact absurd h hl
        · exact absurd h hm
        · exact Or.inl h
        · exact Or.inr h
      rw [if_pos this]

/-- and conversely: anything accepted has the magic, a count in 0..max and at most `count` mappings -/
theorem parseRelMapFile_accept (bs : Bytes) (rm : Model.RelMapFile) (h : Model.parseRelMapFile bs = .ok (some rm)) :
    bs.length ≥ 512 ∧ rm.magic = 0x592717 ∧ rdAt 4 0 bs = 0x592717 ∧ 0 ≤ rm.numMappings ∧
    rm.numMappings ≤ maxCountFor bs.length ∧ rm.numMappings = toSigned 32 (rdAt 4 4 bs) := by
  unfold Model.parseRelMapFile at h
  by_cases hl : bs.length < 512
  · simp [hl] at h
  · simp (disch := omega) only [hl, if_false, uN_ok, ok_bind, pure_eq_ok] at h
    have hge : bs.length ≥ 8 + (if bs.length = 524 then 64 else 62) * 8 + 4 := by split <;> omega
    have hle : (if bs.length = 524 then 64 else 62 : Nat) ≤ 64 := by split <;> omega
    unfold maxCountFor
    generalize (if bs.length = 524 then 64 else 62 : Nat) = mx at h hge hle ⊢
    split at h
    · simp at h
    · rename_i hm
      split at h
      · simp at h
      · rename_i hc
        cases hloop : Model.relMapLoop bs (toSigned 32 (rd 4 (List.drop 4 bs))).toNat 8 with
        | error e => simp [hloop] at h
        | ok ms =>
          simp only [hloop, ok_bind] at h
          injection h with h; injection h with h; subst h
          refine ⟨by omega, ?_, ?_, ?_, ?_, rfl⟩
          · simpa using hm
          · simpa [rdAt] using hm
          · simp only; omega
          · simp only; omega

theorem relMapGetFilenode_eq (ms : List (Nat × Nat)) (oid : Nat) :
    Model.relMapGetFilenode (ms.map toMapping) oid = filenodeOf ms oid := by
  induction ms with
  | nil => rfl
  | cons e t ih =>
    simp only [List.map_cons, Model.relMapGetFilenode, filenodeOf, List.find?_cons, toMapping]
    by_cases h : e.1 = oid
    · simp [h]
    · have : (e.1 == oid) = false := by simpa using h
      rw [if_neg h, this]; exact ih

theorem relMapGetOID_eq (ms : List (Nat × Nat)) (fn : Nat) :
    Model.relMapGetOID (ms.map toMapping) fn = oidOf ms fn := by
  induction ms with
  | nil => rfl
  | cons e t ih =>
    simp only [List.map_cons, Model.relMapGetOID, oidOf, List.find?_cons, toMapping]
    by_cases h : e.2 = fn
    · simp [h]
    · have : (e.2 == fn) = false := by simpa using h
      rw [if_neg h, this]; exact ih

end PgVerif.Proofs
