/-
  Helper lemmas for C20 (relation map): reading an encoded pg_filenode.map.
-/
import PgVerif.Model.Relmap
import PgVerif.Spec.Relmap
import PgVerif.Proofs.Crc
import PgVerif.Proofs.ControlTotal
namespace PgVerif.Proofs
open PgVerif PgVerif.Spec

def toMapping (e : Nat × Nat) : Model.RelMapping := ⟨e.1, e.2⟩

theorem flatMap_encMapping_length (ms : List (Nat × Nat)) : (ms.flatMap encMapping).length = 8 * ms.length := by
  induction ms with
  | nil => rfl
  | cons e t ih => simp [encMapping, ih]; omega

/-- the mapping loop over `pre ++ mappings ++ rest`, started right after `pre`, returns the mappings in order -/
theorem relMapLoop_enc (ms : List (Nat × Nat)) (pre rest : Bytes) (off : Nat) (hoff : off = pre.length)
    (hwf : ∀ e ∈ ms, e.1 < 2 ^ 32 ∧ e.2 < 2 ^ 32) :
    Model.relMapLoop (pre ++ (ms.flatMap encMapping ++ rest)) ms.length off = .ok (ms.map toMapping) := by
  induction ms generalizing pre off with
  | nil => rfl
  | cons e t ih =>
    have he := hwf e (by simp)
    simp only [List.length_cons, Model.relMapLoop, List.flatMap_cons, encMapping, List.append_assoc]
    have hlen : off + 8 ≤ (pre ++ (le 4 e.1 ++ (le 4 e.2 ++ (t.flatMap encMapping ++ rest)))).length := by
      simp; omega
    rw [if_neg (by omega)]
    simp (disch := omega) only [uN_ok, ok_bind]
    have r1 : rd 4 (List.drop off (pre ++ (le 4 e.1 ++ (le 4 e.2 ++ (t.flatMap encMapping ++ rest))))) = e.1 :=
      rdAt_append' 4 e.1 off pre _ hoff (by omega)
    have r2 : rd 4 (List.drop (off + 4) (pre ++ (le 4 e.1 ++ (le 4 e.2 ++ (t.flatMap encMapping ++ rest))))) = e.2 := by
      have := rdAt_append' 4 e.2 (off + 4) (pre ++ le 4 e.1) (t.flatMap encMapping ++ rest) (by simp; omega) (by omega)
      simpa [rdAt, List.append_assoc] using this
    rw [r1, r2]
    have := ih (pre ++ (le 4 e.1 ++ le 4 e.2)) (off + 8) (by simp; omega) (fun x hx => hwf x (by simp [hx]))
    simp only [List.append_assoc] at this
    rw [this]
    rfl

/-- the loop returns at most the requested number of mappings -/
theorem relMapLoop_length (bs : Bytes) (n off : Nat) (ms : List Model.RelMapping) (h : Model.relMapLoop bs n off = .ok ms) :
    ms.length ≤ n := by
  induction n generalizing off ms with
  | zero => unfold Model.relMapLoop at h; cases h; simp
  | succ n ih =>
    unfold Model.relMapLoop at h
    by_cases hg : off + 8 > bs.length
    · rw [if_pos hg] at h; cases h; simp
    · rw [if_neg hg] at h
      simp (disch := omega) only [uN_ok, ok_bind, pure_eq_ok] at h
      cases hr : Model.relMapLoop bs n (off + 8) with
      | error e => simp [hr] at h
      | ok rest =>
        simp only [hr, ok_bind] at h
        cases h
        have := ih (off + 8) rest hr
        simp; omega

theorem toSigned32_small (n : Nat) (h : n < 2 ^ 31) : toSigned 32 n = (n : Int) := by
  unfold toSigned
  rw [if_pos (by simpa using h)]

/-- the length of an encoding with `mx` slots and `padLen` padding bytes -/
theorem encRelMapRaw_length_core (mx padLen magic count : Nat) (m : RelMap) (h1 : m.mappings.length ≤ mx)
    (h2 : m.unused.length = 8 * (mx - m.mappings.length)) (h4 : m.pad.length = padLen) :
    (encRelMapRaw magic count m).length = 8 + 8 * mx + 4 + padLen := by
  simp [-List.length_flatMap, encRelMapRaw, flatMap_encMapping_length, h2, h4]
  omega

theorem encRelMapRaw_length (magic count : Nat) (m : RelMap) (h : m.WF) : (encRelMapRaw magic count m).length = 512 := by
  obtain ⟨h1, h2, _, h4, _⟩ := h
  rw [encRelMapRaw_length_core relmapMax 4 magic count m h1 h2 h4]; rfl

theorem encRelMapRaw_length16 (magic count : Nat) (m : RelMap) (h : m.WF16) : (encRelMapRaw magic count m).length = 524 := by
  obtain ⟨h1, h2, _, h4, _⟩ := h
  rw [encRelMapRaw_length_core relmapMax16 0 magic count m h1 h2 h4]; rfl

/-! ### relMapIsV16 in terms of the Spec's crc check -/

theorem crcOk16_eq (bs : Bytes) (h : 524 ≤ bs.length) :
    relmapCrcOk .v16 bs = (rd 4 (bs.drop 520) == crc32c (bs.take 520)) := by
  have hs : RelMapLayout.v16.size = 524 := by decide
  have ho : RelMapLayout.v16.crcOffset = 520 := by decide
  unfold relmapCrcOk relmapBody rdAt
  rw [hs, ho, decide_eq_true h, Bool.true_and]

theorem crcOk12_eq (bs : Bytes) (h : 512 ≤ bs.length) :
    relmapCrcOk .v12 bs = (rd 4 (bs.drop 504) == crc32c (bs.take 504)) := by
  have hs : RelMapLayout.v12.size = 512 := by decide
  have ho : RelMapLayout.v12.crcOffset = 504 := by decide
  unfold relmapCrcOk relmapBody rdAt
  rw [hs, ho, decide_eq_true h, Bool.true_and]

/-- what relMapIsV16 answers, for every byte string and count: "16" iff the 16 struct fits and (the count exceeds 62, or
the image verifies as a 16 map, or it verifies as neither and is exactly 524 bytes long) -/
def isV16Of (bs : Bytes) (n : Int) : Bool :=
  decide (524 ≤ bs.length) && (decide (n > 62) || relmapCrcOk .v16 bs || (!relmapCrcOk .v12 bs && bs.length == 524))

theorem relMapIsV16_eq (bs : Bytes) (n : Int) : Model.relMapIsV16 bs n = .ok (isV16Of bs n) := by
  unfold Model.relMapIsV16 isV16Of
  by_cases hl : bs.length < 524
  · rw [if_pos hl, decide_eq_false (by omega), Bool.false_and]; rfl
  · rw [if_neg hl, decide_eq_true (by omega), Bool.true_and]
    by_cases hn : n > 62
    · rw [if_pos hn, decide_eq_true hn]; rfl
    · rw [if_neg hn, decide_eq_false hn, Bool.false_or]
      simp (disch := omega) only [slice_ok, uN_ok, ok_bind, pure_eq_ok, List.drop_zero]
      rw [verifyCRC32C_eq, verifyCRC32C_eq, ← crcOk16_eq bs (by omega), ← crcOk12_eq bs (by omega)]
      cases relmapCrcOk .v16 bs
      · cases relmapCrcOk .v12 bs <;> simp
      · simp

theorem isV16Of_len (bs : Bytes) (n : Int) (h : isV16Of bs n = true) : 524 ≤ bs.length := by
  unfold isV16Of at h
  simp only [Bool.and_eq_true, decide_eq_true_eq] at h
  exact h.1

theorem isV16Of_count (bs : Bytes) (n : Int) (h : isV16Of bs n = false) (hl : 524 ≤ bs.length) : n ≤ 62 := by
  unfold isV16Of at h
  rw [decide_eq_true hl, Bool.true_and] at h
  simp only [Bool.or_eq_false_iff, decide_eq_false_iff_not] at h
  omega

/-- ParseRelMapFile on an encoded map with `mx` slots followed by `tail`, when relMapIsV16 selects `mx` -/
theorem parseRelMapFile_enc_core (mx padLen : Nat) (m : RelMap) (h1 : m.mappings.length ≤ mx)
    (h2 : m.unused.length = 8 * (mx - m.mappings.length)) (h3 : m.crc < 2 ^ 32) (h4 : m.pad.length = padLen)
    (h5 : ∀ e ∈ m.mappings, e.1 < 2 ^ 32 ∧ e.2 < 2 ^ 32) (tail : Bytes) (hmx : 62 ≤ mx ∧ mx ≤ 64)
    (hsz : 512 ≤ 8 + 8 * mx + 4 + padLen)
    (hsel : (if isV16Of (encRelMap m ++ tail) (m.mappings.length : Int) then 64 else 62) = mx) :
    Model.parseRelMapFile (encRelMap m ++ tail) =
      .ok (some { magic := relmapMagic, numMappings := m.mappings.length, mappings := m.mappings.map toMapping, crc := m.crc }) := by
  have hlen := encRelMapRaw_length_core mx padLen relmapMagic m.mappings.length m h1 h2 h4
  have hl : (encRelMap m ++ tail).length = 8 + 8 * mx + 4 + padLen + tail.length := by simp [encRelMap, hlen]
  unfold Model.parseRelMapFile
  rw [if_neg (by omega)]
  simp (disch := omega) only [uN_ok, ok_bind, pure_eq_ok]
  have e : encRelMap m ++ tail = le 4 relmapMagic ++ (le 4 m.mappings.length ++
      (m.mappings.flatMap encMapping ++ (m.unused ++ (le 4 m.crc ++ (m.pad ++ tail))))) := by
    simp [encRelMap, encRelMapRaw, List.append_assoc]
  have r0 : rd 4 (List.drop 0 (encRelMap m ++ tail)) = relmapMagic := by
    rw [e]; exact rd_le 4 _ _ (by decide)
  have r4 : rd 4 (List.drop 4 (encRelMap m ++ tail)) = m.mappings.length := by
    rw [e]
    have := rdAt_append' 4 m.mappings.length 4 (le 4 relmapMagic) (m.mappings.flatMap encMapping ++ (m.unused ++ (le 4 m.crc ++ (m.pad ++ tail)))) (by simp) (by omega)
    simpa [rdAt] using this
  have rcrc : rd 4 (List.drop (8 + mx * 8) (encRelMap m ++ tail)) = m.crc := by
    rw [e]
    have := rdAt_append' 4 m.crc (8 + mx * 8) (le 4 relmapMagic ++ (le 4 m.mappings.length ++ (m.mappings.flatMap encMapping ++ m.unused)))
      (m.pad ++ tail) (by simp [-List.length_flatMap, flatMap_encMapping_length, h2]; omega) h3
    simpa [rdAt, List.append_assoc] using this
  have hloop : Model.relMapLoop (encRelMap m ++ tail) m.mappings.length 8 = .ok (m.mappings.map toMapping) := by
    rw [e]
    have := relMapLoop_enc m.mappings (le 4 relmapMagic ++ le 4 m.mappings.length) (m.unused ++ (le 4 m.crc ++ (m.pad ++ tail))) 8
      (by simp) h5
    simpa [List.append_assoc] using this
  rw [r0, r4]
  rw [if_neg (by simp [relmapMagic]), toSigned32_small _ (by omega), relMapIsV16_eq]
  simp only [ok_bind]
  cases hv : isV16Of (encRelMap m ++ tail) (m.mappings.length : Int) with
  | true =>
    have hlen524 := isV16Of_len _ _ hv
    rw [hv] at hsel
    have hmx64 : mx = 64 := by simpa using hsel.symm
    subst hmx64
    simp only [if_true]
    rw [if_neg (by omega)]
    simp only [Int.toNat_natCast, hloop, ok_bind]
    rw [uN_ok _ _ _ (by omega)]
    simp only [ok_bind]
    rw [show (520 : Nat) = 8 + 64 * 8 from rfl, rcrc]
  | false =>
    rw [hv] at hsel
    have hmx62 : mx = 62 := by simpa using hsel.symm
    subst hmx62
    simp only [Bool.false_eq_true, if_false]
    rw [if_neg (by omega)]
    simp only [Int.toNat_natCast, hloop, ok_bind]
    rw [show (504 : Nat) = 8 + 62 * 8 from rfl, rcrc]

/-- the image of a 12–15 map followed by `tail`: where its two crc candidates are -/
theorem enc12_crcOk12 (m : RelMap) (h : m.WF) (tail : Bytes) :
    relmapCrcOk .v12 (encRelMap m ++ tail) = (m.crc == crc32c (relmapBody .v12 (encRelMap m))) := by
  obtain ⟨h1, h2, h3, h4, _⟩ := h
  have hlen := encRelMapRaw_length_core relmapMax 4 relmapMagic m.mappings.length m h1 h2 h4
  have hl : (encRelMap m).length = 512 := by simpa [encRelMap, relmapMax] using hlen
  rw [crcOk12_eq _ (by simp [hl])]
  have ho : RelMapLayout.v12.crcOffset = 504 := by decide
  unfold relmapBody
  rw [ho, List.take_append_of_le_length (by omega)]
  have rcrc : rd 4 (List.drop 504 (encRelMap m ++ tail)) = m.crc := by
    have e : encRelMap m ++ tail = (le 4 relmapMagic ++ (le 4 m.mappings.length ++ (m.mappings.flatMap encMapping ++ m.unused))) ++
        (le 4 m.crc ++ (m.pad ++ tail)) := by
      simp [encRelMap, encRelMapRaw, List.append_assoc]
    rw [e]
    have := rdAt_append' 4 m.crc 504 (le 4 relmapMagic ++ (le 4 m.mappings.length ++ (m.mappings.flatMap encMapping ++ m.unused)))
      (m.pad ++ tail) (by simp [-List.length_flatMap, flatMap_encMapping_length, h2, relmapMax]; unfold relmapMax at h1; omega) h3
    simpa [rdAt] using this
  rw [rcrc]

/-- the image of a 16 map followed by `tail` -/
theorem enc16_crcOk16 (m : RelMap) (h : m.WF16) (tail : Bytes) :
    relmapCrcOk .v16 (encRelMap m ++ tail) = (m.crc == crc32c (relmapBody .v16 (encRelMap m))) := by
  obtain ⟨h1, h2, h3, h4, _⟩ := h
  have hlen := encRelMapRaw_length_core relmapMax16 0 relmapMagic m.mappings.length m h1 h2 h4
  have hl : (encRelMap m).length = 524 := by simpa [encRelMap, relmapMax16] using hlen
  rw [crcOk16_eq _ (by simp [hl])]
  have ho : RelMapLayout.v16.crcOffset = 520 := by decide
  unfold relmapBody
  rw [ho, List.take_append_of_le_length (by omega)]
  have rcrc : rd 4 (List.drop 520 (encRelMap m ++ tail)) = m.crc := by
    have e : encRelMap m ++ tail = (le 4 relmapMagic ++ (le 4 m.mappings.length ++ (m.mappings.flatMap encMapping ++ m.unused))) ++
        (le 4 m.crc ++ (m.pad ++ tail)) := by
      simp [encRelMap, encRelMapRaw, List.append_assoc]
    rw [e]
    have := rdAt_append' 4 m.crc 520 (le 4 relmapMagic ++ (le 4 m.mappings.length ++ (m.mappings.flatMap encMapping ++ m.unused)))
      (m.pad ++ tail) (by simp [-List.length_flatMap, flatMap_encMapping_length, h2, relmapMax16]; unfold relmapMax16 at h1; omega) h3
    simpa [rdAt] using this
  rw [rcrc]

theorem enc12_length (m : RelMap) (h : m.WF) (tail : Bytes) : (encRelMap m ++ tail).length = 512 + tail.length := by
  simp [encRelMap, encRelMapRaw_length relmapMagic m.mappings.length m h]

theorem enc16_length (m : RelMap) (h : m.WF16) (tail : Bytes) : (encRelMap m ++ tail).length = 524 + tail.length := by
  simp [encRelMap, encRelMapRaw_length16 relmapMagic m.mappings.length m h]

/-- ParseRelMapFile on an encoded PostgreSQL 12–15 map followed by `tail`, whenever relMapIsV16 answers "12–15" -/
theorem parseRelMapFile_enc (m : RelMap) (h : m.WF) (tail : Bytes)
    (hv : isV16Of (encRelMap m ++ tail) (m.mappings.length : Int) = false) :
    Model.parseRelMapFile (encRelMap m ++ tail) =
      .ok (some { magic := relmapMagic, numMappings := m.mappings.length, mappings := m.mappings.map toMapping, crc := m.crc }) := by
  obtain ⟨h1, h2, h3, h4, h5⟩ := h
  exact parseRelMapFile_enc_core relmapMax 4 m h1 h2 h3 h4 h5 tail (by decide) (by decide) (by rw [hv]; rfl)

/-- ParseRelMapFile on an encoded PostgreSQL 16 map followed by `tail`, whenever relMapIsV16 answers "16" -/
theorem parseRelMapFile_enc16 (m : RelMap) (h : m.WF16) (tail : Bytes)
    (hv : isV16Of (encRelMap m ++ tail) (m.mappings.length : Int) = true) :
    Model.parseRelMapFile (encRelMap m ++ tail) =
      .ok (some { magic := relmapMagic, numMappings := m.mappings.length, mappings := m.mappings.map toMapping, crc := m.crc }) := by
  obtain ⟨h1, h2, h3, h4, h5⟩ := h
  exact parseRelMapFile_enc_core relmapMax16 0 m h1 h2 h3 h4 h5 tail (by decide) (by decide) (by rw [hv]; rfl)

/-- a 12–15 image is read as such when it does not verify as a 16 image and (it is intact, or it is not exactly 524 bytes long) -/
theorem isV16Of_enc12 (m : RelMap) (h : m.WF) (tail : Bytes)
    (h16 : relmapCrcOk .v16 (encRelMap m ++ tail) = false) (hor : m.Intact .v12 ∨ tail.length ≠ 12) :
    isV16Of (encRelMap m ++ tail) (m.mappings.length : Int) = false := by
  have hn : ¬ ((m.mappings.length : Int) > 62) := by have := h.1; unfold relmapMax at this; omega
  unfold isV16Of
  rw [decide_eq_false hn, h16, Bool.false_or, Bool.false_or, enc12_crcOk12 m h tail, enc12_length m h tail]
  rcases hor with hi | ht
  · unfold RelMap.Intact at hi
    rw [← hi]; simp
  · have : (512 + tail.length == 524) = false := by simp; omega
    rw [this]; simp

/-- … in particular with fewer than 12 trailing bytes -/
theorem isV16Of_enc12_short (m : RelMap) (h : m.WF) (tail : Bytes) (ht : tail.length < 12) :
    isV16Of (encRelMap m ++ tail) (m.mappings.length : Int) = false := by
  unfold isV16Of
  rw [enc12_length m h tail, decide_eq_false (by omega), Bool.false_and]

/-- a 16 image is read as such when it is intact, or holds more than 62 mappings, or (has no tail and does not verify
as a 12–15 image) -/
theorem isV16Of_enc16 (m : RelMap) (h : m.WF16) (tail : Bytes)
    (hor : m.Intact .v16 ∨ m.mappings.length > 62 ∨ (tail = [] ∧ relmapCrcOk .v12 (encRelMap m ++ tail) = false)) :
    isV16Of (encRelMap m ++ tail) (m.mappings.length : Int) = true := by
  unfold isV16Of
  rw [enc16_length m h tail, decide_eq_true (by omega), Bool.true_and, enc16_crcOk16 m h tail]
  rcases hor with hi | hn | ⟨ht, h12⟩
  · unfold RelMap.Intact at hi
    rw [← hi]; simp
  · have : decide ((m.mappings.length : Int) > 62) = true := decide_eq_true (by omega)
    rw [this]; simp
  · rw [h12, ht]; simp

/-! ### the two layouts overlap -/

theorem le_rd (n : Nat) (bs : Bytes) (h : n ≤ bs.length) : le n (rd n bs) = bs.take n := by
  induction n generalizing bs with
  | zero => rfl
  | succ n ih =>
    cases bs with
    | nil => simp at h
    | cons b t =>
      have hb := b.toNat_lt
      simp only [rd, le, List.take_succ_cons]
      have h1 : (b.toNat + 256 * rd n t) % 256 = b.toNat := by omega
      have h2 : (b.toNat + 256 * rd n t) / 256 = rd n t := by omega
      rw [h1, h2, ih t (by simpa using h)]
      congr 1
      exact UInt8.ofNat_toNat

/-- the PostgreSQL 16 map that the image of the 12–15 map `m` followed by `tail` (≥ 12 bytes) is, member by member: the
same mappings; unused slots = the old unused slots, then the old crc and padding (slot 62) and the next 8 bytes (slot 63);
crc = the four bytes at 520 -/
def as16 (m : RelMap) (tail : Bytes) : RelMap :=
  { mappings := m.mappings, unused := m.unused ++ (le 4 m.crc ++ (m.pad ++ tail.take 8)), crc := rd 4 (tail.drop 8), pad := [] }

theorem as16_wf (m : RelMap) (h : m.WF) (tail : Bytes) (ht : 12 ≤ tail.length) : (as16 m tail).WF16 := by
  obtain ⟨h1, h2, _, h4, h5⟩ := h
  unfold relmapMax at h1 h2
  refine ⟨?_, ?_, ?_, rfl, h5⟩
  · show m.mappings.length ≤ relmapMax16
    unfold relmapMax16; omega
  · show (m.unused ++ (le 4 m.crc ++ (m.pad ++ tail.take 8))).length = 8 * (relmapMax16 - m.mappings.length)
    unfold relmapMax16
    simp only [List.length_append, le_length, List.length_take, h2, h4]
    omega
  · exact rd_lt 4 _

theorem as16_enc (m : RelMap) (tail : Bytes) (ht : 12 ≤ tail.length) :
    encRelMap m ++ tail = encRelMap (as16 m tail) ++ tail.drop 12 := by
  have hsplit : tail = tail.take 8 ++ (le 4 (rd 4 (tail.drop 8)) ++ tail.drop 12) := by
    rw [le_rd 4 (tail.drop 8) (by simp; omega)]
    have : tail.drop 12 = (tail.drop 8).drop 4 := by simp
    rw [this, List.take_append_drop, List.take_append_drop]
  conv => lhs; rw [hsplit]
  simp [encRelMap, encRelMapRaw, as16, List.append_assoc]

theorem crc32c_lt (bs : Bytes) : crc32c bs < 256 ^ 4 := by
  unfold crc32c
  have := (crcFeed 0xFFFFFFFF#32 bs ^^^ 0xFFFFFFFF#32).isLt
  have e : (256 : Nat) ^ 4 = 2 ^ 32 := by decide
  omega

/-- an intact 12–15 map followed by any 8 bytes and the CRC-32C of everything so far verifies under BOTH layouts -/
theorem collision_both (m : RelMap) (h : m.WF) (hi : m.Intact .v12) (t8 : Bytes) (h8 : t8.length = 8) :
    relmapCrcOk .v12 (encRelMap m ++ (t8 ++ le 4 (crc32c (encRelMap m ++ t8)))) = true ∧
    relmapCrcOk .v16 (encRelMap m ++ (t8 ++ le 4 (crc32c (encRelMap m ++ t8)))) = true := by
  constructor
  · rw [enc12_crcOk12 m h]
    unfold RelMap.Intact at hi
    rw [← hi]; simp
  · have hl := enc12_length m h []
    simp only [List.append_nil, List.length_nil, Nat.add_zero] at hl
    rw [crcOk16_eq _ (by simp [hl, h8])]
    have e : encRelMap m ++ (t8 ++ le 4 (crc32c (encRelMap m ++ t8))) = (encRelMap m ++ t8) ++ (le 4 (crc32c (encRelMap m ++ t8)) ++ []) := by
      simp [List.append_assoc]
    rw [e, List.take_left' (by simp [hl, h8]), List.drop_left' (by simp [hl, h8])]
    rw [rd_le 4 _ [] (crc32c_lt _)]
    simp

/-! ### acceptance -/

/-- the count test of ParseRelMapFile is the Spec's `relmapCountOk` -/
theorem count_guard_iff (len : Nat) (n : Int) (v : Bool) (hl : 512 ≤ len) (hv1 : v = true → 524 ≤ len)
    (hv2 : v = false → 524 ≤ len → n ≤ 62) :
    ¬ (n < 0 ∨ n > ((if v = true then 64 else 62 : Nat) : Int)) ↔ relmapCountOk len n := by
  have s12 : RelMapLayout.v12.size = 512 := by decide
  have s16 : RelMapLayout.v16.size = 524 := by decide
  have m12 : RelMapLayout.v12.maxMappings = 62 := rfl
  have m16 : RelMapLayout.v16.maxMappings = 64 := rfl
  unfold relmapCountOk relmapCountFits
  rw [s12, s16, m12, m16]
  cases v with
  | true =>
    have := hv1 rfl
    simp only [if_true]
    omega
  | false =>
    simp only [Bool.false_eq_true, if_false]
    by_cases h524 : 524 ≤ len
    · have := hv2 rfl h524
      omega
    · omega

/-- **Acceptance, for every byte string**: ParseRelMapFile returns a map iff the image has at least 512 bytes, the magic,
and a possible count (`Spec.relmapCountOk`: 0..62, or 0..64 when the 524-byte struct fits) -/
theorem parseRelMapFile_accept_iff (bs : Bytes) :
    (∃ rm, Model.parseRelMapFile bs = .ok (some rm)) ↔
      512 ≤ bs.length ∧ rdAt 4 0 bs = 0x592717 ∧ relmapCountOk bs.length (toSigned 32 (rdAt 4 4 bs)) := by
  unfold Model.parseRelMapFile rdAt
  by_cases hl : bs.length < 512
  · rw [if_pos hl]
    constructor
    · rintro ⟨rm, h⟩; cases h
    · rintro ⟨h, _⟩; omega
  · rw [if_neg hl]
    simp (disch := omega) only [uN_ok, ok_bind, pure_eq_ok]
    by_cases hm : rd 4 (List.drop 0 bs) ≠ 0x592717
    · rw [if_pos hm]
      constructor
      · rintro ⟨rm, h⟩; cases h
      · rintro ⟨_, h, _⟩; exact absurd h hm
    · rw [if_neg hm, relMapIsV16_eq]
      simp only [ok_bind]
      have hg := count_guard_iff bs.length (toSigned 32 (rd 4 (List.drop 4 bs))) (isV16Of bs (toSigned 32 (rd 4 (List.drop 4 bs))))
        (by omega) (isV16Of_len _ _) (isV16Of_count _ _)
      by_cases hc : toSigned 32 (rd 4 (List.drop 4 bs)) < 0 ∨
          toSigned 32 (rd 4 (List.drop 4 bs)) > ((if isV16Of bs (toSigned 32 (rd 4 (List.drop 4 bs))) = true then 64 else 62 : Nat) : Int)
      · rw [if_pos hc]
        constructor
        · rintro ⟨rm, h⟩; cases h
        · rintro ⟨_, _, h⟩; exact absurd hc (hg.mpr h)
      · rw [if_neg hc]
        obtain ⟨r, hr⟩ := relMapLoop_total bs (toSigned 32 (rd 4 (List.drop 4 bs))).toNat 8
        rw [hr]
        simp only [ok_bind]
        constructor
        · intro _; exact ⟨by omega, by simpa using hm, hg.mp hc⟩
        · intro _
          cases hv : isV16Of bs (toSigned 32 (rd 4 (List.drop 4 bs))) with
          | true =>
            have := isV16Of_len _ _ hv
            simp (disch := omega) only [if_true, uN_ok, ok_bind]
            exact ⟨_, rfl⟩
          | false =>
            simp only [Bool.false_eq_true, if_false, ok_bind]
            exact ⟨_, rfl⟩

/-- the part of ParseRelMapFile after the layout is known: what an accepted result carries -/
theorem parse_tail_fields (bs : Bytes) (n : Int) (mg mx : Nat) (crcM : M Nat) (rm : Model.RelMapFile)
    (h : (if n < 0 ∨ n > (mx : Int) then (Except.ok none : M (Option Model.RelMapFile))
          else (Model.relMapLoop bs n.toNat 8 >>= fun mappings => crcM >>= fun crc =>
            (Except.ok (some { magic := mg, numMappings := n, mappings := mappings, crc := crc }) : M (Option Model.RelMapFile)))) =
        Except.ok (some rm)) :
    rm.magic = mg ∧ rm.numMappings = n ∧ rm.mappings.length ≤ n.toNat := by
  split at h
  · cases h
  · cases hloop : Model.relMapLoop bs n.toNat 8 with
    | error e => simp [hloop] at h
    | ok ms =>
      have hms := relMapLoop_length bs _ 8 ms hloop
      simp only [hloop, ok_bind] at h
      cases hcrc : crcM with
      | error e => simp [hcrc] at h
      | ok c =>
        simp only [hcrc, ok_bind] at h
        injection h with h; injection h with h; subst h
        exact ⟨rfl, rfl, hms⟩

/-- what an accepted map carries: the magic and the stored count -/
theorem parseRelMapFile_accept (bs : Bytes) (rm : Model.RelMapFile) (h : Model.parseRelMapFile bs = .ok (some rm)) :
    bs.length ≥ 512 ∧ rm.magic = 0x592717 ∧ rdAt 4 0 bs = 0x592717 ∧ relmapCountOk bs.length rm.numMappings ∧
    rm.numMappings = toSigned 32 (rdAt 4 4 bs) ∧ rm.mappings.length ≤ rm.numMappings.toNat := by
  have hacc := (parseRelMapFile_accept_iff bs).mp ⟨rm, h⟩
  obtain ⟨a1, a2, a3⟩ := hacc
  unfold Model.parseRelMapFile at h
  rw [if_neg (by omega)] at h
  simp (disch := omega) only [uN_ok, ok_bind, pure_eq_ok] at h
  unfold rdAt at a2 a3 ⊢
  rw [if_neg (by simpa using a2), relMapIsV16_eq] at h
  simp only [ok_bind] at h
  have hfin := fun (mx : Nat) (crcM : M Nat) => parse_tail_fields bs (toSigned 32 (rd 4 (List.drop 4 bs))) (rd 4 (List.drop 0 bs)) mx crcM rm
  cases hv : isV16Of bs (toSigned 32 (rd 4 (List.drop 4 bs))) with
  | true =>
    rw [hv] at h
    simp only [if_true] at h
    obtain ⟨e1, e2, e3⟩ := hfin 64 _ h
    exact ⟨by omega, by rw [e1]; exact a2, a2, by rw [e2]; exact a3, e2, by rw [e2]; exact e3⟩
  | false =>
    rw [hv] at h
    simp only [Bool.false_eq_true, if_false] at h
    obtain ⟨e1, e2, e3⟩ := hfin 62 _ h
    exact ⟨by omega, by rw [e1]; exact a2, a2, by rw [e2]; exact a3, e2, by rw [e2]; exact e3⟩

theorem relMapGetFilenode_eq (ms : List (Nat × Nat)) (oid : Nat) :
    Model.relMapGetFilenode (ms.map toMapping) oid = filenodeOf ms oid := by
  induction ms with
  | nil => rfl
  | cons e t ih =>
    simp only [List.map_cons, Model.relMapGetFilenode, filenodeOf, List.find?_cons, toMapping]
    by_cases h : e.1 = oid
    · simp [h]
    · have : (e.1 == oid) = false := by simpa using h
      rw [if_neg h, this]; exact ih

theorem relMapGetOID_eq (ms : List (Nat × Nat)) (fn : Nat) :
    Model.relMapGetOID (ms.map toMapping) fn = oidOf ms fn := by
  induction ms with
  | nil => rfl
  | cons e t ih =>
    simp only [List.map_cons, Model.relMapGetOID, oidOf, List.find?_cons, toMapping]
    by_cases h : e.2 = fn
    · simp [h]
    · have : (e.2 == fn) = false := by simpa using h
      rw [if_neg h, this]; exact ih

end PgVerif.Proofs
