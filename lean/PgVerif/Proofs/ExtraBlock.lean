/-
  Topic E9 — FormatBinaryDump (= hex.Dump): the text is one line per started 16-byte chunk, line `i` rendering bytes
  16·i … 16·i+15 at offset 16·i.  Property theorem in Props/C10/Extra.lean.
-/
import PgVerif.Model.ExtraBlock
namespace PgVerif.Proofs.Extra
open PgVerif PgVerif.Model PgVerif.Model.Extra PgVerif.Model.CliRender

theorem flatMap_range_succ {β} (g : Nat → List β) (n : Nat) :
    (List.range (n + 1)).flatMap g = g 0 ++ (List.range n).flatMap fun i => g (i + 1) := by
  rw [List.range_succ_eq_map, List.flatMap_cons, List.flatMap_map]

theorem flatMap_congr' {α β} (f g : α → List β) : ∀ l : List α, (∀ x ∈ l, f x = g x) → l.flatMap f = l.flatMap g
  | [], _ => rfl
  | x :: xs, h => by
    rw [List.flatMap_cons, List.flatMap_cons, h x (List.mem_cons_self ..),
      flatMap_congr' f g xs (fun y hy => h y (List.mem_cons_of_mem _ hy))]

/-- the lines of a dump, without fuel: line `i` shows `bs[16i : 16i+16]` at offset `off + 16i` -/
def dumpLines (off : Nat) (bs : Bytes) : Bytes :=
  (List.range ((bs.length + 15) / 16)).flatMap fun i => hexDumpLine (off + 16 * i) ((bs.drop (16 * i)).take 16)

theorem dumpLines_nil (off : Nat) : dumpLines off [] = [] := by simp [dumpLines]

theorem dumpLines_step (off : Nat) (bs : Bytes) (hb : bs ≠ []) :
    dumpLines off bs = hexDumpLine off (bs.take 16) ++ dumpLines (off + 16) (bs.drop 16) := by
  have hpos : 0 < bs.length := List.length_pos_iff.2 hb
  have hd : (bs.drop 16).length = bs.length - 16 := List.length_drop
  have hlen : (bs.length + 15) / 16 = ((bs.drop 16).length + 15) / 16 + 1 := by rw [hd]; omega
  unfold dumpLines
  rw [hlen, flatMap_range_succ]
  simp only [Nat.mul_zero, Nat.add_zero, List.drop_zero]
  apply congrArg (hexDumpLine off (List.take 16 bs) ++ ·)
  apply flatMap_congr'
  intro i _
  have h1 : off + 16 + 16 * i = off + 16 * (i + 1) := by omega
  have h2 : 16 + 16 * i = 16 * (i + 1) := by omega
  rw [List.drop_drop, h1, h2]

theorem hexDumpLoop_lines : ∀ (f off : Nat) (bs : Bytes), (bs.length + 15) / 16 ≤ f → hexDumpLoop f off bs = dumpLines off bs
  | 0, off, bs, h => by
    have : bs = [] := by
      cases bs with
      | nil => rfl
      | cons b t => simp only [List.length_cons] at h; omega
    subst this; rw [dumpLines_nil]; rfl
  | f + 1, off, bs, h => by
    unfold hexDumpLoop
    by_cases hb : bs = []
    · subst hb; rw [dumpLines_nil]; rfl
    · have hpos : 0 < bs.length := List.length_pos_iff.2 hb
      have hne : bs.isEmpty = false := by
        cases bs with
        | nil => exact absurd rfl hb
        | cons _ _ => rfl
      have hd : (bs.drop 16).length = bs.length - 16 := List.length_drop
      have hf : ((bs.drop 16).length + 15) / 16 ≤ f := by rw [hd]; omega
      rw [hne, hexDumpLoop_lines f (off + 16) (bs.drop 16) hf, dumpLines_step off bs hb]
      rfl

theorem formatBinaryDump_lines (data : Bytes) :
    formatBinaryDump data =
      (List.range ((data.length + 15) / 16)).flatMap fun i => hexDumpLine (16 * i) ((data.drop (16 * i)).take 16) := by
  unfold formatBinaryDump hexDump
  rw [hexDumpLoop_lines _ 0 data (by omega)]
  unfold dumpLines
  simp only [Nat.zero_add]

end PgVerif.Proofs.Extra
