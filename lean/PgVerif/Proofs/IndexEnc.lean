/-
  Round-trip lemmas for index pages: the index model applied to the Spec encoders (used by Props/C18).
-/
import PgVerif.Model.Index
import PgVerif.Spec.Index
namespace PgVerif.Proofs.Index
open PgVerif PgVerif.Model.Index PgVerif.Spec.Index

/-! ### fixed-offset records (DESIGN.md B.12) -/

abbrev Field := Nat × Nat            -- (width in bytes, value)
def encFields (fs : List Field) : Bytes := fs.flatMap fun f => le f.1 f.2
def offsetOf (fs : List Field) (i : Nat) : Nat := ((fs.take i).map (·.1)).sum

theorem encFields_take_length (fs : List Field) (i : Nat) : (encFields (fs.take i)).length = offsetOf fs i := by
  unfold encFields offsetOf
  induction fs.take i with
  | nil => rfl
  | cons f t ih => simp [ih]

theorem encFields_length (fs : List Field) : (encFields fs).length = (fs.map (·.1)).sum := by
  unfold encFields
  induction fs with
  | nil => rfl
  | cons f t ih => simp [ih]

theorem encFields_split (fs : List Field) (i : Nat) (hi : i < fs.length) :
    encFields fs = encFields (fs.take i) ++ (le fs[i].1 fs[i].2 ++ encFields (fs.drop (i+1))) := by
  have hsplit : fs = fs.take i ++ fs[i] :: fs.drop (i+1) := by
    rw [List.getElem_cons_drop hi, List.take_append_drop]
  have key : ∀ (a : List Field) (x : Field) (b : List Field),
      encFields (a ++ x :: b) = encFields a ++ (le x.1 x.2 ++ encFields b) := by
    intro a x b; simp [encFields]
  conv => lhs; rw [hsplit]
  exact key _ _ _

theorem read_field (fs : List Field) (rest : Bytes) (i : Nat) (hi : i < fs.length)
    (hv : fs[i].2 < 256 ^ fs[i].1) :
    rd fs[i].1 ((encFields fs ++ rest).drop (offsetOf fs i)) = fs[i].2 := by
  rw [encFields_split fs i hi, List.append_assoc, ← encFields_take_length fs i, List.drop_left, List.append_assoc]
  exact rd_le _ _ _ hv

/-- Go's `binary.LittleEndian.UintN(data[off:])` on a record followed by anything returns field `i` when `off` is its offset -/
theorem uN_field (fs : List Field) (rest : Bytes) (i : Nat) (hi : i < fs.length) (hv : fs[i].2 < 256 ^ fs[i].1) :
    uN fs[i].1 (encFields fs ++ rest) (offsetOf fs i) = .ok fs[i].2 := by
  have hlen : offsetOf fs i + fs[i].1 ≤ (encFields fs ++ rest).length := by
    rw [encFields_split fs i hi, ← encFields_take_length fs i]
    simp only [List.length_append, le_length]; omega
  rw [uN_ok _ _ _ hlen, read_field fs rest i hi hv]

/-! ### the page header -/

def hdrFields (p : Page) : List Field :=
  [(4, p.xlogid), (4, p.xrecoff), (2, p.checksum), (2, p.pdflags), (2, p.lower), (2, p.upper), (2, p.special), (2, p.psv), (4, p.prune)]

theorem encPage_split (p : Page) : encPage p = encFields (hdrFields p) ++ (p.body ++ encOpaque p.op) := by
  simp [encPage, encFields, hdrFields, List.append_assoc]

def opFields : Opaque → List Field
  | .btree p n l f c => [(4, p), (4, n), (4, l), (2, f), (2, c)]
  | .hash p n b f => [(4, p), (4, n), (4, b), (2, f), (2, hashPageId)]
  | .gist nsn r f => [(8, nsn), (4, r), (2, f), (2, gistPageId)]
  | .gin r m f => [(4, r), (2, m), (2, f)]
  | .spgist f a b => [(2, f), (2, a), (2, b), (2, spgistPageId)]
  | .brin a b f t => [(2, a), (2, b), (2, f), (2, t)]

theorem encOpaque_fields (o : Opaque) : encOpaque o = encFields (opFields o) := by
  cases o <;> simp [encOpaque, encFields, opFields]

theorem encOpaque_length (o : Opaque) : (encOpaque o).length = o.size := by
  cases o <;> simp [encOpaque, Opaque.size, Opaque.am, AM.opaqueSize]

theorem size_cases (o : Opaque) : o.size = 16 ∨ o.size = 8 := by
  cases o <;> simp [Opaque.size, Opaque.am, AM.opaqueSize]

theorem special_cases (p : Page) : p.special = 8176 ∨ p.special = 8184 := by
  unfold Page.special; rcases size_cases p.op with h | h <;> rw [h] <;> simp

theorem encPage_length (p : Page) (h : p.WF) : (encPage p).length = 8192 := by
  obtain ⟨_, _, _, _, _, _, _, _, _, hb, _⟩ := h
  have hs : p.special + p.op.size = 8192 := by
    unfold Page.special; rcases size_cases p.op with h | h <;> rw [h]
  rw [encPage_split]
  simp only [List.length_append, encFields_length, hdrFields, encOpaque_length, hb, List.map, List.sum_cons, List.sum_nil]
  rcases special_cases p with h | h <;> omega

/-- the special space of the encoded page is the encoded opaque struct -/
theorem encPage_drop_special (p : Page) (h : p.WF) : (encPage p).drop p.special = encOpaque p.op := by
  obtain ⟨_, _, _, _, _, _, _, _, _, hb, _⟩ := h
  rw [encPage_split, ← List.append_assoc]
  apply List.drop_left'
  simp only [List.length_append, encFields_length, hdrFields, hb, List.map, List.sum_cons, List.sum_nil]
  rcases special_cases p with h | h <;> omega

theorem special_lt (p : Page) : p.special < 2 ^ 16 := by
  rcases special_cases p with h | h <;> rw [h] <;> decide

theorem hdr_read (p : Page) (i : Nat) (hi : i < (hdrFields p).length) (hv : (hdrFields p)[i].2 < 256 ^ (hdrFields p)[i].1) :
    rd (hdrFields p)[i].1 ((encPage p).drop (offsetOf (hdrFields p) i)) = (hdrFields p)[i].2 := by
  rw [encPage_split]; exact read_field _ _ i hi hv

theorem rd_xlogid (p : Page) (h : p.WF) : rd 4 ((encPage p).drop 0) = p.xlogid := by
  have := hdr_read p 0 (by simp [hdrFields]) (by simpa [hdrFields] using h.1)
  simpa [hdrFields, offsetOf] using this

theorem rd_xrecoff (p : Page) (h : p.WF) : rd 4 ((encPage p).drop 4) = p.xrecoff := by
  have := hdr_read p 1 (by simp [hdrFields]) (by simpa [hdrFields] using h.2.1)
  simpa [hdrFields, offsetOf] using this

theorem lower_lt (p : Page) (h : p.WF) : p.lower < 2 ^ 16 ∧ p.upper < 2 ^ 16 := by
  obtain ⟨_, _, _, _, _, _, h1, h2, h3, _, _⟩ := h
  rcases special_cases p with hs | hs <;> constructor <;> omega

theorem rd_lower (p : Page) (h : p.WF) : rd 2 ((encPage p).drop 12) = p.lower := by
  have := hdr_read p 4 (by simp [hdrFields]) (by simpa [hdrFields] using (lower_lt p h).1)
  simpa [hdrFields, offsetOf] using this

theorem rd_upper (p : Page) (h : p.WF) : rd 2 ((encPage p).drop 14) = p.upper := by
  have := hdr_read p 5 (by simp [hdrFields]) (by simpa [hdrFields] using (lower_lt p h).2)
  simpa [hdrFields, offsetOf] using this

theorem rd_special (p : Page) : rd 2 ((encPage p).drop 16) = p.special := by
  have := hdr_read p 6 (by simp [hdrFields]) (by simpa [hdrFields] using special_lt p)
  simpa [hdrFields, offsetOf] using this

/-! ### bit tests -/

theorem bit0 (m : Nat) : (m &&& 1 != 0) = m.testBit 0 := by have := land_pow_ne_zero m 0; simpa using this
theorem bit1 (m : Nat) : (m &&& 2 != 0) = m.testBit 1 := by have := land_pow_ne_zero m 1; simpa using this
theorem bit2 (m : Nat) : (m &&& 4 != 0) = m.testBit 2 := by have := land_pow_ne_zero m 2; simpa using this
theorem bit3 (m : Nat) : (m &&& 8 != 0) = m.testBit 3 := by have := land_pow_ne_zero m 3; simpa using this
theorem bit4 (m : Nat) : (m &&& 16 != 0) = m.testBit 4 := by have := land_pow_ne_zero m 4; simpa using this
theorem or_ne_zero (x y : Nat) : (x ||| y != 0) = (x != 0 || y != 0) := by
  by_cases a : x = 0
  · subst a; rw [Nat.zero_or]; simp
  · have h : x ||| y ≠ 0 := fun h => a (Nat.or_eq_zero_iff.mp h).1
    have h1 : (x ||| y != 0) = true := by simpa using h
    have h2 : (x != 0) = true := by simpa using a
    rw [h1, h2]; rfl

theorem bit0or7 (m : Nat) : (m &&& 129 != 0) = (m.testBit 0 || m.testBit 7) := by
  have h0 := bit0 m
  have h7 := land_pow_ne_zero m 7
  simp only [show (2 : Nat) ^ 7 = 128 by decide] at h7
  rw [← h0, ← h7, show (129 : Nat) = 1 ||| 128 by decide, Nat.and_or_distrib_left]
  exact or_ne_zero _ _
theorem bit3z (m : Nat) : (m &&& 8 == 0) = !m.testBit 3 := by
  rw [← bit3]; cases h : (m &&& 8 == 0) <;> simp_all [bne]

/-! ### the tool's numbering of the access methods -/

/-- the Go enum value of an access method (IndexTypeBTree = 1 … IndexTypeBRIN = 6) -/
def code : AM → Nat
  | .btree => 1 | .hash => 2 | .gist => 3 | .gin => 4 | .spgist => 5 | .brin => 6

/-- the tie between the numbering and the methods: IndexType.String of the code is PostgreSQL's name of the method -/
theorem typeString_code (am : AM) : typeString (code am) = am.name := by cases am <;> decide

/-! ### special-space parsers on encoded opaque structs -/

theorem uN_op (fs : List Field) (i : Nat) (hi : i < fs.length) (hv : fs[i].2 < 256 ^ fs[i].1) :
    uN fs[i].1 (encFields fs) (offsetOf fs i) = .ok fs[i].2 := by
  have := uN_field fs [] i hi hv; simpa using this

/-- what parseIndexPage must return for a spec page, as a model record -/
def expectPage (num : Nat) (p : Page) : PageInfo :=
  let t := code p.op.am
  let lsn := p.xlogid <<< 32 ||| p.xrecoff
  let base : PageInfo :=
    { pageNumber := num, indexType := t, typeString := typeString t, lsn := lsn, lsnStr := formatLSN lsn,
      freeSpace := (p.upper : Int) - (p.lower : Int), itemCount := Int.tdiv ((p.lower : Int) - 24) 4 }
  metaHasNoItems (match p.op with
  | .btree pr nx lv f _ =>
    { base with prevBlock := pr, nextBlock := nx, level := lv, flags := f, isLeaf := f.testBit 0, isRoot := f.testBit 1,
                isMeta := f.testBit 3, isDeleted := f.testBit 2, flagStrings := flagStrings 1 f }
  | .hash pr nx b f =>
    { base with prevBlock := pr, nextBlock := nx, flags := f, isMeta := f.testBit 3, level := if f.testBit 1 then b else 0,
                itemCount := if f.testBit 2 then 0 else base.itemCount, flagStrings := flagStrings 2 f }
  | .gist _ r f => { base with rightLink := r, flags := f, isLeaf := f.testBit 0, isDeleted := f.testBit 1, flagStrings := flagStrings 3 f }
  | .gin r m f =>
    { base with rightLink := r, flags := f, itemCount := if f.testBit 0 || f.testBit 7 then (m : Int) else base.itemCount,
                isLeaf := f.testBit 1, isMeta := f.testBit 3, isDeleted := f.testBit 2, flagStrings := flagStrings 4 f }
  | .spgist f _ _ =>
    { base with flags := f, isLeaf := f.testBit 2, isMeta := f.testBit 0, isDeleted := f.testBit 1, flagStrings := flagStrings 5 f }
  | .brin _ _ f t => { base with flags := f, isMeta := t == 0xF091, itemCount := if t == 0xF092 then 0 else base.itemCount,
                                 flagStrings := flagStrings 6 f })

@[simp] theorem metaHasNoItems_flagStrings (i : PageInfo) : (metaHasNoItems i).flagStrings = i.flagStrings := by
  unfold metaHasNoItems; split <;> rfl
@[simp] theorem metaHasNoItems_indexType (i : PageInfo) : (metaHasNoItems i).indexType = i.indexType := by
  unfold metaHasNoItems; split <;> rfl
@[simp] theorem metaHasNoItems_typeString (i : PageInfo) : (metaHasNoItems i).typeString = i.typeString := by
  unfold metaHasNoItems; split <;> rfl

theorem special_btree (info : PageInfo) (pr nx lv f c : Nat) (h : (Opaque.btree pr nx lv f c).WF) :
    parseBTreePageSpecial info (encOpaque (.btree pr nx lv f c)) =
      .ok { info with prevBlock := pr, nextBlock := nx, level := lv, flags := f, isLeaf := f.testBit 0, isRoot := f.testBit 1,
                      isMeta := f.testBit 3, isDeleted := f.testBit 2, flagStrings := info.flagStrings ++ flagStrings 1 f } := by
  obtain ⟨h1, h2, h3, h4, h5⟩ := h
  have hl := encOpaque_length (.btree pr nx lv f c)
  simp only [Opaque.size, Opaque.am, AM.opaqueSize] at hl
  rw [encOpaque_fields] at hl ⊢
  have r0 := uN_op (opFields (.btree pr nx lv f c)) 0 (by simp [opFields]) (by simpa [opFields] using h1)
  have r1 := uN_op (opFields (.btree pr nx lv f c)) 1 (by simp [opFields]) (by simpa [opFields] using h2)
  have r2 := uN_op (opFields (.btree pr nx lv f c)) 2 (by simp [opFields]) (by simpa [opFields] using h3)
  have r3 := uN_op (opFields (.btree pr nx lv f c)) 3 (by simp [opFields]) (by simpa [opFields] using h4)
  simp [opFields, offsetOf] at r0 r1 r2 r3
  unfold parseBTreePageSpecial
  rw [if_neg (by omega)]
  simp only [opFields, r0, r1, r2, r3, ok_bind, pure_eq_ok, bit0, bit1, bit2, bit3]

theorem special_hash (info : PageInfo) (pr nx b f : Nat) (h : (Opaque.hash pr nx b f).WF) :
    parseHashPageSpecial info (encOpaque (.hash pr nx b f)) =
      .ok { info with prevBlock := pr, nextBlock := nx, flags := f, isMeta := f.testBit 3,
                      level := if f.testBit 1 then b else info.level,
                      itemCount := if f.testBit 2 then 0 else info.itemCount,
                      flagStrings := info.flagStrings ++ flagStrings 2 f } := by
  obtain ⟨h1, h2, h3, h4⟩ := h
  have hl := encOpaque_length (.hash pr nx b f)
  simp only [Opaque.size, Opaque.am, AM.opaqueSize] at hl
  rw [encOpaque_fields] at hl ⊢
  have r0 := uN_op (opFields (.hash pr nx b f)) 0 (by simp [opFields]) (by simpa [opFields] using h1)
  have r1 := uN_op (opFields (.hash pr nx b f)) 1 (by simp [opFields]) (by simpa [opFields] using h2)
  have r2 := uN_op (opFields (.hash pr nx b f)) 2 (by simp [opFields]) (by simpa [opFields] using h3)
  have r3 := uN_op (opFields (.hash pr nx b f)) 3 (by simp [opFields]) (by simpa [opFields] using h4)
  simp [opFields, offsetOf] at r0 r1 r2 r3
  unfold parseHashPageSpecial
  rw [if_neg (by omega)]
  simp only [opFields, r0, r1, r2, r3, ok_bind, pure_eq_ok, bit1, bit2, bit3]

theorem special_gist (info : PageInfo) (nsn r f : Nat) (h : (Opaque.gist nsn r f).WF) :
    parseGiSTPageSpecial info (encOpaque (.gist nsn r f)) =
      .ok { info with rightLink := r, flags := f, isLeaf := f.testBit 0, isDeleted := f.testBit 1,
                      flagStrings := info.flagStrings ++ flagStrings 3 f } := by
  obtain ⟨h1, h2, h3⟩ := h
  have hl := encOpaque_length (.gist nsn r f)
  simp only [Opaque.size, Opaque.am, AM.opaqueSize] at hl
  rw [encOpaque_fields] at hl ⊢
  have r1 := uN_op (opFields (.gist nsn r f)) 1 (by simp [opFields]) (by simpa [opFields] using h2)
  have r2 := uN_op (opFields (.gist nsn r f)) 2 (by simp [opFields]) (by simpa [opFields] using h3)
  simp [opFields, offsetOf] at r1 r2
  unfold parseGiSTPageSpecial
  rw [if_neg (by omega)]
  simp only [opFields, r1, r2, ok_bind, pure_eq_ok, bit0, bit1]

theorem special_gin (info : PageInfo) (r m f : Nat) (h : (Opaque.gin r m f).WF) :
    parseGINPageSpecial info (encOpaque (.gin r m f)) =
      .ok { info with rightLink := r, flags := f,
                      itemCount := if f.testBit 0 || f.testBit 7 then (m : Int) else info.itemCount,
                      isLeaf := f.testBit 1, isMeta := f.testBit 3,
                      isDeleted := f.testBit 2, flagStrings := info.flagStrings ++ flagStrings 4 f } := by
  obtain ⟨h1, h2, h3⟩ := h
  have hl := encOpaque_length (.gin r m f)
  simp only [Opaque.size, Opaque.am, AM.opaqueSize] at hl
  rw [encOpaque_fields] at hl ⊢
  have r0 := uN_op (opFields (.gin r m f)) 0 (by simp [opFields]) (by simpa [opFields] using h1)
  have r1 := uN_op (opFields (.gin r m f)) 1 (by simp [opFields]) (by simpa [opFields] using h2)
  have r2 := uN_op (opFields (.gin r m f)) 2 (by simp [opFields]) (by simp [opFields]; omega)
  simp [opFields, offsetOf] at r0 r1 r2
  unfold parseGINPageSpecial
  rw [if_neg (by omega)]
  simp only [opFields, r0, r1, r2, ok_bind, pure_eq_ok, bit1, bit2, bit3, bit0or7]

theorem special_spgist (info : PageInfo) (f a b : Nat) (h : (Opaque.spgist f a b).WF) :
    parseSPGiSTPageSpecial info (encOpaque (.spgist f a b)) =
      .ok { info with flags := f, isLeaf := f.testBit 2, isMeta := f.testBit 0, isDeleted := f.testBit 1,
                      flagStrings := info.flagStrings ++ flagStrings 5 f } := by
  obtain ⟨h1, h2, h3⟩ := h
  have hl := encOpaque_length (.spgist f a b)
  simp only [Opaque.size, Opaque.am, AM.opaqueSize] at hl
  rw [encOpaque_fields] at hl ⊢
  have r0 := uN_op (opFields (.spgist f a b)) 0 (by simp [opFields]) (by simpa [opFields] using h1)
  simp [opFields, offsetOf] at r0
  unfold parseSPGiSTPageSpecial
  rw [if_neg (by omega)]
  simp only [opFields, r0, ok_bind, pure_eq_ok, bit0, bit1, bit2]

theorem special_brin (info : PageInfo) (a b f t : Nat) (h : (Opaque.brin a b f t).WF) :
    parseBRINPageSpecial info (encOpaque (.brin a b f t)) =
      .ok { info with flags := f, isMeta := t == 0xF091, itemCount := if t == 0xF092 then 0 else info.itemCount,
                      flagStrings := info.flagStrings ++ flagStrings 6 f } := by
  obtain ⟨h1, h2, h3, h4⟩ := h
  have ht : t < 2 ^ 16 := by rcases h4 with h | h | h <;> omega
  have hl := encOpaque_length (.brin a b f t)
  simp only [Opaque.size, Opaque.am, AM.opaqueSize] at hl
  rw [encOpaque_fields] at hl ⊢
  have r2 := uN_op (opFields (.brin a b f t)) 2 (by simp [opFields]) (by simpa [opFields] using h3)
  have r3 := uN_op (opFields (.brin a b f t)) 3 (by simp [opFields]) (by simpa [opFields] using ht)
  simp [opFields, offsetOf] at r2 r3
  unfold parseBRINPageSpecial
  rw [if_neg (by omega)]
  simp only [opFields, r2, r3, ok_bind, pure_eq_ok]

/-! ### parseIndexPage on an encoded page -/

theorem parseIndexPage_enc (p : Page) (h : p.WF) (num : Nat) :
    parseIndexPage (encPage p) num (code p.op.am) = .ok (expectPage num p) := by
  have hlen := encPage_length p h
  have hsp : p.special < 8192 := by rcases special_cases p with h | h <;> omega
  have hop : p.op.WF := h.2.2.2.2.2.2.2.2.2.2
  unfold parseIndexPage
  rw [if_neg (by omega)]
  simp (disch := omega) only [uN_ok, ok_bind, rd_xlogid p h, rd_xrecoff p h, rd_lower p h, rd_upper p h, rd_special p]
  rw [if_pos hsp]
  simp (disch := omega) only [sliceFrom_ok, ok_bind, encPage_drop_special p h]
  cases hp : p.op with
  | btree pr nx lv f c =>
    rw [hp] at hop
    simp only [code, Opaque.am, special_btree _ _ _ _ _ _ hop, expectPage, hp, List.nil_append, ok_bind, pure_eq_ok]
  | hash pr nx b f =>
    rw [hp] at hop
    simp only [code, Opaque.am, special_hash _ _ _ _ _ hop, expectPage, hp, List.nil_append, ok_bind, pure_eq_ok]
  | gist nsn r f =>
    rw [hp] at hop
    simp only [code, Opaque.am, special_gist _ _ _ _ hop, expectPage, hp, List.nil_append, ok_bind, pure_eq_ok]
  | gin r m f =>
    rw [hp] at hop
    simp only [code, Opaque.am, special_gin _ _ _ _ hop, expectPage, hp, List.nil_append, ok_bind, pure_eq_ok]
  | spgist f a b =>
    rw [hp] at hop
    simp only [code, Opaque.am, special_spgist _ _ _ _ hop, expectPage, hp, List.nil_append, ok_bind, pure_eq_ok]
  | brin a b f t =>
    rw [hp] at hop
    simp only [code, Opaque.am, special_brin _ _ _ _ _ hop, expectPage, hp, List.nil_append, ok_bind, pure_eq_ok]

/-! ### from the model record to the Spec's view -/

theorem fmtXFuel_eq (fuel n : Nat) (acc : List Char) : fmtXFuel fuel n acc = hexUFuel fuel n acc := by
  induction fuel generalizing n acc with
  | zero => rfl
  | succ k ih => simp only [fmtXFuel, hexUFuel, ih]; rfl

theorem fmtX_eq (n : Nat) : fmtX n = hexU n := by unfold fmtX hexU; rw [fmtXFuel_eq]

theorem formatLSN_eq (lsn : Nat) : formatLSN lsn = lsnText lsn := by
  have hm : lsn &&& 0xFFFFFFFF = lsn % 2 ^ 32 := land_mask lsn 32
  unfold formatLSN lsnText
  rw [fmtX_eq, fmtX_eq, Nat.shiftRight_eq_div_pow, hm]

theorem lsn_eq (hi lo : Nat) (h : lo < 2 ^ 32) : hi <<< 32 ||| lo = hi * 2 ^ 32 + lo := by
  rw [← Nat.shiftLeft_add_eq_or_of_lt h, Nat.shiftLeft_eq]

theorem tdiv_items (l : Nat) (h : 24 ≤ l) : Int.tdiv ((l : Int) - 24) 4 = (((l - 24) / 4 : Nat) : Int) := by
  have e : (l : Int) - 24 = ((l - 24 : Nat) : Int) := by omega
  rw [e]
  have := Int.ofNat_tdiv (l - 24) 4
  simp at this ⊢

/-- the model's page record read as the Spec's page view (Go `int` fields as naturals) -/
def viewOf (am : AM) (i : PageInfo) : PageView :=
  { number := i.pageNumber, am := am, flags := i.flags, isMeta := i.isMeta, isLeaf := i.isLeaf, isRoot := i.isRoot,
    isDeleted := i.isDeleted, level := i.level, prev := i.prevBlock, next := i.nextBlock, right := i.rightLink,
    itemCount := i.itemCount.toNat, freeSpace := i.freeSpace.toNat, lsn := i.lsn, lsnStr := i.lsnStr }

theorem viewOf_expect (p : Page) (h : p.WF) (num : Nat) :
    viewOf p.op.am (expectPage num p) = pageView num p ∧ 0 ≤ (expectPage num p).itemCount ∧ 0 ≤ (expectPage num p).freeSpace := by
  obtain ⟨_, hlo, _, _, _, _, h24, hlu, _, _, _⟩ := h
  have e1 := lsn_eq p.xlogid p.xrecoff hlo
  have e2 := tdiv_items p.lower h24
  have e3 : ((p.upper : Int) - (p.lower : Int)).toNat = p.upper - p.lower := by omega
  have e4 : (0 : Int) ≤ (p.upper : Int) - (p.lower : Int) := by omega
  have e5 : ((((p.lower - 24) / 4 : Nat) : Int)).toNat = (p.lower - 24) / 4 := by omega
  cases hp : p.op with
  | btree pr nx lv f c =>
    by_cases h3 : f.testBit 3 = true <;>
      simp [viewOf, expectPage, pageView, itemCountOf, linePointers, metaHasNoItems, hp, e1, e2, e3, formatLSN_eq,
        Opaque.am, Opaque.flags, h3] <;> omega
  | hash pr nx b f =>
    by_cases h3 : f.testBit 3 = true <;> by_cases h2 : f.testBit 2 = true <;>
      simp [viewOf, expectPage, pageView, itemCountOf, linePointers, metaHasNoItems, hp, e1, e2, e3, formatLSN_eq,
        Opaque.am, Opaque.flags, h3, h2] <;> omega
  | gist nsn r f =>
    simp [viewOf, expectPage, pageView, itemCountOf, linePointers, metaHasNoItems, hp, e1, e2, e3, formatLSN_eq,
      Opaque.am, Opaque.flags]
    omega
  | gin r m f =>
    by_cases h3 : f.testBit 3 = true <;> by_cases h0 : f.testBit 0 = true <;> by_cases h7 : f.testBit 7 = true <;>
      simp [viewOf, expectPage, pageView, itemCountOf, linePointers, metaHasNoItems, hp, e1, e2, e3, formatLSN_eq,
        Opaque.am, Opaque.flags, h3, h0, h7] <;> omega
  | spgist f a b =>
    by_cases h0 : f.testBit 0 = true <;>
      simp [viewOf, expectPage, pageView, itemCountOf, linePointers, metaHasNoItems, hp, e1, e2, e3, formatLSN_eq,
        Opaque.am, Opaque.flags, h0] <;> omega
  | brin a b f t =>
    by_cases h1 : t = 0xF091 <;> by_cases h2 : t = 0xF092 <;>
      simp [viewOf, expectPage, pageView, itemCountOf, linePointers, metaHasNoItems, hp, e1, e2, e3, formatLSN_eq,
        Opaque.am, Opaque.flags, brinMeta, brinRevmap, h1, h2] <;> omega

end PgVerif.Proofs.Index
