/-
  ScanWALDirectory / GetRecentWALRecords as functions of the record list of the accepted files.
  Helper lemmas for Props/C17.lean.
-/
import PgVerif.Proofs.Wal
namespace PgVerif.Proofs.Wal
open PgVerif PgVerif.Model.Wal

/-! ## Directory functions as pure folds over the records of the accepted files -/

/-- the records ParseWALFile returns for a file of the directory (`none` = the file is rejected) -/
def recsOpt (dir : Dir) (name : String) : Option (List Record) :=
  if (readFile dir name).length < 40 then none else some (fileRecs (readFile dir name))

def recsOf (dir : Dir) (name : String) : List Record := (recsOpt dir name).getD []

theorem parseWALFile_dir (dir : Dir) (name : String) : parseWALFile (readFile dir name) = .ok (recsOpt dir name) :=
  parseWALFile_eq _

/-- all records of the directory: the files in `sort.Strings` order, each file's records in order -/
def allRecords (dir : Dir) : List Record := (walFiles dir).flatMap (recsOf dir)

def takeLast (n : Nat) (xs : List α) : List α := xs.drop (xs.length - n)

theorem takeLast_append {α} (n : Nat) (xs ys : List α) (h : n ≤ ys.length) : takeLast n (xs ++ ys) = takeLast n ys := by
  unfold takeLast
  rw [List.length_append, List.drop_append]
  have : xs.length + ys.length - n - xs.length = ys.length - n := by omega
  rw [this, List.drop_of_length_le (by omega), List.nil_append]

def recentPure (dir : Dir) (limit : Nat) : List String → List Record → List Record
  | [], acc => acc
  | n :: ns, acc => if acc.length < limit then recentPure dir limit ns (recsOf dir n ++ acc) else acc

theorem recentLoop_eq (dir : Dir) (limit : Nat) (ns : List String) (acc : List Record) :
    recentLoop dir (limit : Int) ns acc = .ok (recentPure dir limit ns acc) := by
  induction ns generalizing acc with
  | nil => rfl
  | cons n ns ih =>
    unfold recentLoop recentPure
    by_cases h : acc.length < limit
    · rw [if_pos (by omega), if_pos h, parseWALFile_dir]
      simp only [ok_bind]
      unfold recsOf
      cases recsOpt dir n with
      | none => simpa using ih acc
      | some rs => simpa using ih (rs ++ acc)
    · rw [if_neg (by omega), if_neg h]; rfl

theorem recentPure_takeLast (dir : Dir) (limit : Nat) (ns : List String) (acc : List Record) :
    takeLast limit (recentPure dir limit ns acc) = takeLast limit (ns.reverse.flatMap (recsOf dir) ++ acc) := by
  induction ns generalizing acc with
  | nil => simp [recentPure]
  | cons n ns ih =>
    unfold recentPure
    by_cases h : acc.length < limit
    · rw [if_pos h, ih]
      simp [List.flatMap_append, List.append_assoc]
    · rw [if_neg h, takeLast_append _ _ _ (by omega)]

theorem getRecent_eq (dir : Dir) (limit : Nat) :
    getRecentWALRecords dir (limit : Int) = .ok (takeLast limit (allRecords dir)) := by
  unfold getRecentWALRecords
  rw [recentLoop_eq]
  simp only [ok_bind]
  have h := recentPure_takeLast dir limit (walFiles dir).reverse []
  rw [List.reverse_reverse, List.append_nil] at h
  unfold allRecords
  rw [← h]
  split
  · rename_i hc
    rw [if_neg (by omega)]
    simp only [Int.toNat_natCast, takeLast]; rfl
  · rename_i hc
    simp only [takeLast, pure_eq_ok]
    rw [show (recentPure dir limit (walFiles dir).reverse []).length - limit = 0 by omega, List.drop_zero]

/-! ## Counting maps -/

def lookupD [BEq κ] : List (κ × Nat) → κ → Nat
  | [], _ => 0
  | e :: m, k => if e.1 == k then e.2 else lookupD m k

def keys (m : List (κ × β)) : List κ := m.map (·.1)

theorem any_iff_mem_keys [BEq κ] [LawfulBEq κ] [DecidableEq κ] (m : List (κ × β)) (k : κ) : m.any (·.1 == k) = true ↔ k ∈ keys m := by
  unfold keys
  simp only [List.any_eq_true, beq_iff_eq, List.mem_map]

theorem bump_keys [BEq κ] [LawfulBEq κ] [DecidableEq κ] (m : List (κ × Nat)) (k : κ) :
    keys (bump m k) = if k ∈ keys m then keys m else keys m ++ [k] := by
  unfold bump
  by_cases h : m.any (·.1 == k) = true
  · rw [if_pos h, if_pos ((any_iff_mem_keys m k).mp h)]
    unfold keys
    rw [List.map_map]
    apply List.map_congr_left
    intro a _
    simp only [Function.comp]
    split <;> rfl
  · rw [if_neg h, if_neg (fun hc => h ((any_iff_mem_keys m k).mpr hc))]
    simp [keys]

theorem lookupD_not_mem [BEq κ] [LawfulBEq κ] [DecidableEq κ] (m : List (κ × Nat)) (k : κ) (h : ¬ k ∈ keys m) : lookupD m k = 0 := by
  induction m with
  | nil => rfl
  | cons e m ih =>
    simp only [keys, List.map_cons, List.mem_cons, not_or] at h
    unfold lookupD
    rw [if_neg (by simp only [beq_iff_eq]; exact fun e' => h.1 e'.symm)]
    exact ih h.2

theorem lookupD_map_bump [BEq κ] [LawfulBEq κ] [DecidableEq κ] (m : List (κ × Nat)) (k k' : κ) :
    lookupD (m.map fun kv => if kv.1 == k then (kv.1, kv.2 + 1) else kv) k' =
      lookupD m k' + (if k' = k ∧ k' ∈ keys m then 1 else 0) := by
  induction m with
  | nil => simp [lookupD, keys]
  | cons e m ih =>
    simp only [List.map_cons, keys, List.map_cons, List.mem_cons] at ih ⊢
    by_cases hek : e.1 = k
    · have hb : (e.1 == k) = true := by simp [hek]
      simp only [hb, if_true, lookupD]
      by_cases hek' : e.1 = k'
      · have hkk : k' = k := by rw [← hek, ← hek']
        have hb' : (e.1 == k') = true := by simp [hek']
        simp [hb', hkk, hek]
      · have hb' : (e.1 == k') = false := by simp [hek']
        have h1 : ¬ k' = e.1 := fun h => hek' h.symm
        simp only [hb', Bool.false_eq_true, if_false, h1, false_or]
        exact ih
    · have hb : (e.1 == k) = false := by simp [hek]
      simp only [hb, Bool.false_eq_true, if_false, lookupD]
      by_cases hek' : e.1 = k'
      · have hkk : ¬ k' = k := by rw [← hek']; exact hek
        have hb' : (e.1 == k') = true := by simp [hek']
        simp [hb', hkk]
      · have hb' : (e.1 == k') = false := by simp [hek']
        have h1 : ¬ k' = e.1 := fun h => hek' h.symm
        simp only [hb', Bool.false_eq_true, if_false, h1, false_or]
        exact ih

theorem lookupD_append_single [BEq κ] [LawfulBEq κ] [DecidableEq κ] (m : List (κ × Nat)) (k k' : κ) (v : Nat) (h : ¬ k ∈ keys m) :
    lookupD (m ++ [(k, v)]) k' = lookupD m k' + (if k' = k then v else 0) := by
  induction m with
  | nil =>
    by_cases hk : k' = k
    · subst hk; simp [lookupD]
    · have : ¬ k = k' := fun e => hk e.symm
      simp [lookupD, hk, this]
  | cons e m ih =>
    simp only [keys, List.map_cons, List.mem_cons, not_or] at h
    simp only [List.cons_append, lookupD]
    by_cases hek' : e.1 = k'
    · have : ¬ k' = k := by rw [← hek']; exact fun e' => h.1 e'.symm
      simp [hek', this]
    · rw [if_neg (by simp only [beq_iff_eq]; exact hek'), if_neg (by simp only [beq_iff_eq]; exact hek')]
      exact ih h.2

theorem bump_lookup [BEq κ] [LawfulBEq κ] [DecidableEq κ] (m : List (κ × Nat)) (k k' : κ) :
    lookupD (bump m k) k' = lookupD m k' + (if k' = k then 1 else 0) := by
  unfold bump
  by_cases h : m.any (·.1 == k) = true
  · rw [if_pos h, lookupD_map_bump]
    have hk := (any_iff_mem_keys m k).mp h
    by_cases hkk : k' = k
    · subst hkk; simp [hk]
    · simp [hkk]
  · rw [if_neg h]
    exact lookupD_append_single m k k' 1 (fun hc => h ((any_iff_mem_keys m k).mpr hc))

/-- folding `bump` over a list of keys counts them -/
theorem foldl_bump_lookup [BEq κ] [LawfulBEq κ] [DecidableEq κ] (ks : List κ) (m : List (κ × Nat)) (k' : κ) :
    lookupD (ks.foldl bump m) k' = lookupD m k' + ks.count k' := by
  induction ks generalizing m with
  | nil => simp
  | cons k ks ih =>
    rw [List.foldl_cons, ih, bump_lookup, List.count_cons]
    by_cases h : k' = k
    · subst h; simp; omega
    · have h' : ¬ k = k' := fun e => h e.symm
      simp [h, h']

theorem foldl_bump_keys [BEq κ] [LawfulBEq κ] [DecidableEq κ] (ks : List κ) (m : List (κ × Nat)) (hm : (keys m).Nodup) :
    (keys (ks.foldl bump m)).Nodup ∧ ∀ k, k ∈ keys (ks.foldl bump m) ↔ k ∈ keys m ∨ k ∈ ks := by
  induction ks generalizing m with
  | nil => simp [hm]
  | cons k ks ih =>
    rw [List.foldl_cons]
    have hk := bump_keys m k
    have hnd : (keys (bump m k)).Nodup := by
      rw [hk]; split
      · exact hm
      · rename_i hn
        rw [List.nodup_append]
        exact ⟨hm, by simp, by intro a ha b hb; simp at hb; subst hb; exact fun e => hn (e ▸ ha)⟩
    obtain ⟨h1, h2⟩ := ih (bump m k) hnd
    refine ⟨h1, fun k' => ?_⟩
    rw [h2 k', hk]
    split
    · rename_i hin
      constructor
      · rintro (h | h)
        · exact .inl h
        · exact .inr (by simp [h])
      · rintro (h | h)
        · exact .inl h
        · rcases List.mem_cons.mp h with rfl | h
          · exact .inl hin
          · exact .inr h
    · simp only [List.mem_append, List.mem_cons, List.not_mem_nil, or_false]
      constructor
      · rintro ((h | h) | h)
        · exact .inl h
        · exact .inr (.inl h)
        · exact .inr (.inr h)
      · rintro (h | h | h)
        · exact .inl (.inl h)
        · exact .inl (.inr h)
        · exact .inr h

end PgVerif.Proofs.Wal
