/-
  ScanWALDirectory / GetRecentWALRecords as functions of the record list of the accepted files.
  Helper lemmas for Props/C17.lean.
-/
import PgVerif.Proofs.Wal
namespace PgVerif.Proofs.Wal
open PgVerif PgVerif.Model.Wal

/-! ## Directory functions as pure folds over the records of the accepted files -/

/-- the records ParseWALFile returns for a file of the directory (`none` = the file is rejected) -/
def recsOpt (dir : Dir) (name : String) : Option (List Record) :=
  if (readFile dir name).length < 40 then none else some (fileRecs (readFile dir name))

def recsOf (dir : Dir) (name : String) : List Record := (recsOpt dir name).getD []

theorem parseWALFile_dir (dir : Dir) (name : String) : parseWALFile (readFile dir name) = .ok (recsOpt dir name) :=
  parseWALFile_eq _

/-- all records of the directory: the files in `sort.Strings` order, each file's records in order -/
def allRecords (dir : Dir) : List Record := (walFiles dir).flatMap (recsOf dir)

def takeLast (n : Nat) (xs : List α) : List α := xs.drop (xs.length - n)

theorem takeLast_append {α} (n : Nat) (xs ys : List α) (h : n ≤ ys.length) : takeLast n (xs ++ ys) = takeLast n ys := by
  unfold takeLast
  rw [List.length_append, List.drop_append]
  have : xs.length + ys.length - n - xs.length = ys.length - n := by omega
  rw [this, List.drop_of_length_le (by omega), List.nil_append]

def recentPure (dir : Dir) (limit : Nat) : List String → List Record → List Record
  | [], acc => acc
  | n :: ns, acc => if acc.length < limit then recentPure dir limit ns (recsOf dir n ++ acc) else acc

theorem recentLoop_eq (dir : Dir) (limit : Nat) (ns : List String) (acc : List Record) :
    recentLoop dir (limit : Int) ns acc = .ok (recentPure dir limit ns acc) := by
  induction ns generalizing acc with
  | nil => rfl
  | cons n ns ih =>
    unfold recentLoop recentPure
    by_cases h : acc.length < limit
    · rw [if_pos (by omega), if_pos h, parseWALFile_dir]
      simp only [ok_bind]
      unfold recsOf
      cases recsOpt dir n with
      | none => simpa using ih acc
      | some rs => simpa using ih (rs ++ acc)
    · rw [if_neg (by omega), if_neg h]; rfl

theorem recentPure_takeLast (dir : Dir) (limit : Nat) (ns : List String) (acc : List Record) :
    takeLast limit (recentPure dir limit ns acc) = takeLast limit (ns.reverse.flatMap (recsOf dir) ++ acc) := by
  induction ns generalizing acc with
  | nil => simp [recentPure]
  | cons n ns ih =>
    unfold recentPure
    by_cases h : acc.length < limit
    · rw [if_pos h, ih]
      simp [List.flatMap_append, List.append_assoc]
    · rw [if_neg h, takeLast_append _ _ _ (by omega)]

theorem getRecent_eq (dir : Dir) (limit : Nat) :
    getRecentWALRecords dir (limit : Int) = .ok (takeLast limit (allRecords dir)) := by
  unfold getRecentWALRecords
  rw [if_neg (by omega)]
  unfold recentFrom
  rw [recentLoop_eq]
  simp only [ok_bind]
  have h := recentPure_takeLast dir limit (walFiles dir).reverse []
  rw [List.reverse_reverse, List.append_nil] at h
  unfold allRecords
  rw [← h]
  split
  · rename_i hc
    rw [if_neg (by omega)]
    simp only [Int.toNat_natCast, takeLast]; rfl
  · rename_i hc
    simp only [takeLast, pure_eq_ok]
    rw [show (recentPure dir limit (walFiles dir).reverse []).length - limit = 0 by omega, List.drop_zero]

/-! ## Counting maps -/

def lookupD [BEq κ] : List (κ × Nat) → κ → Nat
  | [], _ => 0
  | e :: m, k => if e.1 == k then e.2 else lookupD m k

def keys (m : List (κ × β)) : List κ := m.map (·.1)

theorem any_iff_mem_keys [BEq κ] [LawfulBEq κ] [DecidableEq κ] (m : List (κ × β)) (k : κ) : m.any (·.1 == k) = true ↔ k ∈ keys m := by
  unfold keys
  simp only [List.any_eq_true, beq_iff_eq, List.mem_map]

theorem bump_keys [BEq κ] [LawfulBEq κ] [DecidableEq κ] (m : List (κ × Nat)) (k : κ) :
    keys (bump m k) = if k ∈ keys m then keys m else keys m ++ [k] := by
  unfold bump
  by_cases h : m.any (·.1 == k) = true
  · rw [if_pos h, if_pos ((any_iff_mem_keys m k).mp h)]
    unfold keys
    rw [List.map_map]
    apply List.map_congr_left
    intro a _
    simp only [Function.comp]
    split <;> rfl
  · rw [if_neg h, if_neg (fun hc => h ((any_iff_mem_keys m k).mpr hc))]
    simp [keys]

theorem lookupD_not_mem [BEq κ] [LawfulBEq κ] [DecidableEq κ] (m : List (κ × Nat)) (k : κ) (h : ¬ k ∈ keys m) : lookupD m k = 0 := by
  induction m with
  | nil => rfl
  | cons e m ih =>
    simp only [keys, List.map_cons, List.mem_cons, not_or] at h
    unfold lookupD
    rw [if_neg (by simp only [beq_iff_eq]; exact fun e' => h.1 e'.symm)]
    exact ih h.2

theorem lookupD_map_bump [BEq κ] [LawfulBEq κ] [DecidableEq κ] (m : List (κ × Nat)) (k k' : κ) :
    lookupD (m.map fun kv => if kv.1 == k then (kv.1, kv.2 + 1) else kv) k' =
      lookupD m k' + (if k' = k ∧ k' ∈ keys m then 1 else 0) := by
  induction m with
  | nil => simp [lookupD, keys]
  | cons e m ih =>
    simp only [List.map_cons, keys, List.map_cons, List.mem_cons] at ih ⊢
    by_cases hek : e.1 = k
    · have hb : (e.1 == k) = true := by simp [hek]
      simp only [hb, if_true, lookupD]
      by_cases hek' : e.1 = k'
      · have hkk : k' = k := by rw [← hek, ← hek']
        have hb' : (e.1 == k') = true := by simp [hek']
        simp [hkk, hek]
      · have hb' : (e.1 == k') = false := by simp [hek']
        have h1 : ¬ k' = e.1 := fun h => hek' h.symm
        simp only [hb', Bool.false_eq_true, if_false, h1, false_or]
        exact ih
    · have hb : (e.1 == k) = false := by simp [hek]
      simp only [hb, Bool.false_eq_true, if_false, lookupD]
      by_cases hek' : e.1 = k'
      · have hkk : ¬ k' = k := by rw [← hek']; exact hek
        have hb' : (e.1 == k') = true := by simp [hek']
        simp [hb', hkk]
      · have hb' : (e.1 == k') = false := by simp [hek']
        have h1 : ¬ k' = e.1 := fun h => hek' h.symm
        simp only [hb', Bool.false_eq_true, if_false, h1, false_or]
        exact ih

theorem lookupD_append_single [BEq κ] [LawfulBEq κ] [DecidableEq κ] (m : List (κ × Nat)) (k k' : κ) (v : Nat) (h : ¬ k ∈ keys m) :
    lookupD (m ++ [(k, v)]) k' = lookupD m k' + (if k' = k then v else 0) := by
  induction m with
  | nil =>
    by_cases hk : k' = k
    · subst hk; simp [lookupD]
    · have : ¬ k = k' := fun e => hk e.symm
      simp [lookupD, hk, this]
  | cons e m ih =>
    simp only [keys, List.map_cons, List.mem_cons, not_or] at h
    simp only [List.cons_append, lookupD]
    by_cases hek' : e.1 = k'
    · have : ¬ k' = k := by rw [← hek']; exact fun e' => h.1 e'.symm
      simp [hek', this]
    · rw [if_neg (by simp only [beq_iff_eq]; exact hek'), if_neg (by simp only [beq_iff_eq]; exact hek')]
      exact ih h.2

theorem bump_lookup [BEq κ] [LawfulBEq κ] [DecidableEq κ] (m : List (κ × Nat)) (k k' : κ) :
    lookupD (bump m k) k' = lookupD m k' + (if k' = k then 1 else 0) := by
  unfold bump
  by_cases h : m.any (·.1 == k) = true
  · rw [if_pos h, lookupD_map_bump]
    have hk := (any_iff_mem_keys m k).mp h
    by_cases hkk : k' = k
    · subst hkk; simp [hk]
    · simp [hkk]
  · rw [if_neg h]
    exact lookupD_append_single m k k' 1 (fun hc => h ((any_iff_mem_keys m k).mpr hc))

/-- folding `bump` over a list of keys counts them -/
theorem foldl_bump_lookup [BEq κ] [LawfulBEq κ] [DecidableEq κ] (ks : List κ) (m : List (κ × Nat)) (k' : κ) :
    lookupD (ks.foldl bump m) k' = lookupD m k' + ks.count k' := by
  induction ks generalizing m with
  | nil => simp
  | cons k ks ih =>
    rw [List.foldl_cons, ih, bump_lookup, List.count_cons]
    by_cases h : k' = k
    · subst h; simp; omega
    · have h' : ¬ k = k' := fun e => h e.symm
      simp [h, h']

theorem foldl_bump_keys [BEq κ] [LawfulBEq κ] [DecidableEq κ] (ks : List κ) (m : List (κ × Nat)) (hm : (keys m).Nodup) :
    (keys (ks.foldl bump m)).Nodup ∧ ∀ k, k ∈ keys (ks.foldl bump m) ↔ k ∈ keys m ∨ k ∈ ks := by
  induction ks generalizing m with
  | nil => simp [hm]
  | cons k ks ih =>
    rw [List.foldl_cons]
    have hk := bump_keys m k
    have hnd : (keys (bump m k)).Nodup := by
      rw [hk]; split
      · exact hm
      · rename_i hn
        rw [List.nodup_append]
        exact ⟨hm, by simp, by intro a ha b hb; simp at hb; subst hb; exact fun e => hn (e ▸ ha)⟩
    obtain ⟨h1, h2⟩ := ih (bump m k) hnd
    refine ⟨h1, fun k' => ?_⟩
    rw [h2 k', hk]
    split
    · rename_i hin
      constructor
      · rintro (h | h)
        · exact .inl h
        · exact .inr (by simp [h])
      · rintro (h | h)
        · exact .inl h
        · rcases List.mem_cons.mp h with rfl | h
          · exact .inl hin
          · exact .inr h
    · simp only [List.mem_append, List.mem_cons, List.not_mem_nil, or_false]
      constructor
      · rintro ((h | h) | h)
        · exact .inl h
        · exact .inr (.inl h)
        · exact .inr (.inr h)
      · rintro (h | h | h)
        · exact .inl (.inl h)
        · exact .inl (.inr h)
        · exact .inr h

/-! ## The tally as independent folds -/

/-- the table keys one record contributes: `db/rel` of every block reference with a relation whose filenode is not 0 -/
def tableKeys (bs : List BlockRef) : List String :=
  bs.filterMap fun b => match b.rel with
    | some r => if r.rel != 0 then some (tableKey r) else none
    | none => none

theorem tallyBlocks_eq (tables : List (String × Nat)) (bs : List BlockRef) :
    tallyBlocks tables bs = (tableKeys bs).foldl bump tables := by
  induction bs generalizing tables with
  | nil => rfl
  | cons b bs ih =>
    unfold tallyBlocks tableKeys
    cases hr : b.rel with
    | none => simp only [List.filterMap_cons, hr]; exact ih tables
    | some r =>
      simp only [List.filterMap_cons, hr]
      by_cases h0 : (r.rel != 0) = true
      · simp only [h0, if_true, List.foldl_cons]; exact ih _
      · simp only [h0, Bool.false_eq_true, if_false]; exact ih tables

/-- the commit/abort verdict a record gives to its transaction -/
def verdict (r : Record) : Option String :=
  if r.xid != 0 && r.rmid == 1 then
    if containsSub r.operation "COMMIT" then some "COMMIT"
    else if containsSub r.operation "ABORT" then some "ABORT" else none
  else none

def statusStep (m : List (Nat × String)) (r : Record) : List (Nat × String) :=
  match verdict r with
  | some v => put m r.xid v
  | none => m

def xidKeys (rs : List Record) : List Nat := (rs.map (·.xid)).filter (· != 0)

theorem tallyRecord_ops (t : Tally) (r : Record) : (tallyRecord t r).ops = bump t.ops r.operation := by
  unfold tallyRecord; simp only []; repeat' split
  all_goals rfl

theorem tallyRecord_tables (t : Tally) (r : Record) : (tallyRecord t r).tables = (tableKeys r.blocks).foldl bump t.tables := by
  rw [← tallyBlocks_eq]
  unfold tallyRecord; simp only []; repeat' split
  all_goals rfl

theorem tallyRecord_count (t : Tally) (r : Record) : (tallyRecord t r).recordCount = t.recordCount + 1 := by
  unfold tallyRecord; simp only []; repeat' split
  all_goals rfl

theorem tallyRecord_seg (t : Tally) (r : Record) : (tallyRecord t r).segmentCount = t.segmentCount := by
  unfold tallyRecord; simp only []; repeat' split
  all_goals rfl

theorem tallyRecord_txnOps (t : Tally) (r : Record) :
    (tallyRecord t r).txnOps = if r.xid != 0 then bump t.txnOps r.xid else t.txnOps := by
  unfold tallyRecord; simp only []; repeat' split
  all_goals first | rfl | simp_all

theorem tallyRecord_txnStatus (t : Tally) (r : Record) : (tallyRecord t r).txnStatus = statusStep t.txnStatus r := by
  unfold tallyRecord statusStep verdict; simp only []; repeat' split
  all_goals first | rfl | simp_all

/-- the tally `t` is the tally `t0` advanced over the records `rs` (field by field) -/
structure Advanced (t0 t : Tally) (rs : List Record) : Prop where
  ops : t.ops = (rs.map (·.operation)).foldl bump t0.ops
  tables : t.tables = (rs.flatMap fun r => tableKeys r.blocks).foldl bump t0.tables
  count : t.recordCount = t0.recordCount + rs.length
  txnOps : t.txnOps = (xidKeys rs).foldl bump t0.txnOps
  txnStatus : t.txnStatus = rs.foldl statusStep t0.txnStatus

theorem advanced_foldl (rs : List Record) (t : Tally) : Advanced t (rs.foldl tallyRecord t) rs := by
  induction rs generalizing t with
  | nil => exact ⟨rfl, rfl, rfl, rfl, rfl⟩
  | cons r rs ih =>
    obtain ⟨h1, h2, h3, h4, h5⟩ := ih (tallyRecord t r)
    rw [List.foldl_cons]
    refine ⟨?_, ?_, ?_, ?_, ?_⟩
    · rw [h1, tallyRecord_ops]; rfl
    · rw [h2, tallyRecord_tables, List.flatMap_cons, List.foldl_append]
    · rw [h3, tallyRecord_count, List.length_cons]; omega
    · rw [h4, tallyRecord_txnOps]
      unfold xidKeys
      simp only [List.map_cons, List.filter_cons]
      by_cases h0 : (r.xid != 0) = true
      · simp [h0]
      · simp [h0]
    · rw [h5, tallyRecord_txnStatus]; rfl

theorem advanced_trans {t0 t1 t2 : Tally} {a b : List Record} (h1 : Advanced t0 t1 a) (h2 : Advanced t1 t2 b) :
    Advanced t0 t2 (a ++ b) := by
  obtain ⟨a1, a2, a3, a4, a5⟩ := h1
  obtain ⟨b1, b2, b3, b4, b5⟩ := h2
  refine ⟨?_, ?_, ?_, ?_, ?_⟩
  · rw [b1, a1, List.map_append, List.foldl_append]
  · rw [b2, a2, List.flatMap_append, List.foldl_append]
  · rw [b3, a3, List.length_append]; omega
  · rw [b4, a4]; unfold xidKeys; rw [List.map_append, List.filter_append, List.foldl_append]
  · rw [b5, a5, List.foldl_append]

/-- number of files of the list that ParseWALFile accepts -/
def acceptedCount (dir : Dir) (names : List String) : Nat := (names.filter fun n => (recsOpt dir n).isSome).length

theorem noteFile_fields (t : Tally) (data : Bytes) :
    (noteFile t data).ops = t.ops ∧ (noteFile t data).tables = t.tables ∧ (noteFile t data).recordCount = t.recordCount ∧
    (noteFile t data).txnOps = t.txnOps ∧ (noteFile t data).txnStatus = t.txnStatus ∧
    (noteFile t data).segmentCount = t.segmentCount + 1 := by
  unfold noteFile; simp only []; repeat' split
  all_goals exact ⟨rfl, rfl, rfl, rfl, rfl, rfl⟩

theorem advanced_note {t0 t : Tally} {rs : List Record} (data : Bytes) (h : Advanced (noteFile t0 data) t rs) :
    Advanced t0 t rs := by
  obtain ⟨n1, n2, n3, n4, n5, _⟩ := noteFile_fields t0 data
  obtain ⟨h1, h2, h3, h4, h5⟩ := h
  exact ⟨by rw [h1, n1], by rw [h2, n2], by rw [h3, n3], by rw [h4, n4], by rw [h5, n5]⟩

theorem foldl_tallyRecord_seg (rs : List Record) (t : Tally) : (rs.foldl tallyRecord t).segmentCount = t.segmentCount := by
  induction rs generalizing t with
  | nil => rfl
  | cons r rs ih => rw [List.foldl_cons, ih, tallyRecord_seg]

theorem tallyFiles_eq (dir : Dir) (names : List String) (t0 : Tally) :
    ∃ t, tallyFiles dir t0 names = .ok t ∧ Advanced t0 t (names.flatMap (recsOf dir)) ∧
      t.segmentCount = t0.segmentCount + acceptedCount dir names := by
  induction names generalizing t0 with
  | nil => exact ⟨t0, rfl, ⟨rfl, rfl, rfl, rfl, rfl⟩, rfl⟩
  | cons n ns ih =>
    unfold tallyFiles tallyFile
    rw [parseWALFile_dir]
    simp only [ok_bind]
    cases hr : recsOpt dir n with
    | none =>
      simp only [pure_eq_ok, ok_bind]
      obtain ⟨t, ht, ha, hs⟩ := ih t0
      refine ⟨t, ht, ?_, ?_⟩
      · simpa [List.flatMap_cons, recsOf, hr] using ha
      · simpa [acceptedCount, List.filter_cons, hr] using hs
    | some rs =>
      simp only [pure_eq_ok, ok_bind]
      obtain ⟨t, ht, ha, hs⟩ := ih (rs.foldl tallyRecord (noteFile t0 (readFile dir n)))
      refine ⟨t, ht, ?_, ?_⟩
      · have hadv := advanced_note _ (advanced_foldl rs (noteFile t0 (readFile dir n)))
        have := advanced_trans hadv ha
        simpa [List.flatMap_cons, recsOf, hr] using this
      · rw [hs, foldl_tallyRecord_seg, (noteFile_fields t0 _).2.2.2.2.2]
        simp [acceptedCount, hr]; omega

/-! ## Transaction status: the last verdict wins -/

def lookupS : List (Nat × String) → Nat → Option String
  | [], _ => none
  | e :: m, k => if e.1 == k then some e.2 else lookupS m k

theorem statusOf_eq (m : List (Nat × String)) (x : Nat) : statusOf m x = (lookupS m x).getD "IN_PROGRESS" := by
  unfold statusOf
  induction m with
  | nil => rfl
  | cons e m ih =>
    simp only [List.find?_cons, lookupS]
    by_cases h : (e.1 == x) = true
    · simp [h]
    · simp only [Bool.not_eq_true] at h
      simp only [h]
      exact ih

theorem lookupS_map_put (m : List (Nat × String)) (k : Nat) (v : String) (x : Nat) :
    lookupS (m.map fun kv => if kv.1 == k then (kv.1, v) else kv) x =
      if x = k ∧ x ∈ keys m then some v else lookupS m x := by
  induction m with
  | nil => simp [lookupS, keys]
  | cons e m ih =>
    simp only [List.map_cons, keys, List.mem_cons] at ih ⊢
    by_cases hek : e.1 = k
    · have hb : (e.1 == k) = true := by simp [hek]
      simp only [hb, if_true, lookupS]
      by_cases hek' : e.1 = x
      · have hkk : x = k := by rw [← hek, ← hek']
        simp [hkk, hek]
      · have hb' : (e.1 == x) = false := by simp [hek']
        have h1 : ¬ x = e.1 := fun h => hek' h.symm
        simp only [hb', Bool.false_eq_true, if_false, h1, false_or]
        exact ih
    · have hb : (e.1 == k) = false := by simp [hek]
      simp only [hb, Bool.false_eq_true, if_false, lookupS]
      by_cases hek' : e.1 = x
      · have hkk : ¬ x = k := by rw [← hek']; exact hek
        have hb' : (e.1 == x) = true := by simp [hek']
        simp [hb', hkk]
      · have hb' : (e.1 == x) = false := by simp [hek']
        have h1 : ¬ x = e.1 := fun h => hek' h.symm
        simp only [hb', Bool.false_eq_true, if_false, h1, false_or]
        exact ih

theorem lookupS_not_mem (m : List (Nat × String)) (k : Nat) (h : ¬ k ∈ keys m) : lookupS m k = none := by
  induction m with
  | nil => rfl
  | cons e m ih =>
    simp only [keys, List.map_cons, List.mem_cons, not_or] at h
    unfold lookupS
    rw [if_neg (by simp only [beq_iff_eq]; exact fun e' => h.1 e'.symm)]
    exact ih h.2

theorem lookupS_append_single (m : List (Nat × String)) (k x : Nat) (v : String) (h : ¬ k ∈ keys m) :
    lookupS (m ++ [(k, v)]) x = if x = k then some v else lookupS m x := by
  induction m with
  | nil =>
    by_cases hk : x = k
    · subst hk; simp [lookupS]
    · have : ¬ k = x := fun e => hk e.symm
      simp [lookupS, hk, this]
  | cons e m ih =>
    simp only [keys, List.map_cons, List.mem_cons, not_or] at h
    simp only [List.cons_append, lookupS]
    by_cases hek' : e.1 = x
    · have : ¬ x = k := by rw [← hek']; exact fun e' => h.1 e'.symm
      simp [hek', this]
    · have hb : (e.1 == x) = false := by simp [hek']
      simp only [hb, Bool.false_eq_true, if_false]
      exact ih h.2

theorem put_lookup (m : List (Nat × String)) (k : Nat) (v : String) (x : Nat) :
    lookupS (put m k v) x = if x = k then some v else lookupS m x := by
  unfold put
  by_cases h : m.any (·.1 == k) = true
  · rw [if_pos h, lookupS_map_put]
    have hk := (any_iff_mem_keys m k).mp h
    by_cases hkk : x = k
    · subst hkk; simp [hk]
    · simp [hkk]
  · rw [if_neg h]
    exact lookupS_append_single m k x v (fun hc => h ((any_iff_mem_keys m k).mpr hc))

/-- the verdict of the last record of transaction `x` that has one -/
def lastVerdict (rs : List Record) (x : Nat) : Option String :=
  rs.reverse.findSome? fun r => if r.xid = x then verdict r else none

theorem statusStep_lookup (m : List (Nat × String)) (r : Record) (x : Nat) :
    lookupS (statusStep m r) x = ((if r.xid = x then verdict r else none) <|> lookupS m x) := by
  unfold statusStep
  cases hv : verdict r with
  | none => simp
  | some v =>
    simp only [put_lookup]
    by_cases h : x = r.xid
    · subst h; simp
    · have : ¬ r.xid = x := fun e => h e.symm
      simp [h, this]

theorem foldl_status_lookup (rs : List Record) (m : List (Nat × String)) (x : Nat) :
    lookupS (rs.foldl statusStep m) x = (lastVerdict rs x <|> lookupS m x) := by
  induction rs generalizing m with
  | nil => simp [lastVerdict]
  | cons r rs ih =>
    rw [List.foldl_cons, ih, statusStep_lookup]
    unfold lastVerdict
    rw [List.reverse_cons, List.findSome?_append]
    simp only [List.findSome?_cons, List.findSome?_nil]
    cases (List.findSome? (fun r => if r.xid = x then verdict r else none) rs.reverse) with
    | some v => simp
    | none =>
      cases (if r.xid = x then verdict r else none) <;> simp

/-! ## sort.Slice on distinct keys = insertion sort: a sorted permutation -/

theorem insertSorted_perm (le : α → α → Bool) (x : α) (l : List α) : (insertSorted le x l).Perm (x :: l) := by
  induction l with
  | nil => exact List.Perm.refl _
  | cons y ys ih =>
    unfold insertSorted
    split
    · exact List.Perm.refl _
    · exact (List.Perm.cons y ih).trans (List.Perm.swap x y ys)

theorem sortBy_perm (le : α → α → Bool) (l : List α) : (sortBy le l).Perm l := by
  induction l with
  | nil => exact List.Perm.refl _
  | cons x xs ih => exact (insertSorted_perm le x _).trans (List.Perm.cons x ih)

theorem insertSorted_sorted (x : Nat × Nat) (l : List (Nat × Nat)) (h : l.Pairwise fun a b => a.1 ≤ b.1) :
    (insertSorted (fun a b => decide (a.1 ≤ b.1)) x l).Pairwise fun a b => a.1 ≤ b.1 := by
  induction l with
  | nil => simp [insertSorted]
  | cons y ys ih =>
    unfold insertSorted
    rw [List.pairwise_cons] at h
    split
    · rename_i hle
      simp only [decide_eq_true_eq] at hle
      rw [List.pairwise_cons]
      refine ⟨?_, List.pairwise_cons.mpr h⟩
      intro z hz
      rcases List.mem_cons.mp hz with rfl | hz
      · exact hle
      · exact Nat.le_trans hle (h.1 z hz)
    · rename_i hle
      simp only [decide_eq_true_eq] at hle
      rw [List.pairwise_cons]
      refine ⟨?_, ih h.2⟩
      intro z hz
      have := (insertSorted_perm _ x ys).mem_iff.mp hz
      rcases List.mem_cons.mp this with rfl | hz'
      · omega
      · exact h.1 z hz'

theorem sortBy_sorted (l : List (Nat × Nat)) :
    (sortBy (fun a b => decide (a.1 ≤ b.1)) l).Pairwise fun a b => a.1 ≤ b.1 := by
  induction l with
  | nil => simp [sortBy]
  | cons x xs ih => exact insertSorted_sorted x _ ih

theorem lookupD_of_mem [BEq κ] [LawfulBEq κ] [DecidableEq κ] (m : List (κ × Nat)) (k : κ) (v : Nat)
    (hm : (k, v) ∈ m) (hn : (keys m).Nodup) : lookupD m k = v := by
  induction m with
  | nil => cases hm
  | cons e m ih =>
    simp only [keys, List.map_cons, List.nodup_cons] at hn
    unfold lookupD
    rcases List.mem_cons.mp hm with rfl | hm'
    · simp
    · have : ¬ e.1 = k := by
        intro he
        apply hn.1
        rw [he]
        exact List.mem_map.mpr ⟨(k, v), hm', rfl⟩
      rw [if_neg (by simp only [beq_iff_eq]; exact this)]
      exact ih hm' hn.2

theorem mem_xidKeys (rs : List Record) (x : Nat) : x ∈ xidKeys rs ↔ x ≠ 0 ∧ ∃ r ∈ rs, r.xid = x := by
  unfold xidKeys
  simp only [List.mem_filter, List.mem_map, bne_iff_ne, ne_eq]
  constructor
  · rintro ⟨⟨r, hr, rfl⟩, h0⟩; exact ⟨h0, r, hr, rfl⟩
  · rintro ⟨h0, r, hr, rfl⟩; exact ⟨⟨r, hr, rfl⟩, h0⟩

/-- ScanWALDirectory as tallies over the records of the accepted files -/
theorem scan_summary (dir : Dir) : ∃ s, scanWALDirectory dir = .ok s ∧
    s.recordCount = (allRecords dir).length ∧
    s.segmentCount = acceptedCount dir (walFiles dir) ∧
    (∀ op, lookupD s.ops op = ((allRecords dir).map (·.operation)).count op) ∧
    (∀ key, lookupD s.tables key = ((allRecords dir).flatMap fun r => tableKeys r.blocks).count key) ∧
    (keys s.ops).Nodup ∧ (keys s.tables).Nodup ∧
    (s.transactions.map (·.xid)).Pairwise (· < ·) ∧
    (∀ x, x ∈ s.transactions.map (·.xid) ↔ x ≠ 0 ∧ ∃ r ∈ allRecords dir, r.xid = x) ∧
    (∀ t ∈ s.transactions, t.operations = (xidKeys (allRecords dir)).count t.xid ∧
      t.status = (lastVerdict (allRecords dir) t.xid).getD "IN_PROGRESS") := by
  obtain ⟨t, ht, ⟨h1', h2', h3', h4', h5'⟩, hs'⟩ := tallyFiles_eq dir (walFiles dir) {}
  have h1 : t.ops = ((allRecords dir).map (·.operation)).foldl bump [] := h1'
  have h2 : t.tables = ((allRecords dir).flatMap fun r => tableKeys r.blocks).foldl bump [] := h2'
  have h3 : t.recordCount = 0 + (allRecords dir).length := h3'
  have h4 : t.txnOps = (xidKeys (allRecords dir)).foldl bump [] := h4'
  have h5 : t.txnStatus = (allRecords dir).foldl statusStep [] := h5'
  have hs : t.segmentCount = 0 + acceptedCount dir (walFiles dir) := hs'
  clear h1' h2' h3' h4' h5' hs'
  unfold scanWALDirectory
  rw [ht]
  simp only [ok_bind, pure_eq_ok]
  refine ⟨_, rfl, ?_, ?_, ?_, ?_, ?_, ?_, ?_, ?_, ?_⟩
  · simpa using h3
  · simpa using hs
  · intro op; simp only []; rw [h1, foldl_bump_lookup]; simp [lookupD]
  · intro key; simp only []; rw [h2, foldl_bump_lookup]; simp [lookupD]
  · simp only []; rw [h1]; exact (foldl_bump_keys _ [] (by simp [keys])).1
  · simp only []; rw [h2]; exact (foldl_bump_keys _ [] (by simp [keys])).1
  · simp only [List.map_map]
    have hkeys := foldl_bump_keys (xidKeys (allRecords dir)) ([] : List (Nat × Nat)) (by simp [keys])
    have hperm := sortBy_perm (fun a b : Nat × Nat => decide (a.1 ≤ b.1)) t.txnOps
    have hsorted := sortBy_sorted t.txnOps
    have hnd : ((sortBy (fun a b : Nat × Nat => decide (a.1 ≤ b.1)) t.txnOps).map (·.1)).Nodup := by
      rw [(hperm.map _).nodup_iff]
      have := hkeys.1; rw [← h4] at this; exact this
    have hle : ((sortBy (fun a b : Nat × Nat => decide (a.1 ≤ b.1)) t.txnOps).map (·.1)).Pairwise (· ≤ ·) := by
      rw [List.pairwise_map]; exact hsorted
    have : (fun (e : Nat × Nat) => e.1) = ((fun (t : TxInfo) => t.xid) ∘ fun e => (⟨e.1, statusOf t.txnStatus e.1, e.2⟩ : TxInfo)) := rfl
    rw [← this]
    exact (hle.and hnd).imp (fun ⟨a, b⟩ => by omega)
  · intro x
    simp only [List.map_map]
    have hkeys := foldl_bump_keys (xidKeys (allRecords dir)) ([] : List (Nat × Nat)) (by simp [keys])
    have hperm := sortBy_perm (fun a b : Nat × Nat => decide (a.1 ≤ b.1)) t.txnOps
    have : (fun (e : Nat × Nat) => e.1) = ((fun (t : TxInfo) => t.xid) ∘ fun e => (⟨e.1, statusOf t.txnStatus e.1, e.2⟩ : TxInfo)) := rfl
    rw [← this, (hperm.map _).mem_iff]
    have h := hkeys.2 x
    rw [← h4] at h
    unfold keys at h
    rw [h, mem_xidKeys]
    simp [keys]
  · intro tx htx
    simp only [List.mem_map] at htx
    obtain ⟨e, he, rfl⟩ := htx
    have hperm := sortBy_perm (fun a b : Nat × Nat => decide (a.1 ≤ b.1)) t.txnOps
    have hmem := hperm.mem_iff.mp he
    have hkeys := foldl_bump_keys (xidKeys (allRecords dir)) ([] : List (Nat × Nat)) (by simp [keys])
    have hnd := hkeys.1; rw [← h4] at hnd
    constructor
    · simp only []
      have := lookupD_of_mem t.txnOps e.1 e.2 hmem hnd
      rw [← this, h4, foldl_bump_lookup]; simp [lookupD]
    · simp only []
      rw [statusOf_eq, h5, foldl_status_lookup]
      simp [lookupS]

end PgVerif.Proofs.Wal
