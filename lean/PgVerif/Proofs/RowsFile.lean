/-
  From tuples to files: what the row-level readers see when they scan a well-formed heap file
  (built on the heap area's page/file round trip, Proofs/HeapFile.lean), and the pg_authid layout.
-/
import PgVerif.Proofs.RowsTuple
import PgVerif.Proofs.HeapFile
namespace PgVerif.Proofs.Rows
open PgVerif PgVerif.Model PgVerif.Spec PgVerif.Proofs

/-- the stored tuples of a file in scan order (page order, then pointer order) -/
def fileTuples (bs : List Block) : List Tuple := bs.flatMap Block.tuples

/-- the scan of a well-formed file yields exactly the stored tuples (as `mtuple`s), in order, filtered by the
visibility switch -/
theorem scan_tuples (bs : List Block) (tail : Bytes) (vis : Bool) (hb : ∀ b ∈ bs, b.WF) (ht : tail.length < 8192) :
    ∃ es, readTuples (encHeap bs tail) vis = .ok es ∧
      es.map (·.tuple) = ((fileTuples bs).filter fun t => !vis || liveBits t.infomask).map mtuple := by
  induction bs with
  | nil =>
    refine ⟨[], ?_, rfl⟩
    simp only [encHeap, List.flatMap_nil, List.nil_append]
    exact readTuples_short tail vis ht
  | cons b bs ih =>
    have hbw := hb b (by simp)
    obtain ⟨es, hes, hmap⟩ := ih (fun x hx => hb x (by simp [hx]))
    simp only [encHeap, List.flatMap_cons, List.append_assoc] at hes ⊢
    rw [readTuples_cons _ _ vis (encBlock_length b hbw), block_parse b hbw]
    simp only [ok_bind, hes, pure_eq_ok]
    refine ⟨_, rfl, ?_⟩
    simp only [fileTuples, List.flatMap_cons, List.filter_append, List.map_append, List.map_map]
    congr 1
    · simp only [pageEntries, List.map_map, List.filter_map, Function.comp_def]
      have : (fun t : Tuple => !vis || (mtuple t).isVisible) = (fun t => !vis || liveBits t.infomask) := by
        funext t; rw [isVisible_mtuple]
      rw [this]

theorem collectM_map {α β γ} (g : α → β) (f : β → M (Option γ)) (xs : List α) :
    collectM (fun x => f (g x)) xs = collectM f (xs.map g) := by
  induction xs with
  | nil => rfl
  | cons x xs ih => simp only [collectM, List.map_cons, ih]

/-- a per-tuple reader applied over the scan of a well-formed file is that reader applied to the stored tuples -/
theorem collect_scan {γ} (f : HeapTuple → M (Option γ)) (bs : List Block) (tail : Bytes) (vis : Bool)
    (hb : ∀ b ∈ bs, b.WF) (ht : tail.length < 8192) :
    (readTuples (encHeap bs tail) vis >>= fun es => collectM (fun e => f e.tuple) es) =
      collectM f (((fileTuples bs).filter fun t => !vis || liveBits t.infomask).map mtuple) := by
  obtain ⟨es, hes, hmap⟩ := scan_tuples bs tail vis hb ht
  rw [hes]
  simp only [ok_bind]
  rw [collectM_map (fun e : TupleEntry => e.tuple) f es, hmap]

/-- collecting a reader that always yields the same shape -/
theorem collectM_all_some {α γ} (f : α → M (Option γ)) (g : α → γ) (xs : List α) (h : ∀ x ∈ xs, f x = .ok (some (g x))) :
    collectM f xs = .ok (xs.map g) := by
  induction xs with
  | nil => rfl
  | cons x xs ih =>
    simp only [collectM, h x (by simp), ok_bind, ih (fun y hy => h y (by simp [hy])), pure_eq_ok, List.map_cons]

theorem collectM_congr {α γ} (f g : α → M (Option γ)) (xs : List α) (h : ∀ x ∈ xs, f x = g x) :
    collectM f xs = collectM g xs := by
  induction xs with
  | nil => rfl
  | cons x xs ih =>
    simp only [collectM, h x (by simp), ih (fun y hy => h y (by simp [hy]))]

/-! ### pg_authid -/

def bb (b : Bool) : UInt8 := if b then 1 else 0

/-- the two nullable trailing columns -/
def authTailCols : List Col := [⟨strBytes "rolpassword", 25, -1, 4⟩, ⟨strBytes "rolvaliduntil", 1184, 8, 8⟩]

/-- tuple formation for the 12 columns of pg_authid puts rolsuper at 68, rolcanlogin at 72, rolconnlimit at 76
(after one pad byte) and rolpassword at 80: the offsets the tool hard-codes -/
theorem authData (r : Role) (N : Bytes) (hN : N.length = 64) (pwD vuD : Option Datum) :
    form authidCols [some (.fixed (le 4 r.oid)), some (.fixed N), boolDatum r.super, boolDatum r.inherit,
      boolDatum r.createrole, boolDatum r.createdb, boolDatum r.canlogin, boolDatum r.replication,
      boolDatum r.bypassrls, some (.fixed (le 4 r.connlimit)), pwD, vuD] 0
    = le 4 r.oid ++ (N ++ ([bb r.super, bb r.inherit, bb r.createrole, bb r.createdb, bb r.canlogin, bb r.replication,
        bb r.bypassrls, 0] ++ (le 4 r.connlimit ++ form authTailCols [pwD, vuD] 80))) := by
  simp only [authidCols, authTailCols, bcol, boolDatum, form, formDatum, pad, alignUp, zeros, List.length_append, le_length, hN,
    List.length_replicate, List.length_cons, List.length_nil]
  simp [bb]

theorem idx_append_right (pre X : Bytes) (k j : Nat) (hk : k = pre.length + j) : idx (pre ++ X) k = idx X j := by
  subst hk
  unfold idx
  rw [List.getElem?_append_right (by omega)]
  simp

theorem cstring_name (name rest : Bytes) (h0 : (0 : UInt8) ∉ name) (hl : name.length ≤ 63) :
    cstring ((name ++ zeros (64 - name.length)) ++ rest) 64 = name := by
  unfold cstring
  have : 64 - name.length = (63 - name.length) + 1 := by omega
  rw [List.take_append_of_le_length (by simp; omega)]
  rw [List.take_of_length_le (by simp; omega), this]
  simp only [zeros, List.replicate_succ]
  exact takeWhile_nonzero name _ h0

end PgVerif.Proofs.Rows
