/-
  Decimal rendering (`dec`, `decInt` of Types/ExportDump.lean): digits only, never empty, no leading zero.
-/
import PgVerif.Types.ExportDump
namespace PgVerif.Proofs.ExportDec
open PgVerif PgVerif.Export

def IsDig (c : UInt8) : Prop := 48 ≤ c.toNat ∧ c.toNat ≤ 57

theorem digit_isDig (k : Nat) (h : k < 10) : IsDig (UInt8.ofNat (48 + k)) ∧ (k ≠ 0 → UInt8.ofNat (48 + k) ≠ 48) := by
  constructor
  · simp only [IsDig, UInt8.toNat_ofNat']; omega
  · intro hk he
    have := congrArg UInt8.toNat he
    simp only [UInt8.toNat_ofNat'] at this
    have h48 : (48 : UInt8).toNat = 48 := rfl
    omega

theorem decAux_acc (f n : Nat) (acc : Bytes) : decAux f n acc = decAux f n [] ++ acc := by
  induction f generalizing n acc with
  | zero => simp [decAux]
  | succ f ih =>
    unfold decAux
    split
    · simp
    · rw [ih (n / 10) (_ :: acc), ih (n / 10) [_]]; simp

/-- the digits of `n`: non-empty, all digits, and a leading zero only for `n < 10` (where it is the whole text) -/
theorem decAux_props (f n : Nat) (h : n < f) :
    decAux f n [] ≠ [] ∧ (∀ c ∈ decAux f n [], IsDig c) ∧
    (n < 10 → decAux f n [] = [UInt8.ofNat (48 + n)]) ∧ (10 ≤ n → (decAux f n []).head? ≠ some 48 ∧ 1 < (decAux f n []).length) := by
  induction f generalizing n with
  | zero => omega
  | succ f ih =>
    unfold decAux
    by_cases hn : n < 10
    · rw [if_pos hn]
      refine ⟨List.cons_ne_nil _ _, ?_, fun _ => rfl, fun h10 => by omega⟩
      intro c hc; rw [List.mem_singleton.mp hc]; exact (digit_isDig n hn).1
    · rw [if_neg hn]
      rw [decAux_acc]
      have hlt : n / 10 < f := by omega
      obtain ⟨h1, h2, h3, h4⟩ := ih (n / 10) hlt
      refine ⟨by simp, ?_, fun h => absurd h hn, fun _ => ⟨?_, ?_⟩⟩
      · intro c hc
        simp only [List.mem_append, List.mem_singleton] at hc
        rcases hc with hc | hc
        · exact h2 c hc
        · rw [hc]; exact (digit_isDig (n % 10) (by omega)).1
      · by_cases hq : n / 10 < 10
        · rw [h3 hq]
          simp only [List.cons_append, List.nil_append, List.head?_cons, ne_eq, Option.some.injEq]
          exact (digit_isDig (n / 10) hq).2 (by omega)
        · have := (h4 (by omega)).1
          cases hd : decAux f (n / 10) [] with
          | nil => exact absurd hd h1
          | cons c t => rw [hd] at this; simpa using this
      · cases hd : decAux f (n / 10) [] with
        | nil => exact absurd hd h1
        | cons c t => simp

theorem dec_props (n : Nat) :
    dec n ≠ [] ∧ (∀ c ∈ dec n, IsDig c) ∧ (1 < (dec n).length → (dec n).head? ≠ some 48) := by
  obtain ⟨h1, h2, h3, h4⟩ := decAux_props (n + 1) n (by omega)
  refine ⟨h1, h2, ?_⟩
  intro hl
  by_cases hn : n < 10
  · have := h3 hn; unfold dec at hl; rw [this] at hl; simp at hl
  · exact (h4 (by omega)).1

end PgVerif.Proofs.ExportDec
