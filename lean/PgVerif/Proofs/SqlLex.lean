/-
  Helper lemmas for C13 (SQL side): how Spec.SqlLex reads back what the model's quoting functions write.
-/
import PgVerif.Spec.SqlExport
import PgVerif.Model.ExportSql
namespace PgVerif.Proofs.SqlLex
open PgVerif PgVerif.Export PgVerif.Spec.SqlLex PgVerif.Model.Export

/-- facts about byte classes: unfold the predicates to inequalities between `toNat`s and let `omega` decide -/
macro "byte_omega" : tactic => `(tactic| (
  simp only [isIdentStart, isIdentCont, isDolqCont, isUpper, isLower, isSpace, isNewline, isDigit, isSelfOnly, isOpChar,
    isPlainStart, isPlainCont, foldByte,
    Bool.or_eq_true, Bool.and_eq_true, decide_eq_true_eq, beq_iff_eq, Bool.or_eq_false_iff, Bool.and_eq_false_iff,
    beq_eq_false_iff_ne, ne_eq, decide_eq_false_iff_not, Bool.not_eq_true, Bool.not_eq_false,
    UInt8.le_iff_toNat_le, UInt8.lt_iff_toNat_lt, ← UInt8.toNat_inj, UInt8.toNat_ofNat] at *
  <;> omega))

/-! ### quote-delimited tokens -/

theorem escapeQ_cons (q c : UInt8) (s : Bytes) : escapeQ q (c :: s) = escapeByte q c ++ escapeQ q s := by
  simp [escapeQ]

/-- a body in which every quote is doubled, followed by a single quote and something that is not a quote,
reads back as the original bytes and stops exactly after the closing quote -/
theorem scanQuoted_escape (q : UInt8) (s rest : Bytes) (hr : rest.head? ≠ some q) :
    scanQuoted q (escapeQ q s ++ q :: rest) = some (s, rest) := by
  induction s with
  | nil =>
    cases rest with
    | nil => simp [escapeQ, scanQuoted]
    | cons c2 t =>
      have : c2 ≠ q := by intro h; apply hr; simp [h]
      simp [escapeQ, scanQuoted, this]
  | cons c s ih =>
    rw [escapeQ_cons]
    by_cases hc : c = q
    · subst hc
      simp only [escapeByte, if_true, List.cons_append, List.nil_append, scanQuoted, ih, Option.map_some]
    · simp only [escapeByte, hc, if_false, List.cons_append, List.nil_append]
      cases h : escapeQ q s ++ q :: rest with
      | nil => simp at h
      | cons c2 t =>
        rw [scanQuoted]
        simp only [hc, if_false]
        rw [← h, ih]
        rfl

/-! ### spans -/

theorem spanB_all (p : UInt8 → Bool) (w rest : Bytes) (hw : ∀ c ∈ w, p c = true) (hr : ∀ c, rest.head? = some c → p c = false) :
    spanB p (w ++ rest) = (w, rest) := by
  induction w with
  | nil =>
    cases rest with
    | nil => rfl
    | cons c t => simp [spanB, hr c rfl]
  | cons c w ih =>
    have hc : p c = true := hw c (by simp)
    simp only [List.cons_append, spanB, hc, if_true]
    rw [ih (fun d hd => hw d (by simp [hd]))]


/-! ### string constants -/

/-- what may follow a string constant: the end, or a byte that is neither a quote, nor white space, nor a dash (which
could open a comment: white space and comments followed by a quote continue the constant) -/
def StrBoundary (rest : Bytes) : Prop := ∀ c, rest.head? = some c → c ≠ 39 ∧ isSpace c = false ∧ c ≠ 45

theorem contAfterString_false (rest : Bytes) (hb : StrBoundary rest) : contAfterString rest = false := by
  cases rest with
  | nil => rfl
  | cons c t =>
    obtain ⟨h1, h2, h3⟩ := hb c rfl
    simp [contAfterString, contScan, h1, h2, h3]

theorem escapeE_cons (c : UInt8) (s : Bytes) : (c :: s).flatMap escapeEByte = escapeEByte c ++ s.flatMap escapeEByte := by
  simp

/-- an escape-string body in which every quote and every backslash is doubled, followed by a single quote and something
that is not a quote, reads back as the original bytes and stops exactly after the closing quote -/
theorem scanEscaped_escape (s rest : Bytes) (hr : rest.head? ≠ some 39) :
    scanEscaped (s.flatMap escapeEByte ++ 39 :: rest) = some (s, rest) := by
  induction s with
  | nil =>
    cases rest with
    | nil => simp [scanEscaped]
    | cons c2 t =>
      have : c2 ≠ 39 := by intro h; apply hr; simp [h]
      simp [scanEscaped, this]
  | cons c s ih =>
    rw [escapeE_cons]
    by_cases hq : c = 39
    · subst hq
      simp only [escapeEByte, if_true, List.cons_append, List.nil_append, scanEscaped, ih, Option.map_some]
    · by_cases hb : c = 92
      · subst hb
        simp only [escapeEByte, show ((92 : UInt8) = 39) = False by decide, if_false, if_true, List.cons_append,
          List.nil_append, scanEscaped, ih, Option.map_some]
      · simp only [escapeEByte, hq, hb, if_false, List.cons_append, List.nil_append]
        cases h : s.flatMap escapeEByte ++ 39 :: rest with
        | nil => simp at h
        | cons c2 t =>
          rw [scanEscaped]
          simp only [hq, hb, if_false]
          rw [← h, ih]
          rfl

/-- quoteLiteral after the cut at the first NUL -/
def quoteLit (s : Bytes) : Bytes :=
  if s.contains 92 then 69 :: 39 :: (s.flatMap escapeEByte ++ [39]) else 39 :: (escapeQ 39 s ++ [39])

theorem quoteLiteral_eq (s : Bytes) : quoteLiteral s = quoteLit (cstr s) := rfl

theorem next0_quoteLit (s rest : Bytes) (hb : StrBoundary rest) :
    next0 (quoteLit s ++ rest) = some (some (.str s), rest) := by
  have hr : rest.head? ≠ some 39 := by
    intro h; exact (hb 39 h).1 rfl
  unfold quoteLit
  by_cases hbs : s.contains 92 = true
  · -- E'…'
    rw [if_pos hbs]
    have h69 : isSpace 69 = false := by decide
    have hd : isDigit 69 = false := by decide
    have hi : isIdentStart 69 = true := by decide
    have hspan : spanB isIdentCont (69 :: 39 :: (s.flatMap escapeEByte ++ [39] ++ rest)) =
        ([69], 39 :: (s.flatMap escapeEByte ++ [39] ++ rest)) := by
      simp [spanB, show isIdentCont 69 = true by decide, show isIdentCont 39 = false by decide]
    simp only [List.cons_append, next0, h69, hd, hi]
    simp only [show ((69 : UInt8) = 45) = False by decide, show ((69 : UInt8) = 47) = False by decide,
      show ((69 : UInt8) = 39) = False by decide, show ((69 : UInt8) = 34) = False by decide,
      show ((69 : UInt8) = 36) = False by decide, show ((69 : UInt8) = 46) = False by decide,
      false_and, false_or, if_false, Bool.false_eq_true, if_true, hspan]
    have hfold : fold [69] = [101] := by decide
    simp only [hfold, List.head?_cons, beq_self_eq_true, and_self, if_true, List.drop_succ_cons, List.drop_zero]
    rw [List.append_assoc, List.singleton_append, scanEscaped_escape s rest hr]
    simp [contAfterString_false rest hb]
  · -- '…'
    rw [if_neg hbs]
    have hbs' : ¬ 92 ∈ s := by simpa using hbs
    have h39 : isSpace 39 = false := by decide
    simp only [List.cons_append, List.append_assoc, List.nil_append, next0, h39]
    simp only [show ((39 : UInt8) = 45) = False by decide, show ((39 : UInt8) = 47) = False by decide, false_and, if_false,
      Bool.false_eq_true, if_true]
    rw [scanQuoted_escape 39 s rest hr]
    simp [contAfterString_false rest hb, hbs']

/-! ### quoted identifiers -/

theorem next0_quotedIdent (n rest : Bytes) (hn : n ≠ []) (hr : rest.head? ≠ some 34) :
    next0 (34 :: (escapeQ 34 n ++ [34]) ++ rest) = some (some (.qident n), rest) := by
  have h34 : isSpace 34 = false := by decide
  simp only [List.cons_append, List.append_assoc, List.nil_append, next0, h34]
  simp only [show ((34 : UInt8) = 45) = False by decide, show ((34 : UInt8) = 47) = False by decide,
    show ((34 : UInt8) = 39) = False by decide, false_and, if_false, Bool.false_eq_true, if_true]
  rw [scanQuoted_escape 34 n rest hr]
  simp [hn]


/-! ### bare words -/

/-- what may follow a bare word: the end, or a byte that cannot continue an identifier and is neither `'` nor `&`
(which would make  e'…' / u&'…'  of a one-letter word) -/
def WordBoundary (rest : Bytes) : Prop := ∀ c, rest.head? = some c → isIdentCont c = false ∧ c ≠ 39 ∧ c ≠ 38

theorem identStart_facts (c : UInt8) (h : isIdentStart c = true) :
    isSpace c = false ∧ c ≠ 45 ∧ c ≠ 47 ∧ c ≠ 39 ∧ c ≠ 34 ∧ c ≠ 36 ∧ isDigit c = false ∧ c ≠ 46 ∧ isIdentCont c = true := by
  byte_omega

theorem next0_word (c : UInt8) (w rest : Bytes) (hc : isIdentStart c = true) (hw : ∀ d ∈ w, isIdentCont d = true)
    (hb : WordBoundary rest) :
    next0 (c :: w ++ rest) = some (some (.word (fold (c :: w))), rest) := by
  obtain ⟨h1, h2, h3, h4, h5, h6, h7, h8, h9⟩ := identStart_facts c hc
  have hspan : spanB isIdentCont (c :: w ++ rest) = (c :: w, rest) :=
    spanB_all isIdentCont (c :: w) rest (by intro d hd; cases hd with | head => exact h9 | tail _ h => exact hw d h)
      (fun d hd => (hb d hd).1)
  rw [List.cons_append] at hspan ⊢
  simp only [next0, h1, h2, h3, h4, h5, h6, h7, h8, hc, false_and, false_or, if_false, Bool.false_eq_true, if_true, hspan]
  have e1 : ¬ (rest.head? == some 39) = true := by
    intro h; have := (hb 39 (by simpa using h)).2.1; exact this rfl
  have e2 : ¬ (rest.head? == some 38) = true := by
    intro h; have := (hb 38 (by simpa using h)).2.2; exact this rfl
  simp [e1, e2]


/-! ### identifiers as quoteIdent writes them -/

/-- what may follow an identifier: the end, or a byte that cannot continue an identifier and is none of `'` `&` `"` -/
def IdentBoundary (rest : Bytes) : Prop := ∀ c, rest.head? = some c → isIdentCont c = false ∧ c ≠ 39 ∧ c ≠ 38 ∧ c ≠ 34

theorem plain_facts (c : UInt8) : (isPlainStart c = true → isIdentStart c = true ∧ foldByte c = c) ∧
    (isPlainCont c = true → isIdentCont c = true ∧ foldByte c = c ∧ (if 65 ≤ c && c ≤ 90 then c + 32 else c) = c) := by
  constructor
  · intro h
    constructor
    · byte_omega
    · have : isUpper c = false := by byte_omega
      simp [foldByte, this]
  · intro h
    refine ⟨by byte_omega, ?_, ?_⟩
    · have : isUpper c = false := by byte_omega
      simp [foldByte, this]
    · have : (65 ≤ c && c ≤ 90) = false := by byte_omega
      simp [this]

theorem map_id_of_forall {f : UInt8 → UInt8} (l : Bytes) (h : ∀ c ∈ l, f c = c) : l.map f = l := by
  induction l with
  | nil => rfl
  | cons c l ih => simp [h c (by simp), ih (fun d hd => h d (by simp [hd]))]

/-- every word PostgreSQL refuses as a bare name is in the tool's list -/
theorem mustQuote_all : Spec.SqlExport.mustQuote.all (fun w => reservedWords.contains w) = true := by decide +kernel

theorem mustQuote_subset : ∀ w ∈ Spec.SqlExport.mustQuote, w ∈ reservedWords := by
  intro w hw
  have := List.all_eq_true.mp mustQuote_all w hw
  simpa using this

/-- the token `quoteIdent n` is read as -/
def identTok (n : Bytes) : Tok := if (!isPlainIdent n || isReservedWord n) = true then .qident n else .word n

theorem next0_quoteIdent' (n rest : Bytes) (hn : n ≠ []) (hb : IdentBoundary rest) :
    next0 (quoteIdent n ++ rest) = some (some (identTok n), rest) ∧ Spec.SqlExport.isName n (identTok n) = true := by
  unfold quoteIdent identTok
  by_cases hq : (!isPlainIdent n || isReservedWord n) = true
  · rw [if_pos hq, if_pos hq]
    refine ⟨next0_quotedIdent n rest hn ?_, by simp [Spec.SqlExport.isName]⟩
    intro h; exact (hb 34 h).2.2.2 rfl
  · rw [if_neg hq, if_neg hq]
    simp only [Bool.or_eq_true, Bool.not_eq_true', not_or, Bool.not_eq_false, Bool.not_eq_true] at hq
    obtain ⟨hp, hres⟩ := hq
    cases n with
    | nil => exact absurd rfl hn
    | cons c t =>
      simp only [isPlainIdent, Bool.and_eq_true, List.all_eq_true] at hp
      obtain ⟨hc, ht⟩ := hp
      have hfold : fold (c :: t) = c :: t := by
        unfold fold
        apply map_id_of_forall
        intro d hd
        cases hd with
        | head => exact ((plain_facts c).1 hc).2
        | tail _ h => exact ((plain_facts d).2 (ht d h)).2.1
      have hlow : asciiLower (c :: t) = c :: t := by
        unfold asciiLower
        apply map_id_of_forall
        intro d hd
        cases hd with
        | head => exact ((plain_facts c).2 (by simp [isPlainCont, hc])).2.2
        | tail _ h => exact ((plain_facts d).2 (ht d h)).2.2
      refine ⟨?_, ?_⟩
      · have := next0_word c t rest ((plain_facts c).1 hc).1 (fun d hd => ((plain_facts d).2 (ht d hd)).1)
          (fun d hd => ⟨(hb d hd).1, (hb d hd).2.1, (hb d hd).2.2.1⟩)
        rw [hfold] at this
        exact this
      · simp only [Spec.SqlExport.isName, beq_self_eq_true, Bool.true_and, Bool.not_eq_true', List.contains_eq_mem,
          decide_eq_false_iff_not]
        intro hm
        have := mustQuote_subset _ hm
        simp [isReservedWord, hlow, this] at hres

theorem next0_quoteIdent (n rest : Bytes) (hn : n ≠ []) (hb : IdentBoundary rest) :
    ∃ tok, next0 (quoteIdent n ++ rest) = some (some tok, rest) ∧ Spec.SqlExport.isName n tok = true :=
  ⟨identTok n, next0_quoteIdent' n rest hn hb⟩

/-! ### comments -/

theorem next0_comment (text rest : Bytes) (ht : ∀ c ∈ text, isNewline c = false)
    (hr : ∀ c, rest.head? = some c → isNewline c = true) :
    next0 (45 :: 45 :: text ++ rest) = some (some (.comment text), rest) := by
  have h45 : isSpace 45 = false := by decide
  have hs : spanB (fun b => !isNewline b) (text ++ rest) = (text, rest) :=
    spanB_all _ text rest (fun c hc => by simp [ht c hc]) (fun c hc => by simp [hr c hc])
  simp [next0, h45, hs]

theorem commentText_cons (c : UInt8) (s : Bytes) : commentText (c :: s) = commentByte c ++ commentText s := by
  simp [commentText]

/-- no line break survives commentText -/
theorem commentText_noNewline (s : Bytes) : ∀ c ∈ commentText s, isNewline c = false := by
  induction s with
  | nil => simp [commentText]
  | cons d s ih =>
    rw [commentText_cons]
    intro c hc
    rw [List.mem_append] at hc
    cases hc with
    | inr h => exact ih c h
    | inl h =>
      unfold commentByte at h
      split at h
      · simp at h; subst h; decide
      · split at h
        · simp at h; rcases h with h | h <;> subst h <;> decide
        · split at h
          · simp at h; rcases h with h | h <;> subst h <;> decide
          · simp at h; subst h
            rename_i h1 h2 h3
            simp [isNewline, h2, h3]

/-- the comment convention is reversible -/
theorem commentDecode_commentText (s : Bytes) : Spec.SqlExport.commentDecode (commentText s) = some s := by
  induction s with
  | nil => simp [commentText, Spec.SqlExport.commentDecode]
  | cons c s ih =>
    rw [commentText_cons]
    unfold commentByte
    by_cases h1 : c = 92
    · subst h1; simp [Spec.SqlExport.commentDecode, ih]
    · by_cases h2 : c = 10
      · subst h2; simp [Spec.SqlExport.commentDecode, ih]
      · by_cases h3 : c = 13
        · subst h3; simp [Spec.SqlExport.commentDecode, ih]
        · simp only [h1, h2, h3, if_false, List.cons_append, List.nil_append]
          cases h : commentText s with
          | nil => rw [h] at ih; simp [Spec.SqlExport.commentDecode] at ih ⊢; simp [h1, ih]
          | cons c2 t =>
            rw [Spec.SqlExport.commentDecode]
            simp only [h1, if_false]
            rw [← h, ih]; rfl

theorem isNameComment_ok (pre name suf : Bytes) :
    Spec.SqlExport.isNameComment pre name suf (.comment (pre ++ commentText name ++ suf)) = true := by
  simp only [Spec.SqlExport.isNameComment, Bool.and_eq_true, decide_eq_true_eq, beq_iff_eq]
  refine ⟨⟨⟨by simp only [List.length_append]; omega, by simp⟩, ?_⟩, ?_⟩
  · have : (pre ++ commentText name ++ suf).length - suf.length = (pre ++ commentText name).length := by
      simp only [List.length_append]; omega
    rw [this, List.drop_left' rfl]
  · have : (pre ++ commentText name ++ suf).length - pre.length - suf.length = (commentText name).length := by
      simp only [List.length_append]; omega
    rw [this, List.append_assoc, List.drop_left' rfl, List.take_left' rfl]
    exact commentDecode_commentText name

/-! ### NUL: `next` is `next0` on tokens whose bytes hold no NUL -/

theorem next_of_next0 (text rest : Bytes) (tok : Option Tok) (h : next0 (text ++ rest) = some (tok, rest)) (h0 : (0 : UInt8) ∉ text) :
    next (text ++ rest) = some (tok, rest) := by
  have ht : (text ++ rest).take ((text ++ rest).length - rest.length) = text := by
    rw [List.length_append, Nat.add_sub_cancel, List.take_left' rfl]
  unfold next
  rw [h]
  simp [h0]

theorem next_none_of_next0 (bs : Bytes) (h : next0 bs = none) : next bs = none := by
  unfold next; rw [h]

/-- a step that consumed a NUL is refused, whatever `next0` made of it -/
theorem next_nul (text rest : Bytes) (tok : Option Tok) (h : next0 (text ++ rest) = some (tok, rest)) (h0 : (0 : UInt8) ∈ text) :
    next (text ++ rest) = none := by
  have ht : (text ++ rest).take ((text ++ rest).length - rest.length) = text := by
    rw [List.length_append, Nat.add_sub_cancel, List.take_left' rfl]
  unfold next
  rw [h]
  simp [h0]

theorem cstr_noNul (s : Bytes) : (0 : UInt8) ∉ cstr s := by
  unfold cstr
  induction s with
  | nil => simp
  | cons c s ih =>
    by_cases hc : c = 0
    · simp [List.takeWhile, hc]
    · have : (c != 0) = true := by simpa using hc
      simp only [List.takeWhile, this, List.mem_cons, not_or]
      exact ⟨fun e => hc e.symm, ih⟩

theorem cstr_of_noNul (s : Bytes) (h : (0 : UInt8) ∉ s) : cstr s = s := by
  unfold cstr
  induction s with
  | nil => rfl
  | cons c s ih =>
    simp only [List.mem_cons, not_or] at h
    have : (c != 0) = true := by simpa using fun e : c = 0 => h.1 e.symm
    simp only [List.takeWhile, this]
    rw [ih h.2]

theorem flatMap_noNul (f : UInt8 → Bytes) (s : Bytes) (hs : (0 : UInt8) ∉ s) (hf : ∀ c, c ≠ 0 → (0 : UInt8) ∉ f c) :
    (0 : UInt8) ∉ s.flatMap f := by
  intro h
  rw [List.mem_flatMap] at h
  obtain ⟨c, hc, h0⟩ := h
  exact hf c (fun e => hs (e ▸ hc)) h0

theorem escapeQ_noNul (q : UInt8) (hq : q ≠ 0) (s : Bytes) (hs : (0 : UInt8) ∉ s) : (0 : UInt8) ∉ escapeQ q s := by
  apply flatMap_noNul _ s hs
  intro c hc h
  unfold escapeByte at h
  split at h
  · simp at h; exact hq h.symm
  · simp at h; exact hc h.symm

theorem quoteLit_noNul (s : Bytes) (hs : (0 : UInt8) ∉ s) : (0 : UInt8) ∉ quoteLit s := by
  unfold quoteLit
  split
  · intro h
    simp only [List.mem_cons, List.mem_append, List.not_mem_nil, or_false] at h
    rcases h with h | h | h | h
    · exact absurd h (by decide)
    · exact absurd h (by decide)
    · revert h
      apply flatMap_noNul _ s hs
      intro c hc h
      unfold escapeEByte at h
      split at h
      · simp at h
      · split at h
        · simp at h
        · simp at h; exact hc h.symm
    · exact absurd h (by decide)
  · intro h
    simp only [List.mem_cons, List.mem_append, List.not_mem_nil, or_false] at h
    rcases h with h | h | h
    · exact absurd h (by decide)
    · exact escapeQ_noNul 39 (by decide) s hs h
    · exact absurd h (by decide)

theorem quoteLiteral_noNul (s : Bytes) : (0 : UInt8) ∉ quoteLiteral s := by
  rw [quoteLiteral_eq]; exact quoteLit_noNul _ (cstr_noNul s)

/-- quoteLiteral: ONE string constant whose value is the string up to its first NUL -/
theorem next_quoteLiteral (s rest : Bytes) (hb : StrBoundary rest) :
    next (quoteLiteral s ++ rest) = some (some (.str (cstr s)), rest) := by
  apply next_of_next0 _ _ _ _ (quoteLiteral_noNul s)
  rw [quoteLiteral_eq]
  exact next0_quoteLit (cstr s) rest hb

theorem quoteIdent_noNul (n : Bytes) (h0 : (0 : UInt8) ∉ n) : (0 : UInt8) ∉ quoteIdent n := by
  unfold quoteIdent
  split
  · intro h
    simp only [List.mem_cons, List.mem_append, List.not_mem_nil, or_false] at h
    rcases h with h | h | h
    · exact absurd h (by decide)
    · exact escapeQ_noNul 34 (by decide) n h0 h
    · exact absurd h (by decide)
  · exact h0

theorem next_quoteIdent' (n rest : Bytes) (hn : n ≠ []) (h0 : (0 : UInt8) ∉ n) (hb : IdentBoundary rest) :
    next (quoteIdent n ++ rest) = some (some (identTok n), rest) ∧ Spec.SqlExport.isName n (identTok n) = true :=
  ⟨next_of_next0 _ _ _ (next0_quoteIdent' n rest hn hb).1 (quoteIdent_noNul n h0), (next0_quoteIdent' n rest hn hb).2⟩

theorem next_quoteIdent (n rest : Bytes) (hn : n ≠ []) (h0 : (0 : UInt8) ∉ n) (hb : IdentBoundary rest) :
    ∃ tok, next (quoteIdent n ++ rest) = some (some tok, rest) ∧ Spec.SqlExport.isName n tok = true :=
  ⟨identTok n, next_quoteIdent' n rest hn h0 hb⟩

theorem commentText_noNul (s : Bytes) (hs : (0 : UInt8) ∉ s) : (0 : UInt8) ∉ commentText s := by
  unfold commentText
  apply flatMap_noNul _ s hs
  intro c hc h
  unfold commentByte at h
  split at h
  · simp at h
  · split at h
    · simp at h
    · split at h
      · simp at h
      · simp at h; exact hc h.symm

theorem next_comment (text rest : Bytes) (ht : ∀ c ∈ text, isNewline c = false) (h0 : (0 : UInt8) ∉ text)
    (hr : ∀ c, rest.head? = some c → isNewline c = true) :
    next (45 :: 45 :: text ++ rest) = some (some (.comment text), rest) := by
  have := next0_comment text rest ht hr
  apply next_of_next0 _ _ _ this
  intro h
  simp only [List.mem_cons] at h
  rcases h with h | h | h
  · exact absurd h (by decide)
  · exact absurd h (by decide)
  · exact h0 h

theorem identCont_ne_zero (c : UInt8) (h : isIdentCont c = true) : c ≠ 0 := by
  byte_omega

theorem next_word (c : UInt8) (w rest : Bytes) (hc : isIdentStart c = true) (hw : ∀ d ∈ w, isIdentCont d = true)
    (hb : WordBoundary rest) :
    next (c :: w ++ rest) = some (some (.word (fold (c :: w))), rest) := by
  apply next_of_next0 _ _ _ (next0_word c w rest hc hw hb)
  intro h
  simp only [List.mem_cons] at h
  rcases h with h | h
  · exact identCont_ne_zero c (identStart_facts c hc).2.2.2.2.2.2.2.2 h.symm
  · exact identCont_ne_zero 0 (hw 0 h) rfl

end PgVerif.Proofs.SqlLex
