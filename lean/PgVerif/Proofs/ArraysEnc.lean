/-
  Helper lemmas for C07: the array model on PostgreSQL's encoding (Spec/Arrays.lean).
-/
import PgVerif.Proofs.Arrays
import PgVerif.Spec.Arrays
import PgVerif.Proofs.ArraysBitmap
namespace PgVerif.Proofs.Arrays
open PgVerif PgVerif.Model.Arrays PgVerif.Spec.Arrays

/-! ### alignment -/

def Pow2Align (a : Nat) : Prop := a = 1 ∨ a = 2 ∨ a = 4 ∨ a = 8

/-- binary.go:align (`&^` form) is rounding up, for the four alignments PostgreSQL has -/
theorem alignGo_eq (x a : Nat) (ha : Pow2Align a) : alignGo x a = alignUp x a := by
  rcases ha with h | h | h | h <;> subst h
  · simp [alignGo, alignUp]
  · have := andNot_mask (x + 2 - 1) 1; simpa [alignGo, alignUp] using this
  · have := andNot_mask (x + 4 - 1) 2; simpa [alignGo, alignUp] using this
  · have := andNot_mask (x + 8 - 1) 3; simpa [alignGo, alignUp] using this

theorem alignUp_of_mod (x a : Nat) (ha : Pow2Align a) (h : x % a = 0) : alignUp x a = x := by
  rcases ha with h' | h' | h' | h' <;> subst h' <;> unfold alignUp <;> omega

theorem alignUp_mod (x a : Nat) (ha : Pow2Align a) : alignUp x a % a = 0 := by
  rcases ha with h' | h' | h' | h' <;> subst h' <;> unfold alignUp <;> omega

theorem alignUp_ge (x a : Nat) (ha : Pow2Align a) : x ≤ alignUp x a := by
  rcases ha with h' | h' | h' | h' <;> subst h' <;> unfold alignUp <;> omega

theorem mod_of_mod8 (x a : Nat) (ha : Pow2Align a) (h : x % 8 = 0) : x % a = 0 := by
  rcases ha with h' | h' | h' | h' <;> subst h' <;> omega

/-! ### int32 -/

theorem toSigned32_small (v : Nat) (h : v < 2 ^ 31) : toSigned 32 v = (v : Int) := by
  unfold toSigned; rw [if_pos (by simpa using h)]

theorem wrap32_small (x : Nat) (h : x < 2 ^ 31) : wrap32 (x : Int) = (x : Int) := by
  unfold wrap32 ofSigned
  have h1 : ((x : Int) % ((2 ^ 32 : Nat) : Int)).toNat = x := by
    have : ((2 ^ 32 : Nat) : Int) = 4294967296 := by decide
    rw [this]; omega
  rw [h1]; exact toSigned32_small x h

/-! ### reading inside an encoding -/

theorem i32At_append (pre rest : Bytes) (v k : Nat) (hk : k = pre.length) (hv : v < 2 ^ 31) :
    i32At (pre ++ (le 4 v ++ rest)) k = .ok (v : Int) := by
  rw [i32At_ok _ _ (by simp; omega)]
  have : rd 4 ((pre ++ (le 4 v ++ rest)).drop k) = v := by
    have := rdAt_append' 4 v k pre rest hk (by omega)
    simpa [rdAt] using this
  rw [this, toSigned32_small v hv]

theorem slice_mid (pre mid rest : Bytes) (k m : Nat) (hk : k = pre.length) (hm : m = k + mid.length) :
    slice (pre ++ (mid ++ rest)) k m = .ok mid := by
  subst hk; subst hm
  rw [slice_ok _ _ _ (by simp) (by omega)]
  congr 1
  rw [← List.append_assoc, List.take_left' (by simp), List.drop_left' rfl]

/-! ### the dimensions -/

theorem prod_pos (ds : List Nat) (h : ∀ d ∈ ds, 1 ≤ d) : 1 ≤ prod ds := by
  induction ds with
  | nil => simp [prod]
  | cons d ds ih =>
    simp only [prod]
    have h1 := h d (by simp)
    have h2 := ih (fun x hx => h x (by simp [hx]))
    exact Nat.mul_le_mul h1 h2

theorem encDims_length (ds : List Nat) : (encDims ds).length = 4 * ds.length := by
  induction ds with
  | nil => rfl
  | cons d ds ih => simp only [encDims, List.flatMap_cons, List.length_append, le_length] at *; rw [ih]; simp; omega

theorem encLbounds_length (ls : List Int) : (encLbounds ls).length = 4 * ls.length := by
  induction ls with
  | nil => rfl
  | cons d ds ih => simp only [encLbounds, List.flatMap_cons, List.length_append, le_length] at *; rw [ih]; simp; omega

/-- the product loop on the stored dimensions: no wrap-around happens, because every partial product is bounded by
the total element count -/
theorem dimsProduct_enc (ds : List Nat) (pre rest : Bytes) (i total : Nat) (hpre : pre.length = 12 + i * 4)
    (hds : ∀ d ∈ ds, 1 ≤ d) (ht : 1 ≤ total) (hb : total * prod ds < 2 ^ 31) :
    dimsProduct (pre ++ (encDims ds ++ rest)) ds.length i (total : Int) = .ok ((total * prod ds : Nat) : Int) := by
  induction ds generalizing pre i total with
  | nil => simp [dimsProduct, prod]
  | cons d ds ih =>
    have hd : 1 ≤ d := hds d (by simp)
    have hp : 1 ≤ prod ds := prod_pos ds (fun x hx => hds x (by simp [hx]))
    simp only [prod] at hb
    have hdp : d ≤ d * prod ds := Nat.le_mul_of_pos_right d hp
    have htd : total * d ≤ total * (d * prod ds) := Nat.mul_le_mul_left total hdp
    have hdt : d ≤ total * d := Nat.le_mul_of_pos_left d ht
    simp only [List.length_cons, dimsProduct, encDims, List.flatMap_cons, List.append_assoc]
    rw [i32At_append pre _ d (12 + i * 4) hpre.symm (by omega)]
    simp only [ok_bind]
    have hw : wrap32 ((total : Int) * (d : Int)) = ((total * d : Nat) : Int) := by
      rw [← Int.natCast_mul]; exact wrap32_small (total * d) (by omega)
    rw [hw]
    have := ih (pre ++ le 4 d) (i + 1) (total * d) (by simp; omega) (fun x hx => hds x (by simp [hx]))
      (Nat.le_trans ht (Nat.le_mul_of_pos_right total hd)) (by rw [Nat.mul_assoc]; exact hb)
    simp only [encDims, List.append_assoc] at this
    rw [this, prod, Nat.mul_assoc]

/-! ### one stored element -/

theorem idx_append (pre tl : Bytes) (b : UInt8) (k : Nat) (hk : k = pre.length) :
    idx (pre ++ (b :: tl)) k = .ok b := by
  subst hk
  unfold idx
  simp

theorem readElem_fixed (dec : Dec) (bs pre rest : Bytes) (eo : Nat) :
    readElem dec (pre ++ (bs ++ rest)) eo bs.length true pre.length
      = (do let v ← dec bs eo; pure (some (v, pre.length + bs.length))) := by
  unfold readElem
  rw [if_pos rfl, if_neg (by simp), slice_mid pre bs rest pre.length (pre.length + bs.length) rfl rfl]
  rfl

/-- a varlena element with a 1-byte header, stated on the facts about `raw` that matter -/
theorem readElem_short' (dec : Dec) (raw p : Bytes) (b : UInt8) (eo el k : Nat)
    (hb : b.toNat = (p.length + 1) * 2 + 1) (hlen : k + (p.length + 1) ≤ raw.length)
    (hidx : idx raw k = .ok b) (hs : slice raw (k + 1) (k + (p.length + 1)) = .ok p) :
    readElem dec raw eo el false k = (do let v ← decodeVarlenaElem dec p eo; pure (some (v, k + (p.length + 1)))) := by
  unfold readElem
  rw [if_neg Bool.false_ne_true, if_neg (by omega), hidx]
  simp only [ok_bind, hb]
  have hn : ((p.length + 1) * 2 + 1) / 2 = p.length + 1 := by omega
  rw [if_pos (by omega), hn, if_neg (by omega), hs]
  rfl

theorem readElem_short (dec : Dec) (p pre rest : Bytes) (eo el : Nat) (hp : p.length ≤ 126) :
    readElem dec (pre ++ ((Datum.short p).enc ++ rest)) eo el false pre.length
      = (do let v ← decodeVarlenaElem dec p eo; pure (some (v, pre.length + (Datum.short p).enc.length))) := by
  have hb : (UInt8.ofNat ((p.length + 1) * 2 + 1)).toNat = (p.length + 1) * 2 + 1 := by
    simp [UInt8.toNat_ofNat']; omega
  have hl : (Datum.short p).enc.length = p.length + 1 := by simp [Datum.enc]
  rw [hl]
  apply readElem_short' dec _ p (UInt8.ofNat ((p.length + 1) * 2 + 1)) eo el pre.length hb
  · simp [Datum.enc]
  · simp only [Datum.enc, List.cons_append]; exact idx_append pre _ _ pre.length rfl
  · have : pre ++ ((Datum.short p).enc ++ rest) = (pre ++ [UInt8.ofNat ((p.length + 1) * 2 + 1)]) ++ (p ++ rest) := by
      simp [Datum.enc]
    rw [this]
    exact slice_mid _ p rest _ _ (by simp) (by omega)

theorem le4_head (v : Nat) : le 4 v = UInt8.ofNat (v % 256) :: le 3 (v / 256) := rfl

/-- a varlena element with a 4-byte header, stated on the facts about `raw` that matter -/
theorem readElem_long' (dec : Dec) (raw p : Bytes) (b : UInt8) (eo el k : Nat)
    (hb : b.toNat % 2 = 0) (hlen : k + (p.length + 4) ≤ raw.length)
    (hidx : idx raw k = .ok b) (hw : rd 4 (raw.drop k) = (p.length + 4) * 4)
    (hs : slice raw (k + 4) (k + (p.length + 4)) = .ok p) :
    readElem dec raw eo el false k = (do let v ← decodeVarlenaElem dec p eo; pure (some (v, k + (p.length + 4)))) := by
  unfold readElem
  rw [if_neg Bool.false_ne_true, if_neg (by omega), hidx]
  simp only [ok_bind]
  rw [if_neg (by omega), if_neg (by omega), uN_ok 4 raw k (by omega)]
  simp only [ok_bind, hw]
  have hn : (p.length + 4) * 4 / 4 = p.length + 4 := by omega
  rw [hn, if_neg (by omega), hs]
  rfl

theorem readElem_long (dec : Dec) (p pre rest : Bytes) (eo el : Nat) (hp : p.length + 4 < 2 ^ 30) :
    readElem dec (pre ++ ((Datum.long p).enc ++ rest)) eo el false pre.length
      = (do let v ← decodeVarlenaElem dec p eo; pure (some (v, pre.length + (Datum.long p).enc.length))) := by
  have hb : (UInt8.ofNat ((p.length + 4) * 4 % 256)).toNat % 2 = 0 := by
    simp [UInt8.toNat_ofNat']; omega
  have hl : (Datum.long p).enc.length = p.length + 4 := by simp [Datum.enc]; omega
  rw [hl]
  apply readElem_long' dec _ p (UInt8.ofNat ((p.length + 4) * 4 % 256)) eo el pre.length hb
  · simp [Datum.enc]; omega
  · simp only [Datum.enc, List.append_assoc]; rw [le4_head]; exact idx_append pre _ _ pre.length rfl
  · have := rdAt_append' 4 ((p.length + 4) * 4) pre.length pre (p ++ rest) rfl (by omega)
    simpa [rdAt, Datum.enc] using this
  · have : pre ++ ((Datum.long p).enc ++ rest) = (pre ++ le 4 ((p.length + 4) * 4)) ++ (p ++ rest) := by
      simp [Datum.enc]
    rw [this]
    exact slice_mid _ p rest _ _ (by simp) (by omega)

/-- the code's rule for an empty varlena element is the Spec's, for every element type but xml (oid 142): the code also
maps an empty xml element to the empty string, but xml is the element type of no array type of the table (xml[] is not
supported), so the Spec — written from the table's types — says nothing special about it -/
theorem decodeVarlenaElem_view (dec : Dec) (p : Bytes) (eo : Nat) (heo : eo ≠ 142) :
    decodeVarlenaElem dec p eo = elemView dec eo (.short p) ∧ decodeVarlenaElem dec p eo = elemView dec eo (.long p) := by
  unfold decodeVarlenaElem
  by_cases hp : p.length = 0
  · by_cases h1 : eo = 25 ∨ eo = 1043 ∨ eo = 1042
    · have h1' : eo = 25 ∨ eo = 1043 ∨ eo = 1042 ∨ eo = 142 := by omega
      simp [elemView, emptyValue, hp, h1, h1']
    · have h1' : ¬ (eo = 25 ∨ eo = 1043 ∨ eo = 1042 ∨ eo = 142) := by omega
      by_cases h2 : eo = 17
      · simp [elemView, emptyValue, hp, h2]
      · simp [elemView, emptyValue, hp, h1, h1', h2]
  · simp [elemView, hp]

/-- one stored element of a well-formed array, whatever its form -/
theorem readElem_enc (dec : Dec) (t : ElemType) (d : Datum) (hd : d.WF t) (pre rest : Bytes) (eo : Nat) (heo : eo ≠ 142) :
    readElem dec (pre ++ (d.enc ++ rest)) eo (if t.typlen > 0 then t.typlen.toNat else 0) (decide (t.typlen > 0)) pre.length
      = (do let v ← elemView dec eo d; pure (some (v, pre.length + d.enc.length))) := by
  cases d with
  | fixed bs =>
    obtain ⟨h1, h2⟩ := hd
    have hl : (if t.typlen > 0 then t.typlen.toNat else 0) = bs.length := by rw [if_pos h1]; omega
    rw [hl, decide_eq_true h1]
    exact readElem_fixed dec bs pre rest eo
  | short p =>
    obtain ⟨h1, h2⟩ := hd
    have : decide (t.typlen > 0) = false := by rw [h1]; decide
    rw [this, ← (decodeVarlenaElem_view dec p eo heo).1]
    exact readElem_short dec p pre rest eo _ h2
  | long p =>
    obtain ⟨h1, h2⟩ := hd
    have : decide (t.typlen > 0) = false := by rw [h1]; decide
    rw [this, ← (decodeVarlenaElem_view dec p eo heo).2]
    exact readElem_long dec p pre rest eo _ h2

/-! ### the element loop -/

/-- The offset invariant of the element loop, in varlena-relative coordinates (`abs = raw + 4`): when the loop stands
before the elements `es`, whose encoding begins at the aligned position `pre.length + 4`, with an offset that aligns to
that position, it returns exactly the view of `es`. -/
theorem parseElems_enc (dec : Dec) (t : ElemType) (al : Nat) (hal : Pow2Align al) (eo : Nat) (heo : eo ≠ 142) (nulls : Option Bytes)
    (es : List (Option Datum)) (pre : Bytes) (i off : Nat)
    (hwf : ∀ e ∈ es, ∀ d, e = some d → d.WF t)
    (hoff : alignRel off al = pre.length)
    (hpre : (pre.length + 4) % al = 0)
    (hnull : ∀ j e, es[j]? = some e → nullAt nulls (i + j) = .ok e.isNone) :
    parseElems dec (pre ++ encElems al es (pre.length + 4)) eo (if t.typlen > 0 then t.typlen.toNat else 0) al
        (decide (t.typlen > 0)) nulls es.length i off
      = viewElems dec eo es := by
  induction es generalizing pre i off with
  | nil => rfl
  | cons e es ih =>
    have hn0 := hnull 0 e (by simp)
    have hnext : ∀ j e', es[j]? = some e' → nullAt nulls (i + 1 + j) = .ok e'.isNone := fun j e' hj => by
      have := hnull (j + 1) e' (by simpa using hj)
      have h2 : i + (j + 1) = i + 1 + j := by omega
      rw [h2] at this; exact this
    have hwf' : ∀ e' ∈ es, ∀ d, e' = some d → d.WF t := fun e' he' d hd => hwf e' (by simp [he']) d hd
    simp only [List.length_cons, parseElems]
    rw [Nat.add_zero] at hn0
    rw [hn0]
    cases e with
    | none =>
      simp only [ok_bind, Option.isNone_none, if_true, encElems, viewElems]
      rw [ih pre (i + 1) off hwf' hoff hpre hnext]
    | some d =>
      have hd : d.WF t := hwf (some d) (by simp) d rfl
      simp only [ok_bind, Option.isNone_some, Bool.false_eq_true, if_false, encElems, viewElems]
      rw [hoff, readElem_enc dec t d hd pre _ eo heo]
      cases hdec : elemView dec eo d with
      | error err => rfl
      | ok v =>
        simp only [ok_bind, pure_eq_ok]
        -- the next aligned position
        have hge := alignUp_ge (pre.length + 4 + d.enc.length) al hal
        have hmod := alignUp_mod (pre.length + 4 + d.enc.length) al hal
        have hlen : (pre ++ (d.enc ++ zeros (alignUp (pre.length + 4 + d.enc.length) al - (pre.length + 4 + d.enc.length)))).length + 4
            = alignUp (pre.length + 4 + d.enc.length) al := by
          simp only [List.length_append, zeros_length]; omega
        have hraw : pre ++ (d.enc ++ (zeros (alignUp (pre.length + 4 + d.enc.length) al - (pre.length + 4 + d.enc.length)) ++
              encElems al es (alignUp (pre.length + 4 + d.enc.length) al)))
            = (pre ++ (d.enc ++ zeros (alignUp (pre.length + 4 + d.enc.length) al - (pre.length + 4 + d.enc.length)))) ++
              encElems al es ((pre ++ (d.enc ++ zeros (alignUp (pre.length + 4 + d.enc.length) al - (pre.length + 4 + d.enc.length)))).length + 4) := by
          rw [hlen]; simp only [List.append_assoc]
        rw [hraw]
        have hoff' : alignRel (pre.length + d.enc.length) al
            = (pre ++ (d.enc ++ zeros (alignUp (pre.length + 4 + d.enc.length) al - (pre.length + 4 + d.enc.length)))).length := by
          unfold alignRel
          rw [alignGo_eq _ _ hal]
          have : pre.length + d.enc.length + 4 = pre.length + 4 + d.enc.length := by omega
          rw [this]; omega
        rw [ih _ (i + 1) (pre.length + d.enc.length) hwf' hoff' (by rw [hlen]; exact hmod) hnext]

/-! ### the whole value -/

instance (a : Nat) : Decidable (Pow2Align a) := by unfold Pow2Align; exact inferInstance

theorem spec_align : ∀ t ∈ pgArrayTypes, Pow2Align t.typalign := by decide

theorem encArray_length (a : PgArray) (hlb : a.lbounds.length = a.dims.length) :
    (encArray a).length = 12 + 8 * a.ndim + a.bitmapPart.length + (encElems a.et.typalign a.elems a.dataStart).length := by
  simp only [encArray, List.length_append, le_length, encDims_length, encLbounds_length, hlb, PgArray.ndim]
  omega

theorem decodeArray_empty (dec : Dec) (a : PgArray) (hd : a.dims = []) (hl : a.lbounds = []) (he : a.elems = [])
    (hb : a.bitmap = false) (eo : Nat) :
    decodeArray dec (encArray a) eo = .ok (.arr []) := by
  have hraw : encArray a = [] ++ (le 4 0 ++ (le 4 0 ++ le 4 a.et.typOid)) := by
    simp [encArray, PgArray.ndim, PgArray.dataoffset, PgArray.hasNulls, PgArray.bitmapPart, hd, hl, he, hb, encDims, encLbounds, encElems]
  unfold decodeArray isEmptyArray
  rw [hraw, if_pos (by simp), i32At_append [] _ 0 0 rfl (by decide)]
  rfl


/-- everything before the element data -/
def hdrPart (a : PgArray) : Bytes :=
  le 4 a.ndim ++ (le 4 a.dataoffset ++ (le 4 a.et.typOid ++ (encDims a.dims ++ (encLbounds a.lbounds ++ a.bitmapPart))))

theorem encArray_split (a : PgArray) : encArray a = hdrPart a ++ encElems a.et.typalign a.elems a.dataStart := by
  simp [encArray, hdrPart]

theorem dataStart_ge (a : PgArray) : 16 + 8 * a.ndim + (if a.hasNulls then (a.elems.length + 7) / 8 else 0) ≤ a.dataStart := by
  unfold PgArray.dataStart
  cases a.hasNulls
  · simp
  · simp only [if_true]; unfold alignUp; omega

theorem dataStart_mod8 (a : PgArray) : a.dataStart % 8 = 0 := by
  unfold PgArray.dataStart
  cases a.hasNulls
  · simp <;> omega
  · simp only [if_true]; unfold alignUp; omega

theorem hdrPart_length (a : PgArray) (hlb : a.lbounds.length = a.dims.length) : (hdrPart a).length + 4 = a.dataStart := by
  have hge := dataStart_ge a
  have hds : a.dataStart = if a.hasNulls then alignUp (16 + 8 * a.ndim + (a.elems.length + 7) / 8) 8 else 16 + 8 * a.ndim := rfl
  simp only [hdrPart, List.length_append, le_length, encDims_length, encLbounds_length, hlb, PgArray.bitmapPart]
  cases hN : a.hasNulls
  · rw [hN] at hds hge
    simp only [Bool.false_eq_true, if_false, List.length_nil, PgArray.ndim] at *
    omega
  · rw [hN] at hge
    simp only [if_true, List.length_append, encBitmap_length, zeros_length, PgArray.present, List.length_map, PgArray.ndim] at *
    omega

theorem enc_ndim (a : PgArray) (h6 : a.dims.length ≤ 6) : i32At (encArray a) 0 = .ok (a.dims.length : Int) := by
  have := i32At_append [] (le 4 a.dataoffset ++ (le 4 a.et.typOid ++
    (encDims a.dims ++ (encLbounds a.lbounds ++ (a.bitmapPart ++ encElems a.et.typalign a.elems a.dataStart))))) a.dims.length 0 rfl (by omega)
  simpa [encArray, PgArray.ndim] using this

theorem enc_dataoff (a : PgArray) (h : a.dataoffset < 2 ^ 31) : i32At (encArray a) 4 = .ok (a.dataoffset : Int) := by
  unfold encArray
  exact i32At_append (le 4 a.ndim) _ a.dataoffset 4 (by simp) h

theorem enc_dims (a : PgArray) (hds : ∀ d ∈ a.dims, 1 ≤ d) (hb : prod a.dims < 2 ^ 31) :
    dimsProduct (encArray a) a.dims.length 0 1 = .ok ((prod a.dims : Nat) : Int) := by
  have := dimsProduct_enc a.dims (le 4 a.ndim ++ (le 4 a.dataoffset ++ le 4 a.et.typOid))
    (encLbounds a.lbounds ++ (a.bitmapPart ++ encElems a.et.typalign a.elems a.dataStart)) 0 1 (by simp) hds (by omega) (by omega)
  simpa [encArray] using this


theorem any_isNone_false (es : List (Option Datum)) (h : es.any Option.isNone = false) (j : Nat) (e : Option Datum)
    (hj : es[j]? = some e) : e.isNone = false := by
  have hm : e ∈ es := List.mem_of_getElem? hj
  cases he : e.isNone with
  | false => rfl
  | true =>
    have : es.any Option.isNone = true := List.any_eq_true.mpr ⟨e, hm, he⟩
    rw [h] at this; cases this

theorem bitmap_slice (a : PgArray) (hlb : a.lbounds.length = a.dims.length) (hN : a.hasNulls = true) :
    slice (encArray a) (12 + a.dims.length * 8) (12 + a.dims.length * 8 + (a.elems.length + 7) / 8) = .ok (encBitmap a.present) := by
  have : encArray a = (le 4 a.ndim ++ (le 4 a.dataoffset ++ (le 4 a.et.typOid ++ (encDims a.dims ++ encLbounds a.lbounds)))) ++
      (encBitmap a.present ++ (zeros (a.dataStart - (16 + 8 * a.ndim + (a.elems.length + 7) / 8)) ++ encElems a.et.typalign a.elems a.dataStart)) := by
    simp [encArray, PgArray.bitmapPart, hN]
  rw [this]
  apply slice_mid
  · simp [encDims_length, encLbounds_length, hlb]; omega
  · simp [PgArray.present]

theorem decodeArray_nonempty (dec : Dec) (a : PgArray) (eo : Nat) (heo : eo ≠ 142)
    (hne : a.dims ≠ []) (h6 : a.dims.length ≤ 6) (hlb : a.lbounds.length = a.dims.length)
    (hds : ∀ d ∈ a.dims, 1 ≤ d) (hcount : a.elems.length = prod a.dims) (hmax : a.elems.length ≤ maxArraySize)
    (hwf : ∀ e ∈ a.elems, ∀ d, e = some d → d.WF a.et) (hal : Pow2Align a.et.typalign)
    (hlay : elemLayout eo = ((if a.et.typlen > 0 then a.et.typlen.toNat else 0), decide (a.et.typlen > 0), a.et.typalign)) :
    decodeArray dec (encArray a) eo = (do let es ← viewElems dec eo a.elems; pure (.arr es)) := by
  have hnd : 1 ≤ a.dims.length := by
    cases hd : a.dims with
    | nil => exact absurd hd hne
    | cons d ds => simp
  have hlen := encArray_length a hlb
  have hge := dataStart_ge a
  have hhdr := hdrPart_length a hlb
  have hsplit := encArray_split a
  have hlen2 : (encArray a).length = (hdrPart a).length + (encElems a.et.typalign a.elems a.dataStart).length := by
    rw [hsplit]; simp
  have hn1 : 1 ≤ a.elems.length := by rw [hcount]; exact prod_pos a.dims hds
  unfold maxArraySize at hmax
  have hdsU : a.dataStart ≤ 16 + 8 * a.ndim + (a.elems.length + 7) / 8 + 7 := by
    unfold PgArray.dataStart alignUp; split <;> omega
  unfold PgArray.ndim at *
  have hdoff : a.dataoffset < 2 ^ 31 := by unfold PgArray.dataoffset; split <;> omega
  have hlen12 : 12 + a.dims.length * 8 ≤ (encArray a).length := by omega
  -- isEmptyArray
  have hE : isEmptyArray (encArray a) = .ok false := by
    unfold isEmptyArray
    rw [if_pos (by omega), enc_ndim a h6]
    have : ((a.dims.length : Int) == 0) = false := by simp; omega
    simp only [ok_bind, pure_eq_ok, this]
  unfold decodeArray
  rw [hE]
  simp only [ok_bind, Bool.false_eq_true, if_false]
  rw [if_neg (by omega), enc_ndim a h6]
  simp only [ok_bind]
  rw [if_neg (by omega), Int.toNat_natCast]
  unfold decodeDims
  rw [if_neg (by omega), enc_dataoff a hdoff, enc_dims a hds (by omega)]
  simp only [ok_bind]
  rw [if_neg (by omega), Int.toNat_natCast, hlay, ← hcount]
  simp only []
  cases hN : a.hasNulls with
  | false =>
    have hdo : a.dataoffset = 0 := by unfold PgArray.dataoffset; rw [hN]; rfl
    have hst : a.dataStart = 16 + 8 * a.dims.length := by unfold PgArray.dataStart; rw [hN]; rfl
    rw [hdo, if_neg (by decide)]
    rw [hsplit, ← hhdr]
    rw [parseElems_enc dec a.et a.et.typalign hal eo heo none a.elems (hdrPart a) 0 (12 + a.dims.length * 8) hwf
      (by unfold alignRel; rw [alignGo_eq _ _ hal, alignUp_of_mod _ _ hal (mod_of_mod8 _ _ hal (by omega))]; omega)
      (mod_of_mod8 _ _ hal (by omega))
      (fun j e hj => by
        have hany : a.elems.any Option.isNone = false := by
          unfold PgArray.hasNulls at hN; rw [Bool.or_eq_false_iff] at hN; exact hN.2
        rw [nullAt_none, any_isNone_false a.elems hany j e hj])]
  | true =>
    have hdo : a.dataoffset = a.dataStart := by unfold PgArray.dataoffset; rw [hN]; rfl
    rw [hN] at hge
    simp only [if_true] at hge
    have hm8 := dataStart_mod8 a
    rw [hdo, if_pos (by omega), if_neg (by omega), bitmap_slice a hlb hN]
    simp only [ok_bind]
    rw [hsplit, ← hhdr]
    rw [parseElems_enc dec a.et a.et.typalign hal eo heo (some (encBitmap a.present)) a.elems (hdrPart a) 0 _ hwf
      (by unfold alignRel; rw [alignGo_eq _ _ hal, alignUp_of_mod _ _ hal (mod_of_mod8 _ _ hal (by omega))]; omega)
      (mod_of_mod8 _ _ hal (by omega))
      (fun j e hj => by
        have hjl : j < a.elems.length := by
          have := List.getElem?_eq_some_iff.mp hj; exact this.1
        rw [Nat.zero_add, nullAt_enc a.present j (by simp [PgArray.present]; exact hjl)]
        simp [PgArray.present, List.getD, hj])]


/-! ### the Spec's pg_type table against the model's tables -/

/-- what the model derives for an array type of the Spec's pg_type table: its element oid, and width / fixed /
alignment equal to typlen / typalign -/
theorem spec_layout : ∀ t ∈ pgArrayTypes,
    arrayElemTypes.lookup t.arrayOid = some t.decodeAs ∧
    elemLayout t.decodeAs = ((if t.typlen > 0 then t.typlen.toNat else 0), decide (t.typlen > 0), t.typalign) := by decide

/-- xml is the element type of no array type of the table -/
theorem spec_not_xml : ∀ t ∈ pgArrayTypes, t.decodeAs ≠ 142 := by decide

/-- the whole of DecodeType on the encoding of a well-formed array -/
theorem decodeType_enc (dec : Dec) (a : PgArray) (h : a.WF) :
    decodeType dec (encArray a) a.et.arrayOid = view dec a := by
  obtain ⟨het, h6, hlb, hds, _, hcnt, hmax, hwf⟩ := h
  obtain ⟨hlook, hlay⟩ := spec_layout a.et het
  have hal := spec_align a.et het
  have hlen := encArray_length a hlb
  unfold decodeType
  rw [if_neg (by omega), hlook]
  simp only []
  unfold view
  by_cases hd : a.dims = []
  · rw [if_pos hd] at hcnt
    have hl : a.lbounds = [] := List.eq_nil_of_length_eq_zero (by rw [hlb, hd]; rfl)
    rw [decodeArray_empty dec a hd hl hcnt.1 hcnt.2, hcnt.1]; rfl
  · rw [if_neg hd] at hcnt
    exact decodeArray_nonempty dec a a.et.decodeAs (spec_not_xml a.et het) hd h6 hlb hds hcnt hmax hwf hal hlay

end PgVerif.Proofs.Arrays
