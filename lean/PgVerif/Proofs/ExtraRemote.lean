/-
  Topic E9 — helper lemmas for the totality theorems of the state-passing RemoteClient models (`rc*`,
  Model/Remote.lean) and of Summary (Model/ExtraCluster.lean): every method returns for every cache state, and hands
  back a consistent cache when it was given one (`Props.C11.CacheOK`).  Property theorems are in Props/C10/Extra.lean.
-/
import PgVerif.Props.C10.Cluster
import PgVerif.Props.C10.Rows
import PgVerif.Props.C11
import PgVerif.Model.ExtraCluster
namespace PgVerif.Proofs.Extra
open PgVerif PgVerif.Model PgVerif.Props.C10.Cluster PgVerif.Props.C11

/-- the method, started with cache `c`, returns some `(result, cache')`, and `cache'` is consistent if `c` was -/
def RcOK (rr : RowReader) (fs : RemoteReader) {α} (c : Cache) (m : M (α × Cache)) : Prop :=
  ∃ r c', m = .ok (r, c') ∧ (CacheOK rr fs c → CacheOK rr fs c')

theorem rcOK_pure (rr : RowReader) (fs : RemoteReader) {α} (c : Cache) (a : α) : RcOK rr fs c (pure (a, c)) :=
  ⟨a, c, rfl, id⟩

theorem rcOK_bind (rr : RowReader) (fs : RemoteReader) {α β} (c : Cache) (m : M (α × Cache)) (f : α × Cache → M (β × Cache))
    (hm : RcOK rr fs c m) (hf : ∀ a c', RcOK rr fs c' (f (a, c'))) : RcOK rr fs c (m >>= f) := by
  obtain ⟨a, c', h, hc⟩ := hm
  obtain ⟨b, c'', h2, hc2⟩ := hf a c'
  exact ⟨b, c'', by rw [h, ok_bind, h2], fun h0 => hc2 (hc h0)⟩

/-- a step that does not touch the cache -/
theorem rcOK_bind_pure (rr : RowReader) (fs : RemoteReader) {α β} (c : Cache) (m : M α) (f : α → M (β × Cache))
    (hm : ∃ a, m = .ok a) (hf : ∀ a, RcOK rr fs c (f a)) : RcOK rr fs c (m >>= f) := by
  obtain ⟨a, h⟩ := hm
  rw [h, ok_bind]
  exact hf a

theorem rcDatabases_ok (rr : RowReader) (h : TotalReader rr) (fs : RemoteReader) (c : Cache) :
    RcOK rr fs c (rcDatabases rr fs c) := by
  have hret : ∃ p, rcDatabases rr fs c = .ok p := by
    unfold rcDatabases
    by_cases hc : c.databases ≠ []
    · rw [if_pos hc]; exact ⟨_, rfl⟩
    · rw [if_neg hc]
      obtain ⟨dbs, hd⟩ := C10_total_databasesCold rr h fs
      simp only [hd, ok_bind, pure_eq_ok]
      exact ⟨_, rfl⟩
  obtain ⟨⟨r, c'⟩, hp⟩ := hret
  exact ⟨r, c', hp, fun hc => (C11_no_hidden_state_databases rr fs c hc).2 r c' hp⟩

theorem rcCatalog_ok (rr : RowReader) (h : TotalReader rr) (fs : RemoteReader) (db : Nat) (c : Cache) :
    RcOK rr fs c (rcCatalog rr fs db c) := by
  have hret : ∃ p, rcCatalog rr fs db c = .ok p := by
    unfold rcCatalog
    cases c.tables.lookup db with
    | some t => exact ⟨_, rfl⟩
    | none =>
      simp only
      obtain ⟨r, hr⟩ := C10_total_catalogCold rr h fs db
      simp only [hr, ok_bind, pure_eq_ok]
      exact ⟨_, rfl⟩
  obtain ⟨⟨r, c'⟩, hp⟩ := hret
  exact ⟨r, c', hp, fun hc => (C11_no_hidden_state_catalog rr fs db c hc).2 r c' hp⟩

theorem rcDatabase_ok (rr : RowReader) (h : TotalReader rr) (fs : RemoteReader) (name : Bytes) (c : Cache) :
    RcOK rr fs c (rcDatabase rr fs name c) := by
  unfold rcDatabase
  apply rcOK_bind rr fs c _ _ (rcDatabases_ok rr h fs c)
  intro dbs c'
  exact rcOK_pure rr fs c' _

theorem rcTables_ok (rr : RowReader) (h : TotalReader rr) (π : MapOrder TableInfo) (fs : RemoteReader) (db : Nat) (c : Cache) :
    RcOK rr fs c (rcTables rr π fs db c) := by
  unfold rcTables
  apply rcOK_bind rr fs c _ _ (rcCatalog_ok rr h fs db c)
  intro r c'
  exact rcOK_pure rr fs c' _

theorem rcTablesByName_ok (rr : RowReader) (h : TotalReader rr) (π : MapOrder TableInfo) (fs : RemoteReader) (name : Bytes)
    (c : Cache) : RcOK rr fs c (rcTablesByName rr π fs name c) := by
  unfold rcTablesByName
  apply rcOK_bind rr fs c _ _ (rcDatabase_ok rr h fs name c)
  intro db c'
  cases db with
  | none => exact rcOK_pure rr fs c' _
  | some d => exact rcTables_ok rr h π fs d.oid c'

theorem rcTable_ok (rr : RowReader) (h : TotalReader rr) (π : MapOrder TableInfo) (fs : RemoteReader) (db : Nat) (name : Bytes)
    (c : Cache) : RcOK rr fs c (rcTable rr π fs db name c) := by
  unfold rcTable
  apply rcOK_bind rr fs c _ _ (rcTables_ok rr h π fs db c)
  intro ts c'
  exact rcOK_pure rr fs c' _

theorem rcColumns_ok (rr : RowReader) (h : TotalReader rr) (fs : RemoteReader) (db tbl : Nat) (c : Cache) :
    RcOK rr fs c (rcColumns rr fs db tbl c) := by
  unfold rcColumns
  apply rcOK_bind rr fs c _ _ (rcCatalog_ok rr h fs db c)
  intro r c'
  exact rcOK_pure rr fs c' _

theorem rcColumnNames_ok (rr : RowReader) (h : TotalReader rr) (fs : RemoteReader) (db tbl : Nat) (c : Cache) :
    RcOK rr fs c (rcColumnNames rr fs db tbl c) := by
  unfold rcColumnNames
  apply rcOK_bind rr fs c _ _ (rcColumns_ok rr h fs db tbl c)
  intro r c'
  exact rcOK_pure rr fs c' _

theorem rcQuery_ok (rr : RowReader) (h : TotalReader rr) (fs : RemoteReader) (db : Nat) (t : Option TableInfo)
    (o : Option QueryOptions) (c : Cache) : RcOK rr fs c (rcQuery rr fs db t o c) := by
  unfold rcQuery
  cases t with
  | none => exact rcOK_pure rr fs c _
  | some t =>
    simp only
    by_cases h0 : t.filenode = 0
    · rw [if_pos h0]; exact rcOK_pure rr fs c _
    · rw [if_neg h0]
      cases fs (basePath db t.filenode) with
      | none => exact rcOK_pure rr fs c _
      | some _ =>
        simp only
        apply rcOK_bind rr fs c _ _ (rcColumns_ok rr h fs db t.oid c)
        intro attrs c'
        apply rcOK_bind_pure rr fs c' _ _ (C10_total_queryWith rr h fs db (some t) attrs o)
        intro rows
        exact rcOK_pure rr fs c' _

theorem rcQueryByName_ok (rr : RowReader) (h : TotalReader rr) (π : MapOrder TableInfo) (fs : RemoteReader) (dbName tbl : Bytes)
    (o : Option QueryOptions) (c : Cache) : RcOK rr fs c (rcQueryByName rr π fs dbName tbl o c) := by
  unfold rcQueryByName
  apply rcOK_bind rr fs c _ _ (rcDatabase_ok rr h fs dbName c)
  intro db c'
  cases db with
  | none => exact rcOK_pure rr fs c' _
  | some d =>
    apply rcOK_bind rr fs c' _ _ (rcTable_ok rr h π fs d.oid tbl c')
    intro t c''
    cases t with
    | none => exact rcOK_pure rr fs c'' _
    | some t => exact rcQuery_ok rr h fs d.oid (some t) o c''

theorem rcDumpTable_ok (rr : RowReader) (h : TotalReader rr) (fs : RemoteReader) (db : Nat) (t : TableInfo) (c : Cache) :
    RcOK rr fs c (rcDumpTable rr fs db t c) := by
  unfold rcDumpTable
  apply rcOK_bind rr fs c _ _ (rcQuery_ok rr h fs db (some t) none c)
  intro rows c'
  apply rcOK_bind rr fs c' _ _ (rcColumns_ok rr h fs db t.oid c')
  intro attrs c''
  exact rcOK_pure rr fs c'' _

theorem rcDumpTables_ok (rr : RowReader) (h : TotalReader rr) (fs : RemoteReader) (db : Nat) (ts : List TableInfo) :
    ∀ c, RcOK rr fs c (rcDumpTables rr fs db ts c) := by
  induction ts with
  | nil => intro c; exact rcOK_pure rr fs c _
  | cons t ts ih =>
    intro c
    unfold rcDumpTables
    by_cases h1 : (Spec.isPrefixB (strBytes "pg_") t.name || Spec.isPrefixB (strBytes "sql_") t.name) = true
    · rw [if_pos h1]; exact ih c
    · rw [if_neg h1]
      by_cases h2 : (t.kind != [114] && t.kind != []) = true
      · rw [if_pos h2]; exact ih c
      · rw [if_neg h2]
        apply rcOK_bind rr fs c _ _ (rcDumpTable_ok rr h fs db t c)
        intro td c'
        apply rcOK_bind rr fs c' _ _ (ih c')
        intro rest c''
        exact rcOK_pure rr fs c'' _

theorem rcDumpDatabase_ok (rr : RowReader) (h : TotalReader rr) (π : MapOrder TableInfo) (fs : RemoteReader) (db : Nat) (c : Cache) :
    RcOK rr fs c (rcDumpDatabase rr π fs db c) := by
  unfold rcDumpDatabase
  apply rcOK_bind rr fs c _ _ (rcDatabases_ok rr h fs c)
  intro dbs c'
  dsimp only
  cases dbs.find? (·.oid == db) with
  | none => exact rcOK_pure rr fs c' _
  | some d =>
    apply rcOK_bind rr fs c' _ _ (rcTables_ok rr h π fs db c')
    intro ts c''
    apply rcOK_bind rr fs c'' _ _ (rcDumpTables_ok rr h fs db ts c'')
    intro tds c3
    exact rcOK_pure rr fs c3 _

theorem rcDumpDatabaseByName_ok (rr : RowReader) (h : TotalReader rr) (π : MapOrder TableInfo) (fs : RemoteReader) (name : Bytes)
    (c : Cache) : RcOK rr fs c (rcDumpDatabaseByName rr π fs name c) := by
  unfold rcDumpDatabaseByName
  apply rcOK_bind rr fs c _ _ (rcDatabase_ok rr h fs name c)
  intro db c'
  cases db with
  | none => exact rcOK_pure rr fs c' _
  | some d => exact rcDumpDatabase_ok rr h π fs d.oid c'

theorem rcDumpAllLoop_ok (rr : RowReader) (h : TotalReader rr) (π : MapOrder TableInfo) (fs : RemoteReader) (dbs : List DatabaseInfo) :
    ∀ c, RcOK rr fs c (rcDumpAllLoop rr π fs dbs c) := by
  induction dbs with
  | nil => intro c; exact rcOK_pure rr fs c _
  | cons db rest ih =>
    intro c
    unfold rcDumpAllLoop
    by_cases h1 : Spec.isPrefixB (strBytes "template") db.name = true
    · rw [if_pos h1]; exact ih c
    · rw [if_neg h1]
      apply rcOK_bind rr fs c _ _ (rcDumpDatabase_ok rr h π fs db.oid c)
      intro d c'
      apply rcOK_bind rr fs c' _ _ (ih c')
      intro ds c''
      exact rcOK_pure rr fs c'' _

theorem rcDumpAll_ok (rr : RowReader) (h : TotalReader rr) (π : MapOrder TableInfo) (fs : RemoteReader) (c : Cache) :
    RcOK rr fs c (rcDumpAll rr π fs c) := by
  unfold rcDumpAll
  apply rcOK_bind rr fs c _ _ (rcDatabases_ok rr h fs c)
  intro dbs c'
  exact rcDumpAllLoop_ok rr h π fs dbs c'

theorem rcSummaryLoop_ok (rr : RowReader) (h : TotalReader rr) (π : MapOrder TableInfo) (fs : RemoteReader) (dbs : List DatabaseInfo) :
    ∀ c, RcOK rr fs c (rcSummaryLoop rr π fs dbs c) := by
  induction dbs with
  | nil => intro c; exact rcOK_pure rr fs c _
  | cons db rest ih =>
    intro c
    unfold rcSummaryLoop
    by_cases h1 : Spec.isPrefixB (strBytes "template") db.name = true
    · rw [if_pos h1]; exact ih c
    · rw [if_neg h1]
      apply rcOK_bind rr fs c _ _ (rcTables_ok rr h π fs db.oid c)
      intro ts c'
      apply rcOK_bind rr fs c' _ _ (ih c')
      intro more c''
      exact rcOK_pure rr fs c'' _

theorem summaryDatabases_ok (rr : RowReader) (h : TotalReader rr) (π : MapOrder TableInfo) (fs : RemoteReader) (c : Cache) :
    RcOK rr fs c (summaryDatabases rr π fs c) := by
  unfold summaryDatabases
  apply rcOK_bind rr fs c _ _ (rcDatabases_ok rr h fs c)
  intro dbs c'
  apply rcOK_bind rr fs c' _ _ (rcSummaryLoop_ok rr h π fs dbs c')
  intro per c''
  exact rcOK_pure rr fs c'' _

/-! ### Summary (Model/ExtraCluster.lean) -/

theorem rcCredentials_total (fs : RemoteReader) : ∃ r, Extra.rcCredentials fs = .ok r := by
  unfold Extra.rcCredentials
  cases fs (strBytes "global/1260") with
  | none => exact ⟨_, rfl⟩
  | some d => exact Props.C10.Rows.C10_total_parsePGAuthID d

theorem rcSummaryTables_ok (rr : RowReader) (h : TotalReader rr) (π : MapOrder TableInfo) (fs : RemoteReader) (dbs : List DatabaseInfo) :
    ∀ m c, RcOK rr fs c (Extra.rcSummaryTables rr π fs dbs m c) := by
  induction dbs with
  | nil => intro m c; exact rcOK_pure rr fs c _
  | cons db rest ih =>
    intro m c
    unfold Extra.rcSummaryTables
    by_cases h1 : Extra.xcIsTemplate db.name = true
    · rw [if_pos h1]; exact ih m c
    · rw [if_neg h1]
      apply rcOK_bind rr fs c _ _ (rcTables_ok rr h π fs db.oid c)
      intro ts c'
      exact ih _ c'

theorem rcSummary_ok (rr : RowReader) (h : TotalReader rr) (π : MapOrder TableInfo) (fs : RemoteReader) (c : Cache) :
    RcOK rr fs c (Extra.rcSummary rr π fs c) := by
  unfold Extra.rcSummary
  apply rcOK_bind_pure rr fs c _ _ (rcCredentials_total fs)
  intro creds
  apply rcOK_bind rr fs c _ _ (rcDatabases_ok rr h fs c)
  intro dbs c'
  apply rcOK_bind rr fs c' _ _ (rcSummaryTables_ok rr h π fs dbs [] c')
  intro tables c''
  exact rcOK_pure rr fs c'' _

end PgVerif.Proofs.Extra
