/-
  Helper lemmas of area `dropped` (Props/Dropped.lean states the property theorems):
    * decimal text consists of digits; the regular expression of dropped.go matches PostgreSQL's placeholder name
      and captures the attribute number
    * what the loop bodies of parseDroppedColumns / parseAllAttributes read from a row (`AttrFacts`)
    * the layout choice of readAttrRowsWithDropped
    * the two `sort.Slice` calls against the specification's orderings
-/
import PgVerif.Model.Dropped
namespace PgVerif.Proofs.Dropped
open PgVerif PgVerif.Model PgVerif.Spec List

/-! ### decimal text -/

theorem isDigit_digitByte (d : Nat) : drIsDigit (drDigitByte d) = true := by
  unfold drDigitByte; split <;> decide

theorem drDecNatAux_digits (fuel n : Nat) (acc : Bytes) (h : acc.all drIsDigit = true) :
    (drDecNatAux fuel n acc).all drIsDigit = true := by
  induction fuel generalizing n acc with
  | zero => simpa [drDecNatAux] using h
  | succ f ih =>
    unfold drDecNatAux
    by_cases hn : n < 10
    · rw [if_pos hn]; simp [isDigit_digitByte, h]
    · rw [if_neg hn]; exact ih _ _ (by simp [isDigit_digitByte, h])

theorem drDecNatAux_ne_nil (fuel n : Nat) (acc : Bytes) (h : acc ≠ [] ∨ 0 < fuel) : drDecNatAux fuel n acc ≠ [] := by
  induction fuel generalizing n acc with
  | zero =>
    rcases h with h | h
    · simpa [drDecNatAux] using h
    · omega
  | succ f ih =>
    unfold drDecNatAux
    by_cases hn : n < 10
    · rw [if_pos hn]; simp
    · rw [if_neg hn]; exact ih _ _ (Or.inl (by simp))

theorem drDecNat_digits (n : Nat) : (drDecNat n).all drIsDigit = true := drDecNatAux_digits _ _ _ (by simp)
theorem drDecNat_ne_nil (n : Nat) : drDecNat n ≠ [] := drDecNatAux_ne_nil _ _ _ (Or.inr (by omega))

theorem drDecInt_of_pos (n : Int) (h : 0 < n) : drDecInt n = drDecNat n.toNat := by
  unfold drDecInt; rw [if_neg (by omega)]

/-! ### the regular expression `^\.+pg\.dropped\.(\d+)\.+$` on PostgreSQL's placeholder name -/

theorem takeWhile_append_stop {α} (p : α → Bool) (ds : List α) (x : α) (r : List α) (h : ds.all p = true) (hx : p x = false) :
    (ds ++ x :: r).takeWhile p = ds := by
  induction ds with
  | nil => simp [hx]
  | cons d ds ih =>
    simp only [List.all_cons, Bool.and_eq_true] at h
    simp [h.1, ih h.2]

/-- the pattern matches `........pg.dropped.<digits>........` and captures the digits -/
theorem droppedDigits_pgName (ds : Bytes) (hd : ds.all drIsDigit = true) (hne : ds ≠ []) :
    droppedDigits (drDots8 ++ pgDroppedLit ++ ds ++ drDots8) = some ds := by
  have hs1 : (drDots8 ++ pgDroppedLit ++ ds ++ drDots8).dropWhile (· == 46) = pgDroppedLit ++ ds ++ drDots8 := by
    simp [drDots8, pgDroppedLit, List.dropWhile]
  have htw : (ds ++ drDots8).takeWhile drIsDigit = ds := by
    unfold drDots8
    exact takeWhile_append_stop drIsDigit ds 46 _ hd (by decide)
  unfold droppedDigits
  simp only [hs1]
  have hlen : ¬ ((pgDroppedLit ++ ds ++ drDots8).length = (drDots8 ++ pgDroppedLit ++ ds ++ drDots8).length) := by
    simp [drDots8, pgDroppedLit]
  rw [if_neg hlen]
  have hpre : pgDroppedLit.isPrefixOf (pgDroppedLit ++ ds ++ drDots8) = true := by
    simp [pgDroppedLit, List.isPrefixOf]
  simp only [hpre, Bool.not_true, Bool.false_eq_true, if_false]
  have hdrop : (pgDroppedLit ++ ds ++ drDots8).drop 11 = ds ++ drDots8 := by
    simp [pgDroppedLit]
  simp only [hdrop, htw, List.drop_left]
  have hemp : ds.isEmpty = false := by
    cases ds with
    | nil => exact absurd rfl hne
    | cons _ _ => rfl
  simp [hemp, drDots8]

/-- … in particular PostgreSQL's name of the dropped attribute number n > 0, capturing the decimal text of n -/
theorem droppedDigits_pgDroppedName (n : Int) (h : 0 < n) : droppedDigits (pgDroppedName n) = some (drDecInt n) := by
  unfold pgDroppedName
  rw [drDecInt_of_pos n h]
  exact droppedDigits_pgName _ (drDecNat_digits _) (drDecNat_ne_nil _)

/-! ### what the loop bodies read from a row -/

/-- the fields of a pg_attribute row dropped.go looks at, as the row reader delivers them -/
structure AttrFacts where
  relid : Nat
  name : Bytes
  typid : Nat
  len : Int
  num : Int
  byval : Option Bool
  align : Bytes
  storage : Bytes
  dropped : Option Bool
deriving DecidableEq, Repr

def factsOfRow (row : Row) : AttrFacts :=
  ⟨getOID row "attrelid", getString row "attname", getOID row "atttypid", getInt row "attlen", getInt row "attnum",
   drGetBool row "attbyval", getString row "attalign", getString row "attstorage", drGetBool row "attisdropped"⟩

/-- what a correct row reader delivers for the stored attribute row `a` (C03: an oid column as its value, a name
column as the bytes up to the first NUL, an int2 column as its value, a bool column as a bool, a char column as a
one-byte string) -/
def factsOfAttr (a : AttrRow) : AttrFacts :=
  ⟨a.relid, a.name, a.typid, a.len, a.num, some a.byval, [UInt8.ofNat (alignCh a.align)], [UInt8.ofNat a.storage], some a.dropped⟩

def plausibleFacts (f : AttrFacts) : Bool :=
  drOneOfBytes [99, 115, 105, 100] f.align && drOneOfBytes [112, 101, 109, 120] f.storage

theorem drPlausibleAttrRow_facts (row : Row) : drPlausibleAttrRow row = plausibleFacts (factsOfRow row) := rfl

def alignByteOfFacts (f : AttrFacts) : Nat :=
  match f.align with
  | b :: _ => b.toNat
  | [] => 0

def droppedOfFacts (tableNames : List (Nat × Bytes)) (f : AttrFacts) : Option DroppedColumnInfo :=
  match f.dropped with
  | some true =>
    if f.num ≤ 0 then none
    else
      some { relOID := f.relid, tableName := (mapGet tableNames f.relid).getD [], attNum := f.num,
             originalName := match droppedDigits f.name with
               | some ds => droppedPrefix ++ ds
               | none => [],
             droppedName := f.name, typeOID := f.typid, typeName := Model.typeName f.typid, attLen := f.len,
             attAlign := alignByteOfFacts f, attByVal := f.byval.getD false }
  | _ => none

theorem droppedOfRow_facts (names : List (Nat × Bytes)) (row : Row) :
    droppedOfRow names row = droppedOfFacts names (factsOfRow row) := rfl

def attrOfFacts (relOID : Nat) (f : AttrFacts) : Option DroppedColumnInfo :=
  if f.relid ≠ relOID then none
  else if f.num ≤ 0 then none
  else
    some { relOID := f.relid, tableName := [], attNum := f.num,
           originalName := if f.dropped.getD false then droppedKey f.num else f.name,
           droppedName := f.name, typeOID := f.typid, typeName := Model.typeName f.typid, attLen := f.len,
           attAlign := alignByteOfFacts f, attByVal := f.byval.getD false }

theorem drAttrOfRow_facts (relOID : Nat) (row : Row) : drAttrOfRow relOID row = attrOfFacts relOID (factsOfRow row) := rfl

theorem drAttrScore_facts (rows : List Row) : drAttrScore rows = ((rows.map factsOfRow).filter plausibleFacts).length := by
  unfold drAttrScore
  rw [List.filter_map, List.length_map]
  rfl

/-- attalign is one of PostgreSQL's four alignment bytes -/
def AlignOK (a : AttrRow) : Prop := a.align = 1 ∨ a.align = 2 ∨ a.align = 4 ∨ a.align = 8
instance (a : AttrRow) : Decidable (AlignOK a) := by unfold AlignOK; infer_instance

theorem alignByte_factsOfAttr (a : AttrRow) (h : AlignOK a) : alignByteOfFacts (factsOfAttr a) = alignCh a.align := by
  rcases h with h | h | h | h <;> simp [alignByteOfFacts, factsOfAttr, alignCh, h] <;> decide

theorem plausible_factsOfAttr (a : AttrRow) (h : AlignOK a) (hs : drStorageOK a.storage) :
    plausibleFacts (factsOfAttr a) = true := by
  rcases h with h | h | h | h <;> rcases hs with hs | hs | hs | hs <;>
    simp [plausibleFacts, factsOfAttr, alignCh, h, hs, drOneOfBytes] <;> decide

/-! ### the layout choice -/

/-- the rows read under the schema of layout `l`, given the rows read under the three schemas -/
def rowsOfLayout : Layout → List Row → List Row → List Row → List Row
  | .v16, r16, _, _ => r16
  | .v14, _, r15, _ => r15
  | .v12, _, _, r12 => r12

theorem drAttrScore_all (rows : List Row) (h : ∀ row ∈ rows, drPlausibleAttrRow row = true) : drAttrScore rows = rows.length := by
  unfold drAttrScore
  rw [List.filter_eq_self.mpr h]

theorem drBetterRows_bad (best : List Row × Nat) (rows : List Row) (h : drAttrScore rows = 0) : drBetterRows best rows = best := by
  unfold drBetterRows
  rw [if_neg (by omega)]

theorem drBetterRows_good (rows : List Row) (h : ∀ row ∈ rows, drPlausibleAttrRow row = true) :
    drBetterRows ([], 0) rows = (rows, rows.length) := by
  unfold drBetterRows
  rw [drAttrScore_all rows h]
  cases rows with
  | nil => rfl
  | cons r rs => rw [if_pos (by simp)]

/-- a later layout cannot displace rows that are all plausible -/
theorem drBetterRows_keep (g rows : List Row) (h : drAttrScore rows = 0) : drBetterRows (g, g.length) rows = (g, g.length) :=
  drBetterRows_bad _ _ h

/-- **The layout choice.**  If the rows read under layout `l`'s schema all carry a legal attalign/attstorage pair and
none of the rows read under the two other schemas does, readAttrRowsWithDropped returns the rows of layout `l`. -/
theorem readAttrRows_select (rr : RowReader) (data : Bytes) (l : Layout) (r16 r15 r12 : List Row)
    (h16 : rr data schemaPGAttrDropped true = .ok r16) (h15 : rr data schemaPGAttrDroppedV15 true = .ok r15)
    (h12 : rr data schemaPGAttrDroppedV12 true = .ok r12)
    (hgood : ∀ row ∈ rowsOfLayout l r16 r15 r12, drPlausibleAttrRow row = true)
    (hb16 : l ≠ .v16 → drAttrScore r16 = 0) (hb15 : l ≠ .v14 → drAttrScore r15 = 0) (hb12 : l ≠ .v12 → drAttrScore r12 = 0) :
    readAttrRowsWithDropped rr data = .ok (rowsOfLayout l r16 r15 r12) := by
  simp only [readAttrRowsWithDropped, h16, h15, h12, ok_bind, pure_eq_ok]
  cases l with
  | v16 =>
    simp only [rowsOfLayout] at hgood ⊢
    rw [drBetterRows_good r16 hgood, drBetterRows_keep r16 r15 (hb15 (by decide)), drBetterRows_keep r16 r12 (hb12 (by decide))]
  | v14 =>
    simp only [rowsOfLayout] at hgood ⊢
    rw [drBetterRows_bad _ r16 (hb16 (by decide)), drBetterRows_good r15 hgood, drBetterRows_keep r15 r12 (hb12 (by decide))]
  | v12 =>
    simp only [rowsOfLayout] at hgood ⊢
    rw [drBetterRows_bad _ r16 (hb16 (by decide)), drBetterRows_bad _ r15 (hb15 (by decide)), drBetterRows_good r12 hgood]

/-! ### the orderings -/

theorem droppedLE_eq (a b : DroppedColumnInfo) : droppedLE a b = !droppedLess b a := by
  unfold droppedLE droppedLess
  generalize a.relOID = x
  generalize b.relOID = y
  generalize a.attNum = m
  generalize b.attNum = n
  by_cases h : x = y
  · subst h
    simp only [bne_self_eq_false, Bool.false_eq_true, if_false]
    by_cases h2 : m ≤ n
    · have : ¬ n < m := by omega
      simp [h2, this]
    · have : n < m := by omega
      simp [h2, this]
  · have h' : ¬ y = x := fun e => h e.symm
    have hx : (x != y) = true := by simpa using h
    have hy : (y != x) = true := by simpa using h'
    simp only [hx, hy, if_true]
    by_cases h2 : x < y
    · have : ¬ y < x := by omega
      simp [h2, this]
    · have : y < x := by omega
      simp [h2, this]

theorem drInsertByRelNum_eq (a : DroppedColumnInfo) (l : List DroppedColumnInfo) : drInsertByRelNum a l = drInsertDropped a l := by
  induction l with
  | nil => rfl
  | cons b bs ih =>
    unfold drInsertByRelNum drInsertDropped
    rw [droppedLE_eq]
    cases h : droppedLess b a <;> simp [ih]

/-- `sort.Slice(dropped, relid then attnum)` (stable insertion sort) is the specification's ordering — on every list -/
theorem drSortByRelNum_eq (l : List DroppedColumnInfo) : drSortByRelNum l = drSortDropped l := by
  unfold drSortByRelNum drSortDropped
  induction l with
  | nil => rfl
  | cons a l ih => simp only [List.foldr_cons, ih, drInsertByRelNum_eq]

/-! ### the loop of parseDroppedColumns on the rows of a correct reader -/

/-- the entry parseDroppedColumns builds for a dropped attribute `a` -/
def modelInfo (names : List (Nat × Bytes)) (a : AttrRow) : DroppedColumnInfo :=
  { relOID := a.relid, tableName := (mapGet names a.relid).getD [], attNum := a.num,
    originalName := droppedPrefix ++ drDecInt a.num, droppedName := a.name, typeOID := a.typid,
    typeName := Model.typeName a.typid, attLen := a.len, attAlign := alignCh a.align, attByVal := a.byval }

theorem droppedOfFacts_attr (names : List (Nat × Bytes)) (a : AttrRow) (hwf : a.DroppedWF) (hal : AlignOK a) :
    droppedOfFacts names (factsOfAttr a) = if (a.dropped && decide (a.num > 0)) = true then some (modelInfo names a) else none := by
  unfold droppedOfFacts
  cases hd : a.dropped with
  | false => simp [factsOfAttr, hd]
  | true =>
    obtain ⟨_, hdrop, _⟩ := hwf
    obtain ⟨_, _, hpos, hname⟩ := hdrop hd
    have hnum : ¬ a.num ≤ 0 := by omega
    have hgt : a.num > 0 := hpos
    have hdig : droppedDigits (factsOfAttr a).name = some (drDecInt a.num) := by
      show droppedDigits a.name = _
      rw [hname]; exact droppedDigits_pgDroppedName a.num hpos
    have hfd : (factsOfAttr a).dropped = some true := by simp [factsOfAttr, hd]
    simp only [hfd, hdig]
    have hn' : ¬ (factsOfAttr a).num ≤ 0 := hnum
    rw [if_neg hn']
    simp only [Bool.true_and, decide_eq_true_eq, hgt, if_true]
    rw [alignByte_factsOfAttr a hal]
    rfl

theorem filterMap_ite {α β} (p : α → Bool) (f : α → β) (l : List α) :
    l.filterMap (fun a => if p a = true then some (f a) else none) = (l.filter p).map f := by
  induction l with
  | nil => rfl
  | cons a l ih =>
    cases h : p a <;> simp [h, ih]

theorem filterMap_congr' {α β} (f g : α → Option β) (l : List α) (h : ∀ a ∈ l, f a = g a) : l.filterMap f = l.filterMap g := by
  induction l with
  | nil => rfl
  | cons a l ih =>
    simp only [List.filterMap_cons, h a (by simp)]
    rw [ih fun b hb => h b (by simp [hb])]

/-- the dropped attributes among the live rows, as parseDroppedColumns collects them (before sorting) -/
theorem filterMap_droppedOfRow (names : List (Nat × Bytes)) (rows : List Row) (live : List AttrRow)
    (hread : rows.map factsOfRow = live.map factsOfAttr) (hwf : ∀ a ∈ live, a.DroppedWF ∧ AlignOK a) :
    rows.filterMap (droppedOfRow names) = (live.filter fun a => a.dropped && decide (a.num > 0)).map (modelInfo names) := by
  have h1 : rows.filterMap (droppedOfRow names) = (rows.map factsOfRow).filterMap (droppedOfFacts names) := by
    rw [List.filterMap_map]; rfl
  rw [h1, hread, List.filterMap_map, ← filterMap_ite]
  exact filterMap_congr' _ _ live fun a ha => droppedOfFacts_attr names a (hwf a ha).1 (hwf a ha).2

/-- all rows a correct reader delivers for well-formed attribute rows are plausible -/
theorem plausible_of_read (rows : List Row) (live : List AttrRow) (hread : rows.map factsOfRow = live.map factsOfAttr)
    (hwf : ∀ a ∈ live, a.DroppedWF ∧ AlignOK a) : ∀ row ∈ rows, drPlausibleAttrRow row = true := by
  intro row hrow
  have hm : factsOfRow row ∈ live.map factsOfAttr := by rw [← hread]; exact List.mem_map_of_mem hrow
  obtain ⟨a, ha, hfa⟩ := List.mem_map.mp hm
  rw [drPlausibleAttrRow_facts, ← hfa]
  exact plausible_factsOfAttr a (hwf a ha).2 (hwf a ha).1.1

/-! ### type names are outside the comparison (PostgreSQL has no type for oid 0) -/

def eraseTypeName (c : DroppedColumnInfo) : DroppedColumnInfo := { c with typeName := [] }

theorem droppedLE_erase (a b : DroppedColumnInfo) : droppedLE (eraseTypeName a) (eraseTypeName b) = droppedLE a b := rfl

theorem drInsertDropped_erase (a : DroppedColumnInfo) (l : List DroppedColumnInfo) :
    (drInsertDropped a l).map eraseTypeName = drInsertDropped (eraseTypeName a) (l.map eraseTypeName) := by
  induction l with
  | nil => rfl
  | cons b bs ih =>
    unfold drInsertDropped
    simp only [List.map_cons]
    by_cases h : droppedLE a b = true
    · have h' : droppedLE (eraseTypeName a) (eraseTypeName b) = true := h
      rw [if_pos h, if_pos h']; rfl
    · have h' : ¬ droppedLE (eraseTypeName a) (eraseTypeName b) = true := h
      rw [if_neg h, if_neg h', List.map_cons, ih]

theorem drSortDropped_erase (l : List DroppedColumnInfo) :
    (drSortDropped l).map eraseTypeName = drSortDropped (l.map eraseTypeName) := by
  unfold drSortDropped
  induction l with
  | nil => rfl
  | cons a l ih => simp only [List.foldr_cons, List.map_cons, drInsertDropped_erase, ih]

theorem drInsertDropped_perm (a : DroppedColumnInfo) (l : List DroppedColumnInfo) : drInsertDropped a l ~ a :: l := by
  induction l with
  | nil => exact Perm.refl _
  | cons b bs ih =>
    unfold drInsertDropped
    by_cases h : droppedLE a b = true
    · rw [if_pos h]
    · rw [if_neg h]; exact ((Perm.cons b ih).trans (Perm.swap a b bs))

theorem drSortDropped_perm (l : List DroppedColumnInfo) : drSortDropped l ~ l := by
  unfold drSortDropped
  induction l with
  | nil => exact Perm.refl _
  | cons a l ih => exact (drInsertDropped_perm a _).trans (Perm.cons a ih)

/-! ### parseAllAttributes / buildColumnsWithDropped on the rows of a correct reader -/

/-- the entry parseAllAttributes builds for attribute `a` -/
def modelAttr (a : AttrRow) : DroppedColumnInfo :=
  { relOID := a.relid, tableName := [], attNum := a.num,
    originalName := if a.dropped then droppedKey a.num else a.name,
    droppedName := a.name, typeOID := a.typid, typeName := Model.typeName a.typid, attLen := a.len,
    attAlign := alignCh a.align, attByVal := a.byval }

theorem attrOfFacts_attr (relOID : Nat) (a : AttrRow) (hal : AlignOK a) :
    attrOfFacts relOID (factsOfAttr a) =
      if decide (a.relid = relOID ∧ a.num > 0) = true then some (modelAttr a) else none := by
  unfold attrOfFacts
  by_cases h1 : a.relid = relOID
  · have h1' : ¬ (factsOfAttr a).relid ≠ relOID := fun h => h h1
    rw [if_neg h1']
    by_cases h2 : a.num ≤ 0
    · have h2' : (factsOfAttr a).num ≤ 0 := h2
      rw [if_pos h2']
      have : ¬ (a.relid = relOID ∧ a.num > 0) := fun h => by omega
      simp [this]
    · have h2' : ¬ (factsOfAttr a).num ≤ 0 := h2
      rw [if_neg h2']
      have : a.relid = relOID ∧ a.num > 0 := ⟨h1, by omega⟩
      simp only [this, and_self, decide_true, if_true]
      rw [alignByte_factsOfAttr a hal]
      cases hd : a.dropped <;> simp [modelAttr, factsOfAttr, hd]
  · have h1' : (factsOfAttr a).relid ≠ relOID := h1
    rw [if_pos h1']
    have : ¬ (a.relid = relOID ∧ a.num > 0) := fun h => h1 h.1
    simp [this]

theorem filterMap_attrOfRow (relOID : Nat) (rows : List Row) (live : List AttrRow)
    (hread : rows.map factsOfRow = live.map factsOfAttr) (hal : ∀ a ∈ live, AlignOK a) :
    rows.filterMap (drAttrOfRow relOID) = (live.filter fun a => decide (a.relid = relOID ∧ a.num > 0)).map modelAttr := by
  have h1 : rows.filterMap (drAttrOfRow relOID) = (rows.map factsOfRow).filterMap (attrOfFacts relOID) := by
    rw [List.filterMap_map]; rfl
  rw [h1, hread, List.filterMap_map, ← filterMap_ite]
  exact filterMap_congr' _ _ live fun a ha => attrOfFacts_attr relOID a (hal a ha)

theorem insertAttr_perm (a : AttrRow) (l : List AttrRow) : insertAttr a l ~ a :: l := by
  induction l with
  | nil => exact Perm.refl _
  | cons b bs ih =>
    unfold insertAttr
    by_cases h : a.num < b.num
    · rw [if_pos h]
    · rw [if_neg h]; exact ((Perm.cons b ih).trans (Perm.swap a b bs))

theorem sortAttrs_perm (l : List AttrRow) : sortAttrs l ~ l := by
  unfold sortAttrs
  induction l with
  | nil => exact Perm.refl _
  | cons a l ih => exact (insertAttr_perm a _).trans (Perm.cons a ih)

/-- on attribute numbers that do not occur in the list, Go's insertion (before the first element that is not
smaller) and the specification's (before the first that is greater) agree -/
theorem drInsertByAttNum_map (a : AttrRow) (l : List AttrRow) (h : a.num ∉ l.map (·.num)) :
    drInsertByAttNum (modelAttr a) (l.map modelAttr) = (insertAttr a l).map modelAttr := by
  induction l with
  | nil => rfl
  | cons b bs ih =>
    simp only [List.map_cons, List.mem_cons, not_or] at h
    unfold drInsertByAttNum insertAttr
    simp only [List.map_cons]
    have hne : a.num ≠ b.num := h.1
    by_cases hlt : a.num < b.num
    · have h' : ¬ (modelAttr b).attNum < (modelAttr a).attNum := by show ¬ b.num < a.num; omega
      rw [if_neg h', if_pos hlt]; rfl
    · have h' : (modelAttr b).attNum < (modelAttr a).attNum := by show b.num < a.num; omega
      rw [if_pos h', if_neg hlt, List.map_cons, ih h.2]

/-- `sort.Slice(attrs, attnum)` gives the specification's attnum order when the attribute numbers are distinct -/
theorem drSortByAttNum_map (l : List AttrRow) (h : (l.map (·.num)).Nodup) :
    drSortByAttNum (l.map modelAttr) = (sortAttrs l).map modelAttr := by
  induction l with
  | nil => rfl
  | cons a l ih =>
    simp only [List.map_cons, List.nodup_cons] at h
    have hs : drSortByAttNum (modelAttr a :: l.map modelAttr) = drInsertByAttNum (modelAttr a) (drSortByAttNum (l.map modelAttr)) := rfl
    have hs' : sortAttrs (a :: l) = insertAttr a (sortAttrs l) := rfl
    rw [List.map_cons, hs, hs', ih h.2]
    apply drInsertByAttNum_map
    intro hm
    exact h.1 (((sortAttrs_perm l).map (·.num)).mem_iff.mp hm)

/-- the attributes of one relation have distinct attribute numbers when (attrelid, attnum) is unique -/
theorem nums_nodup_of_rel (live : List AttrRow) (relOID : Nat) (hnd : (live.map fun a => (a.relid, a.num)).Nodup) :
    ((live.filter fun a => decide (a.relid = relOID ∧ a.num > 0)).map (·.num)).Nodup := by
  induction live with
  | nil => simp
  | cons a l ih =>
    simp only [List.map_cons, List.nodup_cons] at hnd
    by_cases hp : a.relid = relOID ∧ a.num > 0
    · have hd : decide (a.relid = relOID ∧ a.num > 0) = true := by simpa using hp
      rw [List.filter_cons, if_pos hd, List.map_cons, List.nodup_cons]
      refine ⟨?_, ih hnd.2⟩
      intro hm
      obtain ⟨b, hb, hbn⟩ := List.mem_map.mp hm
      have hb' := List.mem_filter.mp hb
      have hbr : b.relid = relOID := by have := hb'.2; simp at this; exact this.1
      exact hnd.1 (List.mem_map.mpr ⟨b, hb'.1, by rw [hbr, hp.1, hbn]⟩)
    · have hd : ¬ decide (a.relid = relOID ∧ a.num > 0) = true := by simpa using hp
      rw [List.filter_cons, if_neg hd]
      exact ih hnd.2

/-- the decoding column of a specification schema column -/
def columnOf (s : DroppedSchemaCol) : Column := ⟨s.name, s.typid, s.len, s.num, s.align⟩

theorem drDecInt_ne_nil (n : Int) : drDecInt n ≠ [] := by
  unfold drDecInt
  by_cases h : n < 0
  · rw [if_pos h]; simp
  · rw [if_neg h]; exact drDecNat_ne_nil _

theorem buildColumn_modelAttr (a : AttrRow) (hname : a.name ≠ []) :
    buildColumnsWithDropped [modelAttr a] = [columnOf (droppedSchemaCol a)] := by
  cases hd : a.dropped with
  | true => simp [buildColumnsWithDropped, modelAttr, columnOf, droppedSchemaCol, drRecoveredName, hd, droppedKey]
  | false =>
    simp [buildColumnsWithDropped, modelAttr, columnOf, droppedSchemaCol, drRecoveredName, hd]
    intro h; exact absurd h hname

theorem buildColumns_map (l : List AttrRow) (hname : ∀ a ∈ l, a.name ≠ []) :
    buildColumnsWithDropped (l.map modelAttr) = l.map (columnOf ∘ droppedSchemaCol) := by
  induction l with
  | nil => rfl
  | cons a l ih =>
    have h1 := buildColumn_modelAttr a (hname a (by simp))
    have h2 := ih fun b hb => hname b (by simp [hb])
    unfold buildColumnsWithDropped at h1 h2 ⊢
    simp only [List.map_cons, List.map_nil, List.cons.injEq, and_true] at h1
    simp only [List.map_cons, h1, h2, Function.comp]

/-! ### the schema literals against the layouts -/

/-- the schema literal dropped.go reads a pg_attribute of layout `l` with -/
def schemaOfLayout : Layout → List Column
  | .v16 => schemaPGAttrDropped
  | .v14 => schemaPGAttrDroppedV15
  | .v12 => schemaPGAttrDroppedV12

theorem typeAlign_oid : typeAlign 26 4 = 4 := by decide
theorem typeAlign_name : typeAlign 19 64 = 1 := by decide
theorem typeAlign_int2 : typeAlign 21 2 = 2 := by decide
theorem typeAlign_int4 : typeAlign 23 4 = 4 := by decide
theorem typeAlign_bool : typeAlign 16 1 = 1 := by decide
theorem typeAlign_char : typeAlign 18 1 = 1 := by decide

end PgVerif.Proofs.Dropped
