/-
  Helper lemmas of area `dropped` (Props/Dropped.lean states the property theorems):
    * decimal text consists of digits; the regular expression of dropped.go matches PostgreSQL's placeholder name
      and captures the attribute number
    * what the loop bodies of parseDroppedColumns / parseAllAttributes read from a row (`AttrFacts`)
    * the layout choice of readAttrRowsWithDropped
    * the two `sort.Slice` calls against the specification's orderings
-/
import PgVerif.Model.Dropped
namespace PgVerif.Proofs.Dropped
open PgVerif PgVerif.Model PgVerif.Spec List

/-! ### decimal text -/

theorem isDigit_digitByte (d : Nat) : isDigit (digitByte d) = true := by
  unfold digitByte; split <;> decide

theorem decNatAux_digits (fuel n : Nat) (acc : Bytes) (h : acc.all isDigit = true) :
    (decNatAux fuel n acc).all isDigit = true := by
  induction fuel generalizing n acc with
  | zero => simpa [decNatAux] using h
  | succ f ih =>
    unfold decNatAux
    by_cases hn : n < 10
    · rw [if_pos hn]; simp [isDigit_digitByte, h]
    · rw [if_neg hn]; exact ih _ _ (by simp [isDigit_digitByte, h])

theorem decNatAux_ne_nil (fuel n : Nat) (acc : Bytes) (h : acc ≠ [] ∨ 0 < fuel) : decNatAux fuel n acc ≠ [] := by
  induction fuel generalizing n acc with
  | zero =>
    rcases h with h | h
    · simpa [decNatAux] using h
    · omega
  | succ f ih =>
    unfold decNatAux
    by_cases hn : n < 10
    · rw [if_pos hn]; simp
    · rw [if_neg hn]; exact ih _ _ (Or.inl (by simp))

theorem decNat_digits (n : Nat) : (decNat n).all isDigit = true := decNatAux_digits _ _ _ (by simp)
theorem decNat_ne_nil (n : Nat) : decNat n ≠ [] := decNatAux_ne_nil _ _ _ (Or.inr (by omega))

theorem decInt_of_pos (n : Int) (h : 0 < n) : decInt n = decNat n.toNat := by
  unfold decInt; rw [if_neg (by omega)]

/-! ### the regular expression `^\.+pg\.dropped\.(\d+)\.+$` on PostgreSQL's placeholder name -/

theorem takeWhile_append_stop {α} (p : α → Bool) (ds : List α) (x : α) (r : List α) (h : ds.all p = true) (hx : p x = false) :
    (ds ++ x :: r).takeWhile p = ds := by
  induction ds with
  | nil => simp [hx]
  | cons d ds ih =>
    simp only [List.all_cons, Bool.and_eq_true] at h
    simp [h.1, ih h.2]

/-- the pattern matches `........pg.dropped.<digits>........` and captures the digits -/
theorem droppedDigits_pgName (ds : Bytes) (hd : ds.all isDigit = true) (hne : ds ≠ []) :
    droppedDigits (dots8 ++ pgDroppedLit ++ ds ++ dots8) = some ds := by
  have hs1 : (dots8 ++ pgDroppedLit ++ ds ++ dots8).dropWhile (· == 46) = pgDroppedLit ++ ds ++ dots8 := by
    simp [dots8, pgDroppedLit, List.dropWhile]
  have htw : (ds ++ dots8).takeWhile isDigit = ds := by
    unfold dots8
    exact takeWhile_append_stop isDigit ds 46 _ hd (by decide)
  unfold droppedDigits
  simp only [hs1]
  have hlen : ¬ ((pgDroppedLit ++ ds ++ dots8).length = (dots8 ++ pgDroppedLit ++ ds ++ dots8).length) := by
    simp [dots8, pgDroppedLit]
  rw [if_neg hlen]
  have hpre : pgDroppedLit.isPrefixOf (pgDroppedLit ++ ds ++ dots8) = true := by
    simp [pgDroppedLit, List.isPrefixOf]
  simp only [hpre, Bool.not_true, Bool.false_eq_true, if_false]
  have hdrop : (pgDroppedLit ++ ds ++ dots8).drop 11 = ds ++ dots8 := by
    simp [pgDroppedLit]
  simp only [hdrop, htw, List.drop_left]
  have hemp : ds.isEmpty = false := by
    cases ds with
    | nil => exact absurd rfl hne
    | cons _ _ => rfl
  simp [hemp, dots8]

/-- … in particular PostgreSQL's name of the dropped attribute number n > 0, capturing the decimal text of n -/
theorem droppedDigits_pgDroppedName (n : Int) (h : 0 < n) : droppedDigits (pgDroppedName n) = some (decInt n) := by
  unfold pgDroppedName
  rw [decInt_of_pos n h]
  exact droppedDigits_pgName _ (decNat_digits _) (decNat_ne_nil _)

/-! ### what the loop bodies read from a row -/

/-- the fields of a pg_attribute row dropped.go looks at, as the row reader delivers them -/
structure AttrFacts where
  relid : Nat
  name : Bytes
  typid : Nat
  len : Int
  num : Int
  byval : Option Bool
  align : Bytes
  storage : Bytes
  dropped : Option Bool
deriving DecidableEq, Repr

def factsOfRow (row : Row) : AttrFacts :=
  ⟨getOID row "attrelid", getString row "attname", getOID row "atttypid", getInt row "attlen", getInt row "attnum",
   getBool row "attbyval", getString row "attalign", getString row "attstorage", getBool row "attisdropped"⟩

/-- what a correct row reader delivers for the stored attribute row `a` (C03: an oid column as its value, a name
column as the bytes up to the first NUL, an int2 column as its value, a bool column as a bool, a char column as a
one-byte string) -/
def factsOfAttr (a : AttrRow) : AttrFacts :=
  ⟨a.relid, a.name, a.typid, a.len, a.num, some a.byval, [UInt8.ofNat (alignCh a.align)], [UInt8.ofNat a.storage], some a.dropped⟩

def plausibleFacts (f : AttrFacts) : Bool :=
  oneOfBytes [99, 115, 105, 100] f.align && oneOfBytes [112, 101, 109, 120] f.storage

theorem plausibleAttrRow_facts (row : Row) : plausibleAttrRow row = plausibleFacts (factsOfRow row) := rfl

def alignByteOfFacts (f : AttrFacts) : Nat :=
  match f.align with
  | b :: _ => b.toNat
  | [] => 0

def droppedOfFacts (tableNames : List (Nat × Bytes)) (f : AttrFacts) : Option DroppedColumnInfo :=
  match f.dropped with
  | some true =>
    if f.num ≤ 0 then none
    else
      some { relOID := f.relid, tableName := (mapGet tableNames f.relid).getD [], attNum := f.num,
             originalName := match droppedDigits f.name with
               | some ds => droppedPrefix ++ ds
               | none => [],
             droppedName := f.name, typeOID := f.typid, typeName := Model.typeName f.typid, attLen := f.len,
             attAlign := alignByteOfFacts f, attByVal := f.byval.getD false }
  | _ => none

theorem droppedOfRow_facts (names : List (Nat × Bytes)) (row : Row) :
    droppedOfRow names row = droppedOfFacts names (factsOfRow row) := rfl

def attrOfFacts (relOID : Nat) (f : AttrFacts) : Option DroppedColumnInfo :=
  if f.relid ≠ relOID then none
  else if f.num ≤ 0 then none
  else
    some { relOID := f.relid, tableName := [], attNum := f.num,
           originalName := if f.dropped.getD false then droppedKey f.num else f.name,
           droppedName := f.name, typeOID := f.typid, typeName := Model.typeName f.typid, attLen := f.len,
           attAlign := alignByteOfFacts f, attByVal := f.byval.getD false }

theorem attrOfRow_facts (relOID : Nat) (row : Row) : attrOfRow relOID row = attrOfFacts relOID (factsOfRow row) := rfl

theorem attrScore_facts (rows : List Row) : attrScore rows = ((rows.map factsOfRow).filter plausibleFacts).length := by
  unfold attrScore
  rw [List.filter_map, List.length_map]
  rfl

/-- attalign is one of PostgreSQL's four alignment bytes -/
def AlignOK (a : AttrRow) : Prop := a.align = 1 ∨ a.align = 2 ∨ a.align = 4 ∨ a.align = 8

theorem alignByte_factsOfAttr (a : AttrRow) (h : AlignOK a) : alignByteOfFacts (factsOfAttr a) = alignCh a.align := by
  rcases h with h | h | h | h <;> simp [alignByteOfFacts, factsOfAttr, alignCh, h] <;> decide

theorem plausible_factsOfAttr (a : AttrRow) (h : AlignOK a) (hs : storageOK a.storage) :
    plausibleFacts (factsOfAttr a) = true := by
  rcases h with h | h | h | h <;> rcases hs with hs | hs | hs | hs <;>
    simp [plausibleFacts, factsOfAttr, alignCh, h, hs, oneOfBytes] <;> decide

/-! ### the layout choice -/

/-- the rows read under the schema of layout `l`, given the rows read under the three schemas -/
def rowsOfLayout : Layout → List Row → List Row → List Row → List Row
  | .v16, r16, _, _ => r16
  | .v14, _, r15, _ => r15
  | .v12, _, _, r12 => r12

theorem attrScore_all (rows : List Row) (h : ∀ row ∈ rows, plausibleAttrRow row = true) : attrScore rows = rows.length := by
  unfold attrScore
  rw [List.filter_eq_self.mpr h]

theorem betterRows_bad (best : List Row × Nat) (rows : List Row) (h : attrScore rows = 0) : betterRows best rows = best := by
  unfold betterRows
  rw [if_neg (by omega)]

theorem betterRows_good (rows : List Row) (h : ∀ row ∈ rows, plausibleAttrRow row = true) :
    betterRows ([], 0) rows = (rows, rows.length) := by
  unfold betterRows
  rw [attrScore_all rows h]
  cases rows with
  | nil => rfl
  | cons r rs => rw [if_pos (by simp)]

/-- a later layout cannot displace rows that are all plausible -/
theorem betterRows_keep (g rows : List Row) (h : attrScore rows = 0) : betterRows (g, g.length) rows = (g, g.length) :=
  betterRows_bad _ _ h

/-- **The layout choice.**  If the rows read under layout `l`'s schema all carry a legal attalign/attstorage pair and
none of the rows read under the two other schemas does, readAttrRowsWithDropped returns the rows of layout `l`. -/
theorem readAttrRows_select (rr : RowReader) (data : Bytes) (l : Layout) (r16 r15 r12 : List Row)
    (h16 : rr data schemaPGAttrDropped true = .ok r16) (h15 : rr data schemaPGAttrDroppedV15 true = .ok r15)
    (h12 : rr data schemaPGAttrDroppedV12 true = .ok r12)
    (hgood : ∀ row ∈ rowsOfLayout l r16 r15 r12, plausibleAttrRow row = true)
    (hb16 : l ≠ .v16 → attrScore r16 = 0) (hb15 : l ≠ .v14 → attrScore r15 = 0) (hb12 : l ≠ .v12 → attrScore r12 = 0) :
    readAttrRowsWithDropped rr data = .ok (rowsOfLayout l r16 r15 r12) := by
  simp only [readAttrRowsWithDropped, h16, h15, h12, ok_bind, pure_eq_ok]
  cases l with
  | v16 =>
    simp only [rowsOfLayout] at hgood ⊢
    rw [betterRows_good r16 hgood, betterRows_keep r16 r15 (hb15 (by decide)), betterRows_keep r16 r12 (hb12 (by decide))]
  | v14 =>
    simp only [rowsOfLayout] at hgood ⊢
    rw [betterRows_bad _ r16 (hb16 (by decide)), betterRows_good r15 hgood, betterRows_keep r15 r12 (hb12 (by decide))]
  | v12 =>
    simp only [rowsOfLayout] at hgood ⊢
    rw [betterRows_bad _ r16 (hb16 (by decide)), betterRows_bad _ r15 (hb15 (by decide)), betterRows_good r12 hgood]

/-! ### the orderings -/

theorem droppedLE_eq (a b : DroppedColumnInfo) : droppedLE a b = !droppedLess b a := by
  unfold droppedLE droppedLess
  generalize a.relOID = x
  generalize b.relOID = y
  generalize a.attNum = m
  generalize b.attNum = n
  by_cases h : x = y
  · subst h
    simp only [bne_self_eq_false, Bool.false_eq_true, if_false]
    by_cases h2 : m ≤ n
    · have : ¬ n < m := by omega
      simp [h2, this]
    · have : n < m := by omega
      simp [h2, this]
  · have h' : ¬ y = x := fun e => h e.symm
    have hx : (x != y) = true := by simpa using h
    have hy : (y != x) = true := by simpa using h'
    simp only [hx, hy, if_true]
    by_cases h2 : x < y
    · have : ¬ y < x := by omega
      simp [h2, this]
    · have : y < x := by omega
      simp [h2, this]

theorem insertByRelNum_eq (a : DroppedColumnInfo) (l : List DroppedColumnInfo) : insertByRelNum a l = insertDropped a l := by
  induction l with
  | nil => rfl
  | cons b bs ih =>
    unfold insertByRelNum insertDropped
    rw [droppedLE_eq]
    cases h : droppedLess b a <;> simp [ih]

/-- `sort.Slice(dropped, relid then attnum)` (stable insertion sort) is the specification's ordering — on every list -/
theorem sortByRelNum_eq (l : List DroppedColumnInfo) : sortByRelNum l = sortDropped l := by
  unfold sortByRelNum sortDropped
  induction l with
  | nil => rfl
  | cons a l ih => simp only [List.foldr_cons, ih, insertByRelNum_eq]

end PgVerif.Proofs.Dropped
